import AsmjitVerif.Props.C01FrontMem
import AsmjitVerif.Lemmas.X86ParseMem
/-!
# C01 — memory-operand compositions for all three prefix kinds (EVEX incl. forced EVEX, VEX3, VEX2) and the four operand shapes

`emitVexEvexM_base_bytes` gives the complete output of `EmitVexEvexM` on `[base64 + disp]`; `evexM_parsed` / `vex3M_parsed` / `vex2M_parsed` say what
the independent parser makes of these bytes (shape independent); the `vexM_*_formOk` theorems put both together with the shape lemmas of the monitor.
-/
set_option linter.constructorNameAsVariable false
set_option linter.unusedSimpArgs false
set_option linter.unusedVariables false
namespace AsmjitVerif.Props.C01
open Spec.X86 Model.X86 AsmjitVerif.Lemmas.X86Parse

/-- shape of the ModRM / SIB / displacement bytes of a `[base + disp]` operand, independent of the prefix kind -/
theorem memParts_shape (opReg7 rb d32 s : BitVec 32) (ho : opReg7 < 8#32) :
    bits (memHead opReg7 (rb &&& 7#32) (memVariant (rb &&& 7#32) d32 s)).1 6 2 ≠ 3 ∧
    (bits (memHead opReg7 (rb &&& 7#32) (memVariant (rb &&& 7#32) d32 s)).1 0 3 == 4) = (memHead opReg7 (rb &&& 7#32) (memVariant (rb &&& 7#32) d32 s)).2.isSome ∧
    (memDisp d32 s (memVariant (rb &&& 7#32) d32 s)).length =
      dispLen (memHead opReg7 (rb &&& 7#32) (memVariant (rb &&& 7#32) d32 s)).1 (memHead opReg7 (rb &&& 7#32) (memVariant (rb &&& 7#32) d32 s)).2 ∧
    bits (memHead opReg7 (rb &&& 7#32) (memVariant (rb &&& 7#32) d32 s)).1 3 3 = opReg7.toNat := by
  have hr7 : rb &&& 7#32 < 8#32 := by bv_decide
  have hvlt := memVariant_lt (rb &&& 7#32) d32 s
  have hv5 : memVariant (rb &&& 7#32) d32 s = 0 → rb &&& 7#32 ≠ 5#32 := by
    intro h0 h5
    unfold memVariant at h0
    simp [h5] at h0
    split at h0 <;> omega
  obtain ⟨fmod, fsib, freg, flen, -⟩ := memHead_factsBV _ _ _ ho hr7 hvlt hv5
  generalize hvdef : memVariant (rb &&& 7#32) d32 s = v at *
  refine ⟨by rw [fmod]; omega, fsib, ?_, freg⟩
  rw [flen]; unfold memDisp
  have : v = 0 ∨ v = 1 ∨ v = 2 := by omega
  rcases this with h | h | h <;> subst h <;> simp [le32]

theorem regNum_base (rb : BitVec 32) (hb : rb < 16#32) (B : Bool) (hB : B = rb.getLsbD 3) : regNum false B (rb &&& 7#32).toNat = rb.toNat := by
  have hr7 : rb &&& 7#32 < 8#32 := by bv_decide
  have hrb3 : (rb &&& 7#32).toNat = ((rb &&& 7#32).truncate 3 : BitVec 3).toNat := by
    have : (rb &&& 7#32).toNat < 8 := by simpa [BitVec.lt_def] using hr7
    rw [BitVec.truncate, BitVec.toNat_setWidth]; exact (Nat.mod_eq_of_lt this).symm
  rw [hrb3, hB]
  exact regNum_eq _ _ _ rb (by bv_decide)

/-- the memory check of the monitor on a parse whose ModRM / SIB / displacement are the parts of `[base64 + disp]` -/
theorem memParts_checkMem (ctx : Spec.X86.Ctx) (rule : Rule) (p : Parsed) (opReg7 rb s : BitVec 32) (size : Nat) (d : BitVec 64)
    (hm64 : ctx.mode64 = true) (ho : opReg7 < 8#32) (hb : rb < 16#32) (hs6 : s ≤ 6#32)
    (hpm : p.modrm = some (memHead opReg7 (rb &&& 7#32) (memVariant (rb &&& 7#32) (d.truncate 32) s)).1)
    (hps : p.sib = (memHead opReg7 (rb &&& 7#32) (memVariant (rb &&& 7#32) (d.truncate 32) s)).2)
    (hpd : p.dispSize = (memDisp (d.truncate 32) s (memVariant (rb &&& 7#32) (d.truncate 32) s)).length)
    (hpv : p.disp = leNat (memDisp (d.truncate 32) s (memVariant (rb &&& 7#32) (d.truncate 32) s)))
    (hpp : p.prefixes = []) (hpa : p.addr16 = false) (hpB : p.B = rb.getLsbD 3) (hpX : p.X = false)
    (hN : (if p.vexKind == 4 then disp8N rule p else 1) = 2 ^ s.toNat) :
    checkMem ctx rule p (memOpBase size rb d) = .ok () := by
  have hr7 : rb &&& 7#32 < 8#32 := by bv_decide
  have hvlt := memVariant_lt (rb &&& 7#32) (d.truncate 32) s
  have hv5 : memVariant (rb &&& 7#32) (d.truncate 32) s = 0 → rb &&& 7#32 ≠ 5#32 := by
    intro h0 h5
    unfold memVariant at h0
    simp [h5] at h0
    split at h0 <;> omega
  obtain ⟨fmod, fsib, freg, flen, fbase⟩ := memHead_factsBV _ _ _ ho hr7 hvlt hv5
  have hmd := memDisp_decoded (rb &&& 7#32) (d.truncate 32) s hs6
  simp only [] at hmd
  generalize hvdef : memVariant (rb &&& 7#32) (d.truncate 32) s = v at *
  generalize hhdef : memHead opReg7 (rb &&& 7#32) v = hd at *
  have hmodne : bits hd.1 6 2 ≠ 3 := by rw [fmod]; omega
  have hbaseNum := regNum_base rb hb p.B hpB
  have hne5 : bits hd.1 6 2 = 0 → (rb &&& 7#32).toNat ≠ 5 := by
    intro h0 h5
    rw [fmod] at h0
    exact hv5 h0 (by apply BitVec.eq_of_toNat_eq; simpa using h5)
  apply checkMem_base64 ctx rule p (memOpBase size rb d) hd.1 hm64 (by simp [hpp]) hpa hpm hmodne rfl rfl
  · obtain ⟨mb, sb⟩ := hd
    cases sb with
    | none =>
      left
      simp only [headBaseOk, beq_iff_eq] at fbase
      refine ⟨hps, ?_, ?_⟩
      · intro ⟨h0, h5⟩; exact hne5 h0 (by rw [← fbase]; exact h5)
      · show regNum false _ (bits mb 0 3) = rb.toNat
        rw [fbase]; exact hbaseNum
    | some sbyte =>
      right
      simp only [headBaseOk, Bool.and_eq_true, beq_iff_eq] at fbase
      obtain ⟨⟨fb1, fb2⟩, fb3⟩ := fbase
      refine ⟨sbyte, hps, ?_, ?_, ?_, fb3⟩
      · intro ⟨h0, h5⟩; exact hne5 h0 (by rw [← fb1]; exact h5)
      · show regNum false _ (bits sbyte 0 3) = rb.toNat
        rw [fb1]; exact hbaseNum
      · rw [hpX, fb2]; rfl
  · simp only [decodedDisp, hpd, hpv]
    have : (memOpBase size rb d).disp.toNat % 2 ^ 32 = (d.truncate 32 : BitVec 32).toNat := by simp [memOpBase, BitVec.toNat_setWidth]
    rw [this, hN]
    exact hmd


/-- ModRM byte of a `[base + disp]` operand -/
def memMb (opReg7 rb d32 s : BitVec 32) : BitVec 8 := (memHead opReg7 (rb &&& 7#32) (memVariant (rb &&& 7#32) d32 s)).1
/-- optional SIB byte -/
def memSib (opReg7 rb d32 s : BitVec 32) : Option (BitVec 8) := (memHead opReg7 (rb &&& 7#32) (memVariant (rb &&& 7#32) d32 s)).2
/-- displacement bytes -/
def memDs (rb d32 s : BitVec 32) : List (BitVec 8) := memDisp d32 s (memVariant (rb &&& 7#32) d32 s)

theorem cdShift_cleared (opcode : BitVec 32) : cdShiftOf (opcode &&& ~~~kCDSHL_Mask) = 0#32 := by
  simp only [cdShiftOf, kCDSHL_Mask]; bv_decide

theorem vex3Word_masked (x opcode : BitVec 32) : vex3Word x (opcode &&& ~~~kCDSHL_Mask) = vex3Word x opcode := by
  simp only [vex3Word, kCDSHL_Mask]; bv_decide

theorem evexWord_forced (x opcode : BitVec 32) : evexWord (x ||| 0x80000000#32) opcode = evexWord x opcode := by
  simp only [evexWord]; bv_decide

/-- `EmitVexEvexM` on `[base64 + disp]`: the complete output in its branches. EVEX is chosen when the instruction has no VEX form
(`vexFlag = false`, the "forced EVEX" bit 31 of `x`) or when a register / the opcode word needs it. -/
theorem emitVexEvexM_base_bytes (c : Model.X86.Ctx) (opcode reg vvvvv rb : BitVec 32) (size : Nat) (d imm : BitVec 64) (n : Nat)
    (hm : c.mode64 = true) (hpe : c.preferEvex = false) (hk : c.extraId = 0#32) (hvs : c.vsib = false) (hts : c.tsib = false)
    (hr : reg < 32#32) (hv : vvvvv < 32#32) (hb : rb < 16#32) (hxop : opcode &&& 0x800#32 = 0#32) :
    emitVexEvexM c opcode 0#32 (reg + (vvvvv <<< 7)) (memBase size rb d) imm n =
      .ok ((if c.vexFlag = false ∨ xR opcode 0#32 reg vvvvv rb 0#32 &&& 0x00D78150#32 ≠ 0#32 then
              le32 (evexWord (xR opcode 0#32 reg vvvvv rb 0#32) opcode) ++ [opcode.truncate 8] ++
                (memMb ((reg + (vvvvv <<< 7)) &&& 7#32) rb (d.truncate 32) (cdShiftOf (evexCdOpcodeOf opcode)) ::
                  ((memSib ((reg + (vvvvv <<< 7)) &&& 7#32) rb (d.truncate 32) (cdShiftOf (evexCdOpcodeOf opcode))).toList ++
                   memDs rb (d.truncate 32) (cdShiftOf (evexCdOpcodeOf opcode))))
            else if vexPrep (xR opcode 0#32 reg vvvvv rb 0#32) opcode 0#32 &&& 0x8000803E#32 ≠ 0#32 then
              le32 (vex3Word (vexPrep (xR opcode 0#32 reg vvvvv rb 0#32) opcode 0#32) opcode) ++
                (memMb ((reg + (vvvvv <<< 7)) &&& 7#32) rb (d.truncate 32) 0#32 ::
                  ((memSib ((reg + (vvvvv <<< 7)) &&& 7#32) rb (d.truncate 32) 0#32).toList ++ memDs rb (d.truncate 32) 0#32))
            else
              [0xC5#8, (vex2Byte (vexPrep (xR opcode 0#32 reg vvvvv rb 0#32) opcode 0#32)).truncate 8, opcode.truncate 8] ++
                (memMb ((reg + (vvvvv <<< 7)) &&& 7#32) rb (d.truncate 32) 0#32 ::
                  ((memSib ((reg + (vvvvv <<< 7)) &&& 7#32) rb (d.truncate 32) 0#32).toList ++ memDs rb (d.truncate 32) 0#32))) ++
           emitImmediate imm n) := by
  have hx31 : xMb opcode reg vvvvv rb &&& 0x80000000#32 = 0#32 := by simp only [xMb, extractLLMMMMM, kLL_Mask, kMM_Mask, oEvex]; bv_decide
  have h3 : (vexPrep (xR opcode 0#32 reg vvvvv rb 0#32) opcode 0#32 &&& 0x8000807E#32 ≠ 0#32) ↔
      (vexPrep (xR opcode 0#32 reg vvvvv rb 0#32) opcode 0#32 &&& 0x8000803E#32 ≠ 0#32) := by
    simp only [vexPrep, xR, extractLLMMMMM, kLL_Mask, kMM_Mask, oEvex, oVex3]
    constructor <;> intro h <;> bv_decide
  have hoff : (memBase size rb d).offLo32 = d.truncate 32 := rfl
  have hcd := evexCdOpcode_eq opcode reg vvvvv rb hr hv hb hxop
  simp only [evexCdOpcode] at hcd
  rw [emitVexEvexM_base_eq c opcode reg vvvvv rb size d imm n hm hpe hk hvs]
  cases hvf : c.vexFlag
  · -- forced EVEX
    have hx20 : (xMb opcode reg vvvvv rb ||| 0x80000000#32) &&& 0x00180040#32 = 0#32 := by
      simp only [xMb, extractLLMMMMM, kLL_Mask, kMM_Mask, oEvex]; bv_decide
    have hne : (xMb opcode reg vvvvv rb ||| 0x80000000#32) &&& 0x80D78150#32 ≠ 0#32 := by bv_decide
    simp only [Bool.false_eq_true, ↓reduceIte, true_or]
    rw [vexEvexMPrefix_nobcst c _ opcode _ hx20, if_pos hne, evexWord_forced, xMb_eq_xR opcode reg vvvvv rb hb]
    simp only []
    rw [emitModSib_base_parts c _ 0 _ 0#32 _ rb 0#32 0x0D#32 (memBase size rb d) imm n hts (by decide) (by decide), hoff, hcd]
    simp [memMb, memSib, memDs]
  · have hx20 : xMb opcode reg vvvvv rb &&& 0x00180040#32 = 0#32 := by simp only [xMb, extractLLMMMMM, kLL_Mask, kMM_Mask, oEvex]; bv_decide
    have hc : (xMb opcode reg vvvvv rb &&& 0x80D78150#32 ≠ 0#32) ↔ (xMb opcode reg vvvvv rb &&& 0x00D78150#32 ≠ 0#32) := by
      constructor <;> intro h <;> bv_decide
    simp only [↓reduceIte, Bool.true_eq_false, false_or]
    rw [vexEvexMPrefix_nobcst c _ opcode _ hx20]
    by_cases hev : xMb opcode reg vvvvv rb &&& 0x00D78150#32 ≠ 0#32
    · rw [if_pos (hc.mpr hev)]
      rw [xMb_eq_xR opcode reg vvvvv rb hb] at hev ⊢
      rw [if_pos hev]
      simp only []
      rw [emitModSib_base_parts c _ 0 _ 0#32 _ rb 0#32 0x0D#32 (memBase size rb d) imm n hts (by decide) (by decide), hoff, hcd]
      simp [memMb, memSib, memDs]
    · rw [if_neg (fun h => hev (hc.mp h))]
      rw [xMb_eq_xR opcode reg vvvvv rb hb] at hev ⊢
      rw [if_neg hev]
      by_cases hv3 : vexPrep (xR opcode 0#32 reg vvvvv rb 0#32) opcode 0#32 &&& 0x8000803E#32 ≠ 0#32
      · simp only [if_pos hv3, if_pos (h3.mpr hv3)]
        rw [emitModSib_base_parts c _ 0 _ 0#32 _ rb 0#32 0x0D#32 (memBase size rb d) imm n hts (by decide) (by decide), hoff, cdShift_cleared,
          vex3Word_masked]
        simp [memMb, memSib, memDs]
      · have hv3' : ¬ (vexPrep (xR opcode 0#32 reg vvvvv rb 0#32) opcode 0#32 &&& 0x8000807E#32 ≠ 0#32) := fun h => hv3 (h3.mp h)
        simp only [if_neg hv3, if_neg hv3']
        rw [emitModSib_base_parts c _ 0 _ 0#32 _ rb 0#32 0x0D#32 (memBase size rb d) imm n hts (by decide) (by decide), hoff, cdShift_cleared]
        simp [memMb, memSib, memDs]

/-! ### what the parser makes of the three kinds of byte sequences (independent of the operand shape) -/

/-- EVEX bytes with a `[base64 + disp]` operand; `hN` is the table-layer fact that the rule's disp8*N equals the scale the encoder's
compressed-displacement table selects -/
theorem evexM_parsed (ctx : Spec.X86.Ctx) (rule : Rule) (opcode reg vvvvv rb : BitVec 32) (size : Nat) (d : BitVec 64) (imm : List (BitVec 8))
    (hm64 : ctx.mode64 = true)
    (hr : reg < 32#32) (hv : vvvvv < 32#32) (hb : rb < 16#32) (hxop : opcode &&& 0x800#32 = 0#32)
    (R : VexRuleM rule imm.length) (hs : rule.space = 2) (A : RowAgree rule opcode true)
    (hs6 : cdShiftOf (evexCdOpcodeOf opcode) ≤ 6#32)
    (hN : disp8Nf rule ((opcode >>> 29) &&& 3#32).toNat ((((opcode >>> 27) ||| (opcode >>> 28)) &&& 1#32) == 1#32) false =
          2 ^ (cdShiftOf (evexCdOpcodeOf opcode)).toNat) :
    ∃ p, parse true rule (le32 (evexWord (xR opcode 0#32 reg vvvvv rb 0#32) opcode) ++ [opcode.truncate 8] ++
            (memMb ((reg + (vvvvv <<< 7)) &&& 7#32) rb (d.truncate 32) (cdShiftOf (evexCdOpcodeOf opcode)) ::
              ((memSib ((reg + (vvvvv <<< 7)) &&& 7#32) rb (d.truncate 32) (cdShiftOf (evexCdOpcodeOf opcode))).toList ++
               memDs rb (d.truncate 32) (cdShiftOf (evexCdOpcodeOf opcode)))) ++ imm) = .ok p ∧
      VexParsedM rule p (memMb ((reg + (vvvvv <<< 7)) &&& 7#32) rb (d.truncate 32) (cdShiftOf (evexCdOpcodeOf opcode))) ∧
      regNum p.R' p.R (bits (memMb ((reg + (vvvvv <<< 7)) &&& 7#32) rb (d.truncate 32) (cdShiftOf (evexCdOpcodeOf opcode))) 3 3) = reg.toNat ∧
      regNum p.V' false p.vvvv = vvvvv.toNat ∧
      checkMem ctx rule p (memOpBase size rb d) = .ok () ∧ p.imm = imm := by
  obtain ⟨hop, hmap, hpp, hw, hl⟩ := A
  have hs' : rule.space = 1 ∨ rule.space = 2 ∨ rule.space = 3 := Or.inr (Or.inl hs)
  obtain ⟨-, e15, e14, e13, e12, e11, e8, e23, e19, e18, e16, e31, e29, e28, e27, e24⟩ :=
    vex_evex_r_roundtrip opcode 0#32 reg vvvvv rb 0#32 hr hv (by bv_decide) (by decide) hxop (by decide)
  have hb0 : (evexWord (xR opcode 0#32 reg vvvvv rb 0#32) opcode).truncate 8 = 0x62#8 := by
    simp only [evexWord, xR, extractLLMMMMM, kLL_Mask, kMM_Mask, oEvex]; bv_decide
  generalize hsdef : cdShiftOf (evexCdOpcodeOf opcode) = s at *
  generalize hwdef : evexWord (xR opcode 0#32 reg vvvvv rb 0#32) opcode = w at *
  have ho7 : (reg + (vvvvv <<< 7)) &&& 7#32 < 8#32 := by bv_decide
  obtain ⟨hmodne, fsib, hdl, freg⟩ := memParts_shape ((reg + (vvvvv <<< 7)) &&& 7#32) rb (d.truncate 32) s ho7
  simp only [le32, List.cons_append, List.nil_append, hb0, List.append_assoc]
  have hparse := parse_evex_mem rule (BitVec.truncate 8 (w >>> 8)) (BitVec.truncate 8 (w >>> 16)) (BitVec.truncate 8 (w >>> 24)) (opcode.truncate 8)
    (memMb ((reg + (vvvvv <<< 7)) &&& 7#32) rb (d.truncate 32) s) (memSib ((reg + (vvvvv <<< 7)) &&& 7#32) rb (d.truncate 32) s)
    (memDs rb (d.truncate 32) s) imm hs R.hpp8 (by rcases R.hmk with h | h <;> simp [h]) (by simp only [bit]; bv_decide)
    (by simp only [bit]; bv_decide) hmodne fsib hdl (by simp [R.himm, R.hrel]) R.hmoff
  simp only [List.append_assoc] at hparse
  refine ⟨_, hparse, ?P, ?hreg, ?hvv, ?hcm, rfl⟩
  case P =>
    refine ⟨Or.inr (Or.inr (Or.inl rfl)), rfl, rfl, rfl, hmodne, ?_, ?_, ?_, ?_, ?_, by simp, ?_⟩
    · show (opcode.truncate 8 : BitVec 8).toNat = rule.opcode
      rw [hop]; exact toNat_eq_of_zext _ _ (by omega) (by bv_decide)
    · show bits _ 0 3 = rule.map
      rw [hmap]; exact toNat_eq_of_zext _ _ (by omega) (by bv_decide)
    · show bits _ 0 2 = ppWant rule
      rw [hpp]; exact toNat_eq_of_zext _ _ (by omega) (by bv_decide)
    · rw [wWant_nonlegacy rule hs']
      rcases hw with h | h
      · exact Or.inl h
      · right
        simp only [↓reduceIte] at h
        have hc : ((opcode >>> 27) ||| (opcode >>> 28)) &&& 1#32 = 0#32 ∨ ((opcode >>> 27) ||| (opcode >>> 28)) &&& 1#32 = 1#32 := by bv_decide
        rcases hc with hc | hc
        · rw [h, hc]; simp only [bit]; simp; bv_decide
        · rw [h, hc]; simp only [bit]; simp; bv_decide
    · rcases hl with h | h
      · exact Or.inl h
      · right; show bits _ 5 2 = rule.l; rw [h]; exact toNat_eq_of_zext _ _ (by omega) (by bv_decide)
    · intro _
      refine ⟨?_, ?_, ?_, ?_⟩
      · exact congrArg BitVec.toNat (show BitVec.extractLsb' 0 3 _ = 0#3 by bv_decide)
      · simp only [bit]; bv_decide
      · simp only [bit]; bv_decide
      · show bits _ 0 3 < 8
        have := (BitVec.extractLsb' 0 3 (BitVec.truncate 8 (w >>> 8))).isLt
        exact this
  case hreg =>
    have freg' : bits (memMb ((reg + (vvvvv <<< 7)) &&& 7#32) rb (d.truncate 32) s) 3 3 = ((reg + (vvvvv <<< 7)) &&& 7#32).toNat := freg
    rw [freg']
    have e3 : ((reg + (vvvvv <<< 7)) &&& 7#32).toNat = (((reg + (vvvvv <<< 7)) &&& 7#32).truncate 3 : BitVec 3).toNat := by
      have : ((reg + (vvvvv <<< 7)) &&& 7#32).toNat < 8 := by simpa [BitVec.lt_def] using ho7
      rw [BitVec.truncate, BitVec.toNat_setWidth]; exact (Nat.mod_eq_of_lt this).symm
    rw [e3]
    exact regNum_eq _ _ _ reg (by simp only [bit]; bv_decide)
  case hvv =>
    exact regNum_eq4 _ _ vvvvv (by simp only [bit]; bv_decide)
  case hcm =>
    have hL : bits (BitVec.truncate 8 (w >>> 24)) 5 2 = ((opcode >>> 29) &&& 3#32).toNat := toNat_eq_of_zext _ _ (by omega) (by bv_decide)
    have hW : bit (BitVec.truncate 8 (w >>> 16)) 7 = ((((opcode >>> 27) ||| (opcode >>> 28)) &&& 1#32) == 1#32) := by simp only [bit]; bv_decide
    have hB : bit (BitVec.truncate 8 (w >>> 24)) 4 = false := by simp only [bit]; bv_decide
    refine memParts_checkMem ctx rule _ ((reg + (vvvvv <<< 7)) &&& 7#32) rb s size d hm64 ho7 hb hs6 rfl rfl rfl rfl rfl rfl ?_ ?_ ?_
    · show (!bit (BitVec.truncate 8 (w >>> 8)) 5) = rb.getLsbD 3
      simp only [bit]; bv_decide
    · show (!bit (BitVec.truncate 8 (w >>> 8)) 6) = false
      simp only [bit]; bv_decide
    · simp only [disp8N, hL, hW, hB, hN, beq_self_eq_true, ↓reduceIte]

/-- VEX3 bytes (C4) with a `[base64 + disp]` operand: plain displacement (no compression: CDSHL is cleared on this path) -/
theorem vex3M_parsed (ctx : Spec.X86.Ctx) (rule : Rule) (opcode reg vvvvv rb : BitVec 32) (size : Nat) (d : BitVec 64) (imm : List (BitVec 8))
    (hm64 : ctx.mode64 = true)
    (hr : reg < 16#32) (hv : vvvvv < 16#32) (hb : rb < 16#32) (hxop : opcode &&& 0x800#32 = 0#32) (hll : opcode &&& 0x40001000#32 = 0#32)
    (R : VexRuleM rule imm.length) (hs : rule.space = 1) (A : RowAgree rule opcode false) :
    ∃ p, parse true rule (le32 (vex3Word (vexPrep (xR opcode 0#32 reg vvvvv rb 0#32) opcode 0#32) opcode) ++
            (memMb ((reg + (vvvvv <<< 7)) &&& 7#32) rb (d.truncate 32) 0#32 ::
              ((memSib ((reg + (vvvvv <<< 7)) &&& 7#32) rb (d.truncate 32) 0#32).toList ++ memDs rb (d.truncate 32) 0#32)) ++ imm) = .ok p ∧
      VexParsedM rule p (memMb ((reg + (vvvvv <<< 7)) &&& 7#32) rb (d.truncate 32) 0#32) ∧
      regNum p.R' p.R (bits (memMb ((reg + (vvvvv <<< 7)) &&& 7#32) rb (d.truncate 32) 0#32) 3 3) = reg.toNat ∧
      regNum p.V' false p.vvvv = vvvvv.toNat ∧
      checkMem ctx rule p (memOpBase size rb d) = .ok () ∧ p.imm = imm := by
  obtain ⟨hop, hmap, hpp, hw, hl⟩ := A
  have hs' : rule.space = 1 ∨ rule.space = 2 ∨ rule.space = 3 := Or.inl hs
  obtain ⟨e0, -, e15, e14, e13, e8, e23, e19, e18, e16, e24⟩ :=
    vex3_r_roundtrip opcode 0#32 reg vvvvv rb hr hv hb (by decide) hll
  have hb0 : (vex3Word (vexPrep (xR opcode 0#32 reg vvvvv rb 0#32) opcode 0#32) opcode).truncate 8 = 0xC4#8 := by
    have := e0 hxop
    bv_decide
  generalize vex3Word (vexPrep (xR opcode 0#32 reg vvvvv rb 0#32) opcode 0#32) opcode = w at *
  have ho7 : (reg + (vvvvv <<< 7)) &&& 7#32 < 8#32 := by bv_decide
  obtain ⟨hmodne, fsib, hdl, freg⟩ := memParts_shape ((reg + (vvvvv <<< 7)) &&& 7#32) rb (d.truncate 32) 0#32 ho7
  simp only [le32, List.cons_append, List.nil_append, hb0, List.append_assoc]
  have hparse := parse_vex3_mem rule (BitVec.truncate 8 (w >>> 8)) (BitVec.truncate 8 (w >>> 16)) (BitVec.truncate 8 (w >>> 24))
    (memMb ((reg + (vvvvv <<< 7)) &&& 7#32) rb (d.truncate 32) 0#32) (memSib ((reg + (vvvvv <<< 7)) &&& 7#32) rb (d.truncate 32) 0#32)
    (memDs rb (d.truncate 32) 0#32) imm hs R.hpp8 (by rcases R.hmk with h | h <;> simp [h]) hmodne fsib hdl (by simp [R.himm, R.hrel]) R.hmoff
  simp only [List.append_assoc] at hparse
  refine ⟨_, hparse, ?P, ?hreg, ?hvv, ?hcm, rfl⟩
  case P =>
    refine ⟨Or.inr (Or.inl rfl), rfl, rfl, rfl, hmodne, ?_, ?_, ?_, ?_, ?_, ?_, by simp⟩
    · show (BitVec.truncate 8 (w >>> 24)).toNat = rule.opcode
      rw [hop]; exact toNat_eq_of_zext _ _ (by omega) (by bv_decide)
    · show bits _ 0 5 = rule.map
      rw [hmap]; exact toNat_eq_of_zext _ _ (by omega) (by bv_decide)
    · show bits _ 0 2 = ppWant rule
      rw [hpp]; exact toNat_eq_of_zext _ _ (by omega) (by bv_decide)
    · rw [wWant_nonlegacy rule hs']
      rcases hw with h | h
      · exact Or.inl h
      · right
        simp only [Bool.false_eq_true, ↓reduceIte] at h
        have hc : (opcode >>> 27) &&& 1#32 = 0#32 ∨ (opcode >>> 27) &&& 1#32 = 1#32 := by bv_decide
        rcases hc with hc | hc
        · rw [h, hc]; simp only [bit]; simp; bv_decide
        · rw [h, hc]; simp only [bit]; simp; bv_decide
    · rcases hl with h | h
      · exact Or.inl h
      · right; show bits _ 2 1 = rule.l; rw [h]; exact toNat_eq_of_zext _ _ (by omega) (by bv_decide)
    · intro _
      show bits _ 2 1 ≤ 1
      have := (BitVec.extractLsb' 2 1 (BitVec.truncate 8 (w >>> 16))).isLt
      simp only [bits]; omega
  case hreg =>
    have freg' : bits (memMb ((reg + (vvvvv <<< 7)) &&& 7#32) rb (d.truncate 32) 0#32) 3 3 = ((reg + (vvvvv <<< 7)) &&& 7#32).toNat := freg
    rw [freg']
    have e3 : ((reg + (vvvvv <<< 7)) &&& 7#32).toNat = (((reg + (vvvvv <<< 7)) &&& 7#32).truncate 3 : BitVec 3).toNat := by
      have : ((reg + (vvvvv <<< 7)) &&& 7#32).toNat < 8 := by simpa [BitVec.lt_def] using ho7
      rw [BitVec.truncate, BitVec.toNat_setWidth]; exact (Nat.mod_eq_of_lt this).symm
    rw [e3]
    exact regNum_eq _ _ _ reg (by simp only [bit]; bv_decide)
  case hvv =>
    exact regNum_eq4 _ _ vvvvv (by simp only [bit]; bv_decide)
  case hcm =>
    refine memParts_checkMem ctx rule _ ((reg + (vvvvv <<< 7)) &&& 7#32) rb 0#32 size d hm64 ho7 hb (by decide) rfl rfl rfl rfl rfl rfl ?_ ?_ ?_
    · show (!bit (BitVec.truncate 8 (w >>> 8)) 5) = rb.getLsbD 3
      simp only [bit]; bv_decide
    · show (!bit (BitVec.truncate 8 (w >>> 8)) 6) = false
      simp only [bit]; bv_decide
    · rfl

/-- VEX2 bytes (C5) with a `[base64 + disp]` operand; chosen only when representable (base < 8, W = 0, map 0F) -/
theorem vex2M_parsed (ctx : Spec.X86.Ctx) (rule : Rule) (opcode reg vvvvv rb : BitVec 32) (size : Nat) (d : BitVec 64) (imm : List (BitVec 8))
    (hm64 : ctx.mode64 = true)
    (hr : reg < 16#32) (hv : vvvvv < 16#32) (hb : rb < 16#32) (hll : opcode &&& 0x40001000#32 = 0#32) (hmm : opcode &&& 0x100#32 ≠ 0#32)
    (h2 : vexPrep (xR opcode 0#32 reg vvvvv rb 0#32) opcode 0#32 &&& 0x8000803E#32 = 0#32)
    (R : VexRuleM rule imm.length) (hs : rule.space = 1) (A : RowAgree rule opcode false) :
    ∃ p, parse true rule ([0xC5#8, (vex2Byte (vexPrep (xR opcode 0#32 reg vvvvv rb 0#32) opcode 0#32)).truncate 8, opcode.truncate 8] ++
            (memMb ((reg + (vvvvv <<< 7)) &&& 7#32) rb (d.truncate 32) 0#32 ::
              ((memSib ((reg + (vvvvv <<< 7)) &&& 7#32) rb (d.truncate 32) 0#32).toList ++ memDs rb (d.truncate 32) 0#32)) ++ imm) = .ok p ∧
      VexParsedM rule p (memMb ((reg + (vvvvv <<< 7)) &&& 7#32) rb (d.truncate 32) 0#32) ∧
      regNum p.R' p.R (bits (memMb ((reg + (vvvvv <<< 7)) &&& 7#32) rb (d.truncate 32) 0#32) 3 3) = reg.toNat ∧
      regNum p.V' false p.vvvv = vvvvv.toNat ∧
      checkMem ctx rule p (memOpBase size rb d) = .ok () ∧ p.imm = imm := by
  obtain ⟨hop, hmap, hpp, hw, hl⟩ := A
  have hs' : rule.space = 1 ∨ rule.space = 2 ∨ rule.space = 3 := Or.inl hs
  obtain ⟨hiff, hf⟩ := vex2_r_only_when_representable opcode 0#32 reg vvvvv rb hr hv hb (by decide) hll hmm
  obtain ⟨hrm8, hW0, hmm0, -⟩ := hiff.mp h2
  obtain ⟨e7, e3, e2, e0⟩ := hf h2
  generalize (BitVec.truncate 8 (vex2Byte (vexPrep (xR opcode 0#32 reg vvvvv rb 0#32) opcode 0#32)) : BitVec 8) = b1 at *
  have ho7 : (reg + (vvvvv <<< 7)) &&& 7#32 < 8#32 := by bv_decide
  obtain ⟨hmodne, fsib, hdl, freg⟩ := memParts_shape ((reg + (vvvvv <<< 7)) &&& 7#32) rb (d.truncate 32) 0#32 ho7
  simp only [List.cons_append, List.nil_append, List.append_assoc]
  have hparse := parse_vex2_mem rule b1 (opcode.truncate 8)
    (memMb ((reg + (vvvvv <<< 7)) &&& 7#32) rb (d.truncate 32) 0#32) (memSib ((reg + (vvvvv <<< 7)) &&& 7#32) rb (d.truncate 32) 0#32)
    (memDs rb (d.truncate 32) 0#32) imm hs R.hpp8 (by rcases R.hmk with h | h <;> simp [h]) hmodne fsib hdl (by simp [R.himm, R.hrel]) R.hmoff
  simp only [List.append_assoc] at hparse
  refine ⟨_, hparse, ?P, ?hreg, ?hvv, ?hcm, rfl⟩
  case P =>
    refine ⟨Or.inl rfl, rfl, rfl, rfl, hmodne, ?_, ?_, ?_, ?_, ?_, ?_, by simp⟩
    · show (opcode.truncate 8 : BitVec 8).toNat = rule.opcode
      rw [hop]; exact toNat_eq_of_zext _ _ (by omega) (by bv_decide)
    · show 1 = rule.map
      rw [hmap]; exact (congrArg BitVec.toNat (show (opcode >>> 8) &&& 0xF#32 = 1#32 by bv_decide)).symm
    · show bits _ 0 2 = ppWant rule
      rw [hpp]; exact toNat_eq_of_zext _ _ (by omega) (by bv_decide)
    · rw [wWant_nonlegacy rule hs']
      rcases hw with h | h
      · exact Or.inl h
      · right
        simp only [Bool.false_eq_true, ↓reduceIte] at h
        have hc : (opcode >>> 27) &&& 1#32 = 0#32 := by bv_decide
        rw [h, hc]; simp
    · rcases hl with h | h
      · exact Or.inl h
      · right; show bits _ 2 1 = rule.l; rw [h]; exact toNat_eq_of_zext _ _ (by omega) (by bv_decide)
    · intro _
      show bits _ 2 1 ≤ 1
      have := (BitVec.extractLsb' 2 1 b1).isLt
      simp only [bits]; omega
  case hreg =>
    have freg' : bits (memMb ((reg + (vvvvv <<< 7)) &&& 7#32) rb (d.truncate 32) 0#32) 3 3 = ((reg + (vvvvv <<< 7)) &&& 7#32).toNat := freg
    rw [freg']
    have e3 : ((reg + (vvvvv <<< 7)) &&& 7#32).toNat = (((reg + (vvvvv <<< 7)) &&& 7#32).truncate 3 : BitVec 3).toNat := by
      have : ((reg + (vvvvv <<< 7)) &&& 7#32).toNat < 8 := by simpa [BitVec.lt_def] using ho7
      rw [BitVec.truncate, BitVec.toNat_setWidth]; exact (Nat.mod_eq_of_lt this).symm
    rw [e3]
    exact regNum_eq _ _ _ reg (by simp only [bit]; simp; bv_decide)
  case hvv =>
    exact regNum_eq4 _ _ vvvvv (by simp only [bit]; simp; bv_decide)
  case hcm =>
    refine memParts_checkMem ctx rule _ ((reg + (vvvvv <<< 7)) &&& 7#32) rb 0#32 size d hm64 ho7 hb (by decide) rfl rfl rfl rfl rfl rfl ?_ ?_ ?_
    · show false = rb.getLsbD 3
      bv_decide
    · rfl
    · rfl

/-! ### compositions: shape × prefix kind -/

/-- shape [reg, vvvv, MEM = [base64 + disp]], EVEX rule: the bytes of `EmitVexEvexM` when the EVEX branch is taken (the instruction has no
VEX form, or a register / the opcode word needs EVEX) satisfy the monitor -/
theorem vexM_rvm_formOk_evex (c : Model.X86.Ctx) (ctx : Spec.X86.Ctx) (rule : Rule) (opcode reg vvvvv rb : BitVec 32) (size : Nat) (d : BitVec 64)
    (k0 k1 : RegKind) (f0 f1 f2 : FormOp)
    (hcm : c.mode64 = true) (hpe : c.preferEvex = false) (hk : c.extraId = 0#32) (hvs : c.vsib = false) (hts : c.tsib = false)
    (hm64 : ctx.mode64 = true) (hmode : (rule.modes &&& 2 != 0) = true)
    (hr : reg < 32#32) (hv : vvvvv < 32#32) (hb : rb < 16#32) (hxop : opcode &&& 0x800#32 = 0#32)
    (hev : c.vexFlag = false ∨ xR opcode 0#32 reg vvvvv rb 0#32 &&& 0x00D78150#32 ≠ 0#32)
    (hk0 : PlainKind k0) (hk1 : PlainKind k1)
    (R : VexRuleM rule 0) (hs : rule.space = 2) (A : RowAgree rule opcode true)
    (hs6 : cdShiftOf (evexCdOpcodeOf opcode) ≤ 6#32)
    (hN : disp8Nf rule ((opcode >>> 29) &&& 3#32).toNat ((((opcode >>> 27) ||| (opcode >>> 28)) &&& 1#32) == 1#32) false =
          2 ^ (cdShiftOf (evexCdOpcodeOf opcode)).toNat)
    (hf0 : f0.role = .reg) (hf1 : f1.role = .vvvv) (hf2 : f2.role = .rm)
    (hal : alignOps rule.oszEff rule.ops [.reg k0 reg.toNat, .reg k1 vvvvv.toNat, .mem (memOpBase size rb d)] =
           some [(f0, some (.reg k0 reg.toNat)), (f1, some (.reg k1 vvvvv.toNat)), (f2, some (.mem (memOpBase size rb d)))]) :
    ∃ bytes, emitVexEvexM c opcode 0#32 (reg + (vvvvv <<< 7)) (memBase size rb d) 0 0 = .ok bytes ∧
      formOk ctx rule [.reg k0 reg.toNat, .reg k1 vvvvv.toNat, .mem (memOpBase size rb d)] {} bytes = true := by
  rw [emitVexEvexM_base_bytes c opcode reg vvvvv rb size d 0 0 hcm hpe hk hvs hts hr hv hb hxop, if_pos hev]
  refine ⟨_, rfl, ?_⟩
  obtain ⟨p, hp, P, h0, h1, hc, hi⟩ := evexM_parsed ctx rule opcode reg vvvvv rb size d [] hm64 hr hv hb hxop R hs A hs6 hN
  simp only [emitImmediate] at *
  exact vex_rvm_mem_formOk ctx rule p _ _ k0 k1 f0 f1 f2 _ _ _ hm64 hmode hk0 hk1 R hf0 hf1 hf2 rfl rfl rfl rfl hal hp P h0 h1 hc

/-- shape [reg, vvvv, MEM = [base64 + disp]], VEX rule: the VEX3 or VEX2 bytes `EmitVexEvexM` emits when EVEX is not needed satisfy the monitor -/
theorem vexM_rvm_formOk_vex (c : Model.X86.Ctx) (ctx : Spec.X86.Ctx) (rule : Rule) (opcode reg vvvvv rb : BitVec 32) (size : Nat) (d : BitVec 64)
    (k0 k1 : RegKind) (f0 f1 f2 : FormOp)
    (hcm : c.mode64 = true) (hpe : c.preferEvex = false) (hk : c.extraId = 0#32) (hvf : c.vexFlag = true) (hvs : c.vsib = false) (hts : c.tsib = false)
    (hm64 : ctx.mode64 = true) (hmode : (rule.modes &&& 2 != 0) = true)
    (hr : reg < 16#32) (hv : vvvvv < 16#32) (hb : rb < 16#32) (hxop : opcode &&& 0x800#32 = 0#32) (hll : opcode &&& 0x40001000#32 = 0#32)
    (hmm : opcode &&& 0x1F00#32 ≠ 0#32)
    (hk0 : PlainKind k0) (hk1 : PlainKind k1)
    (R : VexRuleM rule 0) (hs : rule.space = 1) (A : RowAgree rule opcode false)
    (hf0 : f0.role = .reg) (hf1 : f1.role = .vvvv) (hf2 : f2.role = .rm)
    (hal : alignOps rule.oszEff rule.ops [.reg k0 reg.toNat, .reg k1 vvvvv.toNat, .mem (memOpBase size rb d)] =
           some [(f0, some (.reg k0 reg.toNat)), (f1, some (.reg k1 vvvvv.toNat)), (f2, some (.mem (memOpBase size rb d)))]) :
    ∃ bytes, emitVexEvexM c opcode 0#32 (reg + (vvvvv <<< 7)) (memBase size rb d) 0 0 = .ok bytes ∧
      formOk ctx rule [.reg k0 reg.toNat, .reg k1 vvvvv.toNat, .mem (memOpBase size rb d)] {} bytes = true := by
  have hnev : ¬ (c.vexFlag = false ∨ xR opcode 0#32 reg vvvvv rb 0#32 &&& 0x00D78150#32 ≠ 0#32) := by
    rw [evex_r_chosen_iff opcode 0#32 reg vvvvv rb 0#32 (by bv_decide) (by bv_decide) (by bv_decide) (by decide) (by decide), hvf]
    intro h
    rcases h with h | h | h | h | h | h | h | h
    · exact absurd h (by decide)
    all_goals bv_decide
  rw [emitVexEvexM_base_bytes c opcode reg vvvvv rb size d 0 0 hcm hpe hk hvs hts (by bv_decide) (by bv_decide) hb hxop, if_neg hnev]
  by_cases h3 : vexPrep (xR opcode 0#32 reg vvvvv rb 0#32) opcode 0#32 &&& 0x8000803E#32 ≠ 0#32
  · rw [if_pos h3]
    refine ⟨_, rfl, ?_⟩
    obtain ⟨p, hp, P, h0, h1, hc, hi⟩ := vex3M_parsed ctx rule opcode reg vvvvv rb size d [] hm64 hr hv hb hxop hll R hs A
    simp only [emitImmediate] at *
    exact vex_rvm_mem_formOk ctx rule p _ _ k0 k1 f0 f1 f2 _ _ _ hm64 hmode hk0 hk1 R hf0 hf1 hf2 rfl rfl rfl rfl hal hp P h0 h1 hc
  · rw [if_neg h3]
    refine ⟨_, rfl, ?_⟩
    have h3' : vexPrep (xR opcode 0#32 reg vvvvv rb 0#32) opcode 0#32 &&& 0x8000803E#32 = 0#32 := by simpa using h3
    have hmm1 : opcode &&& 0x100#32 ≠ 0#32 := by
      simp only [vexPrep, xR, extractLLMMMMM, kLL_Mask, kMM_Mask, oEvex, oVex3] at h3'
      bv_decide
    obtain ⟨p, hp, P, h0, h1, hc, hi⟩ := vex2M_parsed ctx rule opcode reg vvvvv rb size d [] hm64 hr hv hb hll hmm1 h3' R hs A
    simp only [emitImmediate] at *
    exact vex_rvm_mem_formOk ctx rule p _ _ k0 k1 f0 f1 f2 _ _ _ hm64 hmode hk0 hk1 R hf0 hf1 hf2 rfl rfl rfl rfl hal hp P h0 h1 hc


/-- shape [reg, MEM = [base64 + disp]], EVEX rule: the bytes of `EmitVexEvexM` when the EVEX branch is taken (the instruction has no
VEX form, or a register / the opcode word needs EVEX) satisfy the monitor -/
theorem vexM_rm_formOk_evex (c : Model.X86.Ctx) (ctx : Spec.X86.Ctx) (rule : Rule) (opcode reg rb : BitVec 32) (size : Nat) (d : BitVec 64)
    (k0 : RegKind) (f0 f2 : FormOp)
    (hcm : c.mode64 = true) (hpe : c.preferEvex = false) (hk : c.extraId = 0#32) (hvs : c.vsib = false) (hts : c.tsib = false)
    (hm64 : ctx.mode64 = true) (hmode : (rule.modes &&& 2 != 0) = true)
    (hr : reg < 32#32) (hb : rb < 16#32) (hxop : opcode &&& 0x800#32 = 0#32)
    (hev : c.vexFlag = false ∨ xR opcode 0#32 reg 0#32 rb 0#32 &&& 0x00D78150#32 ≠ 0#32)
    (hk0 : PlainKind k0)
    (R : VexRuleM rule 0) (hs : rule.space = 2) (A : RowAgree rule opcode true)
    (hs6 : cdShiftOf (evexCdOpcodeOf opcode) ≤ 6#32)
    (hN : disp8Nf rule ((opcode >>> 29) &&& 3#32).toNat ((((opcode >>> 27) ||| (opcode >>> 28)) &&& 1#32) == 1#32) false =
          2 ^ (cdShiftOf (evexCdOpcodeOf opcode)).toNat)
    (hf0 : f0.role = .reg) (hf2 : f2.role = .rm)
    (hal : alignOps rule.oszEff rule.ops [.reg k0 reg.toNat, .mem (memOpBase size rb d)] =
           some [(f0, some (.reg k0 reg.toNat)), (f2, some (.mem (memOpBase size rb d)))]) :
    ∃ bytes, emitVexEvexM c opcode 0#32 (reg + (0#32 <<< 7)) (memBase size rb d) 0 0 = .ok bytes ∧
      formOk ctx rule [.reg k0 reg.toNat, .mem (memOpBase size rb d)] {} bytes = true := by
  rw [emitVexEvexM_base_bytes c opcode reg 0#32 rb size d 0 0 hcm hpe hk hvs hts hr (by decide) hb hxop, if_pos hev]
  refine ⟨_, rfl, ?_⟩
  obtain ⟨p, hp, P, h0, h1, hc, hi⟩ := evexM_parsed ctx rule opcode reg 0#32 rb size d [] hm64 hr (by decide) hb hxop R hs A hs6 hN
  simp only [emitImmediate] at *
  exact vex_rm_mem_formOk ctx rule p _ _ k0 f0 f2 _ _ hm64 hmode hk0 R hf0 hf2 rfl rfl rfl rfl hal hp P h0 h1 hc

/-- shape [reg, MEM = [base64 + disp]], VEX rule: the VEX3 or VEX2 bytes `EmitVexEvexM` emits when EVEX is not needed satisfy the monitor -/
theorem vexM_rm_formOk_vex (c : Model.X86.Ctx) (ctx : Spec.X86.Ctx) (rule : Rule) (opcode reg rb : BitVec 32) (size : Nat) (d : BitVec 64)
    (k0 : RegKind) (f0 f2 : FormOp)
    (hcm : c.mode64 = true) (hpe : c.preferEvex = false) (hk : c.extraId = 0#32) (hvf : c.vexFlag = true) (hvs : c.vsib = false) (hts : c.tsib = false)
    (hm64 : ctx.mode64 = true) (hmode : (rule.modes &&& 2 != 0) = true)
    (hr : reg < 16#32) (hb : rb < 16#32) (hxop : opcode &&& 0x800#32 = 0#32) (hll : opcode &&& 0x40001000#32 = 0#32)
    (hmm : opcode &&& 0x1F00#32 ≠ 0#32)
    (hk0 : PlainKind k0)
    (R : VexRuleM rule 0) (hs : rule.space = 1) (A : RowAgree rule opcode false)
    (hf0 : f0.role = .reg) (hf2 : f2.role = .rm)
    (hal : alignOps rule.oszEff rule.ops [.reg k0 reg.toNat, .mem (memOpBase size rb d)] =
           some [(f0, some (.reg k0 reg.toNat)), (f2, some (.mem (memOpBase size rb d)))]) :
    ∃ bytes, emitVexEvexM c opcode 0#32 (reg + (0#32 <<< 7)) (memBase size rb d) 0 0 = .ok bytes ∧
      formOk ctx rule [.reg k0 reg.toNat, .mem (memOpBase size rb d)] {} bytes = true := by
  have hnev : ¬ (c.vexFlag = false ∨ xR opcode 0#32 reg 0#32 rb 0#32 &&& 0x00D78150#32 ≠ 0#32) := by
    rw [evex_r_chosen_iff opcode 0#32 reg 0#32 rb 0#32 (by bv_decide) (by bv_decide) (by bv_decide) (by decide) (by decide), hvf]
    intro h
    rcases h with h | h | h | h | h | h | h | h
    · exact absurd h (by decide)
    all_goals bv_decide
  rw [emitVexEvexM_base_bytes c opcode reg 0#32 rb size d 0 0 hcm hpe hk hvs hts (by bv_decide) (by bv_decide) hb hxop, if_neg hnev]
  by_cases h3 : vexPrep (xR opcode 0#32 reg 0#32 rb 0#32) opcode 0#32 &&& 0x8000803E#32 ≠ 0#32
  · rw [if_pos h3]
    refine ⟨_, rfl, ?_⟩
    obtain ⟨p, hp, P, h0, h1, hc, hi⟩ := vex3M_parsed ctx rule opcode reg 0#32 rb size d [] hm64 hr (by decide) hb hxop hll R hs A
    simp only [emitImmediate] at *
    exact vex_rm_mem_formOk ctx rule p _ _ k0 f0 f2 _ _ hm64 hmode hk0 R hf0 hf2 rfl rfl rfl rfl hal hp P h0 h1 hc
  · rw [if_neg h3]
    refine ⟨_, rfl, ?_⟩
    have h3' : vexPrep (xR opcode 0#32 reg 0#32 rb 0#32) opcode 0#32 &&& 0x8000803E#32 = 0#32 := by simpa using h3
    have hmm1 : opcode &&& 0x100#32 ≠ 0#32 := by
      simp only [vexPrep, xR, extractLLMMMMM, kLL_Mask, kMM_Mask, oEvex, oVex3] at h3'
      bv_decide
    obtain ⟨p, hp, P, h0, h1, hc, hi⟩ := vex2M_parsed ctx rule opcode reg 0#32 rb size d [] hm64 hr (by decide) hb hll hmm1 h3' R hs A
    simp only [emitImmediate] at *
    exact vex_rm_mem_formOk ctx rule p _ _ k0 f0 f2 _ _ hm64 hmode hk0 R hf0 hf2 rfl rfl rfl rfl hal hp P h0 h1 hc


/-- shape [reg, vvvv, MEM = [base64 + disp], imm8], EVEX rule: the bytes of `EmitVexEvexM` when the EVEX branch is taken (the instruction has no
VEX form, or a register / the opcode word needs EVEX) satisfy the monitor -/
theorem vexM_rvmi_formOk_evex (c : Model.X86.Ctx) (ctx : Spec.X86.Ctx) (rule : Rule) (opcode reg vvvvv rb : BitVec 32) (size : Nat) (d : BitVec 64)
    (k0 k1 : RegKind) (f0 f1 f2 : FormOp)
    (hcm : c.mode64 = true) (hpe : c.preferEvex = false) (hk : c.extraId = 0#32) (hvs : c.vsib = false) (hts : c.tsib = false)
    (hm64 : ctx.mode64 = true) (hmode : (rule.modes &&& 2 != 0) = true)
    (hr : reg < 32#32) (hv : vvvvv < 32#32) (hb : rb < 16#32) (hxop : opcode &&& 0x800#32 = 0#32)
    (hev : c.vexFlag = false ∨ xR opcode 0#32 reg vvvvv rb 0#32 &&& 0x00D78150#32 ≠ 0#32)
    (hk0 : PlainKind k0) (hk1 : PlainKind k1)
    (R : VexRuleM rule 1) (f3 : FormOp) (imm : BitVec 64) (hf3 : f3.role = .imm) (hib : immBitsOf f3 = 8) (hs : rule.space = 2) (A : RowAgree rule opcode true)
    (hs6 : cdShiftOf (evexCdOpcodeOf opcode) ≤ 6#32)
    (hN : disp8Nf rule ((opcode >>> 29) &&& 3#32).toNat ((((opcode >>> 27) ||| (opcode >>> 28)) &&& 1#32) == 1#32) false =
          2 ^ (cdShiftOf (evexCdOpcodeOf opcode)).toNat)
    (hf0 : f0.role = .reg) (hf1 : f1.role = .vvvv) (hf2 : f2.role = .rm)
    (hal : alignOps rule.oszEff rule.ops [.reg k0 reg.toNat, .reg k1 vvvvv.toNat, .mem (memOpBase size rb d), .imm imm] =
           some [(f0, some (.reg k0 reg.toNat)), (f1, some (.reg k1 vvvvv.toNat)), (f2, some (.mem (memOpBase size rb d))), (f3, some (.imm imm))]) :
    ∃ bytes, emitVexEvexM c opcode 0#32 (reg + (vvvvv <<< 7)) (memBase size rb d) imm 1 = .ok bytes ∧
      formOk ctx rule [.reg k0 reg.toNat, .reg k1 vvvvv.toNat, .mem (memOpBase size rb d), .imm imm] {} bytes = true := by
  rw [emitVexEvexM_base_bytes c opcode reg vvvvv rb size d imm 1 hcm hpe hk hvs hts hr hv hb hxop, if_pos hev]
  refine ⟨_, rfl, ?_⟩
  obtain ⟨p, hp, P, h0, h1, hc, hi⟩ := evexM_parsed ctx rule opcode reg vvvvv rb size d [imm.truncate 8] hm64 hr hv hb hxop R hs A hs6 hN
  simp only [emitImmediate] at *
  exact vex_rvmi_mem_formOk ctx rule p _ _ k0 k1 f0 f1 f2 _ _ _ hm64 hmode hk0 hk1 R f3 imm hf3 hib (by simp [hi]) hf0 hf1 hf2 rfl rfl rfl rfl hal hp P h0 h1 hc

/-- shape [reg, vvvv, MEM = [base64 + disp], imm8], VEX rule: the VEX3 or VEX2 bytes `EmitVexEvexM` emits when EVEX is not needed satisfy the monitor -/
theorem vexM_rvmi_formOk_vex (c : Model.X86.Ctx) (ctx : Spec.X86.Ctx) (rule : Rule) (opcode reg vvvvv rb : BitVec 32) (size : Nat) (d : BitVec 64)
    (k0 k1 : RegKind) (f0 f1 f2 : FormOp)
    (hcm : c.mode64 = true) (hpe : c.preferEvex = false) (hk : c.extraId = 0#32) (hvf : c.vexFlag = true) (hvs : c.vsib = false) (hts : c.tsib = false)
    (hm64 : ctx.mode64 = true) (hmode : (rule.modes &&& 2 != 0) = true)
    (hr : reg < 16#32) (hv : vvvvv < 16#32) (hb : rb < 16#32) (hxop : opcode &&& 0x800#32 = 0#32) (hll : opcode &&& 0x40001000#32 = 0#32)
    (hmm : opcode &&& 0x1F00#32 ≠ 0#32)
    (hk0 : PlainKind k0) (hk1 : PlainKind k1)
    (R : VexRuleM rule 1) (f3 : FormOp) (imm : BitVec 64) (hf3 : f3.role = .imm) (hib : immBitsOf f3 = 8) (hs : rule.space = 1) (A : RowAgree rule opcode false)
    (hf0 : f0.role = .reg) (hf1 : f1.role = .vvvv) (hf2 : f2.role = .rm)
    (hal : alignOps rule.oszEff rule.ops [.reg k0 reg.toNat, .reg k1 vvvvv.toNat, .mem (memOpBase size rb d), .imm imm] =
           some [(f0, some (.reg k0 reg.toNat)), (f1, some (.reg k1 vvvvv.toNat)), (f2, some (.mem (memOpBase size rb d))), (f3, some (.imm imm))]) :
    ∃ bytes, emitVexEvexM c opcode 0#32 (reg + (vvvvv <<< 7)) (memBase size rb d) imm 1 = .ok bytes ∧
      formOk ctx rule [.reg k0 reg.toNat, .reg k1 vvvvv.toNat, .mem (memOpBase size rb d), .imm imm] {} bytes = true := by
  have hnev : ¬ (c.vexFlag = false ∨ xR opcode 0#32 reg vvvvv rb 0#32 &&& 0x00D78150#32 ≠ 0#32) := by
    rw [evex_r_chosen_iff opcode 0#32 reg vvvvv rb 0#32 (by bv_decide) (by bv_decide) (by bv_decide) (by decide) (by decide), hvf]
    intro h
    rcases h with h | h | h | h | h | h | h | h
    · exact absurd h (by decide)
    all_goals bv_decide
  rw [emitVexEvexM_base_bytes c opcode reg vvvvv rb size d imm 1 hcm hpe hk hvs hts (by bv_decide) (by bv_decide) hb hxop, if_neg hnev]
  by_cases h3 : vexPrep (xR opcode 0#32 reg vvvvv rb 0#32) opcode 0#32 &&& 0x8000803E#32 ≠ 0#32
  · rw [if_pos h3]
    refine ⟨_, rfl, ?_⟩
    obtain ⟨p, hp, P, h0, h1, hc, hi⟩ := vex3M_parsed ctx rule opcode reg vvvvv rb size d [imm.truncate 8] hm64 hr hv hb hxop hll R hs A
    simp only [emitImmediate] at *
    exact vex_rvmi_mem_formOk ctx rule p _ _ k0 k1 f0 f1 f2 _ _ _ hm64 hmode hk0 hk1 R f3 imm hf3 hib (by simp [hi]) hf0 hf1 hf2 rfl rfl rfl rfl hal hp P h0 h1 hc
  · rw [if_neg h3]
    refine ⟨_, rfl, ?_⟩
    have h3' : vexPrep (xR opcode 0#32 reg vvvvv rb 0#32) opcode 0#32 &&& 0x8000803E#32 = 0#32 := by simpa using h3
    have hmm1 : opcode &&& 0x100#32 ≠ 0#32 := by
      simp only [vexPrep, xR, extractLLMMMMM, kLL_Mask, kMM_Mask, oEvex, oVex3] at h3'
      bv_decide
    obtain ⟨p, hp, P, h0, h1, hc, hi⟩ := vex2M_parsed ctx rule opcode reg vvvvv rb size d [imm.truncate 8] hm64 hr hv hb hll hmm1 h3' R hs A
    simp only [emitImmediate] at *
    exact vex_rvmi_mem_formOk ctx rule p _ _ k0 k1 f0 f1 f2 _ _ _ hm64 hmode hk0 hk1 R f3 imm hf3 hib (by simp [hi]) hf0 hf1 hf2 rfl rfl rfl rfl hal hp P h0 h1 hc


/-- shape [reg, MEM = [base64 + disp], imm8], EVEX rule: the bytes of `EmitVexEvexM` when the EVEX branch is taken (the instruction has no
VEX form, or a register / the opcode word needs EVEX) satisfy the monitor -/
theorem vexM_rmi_formOk_evex (c : Model.X86.Ctx) (ctx : Spec.X86.Ctx) (rule : Rule) (opcode reg rb : BitVec 32) (size : Nat) (d : BitVec 64)
    (k0 : RegKind) (f0 f2 : FormOp)
    (hcm : c.mode64 = true) (hpe : c.preferEvex = false) (hk : c.extraId = 0#32) (hvs : c.vsib = false) (hts : c.tsib = false)
    (hm64 : ctx.mode64 = true) (hmode : (rule.modes &&& 2 != 0) = true)
    (hr : reg < 32#32) (hb : rb < 16#32) (hxop : opcode &&& 0x800#32 = 0#32)
    (hev : c.vexFlag = false ∨ xR opcode 0#32 reg 0#32 rb 0#32 &&& 0x00D78150#32 ≠ 0#32)
    (hk0 : PlainKind k0)
    (R : VexRuleM rule 1) (f3 : FormOp) (imm : BitVec 64) (hf3 : f3.role = .imm) (hib : immBitsOf f3 = 8) (hs : rule.space = 2) (A : RowAgree rule opcode true)
    (hs6 : cdShiftOf (evexCdOpcodeOf opcode) ≤ 6#32)
    (hN : disp8Nf rule ((opcode >>> 29) &&& 3#32).toNat ((((opcode >>> 27) ||| (opcode >>> 28)) &&& 1#32) == 1#32) false =
          2 ^ (cdShiftOf (evexCdOpcodeOf opcode)).toNat)
    (hf0 : f0.role = .reg) (hf2 : f2.role = .rm)
    (hal : alignOps rule.oszEff rule.ops [.reg k0 reg.toNat, .mem (memOpBase size rb d), .imm imm] =
           some [(f0, some (.reg k0 reg.toNat)), (f2, some (.mem (memOpBase size rb d))), (f3, some (.imm imm))]) :
    ∃ bytes, emitVexEvexM c opcode 0#32 (reg + (0#32 <<< 7)) (memBase size rb d) imm 1 = .ok bytes ∧
      formOk ctx rule [.reg k0 reg.toNat, .mem (memOpBase size rb d), .imm imm] {} bytes = true := by
  rw [emitVexEvexM_base_bytes c opcode reg 0#32 rb size d imm 1 hcm hpe hk hvs hts hr (by decide) hb hxop, if_pos hev]
  refine ⟨_, rfl, ?_⟩
  obtain ⟨p, hp, P, h0, h1, hc, hi⟩ := evexM_parsed ctx rule opcode reg 0#32 rb size d [imm.truncate 8] hm64 hr (by decide) hb hxop R hs A hs6 hN
  simp only [emitImmediate] at *
  exact vex_rmi_mem_formOk ctx rule p _ _ k0 f0 f2 _ _ hm64 hmode hk0 R f3 imm hf3 hib (by simp [hi]) hf0 hf2 rfl rfl rfl rfl hal hp P h0 h1 hc

/-- shape [reg, MEM = [base64 + disp], imm8], VEX rule: the VEX3 or VEX2 bytes `EmitVexEvexM` emits when EVEX is not needed satisfy the monitor -/
theorem vexM_rmi_formOk_vex (c : Model.X86.Ctx) (ctx : Spec.X86.Ctx) (rule : Rule) (opcode reg rb : BitVec 32) (size : Nat) (d : BitVec 64)
    (k0 : RegKind) (f0 f2 : FormOp)
    (hcm : c.mode64 = true) (hpe : c.preferEvex = false) (hk : c.extraId = 0#32) (hvf : c.vexFlag = true) (hvs : c.vsib = false) (hts : c.tsib = false)
    (hm64 : ctx.mode64 = true) (hmode : (rule.modes &&& 2 != 0) = true)
    (hr : reg < 16#32) (hb : rb < 16#32) (hxop : opcode &&& 0x800#32 = 0#32) (hll : opcode &&& 0x40001000#32 = 0#32)
    (hmm : opcode &&& 0x1F00#32 ≠ 0#32)
    (hk0 : PlainKind k0)
    (R : VexRuleM rule 1) (f3 : FormOp) (imm : BitVec 64) (hf3 : f3.role = .imm) (hib : immBitsOf f3 = 8) (hs : rule.space = 1) (A : RowAgree rule opcode false)
    (hf0 : f0.role = .reg) (hf2 : f2.role = .rm)
    (hal : alignOps rule.oszEff rule.ops [.reg k0 reg.toNat, .mem (memOpBase size rb d), .imm imm] =
           some [(f0, some (.reg k0 reg.toNat)), (f2, some (.mem (memOpBase size rb d))), (f3, some (.imm imm))]) :
    ∃ bytes, emitVexEvexM c opcode 0#32 (reg + (0#32 <<< 7)) (memBase size rb d) imm 1 = .ok bytes ∧
      formOk ctx rule [.reg k0 reg.toNat, .mem (memOpBase size rb d), .imm imm] {} bytes = true := by
  have hnev : ¬ (c.vexFlag = false ∨ xR opcode 0#32 reg 0#32 rb 0#32 &&& 0x00D78150#32 ≠ 0#32) := by
    rw [evex_r_chosen_iff opcode 0#32 reg 0#32 rb 0#32 (by bv_decide) (by bv_decide) (by bv_decide) (by decide) (by decide), hvf]
    intro h
    rcases h with h | h | h | h | h | h | h | h
    · exact absurd h (by decide)
    all_goals bv_decide
  rw [emitVexEvexM_base_bytes c opcode reg 0#32 rb size d imm 1 hcm hpe hk hvs hts (by bv_decide) (by bv_decide) hb hxop, if_neg hnev]
  by_cases h3 : vexPrep (xR opcode 0#32 reg 0#32 rb 0#32) opcode 0#32 &&& 0x8000803E#32 ≠ 0#32
  · rw [if_pos h3]
    refine ⟨_, rfl, ?_⟩
    obtain ⟨p, hp, P, h0, h1, hc, hi⟩ := vex3M_parsed ctx rule opcode reg 0#32 rb size d [imm.truncate 8] hm64 hr (by decide) hb hxop hll R hs A
    simp only [emitImmediate] at *
    exact vex_rmi_mem_formOk ctx rule p _ _ k0 f0 f2 _ _ hm64 hmode hk0 R f3 imm hf3 hib (by simp [hi]) hf0 hf2 rfl rfl rfl rfl hal hp P h0 h1 hc
  · rw [if_neg h3]
    refine ⟨_, rfl, ?_⟩
    have h3' : vexPrep (xR opcode 0#32 reg 0#32 rb 0#32) opcode 0#32 &&& 0x8000803E#32 = 0#32 := by simpa using h3
    have hmm1 : opcode &&& 0x100#32 ≠ 0#32 := by
      simp only [vexPrep, xR, extractLLMMMMM, kLL_Mask, kMM_Mask, oEvex, oVex3] at h3'
      bv_decide
    obtain ⟨p, hp, P, h0, h1, hc, hi⟩ := vex2M_parsed ctx rule opcode reg 0#32 rb size d [imm.truncate 8] hm64 hr (by decide) hb hll hmm1 h3' R hs A
    simp only [emitImmediate] at *
    exact vex_rmi_mem_formOk ctx rule p _ _ k0 f0 f2 _ _ hm64 hmode hk0 R f3 imm hf3 hib (by simp [hi]) hf0 hf2 rfl rfl rfl rfl hal hp P h0 h1 hc

end AsmjitVerif.Props.C01
