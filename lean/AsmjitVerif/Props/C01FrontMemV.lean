import AsmjitVerif.Props.C01FrontMemG
import AsmjitVerif.Lemmas.X86ParseMem
/-!
# C01 — memory-operand compositions for all three prefix kinds (EVEX incl. forced EVEX, VEX3, VEX2) and the four operand shapes

`AddrForm` collects what an address form has to provide (its ModRM / SIB / displacement bytes with their shape, the monitor's memory check on
them, and the complete output of `EmitVexEvexM`); the `vexM_*_formOk` theorems are generic in it: they put the generic parse lemmas
(`C01FrontMemG`), the address form and the shape lemmas of the monitor together. `addrForm_base` is the instance `[base64 + disp]`.
-/
set_option linter.constructorNameAsVariable false
set_option linter.unusedSimpArgs false
set_option linter.unusedVariables false
namespace AsmjitVerif.Props.C01
open Spec.X86 Model.X86 AsmjitVerif.Lemmas.X86Parse

/-- shape of the ModRM / SIB / displacement bytes of a `[base + disp]` operand, independent of the prefix kind -/
theorem memParts_shape (opReg7 rb d32 s : BitVec 32) (ho : opReg7 < 8#32) :
    bits (memHead opReg7 (rb &&& 7#32) (memVariant (rb &&& 7#32) d32 s)).1 6 2 ≠ 3 ∧
    (bits (memHead opReg7 (rb &&& 7#32) (memVariant (rb &&& 7#32) d32 s)).1 0 3 == 4) = (memHead opReg7 (rb &&& 7#32) (memVariant (rb &&& 7#32) d32 s)).2.isSome ∧
    (memDisp d32 s (memVariant (rb &&& 7#32) d32 s)).length =
      dispLen (memHead opReg7 (rb &&& 7#32) (memVariant (rb &&& 7#32) d32 s)).1 (memHead opReg7 (rb &&& 7#32) (memVariant (rb &&& 7#32) d32 s)).2 ∧
    bits (memHead opReg7 (rb &&& 7#32) (memVariant (rb &&& 7#32) d32 s)).1 3 3 = opReg7.toNat := by
  have hr7 : rb &&& 7#32 < 8#32 := by bv_decide
  have hvlt := memVariant_lt (rb &&& 7#32) d32 s
  have hv5 : memVariant (rb &&& 7#32) d32 s = 0 → rb &&& 7#32 ≠ 5#32 := by
    intro h0 h5
    unfold memVariant at h0
    simp [h5] at h0
    split at h0 <;> omega
  obtain ⟨fmod, fsib, freg, flen, -⟩ := memHead_factsBV _ _ _ ho hr7 hvlt hv5
  generalize hvdef : memVariant (rb &&& 7#32) d32 s = v at *
  refine ⟨by rw [fmod]; omega, fsib, ?_, freg⟩
  rw [flen]; unfold memDisp
  have : v = 0 ∨ v = 1 ∨ v = 2 := by omega
  rcases this with h | h | h <;> subst h <;> simp [le32]

theorem regNum_base (rb : BitVec 32) (hb : rb < 16#32) (B : Bool) (hB : B = rb.getLsbD 3) : regNum false B (rb &&& 7#32).toNat = rb.toNat := by
  have hr7 : rb &&& 7#32 < 8#32 := by bv_decide
  have hrb3 : (rb &&& 7#32).toNat = ((rb &&& 7#32).truncate 3 : BitVec 3).toNat := by
    have : (rb &&& 7#32).toNat < 8 := by simpa [BitVec.lt_def] using hr7
    rw [BitVec.truncate, BitVec.toNat_setWidth]; exact (Nat.mod_eq_of_lt this).symm
  rw [hrb3, hB]
  exact regNum_eq _ _ _ rb (by bv_decide)

/-- the memory check of the monitor on a parse whose ModRM / SIB / displacement are the parts of `[base64 + disp]` -/
theorem memParts_checkMem (ctx : Spec.X86.Ctx) (rule : Rule) (p : Parsed) (opReg7 rb s : BitVec 32) (size : Nat) (d : BitVec 64)
    (hm64 : ctx.mode64 = true) (ho : opReg7 < 8#32) (hb : rb < 16#32) (hs6 : s ≤ 6#32)
    (seg : Nat) (a32 : Bool) (bc : Nat) (pfx : List (BitVec 8)) (h67 : pfx.contains 0x67#8 = a32)
    (F : MemFields p pfx (memHead opReg7 (rb &&& 7#32) (memVariant (rb &&& 7#32) (d.truncate 32) s)).1
           (memHead opReg7 (rb &&& 7#32) (memVariant (rb &&& 7#32) (d.truncate 32) s)).2
           (memDisp (d.truncate 32) s (memVariant (rb &&& 7#32) (d.truncate 32) s)) (rb.getLsbD 3) false)
    (hN : (if p.vexKind == 4 then disp8N rule p else 1) = 2 ^ s.toNat) :
    checkMem ctx rule p (memOpBase size rb d seg a32 bc) = .ok () := by
  obtain ⟨hpm, hps, hpd, hpv, hpp, hpa, hpB, hpX⟩ := F
  have hr7 : rb &&& 7#32 < 8#32 := by bv_decide
  have hvlt := memVariant_lt (rb &&& 7#32) (d.truncate 32) s
  have hv5 : memVariant (rb &&& 7#32) (d.truncate 32) s = 0 → rb &&& 7#32 ≠ 5#32 := by
    intro h0 h5
    unfold memVariant at h0
    simp [h5] at h0
    split at h0 <;> omega
  obtain ⟨fmod, fsib, freg, flen, fbase⟩ := memHead_factsBV _ _ _ ho hr7 hvlt hv5
  have hmd := memDisp_decoded (rb &&& 7#32) (d.truncate 32) s hs6
  simp only [] at hmd
  generalize hvdef : memVariant (rb &&& 7#32) (d.truncate 32) s = v at *
  generalize hhdef : memHead opReg7 (rb &&& 7#32) v = hd at *
  have hmodne : bits hd.1 6 2 ≠ 3 := by rw [fmod]; omega
  have hbaseNum := regNum_base rb hb p.B hpB
  have hne5 : bits hd.1 6 2 = 0 → (rb &&& 7#32).toNat ≠ 5 := by
    intro h0 h5
    rw [fmod] at h0
    exact hv5 h0 (by apply BitVec.eq_of_toNat_eq; simpa using h5)
  apply checkMem_base64 ctx rule p (memOpBase size rb d seg a32 bc) hd.1 a32 hm64 (by rw [hpp]; exact h67) hpa hpm hmodne rfl rfl
  · obtain ⟨mb, sb⟩ := hd
    cases sb with
    | none =>
      left
      simp only [headBaseOk, beq_iff_eq] at fbase
      refine ⟨hps, ?_, ?_⟩
      · intro ⟨h0, h5⟩; exact hne5 h0 (by rw [← fbase]; exact h5)
      · show regNum false _ (bits mb 0 3) = rb.toNat
        rw [fbase]; exact hbaseNum
    | some sbyte =>
      right
      simp only [headBaseOk, Bool.and_eq_true, beq_iff_eq] at fbase
      obtain ⟨⟨fb1, fb2⟩, fb3⟩ := fbase
      refine ⟨sbyte, hps, ?_, ?_, ?_, fb3⟩
      · intro ⟨h0, h5⟩; exact hne5 h0 (by rw [← fb1]; exact h5)
      · show regNum false _ (bits sbyte 0 3) = rb.toNat
        rw [fb1]; exact hbaseNum
      · rw [hpX, fb2]; rfl
  · simp only [decodedDisp, hpd, hpv]
    have : (memOpBase size rb d seg a32 bc).disp.toNat % 2 ^ 32 = (d.truncate 32 : BitVec 32).toNat := by simp [memOpBase, BitVec.toNat_setWidth]
    rw [this, hN]
    exact hmd


/-- ModRM byte of a `[base + disp]` operand -/
def memMb (opReg7 rb d32 s : BitVec 32) : BitVec 8 := (memHead opReg7 (rb &&& 7#32) (memVariant (rb &&& 7#32) d32 s)).1
/-- optional SIB byte -/
def memSib (opReg7 rb d32 s : BitVec 32) : Option (BitVec 8) := (memHead opReg7 (rb &&& 7#32) (memVariant (rb &&& 7#32) d32 s)).2
/-- displacement bytes -/
def memDs (rb d32 s : BitVec 32) : List (BitVec 8) := memDisp d32 s (memVariant (rb &&& 7#32) d32 s)

theorem cdShift_cleared (opcode : BitVec 32) : cdShiftOf (opcode &&& ~~~kCDSHL_Mask) = 0#32 := by
  simp only [cdShiftOf, kCDSHL_Mask]; bv_decide

theorem vex3Word_masked (x opcode : BitVec 32) : vex3Word x (opcode &&& ~~~kCDSHL_Mask) = vex3Word x opcode := by
  simp only [vex3Word, kCDSHL_Mask]; bv_decide

theorem evexWord_forced (x opcode : BitVec 32) : evexWord (x ||| 0x80000000#32) opcode = evexWord x opcode := by
  simp only [evexWord]; bv_decide

/-- The prefix decision of `EmitVexEvexM` for a prefix word `x0` = `xR … xb aaa` (no broadcast, no VSIB index ≥ 16) with the {z} option: EVEX is
chosen when the instruction has no VEX form (`vexFlag = false`, the "forced EVEX" bit 31 of `x`) or when a register / the mask / {z} / the opcode
word needs it - then the opcode word's compressed-displacement shift is the table's; otherwise VEX3 or VEX2 with the shift cleared. -/
theorem vexEvexMPrefix_decided (c : Model.X86.Ctx) (opcode reg vvvvv xb aaa : BitVec 32) (z : Bool) (m : Mem)
    (hr : reg < 32#32) (hv : vvvvv < 32#32) (hb : xb < 32#32) (ha : aaa < 8#32) (hxop : opcode &&& 0x800#32 = 0#32) :
    vexEvexMPrefix c ((if c.vexFlag then xR opcode 0#32 reg vvvvv xb aaa else xR opcode 0#32 reg vvvvv xb aaa ||| 0x80000000#32) ||| zOpt z) opcode (zOpt z) m =
      .ok (if c.vexFlag = false ∨ (xR opcode 0#32 reg vvvvv xb aaa ||| zOpt z) &&& 0x00D78110#32 ≠ 0#32 then
             (le32 (evexWord (xR opcode 0#32 reg vvvvv xb aaa ||| zOpt z) opcode) ++ [opcode.truncate 8], evexCdOpcodeOf opcode)
           else if vexPrep (xR opcode 0#32 reg vvvvv xb aaa ||| zOpt z) opcode 0#32 &&& 0x8000807E#32 ≠ 0#32 then
             (le32 (vex3Word (vexPrep (xR opcode 0#32 reg vvvvv xb aaa ||| zOpt z) opcode 0#32) opcode), opcode &&& ~~~kCDSHL_Mask)
           else ([0xC5#8, (vex2Byte (vexPrep (xR opcode 0#32 reg vvvvv xb aaa ||| zOpt z) opcode 0#32)).truncate 8, opcode.truncate 8],
                 opcode &&& ~~~kCDSHL_Mask)) := by
  have hcd := evexCdOpcode_eq opcode reg vvvvv xb aaa z hr hv hb ha hxop
  simp only [evexCdOpcode] at hcd
  have hzo : zOpt z &&& 0x400#32 = 0#32 := by cases z <;> decide
  have hx31 : (xR opcode 0#32 reg vvvvv xb aaa ||| zOpt z) &&& 0x80180000#32 = 0#32 := by
    cases z <;> simp only [zOpt, oZMask, xR, extractLLMMMMM, kLL_Mask, kMM_Mask, oEvex, Bool.false_eq_true, ↓reduceIte] <;> bv_decide
  have hcomm : ∀ a b : BitVec 32, (a ||| 0x80000000#32) ||| b = (a ||| b) ||| 0x80000000#32 := by intro a b; bv_decide
  generalize hXdef : xR opcode 0#32 reg vvvvv xb aaa ||| zOpt z = X at *
  cases hvf : c.vexFlag
  · simp only [Bool.false_eq_true, ↓reduceIte, true_or]
    rw [hcomm, hXdef]
    have hx20 : (X ||| 0x80000000#32) &&& 0x00180000#32 = 0#32 := by bv_decide
    have hne : (X ||| 0x80000000#32) &&& 0x80D78110#32 ≠ 0#32 := by bv_decide
    rw [vexEvexMPrefix_nobcst c _ opcode _ m hx20 hzo, if_pos hne, evexWord_forced, hcd]
  · simp only [↓reduceIte, Bool.true_eq_false, false_or, hXdef]
    have hx20 : X &&& 0x00180000#32 = 0#32 := by bv_decide
    have hc : (X &&& 0x80D78110#32 ≠ 0#32) ↔ (X &&& 0x00D78110#32 ≠ 0#32) := by
      constructor <;> intro h <;> bv_decide
    rw [vexEvexMPrefix_nobcst c _ opcode _ m hx20 hzo]
    by_cases hev : X &&& 0x00D78110#32 ≠ 0#32
    · rw [if_pos (hc.mpr hev), if_pos hev, hcd]
    · rw [if_neg (fun h => hev (hc.mp h)), if_neg hev]
      by_cases hv3 : vexPrep X opcode 0#32 &&& 0x8000807E#32 ≠ 0#32
      · simp only [if_pos hv3, vex3Word_masked]
      · simp only [if_neg hv3]

/-- `EmitVexEvexM` on `seg:[base + disp]`: the complete output -/
theorem emitVexEvexM_base_bytes (c : Model.X86.Ctx) (opcode reg vvvvv rb aaa : BitVec 32) (z : Bool) (size : Nat) (d imm : BitVec 64) (n : Nat) (seg : Nat) (a32 : Bool)
    (hm : c.mode64 = true) (hpe : c.preferEvex = false) (hk : c.extraId = aaa) (hvs : c.vsib = false) (hts : c.tsib = false)
    (hr : reg < 32#32) (hv : vvvvv < 32#32) (hb : rb < 16#32) (ha : aaa < 8#32) (hxop : opcode &&& 0x800#32 = 0#32) :
    emitVexEvexM c opcode (zOpt z) (reg + (vvvvv <<< 7)) (memBase size rb d seg a32) imm n =
      .ok ((segmentPrefix seg ++ aoBytes a32) ++ ((if c.vexFlag = false ∨ (xR opcode 0#32 reg vvvvv rb aaa ||| zOpt z) &&& 0x00D78110#32 ≠ 0#32 then
              le32 (evexWord (xR opcode 0#32 reg vvvvv rb aaa ||| zOpt z) opcode) ++ [opcode.truncate 8] ++
                (memMb ((reg + (vvvvv <<< 7)) &&& 7#32) rb (d.truncate 32) (cdShiftOf (evexCdOpcodeOf opcode)) ::
                  ((memSib ((reg + (vvvvv <<< 7)) &&& 7#32) rb (d.truncate 32) (cdShiftOf (evexCdOpcodeOf opcode))).toList ++
                   memDs rb (d.truncate 32) (cdShiftOf (evexCdOpcodeOf opcode))))
            else if vexPrep (xR opcode 0#32 reg vvvvv rb aaa ||| zOpt z) opcode 0#32 &&& 0x8000807E#32 ≠ 0#32 then
              le32 (vex3Word (vexPrep (xR opcode 0#32 reg vvvvv rb aaa ||| zOpt z) opcode 0#32) opcode) ++
                (memMb ((reg + (vvvvv <<< 7)) &&& 7#32) rb (d.truncate 32) 0#32 ::
                  ((memSib ((reg + (vvvvv <<< 7)) &&& 7#32) rb (d.truncate 32) 0#32).toList ++ memDs rb (d.truncate 32) 0#32))
            else
              [0xC5#8, (vex2Byte (vexPrep (xR opcode 0#32 reg vvvvv rb aaa ||| zOpt z) opcode 0#32)).truncate 8, opcode.truncate 8] ++
                (memMb ((reg + (vvvvv <<< 7)) &&& 7#32) rb (d.truncate 32) 0#32 ::
                  ((memSib ((reg + (vvvvv <<< 7)) &&& 7#32) rb (d.truncate 32) 0#32).toList ++ memDs rb (d.truncate 32) 0#32))) ++
           emitImmediate imm n)) := by
  have hoff : (memBase size rb d seg a32).offLo32 = d.truncate 32 := rfl
  have hxe : xMbK opcode reg vvvvv rb aaa z = xR opcode 0#32 reg vvvvv rb aaa := by
    cases z <;> simp only [xMbK, xR, zOpt, oZMask, extractLLMMMMM, kLL_Mask, kMM_Mask, oEvex, Bool.false_eq_true, ↓reduceIte] <;> bv_decide
  have hparts := fun (pre : List (BitVec 8)) (op : BitVec 32) =>
    emitModSib_base_parts c pre (segmentPrefix seg).length op (zOpt z) ((reg + (vvvvv <<< 7)) &&& 7#32) rb 0#32 (rmInfoBase a32) (memBase size rb d seg a32) imm n hts
      (by cases a32 <;> decide) (by cases a32 <;> decide)
  rw [emitVexEvexM_base_eq c opcode reg vvvvv rb aaa z size d imm n seg a32 hm hpe hk hvs, hxe,
    vexEvexMPrefix_decided c opcode reg vvvvv rb aaa z _ hr hv (by bv_decide) ha hxop]
  simp only []
  split
  · rw [hparts, hoff]; simp [memMb, memSib, memDs]
  · split
    · rw [hparts, hoff, cdShift_cleared]; simp [memMb, memSib, memDs]
    · rw [hparts, hoff, cdShift_cleared]; simp [memMb, memSib, memDs]


/-! ### address forms -/

/-- What an address form provides: `m` / `mo` are the model / spec operand, `pfx` the legacy
prefix bytes (segment override / 67) written before the VEX / EVEX prefix, `xb` packs the extension bits (bit 3 = B, bit 4 = X) the prefix carries,
`aaa` is the mask register of the call (`c.extraId`), `mb o7 s` / `sib o7 s` / `ds o7 s` are the ModRM / SIB / displacement bytes for
ModRM.reg = `o7` and compressed-displacement shift `s`. -/
structure AddrForm (c : Model.X86.Ctx) (ctx : Spec.X86.Ctx) (m : Mem) (mo : MemOp) (pfx : List (BitVec 8)) (xb aaa : BitVec 32)
    (mb : BitVec 32 → BitVec 32 → BitVec 8) (sib : BitVec 32 → BitVec 32 → Option (BitVec 8)) (ds : BitVec 32 → BitVec 32 → List (BitVec 8)) : Prop where
  hxb : xb < 32#32
  haaa : aaa < 8#32
  hpl : PfxList false pfx
  hpc : PfxCounts pfx mo
  hvsib : vsibOf mo = .none
  hbc : mo.bcst = 0
  shape : ∀ o7 s, o7 < 8#32 → (bits (mb o7 s) 6 2 ≠ 3 ∧ (bits (mb o7 s) 0 3 == 4) = (sib o7 s).isSome ∧
            (ds o7 s).length = dispLen (mb o7 s) (sib o7 s) ∧ bits (mb o7 s) 3 3 = o7.toNat)
  chk : ∀ (rule : Rule) (p : Parsed) o7 s, o7 < 8#32 → s ≤ 6#32 → MemFields p pfx (mb o7 s) (sib o7 s) (ds o7 s) (xb.getLsbD 3) (xb.getLsbD 4) →
            (if p.vexKind == 4 then disp8N rule p else 1) = 2 ^ s.toNat → checkMem ctx rule p mo = .ok ()
  emit : ∀ (opcode reg vvvvv : BitVec 32) (z : Bool) (imm : BitVec 64) (n : Nat), reg < 32#32 → vvvvv < 32#32 → opcode &&& 0x800#32 = 0#32 →
    emitVexEvexM c opcode (zOpt z) (reg + (vvvvv <<< 7)) m imm n =
      .ok (pfx ++ ((if c.vexFlag = false ∨ (xR opcode 0#32 reg vvvvv xb aaa ||| zOpt z) &&& 0x00D78110#32 ≠ 0#32 then
              le32 (evexWord (xR opcode 0#32 reg vvvvv xb aaa ||| zOpt z) opcode) ++ [opcode.truncate 8] ++
                (mb ((reg + (vvvvv <<< 7)) &&& 7#32) (cdShiftOf (evexCdOpcodeOf opcode)) ::
                  ((sib ((reg + (vvvvv <<< 7)) &&& 7#32) (cdShiftOf (evexCdOpcodeOf opcode))).toList ++
                   ds ((reg + (vvvvv <<< 7)) &&& 7#32) (cdShiftOf (evexCdOpcodeOf opcode))))
            else if vexPrep (xR opcode 0#32 reg vvvvv xb aaa ||| zOpt z) opcode 0#32 &&& 0x8000807E#32 ≠ 0#32 then
              le32 (vex3Word (vexPrep (xR opcode 0#32 reg vvvvv xb aaa ||| zOpt z) opcode 0#32) opcode) ++
                (mb ((reg + (vvvvv <<< 7)) &&& 7#32) 0#32 ::
                  ((sib ((reg + (vvvvv <<< 7)) &&& 7#32) 0#32).toList ++ ds ((reg + (vvvvv <<< 7)) &&& 7#32) 0#32))
            else
              [0xC5#8, (vex2Byte (vexPrep (xR opcode 0#32 reg vvvvv xb aaa ||| zOpt z) opcode 0#32)).truncate 8, opcode.truncate 8] ++
                (mb ((reg + (vvvvv <<< 7)) &&& 7#32) 0#32 ::
                  ((sib ((reg + (vvvvv <<< 7)) &&& 7#32) 0#32).toList ++ ds ((reg + (vvvvv <<< 7)) &&& 7#32) 0#32))) ++
           emitImmediate imm n))

/-- the segment-override and address-size bytes the encoder writes are a legal prefix list and exactly the ones the monitor wants for an operand
addressed with 64-bit (or, `a32`, 32-bit) registers -/
theorem segPfx_ok (seg : Nat) (a32 : Bool) (mo : MemOp) (hseg : mo.seg = seg) (hwa : wantedAddrSize true mo = (if a32 then 32 else 64)) :
    PfxList false (segmentPrefix seg ++ aoBytes a32) ∧ PfxCounts (segmentPrefix seg ++ aoBytes a32) mo ∧
    (segmentPrefix seg ++ aoBytes a32).contains 0x67#8 = a32 := by
  have hc : seg = 0 ∨ seg = 1 ∨ seg = 2 ∨ seg = 3 ∨ seg = 4 ∨ seg = 5 ∨ seg = 6 ∨ 7 ≤ seg := by omega
  have key : ∀ s : Nat, ∀ a : Bool, (s = 0 ∨ s = 1 ∨ s = 2 ∨ s = 3 ∨ s = 4 ∨ s = 5 ∨ s = 6 ∨ 7 ≤ s) →
      PfxList false (segmentPrefix s ++ aoBytes a) ∧ (segmentPrefix s ++ aoBytes a).count 0x66#8 = 0 ∧ (segmentPrefix s ++ aoBytes a).count 0xF3#8 = 0 ∧
      (segmentPrefix s ++ aoBytes a).count 0xF2#8 = 0 ∧
      (segmentPrefix s ++ aoBytes a).count 0xF0#8 = 0 ∧ (segmentPrefix s ++ aoBytes a).count 0x9B#8 = 0 ∧
      (segmentPrefix s ++ aoBytes a).filter isSegByte = (match segPrefix s with | some b => [b] | Option.none => []) ∧
      (segmentPrefix s ++ aoBytes a).count 0x67#8 ≤ 1 ∧ (segmentPrefix s ++ aoBytes a).contains 0x67#8 = a := by
    intro s a hs
    rcases hs with h | h | h | h | h | h | h | h
    iterate 7 (subst h; cases a <;> (refine ⟨?_, by decide⟩; first | exact Or.inl rfl | exact Or.inr (Or.inl ⟨_, rfl, by decide⟩) | exact Or.inr (Or.inr ⟨_, _, rfl, by decide, by decide⟩)))
    obtain ⟨k, rfl⟩ : ∃ k, s = k + 7 := ⟨s - 7, by omega⟩
    cases a
    · refine ⟨Or.inl rfl, ?_⟩
      simp [segmentPrefix, segPrefix, aoBytes]
    · refine ⟨Or.inr (Or.inl ⟨_, rfl, by decide⟩), ?_⟩
      simp [segmentPrefix, segPrefix, aoBytes, isSegByte]
  obtain ⟨a, c66, cF3, cF2, cF0, c9B, cseg, c67, cc⟩ := key seg a32 hc
  exact ⟨a, ⟨c66, cF3, cF2, cF0, c9B, by rw [hseg]; exact cseg, c67, by rw [cc, hwa]; cases a32 <;> rfl⟩, cc⟩

/-- the address form `seg:[base + disp]`: ALL base registers 0..15 (64-bit, or - `a32` - 32-bit with a 67 prefix), ALL displacements, ANY segment
override, ANY mask register -/
theorem addrForm_base (c : Model.X86.Ctx) (ctx : Spec.X86.Ctx) (rb aaa : BitVec 32) (size : Nat) (d : BitVec 64) (seg : Nat) (a32 : Bool)
    (hm : c.mode64 = true) (hpe : c.preferEvex = false) (hk : c.extraId = aaa) (ha : aaa < 8#32) (hvs : c.vsib = false) (hts : c.tsib = false)
    (hm64 : ctx.mode64 = true) (hb : rb < 16#32) :
    AddrForm c ctx (memBase size rb d seg a32) (memOpBase size rb d seg a32) (segmentPrefix seg ++ aoBytes a32) rb aaa
      (fun o7 s => memMb o7 rb (d.truncate 32) s) (fun o7 s => memSib o7 rb (d.truncate 32) s) (fun _ s => memDs rb (d.truncate 32) s) := by
  obtain ⟨hpl, hpc, h67⟩ := segPfx_ok seg a32 (memOpBase size rb d seg a32) rfl (by cases a32 <;> rfl)
  refine ⟨by bv_decide, ha, hpl, hpc, rfl, rfl, ?_, ?_, ?_⟩
  · intro o7 s ho
    exact memParts_shape o7 rb (d.truncate 32) s ho
  · intro rule p o7 s ho hs6 F hN
    have hx4 : rb.getLsbD 4 = false := by bv_decide
    rw [hx4] at F
    exact memParts_checkMem ctx rule p o7 rb s size d hm64 ho hb hs6 seg a32 0 _ h67 F hN
  · intro opcode reg vvvvv z imm n hr hv hxop
    exact emitVexEvexM_base_bytes c opcode reg vvvvv rb aaa z size d imm n seg a32 hm hpe hk hvs hts hr hv hb ha hxop

theorem decorAllowed_none (rule : Rule) : DecorAllowed rule 0 false false false := by
  constructor
  · intro h; exact absurd rfl h
  · intro h; cases h
  · intro h; cases h
  · intro h; cases h

/-! ### compositions: shape × prefix kind, generic in the address form -/

/-- shape [reg, vvvv, MEM], EVEX rule: the bytes of `EmitVexEvexM` when the EVEX branch is taken (the instruction has no
VEX form, or a register / the opcode word needs EVEX) satisfy the monitor -/
theorem vexM_rvm_formOk_evex (c : Model.X86.Ctx) (ctx : Spec.X86.Ctx) (rule : Rule) (opcode reg vvvvv xb aaa : BitVec 32) (z : Bool) (m : Mem) (mo : MemOp) (pfx : List (BitVec 8))
    (mb : BitVec 32 → BitVec 32 → BitVec 8) (sib : BitVec 32 → BitVec 32 → Option (BitVec 8)) (ds : BitVec 32 → BitVec 32 → List (BitVec 8))
    (AF : AddrForm c ctx m mo pfx xb aaa mb sib ds)
    (k0 k1 : RegKind) (f0 f1 f2 : FormOp)
    (hm64 : ctx.mode64 = true) (hmode : (rule.modes &&& 2 != 0) = true)
    (hr : reg < 32#32) (hv : vvvvv < 32#32) (hxop : opcode &&& 0x800#32 = 0#32)
    (hev : c.vexFlag = false ∨ (xR opcode 0#32 reg vvvvv xb aaa ||| zOpt z) &&& 0x00D78110#32 ≠ 0#32)
    (hk0 : PlainKind k0) (hk1 : PlainKind k1)
    (R : VexRuleM rule 0) (D : DecorAllowed rule aaa.toNat z false false) (hs : rule.space = 2) (A : RowAgree rule opcode true)
    (hs6 : cdShiftOf (evexCdOpcodeOf opcode) ≤ 6#32)
    (hN : disp8Nf rule ((opcode >>> 29) &&& 3#32).toNat ((((opcode >>> 27) ||| (opcode >>> 28)) &&& 1#32) == 1#32) false =
          2 ^ (cdShiftOf (evexCdOpcodeOf opcode)).toNat)
    (hf0 : f0.role = .reg) (hf1 : f1.role = .vvvv) (hf2 : f2.role = .rm)
    (hal : alignOps rule.oszEff rule.ops [.reg k0 reg.toNat, .reg k1 vvvvv.toNat, .mem mo] =
           some [(f0, some (.reg k0 reg.toNat)), (f1, some (.reg k1 vvvvv.toNat)), (f2, some (.mem mo))]) :
    ∃ bytes, emitVexEvexM c opcode (zOpt z) (reg + (vvvvv <<< 7)) m 0 0 = .ok bytes ∧
      formOk ctx rule [.reg k0 reg.toNat, .reg k1 vvvvv.toNat, .mem mo] (decorOf aaa.toNat z false false 0) bytes = true := by
  rw [AF.emit opcode reg vvvvv z 0 0 hr hv hxop, if_pos hev]
  refine ⟨_, rfl, ?_⟩
  have ho7 : (reg + (vvvvv <<< 7)) &&& 7#32 < 8#32 := by bv_decide
  obtain ⟨s1, s2, s3, s4⟩ := AF.shape _ (cdShiftOf (evexCdOpcodeOf opcode)) ho7
  obtain ⟨p, hp, P, h0, h1, F, hNp, hi⟩ := evexG_parsed rule opcode reg vvvvv xb aaa z pfx _ _ _ [] AF.hpl hr hv AF.hxb AF.haaa hxop R hs A s1 s2 s3 s4
  have hc := AF.chk rule p _ _ ho7 hs6 F (by rw [hNp]; exact hN)
  simp only [emitImmediate] at *
  exact vex_rvm_mem_formOk ctx rule p _ _ pfx k0 k1 f0 f1 f2 _ _ _ _ _ _ hm64 hmode hk0 hk1 R hf0 hf1 hf2 AF.hpc D AF.hvsib (by simp [AF.hbc]) (by intro h; cases h) hal hp P h0 h1 hc

/-- shape [reg, vvvv, MEM], VEX rule: the VEX3 or VEX2 bytes `EmitVexEvexM` emits when EVEX is not needed satisfy the monitor -/
theorem vexM_rvm_formOk_vex (c : Model.X86.Ctx) (ctx : Spec.X86.Ctx) (rule : Rule) (opcode reg vvvvv xb : BitVec 32) (m : Mem) (mo : MemOp) (pfx : List (BitVec 8))
    (mb : BitVec 32 → BitVec 32 → BitVec 8) (sib : BitVec 32 → BitVec 32 → Option (BitVec 8)) (ds : BitVec 32 → BitVec 32 → List (BitVec 8))
    (AF : AddrForm c ctx m mo pfx xb 0#32 mb sib ds)
    (k0 k1 : RegKind) (f0 f1 f2 : FormOp)
    (hvf : c.vexFlag = true)
    (hm64 : ctx.mode64 = true) (hmode : (rule.modes &&& 2 != 0) = true)
    (hr : reg < 16#32) (hv : vvvvv < 16#32) (hxop : opcode &&& 0x800#32 = 0#32) (hll : opcode &&& 0x40001000#32 = 0#32)
    (hmm : opcode &&& 0x1F00#32 ≠ 0#32)
    (hk0 : PlainKind k0) (hk1 : PlainKind k1)
    (R : VexRuleM rule 0) (hs : rule.space = 1) (A : RowAgree rule opcode false)
    (hf0 : f0.role = .reg) (hf1 : f1.role = .vvvv) (hf2 : f2.role = .rm)
    (hal : alignOps rule.oszEff rule.ops [.reg k0 reg.toNat, .reg k1 vvvvv.toNat, .mem mo] =
           some [(f0, some (.reg k0 reg.toNat)), (f1, some (.reg k1 vvvvv.toNat)), (f2, some (.mem mo))]) :
    ∃ bytes, emitVexEvexM c opcode 0#32 (reg + (vvvvv <<< 7)) m 0 0 = .ok bytes ∧
      formOk ctx rule [.reg k0 reg.toNat, .reg k1 vvvvv.toNat, .mem mo] {} bytes = true := by
  have hxb := AF.hxb
  have hnev : ¬ (c.vexFlag = false ∨ xR opcode 0#32 reg vvvvv xb 0#32 &&& 0x00D78110#32 ≠ 0#32) := by
    rw [hvf]
    simp only [xR, extractLLMMMMM, kLL_Mask, kMM_Mask, oEvex]
    intro h
    rcases h with h | h
    · exact absurd h (by decide)
    · bv_decide
  have hem := AF.emit opcode reg vvvvv false 0 0 (by bv_decide) (by bv_decide) hxop
  simp only [zOpt, Bool.false_eq_true, ↓reduceIte, BitVec.or_zero] at hem
  rw [hem, if_neg hnev]
  have ho7 : (reg + (vvvvv <<< 7)) &&& 7#32 < 8#32 := by bv_decide
  obtain ⟨s1, s2, s3, s4⟩ := AF.shape _ 0#32 ho7
  by_cases h3 : vexPrep (xR opcode 0#32 reg vvvvv xb 0#32) opcode 0#32 &&& 0x8000807E#32 ≠ 0#32
  · rw [if_pos h3]
    refine ⟨_, rfl, ?_⟩
    obtain ⟨p, hp, P, h0, h1, F, hNp, hi⟩ := vex3G_parsed rule opcode reg vvvvv xb pfx _ _ _ [] AF.hpl hr hv hxb hxop hll R hs A s1 s2 s3 s4
    have hc := AF.chk rule p _ _ ho7 (by decide) F (by rw [hNp]; rfl)
    simp only [emitImmediate] at *
    exact vex_rvm_mem_formOk ctx rule p _ _ pfx k0 k1 f0 f1 f2 _ _ _ 0 false false hm64 hmode hk0 hk1 R hf0 hf1 hf2 AF.hpc (decorAllowed_none rule) AF.hvsib (by simp [AF.hbc]) (by intro h; cases h) hal hp P h0 h1 hc
  · rw [if_neg h3]
    refine ⟨_, rfl, ?_⟩
    have h3' : vexPrep (xR opcode 0#32 reg vvvvv xb 0#32) opcode 0#32 &&& 0x8000807E#32 = 0#32 := by simpa using h3
    have hmm1 : opcode &&& 0x100#32 ≠ 0#32 := by
      simp only [vexPrep, xR, extractLLMMMMM, kLL_Mask, kMM_Mask, oEvex, oVex3] at h3'
      bv_decide
    obtain ⟨p, hp, P, h0, h1, F, hNp, hi⟩ := vex2G_parsed rule opcode reg vvvvv xb pfx _ _ _ [] AF.hpl hr hv hxb hll hmm1 h3' R hs A s1 s2 s3 s4
    have hc := AF.chk rule p _ _ ho7 (by decide) F (by rw [hNp]; rfl)
    simp only [emitImmediate] at *
    exact vex_rvm_mem_formOk ctx rule p _ _ pfx k0 k1 f0 f1 f2 _ _ _ 0 false false hm64 hmode hk0 hk1 R hf0 hf1 hf2 AF.hpc (decorAllowed_none rule) AF.hvsib (by simp [AF.hbc]) (by intro h; cases h) hal hp P h0 h1 hc

/-- shape [reg, MEM], EVEX rule: the bytes of `EmitVexEvexM` when the EVEX branch is taken (the instruction has no
VEX form, or a register / the opcode word needs EVEX) satisfy the monitor -/
theorem vexM_rm_formOk_evex (c : Model.X86.Ctx) (ctx : Spec.X86.Ctx) (rule : Rule) (opcode reg xb aaa : BitVec 32) (z : Bool) (m : Mem) (mo : MemOp) (pfx : List (BitVec 8))
    (mb : BitVec 32 → BitVec 32 → BitVec 8) (sib : BitVec 32 → BitVec 32 → Option (BitVec 8)) (ds : BitVec 32 → BitVec 32 → List (BitVec 8))
    (AF : AddrForm c ctx m mo pfx xb aaa mb sib ds)
    (k0 : RegKind) (f0 f2 : FormOp)
    (hm64 : ctx.mode64 = true) (hmode : (rule.modes &&& 2 != 0) = true)
    (hr : reg < 32#32) (hxop : opcode &&& 0x800#32 = 0#32)
    (hev : c.vexFlag = false ∨ (xR opcode 0#32 reg 0#32 xb aaa ||| zOpt z) &&& 0x00D78110#32 ≠ 0#32)
    (hk0 : PlainKind k0)
    (R : VexRuleM rule 0) (D : DecorAllowed rule aaa.toNat z false false) (hs : rule.space = 2) (A : RowAgree rule opcode true)
    (hs6 : cdShiftOf (evexCdOpcodeOf opcode) ≤ 6#32)
    (hN : disp8Nf rule ((opcode >>> 29) &&& 3#32).toNat ((((opcode >>> 27) ||| (opcode >>> 28)) &&& 1#32) == 1#32) false =
          2 ^ (cdShiftOf (evexCdOpcodeOf opcode)).toNat)
    (hf0 : f0.role = .reg) (hf2 : f2.role = .rm)
    (hal : alignOps rule.oszEff rule.ops [.reg k0 reg.toNat, .mem mo] =
           some [(f0, some (.reg k0 reg.toNat)), (f2, some (.mem mo))]) :
    ∃ bytes, emitVexEvexM c opcode (zOpt z) (reg + (0#32 <<< 7)) m 0 0 = .ok bytes ∧
      formOk ctx rule [.reg k0 reg.toNat, .mem mo] (decorOf aaa.toNat z false false 0) bytes = true := by
  rw [AF.emit opcode reg 0#32 z 0 0 hr (by decide) hxop, if_pos hev]
  refine ⟨_, rfl, ?_⟩
  have ho7 : (reg + (0#32 <<< 7)) &&& 7#32 < 8#32 := by bv_decide
  obtain ⟨s1, s2, s3, s4⟩ := AF.shape _ (cdShiftOf (evexCdOpcodeOf opcode)) ho7
  obtain ⟨p, hp, P, h0, h1, F, hNp, hi⟩ := evexG_parsed rule opcode reg 0#32 xb aaa z pfx _ _ _ [] AF.hpl hr (by decide) AF.hxb AF.haaa hxop R hs A s1 s2 s3 s4
  have hc := AF.chk rule p _ _ ho7 hs6 F (by rw [hNp]; exact hN)
  simp only [emitImmediate] at *
  exact vex_rm_mem_formOk ctx rule p _ _ pfx k0 f0 f2 _ _ _ _ _ hm64 hmode hk0 R hf0 hf2 AF.hpc D AF.hvsib (by simp [AF.hbc]) (by intro h; cases h) hal hp P h0 h1 hc

/-- shape [reg, MEM], VEX rule: the VEX3 or VEX2 bytes `EmitVexEvexM` emits when EVEX is not needed satisfy the monitor -/
theorem vexM_rm_formOk_vex (c : Model.X86.Ctx) (ctx : Spec.X86.Ctx) (rule : Rule) (opcode reg xb : BitVec 32) (m : Mem) (mo : MemOp) (pfx : List (BitVec 8))
    (mb : BitVec 32 → BitVec 32 → BitVec 8) (sib : BitVec 32 → BitVec 32 → Option (BitVec 8)) (ds : BitVec 32 → BitVec 32 → List (BitVec 8))
    (AF : AddrForm c ctx m mo pfx xb 0#32 mb sib ds)
    (k0 : RegKind) (f0 f2 : FormOp)
    (hvf : c.vexFlag = true)
    (hm64 : ctx.mode64 = true) (hmode : (rule.modes &&& 2 != 0) = true)
    (hr : reg < 16#32) (hxop : opcode &&& 0x800#32 = 0#32) (hll : opcode &&& 0x40001000#32 = 0#32)
    (hmm : opcode &&& 0x1F00#32 ≠ 0#32)
    (hk0 : PlainKind k0)
    (R : VexRuleM rule 0) (hs : rule.space = 1) (A : RowAgree rule opcode false)
    (hf0 : f0.role = .reg) (hf2 : f2.role = .rm)
    (hal : alignOps rule.oszEff rule.ops [.reg k0 reg.toNat, .mem mo] =
           some [(f0, some (.reg k0 reg.toNat)), (f2, some (.mem mo))]) :
    ∃ bytes, emitVexEvexM c opcode 0#32 (reg + (0#32 <<< 7)) m 0 0 = .ok bytes ∧
      formOk ctx rule [.reg k0 reg.toNat, .mem mo] {} bytes = true := by
  have hxb := AF.hxb
  have hnev : ¬ (c.vexFlag = false ∨ xR opcode 0#32 reg 0#32 xb 0#32 &&& 0x00D78110#32 ≠ 0#32) := by
    rw [hvf]
    simp only [xR, extractLLMMMMM, kLL_Mask, kMM_Mask, oEvex]
    intro h
    rcases h with h | h
    · exact absurd h (by decide)
    · bv_decide
  have hem := AF.emit opcode reg 0#32 false 0 0 (by bv_decide) (by bv_decide) hxop
  simp only [zOpt, Bool.false_eq_true, ↓reduceIte, BitVec.or_zero] at hem
  rw [hem, if_neg hnev]
  have ho7 : (reg + (0#32 <<< 7)) &&& 7#32 < 8#32 := by bv_decide
  obtain ⟨s1, s2, s3, s4⟩ := AF.shape _ 0#32 ho7
  by_cases h3 : vexPrep (xR opcode 0#32 reg 0#32 xb 0#32) opcode 0#32 &&& 0x8000807E#32 ≠ 0#32
  · rw [if_pos h3]
    refine ⟨_, rfl, ?_⟩
    obtain ⟨p, hp, P, h0, h1, F, hNp, hi⟩ := vex3G_parsed rule opcode reg 0#32 xb pfx _ _ _ [] AF.hpl hr (by decide) hxb hxop hll R hs A s1 s2 s3 s4
    have hc := AF.chk rule p _ _ ho7 (by decide) F (by rw [hNp]; rfl)
    simp only [emitImmediate] at *
    exact vex_rm_mem_formOk ctx rule p _ _ pfx k0 f0 f2 _ _ 0 false false hm64 hmode hk0 R hf0 hf2 AF.hpc (decorAllowed_none rule) AF.hvsib (by simp [AF.hbc]) (by intro h; cases h) hal hp P h0 h1 hc
  · rw [if_neg h3]
    refine ⟨_, rfl, ?_⟩
    have h3' : vexPrep (xR opcode 0#32 reg 0#32 xb 0#32) opcode 0#32 &&& 0x8000807E#32 = 0#32 := by simpa using h3
    have hmm1 : opcode &&& 0x100#32 ≠ 0#32 := by
      simp only [vexPrep, xR, extractLLMMMMM, kLL_Mask, kMM_Mask, oEvex, oVex3] at h3'
      bv_decide
    obtain ⟨p, hp, P, h0, h1, F, hNp, hi⟩ := vex2G_parsed rule opcode reg 0#32 xb pfx _ _ _ [] AF.hpl hr (by decide) hxb hll hmm1 h3' R hs A s1 s2 s3 s4
    have hc := AF.chk rule p _ _ ho7 (by decide) F (by rw [hNp]; rfl)
    simp only [emitImmediate] at *
    exact vex_rm_mem_formOk ctx rule p _ _ pfx k0 f0 f2 _ _ 0 false false hm64 hmode hk0 R hf0 hf2 AF.hpc (decorAllowed_none rule) AF.hvsib (by simp [AF.hbc]) (by intro h; cases h) hal hp P h0 h1 hc

/-- shape [reg, vvvv, MEM, imm8], EVEX rule: the bytes of `EmitVexEvexM` when the EVEX branch is taken (the instruction has no
VEX form, or a register / the opcode word needs EVEX) satisfy the monitor -/
theorem vexM_rvmi_formOk_evex (c : Model.X86.Ctx) (ctx : Spec.X86.Ctx) (rule : Rule) (opcode reg vvvvv xb aaa : BitVec 32) (z : Bool) (m : Mem) (mo : MemOp) (pfx : List (BitVec 8))
    (mb : BitVec 32 → BitVec 32 → BitVec 8) (sib : BitVec 32 → BitVec 32 → Option (BitVec 8)) (ds : BitVec 32 → BitVec 32 → List (BitVec 8))
    (AF : AddrForm c ctx m mo pfx xb aaa mb sib ds)
    (k0 k1 : RegKind) (f0 f1 f2 : FormOp)
    (hm64 : ctx.mode64 = true) (hmode : (rule.modes &&& 2 != 0) = true)
    (hr : reg < 32#32) (hv : vvvvv < 32#32) (hxop : opcode &&& 0x800#32 = 0#32)
    (hev : c.vexFlag = false ∨ (xR opcode 0#32 reg vvvvv xb aaa ||| zOpt z) &&& 0x00D78110#32 ≠ 0#32)
    (hk0 : PlainKind k0) (hk1 : PlainKind k1)
    (R : VexRuleM rule 1) (D : DecorAllowed rule aaa.toNat z false false) (f3 : FormOp) (imm : BitVec 64) (hf3 : f3.role = .imm) (hib : immBitsOf f3 = 8) (hs : rule.space = 2) (A : RowAgree rule opcode true)
    (hs6 : cdShiftOf (evexCdOpcodeOf opcode) ≤ 6#32)
    (hN : disp8Nf rule ((opcode >>> 29) &&& 3#32).toNat ((((opcode >>> 27) ||| (opcode >>> 28)) &&& 1#32) == 1#32) false =
          2 ^ (cdShiftOf (evexCdOpcodeOf opcode)).toNat)
    (hf0 : f0.role = .reg) (hf1 : f1.role = .vvvv) (hf2 : f2.role = .rm)
    (hal : alignOps rule.oszEff rule.ops [.reg k0 reg.toNat, .reg k1 vvvvv.toNat, .mem mo, .imm imm] =
           some [(f0, some (.reg k0 reg.toNat)), (f1, some (.reg k1 vvvvv.toNat)), (f2, some (.mem mo)), (f3, some (.imm imm))]) :
    ∃ bytes, emitVexEvexM c opcode (zOpt z) (reg + (vvvvv <<< 7)) m imm 1 = .ok bytes ∧
      formOk ctx rule [.reg k0 reg.toNat, .reg k1 vvvvv.toNat, .mem mo, .imm imm] (decorOf aaa.toNat z false false 0) bytes = true := by
  rw [AF.emit opcode reg vvvvv z imm 1 hr hv hxop, if_pos hev]
  refine ⟨_, rfl, ?_⟩
  have ho7 : (reg + (vvvvv <<< 7)) &&& 7#32 < 8#32 := by bv_decide
  obtain ⟨s1, s2, s3, s4⟩ := AF.shape _ (cdShiftOf (evexCdOpcodeOf opcode)) ho7
  obtain ⟨p, hp, P, h0, h1, F, hNp, hi⟩ := evexG_parsed rule opcode reg vvvvv xb aaa z pfx _ _ _ [imm.truncate 8] AF.hpl hr hv AF.hxb AF.haaa hxop R hs A s1 s2 s3 s4
  have hc := AF.chk rule p _ _ ho7 hs6 F (by rw [hNp]; exact hN)
  simp only [emitImmediate] at *
  exact vex_rvmi_mem_formOk ctx rule p _ _ pfx k0 k1 f0 f1 f2 _ _ _ _ _ _ hm64 hmode hk0 hk1 R f3 imm hf3 hib (by simp [hi]) hf0 hf1 hf2 AF.hpc D AF.hvsib (by simp [AF.hbc]) (by intro h; cases h) hal hp P h0 h1 hc

/-- shape [reg, vvvv, MEM, imm8], VEX rule: the VEX3 or VEX2 bytes `EmitVexEvexM` emits when EVEX is not needed satisfy the monitor -/
theorem vexM_rvmi_formOk_vex (c : Model.X86.Ctx) (ctx : Spec.X86.Ctx) (rule : Rule) (opcode reg vvvvv xb : BitVec 32) (m : Mem) (mo : MemOp) (pfx : List (BitVec 8))
    (mb : BitVec 32 → BitVec 32 → BitVec 8) (sib : BitVec 32 → BitVec 32 → Option (BitVec 8)) (ds : BitVec 32 → BitVec 32 → List (BitVec 8))
    (AF : AddrForm c ctx m mo pfx xb 0#32 mb sib ds)
    (k0 k1 : RegKind) (f0 f1 f2 : FormOp)
    (hvf : c.vexFlag = true)
    (hm64 : ctx.mode64 = true) (hmode : (rule.modes &&& 2 != 0) = true)
    (hr : reg < 16#32) (hv : vvvvv < 16#32) (hxop : opcode &&& 0x800#32 = 0#32) (hll : opcode &&& 0x40001000#32 = 0#32)
    (hmm : opcode &&& 0x1F00#32 ≠ 0#32)
    (hk0 : PlainKind k0) (hk1 : PlainKind k1)
    (R : VexRuleM rule 1) (f3 : FormOp) (imm : BitVec 64) (hf3 : f3.role = .imm) (hib : immBitsOf f3 = 8) (hs : rule.space = 1) (A : RowAgree rule opcode false)
    (hf0 : f0.role = .reg) (hf1 : f1.role = .vvvv) (hf2 : f2.role = .rm)
    (hal : alignOps rule.oszEff rule.ops [.reg k0 reg.toNat, .reg k1 vvvvv.toNat, .mem mo, .imm imm] =
           some [(f0, some (.reg k0 reg.toNat)), (f1, some (.reg k1 vvvvv.toNat)), (f2, some (.mem mo)), (f3, some (.imm imm))]) :
    ∃ bytes, emitVexEvexM c opcode 0#32 (reg + (vvvvv <<< 7)) m imm 1 = .ok bytes ∧
      formOk ctx rule [.reg k0 reg.toNat, .reg k1 vvvvv.toNat, .mem mo, .imm imm] {} bytes = true := by
  have hxb := AF.hxb
  have hnev : ¬ (c.vexFlag = false ∨ xR opcode 0#32 reg vvvvv xb 0#32 &&& 0x00D78110#32 ≠ 0#32) := by
    rw [hvf]
    simp only [xR, extractLLMMMMM, kLL_Mask, kMM_Mask, oEvex]
    intro h
    rcases h with h | h
    · exact absurd h (by decide)
    · bv_decide
  have hem := AF.emit opcode reg vvvvv false imm 1 (by bv_decide) (by bv_decide) hxop
  simp only [zOpt, Bool.false_eq_true, ↓reduceIte, BitVec.or_zero] at hem
  rw [hem, if_neg hnev]
  have ho7 : (reg + (vvvvv <<< 7)) &&& 7#32 < 8#32 := by bv_decide
  obtain ⟨s1, s2, s3, s4⟩ := AF.shape _ 0#32 ho7
  by_cases h3 : vexPrep (xR opcode 0#32 reg vvvvv xb 0#32) opcode 0#32 &&& 0x8000807E#32 ≠ 0#32
  · rw [if_pos h3]
    refine ⟨_, rfl, ?_⟩
    obtain ⟨p, hp, P, h0, h1, F, hNp, hi⟩ := vex3G_parsed rule opcode reg vvvvv xb pfx _ _ _ [imm.truncate 8] AF.hpl hr hv hxb hxop hll R hs A s1 s2 s3 s4
    have hc := AF.chk rule p _ _ ho7 (by decide) F (by rw [hNp]; rfl)
    simp only [emitImmediate] at *
    exact vex_rvmi_mem_formOk ctx rule p _ _ pfx k0 k1 f0 f1 f2 _ _ _ 0 false false hm64 hmode hk0 hk1 R f3 imm hf3 hib (by simp [hi]) hf0 hf1 hf2 AF.hpc (decorAllowed_none rule) AF.hvsib (by simp [AF.hbc]) (by intro h; cases h) hal hp P h0 h1 hc
  · rw [if_neg h3]
    refine ⟨_, rfl, ?_⟩
    have h3' : vexPrep (xR opcode 0#32 reg vvvvv xb 0#32) opcode 0#32 &&& 0x8000807E#32 = 0#32 := by simpa using h3
    have hmm1 : opcode &&& 0x100#32 ≠ 0#32 := by
      simp only [vexPrep, xR, extractLLMMMMM, kLL_Mask, kMM_Mask, oEvex, oVex3] at h3'
      bv_decide
    obtain ⟨p, hp, P, h0, h1, F, hNp, hi⟩ := vex2G_parsed rule opcode reg vvvvv xb pfx _ _ _ [imm.truncate 8] AF.hpl hr hv hxb hll hmm1 h3' R hs A s1 s2 s3 s4
    have hc := AF.chk rule p _ _ ho7 (by decide) F (by rw [hNp]; rfl)
    simp only [emitImmediate] at *
    exact vex_rvmi_mem_formOk ctx rule p _ _ pfx k0 k1 f0 f1 f2 _ _ _ 0 false false hm64 hmode hk0 hk1 R f3 imm hf3 hib (by simp [hi]) hf0 hf1 hf2 AF.hpc (decorAllowed_none rule) AF.hvsib (by simp [AF.hbc]) (by intro h; cases h) hal hp P h0 h1 hc

/-- shape [reg, MEM, imm8], EVEX rule: the bytes of `EmitVexEvexM` when the EVEX branch is taken (the instruction has no
VEX form, or a register / the opcode word needs EVEX) satisfy the monitor -/
theorem vexM_rmi_formOk_evex (c : Model.X86.Ctx) (ctx : Spec.X86.Ctx) (rule : Rule) (opcode reg xb aaa : BitVec 32) (z : Bool) (m : Mem) (mo : MemOp) (pfx : List (BitVec 8))
    (mb : BitVec 32 → BitVec 32 → BitVec 8) (sib : BitVec 32 → BitVec 32 → Option (BitVec 8)) (ds : BitVec 32 → BitVec 32 → List (BitVec 8))
    (AF : AddrForm c ctx m mo pfx xb aaa mb sib ds)
    (k0 : RegKind) (f0 f2 : FormOp)
    (hm64 : ctx.mode64 = true) (hmode : (rule.modes &&& 2 != 0) = true)
    (hr : reg < 32#32) (hxop : opcode &&& 0x800#32 = 0#32)
    (hev : c.vexFlag = false ∨ (xR opcode 0#32 reg 0#32 xb aaa ||| zOpt z) &&& 0x00D78110#32 ≠ 0#32)
    (hk0 : PlainKind k0)
    (R : VexRuleM rule 1) (D : DecorAllowed rule aaa.toNat z false false) (f3 : FormOp) (imm : BitVec 64) (hf3 : f3.role = .imm) (hib : immBitsOf f3 = 8) (hs : rule.space = 2) (A : RowAgree rule opcode true)
    (hs6 : cdShiftOf (evexCdOpcodeOf opcode) ≤ 6#32)
    (hN : disp8Nf rule ((opcode >>> 29) &&& 3#32).toNat ((((opcode >>> 27) ||| (opcode >>> 28)) &&& 1#32) == 1#32) false =
          2 ^ (cdShiftOf (evexCdOpcodeOf opcode)).toNat)
    (hf0 : f0.role = .reg) (hf2 : f2.role = .rm)
    (hal : alignOps rule.oszEff rule.ops [.reg k0 reg.toNat, .mem mo, .imm imm] =
           some [(f0, some (.reg k0 reg.toNat)), (f2, some (.mem mo)), (f3, some (.imm imm))]) :
    ∃ bytes, emitVexEvexM c opcode (zOpt z) (reg + (0#32 <<< 7)) m imm 1 = .ok bytes ∧
      formOk ctx rule [.reg k0 reg.toNat, .mem mo, .imm imm] (decorOf aaa.toNat z false false 0) bytes = true := by
  rw [AF.emit opcode reg 0#32 z imm 1 hr (by decide) hxop, if_pos hev]
  refine ⟨_, rfl, ?_⟩
  have ho7 : (reg + (0#32 <<< 7)) &&& 7#32 < 8#32 := by bv_decide
  obtain ⟨s1, s2, s3, s4⟩ := AF.shape _ (cdShiftOf (evexCdOpcodeOf opcode)) ho7
  obtain ⟨p, hp, P, h0, h1, F, hNp, hi⟩ := evexG_parsed rule opcode reg 0#32 xb aaa z pfx _ _ _ [imm.truncate 8] AF.hpl hr (by decide) AF.hxb AF.haaa hxop R hs A s1 s2 s3 s4
  have hc := AF.chk rule p _ _ ho7 hs6 F (by rw [hNp]; exact hN)
  simp only [emitImmediate] at *
  exact vex_rmi_mem_formOk ctx rule p _ _ pfx k0 f0 f2 _ _ _ _ _ hm64 hmode hk0 R f3 imm hf3 hib (by simp [hi]) hf0 hf2 AF.hpc D AF.hvsib (by simp [AF.hbc]) (by intro h; cases h) hal hp P h0 h1 hc

/-- shape [reg, MEM, imm8], VEX rule: the VEX3 or VEX2 bytes `EmitVexEvexM` emits when EVEX is not needed satisfy the monitor -/
theorem vexM_rmi_formOk_vex (c : Model.X86.Ctx) (ctx : Spec.X86.Ctx) (rule : Rule) (opcode reg xb : BitVec 32) (m : Mem) (mo : MemOp) (pfx : List (BitVec 8))
    (mb : BitVec 32 → BitVec 32 → BitVec 8) (sib : BitVec 32 → BitVec 32 → Option (BitVec 8)) (ds : BitVec 32 → BitVec 32 → List (BitVec 8))
    (AF : AddrForm c ctx m mo pfx xb 0#32 mb sib ds)
    (k0 : RegKind) (f0 f2 : FormOp)
    (hvf : c.vexFlag = true)
    (hm64 : ctx.mode64 = true) (hmode : (rule.modes &&& 2 != 0) = true)
    (hr : reg < 16#32) (hxop : opcode &&& 0x800#32 = 0#32) (hll : opcode &&& 0x40001000#32 = 0#32)
    (hmm : opcode &&& 0x1F00#32 ≠ 0#32)
    (hk0 : PlainKind k0)
    (R : VexRuleM rule 1) (f3 : FormOp) (imm : BitVec 64) (hf3 : f3.role = .imm) (hib : immBitsOf f3 = 8) (hs : rule.space = 1) (A : RowAgree rule opcode false)
    (hf0 : f0.role = .reg) (hf2 : f2.role = .rm)
    (hal : alignOps rule.oszEff rule.ops [.reg k0 reg.toNat, .mem mo, .imm imm] =
           some [(f0, some (.reg k0 reg.toNat)), (f2, some (.mem mo)), (f3, some (.imm imm))]) :
    ∃ bytes, emitVexEvexM c opcode 0#32 (reg + (0#32 <<< 7)) m imm 1 = .ok bytes ∧
      formOk ctx rule [.reg k0 reg.toNat, .mem mo, .imm imm] {} bytes = true := by
  have hxb := AF.hxb
  have hnev : ¬ (c.vexFlag = false ∨ xR opcode 0#32 reg 0#32 xb 0#32 &&& 0x00D78110#32 ≠ 0#32) := by
    rw [hvf]
    simp only [xR, extractLLMMMMM, kLL_Mask, kMM_Mask, oEvex]
    intro h
    rcases h with h | h
    · exact absurd h (by decide)
    · bv_decide
  have hem := AF.emit opcode reg 0#32 false imm 1 (by bv_decide) (by bv_decide) hxop
  simp only [zOpt, Bool.false_eq_true, ↓reduceIte, BitVec.or_zero] at hem
  rw [hem, if_neg hnev]
  have ho7 : (reg + (0#32 <<< 7)) &&& 7#32 < 8#32 := by bv_decide
  obtain ⟨s1, s2, s3, s4⟩ := AF.shape _ 0#32 ho7
  by_cases h3 : vexPrep (xR opcode 0#32 reg 0#32 xb 0#32) opcode 0#32 &&& 0x8000807E#32 ≠ 0#32
  · rw [if_pos h3]
    refine ⟨_, rfl, ?_⟩
    obtain ⟨p, hp, P, h0, h1, F, hNp, hi⟩ := vex3G_parsed rule opcode reg 0#32 xb pfx _ _ _ [imm.truncate 8] AF.hpl hr (by decide) hxb hxop hll R hs A s1 s2 s3 s4
    have hc := AF.chk rule p _ _ ho7 (by decide) F (by rw [hNp]; rfl)
    simp only [emitImmediate] at *
    exact vex_rmi_mem_formOk ctx rule p _ _ pfx k0 f0 f2 _ _ 0 false false hm64 hmode hk0 R f3 imm hf3 hib (by simp [hi]) hf0 hf2 AF.hpc (decorAllowed_none rule) AF.hvsib (by simp [AF.hbc]) (by intro h; cases h) hal hp P h0 h1 hc
  · rw [if_neg h3]
    refine ⟨_, rfl, ?_⟩
    have h3' : vexPrep (xR opcode 0#32 reg 0#32 xb 0#32) opcode 0#32 &&& 0x8000807E#32 = 0#32 := by simpa using h3
    have hmm1 : opcode &&& 0x100#32 ≠ 0#32 := by
      simp only [vexPrep, xR, extractLLMMMMM, kLL_Mask, kMM_Mask, oEvex, oVex3] at h3'
      bv_decide
    obtain ⟨p, hp, P, h0, h1, F, hNp, hi⟩ := vex2G_parsed rule opcode reg 0#32 xb pfx _ _ _ [imm.truncate 8] AF.hpl hr (by decide) hxb hll hmm1 h3' R hs A s1 s2 s3 s4
    have hc := AF.chk rule p _ _ ho7 (by decide) F (by rw [hNp]; rfl)
    simp only [emitImmediate] at *
    exact vex_rmi_mem_formOk ctx rule p _ _ pfx k0 f0 f2 _ _ 0 false false hm64 hmode hk0 R f3 imm hf3 hib (by simp [hi]) hf0 hf2 AF.hpc (decorAllowed_none rule) AF.hvsib (by simp [AF.hbc]) (by intro h; cases h) hal hp P h0 h1 hc

end AsmjitVerif.Props.C01
