/-
C01 property theorems, front-end layer, memory operands, table layer: `front_cls_correct_{rvm,rm,rvmi,rmi}_mem` - for EVERY regenerated
(row, form) pair (EVEX forms incl. EVEX-only instructions, VEX forms emitted as VEX3 or VEX2) of the classes VexRvm / VexRm / VexRvmi / VexRmi (+ _Lx)
whose r/m operand has a memory alternative, ALL register numbers, ALL base registers 0..15 and ALL displacements, the bytes the class emits for
`reg, [vvvv,] [base64 + disp] [, imm8]` satisfy the monitor (ModRM / SIB / disp8*N / disp32 included).
The table layer additionally decides, per entry, that the database's tuple type gives the same disp8*N as the encoder's CDSHL / CDTT fields, and
for the _Lx classes of shape [reg, MEM] that the L bits derived from the MEMORY operand's size agree with the form.
-/
import AsmjitVerif.Props.C01Rows
import AsmjitVerif.Props.C01FrontMemX
set_option linter.constructorNameAsVariable false
set_option maxRecDepth 100000
namespace AsmjitVerif.Props.C01
open Spec.X86 Model.X86 AsmjitVerif.Lemmas.X86Parse AsmjitVerif.Gen.X86ClassRows

/-- the form operand has a plain memory alternative of `sz` bytes -/
def hasMemAlt (f : FormOp) (sz : Nat) : Bool :=
  f.alts.any fun a => match a with | .mem (some s) .none => s == sz | _ => false

theorem hasMemAlt_matches (osz : Nat) (f : FormOp) (sz : Nat) (m : MemOp) (h : hasMemAlt f sz = true) (hsz : m.size = sz) (hvs : vsibOf m = .none) :
    formOpMatches osz f (.mem m) = true := by
  unfold hasMemAlt at h
  unfold formOpMatches
  rw [List.any_eq_true] at h ⊢
  obtain ⟨a, ha, hm⟩ := h
  refine ⟨a, ha, ?_⟩
  cases a with
  | mem s vs =>
    cases s with
    | none => simp at hm
    | some s' =>
      cases vs <;> simp at hm
      simp [altMatches, hvs, hsz, hm]
  | _ => simp at hm

def vexRuleMOk (r : Rule) (nimm : Nat) : Bool :=
  r.modes &&& 2 != 0 && ((r.space == 1 || r.space == 2) && (r.pp &&& 8 == 0 && (!r.ri && ((r.modKind == 1 || r.modKind == 3) && (r.modr == 8 &&
  (r.modrm == 8 && (r.immBytes == nimm && (r.relBytes == 0 && (!r.moff && (!r.a67 && (!r.immRev && r.osz == 0)))))))))))

theorem vexRuleMOk_spec (r : Rule) (n : Nat) (h : vexRuleMOk r n = true) : VexRuleM r n ∧ (r.modes &&& 2 != 0) = true ∧ (r.space = 1 ∨ r.space = 2) := by
  simp only [vexRuleMOk, Bool.and_eq_true, Bool.or_eq_true, beq_iff_eq, bne_iff_ne, ne_eq, Bool.not_eq_true'] at h
  obtain ⟨hmodes, hsp, hpp8, hri, hmk, hmr, hmrm, himm, hrel, hmoff, ha67, hrev, hosz⟩ := h
  exact ⟨⟨by rcases hsp with h | h <;> simp [h], hpp8, hri, hmk, hmr, hmrm, himm, hrel, hmoff, ha67, hrev, hosz⟩, by simpa using hmodes, hsp⟩

/-- everything the symbolic layer assumes about (rule, final opcode word, instruction flags), independent of the operand shape: the rule is a plain
`/r` memory form; the row's opcode word spells the rule's fields; no TSIB / VSIB / kPreferEvex; a VEX form belongs to an instruction with the Vex
flag; for an EVEX form the rule's disp8*N equals the encoder's compressed-displacement scale -/
def memCoreOk (e : Entry) (op : BitVec 32) (nimm : Nat) : Bool :=
  vexRuleMOk e.rule nimm && (rowAgreeOk e.rule op && (e.iflags &&& 0x1300000#32 == 0#32 &&
  ((e.rule.space != 1 || e.iflags &&& 0x400000#32 != 0#32) &&
   (e.rule.space != 2 || (cdShiftOf (evexCdOpcodeOf op) ≤ 6#32 &&
     disp8Nf e.rule ((op >>> 29) &&& 3#32).toNat ((((op >>> 27) ||| (op >>> 28)) &&& 1#32) == 1#32) false == 2 ^ (cdShiftOf (evexCdOpcodeOf op)).toNat)))))

structure MemCore (e : Entry) (op : BitVec 32) (nimm : Nat) : Prop where
  R : VexRuleM e.rule nimm
  hmode : (e.rule.modes &&& 2 != 0) = true
  hsp : e.rule.space = 1 ∨ e.rule.space = 2
  A : RowAgree e.rule op (e.rule.space == 2)
  hxop : op &&& 0x800#32 = 0#32
  hvex : e.rule.space = 1 → op &&& 0x40001000#32 = 0#32 ∧ op &&& 0x1F00#32 ≠ 0#32 ∧ e.iflags &&& 0x400000#32 ≠ 0#32
  hevex : e.rule.space = 2 → cdShiftOf (evexCdOpcodeOf op) ≤ 6#32 ∧
    disp8Nf e.rule ((op >>> 29) &&& 3#32).toNat ((((op >>> 27) ||| (op >>> 28)) &&& 1#32) == 1#32) false = 2 ^ (cdShiftOf (evexCdOpcodeOf op)).toNat

theorem memCoreOk_spec (e : Entry) (op : BitVec 32) (nimm : Nat) (h : memCoreOk e op nimm = true) : MemCore e op nimm := by
  simp only [memCoreOk, Bool.and_eq_true, Bool.or_eq_true, beq_iff_eq, bne_iff_ne, ne_eq, decide_eq_true_eq] at h
  obtain ⟨hR, hA, -, hv, hev⟩ := h
  obtain ⟨R, hmode, hsp⟩ := vexRuleMOk_spec _ _ hR
  obtain ⟨A, hxop, hvx⟩ := rowAgreeOk_spec _ _ hA
  refine ⟨R, hmode, hsp, A, hxop, ?_, ?_⟩
  · intro h1
    obtain ⟨a, b⟩ := hvx h1
    rcases hv with hv | hv
    · exact absurd h1 hv
    · exact ⟨a, b, hv⟩
  · intro h2
    rcases hev with hev | hev
    · exact absurd h2 hev
    · exact hev

/-- the final opcode word of the _Lx classes of shape [reg, MEM(, imm)]: L from the register's size or-ed with the MEMORY operand's size -/
def finalOpM (e : Entry) (lxEnc : Nat) (size : Nat) : BitVec 32 :=
  if e.enc == lxEnc || e.enc == 0x84 then e.mainOp ||| opcodeLBySize ((Op.reg (rtypeOf (e.kinds.getD 0 .none)) 0).rmSize ||| size) else e.mainOp

def anyMemAlt (f : FormOp) : Bool := f.alts.any fun a => match a with | .mem (some _) .none => true | _ => false

theorem hasMemAlt_any (f : FormOp) (size : Nat) (h : hasMemAlt f size = true) : anyMemAlt f = true := by
  unfold hasMemAlt at h
  unfold anyMemAlt
  rw [List.any_eq_true] at h ⊢
  obtain ⟨a, ha, hm⟩ := h
  refine ⟨a, ha, ?_⟩
  cases a with
  | mem s vs => cases s <;> cases vs <;> simp_all
  | _ => simp at hm

/-- per memory alternative of a form operand -/
def allMemAlts (f : FormOp) (ok : Nat → Bool) : Bool := f.alts.all fun a => match a with | .mem (some s) .none => ok s | _ => true

theorem allMemAlts_spec (f : FormOp) (ok : Nat → Bool) (size : Nat) (h : allMemAlts f ok = true) (hm : hasMemAlt f size = true) : ok size = true := by
  unfold hasMemAlt at hm
  unfold allMemAlts at h
  rw [List.any_eq_true] at hm
  rw [List.all_eq_true] at h
  obtain ⟨a, ha, hm⟩ := hm
  have := h a ha
  cases a with
  | mem s vs =>
    cases s with
    | none => simp at hm
    | some s' =>
      cases vs <;> simp at hm
      simpa [hm] using this
  | _ => simp at hm

/-! ### table layer -/

def entryOkRvmMem (e : Entry) : Bool :=
  match e.rule.ops, e.kinds with
  | [f0, f1, f2], [k0, k1, _] =>
    !anyMemAlt f2 ||
    ((e.enc == 0x72 || e.enc == 0x75 || e.enc == 0x73 || e.enc == 0x76) && (memCoreOk e (finalOp e 0x75) 0 &&
    (f0.role == .reg && (f1.role == .vvvv && (f2.role == .rm && (plainKind k0 && (plainKind k1 && (noFix f0 && (noFix f1 &&
    (formOpMatches e.rule.oszEff f0 (.reg k0 0) && formOpMatches e.rule.oszEff f1 (.reg k1 0)))))))))))
  | _, _ => false

def entryOkRvmiMem (e : Entry) : Bool :=
  match e.rule.ops, e.kinds with
  | [f0, f1, f2, f3], [k0, k1, _] =>
    !anyMemAlt f2 ||
    ((e.enc == 0x7A || e.enc == 0x7C || e.enc == 0x7B || e.enc == 0x7D) && (memCoreOk e (finalOp e 0x7C) 1 &&
    (f0.role == .reg && (f1.role == .vvvv && (f2.role == .rm && (f3.role == .imm && (immBitsOf f3 == 8 && (plainKind k0 && (plainKind k1 && (noFix f0 && (noFix f1 &&
    (formOpMatches e.rule.oszEff f0 (.reg k0 0) && formOpMatches e.rule.oszEff f1 (.reg k1 0)))))))))))))
  | _, _ => false

def entryOkRmMem (e : Entry) : Bool :=
  match e.rule.ops, e.kinds with
  | [f0, f2], [k0, _] =>
    allMemAlts f2 (fun size =>
      (e.enc == 0x68 || e.enc == 0x6B || e.enc == 0x83 || e.enc == 0x84) && (memCoreOk e (finalOpM e 0x6B size) 0 &&
      (f0.role == .reg && (f2.role == .rm && (plainKind k0 && (noFix f0 && formOpMatches e.rule.oszEff f0 (.reg k0 0)))))))
  | _, _ => false

def entryOkRmiMem (e : Entry) : Bool :=
  match e.rule.ops, e.kinds with
  | [f0, f2, f3], [k0, _] =>
    allMemAlts f2 (fun size =>
      (e.enc == 0x6F || e.enc == 0x71) && (memCoreOk e (finalOpM e 0x71 size) 1 &&
      (f0.role == .reg && (f2.role == .rm && (f3.role == .imm && (immBitsOf f3 == 8 && (plainKind k0 && (noFix f0 && formOpMatches e.rule.oszEff f0 (.reg k0 0)))))))))
  | _, _ => false

theorem rvm_mem_entries_ok : rvmChunks.all (fun c => c.all entryOkRvmMem) = true := by decide +kernel
theorem rvmi_mem_entries_ok : rvmiChunks.all (fun c => c.all entryOkRvmiMem) = true := by decide +kernel
theorem rm_mem_entries_ok : rmChunks.all (fun c => c.all entryOkRmMem) = true := by decide +kernel
theorem rmi_mem_entries_ok : rmiChunks.all (fun c => c.all entryOkRmiMem) = true := by decide +kernel

theorem vexFlag_false_of (c : Model.X86.Ctx) (fl : BitVec 32) (hvf : c.vexFlag = (fl &&& 0x400000#32 != 0#32)) (h : fl &&& 0x400000#32 = 0#32) :
    c.vexFlag = false := by rw [hvf, h]; rfl

theorem vexFlag_true_of (c : Model.X86.Ctx) (fl : BitVec 32) (hvf : c.vexFlag = (fl &&& 0x400000#32 != 0#32)) (h : fl &&& 0x400000#32 ≠ 0#32) :
    c.vexFlag = true := by rw [hvf]; simpa using h

/-! ### the class theorems with a memory operand

In all four: `c.vexFlag` is the row's Vex flag (as `emitInst` sets it); the EVEX branch is taken when the instruction has no VEX form at all
(EVEX-only: 309 + 102 + 181 + 39 pairs) or when a register number / the opcode word needs EVEX; VEX forms take register numbers 0..15 and are emitted
as VEX3 or VEX2. Generic in the address form (`AddrForm`); instances: `addrForm_base` = `seg:[base64 + disp]` with ALL base registers 0..15, ALL
64-bit displacement values (the encoder uses the low 32 bits) and ANY segment override, `addrForm_index` = `seg:[base64 + index64 * scale + disp]`,
`addrForm_rip` = `seg:[rip + disp32]`. -/

/-- **front_cls_correct with a memory operand, classes VexRvm / VexRvm_Lx**: `reg, vvvv, MEM` -/
theorem front_cls_correct_rvm_mem (e : Entry) (ch : List Entry) (hch : ch ∈ rvmChunks) (he : e ∈ ch)
    (c : Model.X86.Ctx) (ctx : Spec.X86.Ctx) (reg vvvvv xb aaa : BitVec 32) (z : Bool) (size : Nat) (m : Mem) (mo : MemOp) (pfx : List (BitVec 8))
    (mb : BitVec 32 → BitVec 32 → BitVec 8) (sib : BitVec 32 → BitVec 32 → Option (BitVec 8)) (ds : BitVec 32 → BitVec 32 → List (BitVec 8))
    (AF : AddrForm c ctx m mo pfx xb aaa mb sib ds) (hsize : mo.size = size)
    (D : DecorAllowed e.rule aaa.toNat z false false)
    (hvf : c.vexFlag = (e.iflags &&& 0x400000#32 != 0#32)) (hm64 : ctx.mode64 = true)
    (hsz : ∀ f2, e.rule.ops[2]? = some f2 → hasMemAlt f2 size = true)
    (hids : (e.rule.space = 2 ∧ reg < 32#32 ∧ vvvvv < 32#32 ∧
              (e.iflags &&& 0x400000#32 = 0#32 ∨ (xR (finalOp e 0x75) 0#32 reg vvvvv xb aaa ||| zOpt z) &&& 0x00D78110#32 ≠ 0#32)) ∨
            (e.rule.space = 1 ∧ reg < 16#32 ∧ vvvvv < 16#32 ∧ aaa = 0#32 ∧ z = false)) :
    ∃ bytes k0 k1 k2, e.kinds = [k0, k1, k2] ∧
      emitVexEvexM c (finalOp e 0x75) (zOpt z) (packRegVvvvv reg.toNat vvvvv.toNat) m 0 0 = .ok bytes ∧
      formOk ctx e.rule [.reg k0 reg.toNat, .reg k1 vvvvv.toNat, .mem mo] (decorOf aaa.toNat z false false 0) bytes = true := by
  have hok := mem_chunks_ok rvm_mem_entries_ok e ch hch he
  unfold entryOkRvmMem at hok
  split at hok
  · rename_i f0 f1 f2 k0 k1 k2 hops hkinds
    have hm2 : hasMemAlt f2 size = true := hsz f2 (by rw [hops]; rfl)
    simp only [hasMemAlt_any f2 size hm2, Bool.not_true, Bool.false_or, Bool.and_eq_true, Bool.or_eq_true, beq_iff_eq] at hok
    obtain ⟨-, hC, r0, r1, r2, p0, p1, n0, n1, m0, m1⟩ := hok
    obtain ⟨R, hmode, -, A, hxop, hvex, hevex⟩ := memCoreOk_spec _ _ _ hC
    have hal : alignOps e.rule.oszEff e.rule.ops [.reg k0 reg.toNat, .reg k1 vvvvv.toNat, .mem mo] =
        some [(f0, some (.reg k0 reg.toNat)), (f1, some (.reg k1 vvvvv.toNat)), (f2, some (.mem mo))] := by
      rw [hops]
      exact alignOps3 _ _ _ _ _ _ _ (by rw [formOpMatches_reg_nofix _ _ _ _ n0]; exact m0) (by rw [formOpMatches_reg_nofix _ _ _ _ n1]; exact m1)
        (hasMemAlt_matches _ _ _ _ hm2 hsize AF.hvsib)
    rcases hids with ⟨hsp, hr, hv, hev⟩ | ⟨hsp, hr, hv, ha0, hz0⟩
    · rw [hsp] at A
      obtain ⟨hs6, hN⟩ := hevex hsp
      have hev' : c.vexFlag = false ∨ (xR (finalOp e 0x75) 0#32 reg vvvvv xb aaa ||| zOpt z) &&& 0x00D78110#32 ≠ 0#32 := by
        rcases hev with h | h
        · exact Or.inl (vexFlag_false_of c _ hvf h)
        · exact Or.inr h
      obtain ⟨bytes, hb', hf⟩ := vexM_rvm_formOk_evex c ctx e.rule (finalOp e 0x75) reg vvvvv xb aaa z m mo pfx mb sib ds AF k0 k1 f0 f1 f2 hm64 hmode
        hr hv hxop hev' (plainKind_spec _ p0) (plainKind_spec _ p1) R D hsp A hs6 hN r0 r1 r2 hal
      refine ⟨bytes, k0, k1, k2, hkinds, ?_, hf⟩
      rw [packRegVvvvv_eq reg vvvvv hr hv]
      exact hb'
    · obtain ⟨hll, hmm, hvb⟩ := hvex hsp
      subst ha0; subst hz0
      have A' : RowAgree e.rule (finalOp e 0x75) false := by rw [hsp] at A; exact A
      obtain ⟨bytes, hb', hf⟩ := vexM_rvm_formOk_vex c ctx e.rule (finalOp e 0x75) reg vvvvv xb m mo pfx mb sib ds AF k0 k1 f0 f1 f2
        (vexFlag_true_of c _ hvf hvb) hm64 hmode
        hr hv hxop hll hmm (plainKind_spec _ p0) (plainKind_spec _ p1) R hsp A' r0 r1 r2 hal
      refine ⟨bytes, k0, k1, k2, hkinds, ?_, hf⟩
      rw [packRegVvvvv_eq reg vvvvv (by bv_decide) (by bv_decide)]
      exact hb'
  · simp at hok

/-- **front_cls_correct with a memory operand, classes VexRvmi / VexRvmi_Lx**: `reg, vvvv, MEM, imm8` for every immediate the form admits -/
theorem front_cls_correct_rvmi_mem (e : Entry) (ch : List Entry) (hch : ch ∈ rvmiChunks) (he : e ∈ ch)
    (c : Model.X86.Ctx) (ctx : Spec.X86.Ctx) (reg vvvvv xb aaa : BitVec 32) (z : Bool) (size : Nat) (m : Mem) (mo : MemOp) (pfx : List (BitVec 8)) (imm : BitVec 64)
    (mb : BitVec 32 → BitVec 32 → BitVec 8) (sib : BitVec 32 → BitVec 32 → Option (BitVec 8)) (ds : BitVec 32 → BitVec 32 → List (BitVec 8))
    (AF : AddrForm c ctx m mo pfx xb aaa mb sib ds) (hsize : mo.size = size)
    (D : DecorAllowed e.rule aaa.toNat z false false)
    (hvf : c.vexFlag = (e.iflags &&& 0x400000#32 != 0#32)) (hm64 : ctx.mode64 = true)
    (hsz : ∀ f2, e.rule.ops[2]? = some f2 → hasMemAlt f2 size = true)
    (himm : ∀ f3, e.rule.ops[3]? = some f3 → formOpMatches e.rule.oszEff f3 (.imm imm) = true)
    (hids : (e.rule.space = 2 ∧ reg < 32#32 ∧ vvvvv < 32#32 ∧
              (e.iflags &&& 0x400000#32 = 0#32 ∨ (xR (finalOp e 0x7C) 0#32 reg vvvvv xb aaa ||| zOpt z) &&& 0x00D78110#32 ≠ 0#32)) ∨
            (e.rule.space = 1 ∧ reg < 16#32 ∧ vvvvv < 16#32 ∧ aaa = 0#32 ∧ z = false)) :
    ∃ bytes k0 k1 k2, e.kinds = [k0, k1, k2] ∧
      emitVexEvexM c (finalOp e 0x7C) (zOpt z) (packRegVvvvv reg.toNat vvvvv.toNat) m imm 1 = .ok bytes ∧
      formOk ctx e.rule [.reg k0 reg.toNat, .reg k1 vvvvv.toNat, .mem mo, .imm imm] (decorOf aaa.toNat z false false 0) bytes = true := by
  have hok := mem_chunks_ok rvmi_mem_entries_ok e ch hch he
  unfold entryOkRvmiMem at hok
  split at hok
  · rename_i f0 f1 f2 f3 k0 k1 k2 hops hkinds
    have hm2 : hasMemAlt f2 size = true := hsz f2 (by rw [hops]; rfl)
    have m3 : formOpMatches e.rule.oszEff f3 (.imm imm) = true := himm f3 (by rw [hops]; rfl)
    simp only [hasMemAlt_any f2 size hm2, Bool.not_true, Bool.false_or, Bool.and_eq_true, Bool.or_eq_true, beq_iff_eq] at hok
    obtain ⟨-, hC, r0, r1, r2, r3, hib, p0, p1, n0, n1, m0, m1⟩ := hok
    obtain ⟨R, hmode, -, A, hxop, hvex, hevex⟩ := memCoreOk_spec _ _ _ hC
    have hal : alignOps e.rule.oszEff e.rule.ops [.reg k0 reg.toNat, .reg k1 vvvvv.toNat, .mem mo, .imm imm] =
        some [(f0, some (.reg k0 reg.toNat)), (f1, some (.reg k1 vvvvv.toNat)), (f2, some (.mem mo)), (f3, some (.imm imm))] := by
      rw [hops]
      exact alignOps4 _ _ _ _ _ _ _ _ _ (by rw [formOpMatches_reg_nofix _ _ _ _ n0]; exact m0) (by rw [formOpMatches_reg_nofix _ _ _ _ n1]; exact m1)
        (hasMemAlt_matches _ _ _ _ hm2 hsize AF.hvsib) m3
    rcases hids with ⟨hsp, hr, hv, hev⟩ | ⟨hsp, hr, hv, ha0, hz0⟩
    · rw [hsp] at A
      obtain ⟨hs6, hN⟩ := hevex hsp
      have hev' : c.vexFlag = false ∨ (xR (finalOp e 0x7C) 0#32 reg vvvvv xb aaa ||| zOpt z) &&& 0x00D78110#32 ≠ 0#32 := by
        rcases hev with h | h
        · exact Or.inl (vexFlag_false_of c _ hvf h)
        · exact Or.inr h
      obtain ⟨bytes, hb', hf⟩ := vexM_rvmi_formOk_evex c ctx e.rule (finalOp e 0x7C) reg vvvvv xb aaa z m mo pfx mb sib ds AF k0 k1 f0 f1 f2 hm64 hmode
        hr hv hxop hev' (plainKind_spec _ p0) (plainKind_spec _ p1) R D f3 imm r3 hib hsp A hs6 hN r0 r1 r2 hal
      refine ⟨bytes, k0, k1, k2, hkinds, ?_, hf⟩
      rw [packRegVvvvv_eq reg vvvvv hr hv]
      exact hb'
    · obtain ⟨hll, hmm, hvb⟩ := hvex hsp
      subst ha0; subst hz0
      have A' : RowAgree e.rule (finalOp e 0x7C) false := by rw [hsp] at A; exact A
      obtain ⟨bytes, hb', hf⟩ := vexM_rvmi_formOk_vex c ctx e.rule (finalOp e 0x7C) reg vvvvv xb m mo pfx mb sib ds AF k0 k1 f0 f1 f2
        (vexFlag_true_of c _ hvf hvb) hm64 hmode
        hr hv hxop hll hmm (plainKind_spec _ p0) (plainKind_spec _ p1) R f3 imm r3 hib hsp A' r0 r1 r2 hal
      refine ⟨bytes, k0, k1, k2, hkinds, ?_, hf⟩
      rw [packRegVvvvv_eq reg vvvvv (by bv_decide) (by bv_decide)]
      exact hb'
  · simp at hok

/-- **front_cls_correct with a memory operand, classes VexRm / VexRm_Lx**: `reg, MEM`; for the _Lx class the L bits come from the
register's size or-ed with the MEMORY operand's size (`finalOpM`) -/
theorem front_cls_correct_rm_mem (e : Entry) (ch : List Entry) (hch : ch ∈ rmChunks) (he : e ∈ ch)
    (c : Model.X86.Ctx) (ctx : Spec.X86.Ctx) (reg xb aaa : BitVec 32) (z : Bool) (size : Nat) (m : Mem) (mo : MemOp) (pfx : List (BitVec 8))
    (mb : BitVec 32 → BitVec 32 → BitVec 8) (sib : BitVec 32 → BitVec 32 → Option (BitVec 8)) (ds : BitVec 32 → BitVec 32 → List (BitVec 8))
    (AF : AddrForm c ctx m mo pfx xb aaa mb sib ds) (hsize : mo.size = size)
    (D : DecorAllowed e.rule aaa.toNat z false false)
    (hvf : c.vexFlag = (e.iflags &&& 0x400000#32 != 0#32)) (hm64 : ctx.mode64 = true)
    (hsz : ∀ f2, e.rule.ops[1]? = some f2 → hasMemAlt f2 size = true)
    (hids : (e.rule.space = 2 ∧ reg < 32#32 ∧
              (e.iflags &&& 0x400000#32 = 0#32 ∨ (xR (finalOpM e 0x6B size) 0#32 reg 0#32 xb aaa ||| zOpt z) &&& 0x00D78110#32 ≠ 0#32)) ∨
            (e.rule.space = 1 ∧ reg < 16#32 ∧ aaa = 0#32 ∧ z = false)) :
    ∃ bytes k0 k2, e.kinds = [k0, k2] ∧
      emitVexEvexM c (finalOpM e 0x6B size) (zOpt z) (r32 reg.toNat) m 0 0 = .ok bytes ∧
      formOk ctx e.rule [.reg k0 reg.toNat, .mem mo] (decorOf aaa.toNat z false false 0) bytes = true := by
  have hok := mem_chunks_ok rm_mem_entries_ok e ch hch he
  unfold entryOkRmMem at hok
  split at hok
  · rename_i f0 f2 k0 k2 hops hkinds
    have hm2 : hasMemAlt f2 size = true := hsz f2 (by rw [hops]; rfl)
    have hok := allMemAlts_spec f2 _ size hok hm2
    simp only [Bool.and_eq_true, Bool.or_eq_true, beq_iff_eq] at hok
    obtain ⟨-, hC, r0, r2, p0, n0, m0⟩ := hok
    obtain ⟨R, hmode, -, A, hxop, hvex, hevex⟩ := memCoreOk_spec _ _ _ hC
    have hal : alignOps e.rule.oszEff e.rule.ops [.reg k0 reg.toNat, .mem mo] =
        some [(f0, some (.reg k0 reg.toNat)), (f2, some (.mem mo))] := by
      rw [hops]
      exact alignOps2 _ _ _ _ _ (by rw [formOpMatches_reg_nofix _ _ _ _ n0]; exact m0) (hasMemAlt_matches _ _ _ _ hm2 hsize AF.hvsib)
    have e0 : reg + ((0#32 : BitVec 32) <<< 7) = reg := by bv_decide
    rcases hids with ⟨hsp, hr, hev⟩ | ⟨hsp, hr, ha0, hz0⟩
    · rw [hsp] at A
      obtain ⟨hs6, hN⟩ := hevex hsp
      have hev' : c.vexFlag = false ∨ (xR (finalOpM e 0x6B size) 0#32 reg 0#32 xb aaa ||| zOpt z) &&& 0x00D78110#32 ≠ 0#32 := by
        rcases hev with h | h
        · exact Or.inl (vexFlag_false_of c _ hvf h)
        · exact Or.inr h
      obtain ⟨bytes, hb', hf⟩ := vexM_rm_formOk_evex c ctx e.rule (finalOpM e 0x6B size) reg xb aaa z m mo pfx mb sib ds AF k0 f0 f2 hm64 hmode
        hr hxop hev' (plainKind_spec _ p0) R D hsp A hs6 hN r0 r2 hal
      refine ⟨bytes, k0, k2, hkinds, ?_, hf⟩
      rw [e0] at hb'
      simpa [r32, zOpt] using hb'
    · obtain ⟨hll, hmm, hvb⟩ := hvex hsp
      subst ha0; subst hz0
      have A' : RowAgree e.rule (finalOpM e 0x6B size) false := by rw [hsp] at A; exact A
      obtain ⟨bytes, hb', hf⟩ := vexM_rm_formOk_vex c ctx e.rule (finalOpM e 0x6B size) reg xb m mo pfx mb sib ds AF k0 f0 f2
        (vexFlag_true_of c _ hvf hvb) hm64 hmode
        hr hxop hll hmm (plainKind_spec _ p0) R hsp A' r0 r2 hal
      refine ⟨bytes, k0, k2, hkinds, ?_, hf⟩
      rw [e0] at hb'
      simpa [r32, zOpt] using hb'
  · simp at hok

/-- **front_cls_correct with a memory operand, classes VexRmi / VexRmi_Lx**: `reg, MEM, imm8` -/
theorem front_cls_correct_rmi_mem (e : Entry) (ch : List Entry) (hch : ch ∈ rmiChunks) (he : e ∈ ch)
    (c : Model.X86.Ctx) (ctx : Spec.X86.Ctx) (reg xb aaa : BitVec 32) (z : Bool) (size : Nat) (m : Mem) (mo : MemOp) (pfx : List (BitVec 8)) (imm : BitVec 64)
    (mb : BitVec 32 → BitVec 32 → BitVec 8) (sib : BitVec 32 → BitVec 32 → Option (BitVec 8)) (ds : BitVec 32 → BitVec 32 → List (BitVec 8))
    (AF : AddrForm c ctx m mo pfx xb aaa mb sib ds) (hsize : mo.size = size)
    (D : DecorAllowed e.rule aaa.toNat z false false)
    (hvf : c.vexFlag = (e.iflags &&& 0x400000#32 != 0#32)) (hm64 : ctx.mode64 = true)
    (hsz : ∀ f2, e.rule.ops[1]? = some f2 → hasMemAlt f2 size = true)
    (himm : ∀ f3, e.rule.ops[2]? = some f3 → formOpMatches e.rule.oszEff f3 (.imm imm) = true)
    (hids : (e.rule.space = 2 ∧ reg < 32#32 ∧
              (e.iflags &&& 0x400000#32 = 0#32 ∨ (xR (finalOpM e 0x71 size) 0#32 reg 0#32 xb aaa ||| zOpt z) &&& 0x00D78110#32 ≠ 0#32)) ∨
            (e.rule.space = 1 ∧ reg < 16#32 ∧ aaa = 0#32 ∧ z = false)) :
    ∃ bytes k0 k2, e.kinds = [k0, k2] ∧
      emitVexEvexM c (finalOpM e 0x71 size) (zOpt z) (r32 reg.toNat) m imm 1 = .ok bytes ∧
      formOk ctx e.rule [.reg k0 reg.toNat, .mem mo, .imm imm] (decorOf aaa.toNat z false false 0) bytes = true := by
  have hok := mem_chunks_ok rmi_mem_entries_ok e ch hch he
  unfold entryOkRmiMem at hok
  split at hok
  · rename_i f0 f2 f3 k0 k2 hops hkinds
    have hm2 : hasMemAlt f2 size = true := hsz f2 (by rw [hops]; rfl)
    have m3 : formOpMatches e.rule.oszEff f3 (.imm imm) = true := himm f3 (by rw [hops]; rfl)
    have hok := allMemAlts_spec f2 _ size hok hm2
    simp only [Bool.and_eq_true, Bool.or_eq_true, beq_iff_eq] at hok
    obtain ⟨-, hC, r0, r2, r3, hib, p0, n0, m0⟩ := hok
    obtain ⟨R, hmode, -, A, hxop, hvex, hevex⟩ := memCoreOk_spec _ _ _ hC
    have hal : alignOps e.rule.oszEff e.rule.ops [.reg k0 reg.toNat, .mem mo, .imm imm] =
        some [(f0, some (.reg k0 reg.toNat)), (f2, some (.mem mo)), (f3, some (.imm imm))] := by
      rw [hops]
      exact alignOps3i _ _ _ _ _ _ _ (by rw [formOpMatches_reg_nofix _ _ _ _ n0]; exact m0) (hasMemAlt_matches _ _ _ _ hm2 hsize AF.hvsib) m3
    have e0 : reg + ((0#32 : BitVec 32) <<< 7) = reg := by bv_decide
    rcases hids with ⟨hsp, hr, hev⟩ | ⟨hsp, hr, ha0, hz0⟩
    · rw [hsp] at A
      obtain ⟨hs6, hN⟩ := hevex hsp
      have hev' : c.vexFlag = false ∨ (xR (finalOpM e 0x71 size) 0#32 reg 0#32 xb aaa ||| zOpt z) &&& 0x00D78110#32 ≠ 0#32 := by
        rcases hev with h | h
        · exact Or.inl (vexFlag_false_of c _ hvf h)
        · exact Or.inr h
      obtain ⟨bytes, hb', hf⟩ := vexM_rmi_formOk_evex c ctx e.rule (finalOpM e 0x71 size) reg xb aaa z m mo pfx mb sib ds AF k0 f0 f2 hm64 hmode
        hr hxop hev' (plainKind_spec _ p0) R D f3 imm r3 hib hsp A hs6 hN r0 r2 hal
      refine ⟨bytes, k0, k2, hkinds, ?_, hf⟩
      rw [e0] at hb'
      simpa [r32, zOpt] using hb'
    · obtain ⟨hll, hmm, hvb⟩ := hvex hsp
      subst ha0; subst hz0
      have A' : RowAgree e.rule (finalOpM e 0x71 size) false := by rw [hsp] at A; exact A
      obtain ⟨bytes, hb', hf⟩ := vexM_rmi_formOk_vex c ctx e.rule (finalOpM e 0x71 size) reg xb m mo pfx mb sib ds AF k0 f0 f2
        (vexFlag_true_of c _ hvf hvb) hm64 hmode
        hr hxop hll hmm (plainKind_spec _ p0) R f3 imm r3 hib hsp A' r0 r2 hal
      refine ⟨bytes, k0, k2, hkinds, ?_, hf⟩
      rw [e0] at hb'
      simpa [r32, zOpt] using hb'
  · simp at hok

/-! ### the class switch reaches `EmitVexEvexM` with exactly these arguments -/

theorem dispatch_rvm_mem (c : Model.X86.Ctx) (row : Row) (options : BitVec 32) (t0 t1 i0 i1 : Nat) (m : Mem) (henc : row.encoding = 0x72 ∨ row.encoding = 0x75) :
    dispatch c row options (.reg t0 i0) (.reg t1 i1) (.mem m) .none =
      emitVexEvexM c (if row.encoding = 0x75 then row.mainOp ||| opcodeLBySize ((Op.reg t0 i0).rmSize ||| (Op.reg t1 i1).rmSize) else row.mainOp)
        options (packRegVvvvv i0 i1) m 0 0 := by
  rcases henc with h | h <;> simp [dispatch, h, sig3, Op.kind, Op.id]

theorem dispatch_rm_mem (c : Model.X86.Ctx) (row : Row) (options : BitVec 32) (t0 i0 : Nat) (m : Mem) (henc : row.encoding = 0x68 ∨ row.encoding = 0x6B) :
    dispatch c row options (.reg t0 i0) (.mem m) .none .none =
      emitVexEvexM c (if row.encoding = 0x6B then row.mainOp ||| opcodeLBySize ((Op.reg t0 i0).rmSize ||| m.size) else row.mainOp)
        options (r32 i0) m 0 0 := by
  rcases henc with h | h <;> simp [dispatch, h, sig3, Op.kind, Op.id, Op.rmSize]

theorem dispatch_rvmi_mem (c : Model.X86.Ctx) (row : Row) (options : BitVec 32) (t0 t1 i0 i1 : Nat) (m : Mem) (imm : BitVec 64)
    (henc : row.encoding = 0x7A ∨ row.encoding = 0x7C) :
    dispatch c row options (.reg t0 i0) (.reg t1 i1) (.mem m) (.imm imm) =
      emitVexEvexM c (if row.encoding = 0x7C then row.mainOp ||| opcodeLBySize ((Op.reg t0 i0).rmSize ||| (Op.reg t1 i1).rmSize) else row.mainOp)
        options (packRegVvvvv i0 i1) m imm 1 := by
  rcases henc with h | h <;> simp [dispatch, h, sig4, Op.kind, Op.id, Op.immVal]

theorem dispatch_rmi_mem (c : Model.X86.Ctx) (row : Row) (options : BitVec 32) (t0 i0 : Nat) (m : Mem) (imm : BitVec 64)
    (henc : row.encoding = 0x6F ∨ row.encoding = 0x71) :
    dispatch c row options (.reg t0 i0) (.mem m) (.imm imm) .none =
      emitVexEvexM c (if row.encoding = 0x71 then row.mainOp ||| opcodeLBySize ((Op.reg t0 i0).rmSize ||| m.size) else row.mainOp)
        options (r32 i0) m imm 1 := by
  rcases henc with h | h <;> simp [dispatch, h, sig3, Op.kind, Op.id, Op.rmSize, Op.immVal]

/-! ### the three address forms, spelled out for the class VexRvm (the other shapes instantiate the same way) -/

/-- `front_cls_correct_rvm_mem` instantiated: `reg, vvvv, seg:[base + disp]`, ANY segment override, 64-bit or (`a32`) 32-bit address registers, ALL bases 0..15, ALL displacements -/
theorem front_cls_correct_rvm_mem_base (e : Entry) (ch : List Entry) (hch : ch ∈ rvmChunks) (he : e ∈ ch)
    (c : Model.X86.Ctx) (ctx : Spec.X86.Ctx) (reg vvvvv aaa : BitVec 32) (z : Bool) (rb : BitVec 32) (size : Nat) (d : BitVec 64) (seg : Nat) (a32 : Bool)
    (hcm : c.mode64 = true) (hpe : c.preferEvex = false) (hk : c.extraId = aaa) (ha : aaa < 8#32) (hvs : c.vsib = false) (hts : c.tsib = false)
    (hvf : c.vexFlag = (e.iflags &&& 0x400000#32 != 0#32)) (hm64 : ctx.mode64 = true)
    (D : DecorAllowed e.rule aaa.toNat z false false) (hb : rb < 16#32)
    (hsz : ∀ f2, e.rule.ops[2]? = some f2 → hasMemAlt f2 size = true)
    (hids : (e.rule.space = 2 ∧ reg < 32#32 ∧ vvvvv < 32#32 ∧
              (e.iflags &&& 0x400000#32 = 0#32 ∨ (xR (finalOp e 0x75) 0#32 reg vvvvv rb aaa ||| zOpt z) &&& 0x00D78110#32 ≠ 0#32)) ∨
            (e.rule.space = 1 ∧ reg < 16#32 ∧ vvvvv < 16#32 ∧ aaa = 0#32 ∧ z = false)) :
    ∃ bytes k0 k1 k2, e.kinds = [k0, k1, k2] ∧
      emitVexEvexM c (finalOp e 0x75) (zOpt z) (packRegVvvvv reg.toNat vvvvv.toNat) (memBase size rb d seg a32) 0 0 = .ok bytes ∧
      formOk ctx e.rule [.reg k0 reg.toNat, .reg k1 vvvvv.toNat, .mem (memOpBase size rb d seg a32)] (decorOf aaa.toNat z false false 0) bytes = true :=
  front_cls_correct_rvm_mem e ch hch he c ctx reg vvvvv rb aaa z size _ _ _ _ _ _ (addrForm_base c ctx rb aaa size d seg a32 hcm hpe hk ha hvs hts hm64 hb) rfl D hvf hm64 hsz hids

/-- `front_cls_correct_rvm_mem` instantiated: `reg, vvvv, seg:[base + index * 2^sh + disp]`, ANY segment override, 64-bit or (`a32`) 32-bit address registers, ALL bases 0..15, ALL indexes 0..15 but rSP, ALL scales, ALL displacements -/
theorem front_cls_correct_rvm_mem_index (e : Entry) (ch : List Entry) (hch : ch ∈ rvmChunks) (he : e ∈ ch)
    (c : Model.X86.Ctx) (ctx : Spec.X86.Ctx) (reg vvvvv aaa : BitVec 32) (z : Bool) (rb rx : BitVec 32) (sh : Nat) (size : Nat) (d : BitVec 64) (seg : Nat) (a32 : Bool)
    (hcm : c.mode64 = true) (hpe : c.preferEvex = false) (hk : c.extraId = aaa) (ha : aaa < 8#32) (hvs : c.vsib = false) (hts : c.tsib = false)
    (hvf : c.vexFlag = (e.iflags &&& 0x400000#32 != 0#32)) (hm64 : ctx.mode64 = true)
    (D : DecorAllowed e.rule aaa.toNat z false false) (hb : rb < 16#32) (hx : rx < 16#32) (hx4 : rx ≠ 4#32) (hsh : sh < 4)
    (hsz : ∀ f2, e.rule.ops[2]? = some f2 → hasMemAlt f2 size = true)
    (hids : (e.rule.space = 2 ∧ reg < 32#32 ∧ vvvvv < 32#32 ∧
              (e.iflags &&& 0x400000#32 = 0#32 ∨ (xR (finalOp e 0x75) 0#32 reg vvvvv (xbOf rb rx) aaa ||| zOpt z) &&& 0x00D78110#32 ≠ 0#32)) ∨
            (e.rule.space = 1 ∧ reg < 16#32 ∧ vvvvv < 16#32 ∧ aaa = 0#32 ∧ z = false)) :
    ∃ bytes k0 k1 k2, e.kinds = [k0, k1, k2] ∧
      emitVexEvexM c (finalOp e 0x75) (zOpt z) (packRegVvvvv reg.toNat vvvvv.toNat) (memBaseIndex size rb rx sh d seg a32) 0 0 = .ok bytes ∧
      formOk ctx e.rule [.reg k0 reg.toNat, .reg k1 vvvvv.toNat, .mem (memOpBaseIndex size rb rx sh d seg a32)] (decorOf aaa.toNat z false false 0) bytes = true :=
  front_cls_correct_rvm_mem e ch hch he c ctx reg vvvvv (xbOf rb rx) aaa z size _ _ _ _ _ _ (addrForm_index c ctx rb rx aaa size sh d seg a32 hcm hpe hk ha hvs hm64 hb hx hx4 hsh) rfl D hvf hm64 hsz hids

/-- `front_cls_correct_rvm_mem` instantiated: `reg, vvvv, seg:[rip + disp32]`, ANY segment override, ALL displacements -/
theorem front_cls_correct_rvm_mem_rip (e : Entry) (ch : List Entry) (hch : ch ∈ rvmChunks) (he : e ∈ ch)
    (c : Model.X86.Ctx) (ctx : Spec.X86.Ctx) (reg vvvvv aaa : BitVec 32) (z : Bool)  (size : Nat) (d : BitVec 64) (seg : Nat)
    (hcm : c.mode64 = true) (hpe : c.preferEvex = false) (hk : c.extraId = aaa) (ha : aaa < 8#32) (hvs : c.vsib = false) (hts : c.tsib = false)
    (hvf : c.vexFlag = (e.iflags &&& 0x400000#32 != 0#32)) (hm64 : ctx.mode64 = true)
    (D : DecorAllowed e.rule aaa.toNat z false false) 
    (hsz : ∀ f2, e.rule.ops[2]? = some f2 → hasMemAlt f2 size = true)
    (hids : (e.rule.space = 2 ∧ reg < 32#32 ∧ vvvvv < 32#32 ∧
              (e.iflags &&& 0x400000#32 = 0#32 ∨ (xR (finalOp e 0x75) 0#32 reg vvvvv 0#32 aaa ||| zOpt z) &&& 0x00D78110#32 ≠ 0#32)) ∨
            (e.rule.space = 1 ∧ reg < 16#32 ∧ vvvvv < 16#32 ∧ aaa = 0#32 ∧ z = false)) :
    ∃ bytes k0 k1 k2, e.kinds = [k0, k1, k2] ∧
      emitVexEvexM c (finalOp e 0x75) (zOpt z) (packRegVvvvv reg.toNat vvvvv.toNat) (memRip size d seg) 0 0 = .ok bytes ∧
      formOk ctx e.rule [.reg k0 reg.toNat, .reg k1 vvvvv.toNat, .mem (memOpRip size d seg)] (decorOf aaa.toNat z false false 0) bytes = true :=
  front_cls_correct_rvm_mem e ch hch he c ctx reg vvvvv 0#32 aaa z size _ _ _ _ _ _ (addrForm_rip c ctx aaa size d seg hcm hpe hk ha hvs hm64) rfl D hvf hm64 hsz hids

end AsmjitVerif.Props.C01
