/-
C01 property theorems, front-end layer, memory operands, table layer: `front_cls_correct_rvm_mem_evex` - for EVERY regenerated
(row, EVEX form) pair of the classes VexRvm / VexRvm_Lx whose third operand has a memory alternative, ALL register numbers, ALL base registers
0..15 and ALL displacements, the bytes the class emits for `reg, vvvv, [base64 + disp]` satisfy the monitor (ModRM / SIB / disp8*N / disp32 included).
The table layer additionally decides, per entry, that the database's tuple type gives the same disp8*N as the encoder's CDSHL / CDTT fields.
-/
import AsmjitVerif.Props.C01Rows
import AsmjitVerif.Props.C01FrontMem
set_option linter.constructorNameAsVariable false
set_option maxRecDepth 100000
namespace AsmjitVerif.Props.C01
open Spec.X86 Model.X86 AsmjitVerif.Lemmas.X86Parse AsmjitVerif.Gen.X86ClassRows

/-- the form operand has a plain memory alternative of `sz` bytes -/
def hasMemAlt (f : FormOp) (sz : Nat) : Bool :=
  f.alts.any fun a => match a with | .mem (some s) .none => s == sz | _ => false

theorem hasMemAlt_matches (osz : Nat) (f : FormOp) (sz : Nat) (m : MemOp) (h : hasMemAlt f sz = true) (hsz : m.size = sz) (hik : m.indexKind = .none) :
    formOpMatches osz f (.mem m) = true := by
  unfold hasMemAlt at h
  unfold formOpMatches
  rw [List.any_eq_true] at h ⊢
  obtain ⟨a, ha, hm⟩ := h
  refine ⟨a, ha, ?_⟩
  cases a with
  | mem s vs =>
    cases s with
    | none => simp at hm
    | some s' =>
      cases vs <;> simp at hm
      simp [altMatches, vsibOf, hik, hsz, hm]
  | _ => simp at hm

def vexRuleMOk (r : Rule) : Bool :=
  r.modes &&& 2 != 0 && ((r.space == 1 || r.space == 2) && (r.pp &&& 8 == 0 && (!r.ri && ((r.modKind == 1 || r.modKind == 3) && (r.modr == 8 &&
  (r.modrm == 8 && (r.immBytes == 0 && (r.relBytes == 0 && (!r.moff && (!r.a67 && (!r.immRev && r.osz == 0)))))))))))

theorem vexRuleMOk_spec (r : Rule) (h : vexRuleMOk r = true) : VexRuleM r 0 ∧ (r.modes &&& 2 != 0) = true := by
  simp only [vexRuleMOk, Bool.and_eq_true, Bool.or_eq_true, beq_iff_eq, bne_iff_ne, ne_eq, Bool.not_eq_true'] at h
  obtain ⟨hmodes, hsp, hpp8, hri, hmk, hmr, hmrm, himm, hrel, hmoff, ha67, hrev, hosz⟩ := h
  exact ⟨⟨by rcases hsp with h | h <;> simp [h], hpp8, hri, hmk, hmr, hmrm, himm, hrel, hmoff, ha67, hrev, hosz⟩, by simpa using hmodes⟩

/-- EVEX entries with a memory alternative in the third operand: the rule's disp8*N = the encoder's compressed-displacement scale -/
def entryOkRvmMemEvex (e : Entry) : Bool :=
  match e.rule.ops, e.kinds with
  | [f0, f1, f2], [k0, k1, _] =>
    let op := finalOp e 0x75
    e.rule.space != 2 || !(f2.alts.any fun a => match a with | .mem (some _) .none => true | _ => false) || e.iflags &&& 0x400000#32 == 0#32 ||
    ((e.enc == 0x72 || e.enc == 0x75) && (vexRuleMOk e.rule && (rowAgreeOk e.rule op && (e.iflags &&& 0x1300000#32 == 0#32 &&
    (f0.role == .reg && (f1.role == .vvvv && (f2.role == .rm && (plainKind k0 && (plainKind k1 && (noFix f0 && (noFix f1 &&
    (formOpMatches e.rule.oszEff f0 (.reg k0 0) && (formOpMatches e.rule.oszEff f1 (.reg k1 0) &&
    (cdShiftOf (evexCdOpcodeOf op) ≤ 6#32 &&
     disp8Nf e.rule ((op >>> 29) &&& 3#32).toNat ((((op >>> 27) ||| (op >>> 28)) &&& 1#32) == 1#32) false == 2 ^ (cdShiftOf (evexCdOpcodeOf op)).toNat))))))))))))))
  | _, _ => false

theorem rvm_mem_evex_entries_ok : rvmChunks.all (fun c => c.all entryOkRvmMemEvex) = true := by decide +kernel

/-- **front_cls_correct with a memory operand, classes VexRvm / VexRvm_Lx, EVEX forms of instructions that also have a VEX form.**
`reg, vvvv, [base64 + disp]`: ALL register numbers 0..31, ALL base registers 0..15, ALL 64-bit displacement values (of which the encoder uses the low
32 bits), whenever EVEX is needed. The ModRM / SIB / disp8*N / disp32 bytes decode back to exactly that operand. -/
theorem front_cls_correct_rvm_mem_evex (e : Entry) (ch : List Entry) (hch : ch ∈ rvmChunks) (he : e ∈ ch) (hsp : e.rule.space = 2)
    (hvexf : e.iflags &&& 0x400000#32 ≠ 0#32)
    (c : Model.X86.Ctx) (ctx : Spec.X86.Ctx) (reg vvvvv rb : BitVec 32) (size : Nat) (d : BitVec 64)
    (hcm : c.mode64 = true) (hpe : c.preferEvex = false) (hk : c.extraId = 0#32) (hvf : c.vexFlag = true) (hvs : c.vsib = false) (hts : c.tsib = false)
    (hm64 : ctx.mode64 = true) (hr : reg < 32#32) (hv : vvvvv < 32#32) (hb : rb < 16#32)
    (hsz : ∀ f2, e.rule.ops[2]? = some f2 → hasMemAlt f2 size = true)
    (hev : xR (finalOp e 0x75) 0#32 reg vvvvv rb 0#32 &&& 0x00D78150#32 ≠ 0#32) :
    ∃ bytes k0 k1 k2, e.kinds = [k0, k1, k2] ∧
      emitVexEvexM c (finalOp e 0x75) 0#32 (packRegVvvvv reg.toNat vvvvv.toNat) (memBase size rb d) 0 0 = .ok bytes ∧
      formOk ctx e.rule [.reg k0 reg.toNat, .reg k1 vvvvv.toNat, .mem (memOpBase size rb d)] {} bytes = true := by
  have hok := mem_chunks_ok rvm_mem_evex_entries_ok e ch hch he
  unfold entryOkRvmMemEvex at hok
  split at hok
  · rename_i f0 f1 f2 k0 k1 k2 hops hkinds
    have hm2 : hasMemAlt f2 size = true := hsz f2 (by rw [hops]; rfl)
    have hany : (f2.alts.any fun a => match a with | .mem (some _) .none => true | _ => false) = true := by
      unfold hasMemAlt at hm2
      rw [List.any_eq_true] at hm2 ⊢
      obtain ⟨a, ha, hm⟩ := hm2
      refine ⟨a, ha, ?_⟩
      cases a with
      | mem s vs => cases s <;> cases vs <;> simp_all
      | _ => simp at hm
    have hvexf' : (e.iflags &&& 0x400000#32 == 0#32) = false := by simpa using hvexf
    simp only [hsp, bne_self_eq_false, hany, Bool.not_true, hvexf', Bool.false_or, Bool.and_eq_true, Bool.or_eq_true, beq_iff_eq, decide_eq_true_eq] at hok
    obtain ⟨-, hR, hA, hfl, r0, r1, r2, p0, p1, n0, n1, m0, m1, hs6, hN⟩ := hok
    obtain ⟨R, hmode⟩ := vexRuleMOk_spec _ hR
    obtain ⟨A, hxop, -⟩ := rowAgreeOk_spec _ _ hA
    rw [hsp] at A
    have hal : alignOps e.rule.oszEff e.rule.ops [.reg k0 reg.toNat, .reg k1 vvvvv.toNat, .mem (memOpBase size rb d)] =
        some [(f0, some (.reg k0 reg.toNat)), (f1, some (.reg k1 vvvvv.toNat)), (f2, some (.mem (memOpBase size rb d)))] := by
      rw [hops]
      exact alignOps3 _ _ _ _ _ _ _ (by rw [formOpMatches_reg_nofix _ _ _ _ n0]; exact m0) (by rw [formOpMatches_reg_nofix _ _ _ _ n1]; exact m1)
        (hasMemAlt_matches _ _ _ _ hm2 rfl rfl)
    have heq := evexCdOpcode_eq (finalOp e 0x75) reg vvvvv rb hr hv hb hxop
    obtain ⟨bytes, hb', hf⟩ := vexM_rvm_formOk_evex c ctx e.rule (finalOp e 0x75) reg vvvvv rb size d k0 k1 f0 f1 f2 hcm hpe hk hvf hvs hts hm64 hmode
      hr hv hb hxop hev (plainKind_spec _ p0) (plainKind_spec _ p1) R hsp A (by rw [heq]; exact hs6) (by rw [heq]; exact hN) r0 r1 r2 hal
    refine ⟨bytes, k0, k1, k2, hkinds, ?_, hf⟩
    rw [packRegVvvvv_eq reg vvvvv hr hv]
    exact hb'
  · simp at hok

end AsmjitVerif.Props.C01
