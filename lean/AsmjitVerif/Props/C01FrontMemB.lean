import AsmjitVerif.Props.C01FrontMemX
/-!
# C01 — BROADCAST memory operands `[…]{1toN}` in the memory class theorems

`EmitVexEvexM` sets EVEX.b, keeps L'L when the broadcast's vector size (element size << count) fits the form's vector length, and replaces
the compressed-displacement shift by log2 of the element size (disp8*N with N = element size, SDM table 2-34 "broadcast" rows).
`AddrFormB` is the broadcast counterpart of `AddrForm`; instance: `addrFormB_base` = `seg:[base + disp]{1toN}`.
-/
set_option linter.constructorNameAsVariable false
set_option linter.unusedSimpArgs false
set_option linter.unusedVariables false
namespace AsmjitVerif.Props.C01
open Spec.X86 Model.X86 AsmjitVerif.Lemmas.X86Parse

/-- the broadcast's vector size does not exceed the vector length of the opcode word (so `EmitVexEvexM` leaves L'L alone) -/
def BcstFits (c : Model.X86.Ctx) (m : Mem) (opcode : BitVec 32) : Prop :=
  BitVec.ofNat 32 (max (ctzSmall (c.bcstSize <<< m.bcst)) 4 - 4) ≤ (opcode >>> 29) &&& 3#32 ∧ (opcode >>> 29) &&& 3#32 ≤ 2#32

/-- the prefix decision with broadcast: always EVEX, b = 1, compressed-displacement shift = log2 (element size) -/
theorem vexEvexMPrefix_decidedB (c : Model.X86.Ctx) (opcode reg vvvvv xb aaa : BitVec 32) (z : Bool) (m : Mem)
    (hr : reg < 32#32) (hv : vvvvv < 32#32) (hb : xb < 32#32) (ha : aaa < 8#32) (hxop : opcode &&& 0x800#32 = 0#32)
    (hu : c.bcstSize ≠ 0) (hLL : BcstFits c m opcode) :
    vexEvexMPrefix c ((if c.vexFlag then xR opcode 0#32 reg vvvvv xb aaa ||| 0x100000#32 else xR opcode 0#32 reg vvvvv xb aaa ||| 0x100000#32 ||| 0x80000000#32) ||| zOpt z)
        opcode (zOpt z) m =
      .ok (le32 (evexWord (xR opcode 0#32 reg vvvvv xb aaa ||| zOpt z ||| 0x100000#32) opcode) ++ [opcode.truncate 8],
           (opcode &&& ~~~kCDSHL_Mask) ||| (bcstShift c.bcstSize <<< 13)) := by
  obtain ⟨h1, h2⟩ := hLL
  generalize ht : BitVec.ofNat 32 (max (ctzSmall (c.bcstSize <<< m.bcst)) 4 - 4) = t at *
  have hw : ∀ X : BitVec 32, X = xR opcode 0#32 reg vvvvv xb aaa ||| zOpt z ||| 0x100000#32 ∨ X = (xR opcode 0#32 reg vvvvv xb aaa ||| zOpt z ||| 0x100000#32) ||| 0x80000000#32 →
      evexWord X opcode = evexWord (xR opcode 0#32 reg vvvvv xb aaa ||| zOpt z ||| 0x100000#32) opcode ∧ X &&& 0x00100000#32 ≠ 0#32 ∧
      t <<< 29 ≤ evexWord X opcode &&& (0x3#32 <<< 29) ∧ t <<< 29 ≤ 2#32 <<< 29 := by
    intro X hX
    rcases hX with rfl | rfl <;> cases z <;>
      simp only [zOpt, oZMask, evexWord, xR, extractLLMMMMM, kLL_Mask, kMM_Mask, oEvex, Bool.false_eq_true, ↓reduceIte] <;>
      refine ⟨?_, ?_, ?_, ?_⟩ <;> bv_decide
  cases hvf : c.vexFlag
  · simp only [Bool.false_eq_true, ↓reduceIte]
    have hcomm : (xR opcode 0#32 reg vvvvv xb aaa ||| 0x100000#32 ||| 0x80000000#32) ||| zOpt z =
        (xR opcode 0#32 reg vvvvv xb aaa ||| zOpt z ||| 0x100000#32) ||| 0x80000000#32 := by bv_decide
    rw [hcomm]
    obtain ⟨e1, e2, e3, e4⟩ := hw _ (Or.inr rfl)
    rw [vexEvexMPrefix_bcst c _ opcode _ m e2 hu (by rw [ht]; exact e3) (by rw [ht]; exact e4), e1]
  · simp only [↓reduceIte]
    have hcomm : (xR opcode 0#32 reg vvvvv xb aaa ||| 0x100000#32) ||| zOpt z = xR opcode 0#32 reg vvvvv xb aaa ||| zOpt z ||| 0x100000#32 := by bv_decide
    rw [hcomm]
    obtain ⟨e1, e2, e3, e4⟩ := hw _ (Or.inl rfl)
    rw [vexEvexMPrefix_bcst c _ opcode _ m e2 hu (by rw [ht]; exact e3) (by rw [ht]; exact e4)]

theorem cdShift_bcst (opcode t : BitVec 32) (ht : t ≤ 7#32) : cdShiftOf ((opcode &&& ~~~kCDSHL_Mask) ||| (t <<< 13)) = t := by
  simp only [cdShiftOf, kCDSHL_Mask]; bv_decide

/-- `EmitVexEvexM` on the broadcast operand `seg:[base + disp]{1toN}`: the complete output -/
theorem emitVexEvexM_base_bytesB (c : Model.X86.Ctx) (opcode reg vvvvv rb aaa : BitVec 32) (z : Bool) (size : Nat) (d imm : BitVec 64) (n : Nat) (seg : Nat) (a32 : Bool)
    (bc : Nat) (hbc : bc ≠ 0)
    (hm : c.mode64 = true) (hpe : c.preferEvex = false) (hk : c.extraId = aaa) (hvs : c.vsib = false) (hts : c.tsib = false)
    (hu : c.bcstSize ≠ 0) (hu7 : bcstShift c.bcstSize ≤ 7#32)
    (hr : reg < 32#32) (hv : vvvvv < 32#32) (hb : rb < 16#32) (ha : aaa < 8#32) (hxop : opcode &&& 0x800#32 = 0#32)
    (hLL : BcstFits c (memBase size rb d seg a32 bc) opcode) :
    emitVexEvexM c opcode (zOpt z) (reg + (vvvvv <<< 7)) (memBase size rb d seg a32 bc) imm n =
      .ok ((segmentPrefix seg ++ aoBytes a32) ++ ((le32 (evexWord (xR opcode 0#32 reg vvvvv rb aaa ||| zOpt z ||| 0x100000#32) opcode) ++ [opcode.truncate 8] ++
                (memMb ((reg + (vvvvv <<< 7)) &&& 7#32) rb (d.truncate 32) (bcstShift c.bcstSize) ::
                  ((memSib ((reg + (vvvvv <<< 7)) &&& 7#32) rb (d.truncate 32) (bcstShift c.bcstSize)).toList ++
                   memDs rb (d.truncate 32) (bcstShift c.bcstSize)))) ++
           emitImmediate imm n)) := by
  have hoff : (memBase size rb d seg a32 bc).offLo32 = d.truncate 32 := rfl
  have hxe : xMbK opcode reg vvvvv rb aaa z = xR opcode 0#32 reg vvvvv rb aaa := by
    cases z <;> simp only [xMbK, xR, zOpt, oZMask, extractLLMMMMM, kLL_Mask, kMM_Mask, oEvex, Bool.false_eq_true, ↓reduceIte] <;> bv_decide
  rw [emitVexEvexM_base_eqB c opcode reg vvvvv rb aaa z size d imm n seg a32 bc hbc hm hpe hk hvs, hxe,
    vexEvexMPrefix_decidedB c opcode reg vvvvv rb aaa z _ hr hv (by bv_decide) ha hxop hu hLL]
  simp only []
  rw [emitModSib_base_parts c _ _ _ _ _ rb 0#32 (rmInfoBase a32) (memBase size rb d seg a32 bc) imm n hts
      (by cases a32 <;> decide) (by cases a32 <;> decide), hoff, cdShift_bcst _ _ hu7]
  simp [memMb, memSib, memDs]

/-- the broadcast counterpart of `AddrForm` -/
structure AddrFormB (c : Model.X86.Ctx) (ctx : Spec.X86.Ctx) (m : Mem) (mo : MemOp) (pfx : List (BitVec 8)) (xb aaa : BitVec 32)
    (mb : BitVec 32 → BitVec 32 → BitVec 8) (sib : BitVec 32 → BitVec 32 → Option (BitVec 8)) (ds : BitVec 32 → BitVec 32 → List (BitVec 8)) : Prop where
  hxb : xb < 32#32
  haaa : aaa < 8#32
  hpl : PfxList false pfx
  hpc : PfxCounts pfx mo
  hvsib : vsibOf mo = .none
  hbc : mo.bcst ≠ 0
  hs6 : bcstShift c.bcstSize ≤ 6#32
  shape : ∀ o7 s, o7 < 8#32 → (bits (mb o7 s) 6 2 ≠ 3 ∧ (bits (mb o7 s) 0 3 == 4) = (sib o7 s).isSome ∧
            (ds o7 s).length = dispLen (mb o7 s) (sib o7 s) ∧ bits (mb o7 s) 3 3 = o7.toNat)
  chk : ∀ (rule : Rule) (p : Parsed) o7 s, o7 < 8#32 → s ≤ 6#32 → MemFields p pfx (mb o7 s) (sib o7 s) (ds o7 s) (xb.getLsbD 3) (xb.getLsbD 4) →
            (if p.vexKind == 4 then disp8N rule p else 1) = 2 ^ s.toNat → checkMem ctx rule p mo = .ok ()
  emit : ∀ (opcode reg vvvvv : BitVec 32) (z : Bool) (imm : BitVec 64) (n : Nat), reg < 32#32 → vvvvv < 32#32 → opcode &&& 0x800#32 = 0#32 →
    BcstFits c m opcode →
    emitVexEvexM c opcode (zOpt z) (reg + (vvvvv <<< 7)) m imm n =
      .ok (pfx ++ ((le32 (evexWord (xR opcode 0#32 reg vvvvv xb aaa ||| zOpt z ||| 0x100000#32) opcode) ++ [opcode.truncate 8] ++
                (mb ((reg + (vvvvv <<< 7)) &&& 7#32) (bcstShift c.bcstSize) ::
                  ((sib ((reg + (vvvvv <<< 7)) &&& 7#32) (bcstShift c.bcstSize)).toList ++
                   ds ((reg + (vvvvv <<< 7)) &&& 7#32) (bcstShift c.bcstSize)))) ++
           emitImmediate imm n))

/-- the broadcast address form `seg:[base + disp]{1to(2^bc)}` -/
theorem addrFormB_base (c : Model.X86.Ctx) (ctx : Spec.X86.Ctx) (rb aaa : BitVec 32) (size : Nat) (d : BitVec 64) (seg : Nat) (a32 : Bool) (bc : Nat) (hbc : bc ≠ 0)
    (hm : c.mode64 = true) (hpe : c.preferEvex = false) (hk : c.extraId = aaa) (ha : aaa < 8#32) (hvs : c.vsib = false) (hts : c.tsib = false)
    (hu : c.bcstSize ≠ 0) (hs6 : bcstShift c.bcstSize ≤ 6#32)
    (hm64 : ctx.mode64 = true) (hb : rb < 16#32) :
    AddrFormB c ctx (memBase size rb d seg a32 bc) (memOpBase size rb d seg a32 bc) (segmentPrefix seg ++ aoBytes a32) rb aaa
      (fun o7 s => memMb o7 rb (d.truncate 32) s) (fun o7 s => memSib o7 rb (d.truncate 32) s) (fun _ s => memDs rb (d.truncate 32) s) := by
  obtain ⟨hpl, hpc, h67⟩ := segPfx_ok seg a32 (memOpBase size rb d seg a32 bc) rfl (by cases a32 <;> rfl)
  refine ⟨by bv_decide, ha, hpl, hpc, rfl, hbc, hs6, ?_, ?_, ?_⟩
  · intro o7 s ho
    exact memParts_shape o7 rb (d.truncate 32) s ho
  · intro rule p o7 s ho hs6 F hN
    have hx4 : rb.getLsbD 4 = false := by bv_decide
    rw [hx4] at F
    exact memParts_checkMem ctx rule p o7 rb s size d hm64 ho hb hs6 seg a32 bc _ h67 F hN
  · intro opcode reg vvvvv z imm n hr hv hxop hLL
    exact emitVexEvexM_base_bytesB c opcode reg vvvvv rb aaa z size d imm n seg a32 bc hbc hm hpe hk hvs hts hu (by bv_decide) hr hv hb ha hxop hLL

/-! ### compositions with a broadcast operand -/

/-- shape [reg, vvvv, MEM] with a BROADCAST memory operand (EVEX.b = 1, disp8*N = element size) -/
theorem vexM_rvm_formOk_bcst (c : Model.X86.Ctx) (ctx : Spec.X86.Ctx) (rule : Rule) (opcode reg vvvvv xb aaa : BitVec 32) (z : Bool) (m : Mem) (mo : MemOp) (pfx : List (BitVec 8))
    (mb : BitVec 32 → BitVec 32 → BitVec 8) (sib : BitVec 32 → BitVec 32 → Option (BitVec 8)) (ds : BitVec 32 → BitVec 32 → List (BitVec 8))
    (AF : AddrFormB c ctx m mo pfx xb aaa mb sib ds)
    (k0 k1 : RegKind) (f0 f1 f2 : FormOp)
    (hm64 : ctx.mode64 = true) (hmode : (rule.modes &&& 2 != 0) = true)
    (hr : reg < 32#32) (hv : vvvvv < 32#32) (hxop : opcode &&& 0x800#32 = 0#32)
    (hk0 : PlainKind k0) (hk1 : PlainKind k1)
    (R : VexRuleM rule 0) (D : DecorAllowed rule aaa.toNat z false false) (hs : rule.space = 2) (A : RowAgree rule opcode true)
    (hbr : rule.bcst = true) (hLL : BcstFits c m opcode)
    (hN : disp8Nf rule ((opcode >>> 29) &&& 3#32).toNat ((((opcode >>> 27) ||| (opcode >>> 28)) &&& 1#32) == 1#32) true =
          2 ^ (bcstShift c.bcstSize).toNat)
    (hf0 : f0.role = .reg) (hf1 : f1.role = .vvvv) (hf2 : f2.role = .rm)
    (hal : alignOps rule.oszEff rule.ops [.reg k0 reg.toNat, .reg k1 vvvvv.toNat, .mem mo] =
           some [(f0, some (.reg k0 reg.toNat)), (f1, some (.reg k1 vvvvv.toNat)), (f2, some (.mem mo))]) :
    ∃ bytes, emitVexEvexM c opcode (zOpt z) (reg + (vvvvv <<< 7)) m 0 0 = .ok bytes ∧
      formOk ctx rule [.reg k0 reg.toNat, .reg k1 vvvvv.toNat, .mem mo] (decorOf aaa.toNat z false false 0) bytes = true := by
  rw [AF.emit opcode reg vvvvv z 0 0 hr hv hxop hLL]
  refine ⟨_, rfl, ?_⟩
  have ho7 : (reg + (vvvvv <<< 7)) &&& 7#32 < 8#32 := by bv_decide
  obtain ⟨s1, s2, s3, s4⟩ := AF.shape _ (bcstShift c.bcstSize) ho7
  obtain ⟨p, hp, P, h0, h1, F, hNp, hi⟩ := evexG_parsedB rule opcode reg vvvvv xb aaa z pfx _ _ _ [] AF.hpl hr hv AF.hxb AF.haaa hxop R hs A s1 s2 s3 s4
  have hc := AF.chk rule p _ _ ho7 AF.hs6 F (by rw [hNp]; exact hN)
  simp only [emitImmediate] at *
  exact vex_rvm_mem_formOk ctx rule p _ _ pfx k0 k1 f0 f1 f2 _ _ _ _ _ _ hm64 hmode hk0 hk1 R hf0 hf1 hf2 AF.hpc D AF.hvsib (by simpa using AF.hbc) (fun _ => hbr) hal hp P h0 h1 hc

/-- shape [reg, MEM] with a BROADCAST memory operand (EVEX.b = 1, disp8*N = element size) -/
theorem vexM_rm_formOk_bcst (c : Model.X86.Ctx) (ctx : Spec.X86.Ctx) (rule : Rule) (opcode reg xb aaa : BitVec 32) (z : Bool) (m : Mem) (mo : MemOp) (pfx : List (BitVec 8))
    (mb : BitVec 32 → BitVec 32 → BitVec 8) (sib : BitVec 32 → BitVec 32 → Option (BitVec 8)) (ds : BitVec 32 → BitVec 32 → List (BitVec 8))
    (AF : AddrFormB c ctx m mo pfx xb aaa mb sib ds)
    (k0 : RegKind) (f0 f2 : FormOp)
    (hm64 : ctx.mode64 = true) (hmode : (rule.modes &&& 2 != 0) = true)
    (hr : reg < 32#32) (hxop : opcode &&& 0x800#32 = 0#32)
    (hk0 : PlainKind k0)
    (R : VexRuleM rule 0) (D : DecorAllowed rule aaa.toNat z false false) (hs : rule.space = 2) (A : RowAgree rule opcode true)
    (hbr : rule.bcst = true) (hLL : BcstFits c m opcode)
    (hN : disp8Nf rule ((opcode >>> 29) &&& 3#32).toNat ((((opcode >>> 27) ||| (opcode >>> 28)) &&& 1#32) == 1#32) true =
          2 ^ (bcstShift c.bcstSize).toNat)
    (hf0 : f0.role = .reg) (hf2 : f2.role = .rm)
    (hal : alignOps rule.oszEff rule.ops [.reg k0 reg.toNat, .mem mo] =
           some [(f0, some (.reg k0 reg.toNat)), (f2, some (.mem mo))]) :
    ∃ bytes, emitVexEvexM c opcode (zOpt z) (reg + (0#32 <<< 7)) m 0 0 = .ok bytes ∧
      formOk ctx rule [.reg k0 reg.toNat, .mem mo] (decorOf aaa.toNat z false false 0) bytes = true := by
  rw [AF.emit opcode reg 0#32 z 0 0 hr (by decide) hxop hLL]
  refine ⟨_, rfl, ?_⟩
  have ho7 : (reg + (0#32 <<< 7)) &&& 7#32 < 8#32 := by bv_decide
  obtain ⟨s1, s2, s3, s4⟩ := AF.shape _ (bcstShift c.bcstSize) ho7
  obtain ⟨p, hp, P, h0, h1, F, hNp, hi⟩ := evexG_parsedB rule opcode reg 0#32 xb aaa z pfx _ _ _ [] AF.hpl hr (by decide) AF.hxb AF.haaa hxop R hs A s1 s2 s3 s4
  have hc := AF.chk rule p _ _ ho7 AF.hs6 F (by rw [hNp]; exact hN)
  simp only [emitImmediate] at *
  exact vex_rm_mem_formOk ctx rule p _ _ pfx k0 f0 f2 _ _ _ _ _ hm64 hmode hk0 R hf0 hf2 AF.hpc D AF.hvsib (by simpa using AF.hbc) (fun _ => hbr) hal hp P h0 h1 hc

/-- shape [reg, vvvv, MEM, imm8] with a BROADCAST memory operand (EVEX.b = 1, disp8*N = element size) -/
theorem vexM_rvmi_formOk_bcst (c : Model.X86.Ctx) (ctx : Spec.X86.Ctx) (rule : Rule) (opcode reg vvvvv xb aaa : BitVec 32) (z : Bool) (m : Mem) (mo : MemOp) (pfx : List (BitVec 8))
    (mb : BitVec 32 → BitVec 32 → BitVec 8) (sib : BitVec 32 → BitVec 32 → Option (BitVec 8)) (ds : BitVec 32 → BitVec 32 → List (BitVec 8))
    (AF : AddrFormB c ctx m mo pfx xb aaa mb sib ds)
    (k0 k1 : RegKind) (f0 f1 f2 : FormOp)
    (hm64 : ctx.mode64 = true) (hmode : (rule.modes &&& 2 != 0) = true)
    (hr : reg < 32#32) (hv : vvvvv < 32#32) (hxop : opcode &&& 0x800#32 = 0#32)
    (hk0 : PlainKind k0) (hk1 : PlainKind k1)
    (R : VexRuleM rule 1) (D : DecorAllowed rule aaa.toNat z false false) (f3 : FormOp) (imm : BitVec 64) (hf3 : f3.role = .imm) (hib : immBitsOf f3 = 8) (hs : rule.space = 2) (A : RowAgree rule opcode true)
    (hbr : rule.bcst = true) (hLL : BcstFits c m opcode)
    (hN : disp8Nf rule ((opcode >>> 29) &&& 3#32).toNat ((((opcode >>> 27) ||| (opcode >>> 28)) &&& 1#32) == 1#32) true =
          2 ^ (bcstShift c.bcstSize).toNat)
    (hf0 : f0.role = .reg) (hf1 : f1.role = .vvvv) (hf2 : f2.role = .rm)
    (hal : alignOps rule.oszEff rule.ops [.reg k0 reg.toNat, .reg k1 vvvvv.toNat, .mem mo, .imm imm] =
           some [(f0, some (.reg k0 reg.toNat)), (f1, some (.reg k1 vvvvv.toNat)), (f2, some (.mem mo)), (f3, some (.imm imm))]) :
    ∃ bytes, emitVexEvexM c opcode (zOpt z) (reg + (vvvvv <<< 7)) m imm 1 = .ok bytes ∧
      formOk ctx rule [.reg k0 reg.toNat, .reg k1 vvvvv.toNat, .mem mo, .imm imm] (decorOf aaa.toNat z false false 0) bytes = true := by
  rw [AF.emit opcode reg vvvvv z imm 1 hr hv hxop hLL]
  refine ⟨_, rfl, ?_⟩
  have ho7 : (reg + (vvvvv <<< 7)) &&& 7#32 < 8#32 := by bv_decide
  obtain ⟨s1, s2, s3, s4⟩ := AF.shape _ (bcstShift c.bcstSize) ho7
  obtain ⟨p, hp, P, h0, h1, F, hNp, hi⟩ := evexG_parsedB rule opcode reg vvvvv xb aaa z pfx _ _ _ [imm.truncate 8] AF.hpl hr hv AF.hxb AF.haaa hxop R hs A s1 s2 s3 s4
  have hc := AF.chk rule p _ _ ho7 AF.hs6 F (by rw [hNp]; exact hN)
  simp only [emitImmediate] at *
  exact vex_rvmi_mem_formOk ctx rule p _ _ pfx k0 k1 f0 f1 f2 _ _ _ _ _ _ hm64 hmode hk0 hk1 R f3 imm hf3 hib (by simp [hi]) hf0 hf1 hf2 AF.hpc D AF.hvsib (by simpa using AF.hbc) (fun _ => hbr) hal hp P h0 h1 hc

/-- shape [reg, MEM, imm8] with a BROADCAST memory operand (EVEX.b = 1, disp8*N = element size) -/
theorem vexM_rmi_formOk_bcst (c : Model.X86.Ctx) (ctx : Spec.X86.Ctx) (rule : Rule) (opcode reg xb aaa : BitVec 32) (z : Bool) (m : Mem) (mo : MemOp) (pfx : List (BitVec 8))
    (mb : BitVec 32 → BitVec 32 → BitVec 8) (sib : BitVec 32 → BitVec 32 → Option (BitVec 8)) (ds : BitVec 32 → BitVec 32 → List (BitVec 8))
    (AF : AddrFormB c ctx m mo pfx xb aaa mb sib ds)
    (k0 : RegKind) (f0 f2 : FormOp)
    (hm64 : ctx.mode64 = true) (hmode : (rule.modes &&& 2 != 0) = true)
    (hr : reg < 32#32) (hxop : opcode &&& 0x800#32 = 0#32)
    (hk0 : PlainKind k0)
    (R : VexRuleM rule 1) (D : DecorAllowed rule aaa.toNat z false false) (f3 : FormOp) (imm : BitVec 64) (hf3 : f3.role = .imm) (hib : immBitsOf f3 = 8) (hs : rule.space = 2) (A : RowAgree rule opcode true)
    (hbr : rule.bcst = true) (hLL : BcstFits c m opcode)
    (hN : disp8Nf rule ((opcode >>> 29) &&& 3#32).toNat ((((opcode >>> 27) ||| (opcode >>> 28)) &&& 1#32) == 1#32) true =
          2 ^ (bcstShift c.bcstSize).toNat)
    (hf0 : f0.role = .reg) (hf2 : f2.role = .rm)
    (hal : alignOps rule.oszEff rule.ops [.reg k0 reg.toNat, .mem mo, .imm imm] =
           some [(f0, some (.reg k0 reg.toNat)), (f2, some (.mem mo)), (f3, some (.imm imm))]) :
    ∃ bytes, emitVexEvexM c opcode (zOpt z) (reg + (0#32 <<< 7)) m imm 1 = .ok bytes ∧
      formOk ctx rule [.reg k0 reg.toNat, .mem mo, .imm imm] (decorOf aaa.toNat z false false 0) bytes = true := by
  rw [AF.emit opcode reg 0#32 z imm 1 hr (by decide) hxop hLL]
  refine ⟨_, rfl, ?_⟩
  have ho7 : (reg + (0#32 <<< 7)) &&& 7#32 < 8#32 := by bv_decide
  obtain ⟨s1, s2, s3, s4⟩ := AF.shape _ (bcstShift c.bcstSize) ho7
  obtain ⟨p, hp, P, h0, h1, F, hNp, hi⟩ := evexG_parsedB rule opcode reg 0#32 xb aaa z pfx _ _ _ [imm.truncate 8] AF.hpl hr (by decide) AF.hxb AF.haaa hxop R hs A s1 s2 s3 s4
  have hc := AF.chk rule p _ _ ho7 AF.hs6 F (by rw [hNp]; exact hN)
  simp only [emitImmediate] at *
  exact vex_rmi_mem_formOk ctx rule p _ _ pfx k0 f0 f2 _ _ _ _ _ hm64 hmode hk0 R f3 imm hf3 hib (by simp [hi]) hf0 hf2 AF.hpc D AF.hvsib (by simpa using AF.hbc) (fun _ => hbr) hal hp P h0 h1 hc


/-! ### broadcast with the other address forms -/

theorem emitVexEvexM_index_eqB (c : Model.X86.Ctx) (opcode reg vvvvv rb rx aaa : BitVec 32) (z : Bool) (size sh : Nat) (d imm : BitVec 64) (n : Nat) (seg : Nat) (a32 : Bool)
    (bc : Nat) (hbc : bc ≠ 0)
    (hm : c.mode64 = true) (hpe : c.preferEvex = false) (hk : c.extraId = aaa) (hvs : c.vsib = false) :
    emitVexEvexM c opcode (zOpt z) (reg + (vvvvv <<< 7)) (memBaseIndex size rb rx sh d seg a32 bc) imm n =
      (match vexEvexMPrefix c ((if c.vexFlag then xMbx opcode reg vvvvv rb rx aaa z ||| 0x100000#32 else xMbx opcode reg vvvvv rb rx aaa z ||| 0x100000#32 ||| 0x80000000#32) ||| zOpt z)
          opcode (zOpt z) (memBaseIndex size rb rx sh d seg a32 bc) with
       | .error e => .error e
       | .ok v => emitModSib c (segmentPrefix seg ++ aoBytes a32 ++ v.1) (segmentPrefix seg).length v.2 (zOpt z) ((reg + (vvvvv <<< 7)) &&& 7#32) rb rx
                    (rmInfoIdx a32) (memBaseIndex size rb rx sh d seg a32 bc) imm n false) := by
  have hbc' : (bc != 0) = true := by simpa using hbc
  unfold emitVexEvexM
  cases z <;> cases a32
  all_goals
    simp only [memBaseIndex, xMbx, aoBytes, rmInfoIdx, zOpt, Bool.false_eq_true, ↓reduceIte, hbc']
    simp only [rtLabel, hk, hpe, hvs, memInfo_gp64_gp64, memInfo_gp32_gp32, Model.X86.Ctx.aoMask, hm, oZMask, oER, oSAE, oVex, oVex3]
    simp only [BitVec.ofNat_toNat, BitVec.setWidth_eq, BitVec.zero_and, BitVec.zero_or, BitVec.or_zero, bne_self_eq_false, Bool.false_eq_true, ↓reduceIte,
      Bool.false_and, gt_iff_lt, Nat.lt_irrefl, Nat.not_lt_zero, BitVec.zero_shiftLeft, BitVec.and_zero, bind, Except.bind, Bool.not_false,
      show (1 < 6) = True from by decide, show (1 < 5) = True from by decide, show (0x0F#32 &&& 0x80#32 != 0#32) = false from by decide,
      show (0x8F#32 &&& 0x80#32 != 0#32) = true from by decide, List.nil_append, List.length_nil, List.append_nil,
      show ((0:Nat) != 0) = false from by decide, show (1#32 <<< 20 : BitVec 32) = 0x100000#32 from by decide,
      show (0x800000#32 &&& (0x800000#32 ||| 0x40000#32 ||| 0x80000#32) != 0#32) = true from by decide,
      show (0x800000#32 &&& (0x40000#32 ||| 0x80000#32) != 0#32) = false from by decide,
      show (0x800000#32 &&& 0x800000#32) = 0x800000#32 from by decide,
      show (0x800000#32 &&& (0x800#32 ||| 0x400#32)) = 0#32 from by decide]
    generalize vexEvexMPrefix c _ opcode _ _ = r
    cases r <;> rfl

/-- the broadcast address form `seg:[base + index * 2^sh + disp]{1to(2^bc)}` -/
theorem addrFormB_index (c : Model.X86.Ctx) (ctx : Spec.X86.Ctx) (rb rx aaa : BitVec 32) (size sh : Nat) (d : BitVec 64) (seg : Nat) (a32 : Bool) (bc : Nat) (hbc : bc ≠ 0)
    (hm : c.mode64 = true) (hpe : c.preferEvex = false) (hk : c.extraId = aaa) (ha : aaa < 8#32) (hvs : c.vsib = false)
    (hu : c.bcstSize ≠ 0) (hs6 : bcstShift c.bcstSize ≤ 6#32)
    (hm64 : ctx.mode64 = true) (hb : rb < 16#32) (hx : rx < 16#32) (hx4 : rx ≠ 4#32) (hsh : sh < 4) :
    AddrFormB c ctx (memBaseIndex size rb rx sh d seg a32 bc) (memOpBaseIndex size rb rx sh d seg a32 bc) (segmentPrefix seg ++ aoBytes a32) (xbOf rb rx) aaa
      (fun o7 s => idxMb o7 (memVariant (rb &&& 7#32) (d.truncate 32) s))
      (fun _ _ => some (idxSib (BitVec.ofNat 32 sh) (rx &&& 7#32) (rb &&& 7#32)))
      (fun _ s => memDs rb (d.truncate 32) s) := by
  have AFv := addrForm_index c ctx rb rx aaa size sh d seg a32 hm hpe hk ha hvs hm64 hb hx hx4 hsh
  obtain ⟨hpl, hpc, h67⟩ := segPfx_ok seg a32 (memOpBaseIndex size rb rx sh d seg a32 bc) rfl (by cases a32 <;> rfl)
  have hxb : xbOf rb rx < 32#32 := AFv.hxb
  refine ⟨hxb, ha, hpl, hpc, by cases a32 <;> rfl, hbc, hs6, AFv.shape, ?_, ?_⟩
  · intro rule p o7 s ho hs6' F hN
    have h3 : (xbOf rb rx).getLsbD 3 = rb.getLsbD 3 := by simp only [xbOf]; bv_decide
    have h4 : (xbOf rb rx).getLsbD 4 = rx.getLsbD 3 := by simp only [xbOf]; bv_decide
    rw [h3, h4] at F
    exact idxParts_checkMem ctx rule p o7 rb rx s size sh d hm64 ho hb hx hx4 hsh hs6' seg a32 bc _ h67 F hN
  · intro opcode reg vvvvv z imm n hr hv hxop hLL
    have hoff : (memBaseIndex size rb rx sh d seg a32 bc).offLo32 = d.truncate 32 := rfl
    have hshift : (memBaseIndex size rb rx sh d seg a32 bc).shift = sh := rfl
    rw [emitVexEvexM_index_eqB c opcode reg vvvvv rb rx aaa z size sh d imm n seg a32 bc hbc hm hpe hk hvs, xMbx_eq_xR opcode reg vvvvv rb rx aaa z hb hx,
      vexEvexMPrefix_decidedB c opcode reg vvvvv (xbOf rb rx) aaa z _ hr hv hxb ha hxop hu hLL]
    simp only []
    rw [emitModSib_index_parts c _ _ _ _ _ rb rx (rmInfoIdx a32) _ imm n (by cases a32 <;> decide) (by cases a32 <;> decide) (by cases a32 <;> decide) hx4,
      hoff, hshift, cdShift_bcst _ _ (by bv_decide)]
    simp [memDs]

theorem emitVexEvexM_rip_eqB (c : Model.X86.Ctx) (opcode reg vvvvv aaa : BitVec 32) (z : Bool) (size : Nat) (d imm : BitVec 64) (n : Nat) (seg : Nat)
    (bc : Nat) (hbc : bc ≠ 0)
    (hm : c.mode64 = true) (hpe : c.preferEvex = false) (hk : c.extraId = aaa) (hvs : c.vsib = false) :
    emitVexEvexM c opcode (zOpt z) (reg + (vvvvv <<< 7)) (memRip size d seg bc) imm n =
      (match vexEvexMPrefix c ((if c.vexFlag then xMbK opcode reg vvvvv 0#32 aaa z ||| 0x100000#32 else xMbK opcode reg vvvvv 0#32 aaa z ||| 0x100000#32 ||| 0x80000000#32) ||| zOpt z)
          opcode (zOpt z) (memRip size d seg bc) with
       | .error e => .error e
       | .ok v => emitModSib c (segmentPrefix seg ++ aoBytes false ++ v.1) (segmentPrefix seg).length v.2 (zOpt z) ((reg + (vvvvv <<< 7)) &&& 7#32) 0#32 0#32 0x2C#32
                    (memRip size d seg bc) imm n false) := by
  have hbc' : (bc != 0) = true := by simpa using hbc
  unfold emitVexEvexM
  cases z
  all_goals
    dsimp only [memRip, xMbK, aoBytes, zOpt]
    simp only [hk, hpe, hvs, memInfo_rip, Model.X86.Ctx.aoMask, hm, hbc']
    simp only [rtLabel, oZMask, oER, oSAE, oVex, oVex3]
    simp only [BitVec.ofNat_toNat, BitVec.setWidth_eq, BitVec.zero_and, BitVec.zero_or, BitVec.or_zero, bne_self_eq_false, Bool.false_eq_true, ↓reduceIte,
      Bool.false_and, gt_iff_lt, Nat.lt_irrefl, Nat.not_lt_zero, BitVec.zero_shiftLeft, BitVec.and_zero, bind, Except.bind, Bool.not_false,
      show (1 < 31) = True from by decide, show (0x2C#32 &&& 0x80#32 != 0#32) = false from by decide, List.nil_append, List.length_nil, List.append_nil,
      show ((0:Nat) != 0) = false from by decide, BitVec.ofNat_eq_ofNat, show (1#32 <<< 20 : BitVec 32) = 0x100000#32 from by decide,
      show (0x800000#32 &&& (0x800000#32 ||| 0x40000#32 ||| 0x80000#32) != 0#32) = true from by decide,
      show (0x800000#32 &&& (0x40000#32 ||| 0x80000#32) != 0#32) = false from by decide,
      show (0x800000#32 &&& 0x800000#32) = 0x800000#32 from by decide,
      show (0x800000#32 &&& (0x800#32 ||| 0x400#32)) = 0#32 from by decide]
    generalize vexEvexMPrefix c _ opcode _ _ = r
    cases r <;> rfl

/-- the broadcast address form `seg:[rip + disp32]{1to(2^bc)}` -/
theorem addrFormB_rip (c : Model.X86.Ctx) (ctx : Spec.X86.Ctx) (aaa : BitVec 32) (size : Nat) (d : BitVec 64) (seg : Nat) (bc : Nat) (hbc : bc ≠ 0)
    (hm : c.mode64 = true) (hpe : c.preferEvex = false) (hk : c.extraId = aaa) (ha : aaa < 8#32) (hvs : c.vsib = false)
    (hu : c.bcstSize ≠ 0) (hs6 : bcstShift c.bcstSize ≤ 6#32) (hm64 : ctx.mode64 = true) :
    AddrFormB c ctx (memRip size d seg bc) (memOpRip size d seg bc) (segmentPrefix seg ++ aoBytes false) 0#32 aaa
      (fun o7 _ => ripMb o7) (fun _ _ => none) (fun _ _ => le32 (d.truncate 32)) := by
  have AFv := addrForm_rip c ctx aaa size d seg hm hpe hk ha hvs hm64
  obtain ⟨hpl, hpc, h67⟩ := segPfx_ok seg false (memOpRip size d seg bc) rfl (by simp [wantedAddrSize, memOpRip])
  refine ⟨by decide, ha, hpl, hpc, rfl, hbc, hs6, AFv.shape, ?_, ?_⟩
  · intro rule p o7 s ho hs6' F hN
    obtain ⟨hpm, hps, hpd, hpv, hpp, hpa, hpB, hpX⟩ := F
    obtain ⟨f1, f2, f3⟩ := ripMb_factsBV o7 ho
    refine checkMem_rip ctx rule p (memOpRip size d seg bc) _ hm64 (by rw [hpp]; exact h67) hpa hpm f1 f2 rfl rfl hps (by rw [hpd]; rfl) ?_
    rw [hpv, leNat_le32]
    simp [memOpRip, BitVec.toNat_setWidth]
  · intro opcode reg vvvvv z imm n hr hv hxop hLL
    have hoff : (memRip size d seg bc).offLo32 = d.truncate 32 := rfl
    have hxe : xMbK opcode reg vvvvv 0#32 aaa z = xR opcode 0#32 reg vvvvv 0#32 aaa := by
      cases z <;> simp only [xMbK, xR, zOpt, oZMask, extractLLMMMMM, kLL_Mask, kMM_Mask, oEvex, Bool.false_eq_true, ↓reduceIte] <;> bv_decide
    rw [emitVexEvexM_rip_eqB c opcode reg vvvvv aaa z size d imm n seg bc hbc hm hpe hk hvs, hxe,
      vexEvexMPrefix_decidedB c opcode reg vvvvv 0#32 aaa z _ hr hv (by decide) ha hxop hu hLL]
    simp only []
    rw [emitModSib_rip_parts c _ _ _ _ _ 0#32 0#32 _ imm n hm, hoff]
    simp

end AsmjitVerif.Props.C01
