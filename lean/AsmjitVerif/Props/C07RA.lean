/-
C07, hand-over from the register allocator (rastack.cpp `calculate_stack_frame`, rapass.cpp `update_stack_frame`):
the stack slots the allocator hands out are pairwise disjoint, aligned, inside `[0, stack_size)`, and after
`update_stack_frame` (local stack size / alignment set from the allocator, `finalize`, `adjust_slot_offsets`) every slot
lies inside the frame's local area, aligned relative to the body `sp` - the area `finalize_layout` shows disjoint from the
call area, the save areas, the return address and the caller's frame.  Holds for EVERY list of slots in EVERY order
(the sort of step 2 only decides which layout is chosen).
-/
import AsmjitVerif.Lemmas.RAStack
import AsmjitVerif.Props.C07
namespace AsmjitVerif.Frame

def SlotOK (s : RASlot) : Prop := ∃ k, k ≤ 7 ∧ s.align = 2 ^ k

/-- an upper bound of the stack the slots can take (no 32-bit wrap below it) -/
def need : List RASlot → Nat
  | [] => 0
  | s :: r => s.size + 2 * s.align + need r

/-- the placed slots form a chain: every real (non stack-argument) slot is aligned and starts at or after the end of
the previous one; the chain ends at `hi` -/
def Chain : Nat → List RASlot → Nat → Prop
  | lo, [], hi => lo = hi
  | lo, s :: rest, hi =>
    if s.isStackArg then Chain lo rest hi
    else lo ≤ s.offset ∧ s.offset % s.align = 0 ∧ Chain (s.offset + s.size) rest hi

def RASlot.key (s : RASlot) : Nat × Nat × Nat := (s.size, s.align, s.flags)

theorem placeAll_chain : ∀ (ss : List RASlot) (ps : PS), AllEmpty ps.gaps → (∀ s ∈ ss, SlotOK s) →
    ps.offset + need ss < 2 ^ 32 →
    AllEmpty (placeAll ps ss).1.gaps ∧ Chain ps.offset (placeAll ps ss).2 (placeAll ps ss).1.offset
    ∧ (placeAll ps ss).2.map RASlot.key = ss.map RASlot.key := by
  intro ss
  induction ss with
  | nil => intro ps hg _ _; exact ⟨hg, rfl, rfl⟩
  | cons s rest ih =>
    intro ps hg hok hb
    obtain ⟨k, hk, ha⟩ := hok s (by simp)
    simp only [need] at hb
    have hok' : ∀ x ∈ rest, SlotOK x := fun x hx => hok x (List.mem_cons_of_mem _ hx)
    have hpk : 2 ^ k ≤ 128 := by
      have : 2 ^ k ≤ 2 ^ 7 := Nat.pow_le_pow_right (by omega) hk
      omega
    cases hsa : s.isStackArg with
    | true =>
      have h1 : placeOne ps s = (ps, s) := by unfold placeOne; rw [hsa]; rfl
      obtain ⟨i1, i2, i3⟩ := ih ps hg hok' (by omega)
      simp only [placeAll, h1]
      refine ⟨i1, ?_, by rw [List.map_cons, List.map_cons, i3]⟩
      simp only [Chain, hsa, if_true]; exact i2
    | false =>
      rw [ha] at hb
      have h1 := placeOne_simple ps s hg hsa k hk ha (by omega)
      obtain ⟨a1, a2, a3⟩ := alignUp_spec ps.offset k (by omega) (by omega)
      rw [← ha] at a1 a2 a3
      obtain ⟨i1, i2, i3⟩ := ih { offset := alignUp ps.offset s.align + s.size, gaps := ps.gaps } hg hok' (by
        show alignUp ps.offset s.align + s.size + need rest < _
        rw [ha] at a3 ⊢; omega)
      simp only [placeAll, h1]
      refine ⟨i1, ?_, by rw [List.map_cons, List.map_cons, i3]; rfl⟩
      unfold Chain
      rw [show ({ s with offset := alignUp ps.offset s.align } : RASlot).isStackArg = false from hsa]
      simp only [Bool.false_eq_true, if_false]
      exact ⟨a2, a1, i2⟩

theorem chain_le : ∀ (out : List RASlot) (lo hi : Nat), Chain lo out hi → lo ≤ hi := by
  intro out
  induction out with
  | nil => intro lo hi h; exact Nat.le_of_eq h
  | cons s rest ih =>
    intro lo hi h
    simp only [Chain] at h
    split at h
    · exact ih _ _ h
    · have := ih _ _ h.2.2; omega

theorem chain_bounds : ∀ (out : List RASlot) (lo hi : Nat), Chain lo out hi →
    ∀ s ∈ out, s.isStackArg = false → lo ≤ s.offset ∧ s.offset + s.size ≤ hi ∧ s.offset % s.align = 0 := by
  intro out
  induction out with
  | nil => intro _ _ _ s hs; exact absurd hs (by simp)
  | cons x rest ih =>
    intro lo hi h s hs hsa
    simp only [Chain] at h
    rcases List.mem_cons.mp hs with e | e
    · subst e
      rw [hsa] at h
      simp only [Bool.false_eq_true, if_false] at h
      exact ⟨h.1, chain_le _ _ _ h.2.2, h.2.1⟩
    · split at h
      · exact ih _ _ h s e hsa
      · obtain ⟨b1, b2, b3⟩ := ih _ _ h.2.2 s e hsa
        exact ⟨by omega, b2, b3⟩

/-- real slots are laid out one after the other: pairwise disjoint -/
theorem chain_pairwise : ∀ (out : List RASlot) (lo hi : Nat), Chain lo out hi →
    out.Pairwise (fun a b => a.isStackArg = false → b.isStackArg = false → a.offset + a.size ≤ b.offset) := by
  intro out
  induction out with
  | nil => intro _ _ _; exact List.Pairwise.nil
  | cons x rest ih =>
    intro lo hi h
    simp only [Chain] at h
    rw [List.pairwise_cons]
    split at h
    · rename_i hx
      exact ⟨fun b _ ha => by rw [hx] at ha; exact absurd ha (by simp), ih _ _ h⟩
    · refine ⟨fun b hb _ hbsa => (chain_bounds _ _ _ h.2.2 b hb hbsa).1, ih _ _ h.2.2⟩

/-- **`calculate_stack_frame`.** For every list of slots (alignments powers of two up to 128, total below 2^32) in any
order: the gap lists are never used, every real slot is aligned, slots are pairwise disjoint and inside
`[0, stack_size)`, the stack size is a multiple of the allocator's alignment, sizes / alignments / flags are untouched. -/
theorem ra_slots_layout (allocAlign m : Nat) (hm : m ≤ 7) (hal : allocAlign = 2 ^ m) (sorted : List RASlot)
    (hok : ∀ s ∈ sorted, SlotOK s) (hb : need sorted + 256 < 2 ^ 32) :
    let out := (calculate allocAlign sorted).1
    let stackSize := (calculate allocAlign sorted).2
    out.map RASlot.key = sorted.map RASlot.key
    ∧ stackSize % allocAlign = 0
    ∧ (∀ s ∈ out, s.isStackArg = false → s.offset % s.align = 0 ∧ s.offset + s.size ≤ stackSize)
    ∧ out.Pairwise (fun a b => a.isStackArg = false → b.isStackArg = false → a.offset + a.size ≤ b.offset) := by
  intro out stackSize
  simp only [out, stackSize, calculate]
  have hkeys : (sorted.map fun s => { s with weight := s.calcWeight }).map RASlot.key = sorted.map RASlot.key := by
    rw [List.map_map]; rfl
  have hneed : need (sorted.map fun s => { s with weight := s.calcWeight }) = need sorted := by
    clear hkeys hb hok
    induction sorted with
    | nil => rfl
    | cons s r ih => simp only [List.map_cons, need]; rw [ih]
  have hokw : ∀ s ∈ (sorted.map fun s => { s with weight := s.calcWeight }), SlotOK s := by
    intro s hs
    rw [List.mem_map] at hs
    obtain ⟨x, hx, rfl⟩ := hs
    exact hok x hx
  generalize (sorted.map fun s => { s with weight := s.calcWeight }) = ws at hkeys hneed hokw
  obtain ⟨_, c2, c3⟩ := placeAll_chain ws { offset := 0, gaps := noGaps } noGaps_empty hokw (by
    show 0 + need ws < _; rw [hneed]; omega)
  have hpm : 2 ^ m ≤ 128 := by
    have : 2 ^ m ≤ 2 ^ 7 := Nat.pow_le_pow_right (by omega) hm
    omega
  -- the running offset stays below the bound
  have hoffG : ∀ (ss : List RASlot) (ps : PS), AllEmpty ps.gaps → (∀ s ∈ ss, SlotOK s) → ps.offset + need ss < 2 ^ 32 →
      (placeAll ps ss).1.offset ≤ ps.offset + need ss := by
    intro ss
    induction ss with
    | nil => intro ps _ _ _; exact Nat.le_add_right _ _
    | cons s rest ih =>
      intro ps hg hok2 hb2
      obtain ⟨k, hk, ha⟩ := hok2 s (by simp)
      simp only [need] at hb2 ⊢
      have hok' : ∀ x ∈ rest, SlotOK x := fun x hx => hok2 x (List.mem_cons_of_mem _ hx)
      have hpk : s.align ≤ 128 := by
        have : 2 ^ k ≤ 2 ^ 7 := Nat.pow_le_pow_right (by omega) hk
        rw [ha]; omega
      cases hsa : s.isStackArg with
      | true =>
        have h1 : placeOne ps s = (ps, s) := by unfold placeOne; rw [hsa]; rfl
        simp only [placeAll, h1]
        have := ih ps hg hok' (by omega); omega
      | false =>
        have h1 := placeOne_simple ps s hg hsa k hk ha (by rw [← ha]; omega)
        have a3 : alignUp ps.offset s.align < ps.offset + s.align := by
          rw [ha]; exact (alignUp_spec ps.offset k (by omega) (by rw [← ha]; omega)).2.2
        simp only [placeAll, h1]
        have := ih { offset := alignUp ps.offset s.align + s.size, gaps := ps.gaps } hg hok' (by
          show alignUp ps.offset s.align + s.size + need rest < _; omega)
        have e : ({ offset := alignUp ps.offset s.align + s.size, gaps := ps.gaps } : PS).offset
            = alignUp ps.offset s.align + s.size := rfl
        rw [e] at this; omega
  have hoff := hoffG ws { offset := 0, gaps := noGaps } noGaps_empty hokw (by show 0 + need ws < _; rw [hneed]; omega)
  have e0 : ({ offset := 0, gaps := noGaps } : PS).offset = 0 := rfl
  rw [e0, Nat.zero_add, hneed] at hoff
  generalize hP : placeAll { offset := 0, gaps := noGaps } ws = P at c2 c3 hoff ⊢
  obtain ⟨s1, s2, s3⟩ := alignUp_spec P.1.offset m (by omega) (by omega)
  refine ⟨by rw [c3, hkeys], ?_, ?_, chain_pairwise _ _ _ c2⟩
  · rw [hal]; exact s1
  · intro s hs hsa
    obtain ⟨_, b2, b3⟩ := chain_bounds _ _ _ c2 s hs hsa
    refine ⟨b3, ?_⟩
    rw [hal]; omega

/-- **Hand-over to the frame** (`update_stack_frame`): for any frame whose local stack size is the allocator's stack size
and whose final alignment is a multiple of the allocator's alignment (both are set from the allocator just before
`finalize`), every slot - moved by `local_stack_offset` (`adjust_slot_offsets`) - lies inside the finalized frame's
local area and is aligned relative to the body `sp` (itself a multiple of the final alignment). -/
theorem ra_handover (g : Frame) (hin : LayoutIn g) (stackSize : Nat) (hls : g.localSize = stackSize)
    (s : RASlot) (j : Nat) (hs : s.align = 2 ^ j) (hj : 2 ^ j ∣ g.finalAlign)
    (hal : s.offset % s.align = 0) (hfit : s.offset + s.size ≤ stackSize) :
    let l := g.finalize
    l.localOff ≤ l.localOff + s.offset
    ∧ l.localOff + s.offset + s.size ≤ l.localOff + l.localSize
    ∧ (l.localOff + s.offset) % s.align = 0
    ∧ l.localOff + l.localSize ≤ l.xOff ∧ g.callSize ≤ l.localOff := by
  intro l
  have lay := finalize_layout_full g hin
  have e1 : l.localSize = g.localSize := rfl
  refine ⟨Nat.le_add_right _ _, by rw [e1, hls]; omega, ?_, ?_, lay.callFits⟩
  · have h1 : l.localOff % g.finalAlign = 0 := lay.localAligned
    have h2 : 2 ^ j ∣ l.localOff := Nat.dvd_trans hj (Nat.dvd_of_mod_eq_zero h1)
    rw [hs] at hal ⊢
    exact Nat.mod_eq_zero_of_dvd ((Nat.dvd_add_right h2).mpr (Nat.dvd_of_mod_eq_zero hal))
  · have := lay.localFits
    rw [e1]; exact this

/-- `update_func_frame` does not touch sizes or alignments -/
theorem apply_uff_fields (g : Frame) (d0 d1 d2 d3 : Nat) (sa : Option Nat) (c : Bool) :
    (g.apply (.updateFuncFrame d0 d1 d2 d3 sa c)).localSize = g.localSize
    ∧ (g.apply (.updateFuncFrame d0 d1 d2 d3 sa c)).localAlign = g.localAlign
    ∧ (g.apply (.updateFuncFrame d0 d1 d2 d3 sa c)).finalAlign = g.finalAlign
    ∧ (g.apply (.updateFuncFrame d0 d1 d2 d3 sa c)).callSize = g.callSize := by
  cases sa with
  | some r => simp [Frame.apply, Frame.addDirtyG]
  | none =>
    simp only [Frame.apply]
    split <;> simp [Frame.addDirtyG]

/-- the frame `update_stack_frame` finalizes has the allocator's stack size as local stack size and a final alignment
that is at least the allocator's alignment -/
theorem updateStackFrame_pre (f : Frame) (clobbered : Nat → Nat) (allocAlign stackSize : Nat)
    (hal : allocAlign ≤ 128) (hsz : stackSize < 2 ^ 32) (d0 d1 d2 d3 : Nat) (sa : Option Nat) (c : Bool) :
    ∃ g : Frame, updateStackFrame f clobbered allocAlign stackSize (.updateFuncFrame d0 d1 d2 d3 sa c) = g.finalize
      ∧ g.localSize = stackSize ∧ g.localAlign = allocAlign ∧ allocAlign ≤ g.finalAlign ∧ g.callSize = f.callSize := by
  have hu : u32 stackSize = stackSize := Nat.mod_eq_of_lt hsz
  have hu8 : u8 allocAlign = allocAlign := Nat.mod_eq_of_lt (by omega)
  generalize hf1 : (((f.addDirtyG 0 (clobbered 0)).addDirtyG 1 (clobbered 1)).addDirtyG 2 (clobbered 2)).addDirtyG 3 (clobbered 3) = f1
  have e1 : f1.callSize = f.callSize := by rw [← hf1]; rfl
  generalize hg0 : (f1.setLocalAlign allocAlign).setLocalSize stackSize = g0
  have a1 : g0.localSize = stackSize := by rw [← hg0]; exact hu
  have a2 : g0.localAlign = allocAlign := by rw [← hg0]; exact hu8
  have a3 : allocAlign ≤ g0.finalAlign := by
    rw [← hg0]
    show allocAlign ≤ max3 f1.natAlign f1.callAlign (u8 allocAlign)
    rw [hu8]; unfold max3; omega
  have a4 : g0.callSize = f.callSize := by rw [← hg0]; exact e1
  obtain ⟨b1, b2, b3, b4⟩ := apply_uff_fields g0 d0 d1 d2 d3 sa c
  refine ⟨g0.apply (.updateFuncFrame d0 d1 d2 d3 sa c), ?_, by rw [b1, a1], by rw [b2, a2], by rw [b3]; exact a3, by rw [b4, a4]⟩
  unfold updateStackFrame
  dsimp only
  rw [hf1, hg0]

/-- **call area of a Compiler-built frame**: when the monitor accepts the stores the register allocator emitted before a call,
every one of them lies inside `[0, call_stack_size)` and is disjoint from the local area -/
theorem callArea_sound (callSize localOff localSize : Nat) (stores : List (Int × Nat))
    (h : callAreaMonitor callSize localOff localSize stores = none) :
    callSize ≤ localOff ∧ ∀ st ∈ stores, 0 ≤ st.1 ∧ st.1.toNat + st.2 ≤ callSize
      ∧ (st.1.toNat + st.2 ≤ localOff ∨ localOff + localSize ≤ st.1.toNat) := by
  unfold callAreaMonitor at h
  by_cases hc : callSize ≤ localOff
  · rw [if_pos hc, List.head?_eq_none_iff, List.filterMap_eq_nil_iff] at h
    refine ⟨hc, fun st hst => ?_⟩
    have h1 := h st hst
    unfold callAreaStore at h1
    by_cases hneg : st.1 < 0
    · simp [hneg] at h1
    · by_cases hz : st.2 = 0
      · simp [hneg, hz] at h1
      · by_cases hfit : st.1.toNat + st.2 ≤ callSize
        · exact ⟨by omega, hfit, Or.inl (by omega)⟩
        · simp only [hneg, if_false, hz, hfit] at h1
          split at h1 <;> simp at h1
  · rw [if_neg hc] at h; simp at h

/-! ### non-vacuity: the slots of the check's first `ras` line, in the order the implementation's sort produced -/

def exSlots : List RASlot :=
  [⟨100, 4, 0, 0, 0, 0⟩, ⟨32, 32, 0, 0, 0, 0⟩, ⟨16, 16, 1, 1, 0, 0⟩, ⟨4, 4, 3, 1, 0, 0⟩, ⟨1, 1, 1, 2, 0, 0⟩, ⟨4, 4, 1, 3, 0, 0⟩,
   ⟨8, 8, 1, 10, 0, 0⟩, ⟨2, 2, 1, 7, 0, 0⟩]

example : (∀ s ∈ exSlots, SlotOK s) ∧ need exSlots + 256 < 2 ^ 32 := by
  refine ⟨?_, by decide⟩
  intro s hs
  simp only [exSlots, List.mem_cons, List.not_mem_nil, or_false] at hs
  rcases hs with rfl | rfl | rfl | rfl | rfl | rfl | rfl | rfl
  · exact ⟨2, by omega, rfl⟩
  · exact ⟨5, by omega, rfl⟩
  · exact ⟨4, by omega, rfl⟩
  · exact ⟨2, by omega, rfl⟩
  · exact ⟨0, by omega, rfl⟩
  · exact ⟨2, by omega, rfl⟩
  · exact ⟨3, by omega, rfl⟩
  · exact ⟨1, by omega, rfl⟩

/-- the model's layout of these slots = what the real allocator answered (offsets 0 128 160 - 176 180 184 192, size 224) -/
example : ((calculate 32 exSlots).1.map (·.offset), (calculate 32 exSlots).2) = ([0, 128, 160, 0, 176, 180, 184, 192], 224) := by
  decide

end AsmjitVerif.Frame
