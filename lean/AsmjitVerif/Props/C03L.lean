/-
C03, the last piece of the bridge: the monitor locates an x86 branch field by *decoding the opcode bytes* that are in the final
buffer (`Spec/RefSemantics.x86BranchField`), not from any record. This file proves that the decode lands on the model's logged
field: (1) for every shape of the menu the ISA-level decoder, given the lead bytes of the instruction, returns the position
right after them and the field size (`branchLead_*`); (2) the lead bytes of a logged branch are outside every logged field,
so they are still in place at the end of every program (`Stable`, Props/C03S).
-/
import AsmjitVerif.Props.C03S
namespace AsmjitVerif.CodeHolder
open AsmjitVerif.Offset
open AsmjitVerif.RefSpec

/-- the ISA-level decoder, started on these lead bytes, finds an `n`-byte displacement right after them -/
def BranchLead (L : Bytes) (n : Nat) : Prop :=
  ∀ (buf : Bytes) (p : Nat), (∀ i (hi : i < L.length), buf[p + i]? = some L[i]) → x86BranchField buf p = some (p + L.length, n)

theorem branchLead_short (arch : Arch) (k : JKind) (o8 : BitVec 8) (h : (k.shape arch).op8 = some o8) :
    BranchLead ((k.shape arch).pre ++ [o8]) 1 := by
  intro buf p hb
  cases k <;> cases arch <;> simp only [JKind.shape, Option.some.injEq, reduceCtorEq] at h <;> subst h <;>
    simp only [JKind.shape, reduceCtorEq, if_false, if_true, List.nil_append, List.cons_append, List.length_cons, List.length_nil] at hb ⊢
  all_goals first
    | (have h0 := hb 0 (by omega)
       have h1 := hb 1 (by omega)
       simp only [Nat.add_zero, List.getElem_cons_zero, List.getElem_cons_succ] at h0 h1
       simp [x86BranchField, h0, h1]; done)
    | (have h0 := hb 0 (by omega)
       simp only [Nat.add_zero, List.getElem_cons_zero] at h0
       simp [x86BranchField, h0]; done)

theorem branchLead_long (arch : Arch) (k : JKind) (h : (k.shape arch).op32 ≠ []) :
    BranchLead ((k.shape arch).pre ++ (k.shape arch).op32) 4 := by
  intro buf p hb
  cases k <;> cases arch <;> simp only [JKind.shape, ne_eq, not_true_eq_false, reduceCtorEq] at h <;>
    simp only [JKind.shape, reduceCtorEq, if_false, if_true, List.nil_append, List.cons_append, List.length_cons, List.length_nil] at hb ⊢
  all_goals first
    | (have h0 := hb 0 (by omega)
       have h1 := hb 1 (by omega)
       simp only [Nat.add_zero, List.getElem_cons_zero, List.getElem_cons_succ] at h0 h1
       simp [x86BranchField, h0, h1]; done)
    | (have h0 := hb 0 (by omega)
       simp only [Nat.add_zero, List.getElem_cons_zero] at h0
       simp [x86BranchField, h0]; done)

/-- one byte of a section, as a region -/
def bref (sec off : Nat) : GRef := { sec := sec, offset := off, rel := 0#64, fmt := fmtS 1, label := 0 }

theorem newFixup_secs (x : State) (l : Nat) (f : Fixup) : (newFixup x l f).secs = x.secs ∧ (newFixup x l f).cur = x.cur := by
  unfold newFixup; split <;> exact ⟨rfl, rfl⟩

theorem newFixup_ghost_mem (y : State) (l : Nat) (f : Fixup) (x : GRef) (hx : x ∈ (newFixup y l f).ghost) :
    x ∈ y.ghost ∨ x = f.toG l := by
  unfold newFixup logRef at hx
  split at hx
  · split at hx
    · replace hx : x ∈ y.ghost ++ [f.toG l] := hx
      rw [List.mem_append] at hx
      rcases hx with hx | hx
      · exact .inl hx
      · exact .inr (List.mem_singleton.1 hx)
    · exact .inl hx
  · split at hx
    · replace hx : x ∈ y.ghost ++ [f.toG l] := hx
      rw [List.mem_append] at hx
      rcases hx with hx | hx
      · exact .inl hx
      · exact .inr (List.mem_singleton.1 hx)
    · exact .inl hx
  · exact .inl hx

/-- the lead bytes of an instruction that was emitted around a fixup: each of them is a stable region of the state right after
the call, and holds the byte that was emitted -/
theorem site_lead_stable (s : State) (h : Inv s) (lead tail : Bytes) (l : Nat) (f : Fixup) (hfs : f.sec = s.cur)
    (hfo : s.curOff + lead.length ≤ f.offset) (i : Nat) (hi : i < lead.length) :
    Stable ((newFixup (s.emit lead) l f).emit tail) (bref s.cur (s.curOff + i)) ∧
    field ((newFixup (s.emit lead) l f).emit tail).secs (bref s.cur (s.curOff + i)) = some (lead[i]).toNat := by
  obtain ⟨sec0, hsec0⟩ : ∃ sec0, s.secs[s.cur]? = some sec0 := ⟨s.secs[s.cur]'h.cur, by simp [h.cur]⟩
  have hco : s.curOff = sec0.buf.length := by unfold State.curOff; rw [hsec0]
  have hcur1 : (newFixup (s.emit lead) l f).cur = s.cur := (newFixup_secs _ l f).2
  have hsecs1 : (newFixup (s.emit lead) l f).secs = (s.emit lead).secs := (newFixup_secs _ l f).1
  have hget1 : (s.emit lead).secs[s.cur]? = some { sec0 with buf := sec0.buf ++ lead } := by
    unfold State.emit; exact modifySec_get_same _ _ _ _ hsec0
  have hget : ((newFixup (s.emit lead) l f).emit tail).secs[s.cur]? = some { sec0 with buf := sec0.buf ++ lead ++ tail } := by
    have e0 : ((newFixup (s.emit lead) l f).emit tail).secs = modifySec (newFixup (s.emit lead) l f).secs
        (newFixup (s.emit lead) l f).cur (fun sec => { sec with buf := sec.buf ++ tail }) := rfl
    rw [e0, hcur1, hsecs1, modifySec_get_same _ _ _ _ hget1]
  have hghost : ((newFixup (s.emit lead) l f).emit tail).ghost = (newFixup (s.emit lead) l f).ghost := rfl
  refine ⟨⟨⟨_, hget, ?_⟩, ?_⟩, ?_⟩
  · simp only [bref, fmtS, simpleValue, List.length_append]; omega
  · intro x hx
    rw [hghost] at hx
    rcases newFixup_ghost_mem _ l f x hx with hx | hx
    · have hx' : x ∈ s.ghost := hx
      obtain ⟨sec, h1, h2⟩ := h.inb x hx'
      by_cases he : x.sec = s.cur
      · right; right
        rw [he, hsec0] at h1; cases h1
        show x.offset + x.fmt.valueSize ≤ s.curOff + i
        omega
      · left; exact fun e => he e.symm
    · subst hx
      right; left
      show s.curOff + i + 1 ≤ f.offset
      omega
  · unfold field
    show (((newFixup (s.emit lead) l f).emit tail).secs[s.cur]?).bind _ = _
    rw [hget]
    simp only [Option.bind_some]
    show loadLE (sec0.buf ++ lead ++ tail) (s.curOff + i) 1 = _
    have e : sec0.buf ++ lead ++ tail = (sec0.buf ++ lead.take i) ++ leBytes (lead[i]).toNat 1 ++ (lead.drop (i + 1) ++ tail) := by
      have hb : leBytes (lead[i]).toNat 1 = [lead[i]] := by simp [leBytes]
      rw [hb]
      have hl : lead.take i ++ (lead[i] :: lead.drop (i + 1)) = lead := by
        rw [← List.drop_eq_getElem_cons hi, List.take_append_drop]
      have : sec0.buf ++ lead ++ tail = sec0.buf ++ (lead.take i ++ (lead[i] :: lead.drop (i + 1))) ++ tail := by rw [hl]
      rw [this]
      simp
      rw [← List.append_assoc, List.take_append_drop]
    have hlen : (sec0.buf ++ lead.take i).length = s.curOff + i := by
      rw [List.length_append, List.length_take, hco]; omega
    rw [e, ← hlen, loadLE_leBytes]
    congr 1
    exact Nat.mod_eq_of_lt (by have := (lead[i]).isLt; omega)

/-- the lead bytes of the instruction that holds the logged branch field `g` start at `start`, decode (ISA level) to a field of
`g`'s size right after them, and are stable regions of `s` -/
def LeadOK (s : State) (g : GRef) (start : Nat) : Prop :=
  ∃ L : Bytes, BranchLead L g.fmt.valueSize ∧ start + L.length = g.offset ∧
    ∀ i (hi : i < L.length), Stable s (bref g.sec (start + i)) ∧ field s.secs (bref g.sec (start + i)) = some (L[i]).toNat

theorem leadOK_grow {s s' : State} {g : GRef} {start : Nat} (hi : Inv s) (hg : Grow s s') (h : LeadOK s g start) : LeadOK s' g start := by
  obtain ⟨L, h1, h2, h3⟩ := h
  refine ⟨L, h1, h2, fun i hlt => ?_⟩
  obtain ⟨hs, hf⟩ := h3 i hlt
  obtain ⟨hs', hf'⟩ := stable_grow hi hg hs
  exact ⟨hs', hf'.trans hf⟩

/-- what `LeadOK` means for the bytes: the decoder run on the section's buffer finds the logged field -/
theorem leadOK_decodes {s : State} {g : GRef} {start : Nat} (h : LeadOK s g start) (sec : Section) (hsec : s.secs[g.sec]? = some sec) :
    RefSpec.x86BranchField sec.buf start = some (g.offset, g.fmt.valueSize) := by
  obtain ⟨L, h1, h2, h3⟩ := h
  rw [← h2]
  apply h1
  intro i hi
  obtain ⟨_, hf⟩ := h3 i hi
  unfold field bref at hf
  simp only [hsec, Option.bind_some, fmtS, simpleValue] at hf
  unfold loadLE at hf
  cases hb : sec.buf[start + i]? with
  | none => rw [hb] at hf; simp at hf
  | some b =>
    rw [hb] at hf
    simp only [loadLE, Nat.mul_zero, Nat.add_zero, Option.some.injEq] at hf
    congr 1
    exact BitVec.eq_of_toNat_eq hf

end AsmjitVerif.CodeHolder
