/-
C16 — reset, reinit and reuse of holders and emitters leave no residue (semantic part; the structural part over the
clang AST is Props/C16Fields.lean).

All statements are about `Model/Reuse.lean` (tied to /repo by harness/c16.cpp vs Driver/C16.lean on the same lines) and
quantify over ALL states / histories, not over reachable samples.  `World.obs` (Spec/Reuse.lean) is what a dump prints
in its `code|` part; `Sim a b` = `a.obs = b.obs`.
-/
import AsmjitVerif.Lemmas.ReuseReinit
namespace AsmjitVerif.Reuse

/-! ### 1. the cleaning functions forget everything (every state, reachable or not) -/

/-- `on_detach` (whole chain down to `BaseEmitter`) leaves an emitter that is observationally a freshly constructed one:
    no option, comment, cursor, node, label/section node, pass, virtual register or jump annotation survives. -/
theorem detach_forgets_everything (e : Emitter) : e.onDetach.obs = ({ kind := e.kind, fam64 := e.fam64 } : Emitter).obs := by
  cases e with | mk k _ _ _ _ _ _ _ _ _ _ _ _ _ _ _ _ _ _ _ _ _ _ =>
  cases k <;> simp [Emitter.onDetach, Emitter.obs]

/-- `on_reinit` leaves a state that depends only on what attachment fixed (kind, architecture, alignment, REX policy),
    not on anything generated before. -/
theorem reinit_forgets_everything (e1 e2 : Emitter) (hk : e1.kind = e2.kind) (hc : e1.code = e2.code) (ha : e1.arch = e2.arch)
    (hi : e1.instAlign = e2.instAlign) (hr : e1.invalidRex = e2.invalidRex) (hf : e1.fam64 = e2.fam64) :
    e1.onReinit.obs = e2.onReinit.obs := by
  cases e1 with | mk k1 _ _ _ _ _ _ _ _ _ _ _ _ _ _ _ _ _ _ _ _ _ _ =>
  cases e2 with | mk k2 _ _ _ _ _ _ _ _ _ _ _ _ _ _ _ _ _ _ _ _ _ _ =>
  simp only at hk hc ha hi hr hf
  subst hk hc ha hi hr hf
  cases k1 <;> simp [Emitter.onReinit, Emitter.obs]

/-- … and that state is the one a brand-new emitter has right after being attached to a holder that holds only the
    empty `.text` (reinit = init + attach). -/
theorem reinit_eq_fresh_attach (e : Emitter) (h0 : Holder) (hc : e.code = true) (ha : e.arch = h0.arch)
    (hi : e.instAlign = if h0.arch == some .a64 then 4 else 1)
    (hr : e.invalidRex = (e.kind == .asm && h0.arch == some .x86)) (hs : h0.secs = [textSection]) :
    e.onReinit.obs = (({ kind := e.kind, fam64 := e.fam64 } : Emitter).onAttach h0).obs := by
  cases e with | mk k _ _ _ _ _ _ _ _ _ _ _ _ _ _ _ _ _ _ _ _ _ _ =>
  simp only at hc ha hi hr
  subst hc ha hi hr
  cases k <;> simp [Emitter.onReinit, Emitter.onAttach, Emitter.settingsUpdated, Emitter.updateForced, Emitter.obs, hs, textSection]

/-- `CodeHolder::reset` (soft or hard) leaves a holder that is observationally a freshly constructed one. -/
theorem reset_holder_forgets (w : World) (hard : Bool) (hi : w.h.arch.isSome = true) :
    (w.reset hard).h.obs = ({} : Holder).obs := by
  have : w.h.arch.isNone = false := by cases h : w.h.arch <;> simp_all
  simp [World.reset, this, Holder.resetContainers, Holder.obs]

/-- `CodeHolder::reinit` leaves a holder that only remembers its environment and who is attached. -/
theorem reinit_holder_forgets (w : World) (hi : w.h.arch.isSome = true) :
    w.reinit.1.h.obs = ({ arch := w.h.arch, secs := [textSection], attached := w.h.attached, base := w.h.initBase, initBase := w.h.initBase } : Holder).obs := by
  have : w.h.arch.isNone = false := by cases h : w.h.arch <;> simp_all
  simp [World.reinit, this, Holder.resetContainers, Holder.obs, Holder.alloc]

/-! ### 2. a reset world is a fresh world -/

theorem applyAll_detach_getElem? (att : List Nat) : ∀ (es : List Emitter) (j : Nat),
    ((applyAll Emitter.onDetach es att)[j]?).map Emitter.obs =
      if j ∈ att then (es[j]?).map (fun e => ({ kind := e.kind, fam64 := e.fam64 } : Emitter).obs) else (es[j]?).map Emitter.obs := by
  induction att with
  | nil => intro es j; simp [applyAll]
  | cons i r ih =>
    intro es j
    simp only [applyAll]
    rw [ih, updAt_getElem?]
    by_cases hji : j = i
    · subst hji
      cases hj : es[j]? with
      | none => simp
      | some e =>
        have hk : e.onDetach.kind = e.kind := rfl
        have hfm : e.onDetach.fam64 = e.fam64 := rfl
        by_cases hjr : j ∈ r <;> simp [hjr, hk, hfm, detach_forgets_everything]
    · by_cases hjr : j ∈ r <;> simp [hji, hjr]

/-- **reset = fresh.** Whatever the holder contained and whatever state its attached emitters were in, after
    `reset(soft|hard)` the world is observationally the world of freshly constructed objects — provided the emitters
    that were *not* attached at that moment are themselves clean (reset cannot and need not touch them). -/
theorem reset_sim_fresh (w : World) (hard : Bool) (fam : Bool) (hi : w.h.arch.isSome = true)
    (hk : w.es.map (fun e => (e.kind, e.fam64)) = (if fam then World.freshA64 else World.fresh).es.map (fun e => (e.kind, e.fam64)))
    (hd : ∀ i e, w.es[i]? = some e → i ∉ w.h.attached → e.obs = ({ kind := e.kind, fam64 := e.fam64 } : Emitter).obs) :
    Sim (w.reset hard) (if fam then World.freshA64 else World.fresh) := by
  generalize hW0 : (if fam then World.freshA64 else World.fresh) = W0 at hk ⊢
  have hW0es : ∀ (j : Nat) (f : Emitter), W0.es[j]? = some f → f.obs = ({ kind := f.kind, fam64 := f.fam64 } : Emitter).obs := by
    intro j f hf
    have hlt : j < W0.es.length := (List.getElem?_eq_some_iff.mp hf).1
    subst hW0
    cases fam
    · have : j < 4 := by simpa [World.fresh] using hlt
      match j, this with
      | 0, _ | 1, _ | 2, _ | 3, _ => simp [World.fresh] at hf; subst hf; rfl
    · have : j < 4 := by simpa [World.freshA64] using hlt
      match j, this with
      | 0, _ | 1, _ | 2, _ | 3, _ => simp [World.freshA64] at hf; subst hf; rfl
  have hn : w.h.arch.isNone = false := by cases h : w.h.arch <;> simp_all
  have hh := reset_holder_forgets w hard hi
  unfold Sim World.obs
  rw [hh]
  have hes : (w.reset hard).es = applyAll Emitter.onDetach w.es w.h.attached := by simp [World.reset, hn, detachAll]
  rw [hes]
  have hW0h : W0.h = ({} : Holder) := by subst hW0; cases fam <;> rfl
  rw [hW0h]
  congr 1
  apply List.ext_getElem?
  intro j
  rw [List.getElem?_map, applyAll_detach_getElem?]
  have hkj := congrArg (fun l => l[j]?) hk
  simp only [List.getElem?_map] at hkj
  rw [List.getElem?_map]
  cases hj : w.es[j]? with
  | none => simp [hj] at hkj ⊢; cases hf : W0.es[j]? <;> simp_all
  | some e =>
    cases hf : W0.es[j]? with
    | none => simp [hj, hf] at hkj
    | some f =>
      simp [hj, hf] at hkj
      have hfo := hW0es j f hf
      by_cases hja : j ∈ w.h.attached
      · simp [hja, hkj, hfo]
      · simp [hja, hd j e hj hja, hkj, hfo]

/-! ### 3. every lifecycle / configuration operation preserves observational equality -/

theorem sim_parts {a b : World} (h : Sim a b) : a.h.obs = b.h.obs ∧ a.es.map Emitter.obs = b.es.map Emitter.obs := by
  unfold Sim World.obs at h
  exact ⟨congrArg World.h h, congrArg World.es h⟩

theorem sim_of_parts {a b : World} (h1 : a.h.obs = b.h.obs) (h2 : a.es.map Emitter.obs = b.es.map Emitter.obs) : Sim a b := by
  unfold Sim World.obs
  rw [h1, h2]

theorem sim_getElem? {a b : World} (h : Sim a b) (i : Nat) : (a.es[i]?).map Emitter.obs = (b.es[i]?).map Emitter.obs := by
  have := congrArg (fun l => l[i]?) (sim_parts h).2
  simpa [List.getElem?_map] using this

theorem setE_congr (l1 l2 : List Emitter) (x y : Emitter) (i : Nat) (hl : l1.map Emitter.obs = l2.map Emitter.obs) (hx : x.obs = y.obs) :
    (updAt l1 i (fun _ => x)).map Emitter.obs = (updAt l2 i (fun _ => y)).map Emitter.obs := by
  rw [updAt_map Emitter.obs (fun _ => x) (fun _ => x.obs) (fun _ => rfl), updAt_map Emitter.obs (fun _ => y) (fun _ => y.obs) (fun _ => rfl), hl, hx]

theorem updAt_congr (f : Emitter → Emitter) (hf : ∀ e, (f e).obs = (f e.obs).obs) (l1 l2 : List Emitter) (i : Nat)
    (hl : l1.map Emitter.obs = l2.map Emitter.obs) : (updAt l1 i f).map Emitter.obs = (updAt l2 i f).map Emitter.obs := by
  rw [updAt_map Emitter.obs f (fun y => (f y).obs) hf l1 i, updAt_map Emitter.obs f (fun y => (f y).obs) hf l2 i, hl]

/-- `reset` maps indistinguishable worlds to indistinguishable worlds -/
theorem reset_sim (a b : World) (hard : Bool) (h : Sim a b) : Sim (a.reset hard) (b.reset hard) := by
  obtain ⟨hh, he⟩ := sim_parts h
  have harch : a.h.arch = b.h.arch := by have := congrArg Holder.arch hh; exact this
  have hatt : a.h.attached = b.h.attached := by have := congrArg Holder.attached hh; exact this
  unfold World.reset
  rw [harch]
  split
  · exact h
  · apply sim_of_parts
    · simp [Holder.resetContainers, Holder.obs]
    · simp only [detachAll]
      rw [hatt]
      exact applyAll_congr _ onDetach_resp _ _ _ he

/-- `reinit` likewise, with the same answer -/
theorem reinit_sim (a b : World) (h : Sim a b) : Sim a.reinit.1 b.reinit.1 ∧ a.reinit.2 = b.reinit.2 := by
  obtain ⟨hh, he⟩ := sim_parts h
  have harch : a.h.arch = b.h.arch := by have := congrArg Holder.arch hh; exact this
  have hatt : a.h.attached = b.h.attached := by have := congrArg Holder.attached hh; exact this
  unfold World.reinit
  rw [harch]
  split
  · exact ⟨h, rfl⟩
  · refine ⟨sim_of_parts ?_ ?_, rfl⟩
    · have hib : a.h.initBase = b.h.initBase := by have := congrArg Holder.initBase hh; exact this
      simp [Holder.resetContainers, Holder.obs, Holder.alloc, harch, hatt, hib]
    · simp only [reinitAll]
      rw [hatt]
      exact applyAll_congr _ onReinit_resp _ _ _ he

theorem updAt_obs_same (l : List Emitter) (i : Nat) (e x : Emitter) (hi : l[i]? = some e) (hx : x.obs = e.obs) :
    (updAt l i (fun _ => x)).map Emitter.obs = l.map Emitter.obs := by
  apply List.ext_getElem?
  intro j
  rw [List.getElem?_map, updAt_getElem?, List.getElem?_map]
  by_cases hji : j = i
  · subst hji; simp [hi, hx]
  · simp [hji]

/-- **logging and validation settings never reach the output**: switching the holder's logger, an emitter's own
    logger or its validation options leaves the world observationally unchanged. -/
theorem logging_is_unobservable (w : World) (on : Bool) (i : Nat) :
    Sim (w.step (.hlogger on)).1 w ∧ Sim (w.step (.elogger i on)).1 w ∧ Sim (w.step (.diag i on)).1 w := by
  refine ⟨?_, ?_, ?_⟩
  · apply sim_of_parts
    · simp [World.step, Holder.obs]
    · simp only [World.step, settingsAll]
      exact applyAll_obs_id _ (settingsUpdated_obs on) _ _
  · simp only [World.step]
    cases hi : w.es[i]? with
    | none => rfl
    | some e =>
      show Sim (w.setE i _) w
      refine sim_of_parts (by rfl) ?_
      simp only [World.setE]
      apply updAt_obs_same _ _ e _ hi
      rw [updateForced_obs]
      cases e with | mk k _ _ _ _ _ _ _ _ _ _ _ _ _ _ _ _ _ _ _ _ _ _ =>
      cases on <;> cases k <;> simp [Emitter.obs]
  · simp only [World.step]
    cases hi : w.es[i]? with
    | none => rfl
    | some e =>
      show Sim (w.setE i _) w
      refine sim_of_parts (by rfl) ?_
      simp only [World.setE]
      apply updAt_obs_same _ _ e _ hi
      rw [updateForced_obs]
      cases e with | mk k _ _ _ _ _ _ _ _ _ _ _ _ _ _ _ _ _ _ _ _ _ _ =>
      cases k <;> simp [Emitter.obs]

/-! ### 4. unwinding over histories of lifecycle / configuration operations -/

theorem init_sim (a b : World) (ar : Arch) (bs : Option Nat) (h : Sim a b) :
    Sim (a.init ar bs).1 (b.init ar bs).1 ∧ (a.init ar bs).2 = (b.init ar bs).2 := by
  obtain ⟨hh, he⟩ := sim_parts h
  have harch : a.h.arch = b.h.arch := by have := congrArg Holder.arch hh; exact this
  unfold World.init
  rw [harch]
  split
  · exact ⟨h, rfl⟩
  · refine ⟨sim_of_parts ?_ he, rfl⟩
    have h1 := congrArg Holder.labels hh
    have h2 := congrArg Holder.relocs hh
    have h3 := congrArg Holder.unres hh
    have h4 := congrArg Holder.attached hh
    simp only [Holder.obs] at h1 h2 h3 h4 ⊢
    simp [h1, h2, h3, h4, Holder.alloc]

theorem attach_sim (a b : World) (i : Nat) (h : Sim a b) : Sim (a.attach i).1 (b.attach i).1 ∧ (a.attach i).2 = (b.attach i).2 := by
  obtain ⟨hh, he⟩ := sim_parts h
  have harch : a.h.arch = b.h.arch := by have := congrArg Holder.arch hh; exact this
  have hatt : a.h.attached = b.h.attached := by have := congrArg Holder.attached hh; exact this
  have hi := sim_getElem? h i
  unfold World.attach
  cases ha : a.es[i]? with
  | none =>
    cases hb : b.es[i]? with
    | none => exact ⟨h, rfl⟩
    | some eb => simp [ha, hb] at hi
  | some ea =>
    cases hb : b.es[i]? with
    | none => simp [ha, hb] at hi
    | some eb =>
      simp only [ha, hb, Option.map_some, Option.some.injEq] at hi
      have hcode : ea.code = eb.code := by rw [← Emitter.obs_code ea, ← Emitter.obs_code eb, hi]
      have hfam : ea.fam64 = eb.fam64 := by
        have h1 : ea.obs.fam64 = ea.fam64 := by cases ea with | mk k _ _ _ _ _ _ _ _ _ _ _ _ _ _ _ _ _ _ _ _ _ _ => cases k <;> rfl
        have h2 : eb.obs.fam64 = eb.fam64 := by cases eb with | mk k _ _ _ _ _ _ _ _ _ _ _ _ _ _ _ _ _ _ _ _ _ _ => cases k <;> rfl
        rw [← h1, ← h2, hi]
      simp only [harch, hcode, hfam]
      split
      · exact ⟨h, rfl⟩
      · split
        · exact ⟨h, rfl⟩
        · refine ⟨sim_of_parts ?_ ?_, rfl⟩
          · have := hh
            simp only [Holder.obs] at this ⊢
            simp only [Holder.mk.injEq] at this ⊢
            simp_all
          · rw [updAt_map Emitter.obs (Emitter.onAttach a.h) (fun y => (y.onAttach a.h.obs).obs) (fun x => onAttach_resp a.h x),
                updAt_map Emitter.obs (Emitter.onAttach b.h) (fun y => (y.onAttach b.h.obs).obs) (fun x => onAttach_resp b.h x), he, hh]

theorem detach_sim (a b : World) (i : Nat) (h : Sim a b) : Sim (a.detach i).1 (b.detach i).1 ∧ (a.detach i).2 = (b.detach i).2 := by
  obtain ⟨hh, he⟩ := sim_parts h
  have hi := sim_getElem? h i
  unfold World.detach
  cases ha : a.es[i]? with
  | none =>
    cases hb : b.es[i]? with
    | none => exact ⟨h, rfl⟩
    | some eb => simp [ha, hb] at hi
  | some ea =>
    cases hb : b.es[i]? with
    | none => simp [ha, hb] at hi
    | some eb =>
      simp only [ha, hb, Option.map_some, Option.some.injEq] at hi
      have hcode : ea.code = eb.code := by rw [← Emitter.obs_code ea, ← Emitter.obs_code eb, hi]
      simp only [hcode]
      split
      · exact ⟨h, rfl⟩
      · refine ⟨sim_of_parts ?_ (updAt_congr _ onDetach_resp _ _ _ he), rfl⟩
        have := hh
        simp only [Holder.obs] at this ⊢
        simp only [Holder.mk.injEq] at this ⊢
        simp_all

/-- one lifecycle step maps indistinguishable worlds to indistinguishable worlds and gives the same answer
    (for the logger / diagnostic operations the answer is the constant "ok") -/
theorem lifecycle_step_sim (a b : World) (op : Op) (hop : op.lifecycle = true) (h : Sim a b) :
    Sim (a.step op).1 (b.step op).1 ∧ (a.step op).2 = (b.step op).2 := by
  cases op <;> simp only [Op.lifecycle, Bool.false_eq_true] at hop
  case world f st => exact ⟨rfl, rfl⟩
  case init ar => exact init_sim a b ar none h
  case initb ar bs => exact init_sim a b ar (some bs) h
  case relocate bs =>
    obtain ⟨hh, he⟩ := sim_parts h
    have harch : a.h.arch = b.h.arch := by have := congrArg Holder.arch hh; exact this
    simp only [World.step, harch]
    split
    · exact ⟨h, rfl⟩
    · refine ⟨sim_of_parts ?_ he, rfl⟩
      have := hh
      simp only [Holder.obs] at this ⊢
      simp only [Holder.mk.injEq] at this ⊢
      simp_all
  case reset hard => exact ⟨reset_sim a b hard h, rfl⟩
  case reinit => exact reinit_sim a b h
  case attach i => exact attach_sim a b i h
  case detach i => exact detach_sim a b i h
  case dump => exact ⟨h, rfl⟩
  case hlogger on =>
    have ha := (logging_is_unobservable a on 0).1
    have hb := (logging_is_unobservable b on 0).1
    exact ⟨by unfold Sim at *; rw [ha, hb, h], rfl⟩
  case elogger i on =>
    have ha := (logging_is_unobservable a on i).2.1
    have hb := (logging_is_unobservable b on i).2.1
    refine ⟨by unfold Sim at *; rw [ha, hb, h], ?_⟩
    have hi := sim_getElem? h i
    simp only [World.step]
    cases hA : a.es[i]? <;> cases hB : b.es[i]? <;> simp_all
  case diag i on =>
    have ha := (logging_is_unobservable a on i).2.2
    have hb := (logging_is_unobservable b on i).2.2
    refine ⟨by unfold Sim at *; rw [ha, hb, h], ?_⟩
    have hi := sim_getElem? h i
    simp only [World.step]
    cases hA : a.es[i]? <;> cases hB : b.es[i]? <;> simp_all

/-- answers of a run -/
def World.trace (w : World) : List Op → List String
  | [] => []
  | op :: r => (w.step op).2 :: (w.step op).1.trace r

/-- **unwinding, every operation.** One step of ANY operation - lifecycle, configuration or code generation (labels,
    named labels, bind with fixup resolution, raw data, jmp with one-shot options, embed_label relocations, sections,
    Builder nodes, virtual registers, jump annotations, finalize = serialisation) - maps indistinguishable worlds to
    indistinguishable worlds and gives the same answer. -/
theorem step_sim (a b : World) (op : Op) (h : Sim a b) : Sim (a.step op).1 (b.step op).1 ∧ (a.step op).2 = (b.step op).2 := by
  cases hop : op.lifecycle
  · have ha := gen_step_resp a op hop
    have hb := gen_step_resp b op hop
    unfold Sim at h ⊢
    exact ⟨by rw [ha.1, hb.1, h], by rw [ha.2, hb.2, h]⟩
  · exact lifecycle_step_sim a b op hop h

/-- **no residue, full strength.** Along every program of any length and any mix of operations, indistinguishable
    worlds give the same answers (label ids, section ids, error codes …) and stay indistinguishable - so every later
    dump shows the same sections, bytes, labels, fixups, relocations and emitter state. -/
theorem no_residue (p : List Op) : ∀ (a b : World), Sim a b → a.trace p = b.trace p ∧ Sim (a.run p) (b.run p) := by
  induction p with
  | nil => intro a b h; exact ⟨rfl, h⟩
  | cons op r ih =>
    intro a b h
    have hs := step_sim a b op h
    have := ih _ _ hs.1
    simp only [World.trace, World.run]
    exact ⟨by rw [hs.2, this.1], this.2⟩

/-- **generate p after a reset = generate p on fresh objects**: for ANY world (whatever its holder contains and
    whatever state its attached emitters are in) whose unattached emitters are clean, every program run after
    `reset(soft|hard)` answers exactly as on freshly constructed objects and ends in an indistinguishable world. -/
theorem generate_after_reset_eq_fresh (w : World) (hard : Bool) (fam : Bool) (p : List Op) (hi : w.h.arch.isSome = true)
    (hk : w.es.map (fun e => (e.kind, e.fam64)) = (if fam then World.freshA64 else World.fresh).es.map (fun e => (e.kind, e.fam64)))
    (hd : ∀ i e, w.es[i]? = some e → i ∉ w.h.attached → e.obs = ({ kind := e.kind, fam64 := e.fam64 } : Emitter).obs) :
    (w.reset hard).trace p = (if fam then World.freshA64 else World.fresh).trace p ∧
      Sim ((w.reset hard).run p) ((if fam then World.freshA64 else World.fresh).run p) :=
  no_residue p _ _ (reset_sim_fresh w hard fam hi hk hd)

/-- **generate p after reinit = generate p on a fresh holder with the same emitters attached**: two worlds that agree
    on what attachment fixed (environment, attachment order, emitter kinds/attachment state) but differ arbitrarily in
    everything generated before (sections, labels, relocations, fixups, node lists, one-shot options, virtual registers,
    annotations, loggers, retained capacity) run every program identically after `reinit`. -/
theorem generate_after_reinit_forgets_history (a b : World) (p : List Op) (ha : a.h.arch.isSome = true)
    (harch : a.h.arch = b.h.arch) (hatt : a.h.attached = b.h.attached) (hib : a.h.initBase = b.h.initBase)
    (hes : (reinitAll a.es a.h.attached).map Emitter.obs = (reinitAll b.es b.h.attached).map Emitter.obs) :
    a.reinit.1.trace p = b.reinit.1.trace p ∧ Sim (a.reinit.1.run p) (b.reinit.1.run p) := by
  apply no_residue
  have hb : b.h.arch.isSome = true := harch ▸ ha
  apply sim_of_parts
  · rw [reinit_holder_forgets a ha, reinit_holder_forgets b hb, harch, hatt, hib]
  · have hna : a.h.arch.isNone = false := by cases h : a.h.arch <;> simp_all
    have hnb : b.h.arch.isNone = false := by cases h : b.h.arch <;> simp_all
    simp only [World.reinit, hna, hnb]
    exact hes

/-! ### 5. no side condition: the invariant of all histories -/

/-- a world whose holder is observationally empty and whose emitters are all clean is a fresh world -/
theorem sim_fresh_of_clean (w : World) (fam : Bool) (hh : w.h.obs = ({} : Holder).obs)
    (hc : ∀ (i : Nat) (e : Emitter), w.es[i]? = some e → Clean e) (hf : w.es.map proj = (freshOf fam).es.map proj) : Sim w (freshOf fam) := by
  have hfh : (freshOf fam).h = ({} : Holder) := by cases fam <;> rfl
  apply sim_of_parts
  · rw [hh, hfh]
  · apply List.ext_getElem?
    intro j
    rw [List.getElem?_map, List.getElem?_map]
    have hj := congrArg (fun l => l[j]?) hf
    simp only [List.getElem?_map] at hj
    cases hw : w.es[j]? with
    | none => cases hf' : (freshOf fam).es[j]? <;> simp_all
    | some e =>
      cases hf' : (freshOf fam).es[j]? with
      | none => simp [hw, hf'] at hj
      | some f =>
        simp only [hw, hf', Option.map_some, Option.some.injEq, proj, Prod.mk.injEq] at hj
        have h1 := hc j e hw
        have h2 : Clean f := (inv_fresh fam).dc j f hf' (by cases fam <;> simp [freshOf, World.fresh, World.freshA64])
        unfold Clean at h1 h2
        simp only [Option.map_some]
        rw [h1, h2, hj.1, hj.2]

/-- **every reachable world resets to a fresh world.** `Inv` (attachment list complete, unattached emitters clean, one
    emitter family, uninitialised holder empty) holds in every world reached by a history (`inv_run`), and under it
    `reset(soft|hard)` - also of an uninitialised holder, where it does nothing - gives the world of fresh objects. -/
theorem reset_of_inv_sim_fresh (w : World) (hard : Bool) (hw : Inv w) :
    ∃ fam, w.es.map proj = (freshOf fam).es.map proj ∧ Sim (w.reset hard) (freshOf fam) := by
  have hw' := inv_reset w hard hw
  have hobs : (w.reset hard).h.obs = ({} : Holder).obs := by
    cases ha : w.h.arch with
    | none =>
      have : w.reset hard = w := by simp [World.reset, ha]
      rw [this]; exact hw.un ha
    | some a => exact reset_holder_forgets w hard (by simp [ha])
  have hatt : (w.reset hard).h.attached = [] := by have := congrArg Holder.attached hobs; exact this
  have hproj : (w.reset hard).es.map proj = w.es.map proj := by
    simp only [World.reset]
    split
    · rfl
    · exact applyAll_map_proj proj Emitter.onDetach (fun _ => rfl) _ _
  obtain ⟨fam, hf⟩ := hw'.fm
  exact ⟨fam, hproj ▸ hf, sim_fresh_of_clean _ fam hobs (fun i e hi => hw'.dc i e hi (by rw [hatt]; simp)) hf⟩

/-- **generate p after ANY history = generate p on fresh objects.** For every history `h` (any operations, any length;
    the one-shot setters and `new_jump_annotation` used on attached emitters only - `WFHist`), every reset policy and
    every program `p`: after `h` and a reset, `p` gives exactly the answers it gives on freshly constructed objects
    (of the emitter family the world has) and ends in an indistinguishable world. -/
theorem no_residue_after_any_history (h p : List Op) (hard : Bool) (hwf : WFHist World.fresh h) :
    ∃ fam, (World.fresh.run h).es.map proj = (freshOf fam).es.map proj ∧
      ((World.fresh.run h).reset hard).trace p = (freshOf fam).trace p ∧
      Sim (((World.fresh.run h).reset hard).run p) ((freshOf fam).run p) := by
  have hinv : Inv (World.fresh.run h) := inv_run h _ (inv_fresh false) hwf
  obtain ⟨fam, hf, hs⟩ := reset_of_inv_sim_fresh _ hard hinv
  exact ⟨fam, hf, no_residue p _ _ hs⟩

/-- the side condition is not vacuous and not restrictive for ordinary use: any history without the three setters is
    well formed … -/
theorem wfHist_of_no_setters (h : List Op) (hn : ∀ op ∈ h, match op with | .opt .. | .cmt _ | .jann _ => False | _ => True) :
    ∀ w, WFHist w h := by
  induction h with
  | nil => intro w; trivial
  | cons op r ih =>
    intro w
    refine ⟨?_, ih (fun o ho => hn o (by simp [ho])) _⟩
    have := hn op (by simp)
    cases op <;> simp_all [Op.wfAt]

/-! ### 5b. reinit = a fresh holder with the same emitters attached -/

/-- a freshly constructed, initialised holder (environment `arch`) that holds only the empty `.text` -/
def freshHolder (arch : Option Arch) (base : Option Nat := none) : Holder :=
  { arch := arch, secs := [textSection], base := base, initBase := base }

/-- **the world "fresh objects, same configuration"**: a fresh holder initialised with `w`'s environment, and for every
    emitter of `w` a freshly constructed emitter of the same kind and family - attached to that holder (`on_attach`) if it
    is on `w`'s attachment list, untouched otherwise; the attachment list in `w`'s order. -/
def freshAttached (w : World) : World :=
  { h := { freshHolder w.h.arch w.h.initBase with attached := w.h.attached },
    es := w.es.mapIdx fun j e =>
      if j ∈ w.h.attached then ({ kind := e.kind, fam64 := e.fam64 } : Emitter).onAttach (freshHolder w.h.arch w.h.initBase)
      else { kind := e.kind, fam64 := e.fam64 } }

/-- **reinit = fresh holder with the same emitters attached**, for every world that satisfies the two invariants -/
theorem reinit_sim_freshAttached (w : World) (hw : Inv w) (hA : InvA w) (hi : w.h.arch.isSome = true) :
    Sim w.reinit.1 (freshAttached w) := by
  have hn : w.h.arch.isNone = false := by cases h : w.h.arch <;> simp_all
  apply sim_of_parts
  · rw [reinit_holder_forgets w hi]; rfl
  · have hes : w.reinit.1.es = applyAll Emitter.onReinit w.es w.h.attached := by simp [World.reinit, hn, reinitAll]
    rw [hes]
    apply List.ext_getElem?
    intro j
    simp only [freshAttached, List.getElem?_map, List.getElem?_mapIdx]
    by_cases hj : j ∈ w.h.attached
    · rw [applyAll_getElem?_mem_nodup _ _ hA.nd _ _ hj]
      obtain ⟨e, h1, h2⟩ := hA.att j hj
      simp only [h1, Option.map_some, hj, if_true]
      obtain ⟨t1, t2, t3, t4, _⟩ := h2
      congr 1
      have t3' : e.instAlign = alignOf w.h.arch := t3
      have t4' : e.invalidRex = (e.kind == Kind.asm && w.h.arch == some Arch.x86) := t4
      exact reinit_eq_fresh_attach e (freshHolder w.h.arch w.h.initBase) t1 t2 (by simpa [alignOf, freshHolder] using t3')
        (by simpa [freshHolder] using t4') rfl
    · rw [applyAll_getElem?_not_mem _ _ _ _ hj]
      cases h1 : w.es[j]? with
      | none => rfl
      | some e =>
        simp only [Option.map_some, hj, if_false]
        congr 1
        exact hw.dc j e h1 hj

/-! ### 6. the rendered dump is a function of the observation -/

theorem head_obs (e : Emitter) : e.obs.head = e.head := by
  cases e with | mk k _ _ _ _ _ _ _ _ _ _ _ _ _ _ _ _ _ _ _ _ _ _ => cases k <;> rfl

theorem view_obs (e : Emitter) : e.obs.view = e.view := by
  cases e with | mk k _ _ _ _ _ _ _ _ _ _ _ _ _ _ _ _ _ _ _ _ _ _ => cases k <;> rfl

theorem renderEmitter_obs (i : Nat) (e : Emitter) : renderEmitter i e.obs = renderEmitter i e := by
  unfold renderEmitter; rw [head_obs, view_obs]

theorem enum_map (f : Emitter → Emitter) (l : List Emitter) : enum (l.map f) = (enum l).map (fun p => (p.1, f p.2)) := by
  simp [enum, List.zip_map_right]

theorem joinMap_map {α β : Type} (l : List α) (g : α → β) (f : β → String) : joinMap (l.map g) f = joinMap l (fun a => f (g a)) := by
  simp [joinMap, List.foldl_map]

theorem dumpHolder_obs (h : Holder) : dumpHolder h.obs = dumpHolder h := by
  unfold dumpHolder
  show dumpH h.arch h.base h.secs h.labels h.relocs h.unres h.attached = _
  rfl

theorem dumpEmitters_obs (es : List Emitter) : dumpEmitters (es.map Emitter.obs) = dumpEmitters es := by
  simp only [dumpEmitters, enum_map, joinMap_map, renderEmitter_obs]

/-- **the `code|` part of a dump - sections with names and bytes, labels with fixups, relocations, counters, attachment
    list, emitter state - is computed from the observation alone** … -/
theorem dumpCode_obs (w : World) : dumpCode w.obs = dumpCode w := by
  unfold dumpCode
  show dumpHolder w.h.obs ++ dumpEmitters (w.es.map Emitter.obs) = _
  rw [dumpHolder_obs, dumpEmitters_obs]

/-- … so indistinguishable worlds print the same dump, character for character -/
theorem dumpCode_of_sim {a b : World} (h : Sim a b) : dumpCode a = dumpCode b := by
  rw [← dumpCode_obs a, ← dumpCode_obs b, h]

/-- **byte for byte**: the dump taken after any program that follows any (well-formed) history and a reset is the dump
    the same program gives on fresh objects -/
theorem dump_after_any_history (h p : List Op) (hard : Bool) (hwf : WFHist World.fresh h) :
    ∃ fam, dumpCode (((World.fresh.run h).reset hard).run p) = dumpCode ((freshOf fam).run p) := by
  obtain ⟨fam, _, _, hs⟩ := no_residue_after_any_history h p hard hwf
  exact ⟨fam, dumpCode_of_sim hs⟩

/-- `freshAttached` with only the emitters in `done` attached so far -/
def partialFA (w : World) (done : List Nat) : World :=
  { h := { freshHolder w.h.arch w.h.initBase with attached := done },
    es := w.es.mapIdx fun j e =>
      if j ∈ done then ({ kind := e.kind, fam64 := e.fam64 } : Emitter).onAttach (freshHolder w.h.arch w.h.initBase)
      else { kind := e.kind, fam64 := e.fam64 } }

theorem onAttach_holder_irrel (h h' : Holder) (e : Emitter) (ha : h.arch = h'.arch) (hl : h.logger = h'.logger) (hs : h.secs = h'.secs) :
    e.onAttach h = e.onAttach h' := by
  cases e with | mk k _ _ _ _ _ _ _ _ _ _ _ _ _ _ _ _ _ _ _ _ _ _ =>
  cases k <;> simp [Emitter.onAttach, Emitter.settingsUpdated, Emitter.updateForced, ha, hl, hs]

/-- one `attach` of a not yet attached, compatible emitter moves `partialFA` one step -/
theorem partialFA_attach (w : World) (done : List Nat) (i : Nat) (e : Emitter) (hi : w.es[i]? = some e) (hnd : i ∉ done)
    (hok : archOk e.fam64 w.h.arch = true) : (partialFA w done).attach i = (partialFA w (done ++ [i]), "ok") := by
  have hget : (partialFA w done).es[i]? = some ({ kind := e.kind, fam64 := e.fam64 } : Emitter) := by
    simp [partialFA, List.getElem?_mapIdx, hi, hnd]
  simp only [World.attach, hget]
  have h1 : (!archOk ({ kind := e.kind, fam64 := e.fam64 } : Emitter).fam64 (partialFA w done).h.arch) = false := by
    simp [partialFA, freshHolder, hok]
  simp only [h1, Bool.false_eq_true, if_false]
  congr 1
  simp only [partialFA]
  congr 1
  apply List.ext_getElem?
  intro j
  rw [updAt_getElem?]
  simp only [List.getElem?_mapIdx]
  by_cases hji : j = i
  · subst hji
    simp only [hi, Option.map_some, hnd, if_false, if_true, List.mem_append, List.mem_singleton, or_true]
    first
      | (congr 1; exact onAttach_holder_irrel _ _ _ rfl rfl rfl)
      | exact congrArg some (onAttach_holder_irrel _ _ _ rfl rfl rfl)
      | rfl
  · cases w.es[j]? with
    | none => simp [hji]
    | some x => simp [hji]

/-- attaching the emitters of a duplicate-free list one after the other -/
theorem partialFA_run (w : World) (rest : List Nat) : ∀ (done : List Nat),
    (∀ i ∈ rest, ∃ e, w.es[i]? = some e ∧ archOk e.fam64 w.h.arch = true) → (done ++ rest).Nodup →
    (partialFA w done).run (rest.map Op.attach) = partialFA w (done ++ rest) := by
  induction rest with
  | nil => intro done _ _; simp [World.run]
  | cons i r ih =>
    intro done hall hnd
    obtain ⟨e, h1, h2⟩ := hall i (by simp)
    have hni : i ∉ done := by
      intro hm
      have := List.nodup_append.mp hnd
      exact this.2.2 i hm i (by simp) rfl
    simp only [List.map_cons, World.run, World.step, partialFA_attach w done i e h1 hni h2]
    have := ih (done ++ [i]) (fun j hj => hall j (by simp [hj])) (by simpa [List.append_assoc] using hnd)
    simpa [List.append_assoc] using this

/-- `init(environment)` or `init(environment, base)` -/
def initOp (a : Arch) : Option Nat → Op
  | none => .init a
  | some b => .initb a b

theorem step_initOp (w : World) (a : Arch) (b : Option Nat) : w.step (initOp a b) = w.init a b := by
  cases b <;> rfl

/-- **operationally**: `freshAttached w` is (observationally) what freshly constructed objects reach by `init` with `w`'s
    architecture followed by `attach` of `w`'s attached emitters in list order -/
theorem freshAttached_is_init_then_attach (w : World) (hw : Inv w) (hA : InvA w) (a : Arch) (ha : w.h.arch = some a) :
    ∃ fam, Sim ((freshOf fam).run (initOp a w.h.initBase :: w.h.attached.map Op.attach)) (freshAttached w) := by
  obtain ⟨fam, hf⟩ := hw.fm
  refine ⟨fam, ?_⟩
  have hfa : freshAttached w = partialFA w ([] ++ w.h.attached) := by simp [freshAttached, partialFA]
  have hrun := partialFA_run w w.h.attached [] (fun i hi => by
    obtain ⟨e, h1, h2⟩ := hA.att i hi
    exact ⟨e, h1, by have := h2.2.2.2.2; simpa [Emitter.tag] using this⟩) (by simpa using hA.nd)
  rw [hfa, ← hrun]
  simp only [World.run]
  apply (no_residue _ _ _ ?_).2
  -- the base: an initialised fresh world is the fresh holder with nothing attached
  have hes : (partialFA w []).es = (freshOf fam).es := by
    have h1 : (partialFA w []).es = w.es.map (fun e => ({ kind := e.kind, fam64 := e.fam64 } : Emitter)) := by
      apply List.ext_getElem?
      intro j
      simp [partialFA, List.getElem?_mapIdx]
    have h2 : w.es.map (fun e => ({ kind := e.kind, fam64 := e.fam64 } : Emitter)) =
        (w.es.map proj).map (fun p => ({ kind := p.1, fam64 := p.2 } : Emitter)) := by simp [List.map_map, Function.comp_def, proj]
    have h3 : ((freshOf fam).es.map proj).map (fun p => ({ kind := p.1, fam64 := p.2 } : Emitter)) = (freshOf fam).es := by
      cases fam <;> rfl
    rw [h1, h2, hf, h3]
  apply sim_of_parts
  · have hfh : (freshOf fam).h = ({} : Holder) := by cases fam <;> rfl
    simp [step_initOp, World.init, hfh, partialFA, freshHolder, ha, Holder.obs, Holder.alloc]
  · have hfh : (freshOf fam).h = ({} : Holder) := by cases fam <;> rfl
    simp [step_initOp, World.init, hfh, hes]

/-- **… after ANY history**: for every (well-formed) history `h` that leaves the holder initialised and every program `p`,
    running `p` after `h` and `reinit()` answers exactly as on a fresh holder with fresh emitters attached in the same
    order, and the dumps agree character for character. -/
theorem reinit_after_any_history (h p : List Op) (hwf : WFHist World.fresh h)
    (hi : (World.fresh.run h).h.arch.isSome = true) :
    ((World.fresh.run h).reinit.1).trace p = (freshAttached (World.fresh.run h)).trace p ∧
      dumpCode (((World.fresh.run h).reinit.1).run p) = dumpCode ((freshAttached (World.fresh.run h)).run p) := by
  have hinv : Inv (World.fresh.run h) := inv_run h _ (inv_fresh false) hwf
  have hA : InvA (World.fresh.run h) := invA_run h _ (inv_fresh false) (invA_fresh false) hwf
  have := no_residue p _ _ (reinit_sim_freshAttached _ hinv hA hi)
  exact ⟨this.1, dumpCode_of_sim this.2⟩

/-- **reinit after any history, operationally**: after any (well-formed) history that leaves the holder initialised with
    architecture `a`, `reinit()` followed by any program `p` answers exactly like: construct fresh objects, `init(a)`, `attach`
    the emitters that were attached (same order), run `p` - and the dumps agree character for character. -/
theorem reinit_after_any_history_eq_fresh_run (h p : List Op) (a : Arch) (hwf : WFHist World.fresh h)
    (ha : (World.fresh.run h).h.arch = some a) :
    ∃ fam, ((World.fresh.run h).reinit.1).trace p =
        ((freshOf fam).run (initOp a (World.fresh.run h).h.initBase :: (World.fresh.run h).h.attached.map Op.attach)).trace p ∧
      dumpCode (((World.fresh.run h).reinit.1).run p) =
        dumpCode (((freshOf fam).run (initOp a (World.fresh.run h).h.initBase :: (World.fresh.run h).h.attached.map Op.attach)).run p) := by
  have hinv : Inv (World.fresh.run h) := inv_run h _ (inv_fresh false) hwf
  have hA : InvA (World.fresh.run h) := invA_run h _ (inv_fresh false) (invA_fresh false) hwf
  have h1 := reinit_sim_freshAttached _ hinv hA (by simp [ha])
  obtain ⟨fam, h2⟩ := freshAttached_is_init_then_attach _ hinv hA a ha
  have hs : Sim (World.fresh.run h).reinit.1 ((freshOf fam).run (initOp a (World.fresh.run h).h.initBase :: (World.fresh.run h).h.attached.map Op.attach)) :=
    h1.trans h2.symm
  have := no_residue p _ _ hs
  exact ⟨fam, this.1, dumpCode_of_sim this.2⟩

/-- logging / validation switched at any point of any program never changes what the rest of the program produces -/
theorem logging_never_reaches_output (w : World) (on : Bool) (i : Nat) (p : List Op) :
    (w.step (.hlogger on)).1.trace p = w.trace p ∧ (w.step (.elogger i on)).1.trace p = w.trace p ∧
      (w.step (.diag i on)).1.trace p = w.trace p := by
  have h := logging_is_unobservable w on i
  exact ⟨(no_residue p _ _ h.1).1, (no_residue p _ _ h.2.1).1, (no_residue p _ _ h.2.2).1⟩

/-- the rendered `code|` part of a dump is the same for indistinguishable worlds on the holder side (sections,
    labels, relocations, counters, attachment list are read from `obs` fields only) -/
theorem holder_fields_of_sim {a b : World} (h : Sim a b) :
    a.h.arch = b.h.arch ∧ a.h.secs = b.h.secs ∧ a.h.labels = b.h.labels ∧ a.h.relocs = b.h.relocs ∧ a.h.unres = b.h.unres ∧
      a.h.attached = b.h.attached := by
  have hh := (sim_parts h).1
  have h1 := congrArg Holder.arch hh
  have h2 := congrArg Holder.secs hh
  have h3 := congrArg Holder.labels hh
  have h4 := congrArg Holder.relocs hh
  have h5 := congrArg Holder.unres hh
  have h6 := congrArg Holder.attached hh
  exact ⟨h1, h2, h3, h4, h5, h6⟩

/-! ### 6b. a relocated base address does not survive reinit (fixes/C16-3.patch) -/

/-- after `reinit()` the holder's base address is the one given to `init()`, whatever `relocate_to_base` /
    `JitRuntime::add` stored in between -/
theorem reinit_restores_init_base (w : World) (hi : w.h.arch.isSome = true) : w.reinit.1.h.base = w.h.initBase := by
  have := congrArg Holder.base (reinit_holder_forgets w hi)
  exact this

/-- relocating before a reinit changes nothing that comes after the reinit: same world (observationally), hence same
    answers and dumps for every later program (`no_residue`) -/
theorem relocate_then_reinit_forgets_base (w : World) (b : Nat) : Sim ((w.step (.relocate b)).1.reinit.1) w.reinit.1 := by
  simp only [World.step]
  split
  · rfl
  · rename_i hn
    have hn' : w.h.arch.isNone = false := by cases h : w.h.arch <;> simp_all
    simp [Sim, World.reinit, hn', Holder.resetContainers]

/-! ### 7. arena memory: static vs dynamic, block sizes, retained blocks -/

/-- replacing the holder's arena by ANY arena state - other static buffer, other block sizes (`shift`), other chain of
    retained blocks, other fill level - gives an indistinguishable world … -/
theorem any_arena_sim (w : World) (ar : Arena.State) : Sim ({ w with h := { w.h with arena := ar } } : World) w := rfl

/-- … hence **no program's answers or dumps depend on the arena**: not on static vs dynamic memory, not on the size of
    the static buffer, not on block sizes or on blocks retained by earlier soft resets. (In the model an arena request
    cannot fail - `mallocMax` = 2^40 - so this is about layout, not about out-of-memory; failures are property C15's.) -/
theorem arena_never_reaches_output (w : World) (ar : Arena.State) (p : List Op) :
    ({ w with h := { w.h with arena := ar } } : World).trace p = w.trace p ∧
      dumpCode (({ w with h := { w.h with arena := ar } } : World).run p) = dumpCode (w.run p) := by
  have := no_residue p _ _ (any_arena_sim w ar)
  exact ⟨this.1, dumpCode_of_sim this.2⟩

/-- in particular for the two ways a `CodeHolder` is constructed -/
theorem static_vs_dynamic_arena (w : World) (s1 s2 : Nat) (p : List Op) :
    (w.withArena s1).trace p = (w.withArena s2).trace p ∧ dumpCode ((w.withArena s1).run p) = dumpCode ((w.withArena s2).run p) := by
  have h : Sim (w.withArena s1) (w.withArena s2) := rfl
  have := no_residue p _ _ h
  exact ⟨this.1, dumpCode_of_sim this.2⟩

/-! ### non-vacuity -/

-- the arena really is driven by the operations and really differs between configurations:
-- a 64-byte static buffer overflows into malloc'ed blocks, the default holder starts with no block at all
example : (World.fresh.withArena 64).h.arena.blocks = [48] ∧ World.fresh.h.arena.blocks = [] := by decide
example : ((World.fresh.withArena 64).run [.init .x64, .attach 0, .label 0, .nlabel 0 [102], .section 0 [46, 100]]).h.arena.blocks.length = 2 ∧
    ((World.fresh.withArena 40000).run [.init .x64, .attach 0, .label 0, .nlabel 0 [102], .section 0 [46, 100]]).h.arena.blocks.length = 1 := by decide
-- a soft reset keeps the blocks, a hard reset drops the malloc'ed ones
example : (((World.fresh.withArena 64).run [.init .x64, .attach 0, .section 0 [46, 100]]).reset false).h.arena.blocks.length = 2 ∧
    (((World.fresh.withArena 64).run [.init .x64, .attach 0, .section 0 [46, 100]]).reset true).h.arena.blocks.length = 1 := by decide


/-- a history that fills every container (labels, a named label, fixups, a relocation, a second section, Builder nodes,
    a pending one-shot option, virtual registers, a jump annotation) … -/
def sampleHistory : List Op :=
  [.init .x64, .attach 0, .attach 2, .attach 3, .hlogger true, .label 0, .jmp 0 0, .nlabel 0 [102], .elabel 0 1 8,
   .section 0 [46, 100], .raw 0 [1, 2, 3], .label 2, .bind 2 2, .jmp 2 2, .opt 0 optShort, .cmt 2, .vreg 3, .jann 3, .finalize 2]

-- … really does: the world before the reset is far from fresh …
example : (World.fresh.run sampleHistory).h.labels.length = 3 ∧ (World.fresh.run sampleHistory).h.relocs.length = 1 ∧
    (World.fresh.run sampleHistory).h.unres = 2 ∧ (World.fresh.run sampleHistory).h.secs.length = 2 ∧
    ¬ Sim (World.fresh.run sampleHistory) World.fresh := by decide

-- … and satisfies the hypotheses of `reset_sim_fresh`, whose conclusion can also be evaluated directly:
example : Sim ((World.fresh.run sampleHistory).reset false) World.fresh := by decide
example : Sim ((World.fresh.run sampleHistory).reset true) World.fresh := by decide

-- reinit: equal to a fresh holder initialised the same way with the same emitters attached in the same order
example : Sim (World.fresh.run (sampleHistory ++ [.reinit])) (World.fresh.run [.init .x64, .attach 0, .attach 2, .attach 3]) := by decide

-- the observation is not trivial: one more byte, one pending option or one leftover annotation is seen
example : ¬ Sim (World.fresh.run [.init .x64, .attach 0, .raw 0 [144]]) (World.fresh.run [.init .x64, .attach 0]) := by decide
example : ¬ Sim (World.fresh.run [.init .x64, .attach 0, .opt 0 optShort]) (World.fresh.run [.init .x64, .attach 0]) := by decide
example : ¬ Sim (World.fresh.run [.init .x64, .attach 3, .jann 3]) (World.fresh.run [.init .x64, .attach 3]) := by decide

-- … and the sample histories (which do use the setters, on attached emitters) are well formed: decide it
instance (w : World) (op : Op) : Decidable (op.wfAt w) := by
  cases op <;> simp only [Op.wfAt] <;> infer_instance
instance : ∀ (h : List Op) (w : World), Decidable (WFHist w h)
  | [], _ => isTrue trivial
  | op :: r, w => by
    simp only [WFHist]
    have := instDecidableWFHist r (w.step op).1
    infer_instance
example : WFHist World.fresh sampleHistory := by decide
-- the condition excludes exactly this: an option set on a detached emitter survives attach (on_attach does not clear it)
example : ¬ WFHist World.fresh [.opt 0 optShort, .init .x64, .reset false] := by decide
example : ¬ Sim ((World.fresh.run [.opt 0 optShort, .init .x64]).reset false) World.fresh := by decide

-- base address: relocate (= JitRuntime::add) then reinit is a holder without base address again; with an init-time base that
-- base comes back; a history with relocate is covered by the reinit theorems
example : Sim (World.fresh.run [.init .x64, .attach 0, .raw 0 [144], .relocate 65536, .reinit]) (World.fresh.run [.init .x64, .attach 0]) := by decide
example : (World.fresh.run [.init .x64, .relocate 65536]).h.base = some 65536 ∧
    (World.fresh.run [.init .x64, .relocate 65536, .reinit]).h.base = none ∧
    (World.fresh.run [.initb .x64 4096, .relocate 65536, .reinit]).h.base = some 4096 := by decide
example : WFHist World.fresh [.init .x64, .attach 0, .raw 0 [144], .relocate 65536, .reinit] := by decide

-- AArch64 emitters: a history with b-fixups, a relocation, Builder nodes, then reset / reinit
def sampleHistoryA64 : List Op :=
  [.world true 4096, .init .a64, .attach 0, .attach 2, .attach 3, .label 0, .jmp 0 0, .raw 0 [31, 32, 3, 213], .elabel 0 0 8,
   .label 2, .jmp 2 1, .bind 2 1, .finalize 2, .vreg 3, .jann 3, .opt 0 optShort]
example : (World.fresh.run sampleHistoryA64).h.unres = 2 ∧ (World.fresh.run sampleHistoryA64).h.relocs.length = 1 ∧
    ¬ Sim (World.fresh.run sampleHistoryA64) World.freshA64 := by decide
example : Sim ((World.fresh.run sampleHistoryA64).reset false) World.freshA64 := by decide
example : Sim (World.fresh.run (sampleHistoryA64 ++ [.reinit])) (World.freshA64.run [.init .a64, .attach 0, .attach 2, .attach 3]) := by decide
-- x86 emitters refuse an AArch64 holder and vice versa
example : (World.fresh.run [.init .a64]).attach 0 = (World.fresh.run [.init .a64], "InvalidArch") := by decide
-- a bound backward branch is encoded, a misaligned one is refused
example : ((World.freshA64.run [.init .a64, .attach 0, .label 0, .bind 0 0, .raw 0 [0, 0, 0, 0], .jmp 0 0]).h.secBytes 0) =
    [0, 0, 0, 0, 255, 255, 255, 23] := by decide

#guard noDeadRefs "code|x64;E3=[1:0:nodes-:vr3:ja0:fn0:pd2:wr0]|aux|" == some "pd (nodes still pointing into the reset pass arena)"
#guard noDeadRefs "code|x64;E3=[1:0:nodes-:vr3:ja0:fn0:pd0:wr0]|aux|" == none

-- the monitor accepts equal outputs and names the component that differs
#guard noResidue "code|x64;secs=[0:aa];unres=0|aux|hlog=1" "code|x64;secs=[0:aa];unres=0|aux|hlog=0" == none
#guard noResidue "code|x64;secs=[0:aa];unres=1|aux|" "code|x64;secs=[0:aa];unres=0|aux|" == some "unres"
#guard noResidue "code|x64;secs=[0:aabb];unres=0|aux|" "code|x64;secs=[0:aa];unres=0|aux|" == some "secs"

end AsmjitVerif.Reuse
