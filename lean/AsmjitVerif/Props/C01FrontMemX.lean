import AsmjitVerif.Props.C01FrontMemV
import AsmjitVerif.Props.C01Rows
/-!
# C01 — the address forms `[base64 + index64 * scale + disp]` (`addrForm_index`) and `[rip + disp32]` (`addrForm_rip`)

ALL base registers 0..15, ALL index registers 0..15 except rSP (which the encoder rejects and the SIB byte cannot express), ALL scales 1/2/4/8,
ALL displacements; SIB byte always present, EVEX.X / VEX.X carry index[3].
-/
set_option linter.constructorNameAsVariable false
set_option linter.unusedSimpArgs false
set_option linter.unusedVariables false
namespace AsmjitVerif.Props.C01
open Spec.X86 Model.X86 AsmjitVerif.Lemmas.X86Parse

/-- ModRM of the [BASE + INDEX * SCALE + DISP] path (rm = 100: SIB follows) by displacement variant -/
def idxMb (o7 : BitVec 32) (v : Nat) : BitVec 8 :=
  (encodeMod 0#32 o7 4#32 + (if v == 1 then 0x40#32 else if v == 2 then 0x80#32 else 0#32)).truncate 8

def idxSib (sh rx7 rb7 : BitVec 32) : BitVec 8 := (encodeSib sh rx7 rb7).truncate 8

theorem emitModSib_index_parts (c : Model.X86.Ctx) (pre : List (BitVec 8)) (ao : Nat) (opcode options opReg rbReg rxReg rmInfo : BitVec 32) (m : Mem)
    (imm : BitVec 64) (n : Nat)
    (hidx : rmInfo &&& kX86MemInfo_Index ≠ 0#32) (h67 : rmInfo &&& kX86MemInfo_67H_X86 = 0#32) (hbase : rmInfo &&& kX86MemInfo_BaseGp ≠ 0#32)
    (hrx : rxReg ≠ 4#32) :
    emitModSib c pre ao opcode options opReg rbReg rxReg rmInfo m imm n false =
      .ok (pre ++ (idxMb opReg (memVariant (rbReg &&& 7#32) m.offLo32 (cdShiftOf opcode)) ::
                   ([idxSib (BitVec.ofNat 32 m.shift) (rxReg &&& 7#32) (rbReg &&& 7#32)] ++
                    memDisp m.offLo32 (cdShiftOf opcode) (memVariant (rbReg &&& 7#32) m.offLo32 (cdShiftOf opcode)))) ++
           emitImmediate imm n) := by
  have h1 : ((rmInfo &&& (kX86MemInfo_Index ||| kX86MemInfo_67H_X86)) == 0#32) = false := by
    simp only [kX86MemInfo_Index, kX86MemInfo_67H_X86] at *
    simp only [beq_eq_false_iff_ne, ne_eq]
    bv_decide
  have h2 : ((rmInfo &&& kX86MemInfo_67H_X86) == 0#32) = true := by simp [h67]
  have h3 : (rmInfo &&& kX86MemInfo_BaseGp != 0#32) = true := by simpa using hbase
  have h4 : (rxReg == 4#32) = false := by simpa using hrx
  unfold emitModSib
  simp only [Bool.not_false, Bool.true_and, h1, h2, h3, h4, Bool.false_eq_true, ↓reduceIte, Bool.false_or, idxMb, idxSib, memVariant, memDisp]
  split
  · rename_i h0
    have : (((rbReg &&& 7#32) != 5#32) && m.offLo32 == 0#32) = true := by simp_all
    simp [this]
  · rename_i h0
    have : (((rbReg &&& 7#32) != 5#32) && m.offLo32 == 0#32) = false := by
      simp only [Bool.and_eq_true, not_and, Bool.not_eq_true] at h0
      cases hh : (m.offLo32 == 0#32) <;> simp_all
    simp only [this]
    split <;> simp_all

/-- model-side `[base64 + index64 * 2^sh + disp]` operand -/
def memBaseIndex (size : Nat) (rb rx : BitVec 32) (sh : Nat) (d : BitVec 64) (seg : Nat := 0) (a32 : Bool := false) (bc : Nat := 0) : Mem :=
  { size := size, baseType := (if a32 then 5 else 6), baseId := rb.toNat, indexType := (if a32 then 5 else 6), indexId := rx.toNat, shift := sh, offset := d, seg := seg, bcst := bc, addrType := 0 }

/-- spec-side operand -/
def memOpBaseIndex (size : Nat) (rb rx : BitVec 32) (sh : Nat) (d : BitVec 64) (seg : Nat := 0) (a32 : Bool := false) (bc : Nat := 0) : MemOp :=
  { size := size, baseKind := (if a32 then .gpd else .gpq), baseId := rb.toNat, indexKind := (if a32 then .gpd else .gpq), indexId := rx.toNat, shift := sh, disp := d, seg := seg, bcst := bc, addrType := 0 }

theorem memInfo_gp64_gp64 : memInfo 6 6 = 0x0F#32 := by decide
theorem memInfo_gp32_gp32 : memInfo 5 5 = 0x8F#32 := by decide
/-- `rm_info` of a base + index operand -/
def rmInfoIdx (a32 : Bool) : BitVec 32 := if a32 then 0x8F#32 else 0x0F#32

/-- the prefix word `x` of `EmitVexEvexM` for a base + index operand -/
def xMbx (opcode reg vvvvv rb rx aaa : BitVec 32) (z : Bool) : BitVec 32 :=
  (((reg + (vvvvv <<< 7)) <<< 4) &&& 0xF980#32) ||| ((rx <<< 3) &&& 0x40#32) ||| ((rx <<< 15) &&& 0x80000#32) ||| ((rb <<< 2) &&& 0x20#32) |||
    extractLLMMMMM opcode (zOpt z) ||| (aaa <<< 16)

/-- the two extension bits packed as in the register form's `rm` argument: bit 3 = base[3], bit 4 = index[3] -/
def xbOf (rb rx : BitVec 32) : BitVec 32 := rb ||| ((rx &&& 8#32) <<< 1)

theorem xMbx_eq_xR (opcode reg vvvvv rb rx aaa : BitVec 32) (z : Bool) (hb : rb < 16#32) (hx : rx < 16#32) :
    xMbx opcode reg vvvvv rb rx aaa z = xR opcode 0#32 reg vvvvv (xbOf rb rx) aaa := by
  cases z <;> simp only [xMbx, xR, xbOf, zOpt, oZMask, extractLLMMMMM, kLL_Mask, kMM_Mask, oEvex, Bool.false_eq_true, ↓reduceIte] <;> bv_decide

theorem emitVexEvexM_index_eq (c : Model.X86.Ctx) (opcode reg vvvvv rb rx aaa : BitVec 32) (z : Bool) (size sh : Nat) (d imm : BitVec 64) (n : Nat) (seg : Nat) (a32 : Bool)
    (hm : c.mode64 = true) (hpe : c.preferEvex = false) (hk : c.extraId = aaa) (hvs : c.vsib = false) :
    emitVexEvexM c opcode (zOpt z) (reg + (vvvvv <<< 7)) (memBaseIndex size rb rx sh d seg a32) imm n =
      (match vexEvexMPrefix c ((if c.vexFlag then xMbx opcode reg vvvvv rb rx aaa z else xMbx opcode reg vvvvv rb rx aaa z ||| 0x80000000#32) ||| zOpt z) opcode (zOpt z)
          (memBaseIndex size rb rx sh d seg a32) with
       | .error e => .error e
       | .ok v => emitModSib c (segmentPrefix seg ++ aoBytes a32 ++ v.1) (segmentPrefix seg).length v.2 (zOpt z) ((reg + (vvvvv <<< 7)) &&& 7#32) rb rx
                    (rmInfoIdx a32) (memBaseIndex size rb rx sh d seg a32) imm n false) := by
  unfold emitVexEvexM
  cases z <;> cases a32
  all_goals
    simp only [memBaseIndex, xMbx, aoBytes, rmInfoIdx, zOpt, Bool.false_eq_true, ↓reduceIte]
    simp only [rtLabel, hk, hpe, hvs, memInfo_gp64_gp64, memInfo_gp32_gp32, Model.X86.Ctx.aoMask, hm, oZMask, oER, oSAE, oVex, oVex3]
    simp only [BitVec.ofNat_toNat, BitVec.setWidth_eq, BitVec.zero_and, BitVec.zero_or, BitVec.or_zero, bne_self_eq_false, Bool.false_eq_true, ↓reduceIte,
      Bool.false_and, gt_iff_lt, Nat.lt_irrefl, Nat.not_lt_zero, BitVec.zero_shiftLeft, BitVec.and_zero, bind, Except.bind, Bool.not_false,
      show (1 < 6) = True from by decide, show (1 < 5) = True from by decide, show (0x0F#32 &&& 0x80#32 != 0#32) = false from by decide,
      show (0x8F#32 &&& 0x80#32 != 0#32) = true from by decide, List.nil_append, List.length_nil, List.append_nil,
      show ((0:Nat) != 0) = false from by decide,
      show (0x800000#32 &&& (0x800000#32 ||| 0x40000#32 ||| 0x80000#32) != 0#32) = true from by decide,
      show (0x800000#32 &&& (0x40000#32 ||| 0x80000#32) != 0#32) = false from by decide,
      show (0x800000#32 &&& 0x800000#32) = 0x800000#32 from by decide,
      show (0x800000#32 &&& (0x800#32 ||| 0x400#32)) = 0#32 from by decide]
    generalize vexEvexMPrefix c _ opcode _ _ = r
    cases r <;> rfl

/-- all ModRM heads of the index path: mod = variant, rm = 100, reg field -/
theorem idxMb_facts : ∀ o : Fin 8, ∀ v : Fin 3,
    bits (idxMb (BitVec.ofNat 32 o.val) v.val) 6 2 = v.val ∧ bits (idxMb (BitVec.ofNat 32 o.val) v.val) 0 3 = 4 ∧
    bits (idxMb (BitVec.ofNat 32 o.val) v.val) 3 3 = o.val := by decide

/-- all SIB bytes: scale, index, base fields -/
theorem idxSib_facts : ∀ sh : Fin 4, ∀ x b : Fin 8,
    bits (idxSib (BitVec.ofNat 32 sh.val) (BitVec.ofNat 32 x.val) (BitVec.ofNat 32 b.val)) 6 2 = sh.val ∧
    bits (idxSib (BitVec.ofNat 32 sh.val) (BitVec.ofNat 32 x.val) (BitVec.ofNat 32 b.val)) 3 3 = x.val ∧
    bits (idxSib (BitVec.ofNat 32 sh.val) (BitVec.ofNat 32 x.val) (BitVec.ofNat 32 b.val)) 0 3 = b.val := by decide

theorem idxMb_factsBV (o7 : BitVec 32) (v : Nat) (ho : o7 < 8#32) (hv : v < 3) :
    bits (idxMb o7 v) 6 2 = v ∧ bits (idxMb o7 v) 0 3 = 4 ∧ bits (idxMb o7 v) 3 3 = o7.toNat := by
  have ho' : o7.toNat < 8 := by simpa [BitVec.lt_def] using ho
  simpa using idxMb_facts ⟨o7.toNat, ho'⟩ ⟨v, hv⟩

theorem idxSib_factsBV (sh : Nat) (x7 b7 : BitVec 32) (hsh : sh < 4) (hx : x7 < 8#32) (hb : b7 < 8#32) :
    bits (idxSib (BitVec.ofNat 32 sh) x7 b7) 6 2 = sh ∧ bits (idxSib (BitVec.ofNat 32 sh) x7 b7) 3 3 = x7.toNat ∧
    bits (idxSib (BitVec.ofNat 32 sh) x7 b7) 0 3 = b7.toNat := by
  have hx' : x7.toNat < 8 := by simpa [BitVec.lt_def] using hx
  have hb' : b7.toNat < 8 := by simpa [BitVec.lt_def] using hb
  simpa using idxSib_facts ⟨sh, hsh⟩ ⟨x7.toNat, hx'⟩ ⟨b7.toNat, hb'⟩

/-- the monitor's memory check on the index form's parts -/
theorem idxParts_checkMem (ctx : Spec.X86.Ctx) (rule : Rule) (p : Parsed) (o7 rb rx s : BitVec 32) (size sh : Nat) (d : BitVec 64)
    (hm64 : ctx.mode64 = true) (ho : o7 < 8#32) (hb : rb < 16#32) (hx : rx < 16#32) (hx4 : rx ≠ 4#32) (hsh : sh < 4) (hs6 : s ≤ 6#32)
    (seg : Nat) (a32 : Bool) (bc : Nat) (pfx : List (BitVec 8)) (h67 : pfx.contains 0x67#8 = a32)
    (F : MemFields p pfx (idxMb o7 (memVariant (rb &&& 7#32) (d.truncate 32) s)) (some (idxSib (BitVec.ofNat 32 sh) (rx &&& 7#32) (rb &&& 7#32)))
           (memDisp (d.truncate 32) s (memVariant (rb &&& 7#32) (d.truncate 32) s)) (rb.getLsbD 3) (rx.getLsbD 3))
    (hN : (if p.vexKind == 4 then disp8N rule p else 1) = 2 ^ s.toNat) :
    checkMem ctx rule p (memOpBaseIndex size rb rx sh d seg a32 bc) = .ok () := by
  obtain ⟨hpm, hps, hpd, hpv, hpp, hpa, hpB, hpX⟩ := F
  have hr7 : rb &&& 7#32 < 8#32 := by bv_decide
  have hx7 : rx &&& 7#32 < 8#32 := by bv_decide
  have hvlt := memVariant_lt (rb &&& 7#32) (d.truncate 32) s
  have hv5 : memVariant (rb &&& 7#32) (d.truncate 32) s = 0 → rb &&& 7#32 ≠ 5#32 := by
    intro h0 h5
    unfold memVariant at h0
    simp [h5] at h0
    split at h0 <;> omega
  obtain ⟨fmod, frm, freg⟩ := idxMb_factsBV o7 _ ho hvlt
  obtain ⟨fsc, fsx, fsb⟩ := idxSib_factsBV sh _ _ hsh hx7 hr7
  have hmd := memDisp_decoded (rb &&& 7#32) (d.truncate 32) s hs6
  simp only [] at hmd
  generalize hvdef : memVariant (rb &&& 7#32) (d.truncate 32) s = v at *
  have hmodne : bits (idxMb o7 v) 6 2 ≠ 3 := by rw [fmod]; omega
  have hbaseNum := regNum_base rb hb p.B hpB
  have hidxNum := regNum_base rx hx p.X hpX
  refine checkMem_index64 ctx rule p (memOpBaseIndex size rb rx sh d seg a32 bc) _ _ a32 hm64 (by rw [hpp]; exact h67) hpa hpm hmodne rfl rfl hps ?_ ?_ ?_ ?_ ?_ ?_
  · intro ⟨h0, h5⟩
    rw [fmod] at h0
    rw [fsb] at h5
    exact hv5 h0 (by apply BitVec.eq_of_toNat_eq; simpa using h5)
  · show regNum false p.B (bits _ 0 3) = rb.toNat
    rw [fsb]; exact hbaseNum
  · show regNum false p.X (bits _ 3 3) = rx.toNat
    rw [fsx]; exact hidxNum
  · show rx.toNat ≠ 4
    intro h
    exact hx4 (by apply BitVec.eq_of_toNat_eq; simpa using h)
  · exact fsc
  · show decodedDisp rule p = _
    simp only [decodedDisp, hpd, hpv, hN]
    have : (memOpBaseIndex size rb rx sh d seg a32 bc).disp.toNat % 2 ^ 32 = (d.truncate 32 : BitVec 32).toNat := by simp [memOpBaseIndex, BitVec.toNat_setWidth]
    rw [this]
    exact hmd

/-- `EmitVexEvexM` on `seg:[base + index * scale + disp]`: the complete output -/
theorem emitVexEvexM_index_bytes (c : Model.X86.Ctx) (opcode reg vvvvv rb rx aaa : BitVec 32) (z : Bool) (size sh : Nat) (d imm : BitVec 64) (n : Nat) (seg : Nat) (a32 : Bool)
    (hm : c.mode64 = true) (hpe : c.preferEvex = false) (hk : c.extraId = aaa) (hvs : c.vsib = false)
    (hr : reg < 32#32) (hv : vvvvv < 32#32) (hb : rb < 16#32) (hx : rx < 16#32) (hx4 : rx ≠ 4#32) (ha : aaa < 8#32) (hxop : opcode &&& 0x800#32 = 0#32) :
    emitVexEvexM c opcode (zOpt z) (reg + (vvvvv <<< 7)) (memBaseIndex size rb rx sh d seg a32) imm n =
      .ok ((segmentPrefix seg ++ aoBytes a32) ++ ((if c.vexFlag = false ∨ (xR opcode 0#32 reg vvvvv (xbOf rb rx) aaa ||| zOpt z) &&& 0x00D78110#32 ≠ 0#32 then
              le32 (evexWord (xR opcode 0#32 reg vvvvv (xbOf rb rx) aaa ||| zOpt z) opcode) ++ [opcode.truncate 8] ++
                (idxMb ((reg + (vvvvv <<< 7)) &&& 7#32) (memVariant (rb &&& 7#32) (d.truncate 32) (cdShiftOf (evexCdOpcodeOf opcode))) ::
                  ((some (idxSib (BitVec.ofNat 32 sh) (rx &&& 7#32) (rb &&& 7#32))).toList ++
                   memDs rb (d.truncate 32) (cdShiftOf (evexCdOpcodeOf opcode))))
            else if vexPrep (xR opcode 0#32 reg vvvvv (xbOf rb rx) aaa ||| zOpt z) opcode 0#32 &&& 0x8000807E#32 ≠ 0#32 then
              le32 (vex3Word (vexPrep (xR opcode 0#32 reg vvvvv (xbOf rb rx) aaa ||| zOpt z) opcode 0#32) opcode) ++
                (idxMb ((reg + (vvvvv <<< 7)) &&& 7#32) (memVariant (rb &&& 7#32) (d.truncate 32) 0#32) ::
                  ((some (idxSib (BitVec.ofNat 32 sh) (rx &&& 7#32) (rb &&& 7#32))).toList ++ memDs rb (d.truncate 32) 0#32))
            else
              [0xC5#8, (vex2Byte (vexPrep (xR opcode 0#32 reg vvvvv (xbOf rb rx) aaa ||| zOpt z) opcode 0#32)).truncate 8, opcode.truncate 8] ++
                (idxMb ((reg + (vvvvv <<< 7)) &&& 7#32) (memVariant (rb &&& 7#32) (d.truncate 32) 0#32) ::
                  ((some (idxSib (BitVec.ofNat 32 sh) (rx &&& 7#32) (rb &&& 7#32))).toList ++ memDs rb (d.truncate 32) 0#32))) ++
           emitImmediate imm n)) := by
  have hoff : (memBaseIndex size rb rx sh d seg a32).offLo32 = d.truncate 32 := rfl
  have hshift : (memBaseIndex size rb rx sh d seg a32).shift = sh := rfl
  have hxb : xbOf rb rx < 32#32 := by simp only [xbOf]; bv_decide
  have hparts := fun (pre : List (BitVec 8)) (op : BitVec 32) =>
    emitModSib_index_parts c pre (segmentPrefix seg).length op (zOpt z) ((reg + (vvvvv <<< 7)) &&& 7#32) rb rx (rmInfoIdx a32) (memBaseIndex size rb rx sh d seg a32) imm n
      (by cases a32 <;> decide) (by cases a32 <;> decide) (by cases a32 <;> decide) hx4
  rw [emitVexEvexM_index_eq c opcode reg vvvvv rb rx aaa z size sh d imm n seg a32 hm hpe hk hvs, xMbx_eq_xR opcode reg vvvvv rb rx aaa z hb hx,
    vexEvexMPrefix_decided c opcode reg vvvvv (xbOf rb rx) aaa z _ hr hv hxb ha hxop]
  simp only []
  split
  · rw [hparts, hoff, hshift]; simp [memDs]
  · split
    · rw [hparts, hoff, hshift, cdShift_cleared]; simp [memDs]
    · rw [hparts, hoff, hshift, cdShift_cleared]; simp [memDs]

/-- the address form `seg:[base + index * 2^sh + disp]` with 64-bit (or - `a32` - 32-bit, 67 prefix) registers: ANY segment override, ALL bases 0..15, ALL indexes 0..15 except rSP, ALL scales, ALL displacements -/
theorem addrForm_index (c : Model.X86.Ctx) (ctx : Spec.X86.Ctx) (rb rx aaa : BitVec 32) (size sh : Nat) (d : BitVec 64) (seg : Nat) (a32 : Bool)
    (hm : c.mode64 = true) (hpe : c.preferEvex = false) (hk : c.extraId = aaa) (ha : aaa < 8#32) (hvs : c.vsib = false)
    (hm64 : ctx.mode64 = true) (hb : rb < 16#32) (hx : rx < 16#32) (hx4 : rx ≠ 4#32) (hsh : sh < 4) :
    AddrForm c ctx (memBaseIndex size rb rx sh d seg a32) (memOpBaseIndex size rb rx sh d seg a32) (segmentPrefix seg ++ aoBytes a32) (xbOf rb rx) aaa
      (fun o7 s => idxMb o7 (memVariant (rb &&& 7#32) (d.truncate 32) s))
      (fun _ _ => some (idxSib (BitVec.ofNat 32 sh) (rx &&& 7#32) (rb &&& 7#32)))
      (fun _ s => memDs rb (d.truncate 32) s) := by
  have hr7 : rb &&& 7#32 < 8#32 := by bv_decide
  have hx7 : rx &&& 7#32 < 8#32 := by bv_decide
  obtain ⟨hpl, hpc, h67⟩ := segPfx_ok seg a32 (memOpBaseIndex size rb rx sh d seg a32) rfl (by cases a32 <;> rfl)
  refine ⟨by simp only [xbOf]; bv_decide, ha, hpl, hpc, by cases a32 <;> rfl, rfl, ?_, ?_, ?_⟩
  · intro o7 s ho
    have hvlt := memVariant_lt (rb &&& 7#32) (d.truncate 32) s
    have hv5 : memVariant (rb &&& 7#32) (d.truncate 32) s = 0 → rb &&& 7#32 ≠ 5#32 := by
      intro h0 h5
      unfold memVariant at h0
      simp [h5] at h0
      split at h0 <;> omega
    obtain ⟨fmod, frm, freg⟩ := idxMb_factsBV o7 _ ho hvlt
    obtain ⟨fsc, fsx, fsb⟩ := idxSib_factsBV sh _ _ hsh hx7 hr7
    simp only [memDs]
    generalize hvdef : memVariant (rb &&& 7#32) (d.truncate 32) s = v at *
    refine ⟨by rw [fmod]; omega, by simp [frm], ?_, freg⟩
    simp only [dispLen, fmod, fsb]
    unfold memDisp
    have : v = 0 ∨ v = 1 ∨ v = 2 := by omega
    rcases this with h | h | h
    · subst h
      have h5 : (rb &&& 7#32).toNat ≠ 5 := by
        intro h5; exact hv5 rfl (by apply BitVec.eq_of_toNat_eq; simpa using h5)
      simp
      simpa using h5
    · subst h; simp
    · subst h; simp [le32]
  · intro rule p o7 s ho hs6 F hN
    have h3 : (xbOf rb rx).getLsbD 3 = rb.getLsbD 3 := by simp only [xbOf]; bv_decide
    have h4 : (xbOf rb rx).getLsbD 4 = rx.getLsbD 3 := by simp only [xbOf]; bv_decide
    rw [h3, h4] at F
    exact idxParts_checkMem ctx rule p o7 rb rx s size sh d hm64 ho hb hx hx4 hsh hs6 seg a32 0 _ h67 F hN
  · intro opcode reg vvvvv z imm n hr hv hxop
    exact emitVexEvexM_index_bytes c opcode reg vvvvv rb rx aaa z size sh d imm n seg a32 hm hpe hk hvs hr hv hb hx hx4 ha hxop

/-! ### `[rip + disp32]` -/

/-- model-side `[rip + disp]` operand (base type PC, register id 0 as `x86::rip`) -/
def memRip (size : Nat) (d : BitVec 64) (seg : Nat := 0) (bc : Nat := 0) : Mem :=
  { size := size, baseType := 31, baseId := 0, indexType := 0, indexId := 0, shift := 0, offset := d, seg := seg, bcst := bc, addrType := 0 }

def memOpRip (size : Nat) (d : BitVec 64) (seg : Nat := 0) (bc : Nat := 0) : MemOp :=
  { size := size, baseKind := .rip, baseId := 0, indexKind := .none, indexId := 0, shift := 0, disp := d, seg := seg, bcst := bc, addrType := 0 }

theorem memInfo_rip : memInfo 31 0 = 0x2C#32 := by decide

def ripMb (o7 : BitVec 32) : BitVec 8 := (encodeMod 0#32 o7 5#32).truncate 8

theorem ripMb_facts : ∀ o : Fin 8, bits (ripMb (BitVec.ofNat 32 o.val)) 6 2 = 0 ∧ bits (ripMb (BitVec.ofNat 32 o.val)) 0 3 = 5 ∧
    bits (ripMb (BitVec.ofNat 32 o.val)) 3 3 = o.val := by decide

theorem ripMb_factsBV (o7 : BitVec 32) (ho : o7 < 8#32) : bits (ripMb o7) 6 2 = 0 ∧ bits (ripMb o7) 0 3 = 5 ∧ bits (ripMb o7) 3 3 = o7.toNat := by
  have ho' : o7.toNat < 8 := by simpa [BitVec.lt_def] using ho
  simpa using ripMb_facts ⟨o7.toNat, ho'⟩

theorem emitModSib_rip_parts (c : Model.X86.Ctx) (pre : List (BitVec 8)) (ao : Nat) (opcode options opReg rbReg rxReg : BitVec 32) (m : Mem)
    (imm : BitVec 64) (n : Nat) (hm : c.mode64 = true) :
    emitModSib c pre ao opcode options opReg rbReg rxReg 0x2C#32 m imm n false =
      .ok (pre ++ (ripMb opReg :: ([] ++ le32 m.offLo32)) ++ emitImmediate imm n) := by
  unfold emitModSib
  simp [kX86MemInfo_Index, kX86MemInfo_67H_X86, kX86MemInfo_BaseGp, kX86MemInfo_BaseLabel, kX86MemInfo_BaseRip, hm, ripMb]

theorem emitVexEvexM_rip_eq (c : Model.X86.Ctx) (opcode reg vvvvv aaa : BitVec 32) (z : Bool) (size : Nat) (d imm : BitVec 64) (n : Nat) (seg : Nat)
    (hm : c.mode64 = true) (hpe : c.preferEvex = false) (hk : c.extraId = aaa) (hvs : c.vsib = false) :
    emitVexEvexM c opcode (zOpt z) (reg + (vvvvv <<< 7)) (memRip size d seg) imm n =
      (match vexEvexMPrefix c ((if c.vexFlag then xMbK opcode reg vvvvv 0#32 aaa z else xMbK opcode reg vvvvv 0#32 aaa z ||| 0x80000000#32) ||| zOpt z) opcode (zOpt z)
          (memRip size d seg) with
       | .error e => .error e
       | .ok v => emitModSib c (segmentPrefix seg ++ aoBytes false ++ v.1) (segmentPrefix seg).length v.2 (zOpt z) ((reg + (vvvvv <<< 7)) &&& 7#32) 0#32 0#32 0x2C#32
                    (memRip size d seg) imm n false) := by
  unfold emitVexEvexM
  cases z
  all_goals
    dsimp only [memRip, xMbK, aoBytes, zOpt]
    simp only [hk, hpe, hvs, memInfo_rip, Model.X86.Ctx.aoMask, hm]
    simp only [rtLabel, oZMask, oER, oSAE, oVex, oVex3]
    simp only [BitVec.ofNat_toNat, BitVec.setWidth_eq, BitVec.zero_and, BitVec.zero_or, BitVec.or_zero, bne_self_eq_false, Bool.false_eq_true, ↓reduceIte,
      Bool.false_and, gt_iff_lt, Nat.lt_irrefl, Nat.not_lt_zero, BitVec.zero_shiftLeft, BitVec.and_zero, bind, Except.bind, Bool.not_false,
      show (1 < 31) = True from by decide, show (0x2C#32 &&& 0x80#32 != 0#32) = false from by decide, List.nil_append, List.length_nil, List.append_nil,
      show ((0:Nat) != 0) = false from by decide, BitVec.ofNat_eq_ofNat,
      show (0x800000#32 &&& (0x800000#32 ||| 0x40000#32 ||| 0x80000#32) != 0#32) = true from by decide,
      show (0x800000#32 &&& (0x40000#32 ||| 0x80000#32) != 0#32) = false from by decide,
      show (0x800000#32 &&& 0x800000#32) = 0x800000#32 from by decide,
      show (0x800000#32 &&& (0x800#32 ||| 0x400#32)) = 0#32 from by decide]
    generalize vexEvexMPrefix c _ opcode _ _ = r
    cases r <;> rfl

/-- the address form `seg:[rip + disp32]`: ANY segment override, ANY mask register, ALL displacements (the encoder uses the low 32 bits) -/
theorem addrForm_rip (c : Model.X86.Ctx) (ctx : Spec.X86.Ctx) (aaa : BitVec 32) (size : Nat) (d : BitVec 64) (seg : Nat)
    (hm : c.mode64 = true) (hpe : c.preferEvex = false) (hk : c.extraId = aaa) (ha : aaa < 8#32) (hvs : c.vsib = false) (hm64 : ctx.mode64 = true) :
    AddrForm c ctx (memRip size d seg) (memOpRip size d seg) (segmentPrefix seg ++ aoBytes false) 0#32 aaa
      (fun o7 _ => ripMb o7) (fun _ _ => none) (fun _ _ => le32 (d.truncate 32)) := by
  obtain ⟨hpl, hpc, h67⟩ := segPfx_ok seg false (memOpRip size d seg) rfl (by simp [wantedAddrSize, memOpRip])
  refine ⟨by decide, ha, hpl, hpc, rfl, rfl, ?_, ?_, ?_⟩
  · intro o7 s ho
    obtain ⟨f1, f2, f3⟩ := ripMb_factsBV o7 ho
    refine ⟨by rw [f1]; omega, by simp [f2], ?_, f3⟩
    simp [dispLen, f1, f2, le32]
  · intro rule p o7 s ho hs6 F hN
    obtain ⟨hpm, hps, hpd, hpv, hpp, hpa, hpB, hpX⟩ := F
    obtain ⟨f1, f2, f3⟩ := ripMb_factsBV o7 ho
    refine checkMem_rip ctx rule p (memOpRip size d seg) _ hm64 (by rw [hpp]; exact h67) hpa hpm f1 f2 rfl rfl hps (by rw [hpd]; rfl) ?_
    rw [hpv, leNat_le32]
    simp [memOpRip, BitVec.toNat_setWidth]
  · intro opcode reg vvvvv z imm n hr hv hxop
    have hoff : (memRip size d seg).offLo32 = d.truncate 32 := rfl
    have hxe : xMbK opcode reg vvvvv 0#32 aaa z = xR opcode 0#32 reg vvvvv 0#32 aaa := by
      cases z <;> simp only [xMbK, xR, zOpt, oZMask, extractLLMMMMM, kLL_Mask, kMM_Mask, oEvex, Bool.false_eq_true, ↓reduceIte] <;> bv_decide
    rw [emitVexEvexM_rip_eq c opcode reg vvvvv aaa z size d imm n seg hm hpe hk hvs, hxe,
      vexEvexMPrefix_decided c opcode reg vvvvv 0#32 aaa z _ hr hv (by decide) ha hxop]
    simp only []
    split
    · rw [emitModSib_rip_parts c _ _ _ _ _ 0#32 0#32 _ imm n hm, hoff]; simp
    · split
      · rw [emitModSib_rip_parts c _ _ _ _ _ 0#32 0#32 _ imm n hm, hoff]; simp
      · rw [emitModSib_rip_parts c _ _ _ _ _ 0#32 0#32 _ imm n hm, hoff]; simp

end AsmjitVerif.Props.C01
