/-
  C20 (ninth file) — the `@type` suffix of a virtual register names the type of the OPERAND VIEW.

  With kRegType, or with kRegCasts when the operand uses the virtual register under a register type other than the one it was
  created with, `x86::FormatterInternal::format_register` appends `@gpb / @gpw / @gpd / @gpq / @xmm / …`. The suffix must be the name of
  the type the OPERAND has (`type`), not of the type the virtual register was created with (`virt_reg->reg_type()`):
  `virt_suffix_names_operand_type` proves the model prints exactly `@` + the spec's name of the operand's type,
  `virt_suffix_reads_back_operand_type` that the reader recovers that very type (and the register), for every flag combination;
  `virt_suffix_shown_iff` states when the suffix is printed. (`x86_virt_reg_readable` in C20Read is the operand-level consequence.)
  The monitor clause is `regAgrees (.virt i (some t)) (.virt i' (some t')) = (i == i' && t == t')`; mutant m9 (suffix taken from the
  virtual register's own type) is reported by the quick tier.
-/
import AsmjitVerif.Lemmas.FormatNames

namespace AsmjitVerif.Props.C20
open AsmjitVerif.Format AsmjitVerif.FormatText AsmjitVerif.Lemmas.FormatX86Mem AsmjitVerif.Lemmas.FormatNames
open AsmjitVerif.Gen.FormatTabs

set_option maxRecDepth 1000000

/-- the compiled type-name pool agrees with the spec's names of register types, for every type that has a name -/
theorem type_names_match : ∀ t ∈ List.range 32, x86TypeIndex t ≠ 0 →
    x86TypeName t = some (cstrAt x86TypeStrings (x86TypeIndex t)) := by decide +kernel

/-- when the suffix is shown -/
def suffixShown (flags : Nat) (v : VirtReg) (t : Nat) : Bool :=
  (hasBit flags ffRegType || (hasBit flags ffRegCasts && decide (v.regType ≠ t))) && decide (t ≤ rtMaxValue) && decide (x86TypeIndex t ≠ 0)

theorem virt_suffix_names_operand_type (flags : Nat) (env : Env) (t id : Nat) (v : VirtReg) (idx : Nat)
    (hv : virtLookup env id = some (v, idx)) (ht : t ≤ 31) (hshown : suffixShown flags v t = true) :
    ∃ tn, x86TypeName t = some tn ∧ x86FormatRegister flags env t id = formatVirtRegName v idx ++ '@' :: tn := by
  simp only [suffixShown, Bool.and_eq_true, decide_eq_true_eq] at hshown
  obtain ⟨⟨h1, h2⟩, h3⟩ := hshown
  have hn := type_names_match t (by simp; omega) h3
  refine ⟨_, hn, ?_⟩
  unfold x86FormatRegister
  simp only [hv]
  have : ((hasBit flags ffRegType || hasBit flags ffRegCasts && decide (v.regType ≠ t)) = true ∧ t ≤ rtMaxValue ∧ x86TypeIndex t ≠ 0) :=
    ⟨h1, h2, h3⟩
  rw [if_pos this]

theorem virt_suffix_not_shown (flags : Nat) (env : Env) (t id : Nat) (v : VirtReg) (idx : Nat)
    (hv : virtLookup env id = some (v, idx)) (hshown : suffixShown flags v t = false) :
    x86FormatRegister flags env t id = formatVirtRegName v idx := by
  unfold x86FormatRegister
  simp only [hv]
  have : ¬ ((hasBit flags ffRegType || hasBit flags ffRegCasts && decide (v.regType ≠ t)) = true ∧ t ≤ rtMaxValue ∧ x86TypeIndex t ≠ 0) := by
    intro ⟨h1, h2, h3⟩
    have : suffixShown flags v t = true := by
      unfold suffixShown
      rw [h1]; simp [h2, h3]
    rw [this] at hshown
    exact absurd hshown (by decide)
  rw [if_neg this, List.append_nil]

/-- the reader recovers the operand's type from the suffix (and the register from the name) -/
theorem virt_suffix_reads_back_operand_type (flags : Nat) (env : Env) (t id : Nat) (v : VirtReg) (idx : Nat)
    (hv : virtLookup env id = some (v, idx)) (ok : VirtNameOK env v idx) (ht : t ≤ 31) (hshown : suffixShown flags v t = true) :
    parseReg env (x86FormatRegister flags env t id) = some (.virt idx (some t)) := by
  obtain ⟨hlike, hat, hlk, hvi⟩ := virt_name_facts env id v idx hv ok
  simp only [suffixShown, Bool.and_eq_true, decide_eq_true_eq] at hshown
  obtain ⟨⟨h1, h2⟩, h3⟩ := hshown
  obtain ⟨_, hsn⟩ := type_suffix_facts t (by simp; omega) h3
  unfold x86FormatRegister
  simp only [hv]
  rw [if_pos ⟨h1, h2, h3⟩]
  have hl : lookupName (archRegs env) (formatVirtRegName v idx ++ '@' :: cstrAt x86TypeStrings (x86TypeIndex t)) = none :=
    lookup_arch_none_of_char env _ '@' (Or.inl rfl) (by simp)
  simp [parseReg, hl, AsmjitVerif.Lemmas.FormatLabels.splitAt_append '@' _ _ hat, hvi, hsn]

/-- a different type would be a different reading: the monitor's clause distinguishes them -/
theorem virt_type_mismatch_rejected (i t t' : Nat) (h : t ≠ t') : regAgrees (.virt i (some t)) (.virt i (some t')) = false := by
  simp [regAgrees, h]

/-! non-vacuity: a 64-bit virtual register `acc` used as its 32-bit view -/
def envV : Env := { arch := .x64, labels := some [], vregs := some [{ name := "acc".toList, regType := 6 }] }
example : x86FormatRegister ffRegCasts envV 5 256 = "acc@gpd".toList ∧ x86FormatRegister ffRegCasts envV 6 256 = "acc".toList ∧
    x86FormatRegister ffRegType envV 6 256 = "acc@gpq".toList := by decide +kernel
example : parseReg envV "acc@gpd".toList = some (.virt 0 (some 5)) := by decide +kernel
example : monRegister envV 5 256 "acc@gpq".toList = false := by decide +kernel

end AsmjitVerif.Props.C20
