/-
  C20 (fifth file) — the parts of x86 whole-line parse-back that are proved, for all inputs:

  * `x86_prefix_words_parse_back` — the option words the reader recovers from the head (`x86_head_parse_back`) are exactly
    `expectedPrefixes options` (the spec's reading of InstOptions), and the only other head word is the `{reg}` of rep/repnz;
  * `x86_operand_chunk_parse_back` — one operand chunk: operand text (any text the operand reader accepts), then ` {k}`, ` {k}{z}`
    or ` {z}`, then ` {1toN}` — all 4 x 7 combinations — reads back to the operand reading with mask register, zeroing flag and
    broadcast factor;
  * `x86_operand_list_parse_back` — the `, `-separated operand list after the mnemonic: cutting at the commas and reading every chunk
    gives the chunks' readings in order (induction over the operand list).

  * `x86_line_parse_back` — THE WHOLE LINE: for every well-formed instruction (`WFLine`: valid id, operands that are registers /
    immediates / labels / memory operands of the proved kinds — `reg_operand_ok`, `imm_operand_ok`, `label_operand_ok`,
    `mem_operand_ok` — broadcast 0..6, readable mask / rep register, a rounding option only with operands) and every flag
    combination, `parseX86Inst (x86FormatInstruction …)` returns exactly: the option words `expectedPrefixes options`, the rep
    register, the mnemonic text of the id (tied to the id by `inst_names_match_headers` / `alias_names_denote_same_instruction`),
    the operand readings in order — each agreeing with the operand given (`x86_line_operands_agree`) with mask register, zeroing
    flag and broadcast factor — and the rounding group `expectedRounding options`.

  NOT proved: the AArch64 line (its reader still cuts operands with bracket-depth tracking; memory and register-list texts contain
  `, `), and the last hop from this structured result to the Boolean `monInstruction … = true` (needs the id-indexed form of the
  name-table theorems). Both remain evaluated by the monitor on every line of every run.
-/
import AsmjitVerif.Lemmas.FormatLineFull

namespace AsmjitVerif.Props.C20
open AsmjitVerif.Format AsmjitVerif.FormatText AsmjitVerif.Lemmas.FormatX86Mem
open AsmjitVerif.Lemmas.FormatLine AsmjitVerif.Lemmas.FormatChunk AsmjitVerif.Lemmas.FormatLineParts
open AsmjitVerif.Lemmas.FormatOpKinds AsmjitVerif.Lemmas.FormatLineFull

theorem x86_prefix_words_parse_back (flags : Nat) (env : Env) (options : Nat) (extra : ExtraReg)
    (hrw : extra.isReg = true → isFixed (repWord flags env extra) = false) :
    ((x86HeadWords flags env options extra).filter isFixed).map String.ofList = expectedPrefixes options ∧
    (x86HeadWords flags env options extra).filter (fun x => !isFixed x) =
      (if hasBit options (ioRep ||| ioRepne) = true ∧ extra.isReg = true then [repWord flags env extra] else []) :=
  filter_words flags env options extra hrw

theorem x86_operand_chunk_parse_back (env : Env) (T : Str) (r : POp) (hT : parseX86Op env T = some r) (hclean : ∀ c ∈ T, c ≠ '{')
    (kz : KZ) (rk : PReg) (b : Nat) (hb : b = 0 ∨ b ∈ [1, 2, 3, 4, 5, 6])
    (hk : ∀ K, (kz = .k K ∨ kz = .kz K) → MaskOK env K rk) :
    readChunk env (T ++ (kzText kz ++ bcText b)) =
      some { op := r, kmask := kzMask kz (some rk), zeroing := kzZero kz, bcast := if b = 0 then 0 else 1 <<< b } :=
  chunk_read env T r hT hclean kz rk b hb hk

theorem x86_operand_list_parse_back (flags : Nat) (env : Env) (options : Nat) (extra : ExtraReg) (op : Operand) (rest : List Operand)
    (ex : Nat → Operand → POperand)
    (hne : ∀ o ∈ op :: rest, o ≠ Operand.none)
    (hch : ∀ k o, readChunk env (x86ChunkText flags env options extra k o) = some (ex k o) ∧
                  (x86ChunkText flags env options extra k o).head? ≠ some '{' ∧
                  x86ChunkText flags env options extra k o ≠ [] ∧
                  ∀ c ∈ x86ChunkText flags env options extra k o, c ≠ ',') :
    ∃ body, x86FormatOps flags env options extra 0 (op :: rest) = ' ' :: body ∧
      ((lexPieces (fun c => c == ',') body.length body).mapM chunkOfPiece).bind (readChunks env) =
        some (ex 0 op :: (tailCPs (x86ChunkText flags env options extra) ex 1 rest).map Prod.snd, none) :=
  ops_read flags env options extra op rest ex hne hch

/-! ## the whole line -/

theorem reg_operand_ok (flags : Nat) (env : Env) (t id : Nat) (h : RegOK env (x86FormatRegister flags env t id) t id) :
    OpOK flags env (.reg t id 0 none) := reg_opOK flags env t id h
theorem imm_operand_ok (flags : Nat) (env : Env) (u : Nat) (h : u < two64) : OpOK flags env (.imm u 0) := imm_opOK flags env u h
theorem label_operand_ok (flags : Nat) (env : Env) (id : Nat) (h : LabelOK env id) : OpOK flags env (.label id) := label_opOK flags env id h
theorem mem_operand_ok (flags : Nat) (env : Env) (m : X86Mem) (wf : WFX86Mem flags env m) : OpOK flags env (.x86mem m) :=
  mem_opOK flags env m wf

/-- whole-line parse-back for x86 -/
theorem x86_line_parse_back (flags : Nat) (env : Env) (instId options : Nat) (extra : ExtraReg) (ops : List Operand) (rk rr : PReg)
    (wf : WFLine flags env instId options extra ops rk rr) :
    parseX86Inst env (x86FormatInstruction flags env instId options extra ops) =
      some { prefixes := expectedPrefixes options,
             repReg := if hasBit options (ioRep ||| ioRepne) = true ∧ extra.isReg = true then some rr else none,
             mnemonic := (parseMnemonic (x86InstName flags instId)).1, aliases := (parseMnemonic (x86InstName flags instId)).2,
             ops := exList flags env options extra rk ops, rounding := expectedRounding options } :=
  x86_line_read flags env instId options extra ops rk rr wf

/-- every operand reading in that result agrees with the operand that was given -/
theorem x86_line_operands_agree (flags : Nat) (env : Env) (options : Nat) (extra : ExtraReg) (rk : PReg) (k : Nat) (o : Operand)
    (h : OpOK flags env o) : opAgrees env o (exOf flags env options extra rk k o).op = true := h.eq.2

/-! non-vacuity -/

def envL : Env := { arch := .x64, labels := some [], vregs := none }
def opsL : List Operand :=
  [.reg 13 0 0 none, .reg 13 1 0 none,
   .x86mem { size := 4, seg := 0, addrType := 0, base := .reg 6 0, index := none, shift := 0, off := 64, bcast := 4, home := false }]
def extraL : ExtraReg := { type := 16, group := rgMask, id := 1 }

example : x86FormatInstruction 0 envL 9 (ioLock ||| ioZMask) extraL opsL =
    "lock add zmm0 {k1}{z}, zmm1, dword ptr [rax+64] {1to16}".toList := by decide +kernel
example : (parseX86Inst envL (x86FormatInstruction 0 envL 9 (ioLock ||| ioZMask) extraL opsL)).map (fun p => (p.prefixes, p.ops.length, p.ops.map (·.bcast))) =
    some (["lock"], 3, [0, 0, 16]) := by decide +kernel

theorem memL_wf (flags : Nat) : WFX86Mem flags envL { size := 4, seg := 0, addrType := 0, base := .reg 6 0, index := none, shift := 0, off := 64, bcast := 4, home := false } where
  size := Or.inr ⟨("dword", 4), by decide, rfl⟩
  seg := by decide
  addr := by decide
  shift := by decide
  base := x86_phys_regOK _ envL (by decide) 6 0 "rax".toList (by decide +kernel)
  index := trivial

/-- the example line is well-formed: the theorem applies to it (for every flag combination) -/
theorem lineL_wf (flags : Nat) : WFLine flags envL 9 (ioLock ||| ioZMask) extraL opsL (.phys 16 1) (.phys 16 1) where
  idpos := by decide
  idlt := by decide +kernel
  nonone := by decide
  opok := by
    intro o ho
    simp only [opsL, List.mem_cons, List.not_mem_nil, or_false] at ho
    rcases ho with e | e | e
    · subst e; exact reg_opOK flags envL 13 0 (x86_phys_regOK flags envL (by decide) 13 0 "zmm0".toList (by decide +kernel))
    · subst e; exact reg_opOK flags envL 13 1 (x86_phys_regOK flags envL (by decide) 13 1 "zmm1".toList (by decide +kernel))
    · subst e; exact mem_opOK flags envL _ (memL_wf flags)
  bcast := by decide
  mask := fun _ => by
    have hK : maskText flags envL extraL = "k1".toList := by
      have := (x86_phys_regOK flags envL (by decide) 16 1 "k1".toList (by decide +kernel))
      simp only [maskText, extraL, x86FormatRegister, virtLookup_small envL 1 (by decide)]
      decide +kernel
    rw [hK]
    exact ⟨nameLike_of_B _ (by decide), by decide +kernel, by decide, by decide⟩
  rep := fun _ => by
    have hW : repWord flags envL extraL = "{k1}".toList := by
      simp only [repWord, extraL, x86FormatOperand, x86FormatRegister, virtLookup_small envL 1 (by decide)]
      decide +kernel
    rw [hW]
    exact ⟨by decide, by decide, by decide +kernel⟩
  noround := by decide

example (flags : Nat) := x86_line_parse_back flags envL 9 (ioLock ||| ioZMask) extraL opsL _ _ (lineL_wf flags)

/-! non-vacuity of the parts -/

example : expectedPrefixes (ioLock ||| ioXAcquire ||| ioEvex) = ["{evex}", "xacquire", "lock"] := by decide
example : kzText (.kz "k1".toList) ++ bcText 4 = " {k1}{z} {1to16}".toList := by decide
example : readChunk { arch := .x64, labels := none, vregs := none } "zmm0 {k1}{z}".toList =
    some { op := .reg (.phys 13 0) none none, kmask := some (.phys 16 1), zeroing := true, bcast := 0 } := by decide +kernel

end AsmjitVerif.Props.C20
