/-
  C20 (fifth file) — the parts of x86 whole-line parse-back that are proved, for all inputs:

  * `x86_prefix_words_parse_back` — the option words the reader recovers from the head (`x86_head_parse_back`) are exactly
    `expectedPrefixes options` (the spec's reading of InstOptions), and the only other head word is the `{reg}` of rep/repnz;
  * `x86_operand_chunk_parse_back` — one operand chunk: operand text (any text the operand reader accepts), then ` {k}`, ` {k}{z}`
    or ` {z}`, then ` {1toN}` — all 4 x 7 combinations — reads back to the operand reading with mask register, zeroing flag and
    broadcast factor;
  * `x86_operand_list_parse_back` — the `, `-separated operand list after the mnemonic: cutting at the commas and reading every chunk
    gives the chunks' readings in order (induction over the operand list).

  NOT proved: the final assembly into one statement `x86_line_parse_back` (head + mnemonic + operand list + the trailing
  `{er}/{sae}` group: `readChunks_round` handles the group in the chunk walk, the model-side rounding text lemma and the per-kind
  `OpOK` instances for the chunk hypothesis are missing), and the AArch64 line. Both remain monitored on every line of every run.
-/
import AsmjitVerif.Lemmas.FormatLineParts

namespace AsmjitVerif.Props.C20
open AsmjitVerif.Format AsmjitVerif.FormatText AsmjitVerif.Lemmas.FormatX86Mem
open AsmjitVerif.Lemmas.FormatLine AsmjitVerif.Lemmas.FormatChunk AsmjitVerif.Lemmas.FormatLineParts

theorem x86_prefix_words_parse_back (flags : Nat) (env : Env) (options : Nat) (extra : ExtraReg)
    (hrw : extra.isReg = true → isFixed (repWord flags env extra) = false) :
    ((x86HeadWords flags env options extra).filter isFixed).map String.ofList = expectedPrefixes options ∧
    (x86HeadWords flags env options extra).filter (fun x => !isFixed x) =
      (if hasBit options (ioRep ||| ioRepne) = true ∧ extra.isReg = true then [repWord flags env extra] else []) :=
  filter_words flags env options extra hrw

theorem x86_operand_chunk_parse_back (env : Env) (T : Str) (r : POp) (hT : parseX86Op env T = some r) (hclean : ∀ c ∈ T, c ≠ '{')
    (kz : KZ) (rk : PReg) (b : Nat) (hb : b = 0 ∨ b ∈ [1, 2, 3, 4, 5, 6])
    (hk : ∀ K, (kz = .k K ∨ kz = .kz K) → MaskOK env K rk) :
    readChunk env (T ++ (kzText kz ++ bcText b)) =
      some { op := r, kmask := kzMask kz (some rk), zeroing := kzZero kz, bcast := if b = 0 then 0 else 1 <<< b } :=
  chunk_read env T r hT hclean kz rk b hb hk

theorem x86_operand_list_parse_back (flags : Nat) (env : Env) (options : Nat) (extra : ExtraReg) (op : Operand) (rest : List Operand)
    (ex : Nat → Operand → POperand)
    (hne : ∀ o ∈ op :: rest, o ≠ Operand.none)
    (hch : ∀ k o, readChunk env (x86ChunkText flags env options extra k o) = some (ex k o) ∧
                  (x86ChunkText flags env options extra k o).head? ≠ some '{' ∧
                  x86ChunkText flags env options extra k o ≠ [] ∧
                  ∀ c ∈ x86ChunkText flags env options extra k o, c ≠ ',') :
    ∃ body, x86FormatOps flags env options extra 0 (op :: rest) = ' ' :: body ∧
      ((lexPieces (fun c => c == ',') body.length body).mapM chunkOfPiece).bind (readChunks env) =
        some (ex 0 op :: (tailCPs (x86ChunkText flags env options extra) ex 1 rest).map Prod.snd, none) :=
  ops_read flags env options extra op rest ex hne hch

/-! non-vacuity -/

example : expectedPrefixes (ioLock ||| ioXAcquire ||| ioEvex) = ["{evex}", "xacquire", "lock"] := by decide
example : kzText (.kz "k1".toList) ++ bcText 4 = " {k1}{z} {1to16}".toList := by decide
example : readChunk { arch := .x64, labels := none, vregs := none } "zmm0 {k1}{z}".toList =
    some { op := .reg (.phys 13 0) none none, kmask := some (.phys 16 1), zeroing := true, bcast := 0 } := by decide +kernel

end AsmjitVerif.Props.C20
