/-
C03, named labels: a name designates exactly the label it was created for - the lookup that every by-name reference goes
through returns the id `new_named_label_id` handed out, never another label's id, and no id at all for a name that was
never defined (in particular the empty name, fixes/C03-4.patch). The model (Model/Named.lean) is compared with the real
hash table on every explored program.
-/
import AsmjitVerif.Model.Named
namespace AsmjitVerif.CodeHolder

/-- a successful `new_named_label` creates label number `label_count` and the name designates it from then on -/
theorem named_lookup_new (n n' : NState) (name : String) (h : newNamed n name = (n', .ok)) :
    labelByName n'.names name = some n.st.labels.length ∧ n'.st.labels.length = n.st.labels.length + 1 ∧
    n'.st.labels[n.st.labels.length]? = some (.unbound []) := by
  unfold newNamed at h
  split at h
  · cases h
  rename_i h0
  split at h
  · cases h
  split at h
  · cases h
  simp only [newLabel, Prod.mk.injEq, and_true] at h
  subst h
  refine ⟨?_, by simp, by simp⟩
  unfold labelByName
  rw [if_neg h0]
  simp

/-- every other name keeps designating what it designated (or nothing) -/
theorem named_lookup_other (n n' : NState) (name other : String) (e : NErr) (h : newNamed n name = (n', e)) (hne : other ≠ name) :
    labelByName n'.names other = labelByName n.names other := by
  unfold newNamed at h
  split at h
  · cases h; rfl
  split at h
  · cases h; rfl
  split at h
  · cases h; rfl
  simp only [newLabel, Prod.mk.injEq] at h
  obtain ⟨h, _⟩ := h
  subst h
  unfold labelByName
  split
  · rfl
  · have : (name == other) = false := by simp [Ne.symm hne]
    simp [List.find?, this]

/-- a name is refused when it is already defined: two labels never share a name -/
theorem named_no_duplicates (n : NState) (name : String) (id : Nat) (h : labelByName n.names name = some id) :
    (newNamed n name).2 ≠ .ok := by
  unfold newNamed
  split
  · simp
  split
  · simp
  rw [h]; simp

/-- the empty name designates no label (`Globals::kInvalidId`), whatever labels exist -/
theorem named_empty_invalid (names : List (String × Nat)) : labelByName names "" = none := by
  unfold labelByName; simp

/-- a name that was never defined designates no label -/
theorem named_undefined_invalid (names : List (String × Nat)) (name : String) (h : ∀ p ∈ names, p.1 ≠ name) :
    labelByName names name = none := by
  unfold labelByName
  split
  · rfl
  · have : names.find? (fun p => p.1 == name) = none := by
      rw [List.find?_eq_none]; intro p hp; simpa using h p hp
    rw [this]; rfl

end AsmjitVerif.CodeHolder
