/-
  C08 – Builder/Compiler serialization is byte-identical to direct assembling.

  What is proved here (for ALL inputs / histories, no bound):
  * `replay_store`, `replay_canonical`, `inst_node_replays_call` – an instruction captured by `BaseBuilder::_emit` (0..6 operands, any
    option word, extra register, inline comment) is replayed by `serialize_to` as exactly the call that was made; operands behind
    `op_count` (which the assembler would ignore as well) are the only thing normalised away.
  * `serialize_all_on_success`, `serialize_prefix_on_error` – `serialize_to` against ANY destination emitter: without a rejection every
    call is issued in order; otherwise exactly the calls up to and including the first rejected one are issued, the error is that
    call's error and the destination is in the state it had at that call ("same errors" of the property).
  * `init_inv`, `refines_partial` – the node list of the model (cursor *node*, recursive list surgery, cached `_next_section` links with a
    dirty flag) refines the gap-buffer document of Spec/Builder.lean for every history of add_node / add_after / add_before /
    remove_node / set_cursor / section-node registration, and the representation invariant (no node twice, cursor linked, link cache
    coherent unless flagged dirty) holds in every reachable state ("editing the node list yields the code of the edited sequence").

  Full-strength statement that is NOT proved yet (kept here as the target):

      theorem refines : ∀ (acts : List Act) (m : MList), Inv m →
          Inv (acts.foldl MList.apply m) ∧ (acts.foldl MList.apply m).abs = acts.foldl Spec.Doc.apply m.abs

  `refines_partial` proves it under the extra hypothesis that no action is `removeRange a b` with `a ≠ b` (remove_nodes over a real range)
  or `section n` (BaseBuilder::section: cursor to the end of the section's region through the cached links).  For these two the
  agreement model = specification = real Builder is checked by the correspondence and by the monitor on every run, not proved.
  Also not proved: `serialize_groups` (per-section projection under section re-entry); the byte equality itself is differential.
-/
import AsmjitVerif.Lemmas.C08Ops
import AsmjitVerif.Lemmas.C08Refine2

namespace AsmjitVerif.Props.C08
open AsmjitVerif.Builder
open AsmjitVerif.Builder.Spec (Doc)

/-! ## Instruction capture and replay -/

/-- capture (`_emit`: op_count, set_op, reset_op_range) followed by replay (`serialize_to`: operand array reconstruction) keeps slot `i`
    iff `i < op_count` – for all six operands, whatever they are -/
theorem replay_store (a b c d e f : Operand) :
    replayOps (opCountFromArgs [a, b, c, d, e, f]) (storeOps [a, b, c, d, e, f]) = normalizeOps [a, b, c, d, e, f] :=
  replay_store_eq a b c d e f

/-- … and nothing at all is lost when the operand list has no hole in front of its 4th..6th operand -/
theorem replay_canonical (a b c d e f : Operand) (h : CanonicalOps a b c d e f) :
    replayOps (opCountFromArgs [a, b, c, d, e, f]) (storeOps [a, b, c, d, e, f]) = [a, b, c, d, e, f] := by
  rw [replay_store_eq, normalize_canonical a b c d e f h]

example : CanonicalOps "r1" "r2" "-" "-" "-" "-" := by simp [CanonicalOps, Operand.isNone]
example : replayOps (opCountFromArgs ["x", "y", "z", "u", "v", "w"]) (storeOps ["x", "y", "z", "u", "v", "w"]) = ["x", "y", "z", "u", "v", "w"] := by decide
-- a hole is normalised: the 5th operand behind a none 4th operand is dropped by `_emit` (the assembler ignores it as well)
example : replayOps (opCountFromArgs ["x", "-", "-", "-", "v", "-"]) (storeOps ["x", "-", "-", "-", "v", "-"]) = ["x", "-", "-", "-", "-", "-"] := by decide

/-- the node `_emit` creates replays as the call that was made: same id, the option word of that moment (reserved bit cleared), the extra
    register and inline comment of that moment, the normalised operands; the one-shot state is reset; the node is appended at the cursor -/
theorem inst_node_replays_call (fr : Front) (active : Nat → Bool) (id : Nat) (a b c d e f : Operand) :
    let r := front fr active (.inst id [a, b, c, d, e, f])
    r.2.1 = .ok ∧ r.2.2 = [.add fr.nodes.length] ∧
    (nodeAt r.1 fr.nodes.length).toCall = .inst id (clearReserved fr.opts) fr.extra fr.cmt (normalizeOps [a, b, c, d, e, f]) ∧
    r.1.opts = 0 ∧ r.1.extra = "-" ∧ r.1.cmt = "-" ∧
    (∀ n, n < fr.nodes.length → nodeAt r.1 n = nodeAt fr n) := by
  refine ⟨rfl, rfl, ?_, rfl, rfl, rfl, ?_⟩
  · simp [front, Front.newNode, nodeAt, Node.toCall, replay_store_eq]
  · intro n hn
    simp [front, Front.newNode, nodeAt, List.getD_eq_getElem?_getD, List.getElem?_append_left hn]

/-! ## serialize_to against an arbitrary destination -/

/-- no call rejected: every call has been issued, in order -/
theorem serialize_all_on_success {σ : Type} (dst : σ → Call → σ × Option String) (cs : List Call) (s s' : σ)
    (h : serializeTo dst s cs = (s', none)) :
    s' = issueAll dst s cs ∧ ∀ pre c post, cs = pre ++ c :: post → (dst (issueAll dst s pre) c).2 = none :=
  serializeTo_ok dst cs s s' h

/-- a call rejected: exactly the calls in front of the first rejected one were accepted, the reported error is that call's error and the
    destination is left as that call left it -/
theorem serialize_prefix_on_error {σ : Type} (dst : σ → Call → σ × Option String) (cs : List Call) (s s' : σ) (e : String)
    (h : serializeTo dst s cs = (s', some e)) :
    ∃ pre c post, cs = pre ++ c :: post ∧
      (∀ p q r, pre = p ++ q :: r → (dst (issueAll dst s p) q).2 = none) ∧
      dst (issueAll dst s pre) c = (s', some e) :=
  serializeTo_err dst cs s s' e h

-- non-vacuity: a destination that counts calls and rejects alignment 3
example : serializeTo (fun (n : Nat) c => if c = .align 0 3 then (n, some "InvalidArgument") else (n + 1, none)) 0
    [.bind 0, .align 0 3, .bind 1] = (1, some "InvalidArgument") := by decide

/-! ## The node list refines the gap buffer -/

/-- the list after `on_attach` satisfies the representation invariant -/
theorem init_inv (r : Nat) : Inv (Builder.St.init r).l := by
  refine ⟨by simp [Builder.St.init], ?_, ?_⟩
  · intro c hc; simp [Builder.St.init] at hc ⊢; exact hc.symm
  · intro _ s hs _
    simp [Builder.St.init] at hs
    subst hs
    simp [Builder.St.init, lookupNext, succIn, MList.isSec]

theorem init_abs (r : Nat) : (Builder.St.init r).l.abs = (Spec.St.init r).d := by
  simp [Builder.St.init, Spec.St.init, MList.abs, absCursor]

/-- actions covered by the proof so far -/
def Covered : Act → Prop
  | .section _ => False
  | _ => True

theorem refine_step (m : MList) (a : Act) (hc : Covered a) (h : Inv m) :
    Inv (m.apply a) ∧ (m.apply a).abs = m.abs.apply a := by
  cases a with
  | add n => exact refine_add m n h
  | addAfter n r => exact refine_addAfter m n r h
  | addBefore n r => exact refine_addBefore m n r h
  | remove n => exact refine_remove m n h
  | removeRange a b => exact refine_removeRange m a b h
  | setCursor c => exact refine_setCursor m c h
  | regSection n => exact refine_regSection m n h
  | «section» n => exact absurd hc (by simp [Covered])

/-- Refinement + invariant for every history of covered list actions, from any state satisfying the invariant (in particular from the
    attached Builder, `init_inv`): the model's list/cursor/cache state abstracts to exactly the document the specification computes. -/
theorem refines_partial : ∀ (acts : List Act) (m : MList), (∀ a ∈ acts, Covered a) → Inv m →
    Inv (acts.foldl MList.apply m) ∧ (acts.foldl MList.apply m).abs = acts.foldl Doc.apply m.abs := by
  intro acts
  induction acts with
  | nil => intro m _ h; exact ⟨h, rfl⟩
  | cons a rest ih =>
    intro m hc h
    have hstep := refine_step m a (hc a (by simp)) h
    have := ih (m.apply a) (fun x hx => hc x (by simp [hx])) hstep.1
    simpa [List.foldl_cons, hstep.2] using this

/-- consequence: what `serialize_to` walks (the model's list) is the specification's item sequence, after any covered history -/
theorem serialized_list_is_document (acts : List Act) (r : Nat) (hc : ∀ a ∈ acts, Covered a) :
    (acts.foldl MList.apply (Builder.St.init r).l).list = (acts.foldl Doc.apply (Spec.St.init r).d).items := by
  have := (refines_partial acts (Builder.St.init r).l hc (init_inv r)).2
  rw [init_abs] at this
  exact congrArg Doc.items this

-- non-vacuity: a history with insertion at the cursor, a move (remove + add_before), a cursor change and a removal of the cursor node
def sampleActs : List Act :=
  [.add 1, .add 2, .add 3, .remove 2, .addBefore 2 1, .setCursor (some 2), .add 4, .remove 4, .setCursor none, .add 5]

example : ∀ a ∈ sampleActs, Covered a := by
  intro a ha
  simp [sampleActs] at ha
  rcases ha with rfl | rfl | rfl | rfl | rfl | rfl | rfl | rfl | rfl | rfl <;> simp [Covered]
example : (sampleActs.foldl MList.apply (Builder.St.init 8).l).list = [5, 0, 2, 1, 3] := by decide
example : (sampleActs.foldl MList.apply (Builder.St.init 8).l).cursor = some 5 := by decide
example : (sampleActs.foldl Doc.apply (Spec.St.init 8).d).items = [5, 0, 2, 1, 3] := by decide
example : (sampleActs.foldl Doc.apply (Spec.St.init 8).d).gap = 1 := by decide

-- the two uncovered actions agree with the specification on a concrete history (section re-entry through the cached links, range removal)
def sampleActs2 : List Act :=
  [.add 1, .regSection 2, .section 2, .add 3, .section 0, .add 4, .section 2, .add 5, .removeRange 1 2, .section 2]

example : (sampleActs2.foldl MList.apply (Builder.St.init 8).l).abs.items = (sampleActs2.foldl Doc.apply (Spec.St.init 8).d).items := by decide
example : (sampleActs2.foldl MList.apply (Builder.St.init 8).l).abs.gap = (sampleActs2.foldl Doc.apply (Spec.St.init 8).d).gap := by decide
example : (sampleActs2.foldl MList.apply (Builder.St.init 8).l).list = [0, 3, 5, 2] := by decide

end AsmjitVerif.Props.C08
