/-
  C08 – Builder/Compiler serialization is byte-identical to direct assembling.

  What is proved here (for ALL inputs / histories, no bound):
  * `replay_store`, `replay_canonical`, `inst_node_replays_call` – an instruction captured by `BaseBuilder::_emit` (0..6 operands, any
    option word, extra register, inline comment) is replayed by `serialize_to` as exactly the call that was made; operands behind
    `op_count` (which `_emit` drops) are the only thing normalised away.
  * `serialize_all_on_success`, `serialize_prefix_on_error` – `serialize_to` against ANY destination emitter: without a rejection every
    call is issued in order; otherwise exactly the calls up to and including the first rejected one are issued, the error is that
    call's error and the destination is in the state it had at that call ("same errors" of the property).
  * `init_inv`, `refines`, `edit_semantics`, `reachable_inv` – the node list of the model (cursor *node*, recursive list surgery, cached
    `_next_section` links with a dirty flag, `update_section_links`) refines the gap-buffer document of Spec/Builder.lean for every
    history of add_node / add_after / add_before / remove_node / remove_nodes / set_cursor / section; the representation invariant
    (no node twice, cursor linked, link cache coherent unless flagged dirty) holds in every reachable state; hence for every sequence
    of emitter calls and node-list edits `serialize` of the Builder model = the specification's linearisation of the edited document
    ("editing the node list yields the code of the edited sequence").

  * `finalize_semantics`, `finalize_appends_pool`, `finalize_keeps_cursor` – a Compiler's finalize = passes + serialize_to: the pending
    global constant pool is linked behind the LAST node whatever the cursor is (GlobalConstPoolPass), so finalize issues the calls of the
    node list followed by one embed_const_pool; `edit_semantics_c` is `edit_semantics` for both emitter kinds.
  * `serialize_replays_partial` – an edit-free sequence of unconditionally accepted calls (instructions with options / extra register /
    comment, align, comment, raw embed) is serialised as `section 0` followed by exactly that sequence.

  * `serialize_replays` – every edit-free program without section re-entry (labels, bind incl. refused double binds, typed data,
    label addresses / deltas, new sections) is serialised as `section 0 ::` the calls an Assembler accepts for the same operations.
  * `serialize_groups`, `sections_equal_of_local` – with section re-entry every section receives exactly its projection of the directly
    issued call sequence; any per-section-local assembler abstraction gives equal results.

  Not proved (differential on every run): the byte equality Builder vs Assembler itself, which rests on the assembler (C01–C03).
-/
import AsmjitVerif.Lemmas.C08Ops
import AsmjitVerif.Lemmas.C08Sim
import AsmjitVerif.Lemmas.C08Replay
import AsmjitVerif.Lemmas.C08Replay2
import AsmjitVerif.Lemmas.C08Groups
import AsmjitVerif.Lemmas.C08Cpool
import AsmjitVerif.Lemmas.C08Passes
import AsmjitVerif.Lemmas.C08Local

namespace AsmjitVerif.Props.C08
open AsmjitVerif.Builder
open AsmjitVerif.Builder.Spec (Doc)

/-! ## Instruction capture and replay -/

/-- capture (`_emit`: op_count, set_op, reset_op_range) followed by replay (`serialize_to`: operand array reconstruction) keeps slot `i`
    iff `i < op_count` – for all six operands, whatever they are -/
theorem replay_store (a b c d e f : Operand) :
    replayOps (opCountFromArgs [a, b, c, d, e, f]) (storeOps [a, b, c, d, e, f]) = normalizeOps [a, b, c, d, e, f] :=
  replay_store_eq a b c d e f

/-- … and nothing at all is lost when the operand list has no hole in front of its 4th..6th operand -/
theorem replay_canonical (a b c d e f : Operand) (h : CanonicalOps a b c d e f) :
    replayOps (opCountFromArgs [a, b, c, d, e, f]) (storeOps [a, b, c, d, e, f]) = [a, b, c, d, e, f] := by
  rw [replay_store_eq, normalize_canonical a b c d e f h]

example : CanonicalOps "r1" "r2" "-" "-" "-" "-" := by simp [CanonicalOps, Operand.isNone]
example : replayOps (opCountFromArgs ["x", "y", "z", "u", "v", "w"]) (storeOps ["x", "y", "z", "u", "v", "w"]) = ["x", "y", "z", "u", "v", "w"] := by decide
-- a hole is normalised: the 5th operand behind a none 4th operand is dropped by `_emit` (the assembler ignores it as well)
example : replayOps (opCountFromArgs ["x", "-", "-", "-", "v", "-"]) (storeOps ["x", "-", "-", "-", "v", "-"]) = ["x", "-", "-", "-", "-", "-"] := by decide

/-- the node `_emit` creates replays as the call that was made: same id, the option word of that moment (reserved bit cleared), the extra
    register and inline comment of that moment, the normalised operands; the one-shot state is reset; the node is appended at the cursor -/
theorem inst_node_replays_call (fr : Front) (active : Nat → Bool) (id : Nat) (a b c d e f : Operand) :
    let r := front fr active (.inst id [a, b, c, d, e, f])
    r.2.1 = .ok ∧ r.2.2 = [.add fr.nodes.length] ∧
    (nodeAt r.1 fr.nodes.length).toCall = .inst id (clearReserved fr.opts) fr.extra fr.cmt (normalizeOps [a, b, c, d, e, f]) ∧
    r.1.opts = 0 ∧ r.1.extra = "-" ∧ r.1.cmt = "-" ∧
    (∀ n, n < fr.nodes.length → nodeAt r.1 n = nodeAt fr n) := by
  refine ⟨rfl, rfl, ?_, rfl, rfl, rfl, ?_⟩
  · simp [front, Front.newNode, nodeAt, Node.toCall, replay_store_eq]
  · intro n hn
    simp [front, Front.newNode, nodeAt, List.getD_eq_getElem?_getD, List.getElem?_append_left hn]

/-! ## serialize_to against an arbitrary destination -/

/-- no call rejected: every call has been issued, in order -/
theorem serialize_all_on_success {σ : Type} (dst : σ → Call → σ × Option String) (cs : List Call) (s s' : σ)
    (h : serializeTo dst s cs = (s', none)) :
    s' = issueAll dst s cs ∧ ∀ pre c post, cs = pre ++ c :: post → (dst (issueAll dst s pre) c).2 = none :=
  serializeTo_ok dst cs s s' h

/-- a call rejected: exactly the calls in front of the first rejected one were accepted, the reported error is that call's error and the
    destination is left as that call left it -/
theorem serialize_prefix_on_error {σ : Type} (dst : σ → Call → σ × Option String) (cs : List Call) (s s' : σ) (e : String)
    (h : serializeTo dst s cs = (s', some e)) :
    ∃ pre c post, cs = pre ++ c :: post ∧
      (∀ p q r, pre = p ++ q :: r → (dst (issueAll dst s p) q).2 = none) ∧
      dst (issueAll dst s pre) c = (s', some e) :=
  serializeTo_err dst cs s s' e h

-- non-vacuity: a destination that counts calls and rejects alignment 3
example : serializeTo (fun (n : Nat) c => if c = .align 0 3 then (n, some "InvalidArgument") else (n + 1, none)) 0
    [.bind 0, .align 0 3, .bind 1] = (1, some "InvalidArgument") := by decide

/-! ## The node list refines the gap buffer -/

/-- the list after `on_attach` satisfies the representation invariant -/
theorem init_inv (r : Nat) : Inv (Builder.St.init r).l := by
  refine ⟨by simp [Builder.St.init], ?_, ?_⟩
  · intro c hc; simp [Builder.St.init] at hc ⊢; exact hc.symm
  · intro _ s hs _
    simp [Builder.St.init] at hs
    subst hs
    simp [Builder.St.init, lookupNext, succIn, MList.isSec]

theorem init_abs (r : Nat) : (Builder.St.init r).l.abs = (Spec.St.init r).d := by
  simp [Builder.St.init, Spec.St.init, MList.abs, absCursor]

/-- Refinement + invariant for EVERY history of list actions (add_node, add_after, add_before, remove_node, remove_nodes, set_cursor,
    section-node creation, section), from any state satisfying the invariant (in particular from the attached Builder, `init_inv`): the
    model's list / cursor node / link cache abstracts to exactly the document the gap-buffer specification computes. -/
theorem refines (acts : List Act) (m : MList) (h : Inv m) :
    Inv (acts.foldl MList.apply m) ∧ (acts.foldl MList.apply m).abs = acts.foldl Doc.apply m.abs :=
  refine_acts acts m h

/-- the attached Builder and the initial document are related -/
theorem init_sim (r : Nat) : Sim (Builder.St.init r) (Spec.St.init r) :=
  ⟨rfl, init_abs r, init_inv r⟩

/-- every reachable Builder state (any sequence of emitter calls and edits after attach) satisfies the representation invariant:
    no node linked twice, the cursor is a linked node, and unless `_dirty_section_links` is set every linked SectionNode's cached
    `_next_section` is the next linked SectionNode -/
theorem reachable_inv (ops : List Op) (r : Nat) : Inv (run (Builder.St.init r) ops).l :=
  (sim_run ops _ _ (init_sim r)).inv

/-- "Editing the node list yields the code of the edited sequence": for every sequence of emitter calls, cursor moves, removals,
    range removals, re-insertions and section switches, what `serialize_to` issues (model) is the linearisation of the specification's
    document, call for call (payloads included: both sides read the same node store). -/
theorem edit_semantics (ops : List Op) (r : Nat) :
    serialize (run (Builder.St.init r) ops) = Spec.linearize (Spec.run (Spec.St.init r) ops) := by
  have h := sim_run ops _ _ (init_sim r)
  have hl : (run (Builder.St.init r) ops).l.list = (Spec.run (Spec.St.init r) ops).d.items := congrArg Doc.items h.doc
  simp [serialize, Spec.linearize, hl, h.front]

/-- … and the cursor designates the item in front of the specification's gap -/
theorem edit_cursor (ops : List Op) (r : Nat) :
    absCursor (run (Builder.St.init r) ops).l.list (run (Builder.St.init r) ops).l.cursor = (Spec.run (Spec.St.init r) ops).d.gap :=
  congrArg Doc.gap (sim_run ops _ _ (init_sim r)).doc

-- non-vacuity: a history with insertion at the cursor, a move (remove + add_before), a cursor change and a removal of the cursor node
def sampleActs : List Act :=
  [.add 1, .add 2, .add 3, .remove 2, .addBefore 2 1, .setCursor (some 2), .add 4, .remove 4, .setCursor none, .add 5]

example : (sampleActs.foldl MList.apply (Builder.St.init 8).l).list = [5, 0, 2, 1, 3] := by decide
example : (sampleActs.foldl MList.apply (Builder.St.init 8).l).cursor = some 5 := by decide
example : (sampleActs.foldl Doc.apply (Spec.St.init 8).d).items = [5, 0, 2, 1, 3] := by decide
example : (sampleActs.foldl Doc.apply (Spec.St.init 8).d).gap = 1 := by decide

-- section re-entry through the cached links and a range removal, concretely
def sampleActs2 : List Act :=
  [.add 1, .regSection 2, .section 2, .add 3, .section 0, .add 4, .section 2, .add 5, .removeRange 1 2, .section 2]

example : (sampleActs2.foldl MList.apply (Builder.St.init 8).l).abs.items = (sampleActs2.foldl Doc.apply (Spec.St.init 8).d).items := by decide
example : (sampleActs2.foldl MList.apply (Builder.St.init 8).l).abs.gap = (sampleActs2.foldl Doc.apply (Spec.St.init 8).d).gap := by decide
example : (sampleActs2.foldl MList.apply (Builder.St.init 8).l).list = [0, 3, 5, 2] := by decide

/-! ## finalize of a Compiler: passes, then serialize_to -/

/-- `edit_semantics` for Builder and Compiler alike (the emitter kind only decides whether `_new_const` exists) -/
theorem edit_semantics_c (ops : List Op) (r : Nat) (c : Bool) :
    serialize (run (Builder.St.init r c) ops) = Spec.linearize (Spec.run (Spec.St.init r c) ops) := by
  have h := sim_run ops _ _ (init_sim_c r c)
  have hl : (run (Builder.St.init r c) ops).l.list = (Spec.run (Spec.St.init r c) ops).d.items := congrArg Doc.items h.doc
  simp [serialize, Spec.linearize, hl, h.front]

/-- what `finalize()` hands to the assembler (run_passes with GlobalConstPoolPass = add_after(pool, last_node()), then serialize_to) is the
    specification's linearisation after its own pass step - for every history of emitter calls, global constants and node-list edits,
    including remove_nodes ranges that start on, contain or end on section nodes and any cursor position at finalize -/
theorem finalize_semantics (ops : List Op) (r : Nat) (c : Bool) :
    finalizeCalls (run (Builder.St.init r c) ops) = Spec.finalizeCalls (Spec.run (Spec.St.init r c) ops) := by
  have h := sim_passes _ _ (sim_run ops _ _ (init_sim_c r c))
  have hl := congrArg Doc.items h.doc
  simp only [MList.abs] at hl
  simp [finalizeCalls, Spec.finalizeCalls, serialize, Spec.linearize, hl, h.front]

/-- finalize = serialize(nodes ++ global pool at the end): when a global constant pool is pending (and has not been linked), the calls of
    finalize are the calls of the node list followed by ONE embed_const_pool of the pool - independent of where the cursor is -/
theorem finalize_appends_pool (ops : List Op) (r : Nat) (c : Bool) (n : Nat)
    (hg : (run (Builder.St.init r c) ops).f.gpool = some n) (hn : n ∉ (run (Builder.St.init r c) ops).l.list)
    (hne : (run (Builder.St.init r c) ops).l.list ≠ []) :
    finalizeCalls (run (Builder.St.init r c) ops) =
      serialize (run (Builder.St.init r c) ops) ++ [(nodeAt (run (Builder.St.init r c) ops).f n).toCall] := by
  have hsim := sim_run ops _ _ (init_sim_c r c)
  have hl : (run (Builder.St.init r c) ops).l.list = (Spec.run (Spec.St.init r c) ops).d.items := congrArg Doc.items hsim.doc
  have hwf := spec_wf _ _ hsim
  have hp := pool_goes_last (Spec.run (Spec.St.init r c) ops) n hwf.1 hwf.2 (by rw [← hsim.front]; exact hg) (by rw [← hl]; exact hn)
    (by rw [← hl]; exact hne)
  rw [finalize_semantics, edit_semantics_c]
  simp only [Spec.finalizeCalls, Spec.linearize, hp.1, List.map_append, List.map_cons, List.map_nil, nodeAt, hp.2.2.1, hsim.front]

/-- … and the cursor (gap) is where it was -/
theorem finalize_keeps_cursor (ops : List Op) (r : Nat) (c : Bool) (n : Nat)
    (hg : (Spec.run (Spec.St.init r c) ops).f.gpool = some n) (hn : n ∉ (Spec.run (Spec.St.init r c) ops).d.items)
    (hne : (Spec.run (Spec.St.init r c) ops).d.items ≠ []) :
    (Spec.runPasses (Spec.run (Spec.St.init r c) ops)).d.gap = (Spec.run (Spec.St.init r c) ops).d.gap := by
  have hwf := spec_wf _ _ (sim_run ops _ _ (init_sim_c r c))
  exact (pool_goes_last _ n hwf.1 hwf.2 hg hn hne).2.1

-- non-vacuity (family 2): a Compiler, two global constants (one repeated), the cursor moved back before finalize
def samplePool : List Op :=
  [.inst 1 ["a", "-", "-", "-", "-", "-"], .gconst 8 "1122334455667788", .inst 2 ["b", "-", "-", "-", "-", "-"],
   .gconst 8 "0102030405060708", .gconst 8 "1122334455667788", .cursor (some 1), .inst 3 ["c", "-", "-", "-", "-", "-"]]

example : finalizeCalls (run (Builder.St.init 8 true) samplePool) =
    [.section 0, .inst 1 0 "-" "-" ["a", "-", "-", "-", "-", "-"], .inst 3 0 "-" "-" ["c", "-", "-", "-", "-", "-"],
     .inst 2 0 "-" "-" ["b", "-", "-", "-", "-", "-"], .cpoolnode 0 8 "11223344556677880102030405060708"] := by decide
example : (run (Builder.St.init 8 true) samplePool).f.gpool = some 2 ∧ 2 ∉ (run (Builder.St.init 8 true) samplePool).l.list := by decide
-- a Builder has no global pool: the line is outside its interface
example : (step (Builder.St.init 8 false) (.gconst 8 "1122334455667788")).2 = .pre := by decide

-- non-vacuity (family 1): remove_nodes whose range ENDS on a section node after the links were cached; then the section in front of it
-- is re-entered: the links are recomputed (dirty flag), the new code lands at the end of that section's region, not at the front
def sampleRangeEnd : List Op :=
  [.newsection, .newsection, .embed "01", .section 1, .embed "02", .section 2, .embed "03", .section 0, .embed "04",
   .removerange 3 4, .section 1, .embed "05"]

example : (run (Builder.St.init 8) (sampleRangeEnd.take 10)).l.dirty = true := by decide
example : serialize (run (Builder.St.init 8) sampleRangeEnd) =
    [.section 0, .data 35 1 1 "01", .data 35 1 1 "04", .section 1, .data 35 1 1 "03", .data 35 1 1 "05"] := by decide

/-! ## An edit-free program replays as itself -/

/- Full-strength target (not proved): for every edit-free call sequence `cs` without section switches whose calls the Builder accepts at
   call time, `serialize (build cs) = section 0 :: cs` (and under section re-entry `project s (serialize (build cs)) = project s cs`).
   Proved below for the class of calls the Builder accepts unconditionally (`Simple`: instruction with six operand slots, the three one-shot
   setters, align, comment, raw embed); label / section / typed-data calls, whose acceptance depends on the state, are covered by the
   verbatim differential of every run only. `callsOf` is written independently of the Builder: it is what an Assembler is handed. -/
theorem serialize_replays_partial (ops : List Op) (r : Nat) (h : ∀ op ∈ ops, Simple op) :
    serialize (run (Builder.St.init r) ops) = .section 0 :: callsOf {} ops := by
  rw [edit_semantics]
  have hend : AtEnd (Spec.St.init r) := ⟨by simp [Spec.St.init], by intro n hn; simp [Spec.St.init] at hn ⊢; omega⟩
  rw [simple_run ops _ h hend]
  simp [Spec.linearize, Spec.St.init, nodeAt, Node.toCall, oneShotOf]

example : ∀ op ∈ [Op.opts 0x4001, .extra "k1", .inst 789 ["a", "b", "c", "d", "-", "-"], .align 0 16, .inst 1 ["-", "-", "-", "-", "-", "-"]],
    Simple op := by
  intro op hop
  simp at hop
  rcases hop with rfl | rfl | rfl | rfl | rfl <;> simp [Simple]
example : callsOf {} [Op.opts 0x4001, .extra "k1", .inst 789 ["a", "b", "c", "d", "-", "-"], .align 0 16, .inst 1 ["-", "-", "-", "-", "-", "-"]] =
    [.inst 789 0x4000 "k1" "-" ["a", "b", "c", "d", "-", "-"], .align 0 16, .inst 1 0 "-" "-" ["-", "-", "-", "-", "-", "-"]] := by decide

/-! ## serialize_replays and serialize_groups for label, section and typed-data calls -/

/-- `serialize_replays`: an edit-free program (instructions, labels, bind, align, raw and typed data, label addresses and deltas, comments,
    section switches that never go back to a section entered before) is serialised as `section 0` followed by exactly the calls an
    Assembler accepts when the same operations are issued to it directly (`Spec.arun`, Spec/BuilderCalls.lean: written from the
    Assembler's call-time rules, no nodes, no lists).  `AdmAll` = no node-list editing, no section re-entry (embed_const_pool included: it is align + bind + data, or nothing when
    refused). -/
theorem serialize_replays (ops : List Op) (r : Nat) (h : AdmAll { regSize := r } ops) :
    serialize (run (Builder.St.init r) ops) = .section 0 :: (Spec.arun { regSize := r } ops).out := by
  rw [edit_semantics]
  exact (J_run ops _ _ (J_init r) h).lin

/-- `serialize_groups`: with section re-entry the Builder regroups its nodes by section, but every section still receives exactly the
    calls that were issued while it was current, in order: the per-section projection of what `serialize_to` issues equals the
    per-section projection of the directly issued call sequence - for EVERY sequence of emitter calls (embed_const_pool included). -/
theorem serialize_groups (ops : List Op) (r : Nat) (h : CallsOnly ops) (s : Nat) :
    Spec.project s 0 (serialize (run (Builder.St.init r) ops)) =
      Spec.project s 0 (.section 0 :: (Spec.arun { regSize := r } ops).out) := by
  rw [edit_semantics]
  obtain ⟨z, g⟩ := G_run ops _ _ _ (G_init r) h
  exact G_project _ _ z g s

/-- consequence for any assembler abstraction whose result for a section depends only on that section's projection of the call sequence
    (explicit hypothesis `hloc`; it holds for buffers of label-reference-free code and for label offsets, it does NOT hold for relocation
    records of cross-section `embed_label_delta`, see notes/C08.md): Builder and direct assembling agree section by section. -/
theorem sections_equal_of_local {β : Type} (asm : List Call → Nat → β)
    (hloc : ∀ s cs cs', Spec.project s 0 cs = Spec.project s 0 cs' → asm cs s = asm cs' s)
    (ops : List Op) (r : Nat) (h : CallsOnly ops) (s : Nat) :
    asm (serialize (run (Builder.St.init r) ops)) s = asm (.section 0 :: (Spec.arun { regSize := r } ops).out) s :=
  hloc s _ _ (serialize_groups ops r h s)

/-! ### the locality hypothesis against the CodeHolder model (Model/CodeHolder.lean, Model/Prog.lean of C03/C04)

  Full-strength target: for every call sequence the final sections, label positions and relocation records of the CodeHolder model
  depend only on the per-section projections.  That is FALSE for relocation-carrying calls (open finding C08-K2, `label_delta_witness`);
  it is proved for label-reference-free code (`codeholder_data_local`). -/

/-- discharged: section / embed / zero-align sequences - every section buffer of the CodeHolder model is determined by that section's own
    projection of the sequence, however the sections were interleaved -/
theorem codeholder_data_local (ops ops' : List CodeHolder.Op) (st : CodeHolder.State) (i : Nat)
    (hd : ∀ op ∈ ops, CodeHolder.DataOp op = true) (hd' : ∀ op ∈ ops', CodeHolder.DataOp op = true)
    (hc : st.cur < st.secs.length) (ha : st.addrTabSec = none)
    (hp : CodeHolder.projOps i st.secs.length st.cur ops = CodeHolder.projOps i st.secs.length st.cur ops') :
    CodeHolder.bufOf (CodeHolder.run st ops) i = CodeHolder.bufOf (CodeHolder.run st ops') i :=
  CodeHolder.data_sections_equal ops ops' st i hd hd' hc ha hp

/-- refuted at the witness of finding C08-K2: the same calls interleaved as issued (A) and grouped by section as the Builder serialises
    them (B) have the same per-section projections but leave different bytes (and 1 vs 0 relocation records) in section 1 -/
theorem label_delta_witness :
    CodeHolder.bufOf (CodeHolder.run (CodeHolder.State.init .x64 CodeHolder.noBase) CodeHolder.deltaProgA) 1 ≠
    CodeHolder.bufOf (CodeHolder.run (CodeHolder.State.init .x64 CodeHolder.noBase) CodeHolder.deltaProgB) 1 ∧
    (CodeHolder.run (CodeHolder.State.init .x64 CodeHolder.noBase) CodeHolder.deltaProgA).relocs.length = 1 ∧
    (CodeHolder.run (CodeHolder.State.init .x64 CodeHolder.noBase) CodeHolder.deltaProgB).relocs.length = 0 := by
  decide

example : ∀ i, CodeHolder.projOps i 2 0 (CodeHolder.deltaProgA.drop 3) = CodeHolder.projOps i 2 0 (CodeHolder.deltaProgB.drop 3) := by
  intro i
  match i with
  | 0 => rfl
  | 1 => rfl
  | n + 2 => simp [CodeHolder.deltaProgA, CodeHolder.deltaProgB, CodeHolder.projOps]

-- non-vacuity: labels, typed data, a new section, then re-entry into section 0
def sampleCalls : List Op :=
  [.newlabel, .newsection, .bind 0, .data 38 2 1 "0102030405060708", .elabel 0 8, .section 1, .embed "aa", .bind 0, .section 0, .align 0 4]

-- embed_const_pool: accepted (align + bind + data) and refused (label already bound: nothing at all)
example : serialize (run (Builder.St.init 8) [.newlabel, .cpool 0 4 "0102030405060708", .cpool 0 4 "01020304"]) =
    [.section 0, .align 1 4, .bind 0, .data 35 8 1 "0102030405060708"] := by decide
example : (Spec.arun { regSize := 8 } [.newlabel, .cpool 0 4 "0102030405060708", .cpool 0 4 "01020304"]).out =
    [.align 1 4, .bind 0, .data 35 8 1 "0102030405060708"] := by decide
example : AdmAll { regSize := 8 } [.newlabel, .cpool 0 4 "0102030405060708", .cpool 0 4 "01020304"] := by
  simp [AdmAll, Adm, Adm0, Spec.isEdit]

example : CallsOnly sampleCalls := by
  intro op hop
  simp [sampleCalls] at hop
  rcases hop with rfl | rfl | rfl | rfl | rfl | rfl | rfl | rfl | rfl | rfl <;> simp [Spec.isEdit]
example : (Spec.arun { regSize := 8 } sampleCalls).out =
    [.bind 0, .data 38 2 1 "0102030405060708", .elabel 0 8, .section 1, .data 35 1 1 "aa", .section 0, .align 0 4] := by decide
example : serialize (run (Builder.St.init 8) sampleCalls) =
    [.section 0, .bind 0, .data 38 2 1 "0102030405060708", .elabel 0 8, .align 0 4, .section 1, .data 35 1 1 "aa"] := by decide
example : AdmAll { regSize := 8 } (sampleCalls.take 8) := by
  simp [sampleCalls, AdmAll, Adm, Adm0, Spec.astep, Spec.isEdit, Spec.ASt.emit, typeModelled, typeSize, sizeOk]

-- an operation-level history: two sections, re-entry, an instruction with options/extra register/comment, a move, a range removal
def sampleOps : List Op :=
  [.newlabel, .newsection, .opts 0x4001, .extra "k1", .icomment "c1", .inst 789 ["z1", "z2", "z3", "-", "-", "-"], .bind 0,
   .section 1, .embed "0102", .section 0, .align 0 16, .remove 2, .addbefore 2 1, .cursor (some 3), .comment "x",
   .removerange 6 4, .section 1, .elabel 0 8]

example : serialize (run (Builder.St.init 8) sampleOps) =
    [.section 0, .inst 789 0x4000 "k1" "c1" ["z1", "z2", "z3", "-", "-", "-"], .bind 0, .align 0 16, .section 1, .elabel 0 8] := by
  decide

end AsmjitVerif.Props.C08
