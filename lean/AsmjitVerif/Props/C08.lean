import AsmjitVerif.Model.Builder
import AsmjitVerif.Spec.Builder
namespace AsmjitVerif.Props.C08
open AsmjitVerif.Builder

theorem placeholder_init : serialize (St.init 8) = [.section 0] := by decide

end AsmjitVerif.Props.C08
