/-
C01 property theorems: classes X86Push / X86Pop with a general-purpose register - the short forms `50+r` / `58+r` (`EmitX86OpReg`: register
number in the low 3 bits of the opcode byte, bit 3 in REX.B, 66 prefix for the 16-bit forms). ALL registers 0..15.
-/
import AsmjitVerif.Props.C01RowsArith
set_option linter.constructorNameAsVariable false
set_option linter.unusedSimpArgs false
set_option linter.unusedVariables false
set_option maxRecDepth 100000
namespace AsmjitVerif.Props.C01
open Spec.X86 Model.X86 AsmjitVerif.Lemmas.X86Parse AsmjitVerif.Gen.X86ClassRows

/-- the REX byte `EmitX86OpReg` writes (REX.B = register bit 3, REX.W from the opcode word), as an optional byte -/
def rexOfB (opcode r : BitVec 32) : Option (BitVec 8) :=
  let rex := extractRex opcode 0#32 ||| (r >>> 3)
  if (rex &&& 0x7F#32) != 0#32 then some ((rex &&& 0x7F#32 ||| 0x40#32).truncate 8) else none

theorem emitX86OpReg_bytes (opcode r : BitVec 32) (hopc : opcode &&& 0xF7801C07#32 = 0#32) (hr : r < 16#32) :
    emitX86OpReg opcode 0#32 r 0 0 =
      .ok (ppBytes ((opcode >>> 21) &&& 3#32).toNat ++ (rexOfB opcode r).toList ++ legacyEscape ((opcode >>> 8) &&& 3#32).toNat ++
           [(opcode + (r &&& 7#32)).truncate 8]) := by
  have hrex : ¬ (extractRex opcode 0#32 ||| (r >>> 3)) > 0x80#32 := by simp only [extractRex]; bv_decide
  have e1 : ((opcode + (r &&& 7#32)) >>> 21) &&& 3#32 = (opcode >>> 21) &&& 3#32 := by bv_decide
  have e2 : ((opcode + (r &&& 7#32)) >>> 8) &&& 3#32 = (opcode >>> 8) &&& 3#32 := by bv_decide
  simp only [emitX86OpReg, emitRex, hrex, ↓reduceIte, bind, Except.bind, pure, Except.pure,
    emitPP_eq (opcode + (r &&& 7#32)) (by bv_decide), emitMM_eq (opcode + (r &&& 7#32)) (by bv_decide), rexOfB, e1, e2, emitImmediate]
  split <;> simp

/-- the bytes of `EmitX86OpReg` satisfy the monitor for a form with the register in the opcode byte -/
theorem opReg_formOk (ctx : Spec.X86.Ctx) (rule : Rule) (opcode r : BitVec 32) (k : RegKind) (f0 : FormOp)
    (hm64 : ctx.mode64 = true) (hmode : (rule.modes &&& 2 != 0) = true) (hopc : opcode &&& 0xF7801C07#32 = 0#32) (hr : r < 16#32)
    (hs : rule.space = 0) (hpp8 : rule.pp &&& 8 = 0)
    (h66 : (rule.pp &&& 1 != 0 || rule.osz == 16) = (((opcode >>> 21) &&& 3#32).toNat == 1))
    (hF3 : (rule.pp &&& 2 != 0) = (((opcode >>> 21) &&& 3#32).toNat == 2)) (hF2 : (rule.pp &&& 4 != 0) = (((opcode >>> 21) &&& 3#32).toNat == 3))
    (hri : rule.ri = true) (ha67 : rule.a67 = false) (hmk : rule.modKind = 0)
    (himm : rule.immBytes = 0) (hrel : rule.relBytes = 0) (hmoff : rule.moff = false)
    (hop : rule.opcode = (opcode &&& 0xFF#32).toNat) (hmap : rule.map = ((opcode >>> 8) &&& 3#32).toNat)
    (hw : wWant rule = 2 ∨ wWant rule = ((opcode >>> 27) &&& 1#32).toNat)
    (hsafe : (opcode >>> 8) &&& 3#32 = 0#32 → ∀ r7 : BitVec 32, r7 < 8#32 →
      isLegacyPrefix ((opcode + r7).truncate 8) false = false ∧ ((opcode + r7).truncate 8 : BitVec 8) >>> 4 ≠ 4#8)
    (hk : PlainKind k) (hf0 : f0.role = .opc)
    (hal : alignOps rule.oszEff rule.ops [.reg k r.toNat] = some [(f0, some (.reg k r.toNat))]) :
    ∃ bytes, emitX86OpReg opcode 0#32 r 0 0 = .ok bytes ∧ formOk ctx rule [.reg k r.toNat] {} bytes = true := by
  refine ⟨_, emitX86OpReg_bytes opcode r hopc hr, ?_⟩
  have hpplt : ((opcode >>> 21) &&& 3#32).toNat < 4 := by
    have : (opcode >>> 21) &&& 3#32 < 4#32 := by bv_decide
    simpa [BitVec.lt_def] using this
  have hmaplt : rule.map < 4 := by
    rw [hmap]
    have : (opcode >>> 8) &&& 3#32 < 4#32 := by bv_decide
    simpa [BitVec.lt_def] using this
  have hrexv : ∀ b, rexOfB opcode r = some b → b >>> 4 = 4#8 ∧ (b.getLsbD 3 = opcode.getLsbD 27) ∧ (b.getLsbD 0 = r.getLsbD 3) := by
    intro b hb'
    unfold rexOfB at hb'
    dsimp only at hb'
    split at hb'
    · injection hb' with hb'; subst hb'; simp only [extractRex] at *; refine ⟨?_, ?_, ?_⟩ <;> bv_decide
    · contradiction
  have hnone : rexOfB opcode r = none → opcode.getLsbD 27 = false ∧ r.getLsbD 3 = false := by
    intro hn
    unfold rexOfB at hn
    dsimp only at hn
    split at hn
    · contradiction
    · rename_i hz; simp only [extractRex] at hz; refine ⟨?_, ?_⟩ <;> bv_decide
  have hrexH : ∀ b, rexOfB opcode r = some b → b.toNat / 16 = 4 ∧ isLegacyPrefix b false = false := by
    intro b hb'
    obtain ⟨h4, -⟩ := hrexv b hb'
    refine ⟨toNat_div16_eq4 b h4, ?_⟩
    rw [Bool.eq_false_iff]
    intro hh
    simp only [isLegacyPrefix, Bool.or_eq_true, beq_iff_eq, Bool.false_and, Bool.or_false] at hh
    bv_decide
  have hoH : rule.map = 0 → isLegacyPrefix ((opcode + (r &&& 7#32)).truncate 8) false = false ∧
      (rexOfB opcode r = none → ((opcode + (r &&& 7#32)).truncate 8 : BitVec 8).toNat / 16 ≠ 4) := by
    intro hm0
    have hm0' : (opcode >>> 8) &&& 3#32 = 0#32 := by
      apply BitVec.eq_of_toNat_eq; rw [← hmap, hm0]; rfl
    obtain ⟨s1, s2⟩ := hsafe hm0' (r &&& 7#32) (by bv_decide)
    refine ⟨s1, fun _ h => s2 ?_⟩
    apply BitVec.eq_of_toNat_eq
    simpa [BitVec.toNat_ushiftRight, Nat.shiftRight_eq_div_pow] using h
  have hparse := parse_legacy_op rule _ (rexOfB opcode r) ((opcode + (r &&& 7#32)).truncate 8) hpplt hs hpp8 hmaplt hmk hrexH hoH himm hrel hmoff
  rw [hmap] at hparse
  refine leg_opreg_formOk ctx rule _ _ _ k f0 _ (by simpa [hm64] using hmode) hs hpp8 h66 hF3 hF2 hpplt hri ha67 hk hf0 hal (by rw [hm64]; exact hparse)
    rfl rfl rfl ?_ ?_ ?_
  · show (((opcode + (r &&& 7#32)).truncate 8 : BitVec 8) &&& 0xF8#8).toNat = rule.opcode
    rw [hop]; exact toNat_eq_of_zext _ _ (by omega) (by bv_decide)
  · rcases hw with h | h
    · exact Or.inl h
    · right
      have hc : (opcode >>> 27) &&& 1#32 = 0#32 ∨ (opcode >>> 27) &&& 1#32 = 1#32 := by bv_decide
      simp only [rexBit]
      cases hr' : rexOfB opcode r with
      | none =>
        obtain ⟨w0, -⟩ := hnone hr'
        rcases hc with hc | hc
        · rw [h, hc]; simp
        · exfalso; bv_decide
      | some b =>
        obtain ⟨-, wb, -⟩ := hrexv b hr'
        simp only [bit]
        rcases hc with hc | hc
        · rw [h, hc, wb]; simp; bv_decide
        · rw [h, hc, wb]; simp; bv_decide
  · simp only [rexBit]
    cases hr' : rexOfB opcode r with
    | none =>
      obtain ⟨-, b0⟩ := hnone hr'
      exact regNum_eq _ _ _ r (by simp; bv_decide)
    | some b =>
      obtain ⟨-, -, bb⟩ := hrexv b hr'
      exact regNum_eq _ _ _ r (by simp only [bit, bb]; simp; bv_decide)

/-! ### table layer -/

/-- the opcode word the classes hand to `EmitX86OpReg`: the alternative opcode, with the 66 prefix for 16-bit registers -/
def finalOpPushPop (e : Entry) : BitVec 32 := e.altOp ||| (if kindSize (e.kinds.getD 0 .none) == 2 then kPP_66 else 0#32)

def entryOkOpReg (e : Entry) : Bool :=
  let r := e.rule
  let op := finalOpPushPop e
  let pp := ((op >>> 21) &&& 3#32).toNat
  match e.rule.ops, e.kinds with
  | [f0], [k0] =>
    (e.enc == 0x33 || e.enc == 0x35) && (r.modes &&& 2 != 0 && (r.space == 0 && (r.pp &&& 8 == 0 && (((r.pp &&& 1 != 0 || r.osz == 16) == (pp == 1)) &&
    (((r.pp &&& 2 != 0) == (pp == 2)) && (((r.pp &&& 4 != 0) == (pp == 3)) && (r.ri && (!r.a67 && (r.modKind == 0 && (r.immBytes == 0 && (r.relBytes == 0 &&
    (!r.moff && (op &&& 0xF7801C07#32 == 0#32 && (r.opcode == (op &&& 0xFF#32).toNat && (r.map == ((op >>> 8) &&& 3#32).toNat &&
    ((wWant r == 2 || wWant r == ((op >>> 27) &&& 1#32).toNat) &&
    (((op >>> 8) &&& 3#32 != 0#32 || [0#32, 1#32, 2#32, 3#32, 4#32, 5#32, 6#32, 7#32].all (fun r7 =>
        !isLegacyPrefix ((op + r7).truncate 8) false && ((op + r7).truncate 8 : BitVec 8) >>> 4 != 4#8)) &&
    (plainKind k0 && (kindSize k0 ≥ 2 && (f0.role == .opc && (noFix f0 && formOpMatches r.oszEff f0 (.reg k0 0))))))))))))))))))))))
  | _, _ => false

theorem opreg_entries_ok : lopregChunks.all (fun c => c.all entryOkOpReg) = true := by decide +kernel

theorem all8 (P : BitVec 32 → Bool) (h : [0#32, 1#32, 2#32, 3#32, 4#32, 5#32, 6#32, 7#32].all P = true) (r7 : BitVec 32) (hr : r7 < 8#32) : P r7 = true := by
  simp only [List.all_cons, List.all_nil, Bool.and_true, Bool.and_eq_true] at h
  obtain ⟨h0, h1, h2, h3, h4, h5, h6, h7⟩ := h
  have : r7 = 0#32 ∨ r7 = 1#32 ∨ r7 = 2#32 ∨ r7 = 3#32 ∨ r7 = 4#32 ∨ r7 = 5#32 ∨ r7 = 6#32 ∨ r7 = 7#32 := by bv_decide
  rcases this with h | h | h | h | h | h | h | h <;> subst h <;> assumption

/-- **front_cls_correct, classes X86Push / X86Pop, `push reg` / `pop reg`** (16-bit and 64-bit general-purpose registers, ALL numbers 0..15) -/
theorem front_cls_correct_pushpop_reg (e : Entry) (ch : List Entry) (hch : ch ∈ lopregChunks) (he : e ∈ ch)
    (ctx : Spec.X86.Ctx) (r : BitVec 32) (hm64 : ctx.mode64 = true) (hr : r < 16#32) :
    ∃ bytes k0, e.kinds = [k0] ∧ emitX86OpReg (finalOpPushPop e) 0#32 r 0 0 = .ok bytes ∧
      formOk ctx e.rule [.reg k0 r.toNat] {} bytes = true := by
  have hok := mem_chunks_ok opreg_entries_ok e ch hch he
  unfold entryOkOpReg at hok
  dsimp only at hok
  split at hok
  · rename_i f0 k0 hops hkinds
    simp only [Bool.and_eq_true, Bool.or_eq_true, beq_iff_eq, bne_iff_ne, ne_eq, Bool.not_eq_true', decide_eq_true_eq] at hok
    obtain ⟨-, hmodes, hs, hpp8, h66, hF3, hF2, hri, ha67, hmk, himm, hrel, hmoff, hmask, hop, hmap, hw, hsafe, pk, -, r0, n0, m0⟩ := hok
    have hal : alignOps e.rule.oszEff e.rule.ops [.reg k0 r.toNat] = some [(f0, some (.reg k0 r.toNat))] := by
      rw [hops]
      simp [alignOps, (by rw [formOpMatches_reg_nofix _ _ _ _ n0]; exact m0 : formOpMatches e.rule.oszEff f0 (.reg k0 r.toNat) = true)]
    obtain ⟨bytes, hb, hf⟩ := opReg_formOk ctx e.rule (finalOpPushPop e) r k0 f0 hm64 (by simpa using hmodes) hmask hr hs hpp8
      (by simpa using h66) (by simpa using hF3) (by simpa using hF2) hri ha67 hmk himm hrel hmoff hop hmap hw
      (by
        intro h0 r7 hr7
        rcases hsafe with h | h
        · exact absurd h0 h
        · have := all8 _ h r7 hr7
          simp only [Bool.and_eq_true, Bool.not_eq_true', bne_iff_ne, ne_eq] at this
          exact this)
      (plainKind_spec _ pk) r0 hal
    exact ⟨bytes, k0, hkinds, hb, hf⟩
  · simp at hok

/-- the class switch reaches exactly this emission -/
theorem dispatch_pushpop_reg (c : Model.X86.Ctx) (row : Row) (k0 : RegKind) (i0 : Nat) (henc : row.encoding = 0x33 ∨ row.encoding = 0x35)
    (hk : k0 = .gpw ∨ k0 = .gpq) :
    dispatch c row 0#32 (.reg (rtypeOf k0) i0) .none .none .none =
      emitX86OpReg (row.altOp ||| (if kindSize k0 == 2 then kPP_66 else 0#32)) 0#32 (r32 i0) 0 0 := by
  rcases henc with h | h <;> rcases hk with h' | h' <;> subst h' <;>
    simp [dispatch, h, sig3, Op.kind, Op.id, Op.rmSize, Op.isSReg, rtypeOf, kindSize]

/-! ### `mov reg, imm` (B8+r iw|id|iq): `EmitX86OpReg` with an immediate -/

theorem emitX86OpReg_bytesI (opcode r : BitVec 32) (imm : BitVec 64) (n : Nat) (hopc : opcode &&& 0xF7801C07#32 = 0#32) (hr : r < 16#32) :
    emitX86OpReg opcode 0#32 r imm n =
      .ok (ppBytes ((opcode >>> 21) &&& 3#32).toNat ++ (rexOfB opcode r).toList ++ legacyEscape ((opcode >>> 8) &&& 3#32).toNat ++
           (opcode + (r &&& 7#32)).truncate 8 :: emitImmediate imm n) := by
  have hrex : ¬ (extractRex opcode 0#32 ||| (r >>> 3)) > 0x80#32 := by simp only [extractRex]; bv_decide
  have e1 : ((opcode + (r &&& 7#32)) >>> 21) &&& 3#32 = (opcode >>> 21) &&& 3#32 := by bv_decide
  have e2 : ((opcode + (r &&& 7#32)) >>> 8) &&& 3#32 = (opcode >>> 8) &&& 3#32 := by bv_decide
  simp only [emitX86OpReg, emitRex, hrex, ↓reduceIte, bind, Except.bind, pure, Except.pure,
    emitPP_eq (opcode + (r &&& 7#32)) (by bv_decide), emitMM_eq (opcode + (r &&& 7#32)) (by bv_decide), rexOfB, e1, e2]
  split <;> simp

/-- `EmitX86OpReg` with an immediate: shape [register in the opcode byte, imm] -/
theorem opRegImm_formOk (ctx : Spec.X86.Ctx) (rule : Rule) (opcode r : BitVec 32) (k : RegKind) (f0 f3 : FormOp) (v imm1 : BitVec 64) (isz : Nat)
    (hm64 : ctx.mode64 = true) (hmode : (rule.modes &&& 2 != 0) = true) (hopc : opcode &&& 0xF7801C07#32 = 0#32) (hr : r < 16#32)
    (hs : rule.space = 0) (hpp8 : rule.pp &&& 8 = 0)
    (h66 : (rule.pp &&& 1 != 0 || rule.osz == 16) = (((opcode >>> 21) &&& 3#32).toNat == 1))
    (hF3 : (rule.pp &&& 2 != 0) = (((opcode >>> 21) &&& 3#32).toNat == 2)) (hF2 : (rule.pp &&& 4 != 0) = (((opcode >>> 21) &&& 3#32).toNat == 3))
    (hri : rule.ri = true) (ha67 : rule.a67 = false) (hmk : rule.modKind = 0)
    (himm : rule.immBytes = isz) (hrel : rule.relBytes = 0) (hmoff : rule.moff = false)
    (hop : rule.opcode = (opcode &&& 0xFF#32).toNat) (hmap : rule.map = ((opcode >>> 8) &&& 3#32).toNat)
    (hw : wWant rule = 2 ∨ wWant rule = ((opcode >>> 27) &&& 1#32).toNat)
    (hsafe : (opcode >>> 8) &&& 3#32 = 0#32 → ∀ r7 : BitVec 32, r7 < 8#32 →
      isLegacyPrefix ((opcode + r7).truncate 8) false = false ∧ ((opcode + r7).truncate 8 : BitVec 8) >>> 4 ≠ 4#8)
    (hk : PlainKind k) (hf0 : f0.role = .opc)
    (hic : ∀ p : Parsed, p.imm = emitImmediate imm1 isz → allOk (opConds ctx rule p 0 f3 (.imm v)).1 = true)
    (hal : alignOps rule.oszEff rule.ops [.reg k r.toNat, .imm v] = some [(f0, some (.reg k r.toNat)), (f3, some (.imm v))]) :
    ∃ bytes, emitX86OpReg opcode 0#32 r imm1 isz = .ok bytes ∧ formOk ctx rule [.reg k r.toNat, .imm v] {} bytes = true := by
  refine ⟨_, emitX86OpReg_bytesI opcode r imm1 isz hopc hr, ?_⟩
  have hpplt : ((opcode >>> 21) &&& 3#32).toNat < 4 := by
    have : (opcode >>> 21) &&& 3#32 < 4#32 := by bv_decide
    simpa [BitVec.lt_def] using this
  have hmaplt : rule.map < 4 := by
    rw [hmap]
    have : (opcode >>> 8) &&& 3#32 < 4#32 := by bv_decide
    simpa [BitVec.lt_def] using this
  have hrexv : ∀ b, rexOfB opcode r = some b → b >>> 4 = 4#8 ∧ (b.getLsbD 3 = opcode.getLsbD 27) ∧ (b.getLsbD 0 = r.getLsbD 3) := by
    intro b hb'
    unfold rexOfB at hb'
    dsimp only at hb'
    split at hb'
    · injection hb' with hb'; subst hb'; simp only [extractRex] at *; refine ⟨?_, ?_, ?_⟩ <;> bv_decide
    · contradiction
  have hnone : rexOfB opcode r = none → opcode.getLsbD 27 = false ∧ r.getLsbD 3 = false := by
    intro hn
    unfold rexOfB at hn
    dsimp only at hn
    split at hn
    · contradiction
    · rename_i hz; simp only [extractRex] at hz; refine ⟨?_, ?_⟩ <;> bv_decide
  have hrexH : ∀ b, rexOfB opcode r = some b → b.toNat / 16 = 4 ∧ isLegacyPrefix b false = false := by
    intro b hb'
    obtain ⟨h4, -⟩ := hrexv b hb'
    refine ⟨toNat_div16_eq4 b h4, ?_⟩
    rw [Bool.eq_false_iff]
    intro hh
    simp only [isLegacyPrefix, Bool.or_eq_true, beq_iff_eq, Bool.false_and, Bool.or_false] at hh
    bv_decide
  have hoH : rule.map = 0 → isLegacyPrefix ((opcode + (r &&& 7#32)).truncate 8) false = false ∧
      (rexOfB opcode r = none → ((opcode + (r &&& 7#32)).truncate 8 : BitVec 8).toNat / 16 ≠ 4) := by
    intro hm0
    have hm0' : (opcode >>> 8) &&& 3#32 = 0#32 := by
      apply BitVec.eq_of_toNat_eq; rw [← hmap, hm0]; rfl
    obtain ⟨s1, s2⟩ := hsafe hm0' (r &&& 7#32) (by bv_decide)
    refine ⟨s1, fun _ h => s2 ?_⟩
    apply BitVec.eq_of_toNat_eq
    simpa [BitVec.toNat_ushiftRight, Nat.shiftRight_eq_div_pow] using h
  have hparse := parse_legacy_op_imm rule _ (rexOfB opcode r) ((opcode + (r &&& 7#32)).truncate 8) (emitImmediate imm1 isz) hpplt hs hpp8 hmaplt hmk hrexH hoH
    (by rw [(imm_le_exact imm1 isz).1, himm, hrel]; rfl) hmoff
  rw [hmap] at hparse
  refine leg_opreg_imm_formOk ctx rule _ _ _ k f0 f3 _ v (by simpa [hm64] using hmode) hs hpp8 h66 hF3 hF2 hpplt hri ha67 hk hf0 (hic _ rfl) hal (by rw [hm64]; exact hparse)
    rfl rfl rfl ?_ ?_ ?_
  · show (((opcode + (r &&& 7#32)).truncate 8 : BitVec 8) &&& 0xF8#8).toNat = rule.opcode
    rw [hop]; exact toNat_eq_of_zext _ _ (by omega) (by bv_decide)
  · rcases hw with h | h
    · exact Or.inl h
    · right
      have hc : (opcode >>> 27) &&& 1#32 = 0#32 ∨ (opcode >>> 27) &&& 1#32 = 1#32 := by bv_decide
      simp only [rexBit]
      cases hr' : rexOfB opcode r with
      | none =>
        obtain ⟨w0, -⟩ := hnone hr'
        rcases hc with hc | hc
        · rw [h, hc]; simp
        · exfalso; bv_decide
      | some b =>
        obtain ⟨-, wb, -⟩ := hrexv b hr'
        simp only [bit]
        rcases hc with hc | hc
        · rw [h, hc, wb]; simp; bv_decide
        · rw [h, hc, wb]; simp; bv_decide
  · simp only [rexBit]
    cases hr' : rexOfB opcode r with
    | none =>
      obtain ⟨-, b0⟩ := hnone hr'
      exact regNum_eq _ _ _ r (by simp; bv_decide)
    | some b =>
      obtain ⟨-, -, bb⟩ := hrexv b hr'
      exact regNum_eq _ _ _ r (by simp only [bit, bb]; simp; bv_decide)

end AsmjitVerif.Props.C01
