/-
C02, end-to-end for memory operands `[Xn|SP, #simm9]` (OpSpec `.memOff … true 1 .fixed`): kEncodingBaseRM_SImm9 with an
unscaled offset and no write-back - ldur / stur / ldurb / … / ldapur / stlur / ldtr / sttr …, which is also the LDUR/STUR
fallback that `ldr / str Rt, [Xn, #off]` takes when the scaled form cannot hold the offset.  Every accepted instruction is
judged `full` over the database forms - all registers, all offsets, every table row of the kind.
-/
import AsmjitVerif.Props.C02Wide
import AsmjitVerif.Model.A64AsmConv
namespace AsmjitVerif.C02
open AsmjitVerif.A64 AsmjitVerif.A64Asm AsmjitVerif.A64Spec AsmjitVerif.Gen.A64Tables

theorem memoff_fields (opcx off rd rn mask value : BitVec 32)
    (hc : opcx &&& 0x001FF3FF#32 = 0#32) (hm : mask &&& 0x001FF3FF#32 = 0#32) (hv : opcx &&& mask = value)
    (h0 : rd.ult 32#32 = true) (h1 : rn.ult 32#32 = true) :
    (opcx ||| ((off &&& 0x1FF#32) <<< 12) ||| (rd <<< 0) ||| (rn <<< 5)) &&& mask = value ∧
    ((opcx ||| ((off &&& 0x1FF#32) <<< 12) ||| (rd <<< 0) ||| (rn <<< 5)) >>> 0) &&& 31#32 = rd ∧
    ((opcx ||| ((off &&& 0x1FF#32) <<< 12) ||| (rd <<< 0) ||| (rn <<< 5)) >>> 5) &&& 31#32 = rn ∧
    ((opcx ||| ((off &&& 0x1FF#32) <<< 12) ||| (rd <<< 0) ||| (rn <<< 5)) >>> 12) &&& 511#32 = off &&& 0x1FF#32 := by
  bv_decide

/-- the signed 9-bit field holds exactly the offset the operand names -/
theorem simm9_field (off : BitVec 32) (h : isInt9 off = true) : sext 9 (off &&& 0x1FF#32).toNat = off.toInt := by
  have hand : (off &&& 0x1FF#32).toNat = off.toNat % 512 := by
    rw [BitVec.toNat_and]
    exact Nat.and_two_pow_sub_one_eq_mod off.toNat 9
  rw [hand]
  unfold isInt9 at h
  simp only [Bool.and_eq_true, decide_eq_true_eq] at h
  rw [BitVec.toInt_eq_toNat_cond] at h ⊢
  have hlt := off.isLt
  unfold sext
  simp only [show (9 == 0) = false from rfl, Bool.false_eq_true, if_false]
  split <;> split <;> omega

def isMemOffForm (f : Form) (wd : GpW) (n0 : String) (opcx : BitVec 32) : Bool :=
  f.ops == [.gp wd n0 false, .memOff "Rn" "offS" true 1 .fixed] &&
  f.fields.filter (·.name == n0) == [⟨n0, [⟨0, 0, 5⟩]⟩] &&
  f.fields.filter (·.name == "Rn") == [⟨"Rn", [⟨5, 0, 5⟩]⟩] &&
  f.fields.filter (·.name == "offS") == [⟨"offS", [⟨12, 0, 9⟩]⟩] &&
  fieldWidth f.fields "offS" == 9 &&
  f.freeFields.isEmpty && decide (f.mask < 2 ^ 32) && decide (f.value < 2 ^ 32) &&
  (BitVec.ofNat 32 f.mask &&& 0x001FF3FF#32 == 0#32) && (opcx &&& BitVec.ofNat 32 f.mask == BitVec.ofNat 32 f.value)

/-- the memory operand as the encoder's tail accepted it: base X0..X30 / SP, no index, no write-back, 9-bit signed offset -/
def MemOffOk (m : Mem) : Prop :=
  m.baseType = rtGp64 ∧ m.baseId ≤ 31 ∧ m.indexType = 0 ∧ m.mode = 0 ∧ isInt9 m.off = true

theorem matchOp_memOff (c : Ctx) (m : Mem) (rest : List Operand) (hm : MemOffOk m)
    (hw : fieldWidth c.fields "offS" = 9)
    (ho : c.get "offS" = some (m.off &&& 0x1FF#32).toNat) (hb : c.get "Rn" = some (m.baseId % 32)) :
    matchOp c (.memOff "Rn" "offS" true 1 .fixed) (.mem m :: rest) = some rest := by
  obtain ⟨h1, h2, h3, h4, h5⟩ := hm
  have hs := simm9_field m.off h5
  have hg : gpNumber { rt := rtGp64, id := m.baseId } true = some (m.baseId % 32) := by
    unfold gpNumber
    by_cases hlt : m.baseId < 31
    · simp [hlt]; omega
    · have : m.baseId = 31 := by omega
      simp [this, idSP]
  have e : (m.off &&& 0x1FF#32).toNat = m.off.toNat &&& 511 := by simp [BitVec.toNat_and]
  rw [e] at hs ho
  simp [matchOp, ho, hb, hw, hs, memBaseOk, h1, h3, h4, hg]

theorem memoff_describes (f : Form) (wd : GpW) (n0 : String) (opcx : BitVec 32) (o0 : Reg) (m : Mem) (pc : BitVec 64)
    (hf : isMemOffForm f wd n0 opcx = true) (hc : opcx &&& 0x001FF3FF#32 = 0#32) (h0 : gpOk wd false o0) (hm : MemOffOk m) :
    describes f [.reg o0, .mem m] pc
      (opcx ||| ((m.off &&& 0x1FF#32) <<< 12) ||| (BitVec.ofNat 32 (o0.id % 32) <<< 0) ||| (BitVec.ofNat 32 (m.baseId % 32) <<< 5)) = true := by
  simp only [isMemOffForm, Bool.and_eq_true, beq_iff_eq, decide_eq_true_eq] at hf
  obtain ⟨⟨⟨⟨⟨⟨⟨⟨⟨hops, hR0⟩, hRn⟩, hOf⟩, hwid⟩, _hfree⟩, hmlt⟩, hvlt⟩, hmk⟩, hv⟩ := hf
  obtain ⟨k1, k2, k3, k4⟩ := memoff_fields opcx m.off (BitVec.ofNat 32 (o0.id % 32)) (BitVec.ofNat 32 (m.baseId % 32))
    (BitVec.ofNat 32 f.mask) (BitVec.ofNat 32 f.value) hc hmk hv (ofNat_mod32_ult _) (ofNat_mod32_ult _)
  generalize hw' : (opcx ||| ((m.off &&& 0x1FF#32) <<< 12) ||| (BitVec.ofNat 32 (o0.id % 32) <<< 0) ||| (BitVec.ofNat 32 (m.baseId % 32) <<< 5)) = w at *
  have t : w.toNat &&& f.mask = f.value := by
    rw [toNat_and_mask w f.mask hmlt, k1]; simp [BitVec.toNat_ofNat, Nat.mod_eq_of_lt hvlt]
  have f0 : (w.toNat >>> 0) % 2 ^ 5 = o0.id % 32 := by rw [toNat_field, k2, ofNat_mod32_toNat]
  have f5 : (w.toNat >>> 5) % 2 ^ 5 = m.baseId % 32 := by rw [toNat_field, k3, ofNat_mod32_toNat]
  have f12 : (w.toNat >>> 12) % 2 ^ 9 = (m.off &&& 0x1FF#32).toNat := by
    rw [toNat_fieldN w 12 9 (by decide), show (BitVec.ofNat 32 (2 ^ 9 - 1)) = 511#32 from rfl, k4]
  have g0 := ctx_get_single f.fields w.toNat pc f.name n0 0 hR0
  have g5 := ctx_get_single f.fields w.toNat pc f.name "Rn" 5 hRn
  have g12 := ctx_get_one f.fields w.toNat pc f.name "offS" 12 9 hOf
  rw [f0] at g0; rw [f5] at g5; rw [f12] at g12
  have m0 := matchOp_gp _ wd n0 false o0 [.mem m] g0 h0
  have m1 := matchOp_memOff { fields := f.fields, w := w.toNat, pc := pc, name := f.name } m [] hm hwid g12 g5
  simp only [describes, Form.matchesTemplate, t, hops, matchOps, m0, m1]
  simp

/-- decidable per-row condition tying the instruction table to the database -/
def memOffRowOk (name : String) (d : BaseRM_SImm9Row) : Bool :=
  d.reg_hi_id == idZR && decide (d.reg_type ≤ 3) && name != "mov" &&
  [rtGp32, rtGp64].all fun rt =>
    !checkGpType { rt := rt, id := 0 } d.reg_type ||
    (let opcx := w32 d.offset_op ^^^ addImm (xOf { rt := rt, id := 0 } d.reg_type) d.x_offset
     (opcx &&& 0x001FF3FF#32 == 0#32) &&
     (formsNamed name).any fun f => ["Rd", "Rs", "Rt"].any fun n0 => isMemOffForm f (wOfRt rt) n0 opcx)

/-- mnemonics whose database rows had to be relaxed by tools/a64db_errata.json (W/X variants of the sign-extending loads): their
forms are partial, so they are judged `partialOk` by the monitor and are not covered by the theorem below -/
def memOffRelaxed : List String := []

set_option maxRecDepth 1000000 in
theorem rows_rmSImm9_unscaled_have_forms :
    instTable.toList.all (fun r => r.enc != encBaseRM_SImm9 ||
      (match baseRM_SImm9[r.idx]? with
       | some d => d.imm_shift != 0 || d.reg_hi_id != idZR || memOffRelaxed.contains r.name || memOffRowOk r.name d
       | none => false)) = true := by decide +kernel

def viewOf (m : Mem) : MemView :=
  { baseType := m.baseType, baseId := m.baseId, indexType := m.indexType, indexId := m.indexId, shiftOp := m.shiftOp,
    shift := m.shift, mode := m.mode, off32 := m.off, hasOffset := m.off != 0 }

theorem memView_mem (m : Mem) : memView (.mem m) = some (viewOf m) := rfl

/-- everything the model establishes before it emits an unscaled, no-write-back `BaseRM_SImm9` instruction -/
theorem rmSImm9_accepts_facts (d : BaseRM_SImm9Row) (o0 : Reg) (m : Mem) (hsh : d.imm_shift = 0) (hmode : m.mode = 0)
    (ws : List (BitVec 32)) (h : emitRMSImm9 d o0 (viewOf m) = .ok ws) :
    checkGpType o0 d.reg_type = true ∧ checkGpId o0 d.reg_hi_id = true ∧ MemOffOk m ∧
    ws = [(w32 d.offset_op ^^^ addImm (xOf o0 d.reg_type) d.x_offset) ||| ((m.off &&& 0x1FF#32) <<< 12) ||| addReg o0.id 0 ||| addReg m.baseId 5] := by
  unfold emitRMSImm9 at h
  simp only [hsh, viewOf, hmode] at h
  repeat (split at h <;> try (simp [invalidInstruction, invalidPhysId, invalidAddress, invalidDisplacement] at h))
  all_goals (
    unfold tailMemBase at h
    split at h
    · simp [invalidAddress] at h
    · simp [ok1] at h
      simp_all [MemOffOk, checkMemBase, MemView.hasBaseReg, MemView.hasIndex])

/-- **End-to-end, kEncodingBaseRM_SImm9 unscaled** (ldur / stur / ldurb / sturb / ldurh / sturh / ldursw / ldapur… / stlur… /
ldtr… / sttr…) - also the fallback target of `ldr / str` with an offset the scaled form cannot hold -/
theorem rmSImm9_unscaled_end_to_end (r : InstRow) (hr : r ∈ instTable.toList) (henc : r.enc = encBaseRM_SImm9)
    (d : BaseRM_SImm9Row) (hd : baseRM_SImm9[r.idx]? = some d) (hsh : d.imm_shift = 0) (hhi : d.reg_hi_id = idZR)
    (hrel : memOffRelaxed.contains r.name = false)
    (o0 : Reg) (m : Mem) (hmode : m.mode = 0) (wf0 : GpWellFormed o0) (ws : List (BitVec 32)) (pc : BitVec 64)
    (h : emitRMSImm9 d o0 (viewOf m) = .ok ws) :
    judge (formsNamed r.name) r.name [.reg o0, .mem m] pc (.ok ws) = .full := by
  have hrow := (List.all_eq_true.mp rows_rmSImm9_unscaled_have_forms) r hr
  simp only [henc, bne_self_eq_false, Bool.false_or, hd, hsh, hhi, hrel] at hrow
  obtain ⟨hty, hid, hmo, hws⟩ := rmSImm9_accepts_facts d o0 m hsh hmode ws h
  simp only [memOffRowOk, Bool.and_eq_true, beq_iff_eq, decide_eq_true_eq] at hrow
  obtain ⟨⟨⟨_, hty3⟩, _⟩, hall⟩ := hrow
  have hrt := gp_rt_of_check o0 d.reg_type hty3 hty
  have hmem : o0.rt ∈ [rtGp32, rtGp64] := by rcases hrt with a | a <;> simp [a]
  have hcombo := (List.all_eq_true.mp hall) o0.rt hmem
  have hck : checkGpType { rt := o0.rt, id := 0 } d.reg_type = true := by simpa [checkGpType] using hty
  have hx : xOf { rt := o0.rt, id := 0 } d.reg_type = xOf o0 d.reg_type := by simp [xOf]
  simp only [hck, Bool.not_true, Bool.false_or, hx, Bool.and_eq_true, beq_iff_eq] at hcombo
  obtain ⟨hclean, hany⟩ := hcombo
  rw [List.any_eq_true] at hany
  obtain ⟨f, hfmem, hn⟩ := hany
  rw [List.any_eq_true] at hn
  obtain ⟨n0, _, hform⟩ := hn
  have g0 : gpOk (wOfRt o0.rt) false o0 := by
    have := gpOk_of_checks o0 d.reg_type d.reg_hi_id hty3 (Or.inr hhi) wf0 hty hid
    rw [hhi, show (idZR == idSP) = false by decide] at this
    exact this
  have hdesc := memoff_describes f (wOfRt o0.rt) n0 _ o0 m pc hform hclean g0 hmo
  have hfull : f.isPartial = false := by
    simp only [isMemOffForm, Bool.and_eq_true, beq_iff_eq] at hform
    obtain ⟨⟨⟨⟨⟨⟨⟨⟨⟨hops, _⟩, _⟩, _⟩, _⟩, hfree⟩, _⟩, _⟩, _⟩, _⟩ := hform
    simp [Form.isPartial, hops, OpSpec.isPartial, hfree]
  subst hws
  apply judge_full_of_any
  · intro rr v pp hc; simp at hc
  · rw [List.any_eq_true]
    refine ⟨f, hfmem, ?_⟩
    simp only [hfull, Bool.not_false, Bool.true_and]
    simpa [addReg, addImm] using hdesc

/-- the LDUR/STUR fallback of `ldr / str Rt, [Xn|SP, #off]` (kEncodingBaseLdSt): when the scaled unsigned form cannot hold the
offset, the instruction is exactly what the unscaled row `u_alt_inst_id` emits - so `rmSImm9_unscaled_end_to_end` covers it
(the monitor looks the word up under the alias mnemonic, `unscaledAlias`) -/
theorem ldSt_fallback_eq (d : BaseLdStRow) (o0 : Reg) (mo : Operand) (m : MemView) (pos : Nat)
    (hty : checkGpType o0 d.reg_type = true) (hid : checkGpId o0 idZR = true) (hrel : checkMemBaseIndexRel m = true)
    (hb : m.hasBaseReg = true) (hi : m.hasIndex = false) (hmode : m.mode = 0)
    (hns : let sh := d.u_offset_shift + (xOf o0 d.reg_type &&& (if d.u_offset_shift == 2 then 1 else 0))
           ¬((m.off32 >>> sh).toNat < 4096 ∧ (m.off32 >>> sh) <<< sh = m.off32)) :
    emitLdSt d o0 mo m pos =
      (match instTable[d.u_alt_inst_id]? with
       | some r => match baseRM_SImm9[r.idx]? with
                   | some d9 => emitRMSImm9 d9 o0 m
                   | none => notModelled
       | none => notModelled) := by
  unfold emitLdSt
  simp only [hty, hid, hrel, hb, hi, hmode, Bool.not_true, Bool.false_eq_true, if_false, if_true]
  simp only [] at hns
  generalize d.u_offset_shift + (xOf o0 d.reg_type &&& if (d.u_offset_shift == 2) = true then 1 else 0) = sh at *
  have hcond : (!decide ((m.off32 >>> sh).toNat < 4096) || m.off32 >>> sh <<< sh != m.off32) = true := by
    by_cases h1 : (m.off32 >>> sh).toNat < 4096
    · have h2 : ¬ (m.off32 >>> sh <<< sh = m.off32) := fun h2 => hns ⟨h1, h2⟩
      simp [h1, h2]
    · have : decide ((m.off32 >>> sh).toNat < 4096) = false := by simpa using h1
      rw [this]; rfl
  rw [if_neg (by decide), if_pos hcond]
  cases instTable[d.u_alt_inst_id]? with
  | none => rfl
  | some r => cases baseRM_SImm9[r.idx]? <;> rfl

/-! ### the same memory operand behind a SIMD scalar register: kEncodingSimdLdurStur (ldur / stur  Bt|Ht|St|Dt|Qt, [Xn|SP, #simm9]),
which is also the fallback of the SIMD `ldr / str` (kEncodingSimdLdSt) -/

def isMemOffFormV (f : Form) (rt : Nat) (n0 : String) (opcx : BitVec 32) : Bool :=
  f.ops == [.vscalar rt n0, .memOff "Rn" "offS" true 1 .fixed] &&
  f.fields.filter (·.name == n0) == [⟨n0, [⟨0, 0, 5⟩]⟩] &&
  f.fields.filter (·.name == "Rn") == [⟨"Rn", [⟨5, 0, 5⟩]⟩] &&
  f.fields.filter (·.name == "offS") == [⟨"offS", [⟨12, 0, 9⟩]⟩] &&
  fieldWidth f.fields "offS" == 9 &&
  f.freeFields.isEmpty && decide (f.mask < 2 ^ 32) && decide (f.value < 2 ^ 32) &&
  (BitVec.ofNat 32 f.mask &&& 0x001FF3FF#32 == 0#32) && (opcx &&& BitVec.ofNat 32 f.mask == BitVec.ofNat 32 f.value)

theorem memoff_describes_v (f : Form) (rt : Nat) (n0 : String) (opcx : BitVec 32) (o0 : Reg) (m : Mem) (pc : BitVec 64)
    (hf : isMemOffFormV f rt n0 opcx = true) (hc : opcx &&& 0x001FF3FF#32 = 0#32)
    (h0 : o0.rt = rt ∧ o0.et = 0 ∧ o0.hasIdx = false ∧ o0.id ≤ 31) (hm : MemOffOk m) :
    describes f [.reg o0, .mem m] pc
      (opcx ||| ((m.off &&& 0x1FF#32) <<< 12) ||| (BitVec.ofNat 32 (o0.id % 32) <<< 0) ||| (BitVec.ofNat 32 (m.baseId % 32) <<< 5)) = true := by
  simp only [isMemOffFormV, Bool.and_eq_true, beq_iff_eq, decide_eq_true_eq] at hf
  obtain ⟨⟨⟨⟨⟨⟨⟨⟨⟨hops, hR0⟩, hRn⟩, hOf⟩, hwid⟩, _hfree⟩, hmlt⟩, hvlt⟩, hmk⟩, hv⟩ := hf
  obtain ⟨k1, k2, k3, k4⟩ := memoff_fields opcx m.off (BitVec.ofNat 32 (o0.id % 32)) (BitVec.ofNat 32 (m.baseId % 32))
    (BitVec.ofNat 32 f.mask) (BitVec.ofNat 32 f.value) hc hmk hv (ofNat_mod32_ult _) (ofNat_mod32_ult _)
  generalize hw' : (opcx ||| ((m.off &&& 0x1FF#32) <<< 12) ||| (BitVec.ofNat 32 (o0.id % 32) <<< 0) ||| (BitVec.ofNat 32 (m.baseId % 32) <<< 5)) = w at *
  have t : w.toNat &&& f.mask = f.value := by
    rw [toNat_and_mask w f.mask hmlt, k1]; simp [BitVec.toNat_ofNat, Nat.mod_eq_of_lt hvlt]
  have f0 : (w.toNat >>> 0) % 2 ^ 5 = o0.id % 32 := by rw [toNat_field, k2, ofNat_mod32_toNat]
  have f5 : (w.toNat >>> 5) % 2 ^ 5 = m.baseId % 32 := by rw [toNat_field, k3, ofNat_mod32_toNat]
  have f12 : (w.toNat >>> 12) % 2 ^ 9 = (m.off &&& 0x1FF#32).toNat := by
    rw [toNat_fieldN w 12 9 (by decide), show (BitVec.ofNat 32 (2 ^ 9 - 1)) = 511#32 from rfl, k4]
  have g0 := ctx_get_single f.fields w.toNat pc f.name n0 0 hR0
  have g5 := ctx_get_single f.fields w.toNat pc f.name "Rn" 5 hRn
  have g12 := ctx_get_one f.fields w.toNat pc f.name "offS" 12 9 hOf
  rw [f0] at g0; rw [f5] at g5; rw [f12] at g12
  obtain ⟨a1, a2, a3, a4⟩ := h0
  have hid : o0.id % 32 = o0.id := Nat.mod_eq_of_lt (by omega)
  rw [hid] at g0
  have m0 : matchOp { fields := f.fields, w := w.toNat, pc := pc, name := f.name } (.vscalar rt n0) [.reg o0, .mem m] = some [.mem m] := by
    simp [matchOp, a1, a2, a3, g0]; omega
  have m1 := matchOp_memOff { fields := f.fields, w := w.toNat, pc := pc, name := f.name } m [] hm hwid g12 g5
  simp only [describes, Form.matchesTemplate, t, hops, matchOps, m0, m1]
  simp

def simdLdurRowOk (name : String) (d : SimdLdurSturRow) : Bool :=
  name != "mov" &&
  [0, 1, 2, 3, 4].all fun sz =>
    (let opcx := (w32 d.opcode <<< 10) ||| addImm (sz % 4) 30 ||| addImm (sz / 4) 23
     (opcx &&& 0x001FF3FF#32 == 0#32) && (formsNamed name).any fun f => ["Vd", "Vs", "Vt"].any fun n0 => isMemOffFormV f (rtVec8 + sz) n0 opcx)

set_option maxRecDepth 1000000 in
theorem rows_simdLdurStur_have_forms :
    instTable.toList.all (fun r => r.enc != encSimdLdurStur ||
      (match simdLdurStur[r.idx]? with
       | some d => simdLdurRowOk r.name d
       | none => false)) = true := by decide +kernel

theorem simdLdurStur_accepts_facts (d : SimdLdurSturRow) (o0 : Reg) (m : Mem) (ws : List (BitVec 32))
    (h : emitSimdLdurStur d o0 (viewOf m) = .ok ws) :
    u32sub o0.rt rtVec8 ≤ 4 ∧ o0.et = 0 ∧ o0.hasIdx = false ∧ o0.id ≤ 31 ∧ MemOffOk m ∧
    ws = [(w32 d.opcode <<< 10) ||| addImm (u32sub o0.rt rtVec8 % 4) 30 ||| addImm (u32sub o0.rt rtVec8 / 4) 23 |||
          ((m.off &&& 0x1FF#32) <<< 12) ||| addReg o0.id 0 ||| addReg m.baseId 5] := by
  unfold emitSimdLdurStur at h
  simp only [viewOf] at h
  repeat (split at h <;> try (simp [invalidInstruction, invalidPhysId, invalidAddress, invalidDisplacement] at h))
  all_goals (
    unfold tailMemBase at h
    split at h
    · simp [invalidAddress] at h
    · simp [ok1] at h
      simp_all [MemOffOk, checkMemBase, MemView.hasBaseReg, MemView.hasIndex, hasEtOrIdx]
      try omega)

/-- **End-to-end, kEncodingSimdLdurStur** -/
theorem simdLdurStur_end_to_end (r : InstRow) (hr : r ∈ instTable.toList) (henc : r.enc = encSimdLdurStur)
    (d : SimdLdurSturRow) (hd : simdLdurStur[r.idx]? = some d) (o0 : Reg) (m : Mem) (hrt : o0.rt < 32)
    (ws : List (BitVec 32)) (pc : BitVec 64) (h : emitSimdLdurStur d o0 (viewOf m) = .ok ws) :
    judge (formsNamed r.name) r.name [.reg o0, .mem m] pc (.ok ws) = .full := by
  have hrow := (List.all_eq_true.mp rows_simdLdurStur_have_forms) r hr
  simp only [henc, bne_self_eq_false, Bool.false_or, hd] at hrow
  obtain ⟨hsz, het, hidx, hid, hmo, hws⟩ := simdLdurStur_accepts_facts d o0 m ws h
  simp only [simdLdurRowOk, Bool.and_eq_true] at hrow
  obtain ⟨_, hall⟩ := hrow
  have hrtv : o0.rt = rtVec8 + u32sub o0.rt rtVec8 := by
    unfold u32sub rtVec8 at *; omega
  have hmem : u32sub o0.rt rtVec8 ∈ [0, 1, 2, 3, 4] := by
    have : u32sub o0.rt rtVec8 = 0 ∨ u32sub o0.rt rtVec8 = 1 ∨ u32sub o0.rt rtVec8 = 2 ∨ u32sub o0.rt rtVec8 = 3 ∨ u32sub o0.rt rtVec8 = 4 := by omega
    rcases this with a | a | a | a | a <;> simp [a]
  have hcombo := (List.all_eq_true.mp hall) _ hmem
  simp only [Bool.and_eq_true, beq_iff_eq] at hcombo
  obtain ⟨hclean, hany⟩ := hcombo
  rw [List.any_eq_true] at hany
  obtain ⟨f, hfmem, hn⟩ := hany
  rw [List.any_eq_true] at hn
  obtain ⟨n0, _, hform⟩ := hn
  have hdesc := memoff_describes_v f _ n0 _ o0 m pc hform hclean ⟨hrtv, het, hidx, hid⟩ hmo
  have hfull : f.isPartial = false := by
    simp only [isMemOffFormV, Bool.and_eq_true, beq_iff_eq] at hform
    obtain ⟨⟨⟨⟨⟨⟨⟨⟨⟨hops, _⟩, _⟩, _⟩, _⟩, hfree⟩, _⟩, _⟩, _⟩, _⟩ := hform
    simp [Form.isPartial, hops, OpSpec.isPartial, hfree]
  subst hws
  apply judge_full_of_any
  · intro rr v pp hc; simp at hc
  · rw [List.any_eq_true]
    refine ⟨f, hfmem, ?_⟩
    simp only [hfull, Bool.not_false, Bool.true_and]
    simpa [addReg, addImm] using hdesc

end AsmjitVerif.C02
