/-
C01 property theorems, front-end layer, memory operands (part 1: `[base64 + disp]`, no index / segment / broadcast, 64-bit mode).

Model side: `EmitModSib`'s [BASE + DISP] bytes are split into ModRM, optional SIB and displacement (`memEncBase`); their SDM fields are
established by exhaustive evaluation over all (reg, base & 7, displacement variant) (`memHead_facts`), the displacement value by
`cdisp8_sound` + an exhaustively checked integer bridge (`sext8_scaled`). Spec side: `parse_*_mem`, `checkMem_base64`,
`vex_rvm_mem_formOk` (Lemmas/X86Parse.lean). Composition: `vexM_rvm_formOk_*`.
-/
import AsmjitVerif.Props.C01Rows
set_option linter.constructorNameAsVariable false
namespace AsmjitVerif.Props.C01
open Spec.X86 Model.X86 AsmjitVerif.Lemmas.X86Parse

/-- ModRM and optional SIB of the [BASE + DISP] path by displacement variant v (0 none, 1 disp8, 2 disp32) -/
def memHead (opReg rb7 : BitVec 32) (v : Nat) : BitVec 8 × Option (BitVec 8) :=
  let dv : BitVec 32 := if v == 1 then 0x40#32 else if v == 2 then 0x80#32 else 0#32
  let mod := encodeMod 0#32 opReg rb7
  if rb7 == 4#32 then ((((mod &&& 0xF8#32) ||| 0x04#32) + dv).truncate 8, some ((encodeSib 0#32 4#32 rb7).truncate 8))
  else ((mod + dv).truncate 8, none)

/-- the base register field: ModRM.rm, or SIB.base with index = 100 (none) and scale 0 -/
def headBaseOk (h : BitVec 8 × Option (BitVec 8)) (r : Nat) : Bool :=
  match h.2 with
  | none => bits h.1 0 3 == r
  | some sb => bits sb 0 3 == r && bits sb 3 3 == 4 && bits sb 6 2 == 0

/-- all 8 x 8 x 3 heads: mod = variant, rm = 100 iff a SIB follows, reg field, displacement length of SDM table 2-2, base field -/
theorem memHead_facts : ∀ o r : Fin 8, ∀ v : Fin 3, (v.val = 0 → r.val ≠ 5) →
    bits (memHead (BitVec.ofNat 32 o.val) (BitVec.ofNat 32 r.val) v.val).1 6 2 = v.val ∧
    (bits (memHead (BitVec.ofNat 32 o.val) (BitVec.ofNat 32 r.val) v.val).1 0 3 == 4) = (memHead (BitVec.ofNat 32 o.val) (BitVec.ofNat 32 r.val) v.val).2.isSome ∧
    bits (memHead (BitVec.ofNat 32 o.val) (BitVec.ofNat 32 r.val) v.val).1 3 3 = o.val ∧
    dispLen (memHead (BitVec.ofNat 32 o.val) (BitVec.ofNat 32 r.val) v.val).1 (memHead (BitVec.ofNat 32 o.val) (BitVec.ofNat 32 r.val) v.val).2 =
      (if v.val = 0 then 0 else if v.val = 1 then 1 else 4) ∧
    headBaseOk (memHead (BitVec.ofNat 32 o.val) (BitVec.ofNat 32 r.val) v.val) r.val = true := by
  decide

/-- which displacement form `EmitModSib` picks: none (only if the base is not rBP/r13), disp8 (compressed) or disp32 -/
def memVariant (rb7 rel s : BitVec 32) : Nat :=
  if rb7 != 5#32 && rel == 0#32 then 0 else match cdisp8 rel s with | some _ => 1 | none => 2

def memDisp (rel s : BitVec 32) (v : Nat) : List (BitVec 8) :=
  if v == 0 then [] else if v == 1 then [((cdisp8 rel s).getD 0#32).truncate 8] else le32 rel

/-- `EmitModSib` on a [base + disp] operand (no index, no 16-bit addressing, no forced SIB): ModRM :: SIB? ++ disp -/
theorem emitModSib_base_parts (c : Model.X86.Ctx) (pre : List (BitVec 8)) (ao : Nat) (opcode options opReg rbReg rxReg rmInfo : BitVec 32) (m : Mem)
    (imm : BitVec 64) (n : Nat) (htsib : c.tsib = false)
    (hni : rmInfo &&& (kX86MemInfo_Index ||| kX86MemInfo_67H_X86) = 0#32) (hbase : rmInfo &&& kX86MemInfo_BaseGp ≠ 0#32) :
    emitModSib c pre ao opcode options opReg rbReg rxReg rmInfo m imm n false =
      .ok (pre ++ ((memHead opReg (rbReg &&& 7#32) (memVariant (rbReg &&& 7#32) m.offLo32 (cdShiftOf opcode))).1 ::
                   ((memHead opReg (rbReg &&& 7#32) (memVariant (rbReg &&& 7#32) m.offLo32 (cdShiftOf opcode))).2.toList ++
                    memDisp m.offLo32 (cdShiftOf opcode) (memVariant (rbReg &&& 7#32) m.offLo32 (cdShiftOf opcode)))) ++
           emitImmediate imm n) := by
  rw [modsib_base_roundtrip c pre ao opcode options opReg rbReg rxReg rmInfo m imm n hni hbase]
  simp only [htsib, Bool.or_false, memHead, memVariant, memDisp]
  split
  · rename_i h4
    have h5 : ((rbReg &&& 7#32) != 5#32) = true := by bv_decide
    simp only [h5, Bool.true_and]
    split
    · simp_all
    · split <;> simp_all
  · split
    · simp_all
    · split <;> simp_all

theorem sext8_scaled : ∀ n : Fin 256, ∀ s : Fin 7,
    sextNat n.val 8 * ((2 ^ s.val : Nat) : Int) = sextNat ((((BitVec.ofNat 8 n.val).signExtend 32 : BitVec 32) <<< s.val).toNat) 32 := by
  decide +kernel

theorem leNat_le32 (v : BitVec 32) : leNat (le32 v) = v.toNat := by
  simp only [le32, leNat, BitVec.truncate, BitVec.toNat_setWidth, BitVec.toNat_ushiftRight, Nat.shiftRight_eq_div_pow]
  have := v.isLt
  omega

/-- the displacement the decoder reads back from `memDisp` (disp8 scaled by N = 2^s, as under EVEX disp8*N) is the displacement asked for -/
theorem memDisp_decoded (rb7 rel s : BitVec 32) (hs : s ≤ 6#32) :
    let v := memVariant rb7 rel s
    let d := memDisp rel s v
    (if d.length == 0 then (0 : Int) else if d.length == 1 then sextNat (leNat d) 8 * ((2 ^ s.toNat : Nat) : Int) else sextNat (leNat d) 32) =
      sextNat rel.toNat 32 := by
  intro v d
  simp only [v, d, memVariant, memDisp]
  split
  · rename_i h0
    have : rel = 0#32 := by simp only [Bool.and_eq_true, beq_iff_eq] at h0; exact h0.2
    subst this
    simp [sextNat]
  · cases hc : cdisp8 rel s with
    | some cd =>
      have hsound := cdisp8_sound rel cd s (by bv_decide) hc
      have hslt : s.toNat < 7 := by
        have : s < 7#32 := by bv_decide
        simpa [BitVec.lt_def] using this
      have key := sext8_scaled ⟨(cd.truncate 8 : BitVec 8).toNat, (cd.truncate 8 : BitVec 8).isLt⟩ ⟨s.toNat, hslt⟩
      simp only [BitVec.ofNat_toNat, BitVec.setWidth_eq] at key
      simp only [Option.getD_some, List.length_cons, List.length_nil, leNat, Nat.mul_zero, Nat.add_zero]
      rw [← hsound]
      simpa [BitVec.shiftLeft_eq', leNat] using key
    | none =>
      have hl : (le32 rel).length = 4 := rfl
      have hne : le32 rel ≠ [] := by simp [le32]
      simp [leNat_le32, hl, hne]

/-! ### `EmitVexEvexM` on a `[base64 + disp]` operand -/

/-- model-side `[base64 + disp]` operand -/
def memBase (size : Nat) (rb : BitVec 32) (d : BitVec 64) (seg : Nat := 0) (a32 : Bool := false) (bc : Nat := 0) : Mem :=
  { size := size, baseType := (if a32 then 5 else 6), baseId := rb.toNat, indexType := 0, indexId := 0, shift := 0, offset := d, seg := seg, bcst := bc, addrType := 0 }

theorem memInfo_gp64 : memInfo 6 0 = 0x0D#32 := by decide
theorem memInfo_gp32 : memInfo 5 0 = 0x8D#32 := by decide

/-- the address-size prefix of 32-bit address registers in 64-bit mode -/
def aoBytes (a32 : Bool) : List (BitVec 8) := if a32 then [0x67#8] else []
/-- `rm_info` of a base-only operand -/
def rmInfoBase (a32 : Bool) : BitVec 32 := if a32 then 0x8D#32 else 0x0D#32

/-- the prefix word `x` of `EmitVexEvexM` for a base-only operand (no index, no broadcast, no {k}) -/
def xMb (opcode reg vvvvv rb : BitVec 32) : BitVec 32 :=
  (((reg + (vvvvv <<< 7)) <<< 4) &&& 0xF980#32) ||| ((rb <<< 2) &&& 0x20#32) ||| extractLLMMMMM opcode 0#32

theorem xMb_eq_xR (opcode reg vvvvv rb : BitVec 32) (hb : rb < 16#32) : xMb opcode reg vvvvv rb = xR opcode 0#32 reg vvvvv rb 0#32 := by
  simp only [xMb, xR]; bv_decide

/-- the options word of a {z} decoration -/
def zOpt (z : Bool) : BitVec 32 := if z then oZMask else 0#32

/-- the prefix word `x` of `EmitVexEvexM` for a base-only operand with mask register `aaa` -/
def xMbK (opcode reg vvvvv rb aaa : BitVec 32) (z : Bool) : BitVec 32 :=
  (((reg + (vvvvv <<< 7)) <<< 4) &&& 0xF980#32) ||| ((rb <<< 2) &&& 0x20#32) ||| extractLLMMMMM opcode (zOpt z) ||| (aaa <<< 16)

/-- `EmitVexEvexM` = prefix part, then `EmitModSib` with the (adjusted) opcode word; mask register `aaa`, {z} as option -/
theorem emitVexEvexM_base_eq (c : Model.X86.Ctx) (opcode reg vvvvv rb aaa : BitVec 32) (z : Bool) (size : Nat) (d imm : BitVec 64) (n : Nat) (seg : Nat) (a32 : Bool)
    (hm : c.mode64 = true) (hpe : c.preferEvex = false) (hk : c.extraId = aaa) (hvs : c.vsib = false) :
    emitVexEvexM c opcode (zOpt z) (reg + (vvvvv <<< 7)) (memBase size rb d seg a32) imm n =
      (match vexEvexMPrefix c ((if c.vexFlag then xMbK opcode reg vvvvv rb aaa z else xMbK opcode reg vvvvv rb aaa z ||| 0x80000000#32) ||| zOpt z) opcode (zOpt z)
          (memBase size rb d seg a32) with
       | .error e => .error e
       | .ok v => emitModSib c (segmentPrefix seg ++ aoBytes a32 ++ v.1) (segmentPrefix seg).length v.2 (zOpt z) ((reg + (vvvvv <<< 7)) &&& 7#32) rb 0#32
                    (rmInfoBase a32) (memBase size rb d seg a32) imm n false) := by
  unfold emitVexEvexM
  cases z <;> cases a32
  all_goals
    simp only [memBase, xMbK, aoBytes, rmInfoBase, zOpt, Bool.false_eq_true, ↓reduceIte]
    simp only [rtLabel, hk, hpe, hvs, memInfo_gp64, memInfo_gp32, Model.X86.Ctx.aoMask, hm, oZMask, oER, oSAE, oVex, oVex3]
    simp only [BitVec.ofNat_toNat, BitVec.setWidth_eq, BitVec.zero_and, BitVec.zero_or, BitVec.or_zero, bne_self_eq_false, Bool.false_eq_true, ↓reduceIte,
      Bool.false_and, gt_iff_lt, Nat.lt_irrefl, Nat.not_lt_zero, BitVec.zero_shiftLeft, BitVec.and_zero, bind, Except.bind, Bool.not_false,
      show (1 < 6) = True from by decide, show (1 < 5) = True from by decide, show (0x0D#32 &&& 0x80#32 != 0#32) = false from by decide,
      show (0x8D#32 &&& 0x80#32 != 0#32) = true from by decide, List.nil_append, List.length_nil, List.append_nil,
      show ((0:Nat) != 0) = false from by decide,
      show (0x800000#32 &&& (0x800000#32 ||| 0x40000#32 ||| 0x80000#32) != 0#32) = true from by decide,
      show (0x800000#32 &&& (0x40000#32 ||| 0x80000#32) != 0#32) = false from by decide,
      show (0x800000#32 &&& 0x800000#32) = 0x800000#32 from by decide,
      show (0x800000#32 &&& (0x800#32 ||| 0x400#32)) = 0#32 from by decide]
    generalize vexEvexMPrefix c _ opcode _ _ = r
    cases r <;> rfl
/-- `EmitVexEvexM` on a BROADCAST `seg:[base + disp]{1toN}` operand = prefix part with the b bit (bit 20 of `x`), then `EmitModSib` -/
theorem emitVexEvexM_base_eqB (c : Model.X86.Ctx) (opcode reg vvvvv rb aaa : BitVec 32) (z : Bool) (size : Nat) (d imm : BitVec 64) (n : Nat) (seg : Nat) (a32 : Bool)
    (bc : Nat) (hbc : bc ≠ 0)
    (hm : c.mode64 = true) (hpe : c.preferEvex = false) (hk : c.extraId = aaa) (hvs : c.vsib = false) :
    emitVexEvexM c opcode (zOpt z) (reg + (vvvvv <<< 7)) (memBase size rb d seg a32 bc) imm n =
      (match vexEvexMPrefix c ((if c.vexFlag then xMbK opcode reg vvvvv rb aaa z ||| 0x100000#32 else xMbK opcode reg vvvvv rb aaa z ||| 0x100000#32 ||| 0x80000000#32) ||| zOpt z)
          opcode (zOpt z) (memBase size rb d seg a32 bc) with
       | .error e => .error e
       | .ok v => emitModSib c (segmentPrefix seg ++ aoBytes a32 ++ v.1) (segmentPrefix seg).length v.2 (zOpt z) ((reg + (vvvvv <<< 7)) &&& 7#32) rb 0#32
                    (rmInfoBase a32) (memBase size rb d seg a32 bc) imm n false) := by
  have hbc' : (bc != 0) = true := by simpa using hbc
  unfold emitVexEvexM
  cases z <;> cases a32
  all_goals
    simp only [memBase, xMbK, aoBytes, rmInfoBase, zOpt, Bool.false_eq_true, ↓reduceIte, hbc']
    simp only [rtLabel, hk, hpe, hvs, memInfo_gp64, memInfo_gp32, Model.X86.Ctx.aoMask, hm, oZMask, oER, oSAE, oVex, oVex3]
    simp only [BitVec.ofNat_toNat, BitVec.setWidth_eq, BitVec.zero_and, BitVec.zero_or, BitVec.or_zero, bne_self_eq_false, Bool.false_eq_true, ↓reduceIte,
      Bool.false_and, gt_iff_lt, Nat.lt_irrefl, Nat.not_lt_zero, BitVec.zero_shiftLeft, BitVec.and_zero, bind, Except.bind, Bool.not_false,
      show (1 < 6) = True from by decide, show (1 < 5) = True from by decide, show (0x0D#32 &&& 0x80#32 != 0#32) = false from by decide,
      show (0x8D#32 &&& 0x80#32 != 0#32) = true from by decide, List.nil_append, List.length_nil, List.append_nil,
      show ((0:Nat) != 0) = false from by decide, show (1#32 <<< 20 : BitVec 32) = 0x100000#32 from by decide,
      show (0x800000#32 &&& (0x800000#32 ||| 0x40000#32 ||| 0x80000#32) != 0#32) = true from by decide,
      show (0x800000#32 &&& (0x40000#32 ||| 0x80000#32) != 0#32) = false from by decide,
      show (0x800000#32 &&& 0x800000#32) = 0x800000#32 from by decide,
      show (0x800000#32 &&& (0x800#32 ||| 0x400#32)) = 0#32 from by decide]
    generalize vexEvexMPrefix c _ opcode _ _ = r
    cases r <;> rfl

theorem cdisp8Shl_low (t : BitVec 32) : ∃ v : BitVec 32, cdisp8Shl t = v <<< 13 := ⟨_, rfl⟩

/-- the prefix part without broadcast and without a VSIB index ≥ 16: EVEX (opcode word adjusted by the compressed-displacement table), VEX3 or
VEX2 (CDSHL cleared); `options` without the `vex3` bit -/
theorem vexEvexMPrefix_nobcst (c : Model.X86.Ctx) (x opcode options : BitVec 32) (m : Mem) (hx20 : x &&& 0x00180000#32 = 0#32)
    (hopt : options &&& 0x400#32 = 0#32) :
    vexEvexMPrefix c x opcode options m =
      .ok (if x &&& 0x80D78110#32 ≠ 0#32 then
             (le32 (evexWord x opcode) ++ [opcode.truncate 8],
              opcode + cdisp8Shl (((opcode >>> 13) &&& 0x18#32) + ((opcode >>> 25) &&& 0x04#32) + ((evexWord x opcode >>> 29) &&& 0x3#32)))
           else if vexPrep x opcode 0#32 &&& 0x8000807E#32 ≠ 0#32 then
             (le32 (vex3Word (vexPrep x opcode 0#32) (opcode &&& ~~~kCDSHL_Mask)), opcode &&& ~~~kCDSHL_Mask)
           else ([0xC5#8, (vex2Byte (vexPrep x opcode 0#32)).truncate 8, opcode.truncate 8], opcode &&& ~~~kCDSHL_Mask)) := by
  have hiff : (x &&& 0x80DF8110#32 = 0#32) ↔ (x &&& 0x80D78110#32 = 0#32) := by
    constructor <;> intro h <;> bv_decide
  have hb28 : ((evexWord x opcode &&& 0x10000000#32) != 0#32) = false := by
    simp only [evexWord]; bv_decide
  have hvp : vexPrep x opcode options = vexPrep x opcode 0#32 := by
    simp only [vexPrep, oVex3]; bv_decide
  unfold vexEvexMPrefix
  rw [hvp]
  by_cases h : x &&& 0x80D78110#32 = 0#32
  · have h' : x &&& 0x80DF8110#32 = 0#32 := hiff.mpr h
    simp only [h', h, bne_self_eq_false, Bool.false_eq_true, ↓reduceIte, ne_eq, not_true_eq_false]
    by_cases h3 : vexPrep x opcode 0#32 &&& 0x8000807E#32 = 0#32
    · simp [h3]
      simp only [kCDSHL_Mask]; bv_decide
    · simp [h3]
  · have h' : ¬ x &&& 0x80DF8110#32 = 0#32 := fun hh => h (hiff.mp hh)
    simp [h', h, hb28]
    obtain ⟨v, hv⟩ := cdisp8Shl_low ((opcode >>> 13 &&& 24#32) + (opcode >>> 25 &&& 4#32) + (evexWord x opcode >>> 29 &&& 3#32))
    rw [hv]; bv_decide

/-- log2 of the broadcast element size -/
def bcstShift (unit : Nat) : BitVec 32 := BitVec.ofNat 32 (ctzSmall unit)

/-- the prefix part WITH broadcast: EVEX with b = 1; the L'L bits stay the opcode's when the broadcast's vector size (element size << count)
does not exceed the form's vector length; the compressed-displacement shift becomes log2 of the element size -/
theorem vexEvexMPrefix_bcst (c : Model.X86.Ctx) (x opcode options : BitVec 32) (m : Mem)
    (hx20 : x &&& 0x00100000#32 ≠ 0#32) (hu : c.bcstSize ≠ 0)
    (hbll : BitVec.ofNat 32 (max (ctzSmall (c.bcstSize <<< m.bcst)) 4 - 4) <<< 29 ≤ evexWord x opcode &&& (0x3#32 <<< 29))
    (hbll2 : BitVec.ofNat 32 (max (ctzSmall (c.bcstSize <<< m.bcst)) 4 - 4) <<< 29 ≤ 2#32 <<< 29) :
    vexEvexMPrefix c x opcode options m =
      .ok (le32 (evexWord x opcode) ++ [opcode.truncate 8], (opcode &&& ~~~kCDSHL_Mask) ||| (bcstShift c.bcstSize <<< 13)) := by
  have h1 : (x &&& 0x80DF8110#32 != 0#32) = true := by simp only [bne_iff_ne, ne_eq]; bv_decide
  have hb28 : ((evexWord x opcode &&& 0x10000000#32) != 0#32) = true := by
    simp only [evexWord, bne_iff_ne, ne_eq]; bv_decide
  have hu' : (c.bcstSize == 0) = false := by simpa using hu
  unfold vexEvexMPrefix
  simp only [h1, hb28, hu', ↓reduceIte, Bool.false_eq_true]
  generalize hg : BitVec.ofNat 32 (max (ctzSmall (c.bcstSize <<< m.bcst)) 4 - 4) <<< 29 = bLL at *
  have hgt : ¬ (bLL > 2#32 <<< 29) := by
    intro h; exact absurd hbll2 (by bv_decide)
  have hge : evexWord x opcode &&& (0x3#32 <<< 29) ≥ bLL := hbll
  simp only [hgt, hge, ↓reduceIte, bcstShift]
  generalize evexWord x opcode = w at *
  have e1 : (w &&& ~~~(3#32 <<< 29)) ||| (w &&& 3#32 <<< 29) = w := by bv_decide
  rw [e1]
  have e2 : BitVec.truncate 8 (opcode &&& ~~~kCDSHL_Mask ||| BitVec.ofNat 32 (ctzSmall c.bcstSize) <<< 13) = BitVec.truncate 8 opcode := by
    generalize BitVec.ofNat 32 (ctzSmall c.bcstSize) = t
    simp only [kCDSHL_Mask]; bv_decide
  rw [e2]

/-- spec-side `[base64 + disp]` operand -/
def memOpBase (size : Nat) (rb : BitVec 32) (d : BitVec 64) (seg : Nat := 0) (a32 : Bool := false) (bc : Nat := 0) : MemOp :=
  { size := size, baseKind := (if a32 then .gpd else .gpq), baseId := rb.toNat, indexKind := .none, indexId := 0, shift := 0, disp := d, seg := seg, bcst := bc, addrType := 0 }

/-- the opcode word after the EVEX compressed-displacement adjustment of `EmitVexEvexM` (no broadcast) -/
def evexCdOpcode (opcode xw : BitVec 32) : BitVec 32 :=
  opcode + cdisp8Shl (((opcode >>> 13) &&& 0x18#32) + ((opcode >>> 25) &&& 0x04#32) + ((xw >>> 29) &&& 0x3#32))

theorem memVariant_lt (a b s : BitVec 32) : memVariant a b s < 3 := by
  unfold memVariant; split
  · omega
  · split <;> omega

/-- the facts of `memHead_facts` for bit-vector arguments -/
theorem memHead_factsBV (opReg7 rb7 : BitVec 32) (v : Nat) (ho : opReg7 < 8#32) (hr : rb7 < 8#32) (hv : v < 3) (h5 : v = 0 → rb7 ≠ 5#32) :
    bits (memHead opReg7 rb7 v).1 6 2 = v ∧ (bits (memHead opReg7 rb7 v).1 0 3 == 4) = (memHead opReg7 rb7 v).2.isSome ∧
    bits (memHead opReg7 rb7 v).1 3 3 = opReg7.toNat ∧
    dispLen (memHead opReg7 rb7 v).1 (memHead opReg7 rb7 v).2 = (if v = 0 then 0 else if v = 1 then 1 else 4) ∧
    headBaseOk (memHead opReg7 rb7 v) rb7.toNat = true := by
  have ho' : opReg7.toNat < 8 := by simpa [BitVec.lt_def] using ho
  have hr' : rb7.toNat < 8 := by simpa [BitVec.lt_def] using hr
  have key := memHead_facts ⟨opReg7.toNat, ho'⟩ ⟨rb7.toNat, hr'⟩ ⟨v, hv⟩ (by
    intro hv0 h5'
    apply h5 hv0
    apply BitVec.eq_of_toNat_eq
    simpa using h5')
  simpa using key

/-- the adjusted opcode word depends on the opcode word only (the L'L bits of the EVEX prefix are the opcode's LL bits) -/
def evexCdOpcodeOf (opcode : BitVec 32) : BitVec 32 :=
  opcode + cdisp8Shl (((opcode >>> 13) &&& 0x18#32) + ((opcode >>> 25) &&& 0x04#32) + ((opcode >>> 29) &&& 0x3#32))

theorem evexCdOpcode_eq (opcode reg vvvvv xb aaa : BitVec 32) (z : Bool) (hr : reg < 32#32) (hv : vvvvv < 32#32) (hb : xb < 32#32) (ha : aaa < 8#32)
    (hxop : opcode &&& 0x800#32 = 0#32) :
    evexCdOpcode opcode (evexWord (xR opcode 0#32 reg vvvvv xb aaa ||| zOpt z) opcode) = evexCdOpcodeOf opcode := by
  have : (evexWord (xR opcode 0#32 reg vvvvv xb aaa ||| zOpt z) opcode >>> 29) &&& 0x3#32 = (opcode >>> 29) &&& 0x3#32 := by
    cases z <;> simp only [zOpt, oZMask, evexWord, xR, extractLLMMMMM, kLL_Mask, kMM_Mask, oEvex] <;> bv_decide
  simp only [evexCdOpcode, evexCdOpcodeOf, this]

end AsmjitVerif.Props.C01
