/-
C01 property theorems, front-end layer, memory operands (part 1: `[base64 + disp]`, no index / segment / broadcast, 64-bit mode).

Model side: `EmitModSib`'s [BASE + DISP] bytes are split into ModRM, optional SIB and displacement (`memEncBase`); their SDM fields are
established by exhaustive evaluation over all (reg, base & 7, displacement variant) (`memHead_facts`), the displacement value by
`cdisp8_sound` + an exhaustively checked integer bridge (`sext8_scaled`). Spec side: `parse_*_mem`, `checkMem_base64`,
`vex_rvm_mem_formOk` (Lemmas/X86Parse.lean). Composition: `vexM_rvm_formOk_*`.
-/
import AsmjitVerif.Props.C01Front
set_option linter.constructorNameAsVariable false
namespace AsmjitVerif.Props.C01
open Spec.X86 Model.X86 AsmjitVerif.Lemmas.X86Parse

/-- ModRM and optional SIB of the [BASE + DISP] path by displacement variant v (0 none, 1 disp8, 2 disp32) -/
def memHead (opReg rb7 : BitVec 32) (v : Nat) : BitVec 8 × Option (BitVec 8) :=
  let dv : BitVec 32 := if v == 1 then 0x40#32 else if v == 2 then 0x80#32 else 0#32
  let mod := encodeMod 0#32 opReg rb7
  if rb7 == 4#32 then ((((mod &&& 0xF8#32) ||| 0x04#32) + dv).truncate 8, some ((encodeSib 0#32 4#32 rb7).truncate 8))
  else ((mod + dv).truncate 8, none)

/-- the base register field: ModRM.rm, or SIB.base with index = 100 (none) and scale 0 -/
def headBaseOk (h : BitVec 8 × Option (BitVec 8)) (r : Nat) : Bool :=
  match h.2 with
  | none => bits h.1 0 3 == r
  | some sb => bits sb 0 3 == r && bits sb 3 3 == 4 && bits sb 6 2 == 0

/-- all 8 x 8 x 3 heads: mod = variant, rm = 100 iff a SIB follows, reg field, displacement length of SDM table 2-2, base field -/
theorem memHead_facts : ∀ o r : Fin 8, ∀ v : Fin 3, (v.val = 0 → r.val ≠ 5) →
    bits (memHead (BitVec.ofNat 32 o.val) (BitVec.ofNat 32 r.val) v.val).1 6 2 = v.val ∧
    (bits (memHead (BitVec.ofNat 32 o.val) (BitVec.ofNat 32 r.val) v.val).1 0 3 == 4) = (memHead (BitVec.ofNat 32 o.val) (BitVec.ofNat 32 r.val) v.val).2.isSome ∧
    bits (memHead (BitVec.ofNat 32 o.val) (BitVec.ofNat 32 r.val) v.val).1 3 3 = o.val ∧
    dispLen (memHead (BitVec.ofNat 32 o.val) (BitVec.ofNat 32 r.val) v.val).1 (memHead (BitVec.ofNat 32 o.val) (BitVec.ofNat 32 r.val) v.val).2 =
      (if v.val = 0 then 0 else if v.val = 1 then 1 else 4) ∧
    headBaseOk (memHead (BitVec.ofNat 32 o.val) (BitVec.ofNat 32 r.val) v.val) r.val = true := by
  decide

/-- which displacement form `EmitModSib` picks: none (only if the base is not rBP/r13), disp8 (compressed) or disp32 -/
def memVariant (rb7 rel s : BitVec 32) : Nat :=
  if rb7 != 5#32 && rel == 0#32 then 0 else match cdisp8 rel s with | some _ => 1 | none => 2

def memDisp (rel s : BitVec 32) (v : Nat) : List (BitVec 8) :=
  if v == 0 then [] else if v == 1 then [((cdisp8 rel s).getD 0#32).truncate 8] else le32 rel

/-- `EmitModSib` on a [base + disp] operand (no index, no 16-bit addressing, no forced SIB): ModRM :: SIB? ++ disp -/
theorem emitModSib_base_parts (c : Model.X86.Ctx) (pre : List (BitVec 8)) (ao : Nat) (opcode options opReg rbReg rxReg rmInfo : BitVec 32) (m : Mem)
    (imm : BitVec 64) (n : Nat) (htsib : c.tsib = false)
    (hni : rmInfo &&& (kX86MemInfo_Index ||| kX86MemInfo_67H_X86) = 0#32) (hbase : rmInfo &&& kX86MemInfo_BaseGp ≠ 0#32) :
    emitModSib c pre ao opcode options opReg rbReg rxReg rmInfo m imm n false =
      .ok (pre ++ ((memHead opReg (rbReg &&& 7#32) (memVariant (rbReg &&& 7#32) m.offLo32 (cdShiftOf opcode))).1 ::
                   ((memHead opReg (rbReg &&& 7#32) (memVariant (rbReg &&& 7#32) m.offLo32 (cdShiftOf opcode))).2.toList ++
                    memDisp m.offLo32 (cdShiftOf opcode) (memVariant (rbReg &&& 7#32) m.offLo32 (cdShiftOf opcode)))) ++
           emitImmediate imm n) := by
  rw [modsib_base_roundtrip c pre ao opcode options opReg rbReg rxReg rmInfo m imm n hni hbase]
  simp only [htsib, Bool.or_false, memHead, memVariant, memDisp]
  split
  · rename_i h4
    have h5 : ((rbReg &&& 7#32) != 5#32) = true := by bv_decide
    simp only [h5, Bool.true_and]
    split
    · simp_all
    · split <;> simp_all
  · split
    · simp_all
    · split <;> simp_all

theorem sext8_scaled : ∀ n : Fin 256, ∀ s : Fin 7,
    sextNat n.val 8 * ((2 ^ s.val : Nat) : Int) = sextNat ((((BitVec.ofNat 8 n.val).signExtend 32 : BitVec 32) <<< s.val).toNat) 32 := by
  decide +kernel

theorem leNat_le32 (v : BitVec 32) : leNat (le32 v) = v.toNat := by
  simp only [le32, leNat, BitVec.truncate, BitVec.toNat_setWidth, BitVec.toNat_ushiftRight, Nat.shiftRight_eq_div_pow]
  have := v.isLt
  omega

/-- the displacement the decoder reads back from `memDisp` (disp8 scaled by N = 2^s, as under EVEX disp8*N) is the displacement asked for -/
theorem memDisp_decoded (rb7 rel s : BitVec 32) (hs : s ≤ 6#32) :
    let v := memVariant rb7 rel s
    let d := memDisp rel s v
    (if d.length == 0 then (0 : Int) else if d.length == 1 then sextNat (leNat d) 8 * ((2 ^ s.toNat : Nat) : Int) else sextNat (leNat d) 32) =
      sextNat rel.toNat 32 := by
  intro v d
  simp only [v, d, memVariant, memDisp]
  split
  · rename_i h0
    have : rel = 0#32 := by simp only [Bool.and_eq_true, beq_iff_eq] at h0; exact h0.2
    subst this
    simp [sextNat]
  · cases hc : cdisp8 rel s with
    | some cd =>
      have hsound := cdisp8_sound rel cd s (by bv_decide) hc
      have hslt : s.toNat < 7 := by
        have : s < 7#32 := by bv_decide
        simpa [BitVec.lt_def] using this
      have key := sext8_scaled ⟨(cd.truncate 8 : BitVec 8).toNat, (cd.truncate 8 : BitVec 8).isLt⟩ ⟨s.toNat, hslt⟩
      simp only [BitVec.ofNat_toNat, BitVec.setWidth_eq] at key
      simp only [Option.getD_some, List.length_cons, List.length_nil, leNat, Nat.mul_zero, Nat.add_zero]
      rw [← hsound]
      simpa [BitVec.shiftLeft_eq', leNat] using key
    | none =>
      have hl : (le32 rel).length = 4 := rfl
      have hne : le32 rel ≠ [] := by simp [le32]
      simp [leNat_le32, hl, hne]

/-! ### `EmitVexEvexM` on a `[base64 + disp]` operand -/

/-- model-side `[base64 + disp]` operand -/
def memBase (size : Nat) (rb : BitVec 32) (d : BitVec 64) : Mem :=
  { size := size, baseType := 6, baseId := rb.toNat, indexType := 0, indexId := 0, shift := 0, offset := d, seg := 0, bcst := 0, addrType := 0 }

theorem memInfo_gp64 : memInfo 6 0 = 0x0D#32 := by decide

/-- the prefix word `x` of `EmitVexEvexM` for a base-only operand (no index, no broadcast, no {k}) -/
def xMb (opcode reg vvvvv rb : BitVec 32) : BitVec 32 :=
  (((reg + (vvvvv <<< 7)) <<< 4) &&& 0xF980#32) ||| ((rb <<< 2) &&& 0x20#32) ||| extractLLMMMMM opcode 0#32

theorem xMb_eq_xR (opcode reg vvvvv rb : BitVec 32) (hb : rb < 16#32) : xMb opcode reg vvvvv rb = xR opcode 0#32 reg vvvvv rb 0#32 := by
  simp only [xMb, xR]; bv_decide

/-- `EmitVexEvexM` = prefix part, then `EmitModSib` with the (adjusted) opcode word -/
theorem emitVexEvexM_base_eq (c : Model.X86.Ctx) (opcode reg vvvvv rb : BitVec 32) (size : Nat) (d imm : BitVec 64) (n : Nat)
    (hm : c.mode64 = true) (hpe : c.preferEvex = false) (hk : c.extraId = 0#32) (hvf : c.vexFlag = true) (hvs : c.vsib = false) :
    emitVexEvexM c opcode 0#32 (reg + (vvvvv <<< 7)) (memBase size rb d) imm n =
      (match vexEvexMPrefix c (xMb opcode reg vvvvv rb) opcode 0#32 (memBase size rb d) with
       | .error e => .error e
       | .ok v => emitModSib c v.1 0 v.2 0#32 ((reg + (vvvvv <<< 7)) &&& 7#32) rb 0#32 0x0D#32 (memBase size rb d) imm n false) := by
  unfold emitVexEvexM
  simp only [memBase, xMb]
  simp only [rtLabel, hvf, hk, hpe, hvs, memInfo_gp64, segmentPrefix, Model.X86.Ctx.aoMask, hm, oZMask, oER, oSAE, oVex, oVex3]
  simp only [BitVec.ofNat_toNat, BitVec.setWidth_eq, BitVec.zero_and, BitVec.zero_or, BitVec.or_zero, bne_self_eq_false, Bool.false_eq_true, ↓reduceIte,
    Bool.false_and, gt_iff_lt, Nat.lt_irrefl, Nat.not_lt_zero, BitVec.zero_shiftLeft, BitVec.and_zero, bind, Except.bind, Bool.not_false,
    show (1 < 6) = True from by decide, show (0x0D#32 &&& 0x80#32 != 0#32) = false from by decide, List.nil_append, List.length_nil,
    show ((0:Nat) != 0) = false from by decide]
  generalize vexEvexMPrefix c _ opcode 0#32 _ = r
  cases r <;> rfl

theorem cdisp8Shl_low (t : BitVec 32) : ∃ v : BitVec 32, cdisp8Shl t = v <<< 13 := ⟨_, rfl⟩

/-- the prefix part without broadcast: EVEX (opcode word adjusted by the compressed-displacement table), VEX3 or VEX2 (CDSHL cleared) -/
theorem vexEvexMPrefix_nobcst (c : Model.X86.Ctx) (x opcode : BitVec 32) (m : Mem) (hx20 : x &&& 0x80180040#32 = 0#32) :
    vexEvexMPrefix c x opcode 0#32 m =
      .ok (if x &&& 0x00D78150#32 ≠ 0#32 then
             (le32 (evexWord x opcode) ++ [opcode.truncate 8],
              opcode + cdisp8Shl (((opcode >>> 13) &&& 0x18#32) + ((opcode >>> 25) &&& 0x04#32) + ((evexWord x opcode >>> 29) &&& 0x3#32)))
           else if vexPrep x opcode 0#32 &&& 0x8000807E#32 ≠ 0#32 then
             (le32 (vex3Word (vexPrep x opcode 0#32) (opcode &&& ~~~kCDSHL_Mask)), opcode &&& ~~~kCDSHL_Mask)
           else ([0xC5#8, (vex2Byte (vexPrep x opcode 0#32)).truncate 8, opcode.truncate 8], opcode &&& ~~~kCDSHL_Mask)) := by
  have hiff : (x &&& 0x80DF8110#32 = 0#32) ↔ (x &&& 0x00D78150#32 = 0#32) := by
    constructor <;> intro h <;> bv_decide
  have hb28 : ((evexWord x opcode &&& 0x10000000#32) != 0#32) = false := by
    simp only [evexWord]; bv_decide
  unfold vexEvexMPrefix
  by_cases h : x &&& 0x00D78150#32 = 0#32
  · have h' : x &&& 0x80DF8110#32 = 0#32 := hiff.mpr h
    simp only [h', h, bne_self_eq_false, Bool.false_eq_true, ↓reduceIte, ne_eq, not_true_eq_false]
    by_cases h3 : vexPrep x opcode 0#32 &&& 0x8000807E#32 = 0#32
    · simp [h3]
      simp only [kCDSHL_Mask]; bv_decide
    · simp [h3]
  · have h' : ¬ x &&& 0x80DF8110#32 = 0#32 := fun hh => h (hiff.mp hh)
    simp [h', h, hb28]
    obtain ⟨v, hv⟩ := cdisp8Shl_low ((opcode >>> 13 &&& 24#32) + (opcode >>> 25 &&& 4#32) + (evexWord x opcode >>> 29 &&& 3#32))
    rw [hv]; bv_decide


/-- spec-side `[base64 + disp]` operand -/
def memOpBase (size : Nat) (rb : BitVec 32) (d : BitVec 64) : MemOp :=
  { size := size, baseKind := .gpq, baseId := rb.toNat, indexKind := .none, indexId := 0, shift := 0, disp := d, seg := 0, bcst := 0, addrType := 0 }

/-- the opcode word after the EVEX compressed-displacement adjustment of `EmitVexEvexM` (no broadcast) -/
def evexCdOpcode (opcode xw : BitVec 32) : BitVec 32 :=
  opcode + cdisp8Shl (((opcode >>> 13) &&& 0x18#32) + ((opcode >>> 25) &&& 0x04#32) + ((xw >>> 29) &&& 0x3#32))

theorem memVariant_lt (a b s : BitVec 32) : memVariant a b s < 3 := by
  unfold memVariant; split
  · omega
  · split <;> omega

/-- the facts of `memHead_facts` for bit-vector arguments -/
theorem memHead_factsBV (opReg7 rb7 : BitVec 32) (v : Nat) (ho : opReg7 < 8#32) (hr : rb7 < 8#32) (hv : v < 3) (h5 : v = 0 → rb7 ≠ 5#32) :
    bits (memHead opReg7 rb7 v).1 6 2 = v ∧ (bits (memHead opReg7 rb7 v).1 0 3 == 4) = (memHead opReg7 rb7 v).2.isSome ∧
    bits (memHead opReg7 rb7 v).1 3 3 = opReg7.toNat ∧
    dispLen (memHead opReg7 rb7 v).1 (memHead opReg7 rb7 v).2 = (if v = 0 then 0 else if v = 1 then 1 else 4) ∧
    headBaseOk (memHead opReg7 rb7 v) rb7.toNat = true := by
  have ho' : opReg7.toNat < 8 := by simpa [BitVec.lt_def] using ho
  have hr' : rb7.toNat < 8 := by simpa [BitVec.lt_def] using hr
  have key := memHead_facts ⟨opReg7.toNat, ho'⟩ ⟨rb7.toNat, hr'⟩ ⟨v, hv⟩ (by
    intro hv0 h5'
    apply h5 hv0
    apply BitVec.eq_of_toNat_eq
    simpa using h5')
  simpa using key

/-- shape [reg, vvvv, MEM = [base64 + disp]], EVEX rule: the bytes of `EmitVexEvexM` (EVEX branch) satisfy the monitor; `hN` is the table-layer
fact that the rule's disp8*N equals the scale the encoder's compressed-displacement table selects -/
theorem vexM_rvm_formOk_evex (c : Model.X86.Ctx) (ctx : Spec.X86.Ctx) (rule : Rule) (opcode reg vvvvv rb : BitVec 32) (size : Nat) (d : BitVec 64)
    (k0 k1 : RegKind) (f0 f1 f2 : FormOp)
    (hcm : c.mode64 = true) (hpe : c.preferEvex = false) (hk : c.extraId = 0#32) (hvf : c.vexFlag = true) (hvs : c.vsib = false) (hts : c.tsib = false)
    (hm64 : ctx.mode64 = true) (hmode : (rule.modes &&& 2 != 0) = true)
    (hr : reg < 32#32) (hv : vvvvv < 32#32) (hb : rb < 16#32) (hxop : opcode &&& 0x800#32 = 0#32)
    (hev : xR opcode 0#32 reg vvvvv rb 0#32 &&& 0x00D78150#32 ≠ 0#32)
    (hk0 : PlainKind k0) (hk1 : PlainKind k1)
    (R : VexRuleM rule 0) (hs : rule.space = 2) (A : RowAgree rule opcode true)
    (hs6 : cdShiftOf (evexCdOpcode opcode (evexWord (xR opcode 0#32 reg vvvvv rb 0#32) opcode)) ≤ 6#32)
    (hN : disp8Nf rule ((opcode >>> 29) &&& 3#32).toNat ((((opcode >>> 27) ||| (opcode >>> 28)) &&& 1#32) == 1#32) false =
          2 ^ (cdShiftOf (evexCdOpcode opcode (evexWord (xR opcode 0#32 reg vvvvv rb 0#32) opcode))).toNat)
    (hf0 : f0.role = .reg) (hf1 : f1.role = .vvvv) (hf2 : f2.role = .rm)
    (hal : alignOps rule.oszEff rule.ops [.reg k0 reg.toNat, .reg k1 vvvvv.toNat, .mem (memOpBase size rb d)] =
           some [(f0, some (.reg k0 reg.toNat)), (f1, some (.reg k1 vvvvv.toNat)), (f2, some (.mem (memOpBase size rb d)))]) :
    ∃ bytes, emitVexEvexM c opcode 0#32 (reg + (vvvvv <<< 7)) (memBase size rb d) 0 0 = .ok bytes ∧
      formOk ctx rule [.reg k0 reg.toNat, .reg k1 vvvvv.toNat, .mem (memOpBase size rb d)] {} bytes = true := by
  obtain ⟨hop, hmap, hpp, hw, hl⟩ := A
  have hs' : rule.space = 1 ∨ rule.space = 2 ∨ rule.space = 3 := Or.inr (Or.inl hs)
  -- the emitter's bytes
  have hx20 : xMb opcode reg vvvvv rb &&& 0x80180040#32 = 0#32 := by simp only [xMb, extractLLMMMMM, kLL_Mask, kMM_Mask, oEvex]; bv_decide
  rw [emitVexEvexM_base_eq c opcode reg vvvvv rb size d 0 0 hcm hpe hk hvf hvs, vexEvexMPrefix_nobcst c _ opcode _ hx20,
    xMb_eq_xR opcode reg vvvvv rb hb, if_pos hev]
  simp only []
  rw [emitModSib_base_parts c _ 0 _ 0#32 _ rb 0#32 0x0D#32 (memBase size rb d) 0 0 hts (by decide) (by decide)]
  refine ⟨_, rfl, ?_⟩
  -- abbreviations
  have hoff : (memBase size rb d).offLo32 = d.truncate 32 := rfl
  rw [hoff]
  obtain ⟨-, e15, e14, e13, e12, e11, e8, e23, e19, e18, e16, e31, e29, e28, e27, e24⟩ :=
    vex_evex_r_roundtrip opcode 0#32 reg vvvvv rb 0#32 hr hv (by bv_decide) (by decide) hxop (by decide)
  have hb0 : (evexWord (xR opcode 0#32 reg vvvvv rb 0#32) opcode).truncate 8 = 0x62#8 := by
    simp only [evexWord, xR, extractLLMMMMM, kLL_Mask, kMM_Mask, oEvex]; bv_decide
  have hsEq : evexCdOpcode opcode (evexWord (xR opcode 0#32 reg vvvvv rb 0#32) opcode) =
      opcode + cdisp8Shl (((opcode >>> 13) &&& 0x18#32) + ((opcode >>> 25) &&& 0x04#32) + ((evexWord (xR opcode 0#32 reg vvvvv rb 0#32) opcode >>> 29) &&& 0x3#32)) := rfl
  rw [← hsEq]
  generalize hsdef : cdShiftOf (evexCdOpcode opcode (evexWord (xR opcode 0#32 reg vvvvv rb 0#32) opcode)) = s at *
  generalize hwdef : evexWord (xR opcode 0#32 reg vvvvv rb 0#32) opcode = w at *
  -- head facts
  have ho7 : (reg + (vvvvv <<< 7)) &&& 7#32 < 8#32 := by bv_decide
  have hr7 : rb &&& 7#32 < 8#32 := by bv_decide
  have hvlt := memVariant_lt (rb &&& 7#32) (d.truncate 32) s
  have hv5 : memVariant (rb &&& 7#32) (d.truncate 32) s = 0 → rb &&& 7#32 ≠ 5#32 := by
    intro h0 h5
    unfold memVariant at h0
    simp [h5] at h0
    split at h0 <;> omega
  obtain ⟨fmod, fsib, freg, flen, fbase⟩ := memHead_factsBV _ _ _ ho7 hr7 hvlt hv5
  have hmd := memDisp_decoded (rb &&& 7#32) (d.truncate 32) s hs6
  simp only [] at hmd
  generalize hvdef : memVariant (rb &&& 7#32) (d.truncate 32) s = v at *
  generalize hhdef : memHead ((reg + (vvvvv <<< 7)) &&& 7#32) (rb &&& 7#32) v = hd at *
  have hdl : (memDisp (d.truncate 32) s v).length = dispLen hd.1 hd.2 := by
    rw [flen]; unfold memDisp
    have : v = 0 ∨ v = 1 ∨ v = 2 := by omega
    rcases this with h | h | h <;> subst h <;> simp [le32]
  have hmodne : bits hd.1 6 2 ≠ 3 := by rw [fmod]; omega
  simp only [le32, List.cons_append, List.nil_append, hb0, List.append_nil, emitImmediate]
  have hparse := parse_evex_mem rule (BitVec.truncate 8 (w >>> 8)) (BitVec.truncate 8 (w >>> 16)) (BitVec.truncate 8 (w >>> 24)) (opcode.truncate 8)
    hd.1 hd.2 (memDisp (d.truncate 32) s v) [] hs R.hpp8 (by rcases R.hmk with h | h <;> simp [h]) (by simp only [bit]; bv_decide)
    (by simp only [bit]; bv_decide) hmodne fsib hdl (by simp [R.himm, R.hrel]) R.hmoff
  simp only [List.append_nil] at hparse
  refine vex_rvm_mem_formOk ctx rule _ hd.1 _ k0 k1 f0 f1 f2 _ _ (memOpBase size rb d) hm64 hmode hk0 hk1 R hf0 hf1 hf2 rfl rfl rfl rfl hal hparse
    ?P ?hreg ?hvv ?hcm
  case P =>
    refine ⟨Or.inr (Or.inr (Or.inl rfl)), rfl, rfl, rfl, hmodne, ?_, ?_, ?_, ?_, ?_, by simp, ?_⟩
    · show (opcode.truncate 8 : BitVec 8).toNat = rule.opcode
      rw [hop]; exact toNat_eq_of_zext _ _ (by omega) (by bv_decide)
    · show bits _ 0 3 = rule.map
      rw [hmap]; exact toNat_eq_of_zext _ _ (by omega) (by bv_decide)
    · show bits _ 0 2 = ppWant rule
      rw [hpp]; exact toNat_eq_of_zext _ _ (by omega) (by bv_decide)
    · rw [wWant_nonlegacy rule hs']
      rcases hw with h | h
      · exact Or.inl h
      · right
        simp only [↓reduceIte] at h
        have hc : ((opcode >>> 27) ||| (opcode >>> 28)) &&& 1#32 = 0#32 ∨ ((opcode >>> 27) ||| (opcode >>> 28)) &&& 1#32 = 1#32 := by bv_decide
        rcases hc with hc | hc
        · rw [h, hc]; simp only [bit]; simp; bv_decide
        · rw [h, hc]; simp only [bit]; simp; bv_decide
    · rcases hl with h | h
      · exact Or.inl h
      · right; show bits _ 5 2 = rule.l; rw [h]; exact toNat_eq_of_zext _ _ (by omega) (by bv_decide)
    · intro _
      refine ⟨?_, ?_, ?_, ?_⟩
      · exact congrArg BitVec.toNat (show BitVec.extractLsb' 0 3 _ = 0#3 by bv_decide)
      · simp only [bit]; bv_decide
      · simp only [bit]; bv_decide
      · show bits _ 0 3 < 8
        have := (BitVec.extractLsb' 0 3 (BitVec.truncate 8 (w >>> 8))).isLt
        exact this
  case hreg =>
    show regNum _ _ (bits hd.1 3 3) = reg.toNat
    rw [freg]
    have e3 : ((reg + (vvvvv <<< 7)) &&& 7#32).toNat = (((reg + (vvvvv <<< 7)) &&& 7#32).truncate 3 : BitVec 3).toNat := by
      have : ((reg + (vvvvv <<< 7)) &&& 7#32).toNat < 8 := by simpa [BitVec.lt_def] using ho7
      rw [BitVec.truncate, BitVec.toNat_setWidth]; exact (Nat.mod_eq_of_lt this).symm
    rw [e3]
    exact regNum_eq _ _ _ reg (by simp only [bit]; bv_decide)
  case hvv =>
    exact regNum_eq4 _ _ vvvvv (by simp only [bit]; bv_decide)
  case hcm =>
    have hL : bits (BitVec.truncate 8 (w >>> 24)) 5 2 = ((opcode >>> 29) &&& 3#32).toNat := toNat_eq_of_zext _ _ (by omega) (by bv_decide)
    have hW : bit (BitVec.truncate 8 (w >>> 16)) 7 = ((((opcode >>> 27) ||| (opcode >>> 28)) &&& 1#32) == 1#32) := by simp only [bit]; bv_decide
    have hB : bit (BitVec.truncate 8 (w >>> 24)) 4 = false := by simp only [bit]; bv_decide
    have hX : (!bit (BitVec.truncate 8 (w >>> 8)) 6) = false := by simp only [bit]; bv_decide
    have hrb3 : (rb &&& 7#32).toNat = ((rb &&& 7#32).truncate 3 : BitVec 3).toNat := by
      have : (rb &&& 7#32).toNat < 8 := by simpa [BitVec.lt_def] using hr7
      rw [BitVec.truncate, BitVec.toNat_setWidth]; exact (Nat.mod_eq_of_lt this).symm
    have hbaseNum : regNum false (!bit (BitVec.truncate 8 (w >>> 8)) 5) (rb &&& 7#32).toNat = rb.toNat := by
      rw [hrb3]; exact regNum_eq _ _ _ rb (by simp only [bit]; bv_decide)
    have hne5 : bits hd.1 6 2 = 0 → (rb &&& 7#32).toNat ≠ 5 := by
      intro h0 h5
      rw [fmod] at h0
      exact hv5 h0 (by apply BitVec.eq_of_toNat_eq; simpa using h5)
    apply checkMem_base64 ctx rule _ (memOpBase size rb d) hd.1 hm64 (by simp) rfl rfl hmodne rfl rfl
    · obtain ⟨mb, sb⟩ := hd
      cases sb with
      | none =>
        left
        simp only [headBaseOk, beq_iff_eq] at fbase
        refine ⟨rfl, ?_, ?_⟩
        · intro ⟨h0, h5⟩; exact hne5 h0 (by rw [← fbase]; exact h5)
        · show regNum false _ (bits mb 0 3) = rb.toNat
          rw [fbase]; exact hbaseNum
      | some sbyte =>
        right
        simp only [headBaseOk, Bool.and_eq_true, beq_iff_eq] at fbase
        obtain ⟨⟨fb1, fb2⟩, fb3⟩ := fbase
        refine ⟨sbyte, rfl, ?_, ?_, ?_, fb3⟩
        · intro ⟨h0, h5⟩; exact hne5 h0 (by rw [← fb1]; exact h5)
        · show regNum false _ (bits sbyte 0 3) = rb.toNat
          rw [fb1]; exact hbaseNum
        · show regNum false (!bit (BitVec.truncate 8 (w >>> 8)) 6) (bits sbyte 3 3) = 4
          rw [hX, fb2]; rfl
    · show decodedDisp rule _ = _
      simp only [decodedDisp, disp8N, hL, hW, hB, hN, beq_self_eq_true, ↓reduceIte]
      have : (memOpBase size rb d).disp.toNat % 2 ^ 32 = (d.truncate 32 : BitVec 32).toNat := by simp [memOpBase, BitVec.toNat_setWidth]
      rw [this]
      exact hmd


/-- the adjusted opcode word depends on the opcode word only (the L'L bits of the EVEX prefix are the opcode's LL bits) -/
def evexCdOpcodeOf (opcode : BitVec 32) : BitVec 32 :=
  opcode + cdisp8Shl (((opcode >>> 13) &&& 0x18#32) + ((opcode >>> 25) &&& 0x04#32) + ((opcode >>> 29) &&& 0x3#32))

theorem evexCdOpcode_eq (opcode reg vvvvv rb : BitVec 32) (hr : reg < 32#32) (hv : vvvvv < 32#32) (hb : rb < 16#32) (hxop : opcode &&& 0x800#32 = 0#32) :
    evexCdOpcode opcode (evexWord (xR opcode 0#32 reg vvvvv rb 0#32) opcode) = evexCdOpcodeOf opcode := by
  obtain ⟨-, -, -, -, -, -, -, -, -, -, -, -, e29, -, -, -⟩ :=
    vex_evex_r_roundtrip opcode 0#32 reg vvvvv rb 0#32 hr hv (by bv_decide) (by decide) hxop (by decide)
  have : (evexWord (xR opcode 0#32 reg vvvvv rb 0#32) opcode >>> 29) &&& 0x3#32 = (opcode >>> 29) &&& 0x3#32 := by bv_decide
  simp only [evexCdOpcode, evexCdOpcodeOf, this]

end AsmjitVerif.Props.C01
