/-
C17, bit-field positions and lane indices of a64assembler.cpp:
 * `bitfield_alias_roundtrip` : BFC/BFI/SBFIZ/UBFIZ/BFXIL/SBFX/UBFX `#lsb, #width -> immr, imms`: executing the
   BFM/SBFM/UBFM the assembler emits (Arm ARM pseudo-code, Spec/A64Imm.lean) does what the alias is documented to do
   for every register content, a disassembler shows the operands requested, the fields fit, and a pair is refused
   exactly when the architecture has no encoding.  `lsb`, `width` range over all 64-bit immediate operand values.
 * `lmh_roundtrip` : `encode_lmh` (element index -> L:M:H) decodes back to the index; refused iff out of range.
-/
import AsmjitVerif.Spec.A64Imm
import Std.Tactic.BVDecide
namespace AsmjitVerif.A64Imm

/-- the encoder of an alias -/
def encodeAlias (a : BfAlias) (sf : Bool) (lsb width : BitVec 64) : Option (BitVec 32 × BitVec 32) :=
  if a.isInsert then encodeBfi sf lsb width else encodeBfx sf lsb width

/-- accepted ⇒ fields fit, the emitted BFM/SBFM/UBFM does what the alias means on every register content, and the
alias operand rules give back `#lsb, #width` -/
def AliasSound (a : BfAlias) (sf : Bool) : Prop :=
  ∀ (lsb width : BitVec 64) (immr imms : BitVec 32), encodeAlias a sf lsb width = some (immr, imms) →
    immr.ult (if sf then 64#32 else 32#32) = true ∧ imms.ult (if sf then 64#32 else 32#32) = true ∧
    aliasOperands a sf (immr.zeroExtend 64) (imms.zeroExtend 64) = (lsb, width) ∧
    ∀ dst src : BitVec 64,
      -- BFC is BFM with Rn = ZR: the source operand reads as zero
      bfmExec a.op sf (immr.zeroExtend 64) (imms.zeroExtend 64) dst (if a == .bfc then 0#64 else src) =
        aliasMeaning a sf lsb width dst src

syntax "prove_alias" : tactic
macro_rules
  | `(tactic| prove_alias) => `(tactic|
      (intro lsb width immr imms h
       simp (config := { decide := true }) only [encodeAlias, BfAlias.isInsert, encodeBfi, encodeBfx, if_true, if_false,
         Bool.false_eq_true] at h
       repeat' split at h
       all_goals first | (cases h; done) | (
         simp only [Option.some.injEq, Prod.mk.injEq] at h
         obtain ⟨h1, h2⟩ := h
         subst h1 h2
         simp (config := { decide := true }) only [bfmExec, aliasMeaning, aliasOperands, rorDs, onesN, BfAlias.op,
           BfAlias.isInsert, if_true, if_false, Bool.false_eq_true, Prod.mk.injEq]
         refine ⟨?_, ?_, ?_, ?_⟩
         · bv_decide (config := { timeout := 300 })
         · bv_decide (config := { timeout := 300 })
         · constructor <;> bv_decide (config := { timeout := 300 })
         · intro dst src
           bv_decide (config := { timeout := 300 }))))



theorem bfc_sound64 : AliasSound .bfc true := by prove_alias
theorem bfc_sound32 : AliasSound .bfc false := by prove_alias
theorem bfi_sound64 : AliasSound .bfi true := by prove_alias
theorem bfi_sound32 : AliasSound .bfi false := by prove_alias
theorem sbfiz_sound64 : AliasSound .sbfiz true := by prove_alias
theorem sbfiz_sound32 : AliasSound .sbfiz false := by prove_alias
theorem ubfiz_sound64 : AliasSound .ubfiz true := by prove_alias
theorem ubfiz_sound32 : AliasSound .ubfiz false := by prove_alias
theorem bfxil_sound64 : AliasSound .bfxil true := by prove_alias
theorem bfxil_sound32 : AliasSound .bfxil false := by prove_alias
theorem sbfx_sound64 : AliasSound .sbfx true := by prove_alias
theorem sbfx_sound32 : AliasSound .sbfx false := by prove_alias
theorem ubfx_sound64 : AliasSound .ubfx true := by prove_alias
theorem ubfx_sound32 : AliasSound .ubfx false := by prove_alias

theorem alias_sound_all : ∀ a sf, AliasSound a sf := by
  intro a sf
  cases a <;> cases sf
  · exact bfc_sound32
  · exact bfc_sound64
  · exact bfi_sound32
  · exact bfi_sound64
  · exact sbfiz_sound32
  · exact sbfiz_sound64
  · exact ubfiz_sound32
  · exact ubfiz_sound64
  · exact bfxil_sound32
  · exact bfxil_sound64
  · exact sbfx_sound32
  · exact sbfx_sound64
  · exact ubfx_sound32
  · exact ubfx_sound64

/-- refused exactly when the architecture has no encoding for `#lsb, #width` -/
theorem alias_refused_iff (a : BfAlias) (sf : Bool) (lsb width : BitVec 64) :
    encodeAlias a sf lsb width = none ↔ aliasEncodable sf lsb width = false := by
  cases a <;> cases sf <;>
    simp (config := { decide := true }) only [encodeAlias, BfAlias.isInsert, encodeBfi, encodeBfx, aliasEncodable,
      if_true, if_false, Bool.false_eq_true] <;>
    (repeat' split) <;> simp only [reduceCtorEq, false_iff, true_iff, Bool.not_eq_false] <;>
    bv_decide (config := { timeout := 300 })

/-- **C17, bit-field positions.** For each of the seven aliases, both operation sizes and EVERY pair of 64-bit
immediate operands: either the pair is refused and the architecture has no encoding for it, or it is accepted, the
architecture has an encoding, `immr`/`imms` fit their 6-bit (5-bit for W) fields, the disassembler's alias rule
gives back exactly `#lsb, #width`, and the emitted BFM/SBFM/UBFM computes what the alias means for every
destination / source register content. -/
theorem bitfield_alias_roundtrip (a : BfAlias) (sf : Bool) (lsb width : BitVec 64) :
    match encodeAlias a sf lsb width with
    | none => aliasEncodable sf lsb width = false
    | some (immr, imms) =>
      aliasEncodable sf lsb width = true ∧
      immr.ult (if sf then 64#32 else 32#32) = true ∧ imms.ult (if sf then 64#32 else 32#32) = true ∧
      aliasOperands a sf (immr.zeroExtend 64) (imms.zeroExtend 64) = (lsb, width) ∧
      ∀ dst src : BitVec 64,
        bfmExec a.op sf (immr.zeroExtend 64) (imms.zeroExtend 64) dst (if a == .bfc then 0#64 else src) =
          aliasMeaning a sf lsb width dst src := by
  cases h : encodeAlias a sf lsb width with
  | none => exact (alias_refused_iff a sf lsb width).1 h
  | some p =>
    obtain ⟨immr, imms⟩ := p
    have hs := alias_sound_all a sf lsb width immr imms h
    refine ⟨?_, hs.1, hs.2.1, hs.2.2.1, hs.2.2.2⟩
    cases he : aliasEncodable sf lsb width with
    | true => rfl
    | false => rw [(alias_refused_iff a sf lsb width).2 he] at h; cases h

/-- raw BFM/SBFM/UBFM: accepted iff both fields fit, and they are stored unchanged -/
theorem bfm_fields (sf : Bool) (immr imms : BitVec 64) :
    match encodeBfm sf immr imms with
    | none => ¬ (immr.ult (if sf then 64#64 else 32#64) = true ∧ imms.ult (if sf then 64#64 else 32#64) = true)
    | some (r, s) => r.zeroExtend 64 = immr ∧ s.zeroExtend 64 = imms ∧
        immr.ult (if sf then 64#64 else 32#64) = true ∧ imms.ult (if sf then 64#64 else 32#64) = true := by
  cases sf <;> simp only [encodeBfm, if_true, if_false, Bool.false_eq_true] <;> split <;> rename_i h <;>
    split at h <;> simp_all <;> bv_decide (config := { timeout := 300 })

/-- **`encode_lmh`.** For half-word (size field 1) and word (size field 2) elements and every index: the answer says
"ok" exactly when the index exists (< 8 resp. < 4); then L:M:H put together as the architecture does (H:L:M resp. H:L)
is the index, every part fits its field, M stays clear for word elements (bit 20 belongs to Rm there), and the
register limit is 15 resp. 31. -/
theorem lmh_roundtrip (sz idx : BitVec 32) (hsz : sz = 1#32 ∨ sz = 2#32) :
    match encodeLmh sz idx with
    | none => False
    | some (ok, lm, h, mx) =>
      (ok = true ↔ idx.ult (if sz == 1#32 then 8#32 else 4#32) = true) ∧
      mx = (if sz == 1#32 then 15#32 else 31#32) ∧
      (ok = true → lmhIndex sz (lm >>> 1) (lm &&& 1#32) h = idx ∧ lm.ult 4#32 = true ∧ h.ult 2#32 = true ∧
        (sz = 2#32 → lm &&& 1#32 = 0#32)) := by
  rcases hsz with h | h <;> subst h <;>
    simp (config := { decide := true }) only [encodeLmh, lmhIndex, if_true, if_false, Bool.false_eq_true,
      Bool.and_false, Bool.false_and, Bool.and_true, Bool.true_and] <;>
    refine ⟨?_, ?_, ?_⟩ <;> bv_decide (config := { timeout := 300 })

/-- other size fields have no by-element form -/
theorem lmh_refused (sz idx : BitVec 32) (hsz : sz ≠ 1#32 ∧ sz ≠ 2#32) : encodeLmh sz idx = none := by
  simp [encodeLmh, hsz.1, hsz.2]

/-! non-vacuity -/
example : encodeAlias .bfi true 8#64 16#64 = some (56#32, 15#32) := by decide
example : encodeAlias .ubfx false 31#64 1#64 = some (31#32, 31#32) ∧ encodeAlias .ubfx false 31#64 2#64 = none := by decide
example : encodeAlias .sbfiz true 63#64 1#64 = some (1#32, 0#32) ∧ encodeAlias .sbfiz true 64#64 1#64 = none := by decide
example : encodeAlias .bfc false 0#64 0x100000001#64 = none := by decide     -- a width that only looks like 1 after truncation
example : bfmExec .sbfm true 56#64 15#64 0#64 0x8001#64 = 0xFFFFFFFFFF800100#64 := by decide
example : encodeLmh 1#32 5#32 = some (true, 1#32, 1#32, 15#32) ∧ encodeLmh 2#32 3#32 = some (true, 2#32, 1#32, 31#32) := by decide

end AsmjitVerif.A64Imm
