/- C20 — kExplainImms annotations tell the truth about every immediate byte (see Props/C20Explain.lean), part D. -/
import AsmjitVerif.Props.C20Explain

namespace AsmjitVerif.Props.C20

set_option maxRecDepth 100000 in
theorem annotation_truth_vpcmp_vpcom : annotationTruth
    ["vpcmpb", "vpcmpd", "vpcmpq", "vpcmpw", "vpcmpub", "vpcmpud", "vpcmpuq", "vpcmpuw", "vpcomb", "vpcomd", "vpcomq", "vpcomw", "vpcomub", "vpcomud", "vpcomuq", "vpcomuw"] = true := by decide +kernel

end AsmjitVerif.Props.C20
