/- C20 — kExplainImms annotations tell the truth about every immediate byte (see Props/C20Explain.lean), part B. -/
import AsmjitVerif.Props.C20Explain

namespace AsmjitVerif.Props.C20

set_option maxRecDepth 100000 in
theorem annotation_truth_shuffles : annotationTruth
    ["vpshufd", "pshufd", "vpshufhw", "vpshuflw", "pshufhw", "pshuflw", "pshufw", "vpermq", "vpermpd", "vshuff32x4", "vshuff64x2", "vshufi32x4", "vshufi64x2", "vshufpd", "shufpd", "vshufps", "shufps"] = true := by decide +kernel

end AsmjitVerif.Props.C20
