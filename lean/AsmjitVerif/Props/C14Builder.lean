/-
C14 on the Builder / Compiler front end: failure atomicity over Model/Builder.lean (C08's model of builder.cpp) and
Model/BuilderC14.lean (the strict-validation exit of `_emit`).  All states, all calls, all histories.
-/
import AsmjitVerif.Model.BuilderC14
import AsmjitVerif.Lemmas.C08Ops
import AsmjitVerif.Props.C14

namespace AsmjitVerif.Props.C14Builder
open AsmjitVerif.Builder AsmjitVerif.BuilderC14

/-! ## one call -/

/-- the front end of a refused call returns the front state it was given and asks for no list action -/
theorem front_err (f : Front) (act : Nat → Bool) (op : Op) (e : String) (h : (front f act op).2.1 = .err e) :
    (front f act op).1 = f ∧ (front f act op).2.2 = [] := by
  cases op <;> simp only [front] at h ⊢
  all_goals (repeat' split) <;> simp_all [Front.newNode]

/-- **A refused Builder call is the identity**: no node is created (`nodes`), none is linked (`list`), the cursor, the cached
section links, the label-node and section-node tables stay, and the pending one-shot state is left exactly as it was (these
calls do not own it).  Covers bind (invalid id, already linked), embed_data_array (invalid type), embed_label / embed_label_delta
(invalid id, invalid size), embed_const_pool (invalid id, already linked label - /repo fix C14-12). -/
theorem builder_refused_call_identity (s : St) (op : Op) (e : String) (h : (step s op).2 = .err e) : (step s op).1 = s := by
  unfold step at h ⊢
  by_cases hp : rangePre s.l op
  · simp only [hp, Bool.not_true, Bool.false_eq_true, if_false] at h ⊢
    have hf := front_err s.f s.l.active op e h
    cases s
    simp_all
  · simp [hp] at h

/-- a call outside the modelled precondition is the identity as well -/
theorem builder_pre_identity (s : St) (op : Op) (h : (step s op).2 = .pre) (hf : (front s.f s.l.active op).2.1 = .pre → 
    (front s.f s.l.active op).1 = s.f ∧ (front s.f s.l.active op).2.2 = []) : (step s op).1 = s := by
  unfold step at h ⊢
  by_cases hp : rangePre s.l op
  · simp only [hp, Bool.not_true, Bool.false_eq_true, if_false] at h ⊢
    have := hf h
    cases s
    simp_all
  · simp [hp]

/-- **A refused instruction** (strict validation): nothing is created or linked, and the one-shot state is cleared. -/
theorem builder_refused_emit (s : St) (e : String) (id : Nat) (ops : List Operand) :
    (emitChecked s (some e) id ops).2 = .err e ∧
    (emitChecked s (some e) id ops).1.l = s.l ∧
    (emitChecked s (some e) id ops).1.f.nodes = s.f.nodes ∧
    (emitChecked s (some e) id ops).1.f.labelNodes = s.f.labelNodes ∧
    (emitChecked s (some e) id ops).1.f.sectionNodes = s.f.sectionNodes ∧
    (emitChecked s (some e) id ops).1.f.nSections = s.f.nSections ∧
    oneShotEmpty (emitChecked s (some e) id ops).1.f := by
  simp [emitChecked, clearOneShot, oneShotEmpty]

/-- **An accepted instruction** consumes the one-shot state too, and adds exactly one node -/
theorem builder_accepted_emit (s : St) (id : Nat) (ops : List Operand) :
    (emitChecked s none id ops).2 = .ok ∧ oneShotEmpty (emitChecked s none id ops).1.f ∧
    (emitChecked s none id ops).1.f.nodes.length = s.f.nodes.length + 1 := by
  simp [emitChecked, step, rangePre, front, Front.newNode, oneShotEmpty]

/-! ## histories -/

/-- non-setter calls never touch the one-shot state -/
theorem plain_keeps_one_shot (s : St) (op : Op) (hs : isSetter op = false) :
    (step s op).1.f.opts = s.f.opts ∧ (step s op).1.f.extra = s.f.extra ∧ (step s op).1.f.cmt = s.f.cmt ∨
    (∃ id ops, op = .inst id ops) := by
  by_cases hi : ∃ id ops, op = .inst id ops
  · exact Or.inr hi
  · refine Or.inl ?_
    unfold step
    by_cases hp : rangePre s.l op
    · simp only [hp, Bool.not_true, Bool.false_eq_true, if_false]
      cases op <;> simp only [front, isSetter] at hs hi ⊢
      all_goals first
        | (exfalso; exact hi ⟨_, _, rfl⟩)
        | (exfalso; exact Bool.noConfusion hs)
        | ((repeat' split) <;> simp_all [Front.newNode])
    · simp [hp]

/-- one call of a session keeps "no one-shot state pending" (instructions consume it, refused ones clear it, the rest does not touch it) -/
theorem stepX_one_shot (s : St) (c : CallX) (h : oneShotEmpty s.f)
    (hc : nonSetter c = true) : oneShotEmpty (stepX s c).1.f := by
  cases c with
  | plain op =>
    have hc' : isSetter op = false := by simpa [nonSetter] using hc
    rcases plain_keeps_one_shot s op hc' with h1 | ⟨id, ops, rfl⟩
    · simp only [stepX]
      obtain ⟨a, b, c⟩ := h1
      exact ⟨a.trans h.1, b.trans h.2.1, c.trans h.2.2⟩
    · exact (builder_accepted_emit s id ops).2.1
  | emit o x cm verdict id ops =>
    cases verdict with
    | none => exact (builder_accepted_emit _ id ops).2.1
    | some e => exact (builder_refused_emit _ e id ops).2.2.2.2.2.2

/-- a refused call of a session, made with no one-shot state pending, is the identity -/
theorem stepX_refused_identity (s : St) (c : CallX) (h : oneShotEmpty s.f) (hr : isErr (stepX s c).2 = true) : (stepX s c).1 = s := by
  cases c with
  | plain op =>
    simp only [stepX] at hr ⊢
    cases hres : (step s op).2 with
    | err e => exact builder_refused_call_identity s op e hres
    | ok => simp [hres, isErr] at hr
    | pre => simp [hres, isErr] at hr
  | emit o x cm verdict id ops =>
    cases verdict with
    | none =>
      have := (builder_accepted_emit { s with f := { s.f with opts := s.f.opts ||| o, extra := x, cmt := cm } } id ops).1
      simp [stepX, this, isErr] at hr
    | some e =>
      obtain ⟨h1, h2, h3⟩ := h
      cases s with
      | mk f l =>
        cases f
        simp_all [stepX, emitChecked, clearOneShot]

/-- **Like a fresh Builder**: for every session - valid and refused calls interleaved in any way, instructions carrying their
one-shot state - the Builder ends in exactly the state (nodes, list, cursor, section links, label and section tables, one-shot
state) of a Builder that was handed the accepted calls only. -/
theorem builder_fresh_after_failure (cs : List CallX) (s : St) (h : oneShotEmpty s.f) (hn : noSetters cs = true) :
    runX s cs = runX s (acceptedX s cs) := by
  induction cs generalizing s with
  | nil => rfl
  | cons c cs ih =>
    have hc : nonSetter c = true ∧ noSetters cs = true := by
      simpa [noSetters, List.all_cons] using hn
    have h' := stepX_one_shot s c h hc.1
    by_cases hr : isErr (stepX s c).2 = true
    · have hid := stepX_refused_identity s c h hr
      simp only [runX, acceptedX, hr, if_true]
      rw [hid]
      exact ih s h hc.2
    · simp only [runX, acceptedX, hr]
      exact ih _ h' hc.2

/-! ## serialize / finalize -/

/-- **A failed serialize_to / finalize stops at the first refused node with that node's error, and - when the destination itself is
failure atomic (the Assembler: `Props.C14.failed_call_identity`) - leaves the destination exactly as the accepted prefix left it.** -/
theorem failed_serialize_leaves_exactly_the_prefix {σ : Type} (dst : σ → Call → σ × Option String)
    (hat : ∀ st c st' e, dst st c = (st', some e) → st' = st)
    (cs : List Call) (s s' : σ) (e : String) (h : serializeTo dst s cs = (s', some e)) :
    ∃ pre c post, cs = pre ++ c :: post ∧
      (∀ p q r, pre = p ++ q :: r → (dst (issueAll dst s p) q).2 = none) ∧
      (dst (issueAll dst s pre) c).2 = some e ∧
      s' = issueAll dst s pre := by
  obtain ⟨pre, c, post, h1, h2, h3⟩ := serializeTo_err dst cs s s' e h
  exact ⟨pre, c, post, h1, h2, by rw [h3], hat _ _ _ _ h3⟩

/-- the Assembler of Model/Emitter.lean as a `serialize_to` destination (`tr` = how a node's call reaches it, including the encoder's
outcome for instructions); calls made with one-shot state pending or in the class of finding C14-K1 are answered "outside" -/
def asmDst (tr : Call → Emitter.Op) (st : Emitter.St) (c : Call) : Emitter.St × Option String :=
  if st.one = Emitter.OneShot.empty ∧ Emitter.bindOverflows st (tr c) = false then
    ((Emitter.step st (tr c)).st, if (Emitter.step st (tr c)).code = Gen.Err.ok then none else some (toString (Emitter.step st (tr c)).code))
  else (st, some "outside")

/-- ... is failure atomic, so `failed_serialize_leaves_exactly_the_prefix` applies to it: after a failed `finalize()` the CodeHolder
holds exactly what the nodes in front of the refused one produced. -/
theorem asmDst_atomic (tr : Call → Emitter.Op) : ∀ st c st' e, asmDst tr st c = (st', some e) → st' = st := by
  intro st c st' e h
  unfold asmDst at h
  split at h
  · rename_i hc
    by_cases hk : (Emitter.step st (tr c)).code = Gen.Err.ok
    · simp [hk] at h
    · have := Props.C14.failed_call_identity st (tr c) hc.1 hc.2 hk
      simp only [hk, if_false, Prod.mk.injEq] at h
      rw [← h.1, this]
  · simp only [Prod.mk.injEq] at h
    exact h.1.symm

theorem failed_finalize_leaves_exactly_the_prefix (tr : Call → Emitter.Op) (cs : List Call) (s s' : Emitter.St) (e : String)
    (h : serializeTo (asmDst tr) s cs = (s', some e)) :
    ∃ pre c post, cs = pre ++ c :: post ∧ (asmDst tr (issueAll (asmDst tr) s pre) c).2 = some e ∧ s' = issueAll (asmDst tr) s pre := by
  obtain ⟨pre, c, post, h1, _, h3, h4⟩ := failed_serialize_leaves_exactly_the_prefix (asmDst tr) (asmDst_atomic tr) cs s s' e h
  exact ⟨pre, c, post, h1, h3, h4⟩

/-! ## non-vacuity -/

/-- bind of an invalid label, bind of an already linked label, embed_label with a bad size, a refused instruction with pending
one-shot state, valid calls in between -/
def demo : List CallX := [
  .plain .newlabel,
  .emit 0x2000 "k1" "c" (some "InvalidInstruction") 5 ["r1", "r2"],
  .plain (.bind 7),
  .plain (.bind 0),
  .plain (.bind 0),
  .plain (.elabel 0 3),
  .emit 0 "-" "-" none 5 ["r1", "r2"],
  .plain (.cpool 0 8 "0102030405060708")]

example : (demo.foldl (fun (acc : St × List Res) c => ((stepX acc.1 c).1, acc.2 ++ [(stepX acc.1 c).2])) (St.init 8, [])).2 =
    [.ok, .err "InvalidInstruction", .err "InvalidLabel", .ok, .err "LabelAlreadyBound", .err "InvalidOperandSize", .ok,
     .err "LabelAlreadyBound"] := by decide +kernel
example : (runX (St.init 8) demo).l.list = [0, 1, 2] ∧ (runX (St.init 8) demo).f.nodes.length = 3 := by decide +kernel
example : runX (St.init 8) demo = runX (St.init 8) (acceptedX (St.init 8) demo) :=
  builder_fresh_after_failure demo (St.init 8) ⟨rfl, rfl, rfl⟩ (by decide)
example : (acceptedX (St.init 8) demo).length = 3 := by decide +kernel

end AsmjitVerif.Props.C14Builder
