/-
C16 T(a) — "no field forgotten": every data member of CodeHolder / Section / CodeBuffer / the emitters (BaseEmitter,
BaseAssembler, BaseBuilder, BaseCompiler and the six x86 / a64 classes) / BaseRAPass / Arena is overwritten as a whole on
every recycle path, or is on an explicit reviewed keep-list.

The record layouts (`recordMap`) and the function bodies (`resetMap`) are regenerated from clang's AST of the current
sources on every run (Gen/ResetMap.lean, tools/ast_fields.py); the analysis is Model/ResetMap.lean, evaluated by the kernel.

Reading of one theorem: for every leaf `l` of the record (members of member records expanded, base classes included)
  `definitelyWritten resetMap depth path l` — some statement that executes on every complete run of the recycle path
      overwrites `l` or a member that contains it (`x = e`, `x.reset()`, constructor initialiser, memset of sizeof ...;
      read-modify-write such as `|=` or `++`, writes under one arm of an `if`, and writes in loop bodies do NOT count), or
  `kept keep l` — `l` is on the keep-list of that path, each entry of which carries the reason why not re-initialising it
      cannot leak earlier use into later output.
"Complete run" = every entry function returns from its end; error exits (`if (err) return err;`) are not modelled.
`keep_lists_are_tight`: no keep-list entry is dead (matches no leaf) or definitely written by all its users.
What this does NOT show: that the value written is history independent (that is T(b), Props/C16.lean) - only that no
field is forgotten.
-/
import AsmjitVerif.Gen.ResetMap
namespace AsmjitVerif.ResetMap

/-- calls are inlined to this depth (the deepest chain is x86::Compiler::on_attach → BaseCompiler::on_attach →
    BaseCompiler::on_detach → BaseBuilder::on_detach → BaseBuilder_clear_all → Arena::reset → Arena_assign_block);
    a deeper chain is poison and makes the theorems fail -/
def depth : Nat := 8

/-! ### leaves -/

def holderLeaves : List Leaf := leaves recordMap 4 "CodeHolder"
def sectionLeaves : List Leaf := leaves recordMap 4 "Section"
def rapassLeaves : List Leaf := leaves recordMap 4 "BaseRAPass"
def arenaLeaves : List Leaf := leaves recordMap 4 "Arena"
def emitterClasses : List String :=
  ["x86::Assembler", "x86::Builder", "x86::Compiler", "a64::Assembler", "a64::Builder", "a64::Compiler"]

/-! ### genuine defects of the pinned tree found by this analysis -/

/-- Leaves that were NOT re-initialised in the pinned tree.  Not used by any theorem: the theorems below are stated for
    the repaired code, and fail on an unrepaired tree for exactly these leaves.
    * BaseCompiler::_jump_annotations — BaseCompiler_clear (on_detach / on_reinit) reset `_virt_regs` but not this
      vector, whose storage lives in `_builder_arena` that BaseBuilder_clear_all resets: after reinit / re-attach the
      vector still has its old size and points into recycled arena memory (fixes/C16-1: `self->_jump_annotations.reset()`).
    * Section::_name in CodeHolder::new_section — the section comes from `alloc_oneshot` (not zeroed) and only
      `name_size` bytes were copied: unterminated name that depends on earlier arena contents (defect #9, fixes/C16-2:
      memset of the whole name first). -/
def knownUnreset : List (String × List String) :=
  [("BaseCompiler", ["_jump_annotations"]), ("Section", ["_name"])]

/-! ### keep-lists (record that declares the first member, member path) — one reason per entry -/

/-- Arena members that `Arena::reset` does not overwrite unconditionally (apply to every embedded arena as well) -/
def keepArena : List (String × List String) :=
  [ -- block chain: kept on purpose by a soft reset (capacity only; the cursor `_ptr/_end/_current_block` is reset to its
    -- first block), released and replaced under kHard
    ("Arena", ["_first_block"]),
    -- size class of the NEXT malloc'ed block: reset under kHard, kept by a soft reset; influences block sizes only
    ("Arena", ["_current_block_size_shift"]),
    -- configuration, written only by Arena::_init (constructor)
    ("Arena", ["_min_block_size_shift"]),
    ("Arena", ["_max_block_size_shift"]),
    -- whether the first block is caller-provided static memory: fixed at construction
    ("Arena", ["_has_static_block"]) ]

/-- CodeHolder: `reset(policy)` followed by `init(env, features, base)` -/
def keepHolderReset : List (String × List String) :=
  [ -- list head of attached emitters: CodeHolder_detach_emitters runs `while (emitter) { ...; _attached_first = next; }`
    -- until it is null (a write inside a loop body, so not counted); with no emitter attached it already is null
    ("CodeHolder", ["_attached_first"]),
    -- ".text": Section_init_name rewrites words 0..3 (16 bytes); words 4..8 are zero since the constructor
    -- value-initialised `_text_section{}` and no code writes Section::_name except Section_init_name / new_section
    ("CodeHolder", ["_text_section", "_name"]),
    -- a soft reset keeps the .text allocation (capacity only: `_size` is reset to 0, bytes beyond `_size` are never
    -- read); a hard reset frees it and nulls both (CodeHolder_reset_sections from section 0)
    ("CodeHolder", ["_text_section", "_buffer", "_data"]),
    ("CodeHolder", ["_text_section", "_buffer", "_capacity"]),
    -- kIsExternal / kIsFixed: no library code ever sets them (only `= CodeBuffer{}` writes the member): zero since the
    -- constructor unless the user pokes the public member
    ("CodeHolder", ["_text_section", "_buffer", "_flags"]) ] ++ keepArena

/-- CodeHolder: `reinit()` — documented to keep environment, cpu features, base address, logger, error handler and the
    attached emitters ("It won't detach Logger, ErrorHandler, nor attached emitters") -/
def keepHolderReinit : List (String × List String) :=
  [ ("CodeHolder", ["_environment"]), ("CodeHolder", ["_cpu_features"]),
    -- the parameters of `init()` persist; `_base_address` itself is NOT kept: `relocate_to_base` overwrites it, so reinit
    -- restores it from `_init_base_address` (fixes/C16-3.patch)
    ("CodeHolder", ["_init_base_address"]),
    ("CodeHolder", ["_logger"]), ("CodeHolder", ["_error_handler"]),
    -- emitters stay attached by design (each gets on_reinit, see `emitter_reinit_covers_all_fields`)
    ("CodeHolder", ["_attached_first"]), ("CodeHolder", ["_attached_last"]),
    -- as for reset (a reinit is a soft reset)
    ("CodeHolder", ["_text_section", "_name"]),
    ("CodeHolder", ["_text_section", "_buffer", "_data"]),
    ("CodeHolder", ["_text_section", "_buffer", "_capacity"]),
    ("CodeHolder", ["_text_section", "_buffer", "_flags"]) ] ++ keepArena

/-- Section created by `CodeHolder::new_section`: nothing may be kept (fresh, un-zeroed arena memory) -/
def keepNewSection : List (String × List String) := []

/-- emitters: `CodeHolder::detach(e)` then `CodeHolder::attach(e)` (with the most derived on_detach / on_attach) -/
def keepEmitterDetachAttach : List (String × List String) :=
  [ -- kind of emitter: assigned by the constructors only (BaseEmitter(type), BaseCompiler())
    ("BaseEmitter", ["_emitter_type"]),
    -- on_detach clears every flag except kOwnLogger | kOwnErrorHandler (`_clear_emitter_flags(~kEmitterPreservedFlags)`,
    -- a read-modify-write, so not counted); the two kept bits say that logger / handler below are the user's own
    ("BaseEmitter", ["_emitter_flags"]),
    -- capabilities of the class (kEnableVirtRegs for compilers): constructors only
    ("BaseEmitter", ["_validation_flags"]),
    -- user settings of the emitter object (add_/clear_diagnostic_options, add_/clear_encoding_options): not derived from
    -- any holder or emitted code; meant to survive re-attachment like the own logger
    ("BaseEmitter", ["_diagnostic_options"]),
    ("BaseEmitter", ["_encoding_options"]),
    -- architectures the class can target: constructors only
    ("BaseEmitter", ["_arch_mask"]),
    -- on_detach nulls them unless they are the user's own (`if (!has_own_logger()) _logger = nullptr`), on_attach
    -- (on_settings_updated) reloads them from the holder under the same condition: a user-owned logger / handler persists
    ("BaseEmitter", ["_logger"]),
    ("BaseEmitter", ["_error_handler"]),
    -- table of function pointers chosen by the class in its constructor (init_emitter_funcs); the only entry that depends
    -- on the holder (x86 `validate`, 32 vs 64 bit) is reassigned by update_emitter_funcs in every on_attach
    ("BaseEmitter", ["_funcs"]),
    -- cache-validity flag of the section links: stale `true` only forces update_section_links() to recompute the links
    -- (idempotent, then sets it false); stale `false` is consistent with the single fresh SectionNode that
    -- BaseBuilder_init_section installs (its `_next_section` is null)
    ("BaseBuilder", ["_dirty_section_links"]) ] ++ keepArena

/-- emitters: `on_reinit` (the emitter stays attached to the same holder, whose environment / logger / error handler
    `CodeHolder::reinit` keeps) -/
def keepEmitterReinit : List (String × List String) :=
  [ ("BaseEmitter", ["_emitter_type"]), ("BaseEmitter", ["_validation_flags"]), ("BaseEmitter", ["_arch_mask"]),
    ("BaseEmitter", ["_funcs"]),                                      -- as above: fixed by the class
    ("BaseEmitter", ["_diagnostic_options"]), ("BaseEmitter", ["_encoding_options"]),   -- user settings
    -- attachment state: the emitter remains attached to the same holder
    ("BaseEmitter", ["_code"]), ("BaseEmitter", ["_attached_prev"]), ("BaseEmitter", ["_attached_next"]),
    -- kAttached / kLogComments / kOwn*: functions of the attachment and of the logger, which do not change
    ("BaseEmitter", ["_emitter_flags"]),
    -- derived at attach time from the holder's environment and the emitter class only (not from emitted code);
    -- the holder keeps its environment across reinit
    ("BaseEmitter", ["_instruction_alignment"]), ("BaseEmitter", ["_environment"]), ("BaseEmitter", ["_gp_signature"]),
    ("BaseEmitter", ["_private_data"]),                               -- x86 address-override mask: from the arch
    -- kReserved / kX86_InvalidRex: from logger, diagnostic options and arch (BaseEmitter_updateForcedOptions)
    ("BaseEmitter", ["_forced_inst_options"]),
    -- holder's or own logger / handler: CodeHolder::reinit keeps both
    ("BaseEmitter", ["_logger"]), ("BaseEmitter", ["_error_handler"]),
    ("BaseBuilder", ["_dirty_section_links"]) ] ++ keepArena       -- as above

/-- BaseRAPass: one `run_on_function` -/
def keepRAPassFunction : List (String × List String) :=
  [ -- Pass: the builder the pass belongs to and its name, constructor only
    ("Pass", ["_cb"]), ("Pass", ["_name"]),
    -- points at the arch pass's own EmitHelper member: set once by the X86RAPass / ARMRAPass constructor
    ("BaseRAPass", ["_emit_helper_ptr"]),
    -- per run(), not per function: set by RAPass_prepare_logging before the first function and cleared by
    -- RAPass_cleanup_logging after the last (see `rapass_run_covers_all_fields`)
    ("BaseRAPass", ["_logger"]), ("BaseRAPass", ["_format_options"]), ("BaseRAPass", ["_diagnostic_options"]),
    -- stack / frame pointer registers of the architecture: assigned by the arch pass's on_init() at the start of every
    -- function (virtual, outside this map) from the compiler's zsp()/zbp() (x86) or sp/x29 (a64)
    ("BaseRAPass", ["_sp"]), ("BaseRAPass", ["_fp"]),
    -- scratch string for log lines and inline comments: every user starts with clear() / assign_format()
    ("BaseRAPass", ["_tmp_string"]) ]

/-- BaseRAPass: one whole `run` -/
def keepRAPassRun : List (String × List String) :=
  [ ("Pass", ["_cb"]), ("Pass", ["_name"]), ("BaseRAPass", ["_emit_helper_ptr"]),
    ("BaseRAPass", ["_sp"]), ("BaseRAPass", ["_fp"]), ("BaseRAPass", ["_tmp_string"]) ]   -- reasons as above

/-! ### recycle paths -/

def pathHolderReset : RPath := [⟨"CodeHolder::reset", "this", false⟩, ⟨"CodeHolder::init/3", "this", false⟩]
def pathHolderReinit : RPath := [⟨"CodeHolder::reinit", "this", false⟩]
def pathNewSection : RPath := [⟨"CodeHolder::new_section", "section", false⟩]
def pathRAPassFunction : RPath := [⟨"BaseRAPass::run_on_function", "this", false⟩]
def pathRAPassRun : RPath := [⟨"BaseRAPass::run", "this", false⟩]
def pathArenaReset : RPath := [⟨"Arena::reset", "this", false⟩]

/-- the most derived class in the chain `c, base c, ...` that defines `handler` -/
def handlerOf (handler : String) : Nat → String → String
  | 0, c => c ++ "::" ++ handler
  | k + 1, c =>
    if (lookup resetMap (c ++ "::" ++ handler)).isSome then c ++ "::" ++ handler
    else match lookup recordMap c with
      | some (base, _) => if base == "" then c ++ "::" ++ handler else handlerOf handler k base
      | none => c ++ "::" ++ handler

/-- `code.detach(&e); code.attach(&e);` for an emitter of class `c`: the virtual on_detach / on_attach are taken from the
    most derived class (inside CodeHolder::detach / attach they are resolved by static type and `on_detach` is guarded by
    `!is_destroyed()`: an emitter being destroyed is not reused) -/
def pathEmitterDetachAttach (c : String) : RPath :=
  [⟨handlerOf "on_detach" 4 c, "this", false⟩, ⟨"CodeHolder::detach", "emitter", false⟩,
   ⟨handlerOf "on_attach" 4 c, "this", false⟩, ⟨"CodeHolder::attach", "emitter", false⟩]

/-- `code.reset(); code.init(..); code.attach(&e);`: the holder detaches its emitters itself (CodeHolder_detach_emitters,
    a loop over the attached emitters: its body runs exactly once with `emitter` = the emitter we follow) -/
def pathEmitterHolderReset (c : String) : RPath :=
  [⟨handlerOf "on_detach" 4 c, "this", false⟩, ⟨"CodeHolder_detach_emitters", "emitter", true⟩,
   ⟨handlerOf "on_attach" 4 c, "this", false⟩, ⟨"CodeHolder::attach", "emitter", false⟩]

/-- `code.reinit()` calls `on_reinit` of every attached emitter -/
def pathEmitterReinit (c : String) : RPath := [⟨handlerOf "on_reinit" 4 c, "this", false⟩]

/-! ### the theorems -/

set_option maxRecDepth 100000 in
theorem holder_reset_then_init_covers_all_fields :
    ∀ l ∈ holderLeaves, definitelyWritten resetMap depth pathHolderReset l = true ∨ kept keepHolderReset l = true :=
  covers_of_uncovered_nil (by decide +kernel)

set_option maxRecDepth 100000 in
theorem holder_reinit_covers_all_fields :
    ∀ l ∈ holderLeaves, definitelyWritten resetMap depth pathHolderReinit l = true ∨ kept keepHolderReinit l = true :=
  covers_of_uncovered_nil (by decide +kernel)

/-- the constructor initialises every member (the keep reasons "zero since construction" rest on this) -/
theorem holder_constructor_initialises_all_fields :
    ∀ l ∈ holderLeaves, definitelyWritten resetMap depth [⟨"CodeHolder::CodeHolder", "this", false⟩] l = true ∨ kept [] l = true :=
  covers_of_uncovered_nil (by decide +kernel)

set_option maxRecDepth 100000 in
theorem new_section_initialises_all_fields :
    ∀ l ∈ sectionLeaves, definitelyWritten resetMap depth pathNewSection l = true ∨ kept keepNewSection l = true :=
  covers_of_uncovered_nil (by decide +kernel)

set_option maxRecDepth 100000 in
theorem emitter_detach_then_attach_covers_all_fields :
    ∀ c ∈ emitterClasses, ∀ l ∈ leaves recordMap 4 c,
      definitelyWritten resetMap depth (pathEmitterDetachAttach c) l = true ∨ kept keepEmitterDetachAttach l = true := by
  intro c hc
  have h : ∀ c ∈ emitterClasses,
      uncovered resetMap depth (pathEmitterDetachAttach c) (leaves recordMap 4 c) keepEmitterDetachAttach = [] := by
    decide +kernel
  exact covers_of_uncovered_nil (h c hc)

set_option maxRecDepth 100000 in
theorem emitter_holder_reset_then_attach_covers_all_fields :
    ∀ c ∈ emitterClasses, ∀ l ∈ leaves recordMap 4 c,
      definitelyWritten resetMap depth (pathEmitterHolderReset c) l = true ∨ kept keepEmitterDetachAttach l = true := by
  intro c hc
  have h : ∀ c ∈ emitterClasses,
      uncovered resetMap depth (pathEmitterHolderReset c) (leaves recordMap 4 c) keepEmitterDetachAttach = [] := by
    decide +kernel
  exact covers_of_uncovered_nil (h c hc)

set_option maxRecDepth 100000 in
theorem emitter_reinit_covers_all_fields :
    ∀ c ∈ emitterClasses, ∀ l ∈ leaves recordMap 4 c,
      definitelyWritten resetMap depth (pathEmitterReinit c) l = true ∨ kept keepEmitterReinit l = true := by
  intro c hc
  have h : ∀ c ∈ emitterClasses,
      uncovered resetMap depth (pathEmitterReinit c) (leaves recordMap 4 c) keepEmitterReinit = [] := by
    decide +kernel
  exact covers_of_uncovered_nil (h c hc)

set_option maxRecDepth 100000 in
theorem rapass_function_epilogue_covers_all_fields :
    ∀ l ∈ rapassLeaves, definitelyWritten resetMap depth pathRAPassFunction l = true ∨ kept keepRAPassFunction l = true :=
  covers_of_uncovered_nil (by decide +kernel)

set_option maxRecDepth 100000 in
theorem rapass_run_covers_all_fields :
    ∀ l ∈ rapassLeaves, definitelyWritten resetMap depth pathRAPassRun l = true ∨ kept keepRAPassRun l = true :=
  covers_of_uncovered_nil (by decide +kernel)

set_option maxRecDepth 100000 in
theorem arena_reset_covers_all_fields :
    ∀ l ∈ arenaLeaves, definitelyWritten resetMap depth pathArenaReset l = true ∨ kept keepArena l = true :=
  covers_of_uncovered_nil (by decide +kernel)

/-- the keep-lists cannot rot: every entry matches a leaf that really is not definitely re-initialised on at least one
    of the recycle paths the list is used for -/
def emitterUsers (p : String → RPath) : List (RPath × List Leaf) := emitterClasses.map fun c => (p c, leaves recordMap 4 c)

set_option maxRecDepth 100000 in
theorem keep_lists_are_tight :
    slack resetMap depth [(pathHolderReset, holderLeaves)] keepHolderReset = [] ∧
    slack resetMap depth [(pathHolderReinit, holderLeaves)] keepHolderReinit = [] ∧
    slack resetMap depth (emitterUsers pathEmitterDetachAttach) keepEmitterDetachAttach = [] ∧
    slack resetMap depth (emitterUsers pathEmitterReinit) keepEmitterReinit = [] ∧
    slack resetMap depth [(pathRAPassFunction, rapassLeaves)] keepRAPassFunction = [] ∧
    slack resetMap depth [(pathRAPassRun, rapassLeaves)] keepRAPassRun = [] ∧
    slack resetMap depth [(pathArenaReset, arenaLeaves)] keepArena = [] := by
  decide +kernel

/-! ### non-vacuity -/

/-- all records are present in the regenerated map, none of the expanded leaf lists is empty or poisoned, and the entry
    functions of every path are in the regenerated function map -/
def allPaths : List RPath :=
  [pathHolderReset, pathHolderReinit, pathNewSection, pathRAPassFunction, pathRAPassRun, pathArenaReset] ++
  emitterClasses.map pathEmitterDetachAttach ++ emitterClasses.map pathEmitterHolderReset ++ emitterClasses.map pathEmitterReinit

set_option maxRecDepth 100000 in
theorem entry_functions_present_and_judgeable :
    ∀ p ∈ allPaths, (definiteWrites resetMap depth p).isSome = true ∧ ∀ e ∈ p, (lookup resetMap e.fn).isSome = true := by
  decide +kernel

theorem records_present :
    ∀ r ∈ ["CodeHolder", "Section", "SectionOrLabelEntryExtraHeader", "CodeBuffer", "BaseEmitter", "BaseAssembler",
           "BaseBuilder", "BaseCompiler", "Pass", "BaseRAPass", "Arena"] ++ emitterClasses,
      (lookup recordMap r).isSome = true := by
  decide +kernel

set_option maxRecDepth 100000 in
theorem leaf_counts :
    holderLeaves.length = 42 ∧ sectionLeaves.length = 13 ∧ rapassLeaves.length = 40 ∧ arenaLeaves.length = 11 ∧
    (emitterClasses.map fun c => (leaves recordMap 4 c).length) = [24, 48, 52, 24, 48, 52] := by
  decide +kernel

/-- the expansion reaches nested members and inherited ones -/
example : (⟨[("CodeHolder", "_text_section"), ("Section", "_buffer"), ("CodeBuffer", "_size")], 0⟩ : Leaf) ∈ holderLeaves := by
  decide +kernel
example : (⟨[("CodeHolder", "_text_section"), ("SectionOrLabelEntryExtraHeader", "_section_id")], 0⟩ : Leaf) ∈ holderLeaves := by
  decide +kernel
example : (⟨[("BaseEmitter", "_inst_options")], 0⟩ : Leaf) ∈ leaves recordMap 4 "x86::Compiler" := by decide +kernel
example : (⟨[("BaseCompiler", "_const_pools")], 2⟩ : Leaf) ∈ leaves recordMap 4 "a64::Compiler" := by decide +kernel

set_option maxRecDepth 100000 in
/-- the analysis is not trivially true: without the keep-lists the paths do NOT cover everything, a path that resets
    nothing covers nothing, and the array member `_const_pools[2]` is covered element by element -/
theorem analysis_discriminates :
    uncovered resetMap depth pathHolderReset holderLeaves [] ≠ [] ∧
    uncovered resetMap depth pathArenaReset arenaLeaves [] ≠ [] ∧
    (uncovered resetMap depth [⟨"CodeHolder_init_section_storage", "self", false⟩] holderLeaves []).length = 42 ∧
    definitelyWritten resetMap depth (pathEmitterReinit "x86::Compiler") ⟨[("BaseCompiler", "_const_pools")], 2⟩ = true ∧
    definitelyWritten resetMap depth [⟨"BaseCompiler_clear", "self", false⟩] ⟨[("BaseCompiler", "_const_pools")], 3⟩ = false ∧
    -- a write under one arm of an `if` does not count, a write under both arms does
    definitelyWritten resetMap depth [⟨"BaseEmitter::on_detach", "this", false⟩] ⟨[("BaseEmitter", "_logger")], 0⟩ = false ∧
    definitelyWritten resetMap depth [⟨"RAPass_prepare_logging", "pass", false⟩] ⟨[("BaseRAPass", "_format_options")], 0⟩ = true ∧
    -- an unknown entry function or an object nobody writes gives no coverage
    definitelyWritten resetMap depth [⟨"CodeHolder::no_such_function", "this", false⟩] ⟨[("CodeHolder", "_logger")], 0⟩ = false ∧
    definitelyWritten resetMap depth [⟨"CodeHolder::reset", "nobody", false⟩] ⟨[("CodeHolder", "_logger")], 0⟩ = false := by
  decide +kernel

end AsmjitVerif.ResetMap
