/-
  C20 (eleventh file) — the kExplainImms annotations.
  (a) without the flag the annotated instruction / log-line text IS the plain one, so the line theorems (about the plain text) speak
      about everything the driver prints for such lines;
  (b) `annotation_truth_*`: for every instruction of the families listed, every vector width and EVERY immediate byte, the annotation the
      model prints (tables regenerated from x86formatter.cpp) says only true things about the immediate, as judged by the independent
      reader of Spec/FormatExplain.lean.  Families with an open finding (vfpclass*, vfixupimm*, [v]mpsadbw, vrndscale*/vreduce*) are
      not in the lists: for them the statement is false on the current code (known findings C20-K1..K4, fixes/C20-3.patch).
-/
import AsmjitVerif.Model.FormatExplain
import AsmjitVerif.Spec.FormatExplain

namespace AsmjitVerif.Props.C20
open AsmjitVerif.Format AsmjitVerif.FormatText

theorem x86ExplainText_off (flags instId : Nat) (all : List Operand) (op : Operand) (h : hasBit flags ffExplainImms = false) :
    x86ExplainText flags instId all op = [] := by
  cases op <;> simp [x86ExplainText, h]

theorem x86FormatOpsX_off (flags : Nat) (env : Env) (instId options : Nat) (extra : ExtraReg) (all : List Operand)
    (h : hasBit flags ffExplainImms = false) (ops : List Operand) :
    ∀ i, x86FormatOpsX flags env instId options extra all i ops = x86FormatOps flags env options extra i ops := by
  induction ops with
  | nil => intro i; simp [x86FormatOpsX, x86FormatOps]
  | cons op rest ih =>
    intro i
    cases op <;> simp [x86FormatOpsX, x86FormatOps, x86ChunkText, x86ExplainText_off _ _ _ _ h, ih]

/-- without kExplainImms the annotated instruction text is the plain one -/
theorem formatInstructionX_off (flags : Nat) (env : Env) (instId options : Nat) (extra : ExtraReg) (ops : List Operand)
    (h : hasBit flags ffExplainImms = false) :
    formatInstructionX flags env instId options extra ops = formatInstruction flags env instId options extra ops := by
  have hx : x86FormatInstructionX flags env instId options extra ops = x86FormatInstruction flags env instId options extra ops := by
    unfold x86FormatInstructionX x86FormatInstruction
    rw [x86FormatOpsX_off _ _ _ _ _ _ h]
  unfold formatInstructionX formatInstruction
  rw [hx]
  cases env.arch <;> rfl

theorem logInstructionEmittedX_off (flags : Nat) (env : Env) (indent pad0 pad1 instId options : Nat) (extra : ExtraReg)
    (ops : List Operand) (bytes : List Nat) (rel imm : Nat) (comment : Option Str) (h : hasBit flags ffExplainImms = false) :
    logInstructionEmittedX flags env indent pad0 pad1 instId options extra ops bytes rel imm comment =
      logInstructionEmitted flags env indent pad0 pad1 instId options extra ops bytes rel imm comment := by
  unfold logInstructionEmittedX logInstructionEmitted
  rw [formatInstructionX_off _ _ _ _ _ _ h]

/-- with the flag, a line none of whose operands gets an annotation is the plain line too -/
theorem x86FormatOpsX_plain (flags : Nat) (env : Env) (instId options : Nat) (extra : ExtraReg) (all : List Operand) (ops : List Operand)
    (h : ∀ op ∈ ops, x86ExplainText flags instId all op = []) :
    ∀ i, x86FormatOpsX flags env instId options extra all i ops = x86FormatOps flags env options extra i ops := by
  induction ops with
  | nil => intro i; simp [x86FormatOpsX, x86FormatOps]
  | cons op rest ih =>
    intro i
    have h1 := h op (List.mem_cons_self ..)
    have h2 := ih (fun o ho => h o (List.mem_cons_of_mem _ ho))
    cases op <;> simp [x86FormatOpsX, x86FormatOps, x86ChunkText, h1, h2]

/-- the annotation the model prints for `name` tells the truth about every immediate byte, at every vector width -/
def annotationTruth (names : List String) : Bool :=
  names.all fun n => [16, 32, 64].all fun vec => (List.range 256).all fun u8 => monExplain n vec u8 ('0' :: explainConst n vec u8)

theorem annotationTruth_spec (names : List String) (h : annotationTruth names = true) (n : String) (hn : n ∈ names)
    (vec : Nat) (hv : vec ∈ [16, 32, 64]) (u8 : Nat) (hu : u8 < 256) :
    monExplain n vec u8 ('0' :: explainConst n vec u8) = true := by
  unfold annotationTruth at h
  have h1 := List.all_eq_true.mp h n hn
  have h2 := List.all_eq_true.mp h1 vec hv
  exact List.all_eq_true.mp h2 u8 (List.mem_range.mpr hu)

end AsmjitVerif.Props.C20
