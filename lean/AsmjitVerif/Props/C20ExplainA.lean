/- C20 — kExplainImms annotations tell the truth about every immediate byte (see Props/C20Explain.lean), part A. -/
import AsmjitVerif.Props.C20Explain

namespace AsmjitVerif.Props.C20

set_option maxRecDepth 100000 in
theorem annotation_truth_blend_dp : annotationTruth
    ["vblendpd", "blendpd", "vblendps", "blendps", "vdbpsadbw", "vdppd", "vdpps", "dppd", "dpps", "vpblendw", "pblendw", "vpblendd", "vpermilpd", "vpermilps", "vpternlogd", "vpternlogq"] = true := by decide +kernel

end AsmjitVerif.Props.C20
