/- C20 — kExplainImms annotations tell the truth about every immediate byte (see Props/C20Explain.lean), part C. -/
import AsmjitVerif.Props.C20Explain

namespace AsmjitVerif.Props.C20

set_option maxRecDepth 100000 in
theorem annotation_truth_cmp : annotationTruth
    ["vcmppd", "vcmpps", "vcmpsd", "vcmpss", "cmppd", "cmpps", "cmpsd", "cmpss"] = true := by decide +kernel

end AsmjitVerif.Props.C20
