/-
  C20 (second file, kept apart so that the two files compile in parallel) — instruction names.
  Tables regenerated on every run: `x86InstNames/x86AliasNames/a64InstNames` are what the compiled
  `InstAPI::inst_id_to_string` returns, `x86HeaderNames/x86HeaderAliases/a64HeaderNames` what the headers document.
-/
import AsmjitVerif.Model.Format
import AsmjitVerif.Spec.FormatText

namespace AsmjitVerif.Props.C20
open AsmjitVerif.Format AsmjitVerif.FormatText
open AsmjitVerif.Gen.FormatTabs

set_option maxRecDepth 1000000

/-! ## instruction names -/

/-- what `inst_id_to_string` returns for every id is the name the enumerator documents in x86globals.h / a64globals.h -/
theorem inst_names_match_headers :
    x86InstNames.toList.map String.toList = x86HeaderNames.toList.map String.toList ∧
    a64InstNames.toList.map String.toList = a64HeaderNames.toList.map String.toList := by decide +kernel

/-- with `kShowAliases` the printed mnemonic reads back to the same instruction, and every alternate spelling shown is an
    alias the header declares for that very instruction -/
theorem alias_names_denote_same_instruction :
    ∀ t ∈ (x86AliasNames.toList.zip x86HeaderNames.toList).zipIdx,
      t.1.1 = t.1.2 ∨
      ((parseMnemonic t.1.1.toList).1 = t.1.2.toList ∧
       (parseMnemonic t.1.1.toList).2.all (headerAliases .x64 t.2).contains = true) := by decide +kernel

/-- the reader cannot mistake a mnemonic for an option word -/
theorem prefix_words_are_not_mnemonics :
    ∀ n ∈ x86HeaderNames.toList, x86PrefixWords.contains n = false := by decide +kernel

example : x86InstNames.size = 1648 ∧ a64InstNames.size = 776 := by decide +kernel
example : (parseMnemonic "cmov.b|nae|c".toList) = ("cmovb".toList, ["cmovnae".toList, "cmovc".toList]) := by decide


end AsmjitVerif.Props.C20
