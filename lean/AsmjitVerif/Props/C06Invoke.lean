/-
  C06 – the x86 Compiler's call lowering (`Model/InvokeLower.lean` on `Spec/InvokeMachine.lean`).

  "Arguments of an `invoke` end up where the callee's convention expects them":
    * `temps_ok` (every argument list): the stack temporaries of by-reference vector arguments lie above the callee's stack arguments,
      inside the invoke's `arg_stack_size`, aligned to their size, pairwise disjoint, and the frame's `call_stack_size` /
      `call_stack_alignment` recorded by `on_before_invoke` cover them – so they cannot overlap the caller's locals, which the frame
      places above the call area (C07);
    * `imm_stack_arg_machine` (every 64-bit immediate, every type): the stores `move_imm_to_stack_arg` emits
      leave exactly the immediate's low `size_of(type)` bytes in the slot – in particular the sign-extending `mov qword [..], imm32`
      shortcut is only taken when it reproduces the value;
    * `imm_reg_arg_machine`: likewise for `move_imm_to_reg_arg`;
    * `reg_stack_arg_machine`: `move_reg_to_stack_arg` stores the register extended as the parameter type requires, every integer
      type pair, every register value;
    * `vec_to_ptr_machine`: the two instructions of `move_vec_to_ptr` leave the pointer and the vector in the temporary;
    * `reg_reg_arg_machine`: 8/16-bit registers for wider integer register parameters, and int32 for int64, are extended (fixes C06-17, C06-20);
    * `reg_arg_int32_repaired`: the former finding C06-K9 (int32 register for an int64 register parameter) after fix C06-20.
  Whole argument lists: Props/C06InvokeList.lean (`pack_machine`, `invoke_int_args_machine`) composes these per-path theorems for any
  number of integer arguments by a frame argument (every block writes only its own registers and its own slot).  Not in the list
  theorem yet: vector / by-reference arguments (their pieces are `vec_to_ptr_machine` + `temps_ok`) and the register allocator (C05);
  the post-RA instruction list of every generated call is judged by the same machine (monitor).
-/
import AsmjitVerif.Model.InvokeLower
import AsmjitVerif.Spec.InvokeMachine
import Std.Tactic.BVDecide
namespace AsmjitVerif.C06Invoke
open AsmjitVerif.CallConv AsmjitVerif.Invoke AsmjitVerif.InvokeSpec

/-! ## the temporaries and the frame -/

/-- temporaries in creation order: each starts at or above the end of the previous one and above `base`, is aligned to its size,
    at least 16 bytes, not larger than the recorded alignment, and ends inside `argStack` -/
def TempsOk (base al : Nat) (s : LSt) : Prop :=
  base ≤ s.argStack ∧ al ≤ s.csAlign ∧
  List.Pairwise (fun a b => a.1 + a.2 ≤ b.1) s.temps ∧
  ∀ t ∈ s.temps, base ≤ t.1 ∧ t.1 + t.2 ≤ s.argStack ∧ t.2 ∣ t.1 ∧ 16 ≤ t.2 ∧ t.2 ≤ s.csAlign

theorem alignUp_ge (x a : Nat) (ha : 0 < a) : x ≤ alignUp x a := by
  unfold alignUp
  have h1 := Nat.div_add_mod (x + (a - 1)) a
  have h2 := Nat.mod_lt (x + (a - 1)) ha
  have h3 : a * ((x + (a - 1)) / a) = (x + (a - 1)) / a * a := Nat.mul_comm _ _
  omega

theorem alignUp_dvd (x a : Nat) : a ∣ alignUp x a := by unfold alignUp; exact Nat.dvd_mul_left _ _

theorem emit_fields (s : LSt) (i : XI) :
    (s.emit i).argStack = s.argStack ∧ (s.emit i).temps = s.temps ∧ (s.emit i).csAlign = s.csAlign := ⟨rfl, rfl, rfl⟩

theorem emitAll_fields (s : LSt) (l : List XI) :
    (s.emitAll l).argStack = s.argStack ∧ (s.emitAll l).temps = s.temps ∧ (s.emitAll l).csAlign = s.csAlign := ⟨rfl, rfl, rfl⟩

/-- the helpers other than `move_vec_to_ptr` touch neither the temporaries nor the sizes -/
theorem moveImmToRegArg_keeps (s : LSt) (arg : FuncValue) (imm : BitVec 64) (s' : LSt) (rt id : Nat)
    (h : moveImmToRegArg s arg imm = .ok (s', rt, id)) :
    s'.argStack = s.argStack ∧ s'.temps = s.temps ∧ s'.csAlign = s.csAlign := by
  unfold moveImmToRegArg at h
  split at h
  · exact absurd h (by simp)
  · cases h; exact ⟨rfl, rfl, rfl⟩

theorem moveRegToRegArg_keeps (s : LSt) (arg : FuncValue) (vid st : Nat) (s' : LSt) (rt id : Nat)
    (h : moveRegToRegArg s arg vid st = .ok (s', rt, id)) :
    s'.argStack = s.argStack ∧ s'.temps = s.temps ∧ s'.csAlign = s.csAlign := by
  unfold moveRegToRegArg at h
  simp only at h
  split at h
  · cases h; exact ⟨rfl, rfl, rfl⟩
  · split at h
    · cases h; exact ⟨rfl, rfl, rfl⟩
    · split at h
      · cases h; exact ⟨rfl, rfl, rfl⟩
      · exact absurd h (by simp)

theorem moveImmToStackArg_keeps (s : LSt) (arg : FuncValue) (imm : BitVec 64) (s' : LSt)
    (h : moveImmToStackArg s arg imm = .ok s') :
    s'.argStack = s.argStack ∧ s'.temps = s.temps ∧ s'.csAlign = s.csAlign := by
  unfold moveImmToStackArg at h
  cases hi : immStackInsts s.is64 arg.typeId arg.stackOffset imm with
  | error e => rw [hi] at h; simp [Except.map] at h
  | ok l => rw [hi] at h; simp only [Except.map] at h; cases h; exact emitAll_fields s l

theorem moveRegToStackArg_keeps (s : LSt) (arg : FuncValue) (rid st : Nat) (v : Bool) (s' : LSt)
    (h : moveRegToStackArg s arg rid st v = .ok s') :
    s'.argStack = s.argStack ∧ s'.temps = s.temps ∧ s'.csAlign = s.csAlign := by
  unfold moveRegToStackArg at h
  cases hi : regStackInsts s.is64 s.avx arg.typeId arg.stackOffset rid st v with
  | error e => rw [hi] at h; simp [Except.map] at h
  | ok l => rw [hi] at h; simp only [Except.map] at h; cases h; exact emitAll_fields s l

theorem moveVecToPtr_ok (base al : Nat) (s : LSt) (arg : FuncValue) (vid : Nat) (s' : LSt) (pid : Nat) (hs : TempsOk base al s)
    (h : moveVecToPtr s arg vid = .ok (s', pid)) : TempsOk base al s' := by
  unfold moveVecToPtr at h
  simp only at h
  split at h
  · exact absurd h (by simp)
  · rename_i hsz
    generalize hz : (if tySize arg.typeId < 16 then 16 else tySize arg.typeId) = sz at h
    have hz16 : 16 ≤ sz := by rw [← hz]; split <;> omega
    have hpos : 0 < sz := by omega
    obtain ⟨hb, hal, hp, ha⟩ := hs
    have hge := alignUp_ge s.argStack sz hpos
    have hdv := alignUp_dvd s.argStack sz
    have hfields : s'.argStack = alignUp s.argStack sz + sz ∧ s'.temps = s.temps ++ [(alignUp s.argStack sz, sz)] ∧
        s'.csAlign = max s.csAlign sz := by
      split at h <;> (cases h; exact ⟨rfl, rfl, rfl⟩)
    obtain ⟨f1, f2, f3⟩ := hfields
    refine ⟨by rw [f1]; omega, by rw [f3]; omega, ?_, ?_⟩
    · rw [f2, List.pairwise_append]
      refine ⟨hp, by simp, ?_⟩
      intro a ha' b hb'
      simp only [List.mem_singleton] at hb'
      subst hb'
      have := (ha a ha').2.1
      show a.1 + a.2 ≤ alignUp s.argStack sz
      omega
    · intro t ht
      rw [f2, List.mem_append] at ht
      rcases ht with ht | ht
      · obtain ⟨a1, a2, a3, a4, a5⟩ := ha t ht
        exact ⟨a1, by rw [f1]; omega, a3, a4, by rw [f3]; omega⟩
      · simp only [List.mem_singleton] at ht
        subst ht
        exact ⟨by show base ≤ alignUp s.argStack sz; omega, by rw [f1]; exact Nat.le_refl _, hdv, hz16, by rw [f3]; omega⟩

theorem TempsOk_of_keeps {base al : Nat} {s s' : LSt} (hs : TempsOk base al s)
    (h : s'.argStack = s.argStack ∧ s'.temps = s.temps ∧ s'.csAlign = s.csAlign) : TempsOk base al s' := by
  obtain ⟨h1, h2, h3⟩ := h
  unfold TempsOk at *
  rw [h1, h2, h3]; exact hs

theorem lowerValue_ok (base al : Nat) (s : LSt) (arg : FuncValue) (op : ArgOp) (s' : LSt) (op' : ArgOp) (hs : TempsOk base al s)
    (h : lowerValue s arg op = .ok (s', op')) : TempsOk base al s' := by
  unfold lowerValue at h
  cases op with
  | none => simp only at h; cases h; exact hs
  | imm v =>
    simp only at h
    split at h
    · cases hm : moveImmToRegArg s arg v with
      | error e => rw [hm] at h; simp at h
      | ok r =>
        obtain ⟨s1, rt, id⟩ := r
        rw [hm] at h; simp only at h; cases h
        exact TempsOk_of_keeps hs (moveImmToRegArg_keeps s arg v _ rt id hm)
    · cases hm : moveImmToStackArg s arg v with
      | error e => rw [hm] at h; simp [Except.map] at h
      | ok s1 =>
        rw [hm] at h; simp only [Except.map] at h; cases h
        exact TempsOk_of_keeps hs (moveImmToStackArg_keeps s arg v _ hm)
  | gp vid t =>
    simp only at h
    repeat' (split at h)
    all_goals first
      | (cases h; exact hs)
      | (cases h; exact TempsOk_of_keeps hs (moveRegToRegArg_keeps s arg vid t _ _ _ (by assumption)))
      | (exact absurd h (by simp))
      | (cases hm : moveRegToStackArg s arg vid t false with
         | error e => rw [hm] at h; simp [Except.map] at h
         | ok s1 =>
           rw [hm] at h; simp only [Except.map] at h; cases h
           exact TempsOk_of_keeps hs (moveRegToStackArg_keeps s arg vid t false _ hm))
  | vec vid t =>
    simp only at h
    split at h
    · split at h
      · cases hm : moveVecToPtr s arg vid with
        | error e => rw [hm] at h; simp at h
        | ok r =>
          obtain ⟨s1, pid⟩ := r
          rw [hm] at h; simp only at h; cases h
          exact moveVecToPtr_ok base al s arg vid _ pid hs hm
      · split at h
        · exact absurd h (by simp)
        · cases h; exact hs
    · split at h
      · cases hm : moveVecToPtr s arg vid with
        | error e => rw [hm] at h; simp at h
        | ok r =>
          obtain ⟨s1, pid⟩ := r
          rw [hm] at h; simp only at h
          have h1 := moveVecToPtr_ok base al s arg vid _ pid hs hm
          cases hm2 : moveRegToStackArg s1 arg pid (if s1.is64 = true then 41 else 39) false with
          | error e => rw [hm2] at h; simp [Except.map] at h
          | ok s2 =>
            rw [hm2] at h; simp only [Except.map] at h; cases h
            exact TempsOk_of_keeps h1 (moveRegToStackArg_keeps s1 arg pid _ false _ hm2)
      · cases hm : moveRegToStackArg s arg vid t true with
        | error e => rw [hm] at h; simp [Except.map] at h
        | ok s1 =>
          rw [hm] at h; simp only [Except.map] at h; cases h
          exact TempsOk_of_keeps hs (moveRegToStackArg_keeps s arg vid t true _ hm)

theorem lowerPack_ok (base al : Nat) : ∀ (vs : List FuncValue) (os : List ArgOp) (s s' : LSt) (os' : List ArgOp),
    TempsOk base al s → lowerPack s vs os = .ok (s', os') → TempsOk base al s' := by
  intro vs
  induction vs with
  | nil => intro os s s' os' hs h; simp [lowerPack] at h; rw [← h.1]; exact hs
  | cons a as ih =>
    intro os s s' os' hs h
    cases os with
    | nil => simp [lowerPack] at h; rw [← h.1]; exact hs
    | cons o os =>
      simp only [lowerPack] at h
      cases h1 : lowerValue s a o with
      | error e => rw [h1] at h; simp at h
      | ok r =>
        obtain ⟨s1, o1⟩ := r
        rw [h1] at h; simp only at h
        cases h2 : lowerPack s1 as os with
        | error e => rw [h2] at h; simp at h
        | ok r2 =>
          obtain ⟨s2, os2⟩ := r2
          rw [h2] at h; simp only at h; cases h
          exact ih os s1 _ os2 (lowerValue_ok base al s a o s1 o1 hs h1) h2

theorem lowerArgs_ok (base al : Nat) : ∀ (ps : List (List FuncValue)) (os : List (List ArgOp)) (s s' : LSt) (os' : List (List ArgOp)),
    TempsOk base al s → lowerArgs s ps os = .ok (s', os') → TempsOk base al s' := by
  intro ps
  induction ps with
  | nil => intro os s s' os' hs h; simp [lowerArgs] at h; rw [← h.1]; exact hs
  | cons p ps ih =>
    intro os s s' os' hs h
    cases os with
    | nil => simp [lowerArgs] at h; rw [← h.1]; exact hs
    | cons o os =>
      simp only [lowerArgs] at h
      cases h1 : lowerPack s p o with
      | error e => rw [h1] at h; simp at h
      | ok r =>
        obtain ⟨s1, o1⟩ := r
        rw [h1] at h; simp only at h
        cases h2 : lowerArgs s1 ps os with
        | error e => rw [h2] at h; simp at h
        | ok r2 =>
          obtain ⟨s2, os2⟩ := r2
          rw [h2] at h; simp only at h; cases h
          exact ih os s1 _ os2 (lowerPack_ok base al p o s s1 o1 hs h1) h2

/-- **scenario (1), every signature and every operand list**: whatever `on_before_invoke` lowers with kOk, every temporary it
    created for a by-reference vector argument starts at or above the callee's own stack-argument area (`d.argStackSize`, which on
    Win64 includes the home area), is aligned to its size (16/32/64), lies below every later temporary, ends inside the invoke's
    final `arg_stack_size`, and the `call_stack_size` / `call_stack_alignment` the frame records afterwards cover it.  The frame
    places the locals at `local_stack_offset >= call_stack_size` (C07), hence a temporary never overlaps a local. -/
theorem temps_ok (is64 avx pops : Bool) (d : Detail) (ops : List (List ArgOp)) (css0 csa0 : Nat) (r : Lowered)
    (h : onBeforeInvoke is64 avx pops d ops css0 csa0 = .ok r) :
    d.argStackSize ≤ r.argStack ∧ r.argStack ≤ r.callStackSize ∧ css0 ≤ r.callStackSize ∧ csa0 ≤ r.callStackAlign ∧
    List.Pairwise (fun a b => a.1 + a.2 ≤ b.1) r.temps ∧
    ∀ t ∈ r.temps, d.argStackSize ≤ t.1 ∧ t.1 + t.2 ≤ r.callStackSize ∧ t.2 ∣ t.1 ∧ 16 ≤ t.2 ∧ t.2 ≤ r.callStackAlign := by
  unfold onBeforeInvoke at h
  cases hl : lowerArgs { is64 := is64, avx := avx, argStack := d.argStackSize, csAlign := csa0 } d.args ops with
  | error e => rw [hl] at h; simp at h
  | ok x =>
    obtain ⟨s, args⟩ := x
    rw [hl] at h; simp only at h; cases h
    have h0 : TempsOk d.argStackSize csa0 { is64 := is64, avx := avx, argStack := d.argStackSize, csAlign := csa0 } :=
      ⟨Nat.le_refl _, Nat.le_refl _, List.Pairwise.nil, fun t ht => absurd ht (by simp)⟩
    obtain ⟨hb, hal, hp, ha⟩ := lowerArgs_ok d.argStackSize csa0 d.args ops _ s args h0 hl
    refine ⟨hb, Nat.le_max_right _ _, Nat.le_max_left _ _, hal, hp, ?_⟩
    · intro t ht
      obtain ⟨a1, a2, a3, a4, a5⟩ := ha t ht
      exact ⟨a1, Nat.le_trans a2 (Nat.le_max_right _ _), a3, a4, a5⟩

/-! ## immediates -/

def stI (off : Int) (sz : Nat) (v : BitVec 64) : XI := ⟨.mov, false, [.mem spId off sz, .imm v], false⟩

theorem cell_store_same (m : M) (a : Int) (c : Cell) : (m.store a c).cell a = some c := by
  simp [M.store, M.cell]

theorem cell_store_lo (m : M) (a : Int) (x y : BitVec 32) (bx b2 : Nat) :
    ((m.store a (.dword x bx)).store (a + 4) (.dword y b2)).cell a = some (.dword x bx) := by
  have h1 : (a + 4 == a) = false := by simp; omega
  simp [M.store, M.cell, cellSize, h1]

theorem load4_store (m : M) (a : Int) (x : BitVec 32) (b : Nat) :
    loadNum (m.store a (.dword x b)) a 4 = some (x.zeroExtend 64, b) := by
  simp [loadNum, cell_store_same]

theorem load8_store (m : M) (a : Int) (lo hi : BitVec 32) :
    loadNum ((m.store a (.dword lo 32)).store (a + 4) (.dword hi 32)) a 8 =
      some ((hi.zeroExtend 64 <<< 32) ||| lo.zeroExtend 64, 64) := by
  simp [loadNum, cell_store_same, cell_store_lo]

theorem load4_store2 (m : M) (a : Int) (lo hi : BitVec 32) :
    loadNum ((m.store a (.dword lo 32)).store (a + 4) (.dword hi 32)) a 4 = some (lo.zeroExtend 64, 32) := by
  simp [loadNum, cell_store_lo]

theorem run_st4 (m : M) (off : Int) (v : BitVec 64) :
    run m [stI off 4 v] = some (m.store off (.dword (v.truncate 32) 32)) := by
  simp [run, step, stI, addrOf, spId, storeNum]

theorem run_st8 (m : M) (off : Int) (v : BitVec 64) :
    run m [stI off 8 v] =
      some ((m.store off (.dword ((sext32 v).truncate 32) 32)).store (off + 4) (.dword (((sext32 v) >>> 32).truncate 32) 32)) := by
  simp [run, step, stI, addrOf, spId, storeNum]

theorem run_st44 (m : M) (off : Int) (v w : BitVec 64) :
    run m [stI off 4 v, stI (off + 4) 4 w] =
      some ((m.store off (.dword (v.truncate 32) 32)).store (off + 4) (.dword (w.truncate 32) 32)) := by
  simp [run, step, stI, addrOf, spId, storeNum]

/-- the types `move_imm_to_stack_arg` accepts -/
def immStackTys : List Nat := [34, 35, 36, 37, 38, 39, 40, 41, 42, 43, 49, 50]

theorem lb1 (v : BitVec 64) : lowBytes 1 v = v &&& 0xFF#64 := by simp [lowBytes]
theorem lb2 (v : BitVec 64) : lowBytes 2 v = v &&& 0xFFFF#64 := by simp [lowBytes]
theorem lb4 (v : BitVec 64) : lowBytes 4 v = v &&& 0xFFFFFFFF#64 := by simp [lowBytes]
theorem lb8 (v : BitVec 64) : lowBytes 8 v = v := by simp [lowBytes]

/-- value facts (all 64-bit immediates): what the selected stores write reproduces the immediate's low bytes -/
theorem v8s (imm : BitVec 64) : lowBytes 1 (((zext32 (sext8 imm)).truncate 32 : BitVec 32).zeroExtend 64) = lowBytes 1 imm := by
  rw [lb1, lb1]; simp only [zext32, sext8]; bv_decide
theorem v8u (imm : BitVec 64) : lowBytes 1 (((zext32 (zext8 imm)).truncate 32 : BitVec 32).zeroExtend 64) = lowBytes 1 imm := by
  rw [lb1, lb1]; simp only [zext32, zext8]; bv_decide
theorem v16s (imm : BitVec 64) : lowBytes 2 (((zext32 (sext16 imm)).truncate 32 : BitVec 32).zeroExtend 64) = lowBytes 2 imm := by
  rw [lb2, lb2]; simp only [zext32, sext16]; bv_decide
theorem v16u (imm : BitVec 64) : lowBytes 2 (((zext32 (zext16 imm)).truncate 32 : BitVec 32).zeroExtend 64) = lowBytes 2 imm := by
  rw [lb2, lb2]; simp only [zext32, zext16]; bv_decide
theorem v32 (imm : BitVec 64) : lowBytes 4 (((zext32 imm).truncate 32 : BitVec 32).zeroExtend 64) = lowBytes 4 imm := by
  rw [lb4, lb4]; simp only [zext32]; bv_decide
theorem v32s (imm : BitVec 64) : lowBytes 4 (((sext32 imm).truncate 32 : BitVec 32).zeroExtend 64) = lowBytes 4 imm := by
  rw [lb4, lb4]; simp only [sext32]; bv_decide
/-- the sign-extending shortcut `mov qword [m], imm32` reproduces the immediate exactly when `is_int32` holds -/
theorem v64short (imm : BitVec 64) (h : isInt32 imm = true) :
    ((((sext32 imm) >>> 32).truncate 32 : BitVec 32).zeroExtend 64 <<< 32) ||| (((sext32 imm).truncate 32 : BitVec 32).zeroExtend 64) = imm := by
  simp only [isInt32, sext32] at *; bv_decide
theorem v64split (imm : BitVec 64) :
    ((((hi32 imm).truncate 32 : BitVec 32).zeroExtend 64) <<< 32) ||| (((zext32 imm).truncate 32 : BitVec 32).zeroExtend 64) = imm := by
  simp only [hi32, zext32]; bv_decide
/-- … and it would NOT with `is_uint32` (the seeded change of round 11): 0x80000000 is the witness -/
theorem v64short_uint32_wrong :
    isUInt32 0x80000000#64 = true ∧
    ((((sext32 0x80000000#64) >>> 32).truncate 32 : BitVec 32).zeroExtend 64 <<< 32) |||
      (((sext32 0x80000000#64).truncate 32 : BitVec 32).zeroExtend 64) = 0xFFFFFFFF80000000#64 := by decide

/-- the 64-bit path of `move_imm_to_stack_arg` on the machine: both readings of the slot -/
theorem imm64_case (is64 : Bool) (imm : BitVec 64) (off : Int) (l : List XI) (m : M)
    (h : (if (is64 && isInt32 imm) = true then (Except.ok [stI off 8 imm] : Except String (List XI))
          else Except.ok [stI off 4 (zext32 imm), stI (off + 4) 4 (hi32 imm)]) = Except.ok l) :
    ∃ m' lo, run m l = some m' ∧ loadNum m' off 8 = some (imm, 64) ∧ loadNum m' off 4 = some (lo, 32) ∧
      lowBytes 4 lo = lowBytes 4 imm := by
  by_cases hc : (is64 && isInt32 imm) = true
  · simp only [hc, if_true] at h
    cases h
    have hi : isInt32 imm = true := by simp only [Bool.and_eq_true] at hc; exact hc.2
    refine ⟨_, _, run_st8 m off imm, ?_, load4_store2 _ _ _ _, v32s imm⟩
    rw [load8_store, v64short imm hi]
  · simp only [hc, if_false] at h
    cases h
    refine ⟨_, _, run_st44 m off _ _, ?_, load4_store2 _ _ _ _, v32 imm⟩
    rw [load8_store, v64split imm]

/-- **scenario (2), every immediate, every accepted type, 32- and 64-bit targets, any machine state**: running the stores
    `move_imm_to_stack_arg` emits leaves the immediate's low `size_of(type)` bytes, fully defined, in the argument's slot. -/
theorem imm_stack_arg_machine (is64 : Bool) (t : Nat) (ht : t ∈ immStackTys) (off : Nat) (imm : BitVec 64) (l : List XI)
    (h : immStackInsts is64 t off imm = .ok l) (m : M) :
    ∃ m' v b, run m l = some m' ∧ loadNum m' off (if tySize t ≤ 4 then 4 else 8) = some (v, b) ∧ b ≥ 8 * tySize t ∧
      lowBytes (tySize t) v = lowBytes (tySize t) imm := by
  have hst : ∀ (o : Int) (sz : Nat) (v : BitVec 64), (⟨.mov, false, [.mem spId o sz, .imm v], false⟩ : XI) = stI o sz v := fun _ _ _ => rfl
  simp only [immStackTys, List.mem_cons, List.mem_nil_iff, or_false] at ht
  rcases ht with rfl | rfl | rfl | rfl | rfl | rfl | rfl | rfl | rfl | rfl | rfl | rfl
  case _ => simp [immStackInsts] at h; subst h; exact ⟨_, _, _, run_st4 m off _, load4_store _ _ _ _, by decide, v8s imm⟩
  case _ => simp [immStackInsts] at h; subst h; exact ⟨_, _, _, run_st4 m off _, load4_store _ _ _ _, by decide, v8u imm⟩
  case _ => simp [immStackInsts] at h; subst h; exact ⟨_, _, _, run_st4 m off _, load4_store _ _ _ _, by decide, v16s imm⟩
  case _ => simp [immStackInsts] at h; subst h; exact ⟨_, _, _, run_st4 m off _, load4_store _ _ _ _, by decide, v16u imm⟩
  case _ => simp [immStackInsts] at h; subst h; exact ⟨_, _, _, run_st4 m off _, load4_store _ _ _ _, by decide, v32 imm⟩
  case _ => simp [immStackInsts] at h; subst h; exact ⟨_, _, _, run_st4 m off _, load4_store _ _ _ _, by decide, v32 imm⟩
  -- 64-bit integers
  case _ =>
    obtain ⟨m', lo, h1, h2, _, _⟩ := imm64_case is64 imm off l m (by simpa [immStackInsts, stI] using h)
    exact ⟨m', imm, 64, h1, h2, by decide, rfl⟩
  case _ =>
    obtain ⟨m', lo, h1, h2, _, _⟩ := imm64_case is64 imm off l m (by simpa [immStackInsts, stI] using h)
    exact ⟨m', imm, 64, h1, h2, by decide, rfl⟩
  -- float bit pattern
  case _ => simp [immStackInsts] at h; subst h; exact ⟨_, _, _, run_st4 m off _, load4_store _ _ _ _, by decide, v32 imm⟩
  -- double bit pattern
  case _ =>
    obtain ⟨m', lo, h1, h2, _, _⟩ := imm64_case is64 imm off l m (by simpa [immStackInsts, stI] using h)
    exact ⟨m', imm, 64, h1, h2, by decide, rfl⟩
  -- mmx32 (the callee reads 4 bytes), mmx64
  case _ =>
    obtain ⟨m', lo, h1, _, h3, h4⟩ := imm64_case is64 imm off l m (by simpa [immStackInsts, stI] using h)
    exact ⟨m', lo, 32, h1, h3, by decide, h4⟩
  case _ =>
    obtain ⟨m', lo, h1, h2, _, _⟩ := imm64_case is64 imm off l m (by simpa [immStackInsts, stI] using h)
    exact ⟨m', imm, 64, h1, h2, by decide, rfl⟩

theorem getGp_setGp (m : M) (id : Nat) (v : GVal) : (m.setGp id v).getGp id = some v := by
  simp [M.setGp, M.getGp]

def intTys8 : List Nat := [34, 35, 36, 37, 38, 39, 40, 41]
/-- the register view a callee reads a parameter of that type through -/
def viewRt (t : Nat) : Nat := if tySize t ≤ 1 then 2 else if tySize t = 2 then 4 else if tySize t ≤ 4 then 5 else 6

/-- **immediate for a register argument, every immediate, every integer type**: the `mov` that `move_imm_to_reg_arg` emits leaves
    the immediate's low `size_of(type)` bytes in the new register (all 64 bits defined) -/
theorem imm_reg_arg_machine (t : Nat) (ht : t ∈ intTys8) (imm v : BitVec 64) (rt : Nat) (h : immRegValue t imm = some (v, rt))
    (m : M) (id : Nat) :
    ∃ m', run m [⟨.mov, false, [.reg rt id, .imm v], false⟩] = some m' ∧
      readGp m' id (viewRt t) = some (lowBytes (tySize t) imm) := by
  have hrun : ∀ (rt : Nat), gpGroup rt = true →
      run m [⟨.mov, false, [.reg rt id, .imm v], false⟩] = some (writeGp m id rt v) := by
    intro rt hg; simp [run, step, hg]
  have h64 : ∀ t, (t = 40 ∨ t = 41) → immRegValue t imm = some (v, rt) →
      ∃ m', run m [⟨.mov, false, [.reg rt id, .imm v], false⟩] = some m' ∧ readGp m' id 6 = some imm := by
    intro t ht h
    by_cases hu : isUInt32 imm = true
    · have : v = zext32 imm ∧ rt = 5 := by
        rcases ht with rfl | rfl <;> simp [immRegValue, hu] at h <;> exact ⟨h.1.symm, h.2.symm⟩
      obtain ⟨rfl, rfl⟩ := this
      refine ⟨_, hrun 5 (by decide), ?_⟩
      simp [readGp, writeGp, rtBits, getGp_setGp]
      simp only [isUInt32, zext32] at *; bv_decide
    · have : v = imm ∧ rt = 6 := by
        rcases ht with rfl | rfl <;> simp [immRegValue, hu] at h <;> exact ⟨h.1.symm, h.2.symm⟩
      obtain ⟨rfl, rfl⟩ := this
      refine ⟨_, hrun 6 (by decide), ?_⟩
      simp [readGp, writeGp, rtBits, getGp_setGp]
      bv_decide
  simp only [intTys8, List.mem_cons, List.mem_nil_iff, or_false] at ht
  rcases ht with rfl | rfl | rfl | rfl | rfl | rfl | rfl | rfl
  case _ => simp [immRegValue] at h; obtain ⟨rfl, rfl⟩ := h; refine ⟨_, hrun 5 (by decide), ?_⟩
            simp [readGp, writeGp, rtBits, getGp_setGp, viewRt, tySize, lowBytes]; simp only [zext32, sext8]; bv_decide
  case _ => simp [immRegValue] at h; obtain ⟨rfl, rfl⟩ := h; refine ⟨_, hrun 5 (by decide), ?_⟩
            simp [readGp, writeGp, rtBits, getGp_setGp, viewRt, tySize, lowBytes]; simp only [zext32, zext8]; bv_decide
  case _ => simp [immRegValue] at h; obtain ⟨rfl, rfl⟩ := h; refine ⟨_, hrun 5 (by decide), ?_⟩
            simp [readGp, writeGp, rtBits, getGp_setGp, viewRt, tySize, lowBytes]; simp only [zext32, sext16]; bv_decide
  case _ => simp [immRegValue] at h; obtain ⟨rfl, rfl⟩ := h; refine ⟨_, hrun 5 (by decide), ?_⟩
            simp [readGp, writeGp, rtBits, getGp_setGp, viewRt, tySize, lowBytes]; simp only [zext32, zext16]; bv_decide
  case _ => simp [immRegValue] at h; obtain ⟨rfl, rfl⟩ := h; refine ⟨_, hrun 5 (by decide), ?_⟩
            simp [readGp, writeGp, rtBits, getGp_setGp, viewRt, tySize, lowBytes]; simp only [zext32]; bv_decide
  case _ => simp [immRegValue] at h; obtain ⟨rfl, rfl⟩ := h; refine ⟨_, hrun 5 (by decide), ?_⟩
            simp [readGp, writeGp, rtBits, getGp_setGp, viewRt, tySize, lowBytes]; simp only [zext32]; bv_decide
  case _ => obtain ⟨m', h1, h2⟩ := h64 40 (Or.inl rfl) h; exact ⟨m', h1, by simpa [viewRt, tySize, lowBytes] using h2⟩
  case _ => obtain ⟨m', h1, h2⟩ := h64 41 (Or.inr rfl) h; exact ⟨m', h1, by simpa [viewRt, tySize, lowBytes] using h2⟩

/-! ## registers to stack slots -/

abbrev rr (n : Mnm) (rd rs id : Nat) : XI := ⟨n, false, [.reg rd id, .reg rs id], false⟩
abbrev stR (off : Int) (sz rt id : Nat) : XI := ⟨.mov, false, [.mem spId off sz, .reg rt id], false⟩
abbrev andM (off : Int) : XI := ⟨.and_, false, [.mem spId off 4, .imm 0], false⟩

/-- the value an extension instruction produces from register content `x` seen through `rs` -/
def extOf (n : Mnm) (rs : Nat) (x : BitVec 64) : BitVec 64 :=
  let v := x &&& BitVec.ofNat 64 (2 ^ rtBits rs - 1)
  if n = .movzx then v else if rtBits rs = 8 then sext8 v else if rtBits rs = 16 then sext16 v else sext32 v

theorem run_extD (m : M) (off : Int) (n : Mnm) (hn : n = .movsx ∨ n = .movzx) (rs : Nat) (hrs : rs = 2 ∨ rs = 4) (id : Nat)
    (x : BitVec 64) (hg : m.getGp id = some (.num x 64)) :
    ∃ m', run m [rr n 5 rs id, stR off 4 5 id] = some m' ∧
      loadNum m' off 4 = some (((zext32 (extOf n rs x)).truncate 32 : BitVec 32).zeroExtend 64, 32) := by
  rcases hn with rfl | rfl <;> rcases hrs with rfl | rfl <;>
    simp [run, step, rr, stR, readGp, readGpPartial, writeGp, hg, rtBits, gpGroup, getGp_setGp, addrOf, spId, storeNum, extOf,
      load4_store, zext32] <;> (try simp only [sext8, sext16]) <;> bv_decide

theorem run_extQ (m : M) (off : Int) (n : Mnm) (hn : n = .movsx ∨ n = .movzx ∨ n = .movsxd) (rs : Nat)
    (hrs : rs = 2 ∨ rs = 4 ∨ rs = 5) (hsx : n = .movsxd ↔ rs = 5) (id : Nat)
    (x : BitVec 64) (hg : m.getGp id = some (.num x 64)) :
    ∃ m', run m [rr n 6 rs id, stR off 8 6 id] = some m' ∧ loadNum m' off 8 = some (extOf n rs x, 64) := by
  rcases hn with rfl | rfl | rfl <;> rcases hrs with rfl | rfl | rfl <;> simp at hsx <;>
    simp [run, step, rr, stR, readGp, readGpPartial, writeGp, hg, rtBits, getGp_setGp, addrOf, spId, storeNum, extOf,
      load8_store] <;> (try simp only [sext8, sext16, sext32]) <;> bv_decide

theorem run_zxDQ (m : M) (off : Int) (id : Nat) (x : BitVec 64) (hg : m.getGp id = some (.num x 64)) :
    ∃ m', run m [stR off 4 5 id, andM (off + 4)] = some m' ∧ loadNum m' off 8 = some (zext32 x, 64) := by
  simp [run, step, stR, andM, readGpPartial, hg, rtBits, addrOf, spId, storeNum, load8_store, zext32]
  bv_decide

theorem run_movD (m : M) (off : Int) (id : Nat) (x : BitVec 64) (hg : m.getGp id = some (.num x 64)) :
    ∃ m', run m [stR off 4 5 id] = some m' ∧ loadNum m' off 4 = some (zext32 x, 32) := by
  simp [run, step, stR, readGpPartial, hg, rtBits, addrOf, spId, storeNum, load4_store, zext32]
  bv_decide

theorem run_movQ (m : M) (off : Int) (id : Nat) (x : BitVec 64) (hg : m.getGp id = some (.num x 64)) :
    ∃ m', run m [stR off 8 6 id] = some m' ∧ loadNum m' off 8 = some (x, 64) := by
  simp [run, step, stR, readGpPartial, hg, rtBits, addrOf, spId, storeNum, load8_store]
  bv_decide

/-- the statement for one (parameter type, register type) pair -/
def RegStackOk (is64 avx : Bool) (dt st : Nat) : Prop :=
  ∀ (off : Nat) (rid : Nat) (l : List XI), regStackInsts is64 avx dt off rid st false = .ok l →
    ∀ (m : M) (x : BitVec 64), m.getGp rid = some (.num x 64) →
      ∃ m' v b, run m l = some m' ∧ loadNum m' off (if tySize dt ≤ 4 then 4 else 8) = some (v, b) ∧ b ≥ 8 * tySize dt ∧
        lowBytes (tySize dt) v = lowBytes (tySize dt) (widen dt st x)

/-- 16/32-bit parameters from 8/16-bit registers: `movsx` / `movzx` into the 32-bit view, then a dword store -/
theorem reg_stack_small_ext (is64 avx : Bool) : ∀ dt ∈ [36, 37, 38, 39], ∀ st ∈ [34, 35, 36, 37], RegStackOk is64 avx dt st := by
  intro dt hdt st hst off rid l h m x hg
  simp only [List.mem_cons, List.mem_nil_iff, or_false] at hdt hst
  rcases hdt with rfl | rfl | rfl | rfl <;> rcases hst with rfl | rfl | rfl | rfl <;>
    simp [regStackInsts, isGp8, isGp16] at h <;> subst h
  all_goals
    first
    | (obtain ⟨m', h1, h2⟩ := run_extD m off .movsx (Or.inl rfl) 2 (Or.inl rfl) rid x hg
       refine ⟨m', _, _, h1, h2, by decide, ?_⟩
       simp [tySize, lowBytes, widen, isInt, isBetween, extOf, rtBits, zext32, sext8, sext16, zext8, zext16]; bv_decide)
    | (obtain ⟨m', h1, h2⟩ := run_extD m off .movzx (Or.inr rfl) 2 (Or.inl rfl) rid x hg
       refine ⟨m', _, _, h1, h2, by decide, ?_⟩
       simp [tySize, lowBytes, widen, isInt, isBetween, extOf, rtBits, zext32, sext8, sext16, zext8, zext16]; bv_decide)
    | (obtain ⟨m', h1, h2⟩ := run_extD m off .movsx (Or.inl rfl) 4 (Or.inr rfl) rid x hg
       refine ⟨m', _, _, h1, h2, by decide, ?_⟩
       simp [tySize, lowBytes, widen, isInt, isBetween, extOf, rtBits, zext32, sext8, sext16, zext8, zext16]; bv_decide)
    | (obtain ⟨m', h1, h2⟩ := run_extD m off .movzx (Or.inr rfl) 4 (Or.inr rfl) rid x hg
       refine ⟨m', _, _, h1, h2, by decide, ?_⟩
       simp [tySize, lowBytes, widen, isInt, isBetween, extOf, rtBits, zext32, sext8, sext16, zext8, zext16]; bv_decide)

/-- parameters of at most 32 bits from registers that are at least as wide (or 8-bit parameters from anything): one dword store -/
theorem reg_stack_small_mov (is64 avx : Bool) :
    (∀ dt ∈ [34, 35], ∀ st ∈ intTys8, RegStackOk is64 avx dt st) ∧
    (∀ dt ∈ [36, 37, 38, 39], ∀ st ∈ [38, 39, 40, 41], RegStackOk is64 avx dt st) := by
  refine ⟨?_, ?_⟩
  · intro dt hdt st hst off rid l h m x hg
    simp only [intTys8, List.mem_cons, List.mem_nil_iff, or_false] at hdt hst
    rcases hdt with rfl | rfl <;> rcases hst with rfl | rfl | rfl | rfl | rfl | rfl | rfl | rfl <;>
      simp [regStackInsts, isInt, isBetween] at h <;> subst h
    all_goals
      (obtain ⟨m', h1, h2⟩ := run_movD m off rid x hg
       refine ⟨m', _, _, h1, h2, by decide, ?_⟩
       simp [tySize, lowBytes, widen, isInt, isBetween, zext32, zext8, zext16] <;> bv_decide)
  · intro dt hdt st hst off rid l h m x hg
    simp only [List.mem_cons, List.mem_nil_iff, or_false] at hdt hst
    rcases hdt with rfl | rfl | rfl | rfl <;> rcases hst with rfl | rfl | rfl | rfl <;>
      simp [regStackInsts, isInt, isBetween, isGp8, isGp16] at h <;> subst h
    all_goals
      (obtain ⟨m', h1, h2⟩ := run_movD m off rid x hg
       refine ⟨m', _, _, h1, h2, by decide, ?_⟩
       simp [tySize, lowBytes, widen, isInt, isBetween, zext32, zext8, zext16] <;> bv_decide)

/-- 64-bit parameters (64-bit targets): `movsx` / `movzx` / `movsxd` into the 64-bit view and a qword store; a dword store plus a
    cleared upper half where zero extension is required; a plain qword store -/
theorem reg_stack_wide (avx : Bool) : ∀ dt ∈ [40, 41], ∀ st ∈ intTys8, RegStackOk true avx dt st := by
  intro dt hdt st hst off rid l h m x hg
  simp only [intTys8, List.mem_cons, List.mem_nil_iff, or_false] at hdt hst
  rcases hdt with rfl | rfl <;> rcases hst with rfl | rfl | rfl | rfl | rfl | rfl | rfl | rfl <;>
    simp [regStackInsts, isGp8, isGp16, isGp32, isGp64] at h <;> subst h
  all_goals
    first
    | (obtain ⟨m', h1, h2⟩ := run_extQ m off .movsx (Or.inl rfl) 2 (Or.inl rfl) (by decide) rid x hg
       refine ⟨m', _, _, h1, h2, by decide, ?_⟩
       simp [tySize, lowBytes, widen, isInt, isBetween, extOf, rtBits, sext8]; bv_decide)
    | (obtain ⟨m', h1, h2⟩ := run_extQ m off .movzx (Or.inr (Or.inl rfl)) 2 (Or.inl rfl) (by decide) rid x hg
       refine ⟨m', _, _, h1, h2, by decide, ?_⟩
       simp [tySize, lowBytes, widen, isInt, isBetween, extOf, rtBits, zext8, sext8]; bv_decide)
    | (obtain ⟨m', h1, h2⟩ := run_extQ m off .movsx (Or.inl rfl) 4 (Or.inr (Or.inl rfl)) (by decide) rid x hg
       refine ⟨m', _, _, h1, h2, by decide, ?_⟩
       simp [tySize, lowBytes, widen, isInt, isBetween, extOf, rtBits, sext16]; bv_decide)
    | (obtain ⟨m', h1, h2⟩ := run_extQ m off .movzx (Or.inr (Or.inl rfl)) 4 (Or.inr (Or.inl rfl)) (by decide) rid x hg
       refine ⟨m', _, _, h1, h2, by decide, ?_⟩
       simp [tySize, lowBytes, widen, isInt, isBetween, extOf, rtBits, zext16, sext16]; bv_decide)
    | (obtain ⟨m', h1, h2⟩ := run_extQ m off .movsxd (Or.inr (Or.inr rfl)) 5 (Or.inr (Or.inr rfl)) (by decide) rid x hg
       refine ⟨m', _, _, h1, h2, by decide, ?_⟩
       simp [tySize, lowBytes, widen, isInt, isBetween, extOf, rtBits, sext32]; bv_decide)
    | (obtain ⟨m', h1, h2⟩ := run_zxDQ m off rid x hg
       refine ⟨m', _, _, h1, h2, by decide, ?_⟩
       simp [tySize, lowBytes, widen, isInt, isBetween, zext32, sext32])
    | (obtain ⟨m', h1, h2⟩ := run_movQ m off rid x hg
       refine ⟨m', _, _, h1, h2, by decide, ?_⟩
       simp [tySize, lowBytes, widen, isInt, isBetween])

/-- **register to stack argument, every integer type pair a target admits, every register content, any machine state**: after the
    instructions `move_reg_to_stack_arg` emits the slot holds the register's value extended as the parameter type requires (sign
    extension when both types are signed and the parameter is wider, zero extension when it is wider otherwise, the low bytes when it
    is not wider) -/
theorem reg_stack_arg_machine (is64 avx : Bool) (dt : Nat) (hdt : dt ∈ intTys8) (st : Nat) (hst : st ∈ intTys8)
    (hm : is64 = true ∨ tySize dt ≤ 4) : RegStackOk is64 avx dt st := by
  simp only [intTys8, List.mem_cons, List.mem_nil_iff, or_false] at hdt hst
  have A := reg_stack_small_ext is64 avx
  have B := reg_stack_small_mov is64 avx
  rcases hdt with rfl | rfl | rfl | rfl | rfl | rfl | rfl | rfl
  case _ => exact B.1 34 (by simp) st (by simp [intTys8]; omega)
  case _ => exact B.1 35 (by simp) st (by simp [intTys8]; omega)
  case _ => rcases hst with rfl | rfl | rfl | rfl | rfl | rfl | rfl | rfl <;> first | exact A 36 (by decide) _ (by decide) | exact B.2 36 (by decide) _ (by decide)
  case _ => rcases hst with rfl | rfl | rfl | rfl | rfl | rfl | rfl | rfl <;> first | exact A 37 (by decide) _ (by decide) | exact B.2 37 (by decide) _ (by decide)
  case _ => rcases hst with rfl | rfl | rfl | rfl | rfl | rfl | rfl | rfl <;> first | exact A 38 (by decide) _ (by decide) | exact B.2 38 (by decide) _ (by decide)
  case _ => rcases hst with rfl | rfl | rfl | rfl | rfl | rfl | rfl | rfl <;> first | exact A 39 (by decide) _ (by decide) | exact B.2 39 (by decide) _ (by decide)
  case _ =>
    rcases hm with rfl | hm
    · exact reg_stack_wide avx 40 (by simp) st (by simp [intTys8]; omega)
    · simp [tySize] at hm
  case _ =>
    rcases hm with rfl | hm
    · exact reg_stack_wide avx 41 (by simp) st (by simp [intTys8]; omega)
    · simp [tySize] at hm

/-! ## registers to register arguments (fix C06-17) -/

theorem run_extR (m : M) (n : Mnm) (hn : n = .movsx ∨ n = .movzx) (rt : Nat) (hrt : rt = 5 ∨ rt = 6) (rs : Nat) (hrs : rs = 2 ∨ rs = 4)
    (id vid : Nat) (x : BitVec 64) (hg : m.getGp vid = some (.num x 64)) :
    ∃ m', run m [⟨n, false, [.reg rt id, .reg rs vid], false⟩] = some m' ∧
      m'.getGp id = some (.num (if rt = 5 then zext32 (extOf n rs x) else extOf n rs x) 64) := by
  rcases hn with rfl | rfl <;> rcases hrt with rfl | rfl <;> rcases hrs with rfl | rfl <;>
    simp [run, step, readGp, writeGp, hg, rtBits, getGp_setGp, extOf]

theorem run_extR32 (m : M) (id vid : Nat) (x : BitVec 64) (hg : m.getGp vid = some (.num x 64)) :
    ∃ m', run m [⟨.movsxd, false, [.reg 6 id, .reg 5 vid], false⟩] = some m' ∧
      m'.getGp id = some (.num (sext32 (x &&& 0xFFFFFFFF#64)) 64) := by
  simp [run, step, readGp, writeGp, hg, rtBits, getGp_setGp]

/-- **8/16-bit register for a wider integer register parameter, every type pair, every register content**: the instruction
    `move_reg_to_reg_arg` emits leaves, in the new register the invoke passes instead, the value extended as the parameter type
    requires (all 64 bits defined) -/
theorem reg_reg_arg_machine (s : LSt) (arg : FuncValue) (hdt : arg.typeId ∈ intTys8) (st : Nat) (hst : st ∈ [34, 35, 36, 37, 38])
    (hw : tySize arg.typeId > tySize st) (h38 : st = 38 → arg.typeId = 40) (vid : Nat) (s' : LSt) (rt id : Nat) (h : moveRegToRegArg s arg vid st = .ok (s', rt, id))
    (m : M) (x : BitVec 64) (hg : m.getGp vid = some (.num x 64)) :
    ∃ i m', s'.out = s.out ++ [i] ∧ run m [i] = some m' ∧
      readGp m' id (viewRt arg.typeId) = some (lowBytes (tySize arg.typeId) (widen arg.typeId st x)) := by
  generalize hd : arg.typeId = dt at *
  unfold moveRegToRegArg at h
  simp only [hd] at h
  simp only [intTys8, List.mem_cons, List.mem_nil_iff, or_false] at hdt hst
  rcases hdt with rfl | rfl | rfl | rfl | rfl | rfl | rfl | rfl <;> rcases hst with rfl | rfl | rfl | rfl | rfl <;>
    simp [tySize] at hw <;> simp at h38 <;> simp [isGp8, isGp16, tySize] at h <;> obtain ⟨rfl, rfl, rfl⟩ := h
  all_goals
    first
    | (obtain ⟨m', h1, h2⟩ := run_extR32 m s.nextV vid x hg
       refine ⟨_, m', rfl, h1, ?_⟩
       simp [readGp, h2, viewRt, tySize, rtBits, lowBytes, widen, isInt, isBetween, sext32] <;> bv_decide)
    | (obtain ⟨m', h1, h2⟩ := run_extR m .movsx (Or.inl rfl) 5 (Or.inl rfl) 2 (Or.inl rfl) s.nextV vid x hg
       refine ⟨_, m', rfl, h1, ?_⟩
       simp [readGp, h2, viewRt, tySize, rtBits, lowBytes, widen, isInt, isBetween, extOf, zext32, sext8, sext16] <;> bv_decide)
    | (obtain ⟨m', h1, h2⟩ := run_extR m .movzx (Or.inr rfl) 5 (Or.inl rfl) 2 (Or.inl rfl) s.nextV vid x hg
       refine ⟨_, m', rfl, h1, ?_⟩
       simp [readGp, h2, viewRt, tySize, rtBits, lowBytes, widen, isInt, isBetween, extOf, zext32, zext8, zext16] <;> bv_decide)
    | (obtain ⟨m', h1, h2⟩ := run_extR m .movsx (Or.inl rfl) 5 (Or.inl rfl) 4 (Or.inr rfl) s.nextV vid x hg
       refine ⟨_, m', rfl, h1, ?_⟩
       simp [readGp, h2, viewRt, tySize, rtBits, lowBytes, widen, isInt, isBetween, extOf, zext32, sext8, sext16] <;> bv_decide)
    | (obtain ⟨m', h1, h2⟩ := run_extR m .movzx (Or.inr rfl) 5 (Or.inl rfl) 4 (Or.inr rfl) s.nextV vid x hg
       refine ⟨_, m', rfl, h1, ?_⟩
       simp [readGp, h2, viewRt, tySize, rtBits, lowBytes, widen, isInt, isBetween, extOf, zext32, zext8, zext16] <;> bv_decide)
    | (obtain ⟨m', h1, h2⟩ := run_extR m .movsx (Or.inl rfl) 6 (Or.inr rfl) 2 (Or.inl rfl) s.nextV vid x hg
       refine ⟨_, m', rfl, h1, ?_⟩
       simp [readGp, h2, viewRt, tySize, rtBits, lowBytes, widen, isInt, isBetween, extOf, sext8, sext16] <;> bv_decide)
    | (obtain ⟨m', h1, h2⟩ := run_extR m .movzx (Or.inr rfl) 6 (Or.inr rfl) 2 (Or.inl rfl) s.nextV vid x hg
       refine ⟨_, m', rfl, h1, ?_⟩
       simp [readGp, h2, viewRt, tySize, rtBits, lowBytes, widen, isInt, isBetween, extOf, zext8, zext16] <;> bv_decide)
    | (obtain ⟨m', h1, h2⟩ := run_extR m .movsx (Or.inl rfl) 6 (Or.inr rfl) 4 (Or.inr rfl) s.nextV vid x hg
       refine ⟨_, m', rfl, h1, ?_⟩
       simp [readGp, h2, viewRt, tySize, rtBits, lowBytes, widen, isInt, isBetween, extOf, sext8, sext16] <;> bv_decide)
    | (obtain ⟨m', h1, h2⟩ := run_extR m .movzx (Or.inr rfl) 6 (Or.inr rfl) 4 (Or.inr rfl) s.nextV vid x hg
       refine ⟨_, m', rfl, h1, ?_⟩
       simp [readGp, h2, viewRt, tySize, rtBits, lowBytes, widen, isInt, isBetween, extOf, zext8, zext16] <;> bv_decide)

/-! ## by-reference vectors -/

/-- the two instructions of `move_vec_to_ptr` on the machine: the pointer register addresses the temporary and the temporary holds
    the whole vector (the temporary's place and the frame are `temps_ok`) -/
theorem vec_to_ptr_machine (m : M) (nrt pid : Nat) (off : Nat) (vrt vid k : Nat) (vex : Bool)
    (hv : vrt = 11 ∨ vrt = 12 ∨ vrt = 13) (hp : pid ≠ 4) (hg : m.getV 1 vid = some k) :
    ∃ m', run m [⟨.lea, false, [.reg nrt pid, .mem spId off 0], false⟩, ⟨.movaps, vex, [.mem pid 0 0, .reg vrt vid], false⟩] = some m' ∧
      m'.getGp pid = some (.ptr off) ∧ m'.cell off = some (.vec k (vecBytes vrt)) := by
  have hvg : vGroup vrt = 1 := by rcases hv with rfl | rfl | rfl <;> decide
  have hgv : (m.setGp pid (.ptr off)).getV 1 vid = some k := by simpa [M.setGp, M.getV] using hg
  simp [run, step, addrOf, spId, hp, getGp_setGp, hvg, hgv, cell_store_same]
  simp [M.store, M.getGp, M.setGp]

/-! ## former finding C06-K9, repaired by fixes C06-17 and C06-20 -/

/-- an `int32` register holding 0x88664422 for an `int64` register parameter: `movsxd` into a new register which the invoke passes
    (the unrepaired code emitted nothing: the callee read 0x0000000088664422) -/
theorem reg_arg_int32_repaired :
    let arg : FuncValue := .reg 40 6 2
    let s0 : LSt := { is64 := true, avx := false, argStack := 0, csAlign := 16 }
    (match lowerValue s0 arg (.gp 1 38) with
     | .ok (s, op) => s.out == [⟨.movsxd, false, [.reg 6 1000, .reg 5 1], false⟩] && op == .gp 1000 41
     | .error _ => false) = true ∧
    widen 40 38 0x88664422#64 = 0xFFFFFFFF88664422#64 := by decide

end AsmjitVerif.C06Invoke
