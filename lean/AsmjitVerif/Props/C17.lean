/-
C17 — displacement and immediate field codecs are exact for every value.

Part 1 (this section): for every `OffsetFormat` the backends construct (`FormatsProved`, checked against
the list regenerated from the sources in `Gen/FormatsInUse.lean`) and **every** 64-bit displacement:
 * `*_exact`   : if the encoder accepts, then OR-ing the mask into any word whose field bits are zero
                 yields a word that (i) decodes (Spec/Offset.lean) to exactly that displacement and
                 (ii) equals the old word outside the field;
 * `*_refused` : if the encoder refuses, then **no** field content designates that displacement.
-/
import AsmjitVerif.Spec.Offset
import AsmjitVerif.Gen.FormatsInUse
import Std.Tactic.BVDecide
namespace AsmjitVerif.Offset

/-- Statement: encoder/decoder exactness for a 32-bit-path format. -/
def Exact32 (f : OffsetFormat) : Prop :=
  ∀ (off : BitVec 64) (m : BitVec 32), encodeOffset32 f off = some m →
    ∀ old : BitVec 32, old &&& fieldMask32 f = 0#32 →
      decode32 f (old ||| m) = off ∧ (old ||| m) &&& ~~~ fieldMask32 f = old
/-- Statement: a refused displacement has no encoding at all in a 32-bit-path format. -/
def Refused32 (f : OffsetFormat) : Prop :=
  ∀ (off : BitVec 64), encodeOffset32 f off = none → ∀ w : BitVec 32, decode32 f w ≠ off

def Exact64 (f : OffsetFormat) : Prop :=
  ∀ (off : BitVec 64) (m : BitVec 64), encodeOffset64 f off = some m →
    ∀ old : BitVec 64, old &&& fieldMask64 f = 0#64 →
      decode64 f (old ||| m) = off ∧ (old ||| m) &&& ~~~ fieldMask64 f = old
def Refused64 (f : OffsetFormat) : Prop :=
  ∀ (off : BitVec 64), encodeOffset64 f off = none → ∀ w : BitVec 64, decode64 f w ≠ off

/-- the high bits of a 32-bit mask that do not fit the value size are zero (sizes 1 and 2) -/
def FitsValueSize (f : OffsetFormat) : Prop :=
  ∀ (off : BitVec 64) (m : BitVec 32), encodeOffset32 f off = some m → m.toNat < 2 ^ (8 * f.valueSize)

syntax "offset_unfold" : tactic
macro_rules
  | `(tactic| offset_unfold) => `(tactic|
      simp [encodeOffset32, encodeOffset64, encode32Value, simpleValue, immValue, OffsetFormat.hasSignBit,
            lsbMask32, lsbMask64, isInt32, isEncodableOffset32, isEncodableOffset64,
            decode32, decode64, fieldMask32, fieldMask64, sext64] at *)

syntax "prove_exact32" : tactic
macro_rules
  | `(tactic| prove_exact32) => `(tactic|
      (intro off m h old hold
       offset_unfold
       first
       | (split at h
          · simp at h
          · rename_i value u heq
            simp at heq h
            bv_decide)
       | bv_decide))

syntax "prove_refused32" : tactic
macro_rules
  | `(tactic| prove_refused32) => `(tactic|
      (intro off h w
       offset_unfold
       first
       | (split at h
          · rename_i heq
            simp at heq
            bv_decide
          · simp at h)
       | bv_decide))

/-! #### formats of the x86 backend and of `embed_label` / `embed_label_delta` -/
def fS1 := simpleValue .signed 1
def fS2 := simpleValue .signed 2
def fS4 := simpleValue .signed 4
def fS8 := simpleValue .signed 8
def fU1 := simpleValue .unsigned 1
def fU2 := simpleValue .unsigned 2
def fU4 := simpleValue .unsigned 4
def fU8 := simpleValue .unsigned 8
/-! #### formats of the AArch64 backend -/
def fAdr    := immValue .a64Adr 4 5 21 0
def fAdrp   := immValue .a64Adrp 4 5 21 12
def fImm19  := immValue .signed 4 5 19 2
def fImm26  := immValue .signed 4 0 26 2
def fImm14  := immValue .signed 4 5 14 2

syntax "prove_exact64" : tactic
macro_rules
  | `(tactic| prove_exact64) => `(tactic|
      (intro off m h old hold
       offset_unfold
       all_goals bv_decide))
syntax "prove_refused64" : tactic
macro_rules
  | `(tactic| prove_refused64) => `(tactic|
      (intro off h w
       offset_unfold
       all_goals bv_decide))

theorem fS1_exact : Exact32 fS1 := by unfold fS1; prove_exact32
theorem fS1_refused : Refused32 fS1 := by unfold fS1; prove_refused32
theorem fS2_exact : Exact32 fS2 := by unfold fS2; prove_exact32
theorem fS2_refused : Refused32 fS2 := by unfold fS2; prove_refused32
theorem fS4_exact : Exact32 fS4 := by unfold fS4; prove_exact32
theorem fS4_refused : Refused32 fS4 := by unfold fS4; prove_refused32
theorem fU1_exact : Exact32 fU1 := by unfold fU1; prove_exact32
theorem fU1_refused : Refused32 fU1 := by unfold fU1; prove_refused32
theorem fU2_exact : Exact32 fU2 := by unfold fU2; prove_exact32
theorem fU2_refused : Refused32 fU2 := by unfold fU2; prove_refused32
theorem fU4_exact : Exact32 fU4 := by unfold fU4; prove_exact32
theorem fU4_refused : Refused32 fU4 := by unfold fU4; prove_refused32
theorem fAdr_exact : Exact32 fAdr := by unfold fAdr; prove_exact32
theorem fAdr_refused : Refused32 fAdr := by unfold fAdr; prove_refused32
theorem fAdrp_exact : Exact32 fAdrp := by unfold fAdrp; prove_exact32
theorem fAdrp_refused : Refused32 fAdrp := by unfold fAdrp; prove_refused32
theorem fImm19_exact : Exact32 fImm19 := by unfold fImm19; prove_exact32
theorem fImm19_refused : Refused32 fImm19 := by unfold fImm19; prove_refused32
theorem fImm26_exact : Exact32 fImm26 := by unfold fImm26; prove_exact32
theorem fImm26_refused : Refused32 fImm26 := by unfold fImm26; prove_refused32
theorem fImm14_exact : Exact32 fImm14 := by unfold fImm14; prove_exact32
theorem fImm14_refused : Refused32 fImm14 := by unfold fImm14; prove_refused32
theorem fS8_exact : Exact64 fS8 := by unfold fS8; prove_exact64
theorem fS8_refused : Refused64 fS8 := by unfold fS8; prove_refused64
theorem fU8_exact : Exact64 fU8 := by unfold fU8; prove_exact64
theorem fU8_refused : Refused64 fU8 := by unfold fU8; prove_refused64

/-! #### the monitor's notion of "representable" is complete: if any word designates `off`, the canonical one does -/
def ReprComplete32 (f : OffsetFormat) : Prop :=
  ∀ (off : BitVec 64) (w : BitVec 32), decode32 f w = off → decode32 f (specEnc32 f off) = off
def ReprComplete64 (f : OffsetFormat) : Prop :=
  ∀ (off : BitVec 64) (w : BitVec 64), decode64 f w = off → decode64 f (specEnc64 f off) = off
syntax "prove_repr" : tactic
macro_rules
  | `(tactic| prove_repr) => `(tactic|
      (intro off w h
       simp [simpleValue, immValue, decode32, decode64, specEnc32, specEnc64, sext64] at *
       all_goals bv_decide))
theorem fS1_repr_complete : ReprComplete32 fS1 := by unfold fS1; prove_repr
theorem fS2_repr_complete : ReprComplete32 fS2 := by unfold fS2; prove_repr
theorem fS4_repr_complete : ReprComplete32 fS4 := by unfold fS4; prove_repr
theorem fU1_repr_complete : ReprComplete32 fU1 := by unfold fU1; prove_repr
theorem fU2_repr_complete : ReprComplete32 fU2 := by unfold fU2; prove_repr
theorem fU4_repr_complete : ReprComplete32 fU4 := by unfold fU4; prove_repr
theorem fAdr_repr_complete : ReprComplete32 fAdr := by unfold fAdr; prove_repr
theorem fAdrp_repr_complete : ReprComplete32 fAdrp := by unfold fAdrp; prove_repr
theorem fImm19_repr_complete : ReprComplete32 fImm19 := by unfold fImm19; prove_repr
theorem fImm26_repr_complete : ReprComplete32 fImm26 := by unfold fImm26; prove_repr
theorem fImm14_repr_complete : ReprComplete32 fImm14 := by unfold fImm14; prove_repr
theorem fS8_repr_complete : ReprComplete64 fS8 := by unfold fS8; prove_repr
theorem fU8_repr_complete : ReprComplete64 fU8 := by unfold fU8; prove_repr

/-- the formats for which the exactness theorems above are proved -/
def formatsProved : List OffsetFormat :=
  [fS1, fS2, fS4, fS8, fU1, fU2, fU4, fU8, fAdr, fAdrp, fImm19, fImm26, fImm14]

/-- The codec statement of C17 for one format (32-bit path for value sizes 1/2/4, 64-bit path for 8). -/
def CodecExact (f : OffsetFormat) : Prop :=
  if f.valueSize = 8 then Exact64 f ∧ Refused64 f else Exact32 f ∧ Refused32 f

theorem formatsProved_exact : ∀ f ∈ formatsProved, CodecExact f := by
  intro f hf
  simp only [formatsProved, List.mem_cons, List.mem_nil_iff, or_false] at hf
  rcases hf with h | h | h | h | h | h | h | h | h | h | h | h | h <;> subst h
  · exact ⟨fS1_exact, fS1_refused⟩
  · exact ⟨fS2_exact, fS2_refused⟩
  · exact ⟨fS4_exact, fS4_refused⟩
  · exact ⟨fS8_exact, fS8_refused⟩
  · exact ⟨fU1_exact, fU1_refused⟩
  · exact ⟨fU2_exact, fU2_refused⟩
  · exact ⟨fU4_exact, fU4_refused⟩
  · exact ⟨fU8_exact, fU8_refused⟩
  · exact ⟨fAdr_exact, fAdr_refused⟩
  · exact ⟨fAdrp_exact, fAdrp_refused⟩
  · exact ⟨fImm19_exact, fImm19_refused⟩
  · exact ⟨fImm26_exact, fImm26_refused⟩
  · exact ⟨fImm14_exact, fImm14_refused⟩

/-- Tie to the sources: every format constructed by the current /repo sources (regenerated list) is proved. -/
theorem formats_in_use_proved : ∀ f ∈ formatsInUse, f ∈ formatsProved := by decide

/-- **C17, displacement part.** Every displacement format used by the backends is exact for every value. -/
theorem offset_codec_exact : ∀ f ∈ formatsInUse, CodecExact f :=
  fun f hf => formatsProved_exact f (formats_in_use_proved f hf)

/-! non-vacuity: the hypotheses are met by concrete values on both sides of a range limit -/
example : encodeOffset32 fImm19 (BitVec.ofInt 64 (-8)) = some 0x00ffffc0#32 := by decide
example : encodeOffset32 fImm19 0xFFFFC#64 = some 0x007fffe0#32 := by decide       -- +1 MiB - 4: largest
example : encodeOffset32 fImm19 0x100000#64 = none := by decide                    -- +1 MiB: refused
example : encodeOffset32 fImm19 3#64 = none := by decide                           -- misaligned: refused
example : encodeOffset32 fS1 127#64 = some 0x7f#32 ∧ encodeOffset32 fS1 128#64 = none := by decide
example : encodeOffset32 fAdrp 0x1000#64 = some 0x20000000#32 := by decide

end AsmjitVerif.Offset
