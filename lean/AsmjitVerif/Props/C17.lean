/-
C17 — displacement and immediate field codecs are exact for every value.

Part 1 (this section): for every `OffsetFormat` the backends construct (`FormatsProved`, checked against
the list regenerated from the sources in `Gen/FormatsInUse.lean`) and **every** 64-bit displacement:
 * `*_exact`   : if the encoder accepts, then OR-ing the mask into any word whose field bits are zero
                 yields a word that (i) decodes (Spec/Offset.lean) to exactly that displacement and
                 (ii) equals the old word outside the field;
 * `*_refused` : if the encoder refuses, then **no** field content designates that displacement.
-/
import AsmjitVerif.Spec.Offset
import AsmjitVerif.Gen.FormatsInUse
import AsmjitVerif.Lemmas.Bytes
import Std.Tactic.BVDecide
namespace AsmjitVerif.Offset

/-- Statement: encoder/decoder exactness for a 32-bit-path format. -/
def Exact32 (f : OffsetFormat) : Prop :=
  ∀ (off : BitVec 64) (m : BitVec 32), encodeOffset32 f off = some m →
    ∀ old : BitVec 32, old &&& fieldMask32 f = 0#32 →
      decode32 f (old ||| m) = off ∧ (old ||| m) &&& ~~~ fieldMask32 f = old
/-- Statement: a refused displacement has no encoding at all in a 32-bit-path format. -/
def Refused32 (f : OffsetFormat) : Prop :=
  ∀ (off : BitVec 64), encodeOffset32 f off = none → ∀ w : BitVec 32, decode32 f w ≠ off

def Exact64 (f : OffsetFormat) : Prop :=
  ∀ (off : BitVec 64) (m : BitVec 64), encodeOffset64 f off = some m →
    ∀ old : BitVec 64, old &&& fieldMask64 f = 0#64 →
      decode64 f (old ||| m) = off ∧ (old ||| m) &&& ~~~ fieldMask64 f = old
def Refused64 (f : OffsetFormat) : Prop :=
  ∀ (off : BitVec 64), encodeOffset64 f off = none → ∀ w : BitVec 64, decode64 f w ≠ off

/-- the high bits of a 32-bit mask that do not fit the value size are zero (sizes 1 and 2) -/
def FitsValueSize (f : OffsetFormat) : Prop :=
  ∀ (off : BitVec 64) (m : BitVec 32), encodeOffset32 f off = some m → m.toNat < 2 ^ (8 * f.valueSize)

syntax "offset_unfold" : tactic
macro_rules
  | `(tactic| offset_unfold) => `(tactic|
      simp [encodeOffset32, encodeOffset64, encode32Value, simpleValue, immValue, OffsetFormat.hasSignBit,
            lsbMask32, lsbMask64, isInt32, isEncodableOffset32, isEncodableOffset64,
            decode32, decode64, fieldMask32, fieldMask64, sext64] at *)

syntax "prove_exact32" : tactic
macro_rules
  | `(tactic| prove_exact32) => `(tactic|
      (intro off m h old hold
       offset_unfold
       first
       | (split at h
          · simp at h
          · rename_i value u heq
            simp at heq h
            bv_decide (config := { timeout := 300 }))
       | bv_decide (config := { timeout := 300 })))

syntax "prove_refused32" : tactic
macro_rules
  | `(tactic| prove_refused32) => `(tactic|
      (intro off h w
       offset_unfold
       first
       | (split at h
          · rename_i heq
            simp at heq
            bv_decide (config := { timeout := 300 })
          · simp at h)
       | bv_decide (config := { timeout := 300 })))

/-! #### formats of the x86 backend and of `embed_label` / `embed_label_delta` -/
def fS1 := simpleValue .signed 1
def fS2 := simpleValue .signed 2
def fS4 := simpleValue .signed 4
def fS8 := simpleValue .signed 8
def fU1 := simpleValue .unsigned 1
def fU2 := simpleValue .unsigned 2
def fU4 := simpleValue .unsigned 4
def fU8 := simpleValue .unsigned 8
/-! #### formats of the AArch64 backend -/
def fAdr    := immValue .a64Adr 4 5 21 0
def fAdrp   := immValue .a64Adrp 4 5 21 12
def fImm19  := immValue .signed 4 5 19 2
def fImm26  := immValue .signed 4 0 26 2
def fImm14  := immValue .signed 4 5 14 2

syntax "prove_exact64" : tactic
macro_rules
  | `(tactic| prove_exact64) => `(tactic|
      (intro off m h old hold
       offset_unfold
       all_goals bv_decide (config := { timeout := 300 })))
syntax "prove_refused64" : tactic
macro_rules
  | `(tactic| prove_refused64) => `(tactic|
      (intro off h w
       offset_unfold
       all_goals bv_decide (config := { timeout := 300 })))

theorem fS1_exact : Exact32 fS1 := by unfold fS1; prove_exact32
theorem fS1_refused : Refused32 fS1 := by unfold fS1; prove_refused32
theorem fS2_exact : Exact32 fS2 := by unfold fS2; prove_exact32
theorem fS2_refused : Refused32 fS2 := by unfold fS2; prove_refused32
theorem fS4_exact : Exact32 fS4 := by unfold fS4; prove_exact32
theorem fS4_refused : Refused32 fS4 := by unfold fS4; prove_refused32
theorem fU1_exact : Exact32 fU1 := by unfold fU1; prove_exact32
theorem fU1_refused : Refused32 fU1 := by unfold fU1; prove_refused32
theorem fU2_exact : Exact32 fU2 := by unfold fU2; prove_exact32
theorem fU2_refused : Refused32 fU2 := by unfold fU2; prove_refused32
theorem fU4_exact : Exact32 fU4 := by unfold fU4; prove_exact32
theorem fU4_refused : Refused32 fU4 := by unfold fU4; prove_refused32
theorem fAdr_exact : Exact32 fAdr := by unfold fAdr; prove_exact32
theorem fAdr_refused : Refused32 fAdr := by unfold fAdr; prove_refused32
theorem fAdrp_exact : Exact32 fAdrp := by unfold fAdrp; prove_exact32
theorem fAdrp_refused : Refused32 fAdrp := by unfold fAdrp; prove_refused32
theorem fImm19_exact : Exact32 fImm19 := by unfold fImm19; prove_exact32
theorem fImm19_refused : Refused32 fImm19 := by unfold fImm19; prove_refused32
theorem fImm26_exact : Exact32 fImm26 := by unfold fImm26; prove_exact32
theorem fImm26_refused : Refused32 fImm26 := by unfold fImm26; prove_refused32
theorem fImm14_exact : Exact32 fImm14 := by unfold fImm14; prove_exact32
theorem fImm14_refused : Refused32 fImm14 := by unfold fImm14; prove_refused32
theorem fS8_exact : Exact64 fS8 := by unfold fS8; prove_exact64
theorem fS8_refused : Refused64 fS8 := by unfold fS8; prove_refused64
theorem fU8_exact : Exact64 fU8 := by unfold fU8; prove_exact64
theorem fU8_refused : Refused64 fU8 := by unfold fU8; prove_refused64

/-! #### the monitor's notion of "representable" is complete: if any word designates `off`, the canonical one does -/
def ReprComplete32 (f : OffsetFormat) : Prop :=
  ∀ (off : BitVec 64) (w : BitVec 32), decode32 f w = off → decode32 f (specEnc32 f off) = off
def ReprComplete64 (f : OffsetFormat) : Prop :=
  ∀ (off : BitVec 64) (w : BitVec 64), decode64 f w = off → decode64 f (specEnc64 f off) = off
syntax "prove_repr" : tactic
macro_rules
  | `(tactic| prove_repr) => `(tactic|
      (intro off w h
       simp [simpleValue, immValue, decode32, decode64, specEnc32, specEnc64, sext64] at *
       all_goals bv_decide (config := { timeout := 300 })))
theorem fS1_repr_complete : ReprComplete32 fS1 := by unfold fS1; prove_repr
theorem fS2_repr_complete : ReprComplete32 fS2 := by unfold fS2; prove_repr
theorem fS4_repr_complete : ReprComplete32 fS4 := by unfold fS4; prove_repr
theorem fU1_repr_complete : ReprComplete32 fU1 := by unfold fU1; prove_repr
theorem fU2_repr_complete : ReprComplete32 fU2 := by unfold fU2; prove_repr
theorem fU4_repr_complete : ReprComplete32 fU4 := by unfold fU4; prove_repr
theorem fAdr_repr_complete : ReprComplete32 fAdr := by unfold fAdr; prove_repr
theorem fAdrp_repr_complete : ReprComplete32 fAdrp := by unfold fAdrp; prove_repr
theorem fImm19_repr_complete : ReprComplete32 fImm19 := by unfold fImm19; prove_repr
theorem fImm26_repr_complete : ReprComplete32 fImm26 := by unfold fImm26; prove_repr
theorem fImm14_repr_complete : ReprComplete32 fImm14 := by unfold fImm14; prove_repr
theorem fS8_repr_complete : ReprComplete64 fS8 := by unfold fS8; prove_repr
theorem fU8_repr_complete : ReprComplete64 fU8 := by unfold fU8; prove_repr

/-- the formats for which the exactness theorems above are proved -/
def formatsProved : List OffsetFormat :=
  [fS1, fS2, fS4, fS8, fU1, fU2, fU4, fU8, fAdr, fAdrp, fImm19, fImm26, fImm14]

/-- The codec statement of C17 for one format (32-bit path for value sizes 1/2/4, 64-bit path for 8). -/
def CodecExact (f : OffsetFormat) : Prop :=
  if f.valueSize = 8 then Exact64 f ∧ Refused64 f else Exact32 f ∧ Refused32 f

theorem formatsProved_exact : ∀ f ∈ formatsProved, CodecExact f := by
  intro f hf
  simp only [formatsProved, List.mem_cons, List.mem_nil_iff, or_false] at hf
  rcases hf with h | h | h | h | h | h | h | h | h | h | h | h | h <;> subst h
  · exact ⟨fS1_exact, fS1_refused⟩
  · exact ⟨fS2_exact, fS2_refused⟩
  · exact ⟨fS4_exact, fS4_refused⟩
  · exact ⟨fS8_exact, fS8_refused⟩
  · exact ⟨fU1_exact, fU1_refused⟩
  · exact ⟨fU2_exact, fU2_refused⟩
  · exact ⟨fU4_exact, fU4_refused⟩
  · exact ⟨fU8_exact, fU8_refused⟩
  · exact ⟨fAdr_exact, fAdr_refused⟩
  · exact ⟨fAdrp_exact, fAdrp_refused⟩
  · exact ⟨fImm19_exact, fImm19_refused⟩
  · exact ⟨fImm26_exact, fImm26_refused⟩
  · exact ⟨fImm14_exact, fImm14_refused⟩

/-- Tie to the sources: every format constructed by the current /repo sources (regenerated list) is proved. -/
theorem formats_in_use_proved : ∀ f ∈ formatsInUse, f ∈ formatsProved := by decide

/-- **C17, displacement part.** Every displacement format used by the backends is exact for every value. -/
theorem offset_codec_exact : ∀ f ∈ formatsInUse, CodecExact f :=
  fun f hf => formatsProved_exact f (formats_in_use_proved f hf)

/-! ### byte level: `write_offset` on a code buffer -/

/-- **write_offset changes nothing but the value word.** -/
theorem writeOffset_frame (buf buf' : Bytes) (pos : Nat) (off : BitVec 64) (f : OffsetFormat)
    (h : writeOffset buf pos off f = some buf') :
    buf'.length = buf.length ∧
    (∀ i, (i < pos + f.valueOffset ∨ pos + f.valueOffset + f.valueSize ≤ i) → buf'[i]? = buf[i]?) ∧
    ∃ old m : Nat, loadLE buf (pos + f.valueOffset) f.valueSize = some old ∧
      (if f.valueSize = 8 then (encodeOffset64 f off).map (·.toNat) = some m
       else (encodeOffset32 f off).map (fun x => x.toNat % 2 ^ (8 * f.valueSize)) = some m) ∧
      loadLE buf' (pos + f.valueOffset) f.valueSize = some (old ||| m) := by
  unfold writeOffset at h
  simp only [] at h
  split at h
  · -- sizes 1, 2, 4
    rename_i hsz
    split at h
    · rename_i m old hm hold
      refine ⟨storeLE_length _ _ _ _ _ h, storeLE_outside _ _ _ _ _ h, old, m.toNat % 2 ^ (8 * f.valueSize), hold, ?_, ?_⟩
      · have : f.valueSize ≠ 8 := by rcases hsz with h | h | h <;> omega
        simp [this, hm]
      · rw [loadLE_storeLE _ _ _ _ _ h]
        congr 1
        have hlt := loadLE_lt _ _ _ _ hold
        have e : 256 ^ f.valueSize = 2 ^ (8 * f.valueSize) := by
          rw [show (256 : Nat) = 2 ^ 8 by rfl, ← Nat.pow_mul]
        rw [e] at hlt ⊢
        apply Nat.mod_eq_of_lt
        exact Nat.or_lt_two_pow hlt (Nat.mod_lt _ (Nat.two_pow_pos _))
    · cases h
  · split at h
    · rename_i hsz
      split at h
      · rename_i m old hm hold
        refine ⟨storeLE_length _ _ _ _ _ h, storeLE_outside _ _ _ _ _ h, old, m.toNat, hold, ?_, ?_⟩
        · simp [hsz, hm]
        · rw [loadLE_storeLE _ _ _ _ _ h]
          congr 1
          have hlt := loadLE_lt _ _ _ _ hold
          apply Nat.mod_eq_of_lt
          rw [hsz] at hlt ⊢
          have e : (256:Nat) ^ 8 = 2 ^ 64 := by decide
          rw [e] at hlt ⊢
          exact Nat.or_lt_two_pow hlt m.isLt
      · cases h
    · cases h

/-- the mask fits the value word: no bit above `8·valueSize` is ever produced (matters for sizes 1 and 2) -/
theorem mask_fits_value_size : ∀ f ∈ formatsProved, f.valueSize ≠ 8 →
    ∀ off m, encodeOffset32 f off = some m → m.toNat < 2 ^ (8 * f.valueSize) := by
  intro f hf h8 off m hm
  have hex := formatsProved_exact f hf
  unfold CodecExact at hex
  simp only [h8, if_false] at hex
  have h0 := (hex.1 off m hm 0#32 (by simp)).2
  -- m has no bit outside the field mask, and the field mask fits the value word
  have hmask : (fieldMask32 f).toNat < 2 ^ (8 * f.valueSize) := by
    simp only [formatsProved, List.mem_cons, List.mem_nil_iff, or_false] at hf
    rcases hf with h | h | h | h | h | h | h | h | h | h | h | h | h <;> subst h <;> first | decide | (exfalso; exact h8 rfl)
  have hle : m.toNat ≤ (fieldMask32 f).toNat := by
    have h1 : m &&& ~~~ fieldMask32 f = 0#32 := by simpa using h0
    have h2 : m &&& fieldMask32 f = m := by
      generalize fieldMask32 f = x at h1
      bv_decide (config := { timeout := 300 })
    rw [← h2, BitVec.toNat_and]
    exact Nat.and_le_right
  omega

/-- **C17 at byte level (32-bit path).** Patching a word whose field is zero, with any format in use: the patched
word decodes to exactly the displacement, its other bits are the old ones, and no other byte changes. -/
theorem write_exact32 (f : OffsetFormat) (hf : f ∈ formatsInUse) (h8 : f.valueSize ≠ 8)
    (buf buf' : Bytes) (pos : Nat) (off : BitVec 64) (old : Nat)
    (hw : writeOffset buf pos off f = some buf')
    (hold : loadLE buf (pos + f.valueOffset) f.valueSize = some old)
    (hzero : BitVec.ofNat 32 old &&& fieldMask32 f = 0#32) :
    ∃ new, loadLE buf' (pos + f.valueOffset) f.valueSize = some new ∧
      decode32 f (BitVec.ofNat 32 new) = off ∧
      BitVec.ofNat 32 new &&& ~~~ fieldMask32 f = BitVec.ofNat 32 old ∧
      buf'.length = buf.length ∧
      ∀ i, (i < pos + f.valueOffset ∨ pos + f.valueOffset + f.valueSize ≤ i) → buf'[i]? = buf[i]? := by
  obtain ⟨hlen, hout, old', m, hold', hm, hnew⟩ := writeOffset_frame buf buf' pos off f hw
  rw [hold] at hold'; cases hold'
  simp only [h8, if_false] at hm
  cases he : encodeOffset32 f off with
  | none => simp [he] at hm
  | some mv =>
    simp only [he, Option.map_some, Option.some.injEq] at hm
    have hfp := formats_in_use_proved f hf
    have hfit := mask_fits_value_size f hfp h8 off mv he
    have hmm : m = mv.toNat := by rw [← hm]; exact Nat.mod_eq_of_lt hfit
    have hex := formatsProved_exact f hfp
    unfold CodecExact at hex
    simp only [h8, if_false] at hex
    have := hex.1 off mv he (BitVec.ofNat 32 old) hzero
    refine ⟨old ||| m, hnew, ?_, ?_, hlen, hout⟩
    · have e : BitVec.ofNat 32 (old ||| m) = BitVec.ofNat 32 old ||| mv := by
        rw [hmm]; apply BitVec.eq_of_toNat_eq; simp [BitVec.toNat_or]
      rw [e]; exact this.1
    · have e : BitVec.ofNat 32 (old ||| m) = BitVec.ofNat 32 old ||| mv := by
        rw [hmm]; apply BitVec.eq_of_toNat_eq; simp [BitVec.toNat_or]
      rw [e]; exact this.2

/-! non-vacuity: the hypotheses are met by concrete values on both sides of a range limit -/
example : encodeOffset32 fImm19 (BitVec.ofInt 64 (-8)) = some 0x00ffffc0#32 := by decide
example : encodeOffset32 fImm19 0xFFFFC#64 = some 0x007fffe0#32 := by decide       -- +1 MiB - 4: largest
example : encodeOffset32 fImm19 0x100000#64 = none := by decide                    -- +1 MiB: refused
example : encodeOffset32 fImm19 3#64 = none := by decide                           -- misaligned: refused
example : encodeOffset32 fS1 127#64 = some 0x7f#32 ∧ encodeOffset32 fS1 128#64 = none := by decide
example : encodeOffset32 fAdrp 0x1000#64 = some 0x20000000#32 := by decide

end AsmjitVerif.Offset
