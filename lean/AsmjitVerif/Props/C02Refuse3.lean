/-
C02, refusal side ("accepted -> every register number is valid for its type", contrapositive: refused, nothing appended) for the
remaining SIMD classes of the eighth / ninth model waves.
-/
import AsmjitVerif.Props.C02Refuse
namespace AsmjitVerif.C02
open AsmjitVerif.A64 AsmjitVerif.A64Asm AsmjitVerif.Gen.A64Tables
set_option maxRecDepth 100000

theorem tailRd0Rn5Rm16Ra10_accepts_only_valid (opc : BitVec 32) (o0 o1 o2 o3 : Reg) (ws : List (BitVec 32))
    (h : tailRd0Rn5Rm16Ra10 opc o0 o1 o2 o3 = .ok ws) :
    validReg o0 = true ∧ validReg o1 = true ∧ validReg o2 = true ∧ validReg o3 = true := by
  unfold tailRd0Rn5Rm16Ra10 at h
  repeat (split at h <;> try (simp [invalidInstruction, invalidPhysId] at h))
  simp_all

theorem simdFcmReg_accepts_only_valid (d : SimdFcmRow) (flags : Nat) (o0 o1 o2 : Reg) (ws : List (BitVec 32))
    (h : emitSimdFcmReg d flags o0 o1 o2 = .ok ws) : validReg o0 = true ∧ validReg o1 = true ∧ validReg o2 = true := by
  unfold emitSimdFcmReg at h
  explode h
  all_goals (have t := tailRd0Rn5Rm16_accepts_only_valid _ _ _ _ _ _ h; exact ⟨t.1, t.2.1, t.2.2.1⟩)

theorem simdFcmZero_accepts_only_valid (d : SimdFcmRow) (o0 o1 : Reg) (imm : BitVec 64) (pred : Nat) (ws : List (BitVec 32))
    (h : emitSimdFcmZero d o0 o1 imm pred = .ok ws) : validReg o0 = true ∧ validReg o1 = true ∧ imm = 0 ∧ pred = 0 := by
  unfold emitSimdFcmZero at h
  explode h
  all_goals (have t := tailRd0Rn5_accepts_only_valid _ _ _ _ _ h; refine ⟨t.1, t.2.1, ?_⟩; simp_all)

theorem simdFcvtLN_accepts_only_valid (d : SimdFcvtLNRow) (flags : Nat) (o0 o1 : Reg) (ws : List (BitVec 32))
    (h : emitSimdFcvtLN d flags o0 o1 = .ok ws) : validReg o0 = true ∧ validReg o1 = true := by
  unfold emitSimdFcvtLN at h
  explode h
  all_goals (have t := tailRd0Rn5_accepts_only_valid _ _ _ _ _ h; exact ⟨t.1, t.2.1⟩)

theorem simdFcvtSV_accepts_only_valid (d : SimdFcvtSVRow) (o0 o1 : Reg) (ws : List (BitVec 32))
    (h : emitSimdFcvtSV d o0 o1 = .ok ws) : validReg o0 = true ∧ validReg o1 = true := by
  unfold emitSimdFcvtSV at h
  explode h
  all_goals (have t := tailRd0Rn5_accepts_only_valid _ _ _ _ _ h; exact ⟨t.1, t.2.1⟩)

theorem fmovRR_accepts_only_valid (o0 o1 : Reg) (ws : List (BitVec 32)) (h : emitFmovRR o0 o1 = .ok ws) :
    validReg o0 = true ∧ validReg o1 = true := by
  unfold emitFmovRR at h
  explode h
  all_goals (have t := tailRd0Rn5_accepts_only_valid _ _ _ _ _ h; exact ⟨t.1, t.2.1⟩)

theorem fSimdPair2_accepts_only_valid (d : FSimdPairRow) (o0 o1 : Reg) (ws : List (BitVec 32))
    (h : emitFSimdPair2 d o0 o1 = .ok ws) : validReg o0 = true ∧ validReg o1 = true := by
  unfold emitFSimdPair2 at h
  explode h
  all_goals (have t := tailRd0Rn5_accepts_only_valid _ _ _ _ _ h; exact ⟨t.1, t.2.1⟩)

theorem fSimdPair3_accepts_only_valid (d : FSimdPairRow) (o0 o1 o2 : Reg) (ws : List (BitVec 32))
    (h : emitFSimdPair3 d o0 o1 o2 = .ok ws) : validReg o0 = true ∧ validReg o1 = true ∧ validReg o2 = true := by
  unfold emitFSimdPair3 at h
  explode h
  all_goals (have t := tailRd0Rn5Rm16_accepts_only_valid _ _ _ _ _ _ h; exact ⟨t.1, t.2.1, t.2.2.1⟩)

theorem iSimdPair2_accepts_only_valid (d : ISimdPairRow) (o0 o1 : Reg) (ws : List (BitVec 32))
    (h : emitISimdPair2 d o0 o1 = .ok ws) : validReg o0 = true ∧ validReg o1 = true := by
  unfold emitISimdPair2 at h
  explode h
  all_goals (have t := tailRd0Rn5_accepts_only_valid _ _ _ _ _ h; exact ⟨t.1, t.2.1⟩)

theorem iSimdPair3_accepts_only_valid (d : ISimdPairRow) (flags : Nat) (o0 o1 o2 : Reg) (ws : List (BitVec 32))
    (h : emitISimdPair3 d flags o0 o1 o2 = .ok ws) : validReg o0 = true ∧ validReg o1 = true ∧ validReg o2 = true := by
  unfold emitISimdPair3 at h
  explode h
  all_goals (have t := tailRd0Rn5Rm16_accepts_only_valid _ _ _ _ _ _ h; exact ⟨t.1, t.2.1, t.2.2.1⟩)

theorem iSimdVVVVx_accepts_only_valid (d : ISimdVVVVxRow) (o0 o1 o2 o3 : Reg) (ws : List (BitVec 32))
    (h : emitISimdVVVVx d o0 o1 o2 o3 = .ok ws) :
    validReg o0 = true ∧ validReg o1 = true ∧ validReg o2 = true ∧ validReg o3 = true := by
  unfold emitISimdVVVVx at h
  explode h
  all_goals (exact tailRd0Rn5Rm16Ra10_accepts_only_valid _ _ _ _ _ _ h)

theorem simdShiftReg_accepts_only_valid (d : SimdShiftRow) (flags : Nat) (o0 o1 o2 : Reg) (ws : List (BitVec 32))
    (h : emitSimdShiftReg d flags o0 o1 o2 = .ok ws) : validReg o0 = true ∧ validReg o1 = true ∧ validReg o2 = true := by
  unfold emitSimdShiftReg at h
  explode h
  all_goals (have t := tailRd0Rn5Rm16_accepts_only_valid _ _ _ _ _ _ h; exact ⟨t.1, t.2.1, t.2.2.1⟩)

theorem simdFcvtSV_refuses_bad_id (d : SimdFcvtSVRow) (o0 o1 : Reg) (hv : o1.isVec = true) (hb : 32 ≤ o1.id) :
    ∀ ws, emitSimdFcvtSV d o0 o1 ≠ .ok ws := by
  intro ws h
  have := validReg_vec_id o1 hv (simdFcvtSV_accepts_only_valid d o0 o1 ws h).2
  omega

end AsmjitVerif.C02
