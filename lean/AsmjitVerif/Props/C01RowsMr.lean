/-
C01 property theorems, classes VexMr_Lx / VexMri / VexMri_Lx (r/m operand first), table layer: register forms and memory-DESTINATION forms
(`front_cls_correct_{mr,mri}` and `front_cls_correct_{mr,mri}_mem`; {z} is excluded with a memory destination). Generated from the
[reg, rm] class theorems by swapping the operand order; every statement is checked on its own.
-/
import AsmjitVerif.Props.C01FrontMr
import AsmjitVerif.Props.C01RowsMem
set_option linter.constructorNameAsVariable false
set_option linter.unusedSimpArgs false
set_option linter.unusedVariables false
set_option maxRecDepth 100000
namespace AsmjitVerif.Props.C01
open Spec.X86 Model.X86 AsmjitVerif.Lemmas.X86Parse AsmjitVerif.Gen.X86ClassRows

def entryOkMr (e : Entry) : Bool :=
  match e.rule.ops, e.kinds with
  | [f2, f0], [k2, k0] =>
    (e.enc == 0x62 || e.enc == 0x83 || e.enc == 0x84) && (vexRuleOk e.rule 0 && (rowAgreeOk e.rule (finalOp e 0x62) && (e.iflags &&& 0x1000000#32 == 0#32 &&
    (f0.role == .reg && (f2.role == .rm && shapeOk2 e.rule f0 f2 k0 k2)))))
  | _, _ => false

def entryOkMri (e : Entry) : Bool :=
  match e.rule.ops, e.kinds with
  | [f2, f0, f3], [k2, k0] =>
    (e.enc == 0x64 || e.enc == 0x65) && (vexRuleOk e.rule 1 && (rowAgreeOk e.rule (finalOp e 0x65) && (e.iflags &&& 0x1000000#32 == 0#32 &&
    (f0.role == .reg && (f2.role == .rm && (f3.role == .imm && (immBitsOf f3 == 8 && shapeOk2 e.rule f0 f2 k0 k2)))))))
  | _, _ => false

theorem mr_entries_ok : mrChunks.all (fun c => c.all entryOkMr) = true := by decide +kernel
theorem mri_entries_ok : mriChunks.all (fun c => c.all entryOkMri) = true := by decide +kernel

/-- the final opcode word with a MEMORY destination: L from the memory operand's size or-ed with the register's -/
def finalOpMrM (e : Entry) (lxEnc : Nat) (size : Nat) : BitVec 32 :=
  if e.enc == 0x83 then (e.mainOp &&& kLL_Mask) ||| e.altOp
  else if e.enc == 0x84 then ((e.mainOp ||| opcodeLBySize (size ||| (Op.reg (rtypeOf (e.kinds.getD 1 .none)) 0).rmSize)) &&& kLL_Mask) ||| e.altOp
  else if e.enc == lxEnc then e.mainOp ||| opcodeLBySize (size ||| (Op.reg (rtypeOf (e.kinds.getD 1 .none)) 0).rmSize) else e.mainOp

def entryOkMrMem (e : Entry) : Bool :=
  match e.rule.ops, e.kinds with
  | [f2, f0], [_, k0] =>
    allMemAlts f2 (fun size =>
      (e.enc == 0x62 || e.enc == 0x83 || e.enc == 0x84) && (memCoreOk e (finalOpMrM e 0x62 size) 0 &&
      (f0.role == .reg && (f2.role == .rm && (plainKind k0 && (noFix f0 && formOpMatches e.rule.oszEff f0 (.reg k0 0)))))))
  | _, _ => false

def entryOkMriMem (e : Entry) : Bool :=
  match e.rule.ops, e.kinds with
  | [f2, f0, f3], [_, k0] =>
    allMemAlts f2 (fun size =>
      (e.enc == 0x64 || e.enc == 0x65) && (memCoreOk e (finalOpMrM e 0x65 size) 1 &&
      (f0.role == .reg && (f2.role == .rm && (f3.role == .imm && (immBitsOf f3 == 8 && (plainKind k0 && (noFix f0 && formOpMatches e.rule.oszEff f0 (.reg k0 0)))))))))
  | _, _ => false

theorem mr_mem_entries_ok : mrChunks.all (fun c => c.all entryOkMrMem) = true := by decide +kernel
theorem mri_mem_entries_ok : mriChunks.all (fun c => c.all entryOkMriMem) = true := by decide +kernel

/-- **front_cls_correct, class VexMr_Lx** (operands r/m, reg) (EVEX forms with numbers 0..31 when EVEX is needed, VEX forms with numbers 0..15). -/
theorem front_cls_correct_mr (e : Entry) (ch : List Entry) (hch : ch ∈ mrChunks) (he : e ∈ ch)
    (c : Model.X86.Ctx) (ctx : Spec.X86.Ctx) (reg rm : BitVec 32)
    (hpe : c.preferEvex = false) (hk : c.extraId = 0#32) (hm64 : ctx.mode64 = true)
    (hids : (e.rule.space = 2 ∧ reg < 32#32 ∧ rm < 32#32 ∧ xR (finalOp e 0x62) 0#32 reg 0#32 rm 0#32 &&& 0x00D78150#32 ≠ 0#32) ∨
            (e.rule.space = 1 ∧ reg < 16#32 ∧ rm < 16#32)) :
    ∃ bytes k2 k0, e.kinds = [k2, k0] ∧
      emitVexEvexR c (finalOp e 0x62) 0#32 (r32 reg.toNat) (r32 rm.toNat) 0 0 = .ok bytes ∧
      formOk ctx e.rule [.reg k2 rm.toNat, .reg k0 reg.toNat] {} bytes = true := by
  have hok := mem_chunks_ok mr_entries_ok e ch hch he
  unfold entryOkMr at hok
  split at hok
  · rename_i f2 f0 k2 k0 hops hkinds
    simp only [Bool.and_eq_true, Bool.or_eq_true, beq_iff_eq] at hok
    obtain ⟨-, hR, hA, -, r0, r2, hS⟩ := hok
    obtain ⟨R, -⟩ := vexRuleOk_spec _ _ hR
    obtain ⟨A, hxop, hvx⟩ := rowAgreeOk_spec _ _ hA
    obtain ⟨p0, p2, m0, m2⟩ := shapeOk2_spec _ _ _ _ _ hS
    have hal : ∀ i0 i2, alignOps e.rule.oszEff e.rule.ops [.reg k2 i2, .reg k0 i0] = some [(f2, some (.reg k2 i2)), (f0, some (.reg k0 i0))] := by
      intro i0 i2; rw [hops]; exact alignOps2 _ _ _ _ _ (m2 i2) (m0 i0)
    have e0 : reg + ((0#32 : BitVec 32) <<< 7) = reg := by bv_decide
    rcases hids with ⟨hsp, hr, hm, hev⟩ | ⟨hsp, hr, hm⟩
    · rw [hsp] at A
      obtain ⟨bytes, hb, hf⟩ := vexR_mr_formOk_evex c ctx e.rule (finalOp e 0x62) reg rm k0 k2 f0 f2 hpe hk hm64 (by simpa using R.hmodes) hr hm hxop hev p0 p2 R hsp A r0 r2 (hal _ _)
      refine ⟨bytes, k2, k0, hkinds, ?_, hf⟩
      rw [e0] at hb
      simpa [r32] using hb
    · obtain ⟨hll, hmm⟩ := hvx hsp
      have A' : RowAgree e.rule (finalOp e 0x62) false := by rw [hsp] at A; exact A
      obtain ⟨bytes, hb, hf⟩ := vexR_mr_formOk_vex c ctx e.rule (finalOp e 0x62) reg rm k0 k2 f0 f2 hpe hk hm64 (by simpa using R.hmodes) hr hm hxop hll hmm p0 p2 R hsp A' r0 r2 (hal _ _)
      refine ⟨bytes, k2, k0, hkinds, ?_, hf⟩
      rw [e0] at hb
      simpa [r32] using hb
  · simp at hok

/-- **front_cls_correct, classes VexMri and VexMri_Lx** (operands r/m, reg, imm8). -/
theorem front_cls_correct_mri (e : Entry) (ch : List Entry) (hch : ch ∈ mriChunks) (he : e ∈ ch)
    (c : Model.X86.Ctx) (ctx : Spec.X86.Ctx) (reg rm : BitVec 32) (imm : BitVec 64)
    (hpe : c.preferEvex = false) (hk : c.extraId = 0#32) (hm64 : ctx.mode64 = true)
    (himm : ∀ f3, e.rule.ops[2]? = some f3 → formOpMatches e.rule.oszEff f3 (.imm imm) = true)
    (hids : (e.rule.space = 2 ∧ reg < 32#32 ∧ rm < 32#32 ∧ xR (finalOp e 0x65) 0#32 reg 0#32 rm 0#32 &&& 0x00D78150#32 ≠ 0#32) ∨
            (e.rule.space = 1 ∧ reg < 16#32 ∧ rm < 16#32)) :
    ∃ bytes k2 k0, e.kinds = [k2, k0] ∧
      emitVexEvexR c (finalOp e 0x65) 0#32 (r32 reg.toNat) (r32 rm.toNat) imm 1 = .ok bytes ∧
      formOk ctx e.rule [.reg k2 rm.toNat, .reg k0 reg.toNat, .imm imm] {} bytes = true := by
  have hok := mem_chunks_ok mri_entries_ok e ch hch he
  unfold entryOkMri at hok
  split at hok
  · rename_i f2 f0 f3 k2 k0 hops hkinds
    simp only [Bool.and_eq_true, Bool.or_eq_true, beq_iff_eq] at hok
    obtain ⟨-, hR, hA, -, r0, r2, r3, hib, hS⟩ := hok
    obtain ⟨R, -⟩ := vexRuleOk_spec _ _ hR
    obtain ⟨A, hxop, hvx⟩ := rowAgreeOk_spec _ _ hA
    obtain ⟨p0, p2, m0, m2⟩ := shapeOk2_spec _ _ _ _ _ hS
    have m3 : formOpMatches e.rule.oszEff f3 (.imm imm) = true := himm f3 (by rw [hops]; rfl)
    have hal : ∀ i0 i2, alignOps e.rule.oszEff e.rule.ops [.reg k2 i2, .reg k0 i0, .imm imm] =
        some [(f2, some (.reg k2 i2)), (f0, some (.reg k0 i0)), (f3, some (.imm imm))] := by
      intro i0 i2; rw [hops]; exact alignOps3i _ _ _ _ _ _ _ (m2 i2) (m0 i0) m3
    have e0 : reg + ((0#32 : BitVec 32) <<< 7) = reg := by bv_decide
    rcases hids with ⟨hsp, hr, hm, hev⟩ | ⟨hsp, hr, hm⟩
    · rw [hsp] at A
      obtain ⟨bytes, hb, hf⟩ := vexR_mri_formOk_evex c ctx e.rule (finalOp e 0x65) reg rm k0 k2 f0 f2 hpe hk hm64 (by simpa using R.hmodes) hr hm hxop hev p0 p2 R f3 imm r3 hib hsp A r0 r2 (hal _ _)
      refine ⟨bytes, k2, k0, hkinds, ?_, hf⟩
      rw [e0] at hb
      simpa [r32] using hb
    · obtain ⟨hll, hmm⟩ := hvx hsp
      have A' : RowAgree e.rule (finalOp e 0x65) false := by rw [hsp] at A; exact A
      obtain ⟨bytes, hb, hf⟩ := vexR_mri_formOk_vex c ctx e.rule (finalOp e 0x65) reg rm k0 k2 f0 f2 hpe hk hm64 (by simpa using R.hmodes) hr hm hxop hll hmm p0 p2 R f3 imm r3 hib hsp A' r0 r2 (hal _ _)
      refine ⟨bytes, k2, k0, hkinds, ?_, hf⟩
      rw [e0] at hb
      simpa [r32] using hb
  · simp at hok

/-- **front_cls_correct with a memory DESTINATION, class VexMr_Lx**: `MEM, reg` -/
theorem front_cls_correct_mr_mem (e : Entry) (ch : List Entry) (hch : ch ∈ mrChunks) (he : e ∈ ch)
    (c : Model.X86.Ctx) (ctx : Spec.X86.Ctx) (reg xb aaa : BitVec 32) (z : Bool) (size : Nat) (m : Mem) (mo : MemOp) (pfx : List (BitVec 8))
    (mb : BitVec 32 → BitVec 32 → BitVec 8) (sib : BitVec 32 → BitVec 32 → Option (BitVec 8)) (ds : BitVec 32 → BitVec 32 → List (BitVec 8))
    (AF : AddrForm c ctx m mo pfx xb aaa mb sib ds) (hsize : mo.size = size)
    (D : DecorAllowed e.rule aaa.toNat z false false) (hz : z = false)
    (hvf : c.vexFlag = (e.iflags &&& 0x400000#32 != 0#32)) (hm64 : ctx.mode64 = true)
    (hsz : ∀ f2, e.rule.ops[0]? = some f2 → hasMemAlt f2 size = true)
    (hids : (e.rule.space = 2 ∧ reg < 32#32 ∧
              (e.iflags &&& 0x400000#32 = 0#32 ∨ (xR (finalOpMrM e 0x62 size) 0#32 reg 0#32 xb aaa ||| zOpt z) &&& 0x00D78110#32 ≠ 0#32)) ∨
            (e.rule.space = 1 ∧ reg < 16#32 ∧ aaa = 0#32 ∧ z = false)) :
    ∃ bytes k2 k0, e.kinds = [k2, k0] ∧
      emitVexEvexM c (finalOpMrM e 0x62 size) (zOpt z) (r32 reg.toNat) m 0 0 = .ok bytes ∧
      formOk ctx e.rule [.mem mo, .reg k0 reg.toNat] (decorOf aaa.toNat z false false 0) bytes = true := by
  have hok := mem_chunks_ok mr_mem_entries_ok e ch hch he
  unfold entryOkMrMem at hok
  split at hok
  · rename_i f2 f0 k2 k0 hops hkinds
    have hm2 : hasMemAlt f2 size = true := hsz f2 (by rw [hops]; rfl)
    have hok := allMemAlts_spec f2 _ size hok hm2
    simp only [Bool.and_eq_true, Bool.or_eq_true, beq_iff_eq] at hok
    obtain ⟨-, hC, r0, r2, p0, n0, m0⟩ := hok
    obtain ⟨R, hmode, -, A, hxop, hvex, hevex⟩ := memCoreOk_spec _ _ _ hC
    have hal : alignOps e.rule.oszEff e.rule.ops [.mem mo, .reg k0 reg.toNat] =
        some [(f2, some (.mem mo)), (f0, some (.reg k0 reg.toNat))] := by
      rw [hops]
      exact alignOps2 _ _ _ _ _ (hasMemAlt_matches _ _ _ _ hm2 hsize AF.hvsib) (by rw [formOpMatches_reg_nofix _ _ _ _ n0]; exact m0)
    have e0 : reg + ((0#32 : BitVec 32) <<< 7) = reg := by bv_decide
    rcases hids with ⟨hsp, hr, hev⟩ | ⟨hsp, hr, ha0, hz0⟩
    · rw [hsp] at A
      obtain ⟨hs6, hN⟩ := hevex hsp
      have hev' : c.vexFlag = false ∨ (xR (finalOpMrM e 0x62 size) 0#32 reg 0#32 xb aaa ||| zOpt z) &&& 0x00D78110#32 ≠ 0#32 := by
        rcases hev with h | h
        · exact Or.inl (vexFlag_false_of c _ hvf h)
        · exact Or.inr h
      obtain ⟨bytes, hb', hf⟩ := vexM_mr_formOk_evex c ctx e.rule (finalOpMrM e 0x62 size) reg xb aaa z m mo pfx mb sib ds AF k0 f0 f2 hz hm64 hmode
        hr hxop hev' (plainKind_spec _ p0) R D hsp A hs6 hN r0 r2 hal
      refine ⟨bytes, k2, k0, hkinds, ?_, hf⟩
      rw [e0] at hb'
      simpa [r32, zOpt] using hb'
    · obtain ⟨hll, hmm, hvb⟩ := hvex hsp
      subst ha0; subst hz0
      have A' : RowAgree e.rule (finalOpMrM e 0x62 size) false := by rw [hsp] at A; exact A
      obtain ⟨bytes, hb', hf⟩ := vexM_mr_formOk_vex c ctx e.rule (finalOpMrM e 0x62 size) reg xb m mo pfx mb sib ds AF k0 f0 f2
        (vexFlag_true_of c _ hvf hvb) hm64 hmode
        hr hxop hll hmm (plainKind_spec _ p0) R hsp A' r0 r2 hal
      refine ⟨bytes, k2, k0, hkinds, ?_, hf⟩
      rw [e0] at hb'
      simpa [r32, zOpt] using hb'
  · simp at hok

/-- **front_cls_correct with a memory DESTINATION, classes VexMri / VexMri_Lx**: `MEM, reg, imm8` -/
theorem front_cls_correct_mri_mem (e : Entry) (ch : List Entry) (hch : ch ∈ mriChunks) (he : e ∈ ch)
    (c : Model.X86.Ctx) (ctx : Spec.X86.Ctx) (reg xb aaa : BitVec 32) (z : Bool) (size : Nat) (m : Mem) (mo : MemOp) (pfx : List (BitVec 8)) (imm : BitVec 64)
    (mb : BitVec 32 → BitVec 32 → BitVec 8) (sib : BitVec 32 → BitVec 32 → Option (BitVec 8)) (ds : BitVec 32 → BitVec 32 → List (BitVec 8))
    (AF : AddrForm c ctx m mo pfx xb aaa mb sib ds) (hsize : mo.size = size)
    (D : DecorAllowed e.rule aaa.toNat z false false) (hz : z = false)
    (hvf : c.vexFlag = (e.iflags &&& 0x400000#32 != 0#32)) (hm64 : ctx.mode64 = true)
    (hsz : ∀ f2, e.rule.ops[0]? = some f2 → hasMemAlt f2 size = true)
    (himm : ∀ f3, e.rule.ops[2]? = some f3 → formOpMatches e.rule.oszEff f3 (.imm imm) = true)
    (hids : (e.rule.space = 2 ∧ reg < 32#32 ∧
              (e.iflags &&& 0x400000#32 = 0#32 ∨ (xR (finalOpMrM e 0x65 size) 0#32 reg 0#32 xb aaa ||| zOpt z) &&& 0x00D78110#32 ≠ 0#32)) ∨
            (e.rule.space = 1 ∧ reg < 16#32 ∧ aaa = 0#32 ∧ z = false)) :
    ∃ bytes k2 k0, e.kinds = [k2, k0] ∧
      emitVexEvexM c (finalOpMrM e 0x65 size) (zOpt z) (r32 reg.toNat) m imm 1 = .ok bytes ∧
      formOk ctx e.rule [.mem mo, .reg k0 reg.toNat, .imm imm] (decorOf aaa.toNat z false false 0) bytes = true := by
  have hok := mem_chunks_ok mri_mem_entries_ok e ch hch he
  unfold entryOkMriMem at hok
  split at hok
  · rename_i f2 f0 f3 k2 k0 hops hkinds
    have hm2 : hasMemAlt f2 size = true := hsz f2 (by rw [hops]; rfl)
    have m3 : formOpMatches e.rule.oszEff f3 (.imm imm) = true := himm f3 (by rw [hops]; rfl)
    have hok := allMemAlts_spec f2 _ size hok hm2
    simp only [Bool.and_eq_true, Bool.or_eq_true, beq_iff_eq] at hok
    obtain ⟨-, hC, r0, r2, r3, hib, p0, n0, m0⟩ := hok
    obtain ⟨R, hmode, -, A, hxop, hvex, hevex⟩ := memCoreOk_spec _ _ _ hC
    have hal : alignOps e.rule.oszEff e.rule.ops [.mem mo, .reg k0 reg.toNat, .imm imm] =
        some [(f2, some (.mem mo)), (f0, some (.reg k0 reg.toNat)), (f3, some (.imm imm))] := by
      rw [hops]
      exact alignOps3i _ _ _ _ _ _ _ (hasMemAlt_matches _ _ _ _ hm2 hsize AF.hvsib) (by rw [formOpMatches_reg_nofix _ _ _ _ n0]; exact m0) m3
    have e0 : reg + ((0#32 : BitVec 32) <<< 7) = reg := by bv_decide
    rcases hids with ⟨hsp, hr, hev⟩ | ⟨hsp, hr, ha0, hz0⟩
    · rw [hsp] at A
      obtain ⟨hs6, hN⟩ := hevex hsp
      have hev' : c.vexFlag = false ∨ (xR (finalOpMrM e 0x65 size) 0#32 reg 0#32 xb aaa ||| zOpt z) &&& 0x00D78110#32 ≠ 0#32 := by
        rcases hev with h | h
        · exact Or.inl (vexFlag_false_of c _ hvf h)
        · exact Or.inr h
      obtain ⟨bytes, hb', hf⟩ := vexM_mri_formOk_evex c ctx e.rule (finalOpMrM e 0x65 size) reg xb aaa z m mo pfx mb sib ds AF k0 f0 f2 hz hm64 hmode
        hr hxop hev' (plainKind_spec _ p0) R D f3 imm r3 hib hsp A hs6 hN r0 r2 hal
      refine ⟨bytes, k2, k0, hkinds, ?_, hf⟩
      rw [e0] at hb'
      simpa [r32, zOpt] using hb'
    · obtain ⟨hll, hmm, hvb⟩ := hvex hsp
      subst ha0; subst hz0
      have A' : RowAgree e.rule (finalOpMrM e 0x65 size) false := by rw [hsp] at A; exact A
      obtain ⟨bytes, hb', hf⟩ := vexM_mri_formOk_vex c ctx e.rule (finalOpMrM e 0x65 size) reg xb m mo pfx mb sib ds AF k0 f0 f2
        (vexFlag_true_of c _ hvf hvb) hm64 hmode
        hr hxop hll hmm (plainKind_spec _ p0) R f3 imm r3 hib hsp A' r0 r2 hal
      refine ⟨bytes, k2, k0, hkinds, ?_, hf⟩
      rw [e0] at hb'
      simpa [r32, zOpt] using hb'
  · simp at hok

end AsmjitVerif.Props.C01
