/-
C02, PC-relative operands (OpSpec `.rel fld 4 false`): what `EmitOp_Rel` / `EmitOp_DispImm` place into imm26 / imm19 / imm14
sign-extends, times 4, to `target - pc` - for every position and every target - and end-to-end theorems for b / bl (imm26) and
cbz / cbnz (imm19).
-/
import AsmjitVerif.Props.C02Pair
namespace AsmjitVerif.C02
open AsmjitVerif.A64 AsmjitVerif.A64Asm AsmjitVerif.A64Spec AsmjitVerif.Gen.A64Tables

/-! ### the Int side of the spec: `BitVec.ofInt 64 (pc + sext n f * 4)` -/

theorem sext_eq_toInt (n f : Nat) (hn : 0 < n) (hf : f < 2 ^ n) : sext n f = (BitVec.ofNat n f).toInt := by
  unfold sext
  have h0 : (n == 0) = false := by simp; omega
  simp only [h0, Bool.false_eq_true, if_false]
  rw [BitVec.toInt_eq_toNat_cond, BitVec.toNat_ofNat, Nat.mod_eq_of_lt hf]
  have hp : 2 ^ n = 2 * 2 ^ (n - 1) := by
    have : n = (n - 1) + 1 := by omega
    rw [this, Nat.pow_succ]; simp; omega
  split <;> split <;> omega

theorem ofInt_rel (pc : BitVec 64) (n f : Nat) (hn : 0 < n) (hf : f < 2 ^ n) :
    BitVec.ofInt 64 ((pc.toNat : Int) + sext n f * ((4 : Nat) : Int)) = pc + (BitVec.ofNat n f).signExtend 64 * 4#64 := by
  rw [sext_eq_toInt n f hn hf, BitVec.ofInt_add, BitVec.ofInt_mul]
  have h1 : BitVec.ofInt 64 (pc.toNat : Int) = pc := by
    rw [BitVec.ofInt_natCast]; simp
  have h2 : BitVec.ofInt 64 (BitVec.ofNat n f).toInt = (BitVec.ofNat n f).signExtend 64 := rfl
  have h3 : BitVec.ofInt 64 ((4 : Nat) : Int) = 4#64 := by rw [BitVec.ofInt_natCast]
  rw [h1, h2, h3]

/-! ### imm26 -/

theorem rel_core26 (ov : BitVec 64) (h1 : ov &&& 3#64 = 0#64)
    (h2 : ((ov.sshiftRight 2 <<< 38).sshiftRight 38) = ov.sshiftRight 2) :
    ((((ov.sshiftRight 2).setWidth 32 &&& 67108863#32 : BitVec 32).setWidth 26 : BitVec 26).signExtend 64) * 4#64 = ov ∧
    ((ov.sshiftRight 2).setWidth 32 &&& 67108863#32 : BitVec 32).ult 67108864#32 = true := by
  bv_decide

/-- the pc-relative target of an accepted imm26 instruction: the field sign-extends, times 4, to `target - pc` -/
theorem emitRel26_denotes (opcode : BitVec 32) (pos : Nat) (target : Operand) (t : BitVec 64)
    (ht : (∃ p, target = .imm t p) ∨ (target = .label ∧ t = baseAddress)) (ws : List (BitVec 32))
    (h : emitRel fmtBranch26 opcode pos target = .ok ws) :
    ∃ f, f < 2 ^ 26 ∧ ws = [opcode ||| (BitVec.ofNat 32 f <<< 0)] ∧
      BitVec.ofInt 64 (((baseAddress + BitVec.ofNat 64 pos).toNat : Int) + sext 26 f * ((4 : Nat) : Int)) = t := by
  have hov : relOffset fmtBranch26 pos target = .ok (t - (baseAddress + BitVec.ofNat 64 pos)) := by
    rcases ht with ⟨p, rfl⟩ | ⟨rfl, rfl⟩
    · simp [relOffset, fmtBranch26]
    · simp only [relOffset]
      have e : (0#64 - BitVec.ofNat 64 pos) = baseAddress - (baseAddress + BitVec.ofNat 64 pos) := by
        generalize BitVec.ofNat 64 pos = pp
        generalize baseAddress = bb
        bv_decide
      rw [e]
  unfold emitRel at h
  rw [hov] at h
  simp only [] at h
  generalize hovd : t - (baseAddress + BitVec.ofNat 64 pos) = ov at h
  unfold emitDispImm fmtBranch26 at h
  simp only [show (2 : Nat) ^ 2 - 1 = 3 from rfl, show (64 : Nat) - 26 = 38 from rfl, show (2 : Nat) ^ 26 - 1 = 67108863 from rfl] at h
  by_cases c1 : ov &&& 3#64 = 0#64
  · by_cases c2 : ((ov.sshiftRight 2 <<< 38).sshiftRight 38) = ov.sshiftRight 2
    · simp [c1, c2, ok1] at h
      obtain ⟨k1, k2⟩ := rel_core26 ov c1 c2
      generalize hd : ((ov.sshiftRight 2).setWidth 32 &&& 67108863#32 : BitVec 32) = d32 at *
      have hlt : d32.toNat < 2 ^ 26 := by simpa [BitVec.ult] using k2
      refine ⟨d32.toNat, hlt, ?_, ?_⟩
      · rw [← h]; simp
      · rw [ofInt_rel _ 26 d32.toNat (by decide) hlt]
        have : BitVec.ofNat 26 d32.toNat = d32.setWidth 26 := by
          apply BitVec.eq_of_toNat_eq; simp
        rw [this, k1, ← hovd]
        generalize BitVec.ofNat 64 pos = pp
        generalize baseAddress = bb
        bv_decide
    · simp [c1, c2, invalidDisplacement] at h
  · simp [c1, invalidDisplacement] at h

/-! ### imm19 -/

theorem rel_core19 (ov : BitVec 64) (h1 : ov &&& 3#64 = 0#64)
    (h2 : ((ov.sshiftRight 2 <<< 45).sshiftRight 45) = ov.sshiftRight 2) :
    ((((ov.sshiftRight 2).setWidth 32 &&& 524287#32 : BitVec 32).setWidth 19 : BitVec 19).signExtend 64) * 4#64 = ov ∧
    ((ov.sshiftRight 2).setWidth 32 &&& 524287#32 : BitVec 32).ult 524288#32 = true := by
  bv_decide

/-- the pc-relative target of an accepted imm19 instruction: the field sign-extends, times 4, to `target - pc` -/
theorem emitRel19_denotes (opcode : BitVec 32) (pos : Nat) (target : Operand) (t : BitVec 64)
    (ht : (∃ p, target = .imm t p) ∨ (target = .label ∧ t = baseAddress)) (ws : List (BitVec 32))
    (h : emitRel fmtBranch19 opcode pos target = .ok ws) :
    ∃ f, f < 2 ^ 19 ∧ ws = [opcode ||| (BitVec.ofNat 32 f <<< 5)] ∧
      BitVec.ofInt 64 (((baseAddress + BitVec.ofNat 64 pos).toNat : Int) + sext 19 f * ((4 : Nat) : Int)) = t := by
  have hov : relOffset fmtBranch19 pos target = .ok (t - (baseAddress + BitVec.ofNat 64 pos)) := by
    rcases ht with ⟨p, rfl⟩ | ⟨rfl, rfl⟩
    · simp [relOffset, fmtBranch19]
    · simp only [relOffset]
      have e : (0#64 - BitVec.ofNat 64 pos) = baseAddress - (baseAddress + BitVec.ofNat 64 pos) := by
        generalize BitVec.ofNat 64 pos = pp
        generalize baseAddress = bb
        bv_decide
      rw [e]
  unfold emitRel at h
  rw [hov] at h
  simp only [] at h
  generalize hovd : t - (baseAddress + BitVec.ofNat 64 pos) = ov at h
  unfold emitDispImm fmtBranch19 at h
  simp only [show (2 : Nat) ^ 2 - 1 = 3 from rfl, show (64 : Nat) - 19 = 45 from rfl, show (2 : Nat) ^ 19 - 1 = 524287 from rfl] at h
  by_cases c1 : ov &&& 3#64 = 0#64
  · by_cases c2 : ((ov.sshiftRight 2 <<< 45).sshiftRight 45) = ov.sshiftRight 2
    · simp [c1, c2, ok1] at h
      obtain ⟨k1, k2⟩ := rel_core19 ov c1 c2
      generalize hd : ((ov.sshiftRight 2).setWidth 32 &&& 524287#32 : BitVec 32) = d32 at *
      have hlt : d32.toNat < 2 ^ 19 := by simpa [BitVec.ult] using k2
      refine ⟨d32.toNat, hlt, ?_, ?_⟩
      · rw [← h]; simp
      · rw [ofInt_rel _ 19 d32.toNat (by decide) hlt]
        have : BitVec.ofNat 19 d32.toNat = d32.setWidth 19 := by
          apply BitVec.eq_of_toNat_eq; simp
        rw [this, k1, ← hovd]
        generalize BitVec.ofNat 64 pos = pp
        generalize baseAddress = bb
        bv_decide
    · simp [c1, c2, invalidDisplacement] at h
  · simp [c1, invalidDisplacement] at h

/-! ### imm14 -/

theorem rel_core14 (ov : BitVec 64) (h1 : ov &&& 3#64 = 0#64)
    (h2 : ((ov.sshiftRight 2 <<< 50).sshiftRight 50) = ov.sshiftRight 2) :
    ((((ov.sshiftRight 2).setWidth 32 &&& 16383#32 : BitVec 32).setWidth 14 : BitVec 14).signExtend 64) * 4#64 = ov ∧
    ((ov.sshiftRight 2).setWidth 32 &&& 16383#32 : BitVec 32).ult 16384#32 = true := by
  bv_decide

/-- the pc-relative target of an accepted imm14 instruction: the field sign-extends, times 4, to `target - pc` -/
theorem emitRel14_denotes (opcode : BitVec 32) (pos : Nat) (target : Operand) (t : BitVec 64)
    (ht : (∃ p, target = .imm t p) ∨ (target = .label ∧ t = baseAddress)) (ws : List (BitVec 32))
    (h : emitRel fmtBranch14 opcode pos target = .ok ws) :
    ∃ f, f < 2 ^ 14 ∧ ws = [opcode ||| (BitVec.ofNat 32 f <<< 5)] ∧
      BitVec.ofInt 64 (((baseAddress + BitVec.ofNat 64 pos).toNat : Int) + sext 14 f * ((4 : Nat) : Int)) = t := by
  have hov : relOffset fmtBranch14 pos target = .ok (t - (baseAddress + BitVec.ofNat 64 pos)) := by
    rcases ht with ⟨p, rfl⟩ | ⟨rfl, rfl⟩
    · simp [relOffset, fmtBranch14]
    · simp only [relOffset]
      have e : (0#64 - BitVec.ofNat 64 pos) = baseAddress - (baseAddress + BitVec.ofNat 64 pos) := by
        generalize BitVec.ofNat 64 pos = pp
        generalize baseAddress = bb
        bv_decide
      rw [e]
  unfold emitRel at h
  rw [hov] at h
  simp only [] at h
  generalize hovd : t - (baseAddress + BitVec.ofNat 64 pos) = ov at h
  unfold emitDispImm fmtBranch14 at h
  simp only [show (2 : Nat) ^ 2 - 1 = 3 from rfl, show (64 : Nat) - 14 = 50 from rfl, show (2 : Nat) ^ 14 - 1 = 16383 from rfl] at h
  by_cases c1 : ov &&& 3#64 = 0#64
  · by_cases c2 : ((ov.sshiftRight 2 <<< 50).sshiftRight 50) = ov.sshiftRight 2
    · simp [c1, c2, ok1] at h
      obtain ⟨k1, k2⟩ := rel_core14 ov c1 c2
      generalize hd : ((ov.sshiftRight 2).setWidth 32 &&& 16383#32 : BitVec 32) = d32 at *
      have hlt : d32.toNat < 2 ^ 14 := by simpa [BitVec.ult] using k2
      refine ⟨d32.toNat, hlt, ?_, ?_⟩
      · rw [← h]; simp
      · rw [ofInt_rel _ 14 d32.toNat (by decide) hlt]
        have : BitVec.ofNat 14 d32.toNat = d32.setWidth 14 := by
          apply BitVec.eq_of_toNat_eq; simp
        rw [this, k1, ← hovd]
        generalize BitVec.ofNat 64 pos = pp
        generalize baseAddress = bb
        bv_decide
    · simp [c1, c2, invalidDisplacement] at h
  · simp [c1, invalidDisplacement] at h

/-! ### the bridge to the spec -/

theorem matchOp_rel (c : Ctx) (fld : String) (n f : Nat) (op : Operand) (t : BitVec 64) (rest : List Operand)
    (ht : (∃ p, op = .imm t p) ∨ (op = .label ∧ t = baseAddress))
    (hw : fieldWidth c.fields fld = n) (hg : c.get fld = some f)
    (hd : BitVec.ofInt 64 ((c.pc.toNat : Int) + sext n f * ((4 : Nat) : Int)) = t) :
    matchOp c (.rel fld 4 false) (op :: rest) = some rest := by
  rcases ht with ⟨p, rfl⟩ | ⟨rfl, rfl⟩ <;> simp [matchOp, hg, hw] <;> simpa using hd

/-! ### b / bl (imm26) -/

theorem rel26_fields (opc f mask value : BitVec 32)
    (hc : opc &&& 0x03FFFFFF#32 = 0#32) (hm : mask &&& 0x03FFFFFF#32 = 0#32) (hv : opc &&& mask = value) (hf : f.ult 0x4000000#32 = true) :
    (opc ||| (f <<< 0)) &&& mask = value ∧ ((opc ||| (f <<< 0)) >>> 0) &&& 0x3FFFFFF#32 = f := by
  bv_decide

def isRel26Form (f : Form) (opc : BitVec 32) : Bool :=
  f.ops == [.rel "relS" 4 false] &&
  f.fields.filter (·.name == "relS") == [⟨"relS", [⟨0, 0, 26⟩]⟩] && fieldWidth f.fields "relS" == 26 &&
  f.freeFields.isEmpty && decide (f.mask < 2 ^ 32) && decide (f.value < 2 ^ 32) &&
  (BitVec.ofNat 32 f.mask &&& 0x03FFFFFF#32 == 0#32) && (opc &&& BitVec.ofNat 32 f.mask == BitVec.ofNat 32 f.value)

def brel26RowOk (name : String) (opcode : Nat) : Bool :=
  (w32 opcode).getLsbD 30 || !(w32 opcode &&& 0x03FFFFFF#32 == 0#32) || (formsNamed name).any fun f => isRel26Form f (w32 opcode)

set_option maxRecDepth 1000000 in
theorem rows_baseBranchRel_imm26_have_forms :
    instTable.toList.all (fun r => r.enc != encBaseBranchRel ||
      (match baseBranchRel[r.idx]? with
       | some d => brel26RowOk r.name d.opcode
       | none => false)) = true := by decide +kernel

/-- **End-to-end, b / bl**: unconditional branch to an address or to the bound label, from every position -/
theorem branchRel26_end_to_end (r : InstRow) (hr : r ∈ instTable.toList) (henc : r.enc = encBaseBranchRel)
    (d : BaseBranchRelRow) (hd : baseBranchRel[r.idx]? = some d) (h30 : (w32 d.opcode).getLsbD 30 = false)
    (hclean : w32 d.opcode &&& 0x03FFFFFF#32 = 0#32) (pos : Nat) (target : Operand) (t : BitVec 64)
    (ht : (∃ p, target = .imm t p) ∨ (target = .label ∧ t = baseAddress)) (ws : List (BitVec 32))
    (h : emitBranchRel d.opcode 0 pos target = .ok ws) :
    judge (formsNamed r.name) r.name [target] (baseAddress + BitVec.ofNat 64 pos) (.ok ws) = .full := by
  have hrow := (List.all_eq_true.mp rows_baseBranchRel_imm26_have_forms) r hr
  have hcl : (w32 d.opcode &&& 0x03FFFFFF#32 == 0#32) = true := by simpa using hclean
  simp only [henc, bne_self_eq_false, Bool.false_or, hd, brel26RowOk, h30, hcl, Bool.not_true] at hrow
  have hany := hrow
  rw [List.any_eq_true] at hany
  obtain ⟨f, hfmem, hform⟩ := hany
  unfold emitBranchRel at h
  simp only [h30, bne_self_eq_false, Bool.or_self, Bool.false_eq_true, if_false] at h
  obtain ⟨fv, hfv, hws, hden⟩ := emitRel26_denotes (w32 d.opcode) pos target t ht ws h
  simp only [isRel26Form, Bool.and_eq_true, beq_iff_eq, decide_eq_true_eq] at hform
  obtain ⟨⟨⟨⟨⟨⟨⟨hops, hF⟩, hwid⟩, hfree⟩, hmlt⟩, hvlt⟩, hmk⟩, hv⟩ := hform
  have hfu : (BitVec.ofNat 32 fv).ult 0x4000000#32 = true := by simp [BitVec.ult, BitVec.toNat_ofNat]; omega
  obtain ⟨k1, k2⟩ := rel26_fields (w32 d.opcode) (BitVec.ofNat 32 fv) (BitVec.ofNat 32 f.mask) (BitVec.ofNat 32 f.value) hclean hmk hv hfu
  subst hws
  generalize hw' : (w32 d.opcode ||| (BitVec.ofNat 32 fv <<< 0)) = w at *
  have tt : w.toNat &&& f.mask = f.value := by
    rw [toNat_and_mask w f.mask hmlt, k1]; simp [BitVec.toNat_ofNat, Nat.mod_eq_of_lt hvlt]
  have f0 : (w.toNat >>> 0) % 2 ^ 26 = fv := by
    rw [toNat_fieldN w 0 26 (by decide), show (BitVec.ofNat 32 (2 ^ 26 - 1)) = 0x3FFFFFF#32 from rfl, k2]
    simp [BitVec.toNat_ofNat]; omega
  have g0 := ctx_get_one f.fields w.toNat (baseAddress + BitVec.ofNat 64 pos) f.name "relS" 0 26 hF
  rw [f0] at g0
  have m0 := matchOp_rel { fields := f.fields, w := w.toNat, pc := baseAddress + BitVec.ofNat 64 pos, name := f.name } "relS" 26 fv target t [] ht hwid g0 hden
  have hfull : f.isPartial = false := by simp [Form.isPartial, hops, OpSpec.isPartial, hfree]
  apply judge_full_of_any
  · intro rr v pp hc; simp at hc
  · rw [List.any_eq_true]
    refine ⟨f, hfmem, ?_⟩
    simp only [hfull, Bool.not_false, Bool.true_and, describes, Form.matchesTemplate, tt, hops, matchOps]
    rcases ht with ⟨p, rfl⟩ | ⟨rfl, _⟩ <;> simp [m0]

/-- `judge` special-cases only the pseudo instruction `mov` -/
theorem judge_full_of_any_name (forms : List Form) (name : String) (ops : List Operand) (pc : BitVec 64) (w : BitVec 32)
    (hname : name ≠ "mov") (hany : forms.any (fun f => !f.isPartial && describes f ops pc w) = true) :
    judge forms name ops pc (.ok [w]) = .full := by
  unfold judge
  simp only []
  split
  · rename_i hn
    exact absurd rfl hname
  · simp [hany]

/-! ### cbz / cbnz (imm19 + Rt) -/

theorem rel19gp_fields (opc x rn f mask value : BitVec 32)
    (hc : opc &&& 0x80FFFFFF#32 = 0#32) (hm : mask &&& 0x00FFFFFF#32 = 0#32) (hv : (opc ||| (x <<< 31)) &&& mask = value)
    (h0 : rn.ult 32#32 = true) (hf : f.ult 0x80000#32 = true) :
    (opc ||| (x <<< 31) ||| (rn <<< 0) ||| (f <<< 5)) &&& mask = value ∧
    ((opc ||| (x <<< 31) ||| (rn <<< 0) ||| (f <<< 5)) >>> 0) &&& 31#32 = rn ∧
    ((opc ||| (x <<< 31) ||| (rn <<< 0) ||| (f <<< 5)) >>> 5) &&& 0x7FFFF#32 = f := by
  bv_decide

def isCbzForm (f : Form) (wd : GpW) (opcx : BitVec 32) : Bool :=
  f.ops == [.gp wd "Rn" false, .rel "relS" 4 false] &&
  f.fields.filter (·.name == "Rn") == [⟨"Rn", [⟨0, 0, 5⟩]⟩] &&
  f.fields.filter (·.name == "relS") == [⟨"relS", [⟨5, 0, 19⟩]⟩] && fieldWidth f.fields "relS" == 19 &&
  f.freeFields.isEmpty && decide (f.mask < 2 ^ 32) && decide (f.value < 2 ^ 32) &&
  (BitVec.ofNat 32 f.mask &&& 0x00FFFFFF#32 == 0#32) && (opcx &&& BitVec.ofNat 32 f.mask == BitVec.ofNat 32 f.value)

def cbzRowOk (name : String) (opcode : Nat) : Bool :=
  (w32 opcode &&& 0x80FFFFFF#32 == 0#32) && name != "mov" &&
  [(rtGp32, 0), (rtGp64, 1)].all fun tx =>
    (formsNamed name).any fun f => isCbzForm f (wOfRt tx.1) (w32 opcode ||| (BitVec.ofNat 32 tx.2 <<< 31))

set_option maxRecDepth 1000000 in
theorem rows_baseBranchCmp_have_forms :
    instTable.toList.all (fun r => r.enc != encBaseBranchCmp ||
      (match baseBranchCmp[r.idx]? with
       | some d => cbzRowOk r.name d.opcode
       | none => false)) = true := by decide +kernel

/-- **End-to-end, cbz / cbnz** -/
theorem branchCmp_end_to_end (r : InstRow) (hr : r ∈ instTable.toList) (henc : r.enc = encBaseBranchCmp)
    (d : BaseBranchCmpRow) (hd : baseBranchCmp[r.idx]? = some d) (o0 : Reg) (wf0 : GpWellFormed o0)
    (pos : Nat) (target : Operand) (t : BitVec 64)
    (ht : (∃ p, target = .imm t p) ∨ (target = .label ∧ t = baseAddress)) (ws : List (BitVec 32))
    (h : emitBranchCmp d.opcode o0 pos target = .ok ws) :
    judge (formsNamed r.name) r.name [.reg o0, target] (baseAddress + BitVec.ofNat 64 pos) (.ok ws) = .full := by
  have hrow := (List.all_eq_true.mp rows_baseBranchCmp_have_forms) r hr
  simp only [henc, bne_self_eq_false, Bool.false_or, hd, cbzRowOk, Bool.and_eq_true, beq_iff_eq] at hrow
  obtain ⟨⟨hclean, _⟩, hall⟩ := hrow
  unfold emitBranchCmp at h
  by_cases hty : checkGpType o0 kWX = true
  · by_cases hid : checkGpId o0 idZR = true
    · simp only [hty, hid, Bool.not_true, Bool.false_eq_true, if_false] at h
      obtain ⟨fv, hfv, hws, hden⟩ := emitRel19_denotes _ pos target t ht ws h
      have hrt := gp_rt_of_check o0 kWX (by decide) hty
      have hcase : (o0.rt = rtGp32 ∧ xOf o0 kWX = 0) ∨ (o0.rt = rtGp64 ∧ xOf o0 kWX = 1) := by
        rcases hrt with a | a <;> simp [xOf, a, rtGp32, rtGp64, kWX]
      have hmem : (o0.rt, xOf o0 kWX) ∈ [(rtGp32, 0), (rtGp64, 1)] := by
        rcases hcase with ⟨a, b⟩ | ⟨a, b⟩ <;> simp [a, b]
      have hcombo := (List.all_eq_true.mp hall) _ hmem
      rw [List.any_eq_true] at hcombo
      obtain ⟨f, hfmem, hform⟩ := hcombo
      have g0 : gpOk (wOfRt o0.rt) false o0 := by
        have := gpOk_of_checks o0 kWX idZR (by decide) (Or.inr rfl) wf0 hty hid
        rw [show (idZR == idSP) = false by decide] at this
        exact this
      simp only [isCbzForm, Bool.and_eq_true, beq_iff_eq, decide_eq_true_eq] at hform
      obtain ⟨⟨⟨⟨⟨⟨⟨⟨hops, hRn⟩, hF⟩, hwid⟩, hfree⟩, hmlt⟩, hvlt⟩, hmk⟩, hv⟩ := hform
      have hfu : (BitVec.ofNat 32 fv).ult 0x80000#32 = true := by simp [BitVec.ult, BitVec.toNat_ofNat]; omega
      obtain ⟨k1, k2, k3⟩ := rel19gp_fields (w32 d.opcode) (BitVec.ofNat 32 (xOf o0 kWX)) (BitVec.ofNat 32 (o0.id % 32)) (BitVec.ofNat 32 fv)
        (BitVec.ofNat 32 f.mask) (BitVec.ofNat 32 f.value) hclean hmk hv (ofNat_mod32_ult _) hfu
      have hwsw : ws = [w32 d.opcode ||| (BitVec.ofNat 32 (xOf o0 kWX) <<< 31) ||| (BitVec.ofNat 32 (o0.id % 32) <<< 0) ||| (BitVec.ofNat 32 fv <<< 5)] := by
        rw [hws]; simp [addImm, addReg]
      subst hwsw
      generalize hw' : (w32 d.opcode ||| (BitVec.ofNat 32 (xOf o0 kWX) <<< 31) ||| (BitVec.ofNat 32 (o0.id % 32) <<< 0) ||| (BitVec.ofNat 32 fv <<< 5)) = w at *
      have tt : w.toNat &&& f.mask = f.value := by
        rw [toNat_and_mask w f.mask hmlt, k1]; simp [BitVec.toNat_ofNat, Nat.mod_eq_of_lt hvlt]
      have f0 : (w.toNat >>> 0) % 2 ^ 5 = o0.id % 32 := by rw [toNat_field, k2, ofNat_mod32_toNat]
      have f5 : (w.toNat >>> 5) % 2 ^ 19 = fv := by
        rw [toNat_fieldN w 5 19 (by decide), show (BitVec.ofNat 32 (2 ^ 19 - 1)) = 0x7FFFF#32 from rfl, k3]
        simp [BitVec.toNat_ofNat]; omega
      have gr := ctx_get_single f.fields w.toNat (baseAddress + BitVec.ofNat 64 pos) f.name "Rn" 0 hRn
      have gf := ctx_get_one f.fields w.toNat (baseAddress + BitVec.ofNat 64 pos) f.name "relS" 5 19 hF
      rw [f0] at gr; rw [f5] at gf
      have m0 := matchOp_gp _ (wOfRt o0.rt) "Rn" false o0 [target] gr g0
      have m1 := matchOp_rel { fields := f.fields, w := w.toNat, pc := baseAddress + BitVec.ofNat 64 pos, name := f.name } "relS" 19 fv target t [] ht hwid gf hden
      have hfull : f.isPartial = false := by simp [Form.isPartial, hops, OpSpec.isPartial, hfree]
      apply judge_full_of_any_name
      · simpa using ‹(r.name != "mov") = true›
      · rw [List.any_eq_true]
        refine ⟨f, hfmem, ?_⟩
        simp only [hfull, Bool.not_false, Bool.true_and, describes, Form.matchesTemplate, tt, hops, matchOps, m0]
        rcases ht with ⟨p, rfl⟩ | ⟨rfl, _⟩ <;> simp [m1]
    · simp [hty, hid, invalidPhysId] at h
  · simp [hty, invalidInstruction] at h

end AsmjitVerif.C02
