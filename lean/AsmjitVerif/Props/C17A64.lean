/-
C17, part 2 — AArch64 immediates: every immediate the assembler accepts decodes back (Arm ARM pseudo-code in
Spec/A64Imm.lean) to the value requested, and a value is refused exactly when the architecture has no encoding.
All statements are for every 64-bit (resp. 32-bit) value.
-/
import AsmjitVerif.Lemmas.A64Logical
import Std.Tactic.BVDecide
namespace AsmjitVerif.A64Imm

/-! ### logical (bitmask) immediates -/

syntax "by_halves" ident : tactic
macro_rules
  | `(tactic| by_halves $h) => `(tactic|
      simp only [$h:ident, Bool.not_true, Bool.not_false, if_true, if_false, Bool.false_eq_true] at *)

/-- 64-bit: an accepted value decodes back to itself through `DecodeBitMasks`, and N/immr/imms fit their fields. -/
theorem logical_sound64 (v : BitVec 64) (e : LogicalImm) (h : encodeLogicalImm v 64 = some e) : Sound64 v e := by
  unfold encodeLogicalImm elemWidth at h
  simp only [if_true] at h
  by_cases h32 : halvesEq v 32 <;> simp only [h32, Bool.not_true, Bool.not_false, if_true, if_false, Bool.false_eq_true] at h
  · by_cases h16 : halvesEq v 16 <;> simp only [h16, Bool.not_true, Bool.not_false, if_true, if_false, Bool.false_eq_true] at h
    · by_cases h8 : halvesEq v 8 <;> simp only [h8, Bool.not_true, Bool.not_false, if_true, if_false, Bool.false_eq_true] at h
      · by_cases h4 : halvesEq v 4 <;> simp only [h4, Bool.not_true, Bool.not_false, if_true, if_false, Bool.false_eq_true] at h
        · by_cases h2 : halvesEq v 2 <;> simp only [h2, Bool.not_true, Bool.not_false, if_true, if_false, Bool.false_eq_true] at h
          · exact elem_sound64_2 v e ⟨h32, h16, h8, h4, h2⟩ h
          · exact elem_sound64_4 v e ⟨h32, h16, h8, h4⟩ h
        · exact elem_sound64_8 v e ⟨h32, h16, h8⟩ h
      · exact elem_sound64_16 v e ⟨h32, h16⟩ h
    · exact elem_sound64_32 v e h32 h
  · exact elem_sound64_64 v e h

/-- 64-bit: a value is refused only if **no** (N, imms, immr) produces it. -/
theorem logical_complete64 (v : BitVec 64) (n : Bool) (imms immr : BitVec 6) (hv : IsLogical64 v n imms immr) :
    encodeLogicalImm v 64 ≠ none := by
  unfold encodeLogicalImm elemWidth
  simp only [if_true]
  by_cases h32 : halvesEq v 32 <;> simp only [h32, Bool.not_true, Bool.not_false, if_true, if_false, Bool.false_eq_true]
  · by_cases h16 : halvesEq v 16 <;> simp only [h16, Bool.not_true, Bool.not_false, if_true, if_false, Bool.false_eq_true]
    · by_cases h8 : halvesEq v 8 <;> simp only [h8, Bool.not_true, Bool.not_false, if_true, if_false, Bool.false_eq_true]
      · by_cases h4 : halvesEq v 4 <;> simp only [h4, Bool.not_true, Bool.not_false, if_true, if_false, Bool.false_eq_true]
        · by_cases h2 : halvesEq v 2 <;> simp only [h2, Bool.not_true, Bool.not_false, if_true, if_false, Bool.false_eq_true]
          · exact elem_complete64_2 v n imms immr hv ⟨h32, h16, h8, h4, h2⟩
          · exact elem_complete64_4 v n imms immr hv ⟨h32, h16, h8, h4, h2⟩
        · exact elem_complete64_8 v n imms immr hv ⟨h32, h16, h8, h4⟩
      · exact elem_complete64_16 v n imms immr hv ⟨h32, h16, h8⟩
    · exact elem_complete64_32 v n imms immr hv ⟨h32, h16⟩
  · exact elem_complete64_64 v n imms immr hv h32

/-- 64-bit, combined: refused **iff** the architecture has no encoding. -/
theorem logical_refused_iff64 (v : BitVec 64) :
    encodeLogicalImm v 64 = none ↔ ¬ ∃ n imms immr, IsLogical64 v n imms immr := by
  constructor
  · intro h ⟨n, imms, immr, hv⟩
    exact logical_complete64 v n imms immr hv h
  · intro h
    cases he : encodeLogicalImm v 64 with
    | none => rfl
    | some e =>
      exfalso
      have hs := logical_sound64 v e he
      exact h ⟨e.n == 1#32, e.s.truncate 6, e.r.truncate 6, hs.1, hs.2.1.symm⟩

/-- 32-bit operation (the assembler masks the value to 32 bits first): sound … -/
theorem logical_sound32 (v : BitVec 64) (e : LogicalImm) (hv : v &&& 0xFFFFFFFF00000000#64 = 0#64)
    (h : encodeLogicalImm v 32 = some e) : Sound32 v e := by
  unfold encodeLogicalImm elemWidth at h
  simp only [show (32 : Nat) = 64 ↔ False by decide, if_false] at h
  by_cases h16 : halvesEq v 16 <;> simp only [h16, Bool.not_true, Bool.not_false, if_true, if_false, Bool.false_eq_true] at h
  · by_cases h8 : halvesEq v 8 <;> simp only [h8, Bool.not_true, Bool.not_false, if_true, if_false, Bool.false_eq_true] at h
    · by_cases h4 : halvesEq v 4 <;> simp only [h4, Bool.not_true, Bool.not_false, if_true, if_false, Bool.false_eq_true] at h
      · by_cases h2 : halvesEq v 2 <;> simp only [h2, Bool.not_true, Bool.not_false, if_true, if_false, Bool.false_eq_true] at h
        · exact elem_sound32_2 v e hv ⟨h16, h8, h4, h2⟩ h
        · exact elem_sound32_4 v e hv ⟨h16, h8, h4⟩ h
      · exact elem_sound32_8 v e hv ⟨h16, h8⟩ h
    · exact elem_sound32_16 v e hv h16 h
  · exact elem_sound32_32 v e hv h

/-- … and complete. -/
theorem logical_complete32 (v : BitVec 64) (imms immr : BitVec 6) (hv : IsLogical32 v imms immr) :
    encodeLogicalImm v 32 ≠ none := by
  unfold encodeLogicalImm elemWidth
  simp only [show (32 : Nat) = 64 ↔ False by decide, if_false]
  by_cases h16 : halvesEq v 16 <;> simp only [h16, Bool.not_true, Bool.not_false, if_true, if_false, Bool.false_eq_true]
  · by_cases h8 : halvesEq v 8 <;> simp only [h8, Bool.not_true, Bool.not_false, if_true, if_false, Bool.false_eq_true]
    · by_cases h4 : halvesEq v 4 <;> simp only [h4, Bool.not_true, Bool.not_false, if_true, if_false, Bool.false_eq_true]
      · by_cases h2 : halvesEq v 2 <;> simp only [h2, Bool.not_true, Bool.not_false, if_true, if_false, Bool.false_eq_true]
        · exact elem_complete32_2 v imms immr hv ⟨h16, h8, h4, h2⟩
        · exact elem_complete32_4 v imms immr hv ⟨h16, h8, h4, h2⟩
      · exact elem_complete32_8 v imms immr hv ⟨h16, h8, h4⟩
    · exact elem_complete32_16 v imms immr hv ⟨h16, h8⟩
  · exact elem_complete32_32 v imms immr hv h16

/-! non-vacuity -/
example : encodeLogicalImm 0x00FF00FF00FF00FF#64 64 = some ⟨0#32, 0x27#32, 0#32⟩ := by decide
example : encodeLogicalImm 0#64 64 = none ∧ encodeLogicalImm 0x5#64 64 = none := by decide
example : IsLogical64 0xF0F0F0F0F0F0F0F0#64 false 0x33#6 4#6 := by unfold IsLogical64; decide

/-! ### add/sub immediates: `imm12` optionally shifted left by 12 -/

theorem addsub_sound (v : BitVec 64) (h : isAddSubImm v = true) :
    addSubImmValue (!(v.ule 0xFFF#64)) (if v.ule 0xFFF#64 then v.truncate 12 else (v >>> 12).truncate 12) = v := by
  simp only [isAddSubImm, addSubImmValue] at *
  bv_decide (config := { timeout := 300 })

theorem addsub_complete (sh : Bool) (imm12 : BitVec 12) : isAddSubImm (addSubImmValue sh imm12) = true := by
  simp only [isAddSubImm, addSubImmValue]
  cases sh <;> simp <;> bv_decide (config := { timeout := 300 })

/-! ### 8-bit floating-point immediates (`VFPExpandImm`) -/

theorem fp32_sound (v : BitVec 64) (hv : v &&& 0xFFFFFFFF00000000#64 = 0#64) (h : isFp32Imm8 v = true) :
    vfpExpandImm 32 ((encodeFp32ToImm8 v).truncate 8) = v ∧ (encodeFp32ToImm8 v).ult 256#32 = true := by
  simp only [isFp32Imm8, isFpImm8Generic, encodeFp32ToImm8, encodeFpToImm8Generic, vfpExpandImm] at *
  simp at *
  bv_decide (config := { timeout := 300 })

theorem fp32_complete (i : BitVec 8) : isFp32Imm8 (vfpExpandImm 32 i) = true ∧ (vfpExpandImm 32 i) &&& 0xFFFFFFFF00000000#64 = 0#64 := by
  simp only [isFp32Imm8, isFpImm8Generic, vfpExpandImm]
  simp
  bv_decide (config := { timeout := 300 })

theorem fp64_sound (v : BitVec 64) (h : isFp64Imm8 v = true) :
    vfpExpandImm 64 ((encodeFp64ToImm8 v).truncate 8) = v ∧ (encodeFp64ToImm8 v).ult 256#32 = true := by
  simp only [isFp64Imm8, isFpImm8Generic, encodeFp64ToImm8, encodeFpToImm8Generic, vfpExpandImm] at *
  simp at *
  bv_decide (config := { timeout := 300 })

theorem fp64_complete (i : BitVec 8) : isFp64Imm8 (vfpExpandImm 64 i) = true := by
  simp only [isFp64Imm8, isFpImm8Generic, vfpExpandImm]
  simp
  bv_decide (config := { timeout := 300 })

theorem fp16_sound (v : BitVec 64) (hv : v &&& 0xFFFFFFFFFFFF0000#64 = 0#64) (h : isFp16Imm8 v = true) :
    vfpExpandImm 16 ((encodeFp16ToImm8 v).truncate 8) = v ∧ (encodeFp16ToImm8 v).ult 256#32 = true := by
  simp only [isFp16Imm8, isFpImm8Generic, encodeFp16ToImm8, encodeFpToImm8Generic, vfpExpandImm] at *
  simp at *
  bv_decide (config := { timeout := 300 })

theorem fp16_complete (i : BitVec 8) : isFp16Imm8 (vfpExpandImm 16 i) = true ∧ (vfpExpandImm 16 i) &&& 0xFFFFFFFFFFFF0000#64 = 0#64 := by
  simp only [isFp16Imm8, isFpImm8Generic, vfpExpandImm]
  simp
  bv_decide (config := { timeout := 300 })

/-! ### 64-bit byte-mask immediates (MOVI Dd / Vd.2D) and move-wide sequences (MOV Xd/Wd, #imm) -/

theorem movseq32 (imm rd x : BitVec 32) (r0 : BitVec 64) (hrd : rd.ult 32#32 = true) (hx : x.ult 2#32 = true) :
    execMovSeq rd r0 (encodeMovSequence32 imm rd x) = (true, imm.zeroExtend 64) := by
  unfold encodeMovSequence32
  simp only []
  split
  · simp only [execMovSeq, movWideOk, movWideVal, Prod.mk.injEq]; bv_decide (config := { timeout := 300 })
  split
  · simp only [execMovSeq, movWideOk, movWideVal, Prod.mk.injEq]; bv_decide (config := { timeout := 300 })
  split
  · simp only [execMovSeq, movWideOk, movWideVal, Prod.mk.injEq]; bv_decide (config := { timeout := 300 })
  split
  · simp only [execMovSeq, movWideOk, movWideVal, Prod.mk.injEq]; bv_decide (config := { timeout := 300 })
  · simp only [execMovSeq, movWideOk, movWideVal, Prod.mk.injEq]; bv_decide (config := { timeout := 300 })

theorem movseq64_x (imm : BitVec 64) (rd : BitVec 32) (r0 : BitVec 64) (hrd : rd.ult 32#32 = true) :
    execMovSeq rd r0 (encodeMovSequence64 imm rd 1#32) = (true, imm) := by
  unfold encodeMovSequence64
  split
  · rename_i hle
    rw [movseq32 _ _ _ _ hrd (by decide)]
    simp only [Prod.mk.injEq, true_and]
    bv_decide (config := { timeout := 300 })
  · rename_i hgt
    simp only []
    split
    · simp only [List.foldl, movzStep]
      by_cases h0 : (BitVec.truncate 32 (imm >>> (16 * 0) &&& 65535#64) == 0#32) = true <;>
      by_cases h1 : (BitVec.truncate 32 (imm >>> (16 * 1) &&& 65535#64) == 0#32) = true <;>
      by_cases h2 : (BitVec.truncate 32 (imm >>> (16 * 2) &&& 65535#64) == 0#32) = true <;>
      by_cases h3 : (BitVec.truncate 32 (imm >>> (16 * 3) &&& 65535#64) == 0#32) = true <;>
      simp only [h0, h1, h2, h3, if_true, if_false, Bool.false_eq_true, List.nil_append, List.cons_append, execMovSeq, movWideOk, movWideVal, Prod.mk.injEq] <;>
      bv_decide (config := { timeout := 300 })
    · simp only [List.foldl, movnStep]
      by_cases h0 : (BitVec.truncate 32 (imm >>> (16 * 0) &&& 65535#64) == 65535#32) = true <;>
      by_cases h1 : (BitVec.truncate 32 (imm >>> (16 * 1) &&& 65535#64) == 65535#32) = true <;>
      by_cases h2 : (BitVec.truncate 32 (imm >>> (16 * 2) &&& 65535#64) == 65535#32) = true <;>
      by_cases h3 : (BitVec.truncate 32 (imm >>> (16 * 3) &&& 65535#64) == 65535#32) = true <;>
      simp only [h0, h1, h2, h3, if_true, if_false, Bool.false_eq_true, List.nil_append, List.cons_append, List.isEmpty_nil, List.isEmpty_cons, execMovSeq, movWideOk, movWideVal, Prod.mk.injEq] <;>
      bv_decide (config := { timeout := 300 })

/-- a 32-bit destination: the assembler first masks the value to 32 bits (`imm_value &= 0xFFFFFFFF`) -/
theorem movseq64_w (imm : BitVec 64) (rd : BitVec 32) (r0 : BitVec 64) (hrd : rd.ult 32#32 = true)
    (himm : imm.ule 0xFFFFFFFF#64 = true) :
    execMovSeq rd r0 (encodeMovSequence64 imm rd 0#32) = (true, imm) := by
  unfold encodeMovSequence64
  simp only [himm, if_true]
  rw [movseq32 _ _ _ _ hrd (by decide)]
  simp only [Prod.mk.injEq, true_and]
  bv_decide (config := { timeout := 300 })

/-- never more than the 4 words the caller's buffer holds, never an empty sequence -/
theorem movseq64_length (imm : BitVec 64) (rd x : BitVec 32) :
    1 ≤ (encodeMovSequence64 imm rd x).length ∧ (encodeMovSequence64 imm rd x).length ≤ 4 := by
  unfold encodeMovSequence64
  split
  · unfold encodeMovSequence32
    simp only []
    (repeat' split) <;> simp
  · rename_i hgt
    simp only []
    split
    · simp only [List.foldl, movzStep]
      by_cases h0 : (BitVec.truncate 32 (imm >>> (16 * 0) &&& 65535#64) == 0#32) = true <;>
      by_cases h1 : (BitVec.truncate 32 (imm >>> (16 * 1) &&& 65535#64) == 0#32) = true <;>
      by_cases h2 : (BitVec.truncate 32 (imm >>> (16 * 2) &&& 65535#64) == 0#32) = true <;>
      by_cases h3 : (BitVec.truncate 32 (imm >>> (16 * 3) &&& 65535#64) == 0#32) = true <;>
      simp only [h0, h1, h2, h3, if_true, if_false, Bool.false_eq_true, List.nil_append, List.cons_append, List.length_cons, List.length_nil] <;>
      first | decide | (exfalso; bv_decide (config := { timeout := 300 }))
    · simp only [List.foldl, movnStep]
      by_cases h0 : (BitVec.truncate 32 (imm >>> (16 * 0) &&& 65535#64) == 65535#32) = true <;>
      by_cases h1 : (BitVec.truncate 32 (imm >>> (16 * 1) &&& 65535#64) == 65535#32) = true <;>
      by_cases h2 : (BitVec.truncate 32 (imm >>> (16 * 2) &&& 65535#64) == 65535#32) = true <;>
      by_cases h3 : (BitVec.truncate 32 (imm >>> (16 * 3) &&& 65535#64) == 65535#32) = true <;>
      simp only [h0, h1, h2, h3, if_true, if_false, Bool.false_eq_true, List.nil_append, List.cons_append, List.isEmpty_nil, List.isEmpty_cons, List.length_cons, List.length_nil] <;>
      decide

example : (encodeMovSequence64 0x1234FFFFFFFF5678#64 3#32 1#32) = [0x929530e3#32, 0xf2e24683#32] := by decide
example : isFp32Imm8 0x3f800000#64 = true ∧ encodeFp32ToImm8 0x3f800000#64 = 0x70#32 := by decide
example : isAddSubImm 0xFFF000#64 = true ∧ isAddSubImm 0x1001#64 = false := by decide

end AsmjitVerif.A64Imm
