/-
C03, persistence of directly encoded references. A field that was emitted without a fixup (label already bound in the
current section: `Props/C03D` says what is written) lies outside every logged fixup field, and every later call only
appends bytes or patches logged fields (`Lemmas/RelInv.Grow`, proved for every op by `step_grow` / `grow_resolve`).
So its bytes are the same at the end of every program that continues from there: `direct_field_persists`.
-/
import AsmjitVerif.Props.C03D
import AsmjitVerif.Props.C04E
namespace AsmjitVerif.CodeHolder
open AsmjitVerif.Offset

/-- a byte region that no logged reference overlaps -/
def Stable (s : State) (g0 : GRef) : Prop := InB s.secs g0 ∧ ∀ x ∈ s.ghost, D g0 x

theorem stable_grow {s s' : State} {g0 : GRef} (_hi : Inv s) (g : Grow s s') (hs : Stable s g0) :
    Stable s' g0 ∧ field s'.secs g0 = field s.secs g0 := by
  refine ⟨⟨?_, ?_⟩, g.keep g0 hs.1 hs.2⟩
  · obtain ⟨sec, h1, h2⟩ := hs.1
    obtain ⟨sec', h1', h2'⟩ := g.len g0.sec sec h1
    exact ⟨sec', h1', by omega⟩
  · obtain ⟨newg, hg, hnew⟩ := g.newG
    intro x hx
    rw [hg, List.mem_append] at hx
    rcases hx with hx | hx
    · exact hs.2 x hx
    · obtain ⟨hsec, hoff⟩ := hnew x hx
      by_cases he : g0.sec = x.sec
      · right; left
        obtain ⟨sec, h1, h2⟩ := hs.1
        have hco : s.curOff = sec.buf.length := by
          unfold State.curOff; rw [← hsec, ← he, h1]
        omega
      · left; exact he

theorem run_stable (s : State) (ops : List Op) (hops : ∀ op ∈ ops, op.early = true) (h : Inv s) (g0 : GRef) (hs : Stable s g0) :
    Stable (run s ops) g0 ∧ field (run s ops).secs g0 = field s.secs g0 := by
  induction ops generalizing s with
  | nil => exact ⟨hs, rfl⟩
  | cons op rest ih =>
    have ho := hops op List.mem_cons_self
    obtain ⟨h1, h2⟩ := stable_grow h (step_grow s op ho h) hs
    obtain ⟨h3, h4⟩ := ih _ (fun o h' => hops o (List.mem_cons_of_mem _ h')) (step_inv s op ho h) h1
    exact ⟨h3, by rw [← h2]; exact h4⟩

/-- through the final `flatten` + `resolve` as well -/
theorem final_stable (s : State) (ops : List Op) (hops : ∀ op ∈ ops, op.early = true) (h : Inv s) (g0 : GRef) (hs : Stable s g0) :
    field (run s (ops ++ [.flatten, .resolve])).secs g0 = field s.secs g0 := by
  have hfl : ∀ op ∈ ops ++ [Op.flatten], op.early = true := by
    intro op hop
    rcases List.mem_append.1 hop with h1 | h1
    · exact hops op h1
    · simp at h1; rw [h1]; rfl
  have e : ops ++ [Op.flatten, Op.resolve] = (ops ++ [Op.flatten]) ++ [Op.resolve] := by simp
  rw [e, run_append]
  obtain ⟨h1, h2⟩ := run_stable s (ops ++ [.flatten]) hfl h g0 hs
  have hinv := run_inv s (ops ++ [.flatten]) hfl h
  obtain ⟨_, h4⟩ := stable_grow hinv (grow_resolve _ hinv) h1
  rw [← h2]
  exact h4

theorem leBytes_len (n : Nat) : ∀ v : Nat, (leBytes v n).length = n := by
  induction n with
  | zero => intro v; rfl
  | succ n ih => intro v; simp [leBytes, ih]

theorem loadLE_leBytes (n : Nat) : ∀ (a c : Bytes) (v : Nat), loadLE (a ++ leBytes v n ++ c) a.length n = some (v % 256 ^ n) := by
  induction n with
  | zero => intro a c v; simp [loadLE, Nat.mod_one]
  | succ n ih =>
    intro a c v
    have h0 : (a ++ leBytes v (n + 1) ++ c)[a.length]? = some (BitVec.ofNat 8 v) := by
      simp [leBytes]
    have h1 : a ++ leBytes v (n + 1) ++ c = (a ++ [BitVec.ofNat 8 v]) ++ leBytes (v / 256) n ++ c := by
      simp [leBytes]
    have h2 := ih (a ++ [BitVec.ofNat 8 v]) c (v / 256)
    rw [List.length_append, List.length_singleton] at h2
    unfold loadLE
    rw [h0]
    rw [h1, h2]
    simp only [BitVec.toNat_ofNat]
    congr 1
    show v % 256 + 256 * (v / 256 % 256 ^ n) = v % 256 ^ (n + 1)
    rw [Nat.pow_succ, Nat.mul_comm (256 ^ n) 256, Nat.mod_mul]

/-- a region inside the bytes just appended to the current section is stable, and holds what was appended -/
theorem stable_fresh (s : State) (h : Inv s) (lead tail : Bytes) (v n : Nat) (g0 : GRef)
    (hsec : g0.sec = s.cur) (hoff : g0.offset = s.curOff + lead.length) (hsz : g0.fmt.valueSize = n) :
    Stable (s.emit (lead ++ leBytes v n ++ tail)) g0 ∧ field (s.emit (lead ++ leBytes v n ++ tail)).secs g0 = some (v % 256 ^ n) := by
  obtain ⟨sec0, hsec0⟩ : ∃ sec0, s.secs[s.cur]? = some sec0 := ⟨s.secs[s.cur]'h.cur, by simp [h.cur]⟩
  have hco : s.curOff = sec0.buf.length := by unfold State.curOff; rw [hsec0]
  have hget : (s.emit (lead ++ leBytes v n ++ tail)).secs[s.cur]? = some { sec0 with buf := sec0.buf ++ (lead ++ leBytes v n ++ tail) } := by
    unfold State.emit; exact modifySec_get_same _ _ _ _ hsec0
  have hlen : (leBytes v n).length = n := leBytes_len n v
  refine ⟨⟨⟨_, by rw [hsec]; exact hget, ?_⟩, ?_⟩, ?_⟩
  · simp only [List.length_append, hlen]; omega
  · intro x hx
    have hx' : x ∈ s.ghost := hx
    obtain ⟨sec, h1, h2⟩ := h.inb x hx'
    by_cases he : g0.sec = x.sec
    · right; right
      rw [← he, hsec, hsec0] at h1; cases h1
      omega
    · left; exact he
  · unfold field
    rw [hsec, hget]
    simp only [Option.bind_some]
    rw [hsz, hoff, hco]
    have e : sec0.buf ++ (lead ++ leBytes v n ++ tail) = (sec0.buf ++ lead) ++ leBytes v n ++ tail := by simp
    rw [e, ← List.length_append]
    exact loadLE_leBytes n _ _ v

/-- **direct_field_persists.** For every program `ops1 ++ [op] ++ ops2 ++ [flatten, resolve]` of the menu: if `op` emitted
`lead ++ (n little-endian bytes of v) ++ tail` and nothing else (the direct encodings of `Props/C03D`), those n bytes are
still there at the end - no later bind, resolve or emission touches them. -/
theorem direct_field_persists (arch : Arch) (base : BitVec 64) (ops1 ops2 : List Op) (op : Op)
    (h1 : ∀ o ∈ ops1, o.early = true) (h2 : ∀ o ∈ ops2, o.early = true)
    (lead tail : Bytes) (v n : Nat) (g0 : GRef)
    (hsec : g0.sec = (run (State.init arch base) ops1).cur)
    (hoff : g0.offset = (run (State.init arch base) ops1).curOff + lead.length) (hsz : g0.fmt.valueSize = n)
    (hop : (step (run (State.init arch base) ops1) op).1 = (run (State.init arch base) ops1).emit (lead ++ leBytes v n ++ tail)) :
    field (run (State.init arch base) (ops1 ++ [op] ++ ops2 ++ [.flatten, .resolve])).secs g0 = some (v % 256 ^ n) := by
  have hinv : Inv (run (State.init arch base) ops1) := run_inv _ ops1 h1 (inv_init arch base)
  obtain ⟨hst, hf⟩ := stable_fresh _ hinv lead tail v n g0 hsec hoff hsz
  have hinv1 : Inv ((run (State.init arch base) ops1).emit (lead ++ leBytes v n ++ tail)) := hinv.frame (frame_emit _ _ hinv.cur)
  have e : ops1 ++ [op] ++ ops2 ++ [Op.flatten, Op.resolve] = ops1 ++ ([op] ++ (ops2 ++ [Op.flatten, Op.resolve])) := by simp
  rw [e, run_append, run_append]
  have e1 : run (run (State.init arch base) ops1) [op] = (run (State.init arch base) ops1).emit (lead ++ leBytes v n ++ tail) := by
    simp only [run, List.foldl_cons, List.foldl_nil]; exact hop
  rw [e1, final_stable _ ops2 h2 hinv1 _ hst]
  exact hf

theorem akind_opcode_clear (k : AKind) : k.opcode &&& fieldMask32 k.kind.fmt = 0#32 := by
  cases k <;> decide

/-- **direct_a64_final.** End to end for AArch64 references encoded directly: in every program
`ops1 ++ [a64 k l a] ++ ops2 ++ [flatten, resolve]` where label `l` is already bound in the current section (at `off`) when the
instruction is assembled and the assembler answers kOk, the instruction word found at the site *at the end of the program*
decodes (Spec/Offset) to exactly `off - site + a`. -/
theorem direct_a64_final (arch : Arch) (base : BitVec 64) (ops1 ops2 : List Op) (k : AKind) (l : Nat) (a off : BitVec 64)
    (h1 : ∀ o ∈ ops1, o.early = true) (h2 : ∀ o ∈ ops2, o.early = true)
    (ha : (run (State.init arch base) ops1).arch = .a64)
    (hl : (run (State.init arch base) ops1).labels[l]? = some (.bound (run (State.init arch base) ops1).cur off))
    (hok : (step (run (State.init arch base) ops1) (.a64 k l a)).2 = .ok) :
    let s := run (State.init arch base) ops1
    Decodes (run (State.init arch base) (ops1 ++ [.a64 k l a] ++ ops2 ++ [.flatten, .resolve])).secs
      { sec := s.cur, offset := s.curOff, rel := a, fmt := k.kind.fmt, label := l } (off - BitVec.ofNat 64 s.curOff + a) := by
  intro s
  have hstep : step s (.a64 k l a) = a64RelLabel s k.opcode k.kind l a := by
    have ha' : s.arch = .a64 := ha
    simp only [step]
    rw [if_neg (by rw [ha']; simp)]
  rcases direct_a64_site s k.opcode k.kind l a off hl (akind_opcode_clear k) with he | ⟨w, hw, hdec⟩
  · rw [hstep, he] at hok; cases hok
  · have hop : (step s (.a64 k l a)).1 = s.emit ([] ++ leBytes w.toNat 4 ++ []) := by
      rw [hstep, hw]; simp
    have hsz : (k.kind.fmt).valueSize = 4 := by cases k <;> rfl
    have hf := direct_field_persists arch base ops1 ops2 (.a64 k l a) h1 h2 [] [] w.toNat 4
      { sec := s.cur, offset := s.curOff, rel := a, fmt := k.kind.fmt, label := l } rfl rfl hsz hop
    refine ⟨_, hf, ?_⟩
    have hlt : w.toNat % 256 ^ 4 = w.toNat := Nat.mod_eq_of_lt (by have := w.isLt; omega)
    rw [hlt, BitVec.ofNat_toNat, BitVec.setWidth_eq]
    exact hdec

theorem jkind_op32_short (arch : Arch) (k : JKind) : (k.shape arch).op32.length ≤ 11 := by
  cases k <;> simp [JKind.shape]

/-- **direct_jmp_final.** End to end for x86-64 branches encoded directly: in every program
`ops1 ++ [jmp k opt l] ++ ops2 ++ [flatten, resolve]` where label `l` is already bound in the current section (at `off`) when
the branch is assembled and the assembler answers kOk, the displacement field found at the site *at the end of the program*
(1 byte after the short opcode, or 4 bytes after the near opcode), read as the CPU does - end of the field + sign-extended
field - is exactly `off`. -/
theorem direct_jmp_final (arch : Arch) (base : BitVec 64) (ops1 ops2 : List Op) (k : JKind) (opt : FormOpt) (l : Nat) (off : BitVec 64)
    (h1 : ∀ o ∈ ops1, o.early = true) (h2 : ∀ o ∈ ops2, o.early = true)
    (ha : (run (State.init arch base) ops1).arch = .x64)
    (hl : (run (State.init arch base) ops1).labels[l]? = some (.bound (run (State.init arch base) ops1).cur off))
    (hok : (step (run (State.init arch base) ops1) (.jmp k opt l)).2 = .ok) :
    let s := run (State.init arch base) ops1
    ∃ n fp v, (n = 1 ∨ n = 4) ∧
      field (run (State.init arch base) (ops1 ++ [.jmp k opt l] ++ ops2 ++ [.flatten, .resolve])).secs
        { sec := s.cur, offset := fp, rel := 0#64, fmt := fmtS n, label := l } = some v ∧
      BitVec.ofNat 64 (fp + n) + RefSpec.sextN n v = off := by
  intro s
  have ha' : s.arch = .x64 := ha
  have h64 : s.arch.is32 = false := by rw [ha']; rfl
  have hstep : step s (.jmp k opt l) = x86JmpLabel s (k.shape s.arch) opt l := by
    simp only [step]
    rw [if_neg (by rw [ha']; simp)]
  generalize hsh : k.shape s.arch = sh at hstep
  have hop : sh.op32.length ≤ 11 := by rw [← hsh]; exact jkind_op32_short _ _
  obtain ⟨hbad, hgood⟩ := direct_jmp_site s sh opt l off hl h64 hop
  cases hr : isInt32 (off - BitVec.ofNat 64 (s.curOff + sh.pre.length) - BitVec.ofNat 64 (sh.op32.length + 4)) with
  | false => rw [hstep, hbad hr] at hok; cases hok
  | true =>
    obtain ⟨hx, h32, h8⟩ := hgood hr
    generalize hr32 : (off - BitVec.ofNat 64 (s.curOff + sh.pre.length) - BitVec.ofNat 64 (sh.op32.length + 4)).truncate 32 = r32 at hx h32 h8
    -- the two successful outcomes of EmitJmpCallRel
    have hcases : (∃ o8, sh.op8 = some o8 ∧
          isInt8of32 (r32 + BitVec.ofNat 32 (sh.op32.length + 4) - BitVec.ofNat 32 2) = true ∧
          emitJmpCallRel s sh opt r32 =
            (s.emit (sh.pre ++ [o8, (r32 + BitVec.ofNat 32 (sh.op32.length + 4) - BitVec.ofNat 32 2).truncate 8]), .ok)) ∨
        emitJmpCallRel s sh opt r32 = (s.emit (sh.pre ++ sh.op32 ++ leBytes r32.toNat 4), .ok) ∨
        emitJmpCallRel s sh opt r32 = (s, .invalidDisplacement) := by
      unfold emitJmpCallRel
      dsimp only
      cases sh.op8 with
      | none => dsimp only; split <;> simp
      | some o8 =>
        dsimp only
        split
        · rename_i hc; left; exact ⟨o8, rfl, hc.1, rfl⟩
        · split <;> simp
    rcases hcases with ⟨o8, _, hi8, he⟩ | he | he
    · -- short form
      have hop1 : (step s (.jmp k opt l)).1 = s.emit ((sh.pre ++ [o8]) ++
          leBytes ((r32 + BitVec.ofNat 32 (sh.op32.length + 4) - BitVec.ofNat 32 2).truncate 8).toNat 1 ++ []) := by
        have hb : ∀ b : BitVec 8, leBytes b.toNat 1 = [b] := by intro b; simp [leBytes]
        rw [hstep, hx, he, hb]; simp
      have hf := direct_field_persists arch base ops1 ops2 (.jmp k opt l) h1 h2 (sh.pre ++ [o8]) []
        ((r32 + BitVec.ofNat 32 (sh.op32.length + 4) - BitVec.ofNat 32 2).truncate 8).toNat 1
        { sec := s.cur, offset := s.curOff + (sh.pre ++ [o8]).length, rel := 0#64, fmt := fmtS 1, label := l } rfl rfl rfl hop1
      refine ⟨1, _, _, .inl rfl, hf, ?_⟩
      have hv := h8 hi8
      generalize (r32 + BitVec.ofNat 32 (sh.op32.length + 4) - BitVec.ofNat 32 2).truncate 8 = b at hv ⊢
      have hlt : b.toNat % 256 ^ 1 = b.toNat := Nat.mod_eq_of_lt (by have := b.isLt; omega)
      rw [hlt]
      have hs : RefSpec.sextN 1 b.toNat = b.signExtend 64 := by
        unfold RefSpec.sextN
        show (BitVec.ofNat 8 b.toNat).signExtend 64 = _
        rw [BitVec.ofNat_toNat, BitVec.setWidth_eq]
      rw [hs, ← hv]
      congr 1
      simp only [List.length_append, List.length_singleton]
      rw [BitVec.ofNat_add, BitVec.ofNat_add, BitVec.ofNat_add, BitVec.ofNat_add]
      ac_rfl
    · -- near form
      have hop1 : (step s (.jmp k opt l)).1 = s.emit ((sh.pre ++ sh.op32) ++ leBytes r32.toNat 4 ++ []) := by
        rw [hstep, hx, he]; simp
      have hf := direct_field_persists arch base ops1 ops2 (.jmp k opt l) h1 h2 (sh.pre ++ sh.op32) [] r32.toNat 4
        { sec := s.cur, offset := s.curOff + (sh.pre ++ sh.op32).length, rel := 0#64, fmt := fmtS 4, label := l } rfl rfl rfl hop1
      refine ⟨4, _, _, .inr rfl, hf, ?_⟩
      have hlt : r32.toNat % 256 ^ 4 = r32.toNat := Nat.mod_eq_of_lt (by have := r32.isLt; omega)
      rw [hlt]
      have hs : RefSpec.sextN 4 r32.toNat = r32.signExtend 64 := by
        unfold RefSpec.sextN
        show (BitVec.ofNat 32 r32.toNat).signExtend 64 = _
        rw [BitVec.ofNat_toNat, BitVec.setWidth_eq]
      rw [hs, ← h32]
      congr 1
      simp only [List.length_append]
      rw [BitVec.ofNat_add, BitVec.ofNat_add, BitVec.ofNat_add, BitVec.ofNat_add, BitVec.ofNat_add]
      ac_rfl
    · rw [hstep, hx, he] at hok; cases hok

/-- **direct_rip_final.** End to end for x86-64 `[rip + label + disp]` operands encoded directly: in every program
`ops1 ++ [mem k l disp] ++ ops2 ++ [flatten, resolve]` where label `l` is already bound in the current section (at `off`) when
the instruction is assembled and the assembler answers kOk, the disp32 found at the site *at the end of the program*, read as the
CPU does - end of the instruction (field + 4 + trailing immediate bytes) + sign-extended field - is exactly `off + disp`. -/
theorem direct_rip_final (arch : Arch) (base : BitVec 64) (ops1 ops2 : List Op) (k : MKind) (l : Nat) (disp : BitVec 32) (off : BitVec 64)
    (h1 : ∀ o ∈ ops1, o.early = true) (h2 : ∀ o ∈ ops2, o.early = true)
    (ha : (run (State.init arch base) ops1).arch = .x64)
    (hl : (run (State.init arch base) ops1).labels[l]? = some (.bound (run (State.init arch base) ops1).cur off))
    (hok : (step (run (State.init arch base) ops1) (.mem k l disp)).2 = .ok) :
    let s := run (State.init arch base) ops1
    let sh := k.shape s.arch
    ∃ v, field (run (State.init arch base) (ops1 ++ [.mem k l disp] ++ ops2 ++ [.flatten, .resolve])).secs
        { sec := s.cur, offset := s.curOff + sh.lead.length, rel := 0#64, fmt := fmtS 4, label := l } = some v ∧
      BitVec.ofNat 64 (s.curOff + sh.lead.length + 4 + sh.imm.length) + RefSpec.sextN 4 v = off + disp.signExtend 64 := by
  intro s sh
  have ha' : s.arch = .x64 := ha
  have h64 : s.arch.is32 = false := by rw [ha']; rfl
  have hstep : step s (.mem k l disp) = x86MemLabel s sh l disp := by
    simp only [step]
    rw [if_neg (by rw [ha']; simp)]
  obtain ⟨hbad, hgood⟩ := direct_rip_site s sh l disp off hl h64
  cases hr : isInt32 (disp.signExtend 64 - BitVec.ofNat 64 (4 + sh.imm.length) + (off - BitVec.ofNat 64 (s.curOff + sh.lead.length))) with
  | false => rw [hstep, hbad hr] at hok; cases hok
  | true =>
    obtain ⟨hx, harith⟩ := hgood hr
    generalize (disp.signExtend 64 - BitVec.ofNat 64 (4 + sh.imm.length) + (off - BitVec.ofNat 64 (s.curOff + sh.lead.length))).truncate 32 = r32 at hx harith
    have hop1 : (step s (.mem k l disp)).1 = s.emit (sh.lead ++ leBytes r32.toNat 4 ++ sh.imm) := by rw [hstep, hx]
    have hf := direct_field_persists arch base ops1 ops2 (.mem k l disp) h1 h2 sh.lead sh.imm r32.toNat 4
      { sec := s.cur, offset := s.curOff + sh.lead.length, rel := 0#64, fmt := fmtS 4, label := l } rfl rfl rfl hop1
    refine ⟨_, hf, ?_⟩
    have hlt : r32.toNat % 256 ^ 4 = r32.toNat := Nat.mod_eq_of_lt (by have := r32.isLt; omega)
    rw [hlt]
    have hs : RefSpec.sextN 4 r32.toNat = r32.signExtend 64 := by
      unfold RefSpec.sextN
      show (BitVec.ofNat 32 r32.toNat).signExtend 64 = _
      rw [BitVec.ofNat_toNat, BitVec.setWidth_eq]
    rw [hs, ← harith]
    congr 1
    rw [Nat.add_assoc, BitVec.ofNat_add]

end AsmjitVerif.CodeHolder
