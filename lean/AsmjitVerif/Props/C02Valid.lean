/-
C02: "accepts only valid operands" for further encoding classes (all operands, all table rows): an accepted
instruction has the register types the row / class allows and every register id is 0..30 or the SP/ZR id the form
allows, so that `& 31` designates exactly the register the operand names (`checked_id_designates` in Props/C02.lean).
-/
import AsmjitVerif.Props.C02
import AsmjitVerif.Model.A64AsmSimd
namespace AsmjitVerif.C02
open AsmjitVerif.A64 AsmjitVerif.A64Asm AsmjitVerif.Gen.A64Tables

theorem baseRR_accepts_only_valid (d : BaseRRRow) (o0 o1 : Reg) (ws : List (BitVec 32)) (h : emitBaseRR d o0 o1 = .ok ws) :
    checkGpType o0 d.a_type = true ∧ checkGpType o1 d.b_type = true ∧ checkGpId o0 d.a_hi_id = true ∧ checkGpId o1 d.b_hi_id = true := by
  unfold emitBaseRR at h
  repeat (split at h <;> try (simp [invalidInstruction, invalidPhysId] at h))
  simp_all

theorem baseRRRR_accepts_only_valid (d : BaseRRRRRow) (o0 o1 o2 o3 : Reg) (ws : List (BitVec 32)) (h : emitBaseRRRR d o0 o1 o2 o3 = .ok ws) :
    checkGpType o0 d.a_type = true ∧ checkGpType o1 d.b_type = true ∧ checkGpType o2 d.c_type = true ∧ checkGpType o3 d.d_type = true ∧
    checkGpId o0 d.a_hi_id = true ∧ checkGpId o1 d.b_hi_id = true ∧ checkGpId o2 d.c_hi_id = true ∧ checkGpId o3 d.d_hi_id = true := by
  unfold emitBaseRRRR at h
  repeat (split at h <;> try (simp [invalidInstruction, invalidPhysId] at h))
  simp_all

theorem csel_accepts_only_valid (opc : Nat) (o0 o1 o2 : Reg) (cond : BitVec 64) (ws : List (BitVec 32)) (h : emitCSel opc o0 o1 o2 cond = .ok ws) :
    checkGpType o0 kWX = true ∧ o0.sameSig o1 = true ∧ o1.sameSig o2 = true ∧
    checkGpId o0 idZR = true ∧ checkGpId o1 idZR = true ∧ checkGpId o2 idZR = true ∧ cond.toNat ≤ 15 := by
  unfold emitCSel at h
  repeat (split at h <;> try (simp [invalidInstruction, invalidPhysId, invalidImmediate] at h))
  simp_all

theorem cinc_accepts_only_valid (opc : Nat) (o0 o1 : Reg) (cond : BitVec 64) (ws : List (BitVec 32)) (h : emitCInc opc o0 o1 cond = .ok ws) :
    checkGpType o0 kWX = true ∧ o0.sameSig o1 = true ∧ checkGpId o0 idZR = true ∧ checkGpId o1 idZR = true ∧ (cond - 2#64).toNat < 14 := by
  unfold emitCInc at h
  repeat (split at h <;> try (simp [invalidInstruction, invalidPhysId, invalidImmediate] at h))
  simp_all

theorem minmax_accepts_only_valid (d : BaseMinMaxRow) (o0 o1 o2 : Reg) (ws : List (BitVec 32)) (h : emitMinMaxReg d o0 o1 o2 = .ok ws) :
    checkGpType o0 kWX = true ∧ checkGpId o0 idZR = true ∧ checkGpId o1 idZR = true ∧ checkGpId o2 idZR = true := by
  unfold emitMinMaxReg at h
  repeat (split at h <;> try (simp [invalidInstruction, invalidPhysId] at h))
  simp_all

theorem shiftReg_accepts_only_valid (d : BaseShiftRow) (o0 o1 o2 : Reg) (ws : List (BitVec 32)) (h : emitShiftReg d o0 o1 o2 = .ok ws) :
    checkGpType o0 kWX = true ∧ checkGpId o0 idZR = true ∧ checkGpId o1 idZR = true ∧ checkGpId o2 idZR = true := by
  unfold emitShiftReg at h
  repeat (split at h <;> try (simp [invalidInstruction, invalidPhysId] at h))
  simp_all

theorem tstReg_accepts_only_valid (d : BaseTstRow) (o0 o1 : Reg) (sh : Option (BitVec 64 × Nat)) (ws : List (BitVec 32))
    (h : emitTstReg d o0 o1 sh = .ok ws) :
    checkGpType o0 kWX = true ∧ o0.sameSig o1 = true ∧ checkGpId o0 idZR = true ∧ checkGpId o1 idZR = true := by
  unfold emitTstReg at h
  repeat (split at h <;> try (simp [invalidInstruction, invalidPhysId, invalidImmediate] at h))
  all_goals simp_all

theorem branchReg_accepts_only_valid (opc : Nat) (o0 : Reg) (ws : List (BitVec 32)) (h : emitBranchReg opc o0 = .ok ws) :
    o0.isGp64 = true ∧ checkGpId o0 idZR = true ∧ ws = [w32 opc ||| addReg o0.id 5] := by
  unfold emitBranchReg at h
  repeat (split at h <;> try (simp [invalidInstruction, invalidPhysId] at h))
  simp [ok1] at h
  simp_all

/-- shared SIMD tail: an accepted `EmitOp_Rd0_Rn5_Rm16` has all three register ids valid for their type and no element
index that the form did not consume -/
theorem tailRd0Rn5Rm16_accepts_only_valid (opc : BitVec 32) (o0 o1 o2 : Reg) (indexed : Nat) (ws : List (BitVec 32))
    (h : tailRd0Rn5Rm16 opc o0 o1 o2 indexed = .ok ws) :
    validReg o0 = true ∧ validReg o1 = true ∧ validReg o2 = true ∧
    ws = [opc ||| addReg o0.id 0 ||| addReg o1.id 5 ||| addReg o2.id 16] := by
  unfold tailRd0Rn5Rm16 at h
  repeat (split at h <;> try (simp [invalidInstruction, invalidPhysId] at h))
  simp [ok1] at h
  simp_all

/-- ... so a vector register id above 31 is never accepted (design defect #3 cannot come back unnoticed) -/
theorem tailRd0Rn5Rm16_refuses_bad_id (opc : BitVec 32) (o0 o1 o2 : Reg) (indexed : Nat)
    (hv : o2.rt = rtVec128) (hbad : 32 ≤ o2.id) : ∀ ws, tailRd0Rn5Rm16 opc o0 o1 o2 indexed ≠ .ok ws := by
  intro ws h
  have hh := (tailRd0Rn5Rm16_accepts_only_valid opc o0 o1 o2 indexed ws h).2.2.1
  unfold validReg at hh
  have : commonHiRegId[o2.rt]? = some ⟨31⟩ := by rw [hv]; decide
  simp [this] at hh
  omega

/-! ### refusal: a register id that is neither 0..30 nor the SP/ZR id of the operand position is never accepted -/

theorem not_checkGpId (r : Reg) (hi : Nat) (hbad : 31 ≤ r.id ∧ r.id ≠ hi) : checkGpId r hi = false := by
  unfold checkGpId; simp; omega

theorem baseRR_refuses_bad_id (d : BaseRRRow) (o0 o1 : Reg)
    (hbad : (31 ≤ o0.id ∧ o0.id ≠ d.a_hi_id) ∨ (31 ≤ o1.id ∧ o1.id ≠ d.b_hi_id)) : ∀ ws, emitBaseRR d o0 o1 ≠ .ok ws := by
  intro ws h
  obtain ⟨_, _, i0, i1⟩ := baseRR_accepts_only_valid d o0 o1 ws h
  rcases hbad with hb | hb
  · rw [not_checkGpId _ _ hb] at i0; cases i0
  · rw [not_checkGpId _ _ hb] at i1; cases i1

theorem baseRRRR_refuses_bad_id (d : BaseRRRRRow) (o0 o1 o2 o3 : Reg)
    (hbad : (31 ≤ o0.id ∧ o0.id ≠ d.a_hi_id) ∨ (31 ≤ o1.id ∧ o1.id ≠ d.b_hi_id) ∨ (31 ≤ o2.id ∧ o2.id ≠ d.c_hi_id) ∨ (31 ≤ o3.id ∧ o3.id ≠ d.d_hi_id)) :
    ∀ ws, emitBaseRRRR d o0 o1 o2 o3 ≠ .ok ws := by
  intro ws h
  obtain ⟨_, _, _, _, i0, i1, i2, i3⟩ := baseRRRR_accepts_only_valid d o0 o1 o2 o3 ws h
  rcases hbad with hb | hb | hb | hb
  · rw [not_checkGpId _ _ hb] at i0; cases i0
  · rw [not_checkGpId _ _ hb] at i1; cases i1
  · rw [not_checkGpId _ _ hb] at i2; cases i2
  · rw [not_checkGpId _ _ hb] at i3; cases i3

theorem csel_refuses_bad (opc : Nat) (o0 o1 o2 : Reg) (cond : BitVec 64)
    (hbad : (31 ≤ o0.id ∧ o0.id ≠ idZR) ∨ (31 ≤ o1.id ∧ o1.id ≠ idZR) ∨ (31 ≤ o2.id ∧ o2.id ≠ idZR) ∨ 16 ≤ cond.toNat) :
    ∀ ws, emitCSel opc o0 o1 o2 cond ≠ .ok ws := by
  intro ws h
  obtain ⟨_, _, _, i0, i1, i2, hc⟩ := csel_accepts_only_valid opc o0 o1 o2 cond ws h
  rcases hbad with hb | hb | hb | hb
  · rw [not_checkGpId _ _ hb] at i0; cases i0
  · rw [not_checkGpId _ _ hb] at i1; cases i1
  · rw [not_checkGpId _ _ hb] at i2; cases i2
  · omega

theorem minmax_refuses_bad_id (d : BaseMinMaxRow) (o0 o1 o2 : Reg)
    (hbad : (31 ≤ o0.id ∧ o0.id ≠ idZR) ∨ (31 ≤ o1.id ∧ o1.id ≠ idZR) ∨ (31 ≤ o2.id ∧ o2.id ≠ idZR)) :
    ∀ ws, emitMinMaxReg d o0 o1 o2 ≠ .ok ws := by
  intro ws h
  obtain ⟨_, i0, i1, i2⟩ := minmax_accepts_only_valid d o0 o1 o2 ws h
  rcases hbad with hb | hb | hb
  · rw [not_checkGpId _ _ hb] at i0; cases i0
  · rw [not_checkGpId _ _ hb] at i1; cases i1
  · rw [not_checkGpId _ _ hb] at i2; cases i2

theorem shiftReg_refuses_bad_id (d : BaseShiftRow) (o0 o1 o2 : Reg)
    (hbad : (31 ≤ o0.id ∧ o0.id ≠ idZR) ∨ (31 ≤ o1.id ∧ o1.id ≠ idZR) ∨ (31 ≤ o2.id ∧ o2.id ≠ idZR)) :
    ∀ ws, emitShiftReg d o0 o1 o2 ≠ .ok ws := by
  intro ws h
  obtain ⟨_, i0, i1, i2⟩ := shiftReg_accepts_only_valid d o0 o1 o2 ws h
  rcases hbad with hb | hb | hb
  · rw [not_checkGpId _ _ hb] at i0; cases i0
  · rw [not_checkGpId _ _ hb] at i1; cases i1
  · rw [not_checkGpId _ _ hb] at i2; cases i2

example : emitCSel 0x1A800000 { rt := rtGp32, id := 1 } { rt := rtGp32, id := 2 } { rt := rtGp32, id := 3 } 2#64 = .ok [0x1A830041#32] := by decide

end AsmjitVerif.C02
