/-
C01 property theorems, backend layer (DESIGN.md section 6, C01 "T backend layer, all inputs").

Every theorem is about the Lean transcription `Model/X86Backend.lean` of the shared emitters of x86assembler.cpp and
states, for ALL values of the fields involved, that the bytes / prefix words the emitter builds carry exactly the
operand fields at the positions the Intel SDM (vol. 2, ch. 2: REX 2.2.1, ModRM/SIB 2.1.5, VEX 2.3.5, EVEX 2.7) gives
them. The SDM positions are spelled out inside each statement (`extractLsb' pos len`), the inversion of R X B R' V' vvvv
as `~~~`. The transcription is tied to the real code by the byte-for-byte correspondence of tools/props/c01.py.
-/
import AsmjitVerif.Model.X86Backend
import AsmjitVerif.Spec.X86Decode
import Std.Tactic.BVDecide
namespace AsmjitVerif.Props.C01
open Model.X86

/-! ## compressed displacement (disp8*N): EmitModSib's `cd_offset` test -/

/-- When the emitter chooses the disp8 form, the byte it stores, sign-extended and scaled by N = 2^s as the CPU does,
is the displacement asked for (all 2^32 displacements, all shifts the CDSHL field can hold). -/
theorem cdisp8_sound (rel cd s : BitVec 32) (hs : s ≤ 7#32) (h : cdisp8 rel s = some cd) :
    ((cd.truncate 8 : BitVec 8).signExtend 32) <<< s = rel := by
  unfold cdisp8 at h
  dsimp only at h
  split at h
  · rename_i hc
    injection h with h
    subst h
    simp only [isInt8] at hc
    bv_decide
  · contradiction

/-- Conversely disp32 is chosen only when NO 8-bit value scaled by N designates the displacement. -/
theorem cdisp8_complete (rel s : BitVec 32) (hs : s ≤ 7#32) (h : cdisp8 rel s = none) (d : BitVec 8) :
    (d.signExtend 32) <<< s ≠ rel := by
  unfold cdisp8 at h
  dsimp only at h
  split at h
  · contradiction
  · rename_i hc
    simp only [isInt8] at hc
    bv_decide

example : cdisp8 0x100#32 2#32 = some 0x40#32 := by decide
example : cdisp8 0x101#32 2#32 = none := by decide
example : cdisp8 0xFFFFE000#32 6#32 = some 0xFFFFFF80#32 := by decide   -- -8192 = -128 * 64

/-! ## REX (SDM 2.2.1: 0100WRXB) -/

/-- `EmitX86R`'s REX computation: when it succeeds, either no byte is emitted and W, R, B and the forced-REX option are all
clear, or one byte 0100WRXB is emitted with R = opReg[3], B = rbReg[3], X = 0 and W = the opcode's / option's W bit.
It fails exactly when the `InvalidRex` marker (32-bit mode, AH..BH) meets a REX bit. -/
theorem rex_correct (opcode options opReg rbReg : BitVec 32) (ho : opReg < 16#32) (hb : rbReg < 16#32)
    (hx : (opcode ||| options) &&& 0x37000000#32 = 0#32) :
    let rex := extractRex opcode options ||| ((opReg &&& 8#32) >>> 1) ||| ((rbReg &&& 8#32) >>> 3)
    let b : BitVec 8 := ((rex &&& 0x7F#32) ||| 0x40#32).truncate 8
    (emitRex rex = .error .invalidRexPrefix ↔ (rex > 0x80#32)) ∧
    (¬ rex > 0x80#32 → emitRex rex = .ok (if (rex &&& 0x7F#32) != 0#32 then [b] else [])) ∧
    (b.extractLsb' 4 4 = 0x4#4 ∧ b.extractLsb' 3 1 = ((opcode ||| options).extractLsb' 27 1) ∧
     b.extractLsb' 2 1 = opReg.extractLsb' 3 1 ∧ b.extractLsb' 1 1 = 0#1 ∧ b.extractLsb' 0 1 = rbReg.extractLsb' 3 1) ∧
    ((rex &&& 0x7F#32) = 0#32 ↔ ((opcode ||| options) &&& 0x48000000#32 = 0#32 ∧ opReg < 8#32 ∧ rbReg < 8#32)) := by
  intro rex b
  refine ⟨?_, ?_, ?_, ?_⟩
  · simp only [emitRex, rex]
    split <;> simp_all
  · intro h
    simp only [emitRex, rex, b] at *
    simp [h]
  · simp only [rex, b, extractRex]
    refine ⟨?_, ?_, ?_, ?_, ?_⟩ <;> bv_decide
  · simp only [rex, extractRex]
    constructor
    · intro h; refine ⟨?_, ?_, ?_⟩ <;> bv_decide
    · intro ⟨h1, h2, h3⟩; bv_decide

example : emitRex (extractRex 0x08000001#32 0#32 ||| ((9#32 &&& 8#32) >>> 1) ||| ((3#32 &&& 8#32) >>> 3)) = .ok [0x4C#8] := by rfl

/-! ## ModRM / SIB bytes (SDM 2.1.5: mod[7:6] reg[5:3] rm[2:0]; ss[7:6] index[5:3] base[2:0]) -/

theorem modrm_fields (m o rm : BitVec 32) (hm : m < 4#32) (ho : o < 8#32) (hr : rm < 8#32) :
    let b : BitVec 8 := (encodeMod m o rm).truncate 8
    b.extractLsb' 6 2 = m.truncate 2 ∧ b.extractLsb' 3 3 = o.truncate 3 ∧ b.extractLsb' 0 3 = rm.truncate 3 := by
  intro b; simp only [b, encodeMod]; refine ⟨?_, ?_, ?_⟩ <;> bv_decide

theorem sib_fields (s i bs : BitVec 32) (hs : s < 4#32) (hi : i < 8#32) (hb : bs < 8#32) :
    let b : BitVec 8 := (encodeSib s i bs).truncate 8
    b.extractLsb' 6 2 = s.truncate 2 ∧ b.extractLsb' 3 3 = i.truncate 3 ∧ b.extractLsb' 0 3 = bs.truncate 3 := by
  intro b; simp only [b, encodeSib]; refine ⟨?_, ?_, ?_⟩ <;> bv_decide

/-- `EmitX86R`: register numbers 0..15 split into (REX.R, ModRM.reg) and (REX.B, ModRM.rm) and back. -/
theorem modrm_reg_roundtrip (opReg rbReg : BitVec 32) (ho : opReg < 16#32) (hb : rbReg < 16#32) :
    let b : BitVec 8 := (encodeMod 3#32 (opReg &&& 7#32) (rbReg &&& 7#32)).truncate 8
    let rexR := ((opReg &&& 8#32) >>> 1).extractLsb' 2 1
    let rexB := ((rbReg &&& 8#32) >>> 3).extractLsb' 0 1
    b.extractLsb' 6 2 = 3#2 ∧ (rexR ++ b.extractLsb' 3 3).zeroExtend 32 = opReg ∧ (rexB ++ b.extractLsb' 0 3).zeroExtend 32 = rbReg := by
  intro b rexR rexB; simp only [b, rexR, rexB, encodeMod]; refine ⟨?_, ?_, ?_⟩ <;> bv_decide

example : ((encodeMod 3#32 (12#32 &&& 7#32) (9#32 &&& 7#32)).truncate 8 : BitVec 8) = 0xE1#8 := by decide

/-! ## VEX / EVEX prefix synthesis (`EmitVexEvexR`, `EmitVexEvexM`)

`xR` / `xM` are the 32-bit words `x` exactly as the two emitters assemble them from the packed register operand
`op_reg = reg + (vvvvv << 7)` (`pack_reg_and_vvvvv`), the r/m register resp. base / index registers, the opcode word
(mmmmm bits 8..12 with bit 12 = force-EVEX, pp bits 21..22, W bit 27, EVEX.W bit 28, LL bits 29..30), `{k}` and broadcast. -/

def xR (opcode options reg vvvvv rm aaa : BitVec 32) : BitVec 32 :=
  (((reg + (vvvvv <<< 7)) <<< 4) &&& 0xF980#32) ||| ((rm <<< 2) &&& 0x0060#32) ||| extractLLMMMMM opcode options ||| (aaa <<< 16)

def xM (opcode options reg vvvvv rb rx aaa bcst : BitVec 32) : BitVec 32 :=
  (((reg + (vvvvv <<< 7)) <<< 4) &&& 0x0000F980#32) ||| ((rx <<< 3) &&& 0x00000040#32) ||| ((rx <<< 15) &&& 0x00080000#32) |||
  ((rb <<< 2) &&& 0x00000020#32) ||| extractLLMMMMM opcode options ||| (aaa <<< 16) ||| (bcst <<< 20)

/-- EVEX, register form (SDM 2.7.1): for ALL register numbers 0..31 in reg / vvvvv / rm, all opcode words without the XOP bit,
all {k}: byte 0 is 62; P0 = [~R ~X ~B ~R' 0 m m m] with R = reg[3], X = rm[4], B = rm[3], R' = reg[4];
P1 = [W ~v3 ~v2 ~v1 ~v0 1 p p]; P2 = [z L' L b ~V' a a a] with V' = vvvvv[4], z = 0, b = 0 (no AVX-512 option). -/
theorem vex_evex_r_roundtrip (opcode options reg vvvvv rm aaa : BitVec 32)
    (hr : reg < 32#32) (hv : vvvvv < 32#32) (hm : rm < 32#32) (ha : aaa < 8#32)
    (hxop : opcode &&& 0x800#32 = 0#32) (hopt : options &&& 0x00FC0000#32 = 0#32) :
    let w := evexWord (xR opcode options reg vvvvv rm aaa) opcode
    w.extractLsb' 0 8 = 0x62#8 ∧
    -- P0
    w.extractLsb' 15 1 = ~~~ reg.extractLsb' 3 1 ∧ w.extractLsb' 14 1 = ~~~ rm.extractLsb' 4 1 ∧ w.extractLsb' 13 1 = ~~~ rm.extractLsb' 3 1 ∧
    w.extractLsb' 12 1 = ~~~ reg.extractLsb' 4 1 ∧ w.extractLsb' 11 1 = 0#1 ∧ w.extractLsb' 8 3 = opcode.extractLsb' 8 3 ∧
    -- P1
    w.extractLsb' 23 1 = (opcode.extractLsb' 27 1 ||| opcode.extractLsb' 28 1) ∧ w.extractLsb' 19 4 = ~~~ vvvvv.extractLsb' 0 4 ∧
    w.extractLsb' 18 1 = 1#1 ∧ w.extractLsb' 16 2 = opcode.extractLsb' 21 2 ∧
    -- P2
    w.extractLsb' 31 1 = 0#1 ∧ w.extractLsb' 29 2 = opcode.extractLsb' 29 2 ∧ w.extractLsb' 28 1 = 0#1 ∧
    w.extractLsb' 27 1 = ~~~ vvvvv.extractLsb' 4 1 ∧ w.extractLsb' 24 3 = aaa.extractLsb' 0 3 := by
  intro w
  simp only [w, evexWord, xR, extractLLMMMMM, kLL_Mask, kMM_Mask, oEvex]
  refine ⟨?_, ?_, ?_, ?_, ?_, ?_, ?_, ?_, ?_, ?_, ?_, ?_, ?_, ?_, ?_, ?_⟩ <;> bv_decide

/-- EVEX is chosen exactly when something only EVEX can express is present: a register number ≥ 16, a mask register,
a 512-bit length, the force-EVEX opcode bit or the `evex` option (no AVX-512 option given). -/
theorem evex_r_chosen_iff (opcode options reg vvvvv rm aaa : BitVec 32)
    (hr : reg < 32#32) (hv : vvvvv < 32#32) (hm : rm < 32#32) (ha : aaa < 8#32) (hopt : options &&& 0x00FC0000#32 = 0#32) :
    (xR opcode options reg vvvvv rm aaa &&& 0x00D78150#32 ≠ 0#32) ↔
    (reg ≥ 16#32 ∨ vvvvv ≥ 16#32 ∨ rm ≥ 16#32 ∨ aaa ≠ 0#32 ∨ opcode &&& 0x40000000#32 ≠ 0#32 ∨ opcode &&& 0x1000#32 ≠ 0#32 ∨
     options &&& 0x1000#32 ≠ 0#32) := by
  simp only [xR, extractLLMMMMM, kLL_Mask, kMM_Mask, oEvex]
  constructor
  · intro h; bv_decide
  · intro h; bv_decide

/-- VEX3 / XOP (SDM 2.3.5.1): when EVEX is not needed, the 3-byte form is [C4|8F] [~R ~X ~B m m m m m] [W ~v ~v ~v ~v L p p] opcode. -/
theorem vex3_r_roundtrip (opcode options reg vvvvv rm : BitVec 32)
    (hr : reg < 16#32) (hv : vvvvv < 16#32) (hm : rm < 16#32) (hopt : options &&& 0x00FC1000#32 = 0#32)
    (hll : opcode &&& 0x40001000#32 = 0#32) :
    let w := vex3Word (vexPrep (xR opcode options reg vvvvv rm 0#32) opcode options) opcode
    (opcode &&& 0x800#32 = 0#32 → w.extractLsb' 0 8 = 0xC4#8) ∧ (opcode &&& 0x800#32 ≠ 0#32 → w.extractLsb' 0 8 = 0x8F#8) ∧
    w.extractLsb' 15 1 = ~~~ reg.extractLsb' 3 1 ∧ w.extractLsb' 14 1 = 1#1 ∧ w.extractLsb' 13 1 = ~~~ rm.extractLsb' 3 1 ∧
    w.extractLsb' 8 5 = opcode.extractLsb' 8 5 ∧
    w.extractLsb' 23 1 = opcode.extractLsb' 27 1 ∧ w.extractLsb' 19 4 = ~~~ vvvvv.extractLsb' 0 4 ∧
    w.extractLsb' 18 1 = opcode.extractLsb' 29 1 ∧ w.extractLsb' 16 2 = opcode.extractLsb' 21 2 ∧
    w.extractLsb' 24 8 = opcode.extractLsb' 0 8 := by
  intro w
  simp only [w, vex3Word, vexPrep, vexPrefixTable, xR, extractLLMMMMM, kLL_Mask, kMM_Mask, oEvex, oVex3]
  refine ⟨?_, ?_, ?_, ?_, ?_, ?_, ?_, ?_, ?_, ?_, ?_⟩
  · intro h; bv_decide
  · intro h; bv_decide
  all_goals bv_decide

/-- VEX2 is chosen only when it can represent the instruction: B = 0 (rm < 8), W = 0, map 0F (mmmmm = 00001), no `vex3` option;
and then the byte after C5 is [~R ~v ~v ~v ~v L p p]. -/
theorem vex2_r_only_when_representable (opcode options reg vvvvv rm : BitVec 32)
    (hr : reg < 16#32) (hv : vvvvv < 16#32) (hm : rm < 16#32) (hopt : options &&& 0x00FC1000#32 = 0#32)
    (hll : opcode &&& 0x40001000#32 = 0#32) (hmm : opcode &&& 0x100#32 ≠ 0#32) :
    let x := vexPrep (xR opcode options reg vvvvv rm 0#32) opcode options
    let b : BitVec 8 := (vex2Byte x).truncate 8
    ((x &&& 0x8000803E#32 = 0#32) ↔ (rm < 8#32 ∧ opcode &&& 0x08000000#32 = 0#32 ∧ opcode &&& 0x1E00#32 = 0#32 ∧ options &&& 0x400#32 = 0#32)) ∧
    ((x &&& 0x8000803E#32 = 0#32) →
      b.extractLsb' 7 1 = ~~~ reg.extractLsb' 3 1 ∧ b.extractLsb' 3 4 = ~~~ vvvvv.extractLsb' 0 4 ∧
      b.extractLsb' 2 1 = opcode.extractLsb' 29 1 ∧ b.extractLsb' 0 2 = opcode.extractLsb' 21 2) := by
  intro x b
  simp only [x, b, vex2Byte, vexPrep, xR, extractLLMMMMM, kLL_Mask, kMM_Mask, oEvex, oVex3]
  refine ⟨⟨?_, ?_⟩, ?_⟩
  · intro h; refine ⟨?_, ?_, ?_, ?_⟩ <;> bv_decide
  · intro ⟨h1, h2, h3, h4⟩; bv_decide
  · intro h; refine ⟨?_, ?_, ?_, ?_⟩ <;> bv_decide

/-- EVEX, memory form: P0 = [~R ~X ~B ~R' 0 mmm] with X = index[3], B = base[3]; P2 carries b = broadcast and ~V' = ~index[4]
when the instruction has no vvvv operand ≥ 16 (VSIB: V' extends the vector index). -/
theorem vex_evex_m_roundtrip (opcode options reg vvvvv rb rx aaa bcst : BitVec 32)
    (hr : reg < 32#32) (hv : vvvvv < 16#32) (hb : rb < 16#32) (hx : rx < 32#32) (ha : aaa < 8#32) (hbc : bcst < 2#32)
    (hxop : opcode &&& 0x800#32 = 0#32) (hopt : options &&& 0x00FC0000#32 = 0#32) :
    let w := evexWord (xM opcode options reg vvvvv rb rx aaa bcst) opcode
    w.extractLsb' 0 8 = 0x62#8 ∧
    w.extractLsb' 15 1 = ~~~ reg.extractLsb' 3 1 ∧ w.extractLsb' 14 1 = ~~~ rx.extractLsb' 3 1 ∧ w.extractLsb' 13 1 = ~~~ rb.extractLsb' 3 1 ∧
    w.extractLsb' 12 1 = ~~~ reg.extractLsb' 4 1 ∧ w.extractLsb' 11 1 = 0#1 ∧ w.extractLsb' 8 3 = opcode.extractLsb' 8 3 ∧
    w.extractLsb' 23 1 = (opcode.extractLsb' 27 1 ||| opcode.extractLsb' 28 1) ∧ w.extractLsb' 19 4 = ~~~ vvvvv.extractLsb' 0 4 ∧
    w.extractLsb' 18 1 = 1#1 ∧ w.extractLsb' 16 2 = opcode.extractLsb' 21 2 ∧
    w.extractLsb' 31 1 = 0#1 ∧ w.extractLsb' 29 2 = opcode.extractLsb' 29 2 ∧ w.extractLsb' 28 1 = bcst.extractLsb' 0 1 ∧
    w.extractLsb' 27 1 = ~~~ rx.extractLsb' 4 1 ∧ w.extractLsb' 24 3 = aaa.extractLsb' 0 3 := by
  intro w
  simp only [w, evexWord, xM, extractLLMMMMM, kLL_Mask, kMM_Mask, oEvex]
  refine ⟨?_, ?_, ?_, ?_, ?_, ?_, ?_, ?_, ?_, ?_, ?_, ?_, ?_, ?_, ?_, ?_⟩ <;> bv_decide

-- vaddps zmm20 {k3}{z}... prefix of `62 81 6c cb`: reg 20, vvvvv 2, base r12 (B), index r13 (X), k3, LL = 2 (z is added by the option block)
example : evexWord (xM 0x40000158#32 0#32 20#32 2#32 12#32 13#32 3#32 0#32) 0x40000158#32 = 0x4B6C8162#32 := by decide
-- vaddps xmm1, xmm2, xmm3 = c5 e8 58 cb
example : ((vex2Byte (vexPrep (xR 0x00000158#32 0#32 1#32 2#32 3#32 0#32) 0x00000158#32 0#32)).truncate 8 : BitVec 8) = 0xE8#8 := by decide

/-! ## compressed-displacement scale table (`cdisp8_shl_table`) against SDM table 2-34/2-35 -/

/-- N = 2^(base shift + this value): full / half / quarter vector (`ByLL`) scale with the vector length, tuple1 by `W`, MOVDDUP 8/32/64. -/
theorem cdisp8_shl_correct :
    ∀ ll : Fin 3, ∀ w : Fin 2,
      cdisp8Shl (BitVec.ofNat 32 (0 * 8 + w.val * 4 + ll.val)) = 0#32 ∧
      cdisp8Shl (BitVec.ofNat 32 (1 * 8 + w.val * 4 + ll.val)) = BitVec.ofNat 32 ll.val <<< 13 ∧
      cdisp8Shl (BitVec.ofNat 32 (2 * 8 + w.val * 4 + ll.val)) = BitVec.ofNat 32 (ll.val + w.val) <<< 13 ∧
      cdisp8Shl (BitVec.ofNat 32 (3 * 8 + w.val * 4 + ll.val)) = BitVec.ofNat 32 (if ll.val = 0 then 0 else ll.val + 1) <<< 13 := by
  decide

/-! ## immediates -/

/-- `emit_immediate` writes exactly `n` bytes, little-endian: byte i is bits [8i+7 : 8i] of the value. -/
theorem imm_le_exact (imm : BitVec 64) (n : Nat) :
    (emitImmediate imm n).length = n ∧ ∀ i, i < n → (emitImmediate imm n)[i]? = some ((imm >>> (8 * i)).truncate 8) := by
  induction n generalizing imm with
  | zero => simp [emitImmediate]
  | succ n ih =>
    refine ⟨by simp [emitImmediate, (ih (imm >>> 8)).1], ?_⟩
    intro i hi
    cases i with
    | zero => simp [emitImmediate]
    | succ i =>
      have := (ih (imm >>> 8)).2 i (by omega)
      simp only [emitImmediate, List.getElem?_cons_succ, this]
      have e : 8 * (i + 1) = 8 + 8 * i := by omega
      rw [e, BitVec.shiftRight_add]

example : emitImmediate 0x12345678#64 4 = [0x78#8, 0x56#8, 0x34#8, 0x12#8] := by decide

/-- `EmitX86R`: number of bytes = |mandatory prefix| + |REX| + |escape + opcode| + 1 (ModRM) + immediate size. -/
theorem length_eq_x86r (opcode options opReg rbReg : BitVec 32) (imm : BitVec 64) (n : Nat) (bs : List Byte)
    (h : emitX86R opcode options opReg rbReg imm n = .ok bs) :
    ∃ rex, emitRex (extractRex opcode options ||| ((opReg &&& 8#32) >>> 1) ||| ((rbReg &&& 8#32) >>> 3)) = .ok rex ∧
      bs.length = (emitPP opcode).length + rex.length + (emitMMAndOpcode opcode).length + 1 + n := by
  unfold emitX86R at h
  cases hr : emitRex (extractRex opcode options ||| ((opReg &&& 8#32) >>> 1) ||| ((rbReg &&& 8#32) >>> 3)) with
  | error e => simp [hr, bind, Except.bind] at h
  | ok rex =>
    refine ⟨rex, rfl, ?_⟩
    simp [hr, bind, Except.bind, pure, Except.pure] at h
    subst h
    simp [(imm_le_exact imm n).1]
    omega


/-! ## whole-emitter statements (list level) -/


/-- the prefix word `x` of `EmitVexEvexR` for an already packed `op_reg` -/
def xOfR (opcode options opReg rbReg aaa : BitVec 32) : BitVec 32 :=
  ((opReg <<< 4) &&& 0xF980#32) ||| ((rbReg <<< 2) &&& 0x0060#32) ||| extractLLMMMMM opcode options ||| (aaa <<< 16)

theorem xR_eq_xOfR (opcode options reg vvvvv rm aaa : BitVec 32) :
    xR opcode options reg vvvvv rm aaa = xOfR opcode options (reg + (vvvvv <<< 7)) rm aaa := rfl

/-- `EmitVexEvexR`, EVEX branch, as a whole: with no AVX-512 option and no EVEX preference, whenever the prefix word needs EVEX
the emitter's output is exactly: the four EVEX bytes of `evexWord` (whose fields `vex_evex_r_roundtrip` pins down), the opcode byte,
ModRM 11:reg:rm, and the immediate - nothing else. -/
theorem emitVexEvexR_evex_bytes (c : Ctx) (opcode options opReg rbReg : BitVec 32) (imm : BitVec 64) (n : Nat)
    (hopt : options &&& (oZMask ||| oER ||| oSAE) = 0#32) (hpe : c.preferEvex = false)
    (hev : xOfR opcode options opReg rbReg c.extraId &&& 0x00D78150#32 ≠ 0#32) :
    emitVexEvexR c opcode options opReg rbReg imm n =
      .ok (le32 (evexWord (xOfR opcode options opReg rbReg c.extraId) opcode) ++ [opcode.truncate 8] ++
           ([(encodeMod 3#32 (opReg &&& 7#32) (rbReg &&& 7#32)).truncate 8] ++ emitImmByteOrDword imm n)) := by
  unfold xOfR at hev ⊢
  simp [emitVexEvexR, vexEvexROptions, hopt, hpe, hev, bind, Except.bind, pure, Except.pure]

example : emitVexEvexR { (default : Ctx) with mode64 := true, vexFlag := true, extraId := 0#32 } 0x00000158#32 0#32 (20#32 + (2#32 <<< 7)) 3#32 0 0
    = .ok [0x62#8, 0xE1#8, 0x6C#8, 0x08#8, 0x58#8, 0xE3#8] := by rfl



/-- `EmitModSib`, [BASE + INDEX*scale + DISP] path (32/64-bit addressing, entered at EmitModVSib or with a GP index): the bytes after `pre` are
ModRM (mod, reg, rm=100), SIB (scale, index[2:0], base[2:0]) and the displacement in exactly one of the three SDM forms -
none (mod=00; never for base rBP/r13), disp8 (mod=01) holding `cd` with `cdisp8 rel s = some cd` (so by `cdisp8_sound` it decodes to `rel`),
or disp32 (mod=10) holding `rel` - followed by the immediate. -/
theorem modsib_base_index_roundtrip (c : Ctx) (pre : List Byte) (ao : Nat) (opcode options opReg rbReg rxReg rmInfo : BitVec 32) (m : Mem)
    (imm : BitVec 64) (n : Nat)
    (hbase : rmInfo &&& kX86MemInfo_BaseGp ≠ 0#32) :
    emitModSib c pre ao opcode options opReg rbReg rxReg rmInfo m imm n true =
      .ok (pre ++
        (if m.offLo32 == 0#32 && (rbReg &&& 7#32) != 5#32 then
           [(encodeMod 0#32 opReg 4#32).truncate 8, (encodeSib (BitVec.ofNat 32 m.shift) (rxReg &&& 7#32) (rbReg &&& 7#32)).truncate 8]
         else match cdisp8 m.offLo32 (cdShiftOf opcode) with
           | some cd => [(encodeMod 0#32 opReg 4#32 + 0x40#32).truncate 8, (encodeSib (BitVec.ofNat 32 m.shift) (rxReg &&& 7#32) (rbReg &&& 7#32)).truncate 8, cd.truncate 8]
           | none => [(encodeMod 0#32 opReg 4#32 + 0x80#32).truncate 8, (encodeSib (BitVec.ofNat 32 m.shift) (rxReg &&& 7#32) (rbReg &&& 7#32)).truncate 8] ++ le32 m.offLo32)
        ++ emitImmediate imm n) := by
  unfold emitModSib
  simp only [Bool.not_true, Bool.false_and, Bool.true_or]
  simp [hbase]
  split <;> simp_all
  split <;> simp_all



/-- `EmitModSib`, [BASE + DISP] path (no index, 32/64-bit addressing): ModRM (mod, reg, rm = base[2:0]) with the SDM special cases -
base rSP/r12 (rm = 100 means "SIB follows": SIB 00:100:base is emitted), base rBP/r13 (mod = 00 rm = 101 means disp32 / RIP: a zero
disp8 is emitted instead), forced SIB for AMX - and the displacement in exactly one of the forms none / disp8 (= `cdisp8`) / disp32. -/
theorem modsib_base_roundtrip (c : Ctx) (pre : List Byte) (ao : Nat) (opcode options opReg rbReg rxReg rmInfo : BitVec 32) (m : Mem)
    (imm : BitVec 64) (n : Nat)
    (hni : rmInfo &&& (kX86MemInfo_Index ||| kX86MemInfo_67H_X86) = 0#32) (hbase : rmInfo &&& kX86MemInfo_BaseGp ≠ 0#32) :
    emitModSib c pre ao opcode options opReg rbReg rxReg rmInfo m imm n false =
      .ok (pre ++
        (let rb := rbReg &&& 7#32
         let mod := encodeMod 0#32 opReg rb
         if rb == 4#32 || c.tsib then
           let mod := (mod &&& 0xF8#32) ||| 0x04#32
           let sib : Byte := (encodeSib 0#32 4#32 rb).truncate 8
           if rb != 5#32 && m.offLo32 == 0#32 then [mod.truncate 8, sib]
           else match cdisp8 m.offLo32 (cdShiftOf opcode) with
             | some cd => [(mod + 0x40#32).truncate 8, sib, cd.truncate 8]
             | none => [(mod + 0x80#32).truncate 8, sib] ++ le32 m.offLo32
         else if rb != 5#32 && m.offLo32 == 0#32 then [mod.truncate 8]
         else match cdisp8 m.offLo32 (cdShiftOf opcode) with
           | some cd => [(mod + 0x40#32).truncate 8, cd.truncate 8]
           | none => [(mod + 0x80#32).truncate 8] ++ le32 m.offLo32)
        ++ emitImmediate imm n) := by
  unfold emitModSib
  simp only [Bool.not_false, Bool.true_and, hni, beq_self_eq_true, ↓reduceIte, bne_iff_ne, ne_eq, hbase, not_false_eq_true]
  split
  · split
    · simp
    · split <;> simp_all
  · split
    · simp
    · split <;> simp_all



/-! ## AVX-512 option block of `EmitVexEvexR`: {z}, {er}, {sae} (SDM 2.7.3 - 2.7.5: z = P2[7], b = P2[4], rounding control in L'L) -/

/-- With {er} the prefix word carries b = 1 and the rounding mode in the L'L bits (whatever vector length the opcode had);
with {sae} b = 1 and L'L = 00; {z} sets bit 23; nothing else of `x` changes; and the block fails exactly when the
instruction lacks the capability (or a non-512-bit vector instruction with broadcast support asks for it). -/
theorem evex_r_options_roundtrip (c : Ctx) (x options x' : BitVec 32)
    (hx : x &&& 0x00900000#32 = 0#32)
    (h : vexEvexROptions c x options = .ok x') :
    x' &&& 0xFF0FFFFF#32 = x &&& 0xFF0FFFFF#32 ∧
    ((options &&& (oER ||| oSAE)) = 0#32 → x'.extractLsb' 21 2 = x.extractLsb' 21 2) ∧
    (x'.extractLsb' 23 1 = options.extractLsb' 23 1) ∧
    (x'.extractLsb' 20 1 = (if (options &&& (oER ||| oSAE)) != 0#32 then 1#1 else 0#1)) ∧
    ((options &&& oER) != 0#32 → x'.extractLsb' 21 2 = options.extractLsb' 21 2) ∧
    ((options &&& oER) = 0#32 → (options &&& oSAE) != 0#32 → x'.extractLsb' 21 2 = 0#2) := by
  unfold vexEvexROptions at h
  dsimp only at h
  split at h
  · split at h
    · split at h
      · contradiction
      · split at h
        · split at h
          · contradiction
          · injection h with h; subst h; simp only [oZMask, oER, oSAE] at *; refine ⟨?_, ?_, ?_, ?_, ?_, ?_⟩ <;> (try intro _) <;> (try intro _) <;> bv_decide
        · split at h
          · contradiction
          · injection h with h; subst h; simp only [oZMask, oER, oSAE] at *; refine ⟨?_, ?_, ?_, ?_, ?_, ?_⟩ <;> (try intro _) <;> (try intro _) <;> bv_decide
    · injection h with h; subst h; simp only [oZMask, oER, oSAE] at *; refine ⟨?_, ?_, ?_, ?_, ?_, ?_⟩ <;> (try intro _) <;> (try intro _) <;> bv_decide
  · injection h with h; subst h; simp only [oZMask, oER, oSAE] at *; refine ⟨?_, ?_, ?_, ?_, ?_, ?_⟩ <;> (try intro _) <;> (try intro _) <;> bv_decide

/-! ## 16-bit addressing tables against SDM table 2-1 (the spec's `addr16Regs`) -/

/-- every (base, index) pair / single base the 16-bit tables accept yields the r/m value whose SDM meaning is that pair / base,
and every other combination is refused (0xFF) -/
theorem mod16_tables_correct :
    (∀ b i : Fin 8, let m := mod16BaseIndex (BitVec.ofNat 32 b.val) (BitVec.ofNat 32 i.val)
      (m = 0xFF#32 ∨ (m < 4#32 ∧ (Spec.X86.addr16Regs m.toNat = (some b.val, some i.val) ∨ Spec.X86.addr16Regs m.toNat = (some i.val, some b.val)))) ∧
      ((m = 0xFF#32) ↔ ¬ ((b.val = 3 ∨ b.val = 5) ∧ (i.val = 6 ∨ i.val = 7) ∨ (i.val = 3 ∨ i.val = 5) ∧ (b.val = 6 ∨ b.val = 7)))) ∧
    (∀ b : Fin 8, let m := mod16Base (BitVec.ofNat 32 b.val)
      (m = 0xFF#32 ∨ (Spec.X86.addr16Regs m.toNat = (some b.val, none))) ∧ ((m = 0xFF#32) ↔ ¬ (b.val = 3 ∨ b.val = 5 ∨ b.val = 6 ∨ b.val = 7))) := by
  decide


end AsmjitVerif.Props.C01
