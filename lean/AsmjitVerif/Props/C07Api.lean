/-
C07, continued: the property for every frame reachable through the public API (`FuncFrame::init` on a built-in or
custom convention followed by any sequence of setters / `update_*` calls / attribute, dirty-mask and SA-register
changes / `FuncArgsAssignment::update_func_frame`).
-/
import AsmjitVerif.Props.C07
namespace AsmjitVerif.Frame

/-!
Part 2b: every frame reachable through the public API.  A frame is built by `FuncFrame::init` from a built-in
convention - possibly with user-set preserved masks (`CallConv::set_preserved_regs`, custom conventions) - and then
modified by any sequence of `FrameOp`s: the size / alignment setters and their `update_*` variants, attribute bits
(including a stale kAlignedVecSR), dirty masks, SA register, red zone, and `FuncArgsAssignment::update_func_frame`
(as far as it touches the frame).  `OpOKx86` is the validity of the *arguments* (alignments are powers of two up to 64 or
0, sizes up to 256 MiB, SA register a real GP register); `x86_reachable` shows that every such frame satisfies the
hypotheses of `x86_prolog_body_epilog`, and `x86_prolog_body_epilog_api` restates the property for them.
-/

def P6 (v : Nat) : Prop := ∃ k, k ≤ 6 ∧ v = 2 ^ k
def P60 (v : Nat) : Prop := v = 0 ∨ P6 v

theorem P6.le {v : Nat} (h : P6 v) : 0 < v ∧ v ≤ 64 := by
  obtain ⟨k, hk, rfl⟩ := h
  have : 2 ^ k ≤ 2 ^ 6 := Nat.pow_le_pow_right (by omega) hk
  exact ⟨Nat.two_pow_pos k, by omega⟩
theorem P60.le {v : Nat} (h : P60 v) : v ≤ 64 := by
  rcases h with h | h
  · omega
  · exact h.le.2
theorem P6.max60 {a b : Nat} (ha : P6 a) (hb : P60 b) : P6 (max a b) := by
  have h1 := ha.le
  rcases Nat.le_total a b with h | h
  · rw [Nat.max_eq_right h]
    rcases hb with hb | hb
    · omega
    · exact hb
  · rw [Nat.max_eq_left h]; exact ha
theorem P60.max {a b : Nat} (ha : P60 a) (hb : P60 b) : P60 (max a b) := by
  rcases Nat.le_total a b with h | h
  · rw [Nat.max_eq_right h]; exact hb
  · rw [Nat.max_eq_left h]; exact ha

def OpOKx86 : FrameOp → Prop
  | .setLocalSize v | .updLocalSize v | .setCallSize v | .updCallSize v => v ≤ 2 ^ 28
  | .setLocalAlign v | .updLocalAlign v | .setCallAlign v | .updCallAlign v => P60 v
  | .setSaReg r => r < 16
  | .updateFuncFrame _ _ _ _ sa _ => ∀ r, sa = some r → r < 16
  | _ => True

/-- invariant of the frames reachable on x86 -/
structure X86Inv (g : Frame) : Prop where
  xin : X86In g
  natP : P6 g.natAlign
  finP : P6 g.finalAlign
  callP : P60 g.callAlign
  localP : P60 g.localAlign
  sizes : g.callSize ≤ 2 ^ 28 ∧ g.localSize ≤ 2 ^ 28

theorem X86Inv.layoutIn {g : Frame} (h : X86Inv g) : LayoutIn g := by
  obtain ⟨k, hk, hA⟩ := h.finP
  have hW : g.arch.W = 4 ∨ g.arch.W = 8 := by rcases h.xin.arch with e | e <;> simp [e, Arch.W]
  exact ⟨⟨k, by omega, hA⟩, ⟨4, by omega, h.xin.sr1.1⟩, by have := h.sizes; omega,
    by rw [h.xin.sr0.1]; rcases hW with e | e <;> omega⟩

theorem u8_small {v : Nat} (h : v ≤ 64) : u8 v = v := Nat.mod_eq_of_lt (by omega)
theorem u32_small {v : Nat} (h : v ≤ 2 ^ 28) : u32 v = v := Nat.mod_eq_of_lt (by omega)

/-- the invariant only looks at convention data, alignments, sizes and the SA register -/
theorem X86Inv.of_same (g g' : Frame) (h : X86Inv g) (e1 : g'.arch = g.arch) (e2 : g'.srSize = g.srSize)
    (e3 : g'.srAlign = g.srAlign) (e4 : g'.preserved = g.preserved) (e5 : g'.natAlign = g.natAlign)
    (e6 : g'.minDynAlign = g.minDynAlign) (e7 : g'.finalAlign = g.finalAlign) (e8 : g'.callAlign = g.callAlign)
    (e9 : g'.localAlign = g.localAlign) (e10 : g'.callSize = g.callSize) (e11 : g'.localSize = g.localSize)
    (hsa : g'.saRegId = 0xFF ∨ g'.saRegId < 16) : X86Inv g' := by
  obtain ⟨xin, natP, finP, callP, localP, hs⟩ := h
  exact ⟨{ arch := by rw [e1]; exact xin.arch, sr0 := by rw [e2, e3, e1]; exact xin.sr0, sr1 := by rw [e2, e3]; exact xin.sr1,
           sr2 := by rw [e2, e3]; exact xin.sr2, sr3 := by rw [e2, e3]; exact xin.sr3, pres16 := by rw [e4]; exact xin.pres16,
           presSp := by rw [e4]; exact xin.presSp, nat := by rw [e5, e6, e7]; exact xin.nat, sa := hsa },
         by rw [e5]; exact natP, by rw [e7]; exact finP, by rw [e8]; exact callP, by rw [e9]; exact localP,
         by rw [e10, e11]; exact hs⟩

theorem X86Inv.addDirtyG (g : Frame) (h : X86Inv g) (i m : Nat) : X86Inv (g.addDirtyG i m) :=
  X86Inv.of_same g _ h rfl rfl rfl rfl rfl rfl rfl rfl rfl rfl rfl h.xin.sa

theorem X86Inv.setSa (g : Frame) (h : X86Inv g) (r : Nat) (hr : r = 0xFF ∨ r < 16) : X86Inv { g with saRegId := r } :=
  X86Inv.of_same g _ h rfl rfl rfl rfl rfl rfl rfl rfl rfl rfl rfl hr

theorem x86Inv_apply (g : Frame) (h : X86Inv g) (op : FrameOp) (hop : OpOKx86 op) : X86Inv (g.apply op) := by
  obtain ⟨xin, natP, finP, callP, localP, ⟨hcs, hls⟩⟩ := h
  obtain ⟨n1, n2, n3⟩ := xin.nat
  have hfpid : g.arch.fpId = 5 := by rcases xin.arch with e | e <;> simp [e, Arch.fpId]
  -- operations that touch neither alignments, sizes, convention data nor the SA register
  have keep : ∀ g' : Frame, g'.arch = g.arch → g'.srSize = g.srSize → g'.srAlign = g.srAlign → g'.preserved = g.preserved →
      g'.natAlign = g.natAlign → g'.minDynAlign = g.minDynAlign → g'.finalAlign = g.finalAlign →
      g'.callAlign = g.callAlign → g'.localAlign = g.localAlign → g'.callSize = g.callSize → g'.localSize = g.localSize →
      (g'.saRegId = 0xFF ∨ g'.saRegId < 16) → X86Inv g' := by
    intro g' e1 e2 e3 e4 e5 e6 e7 e8 e9 e10 e11 hsa
    exact ⟨{ arch := by rw [e1]; exact xin.arch, sr0 := by rw [e2, e3, e1]; exact xin.sr0, sr1 := by rw [e2, e3]; exact xin.sr1,
             sr2 := by rw [e2, e3]; exact xin.sr2, sr3 := by rw [e2, e3]; exact xin.sr3, pres16 := by rw [e4]; exact xin.pres16,
             presSp := by rw [e4]; exact xin.presSp, nat := by rw [e5, e6, e7]; exact xin.nat, sa := hsa },
           by rw [e5]; exact natP, by rw [e7]; exact finP, by rw [e8]; exact callP, by rw [e9]; exact localP,
           by rw [e10, e11]; exact ⟨hcs, hls⟩⟩
  -- alignment setters: new call / local alignment `c`, `l` and final alignment `fa`
  have aligns : ∀ (c l fa : Nat), P60 c → P60 l → P6 fa → g.natAlign ≤ fa →
      X86Inv { g with callAlign := c, localAlign := l, finalAlign := fa } := by
    intro c l fa hc hl hfa hn
    exact ⟨{ arch := xin.arch, sr0 := xin.sr0, sr1 := xin.sr1, sr2 := xin.sr2, sr3 := xin.sr3, pres16 := xin.pres16,
             presSp := xin.presSp, nat := ⟨hn, n2, n3⟩, sa := xin.sa }, natP, hfa, hc, hl, ⟨hcs, hls⟩⟩
  cases op with
  | setLocalSize v =>
    have hv : v ≤ 2 ^ 28 := hop
    refine ⟨{ arch := xin.arch, sr0 := xin.sr0, sr1 := xin.sr1, sr2 := xin.sr2, sr3 := xin.sr3, pres16 := xin.pres16,
              presSp := xin.presSp, nat := xin.nat, sa := xin.sa }, natP, finP, callP, localP, ⟨hcs, ?_⟩⟩
    show u32 v ≤ _; rw [u32_small hv]; exact hv
  | updLocalSize v =>
    have hv : v ≤ 2 ^ 28 := hop
    refine ⟨{ arch := xin.arch, sr0 := xin.sr0, sr1 := xin.sr1, sr2 := xin.sr2, sr3 := xin.sr3, pres16 := xin.pres16,
              presSp := xin.presSp, nat := xin.nat, sa := xin.sa }, natP, finP, callP, localP, ⟨hcs, ?_⟩⟩
    show max g.localSize (u32 v) ≤ _; rw [u32_small hv]; omega
  | setCallSize v =>
    have hv : v ≤ 2 ^ 28 := hop
    refine ⟨{ arch := xin.arch, sr0 := xin.sr0, sr1 := xin.sr1, sr2 := xin.sr2, sr3 := xin.sr3, pres16 := xin.pres16,
              presSp := xin.presSp, nat := xin.nat, sa := xin.sa }, natP, finP, callP, localP, ⟨?_, hls⟩⟩
    show u32 v ≤ _; rw [u32_small hv]; exact hv
  | updCallSize v =>
    have hv : v ≤ 2 ^ 28 := hop
    refine ⟨{ arch := xin.arch, sr0 := xin.sr0, sr1 := xin.sr1, sr2 := xin.sr2, sr3 := xin.sr3, pres16 := xin.pres16,
              presSp := xin.presSp, nat := xin.nat, sa := xin.sa }, natP, finP, callP, localP, ⟨?_, hls⟩⟩
    show max g.callSize (u32 v) ≤ _; rw [u32_small hv]; omega
  | setLocalAlign v =>
    have hv : P60 v := hop
    show X86Inv { g with localAlign := u8 v, finalAlign := max3 g.natAlign g.callAlign (u8 v) }
    rw [u8_small hv.le]
    have := aligns g.callAlign v (max3 g.natAlign g.callAlign v) callP hv ((natP.max60 callP).max60 hv)
      (by unfold max3; omega)
    exact this
  | setCallAlign v =>
    have hv : P60 v := hop
    show X86Inv { g with callAlign := u8 v, finalAlign := max3 g.natAlign (u8 v) g.localAlign }
    rw [u8_small hv.le]
    exact aligns v g.localAlign (max3 g.natAlign v g.localAlign) hv localP ((natP.max60 hv).max60 localP)
      (by unfold max3; omega)
  | updLocalAlign v =>
    have hv : P60 v := hop
    have hm : P60 (max g.localAlign v) := localP.max hv
    show X86Inv { g with localAlign := u8 (max g.localAlign (u32 v)),
                         finalAlign := max g.finalAlign (u8 (max g.localAlign (u32 v))) }
    rw [u32_small (by have := hv.le; omega), u8_small hm.le]
    exact aligns g.callAlign (max g.localAlign v) (max g.finalAlign (max g.localAlign v)) callP hm (finP.max60 hm) (by omega)
  | updCallAlign v =>
    have hv : P60 v := hop
    have hm : P60 (max g.callAlign v) := callP.max hv
    show X86Inv { g with callAlign := u8 (max g.callAlign (u32 v)),
                         finalAlign := max g.finalAlign (u8 (max g.callAlign (u32 v))) }
    rw [u32_small (by have := hv.le; omega), u8_small hm.le]
    exact aligns (max g.callAlign v) g.localAlign (max g.finalAlign (max g.callAlign v)) hm localP (finP.max60 hm) (by omega)
  | addAttrs a => exact keep _ rfl rfl rfl rfl rfl rfl rfl rfl rfl rfl rfl xin.sa
  | clearAttrs a => exact keep _ rfl rfl rfl rfl rfl rfl rfl rfl rfl rfl rfl xin.sa
  | setDirty gi m =>
    show X86Inv (if gi < 4 then g.setDirtyG gi m else g)
    split
    · exact keep _ rfl rfl rfl rfl rfl rfl rfl rfl rfl rfl rfl xin.sa
    · exact ⟨xin, natP, finP, callP, localP, ⟨hcs, hls⟩⟩
  | addDirty gi m =>
    show X86Inv (if gi < 4 then g.addDirtyG gi m else g)
    split
    · exact keep _ rfl rfl rfl rfl rfl rfl rfl rfl rfl rfl rfl xin.sa
    · exact ⟨xin, natP, finP, callP, localP, ⟨hcs, hls⟩⟩
  | setAllDirty => exact keep _ rfl rfl rfl rfl rfl rfl rfl rfl rfl rfl rfl xin.sa
  | setSaReg r =>
    have hr : r < 16 := hop
    exact keep _ rfl rfl rfl rfl rfl rfl rfl rfl rfl rfl rfl (Or.inr (by show u8 r < 16; rw [u8_small (by omega)]; exact hr))
  | resetSaReg => exact keep _ rfl rfl rfl rfl rfl rfl rfl rfl rfl rfl rfl (Or.inl rfl)
  | resetRedZone => exact keep _ rfl rfl rfl rfl rfl rfl rfl rfl rfl rfl rfl xin.sa
  | updateFuncFrame d0 d1 d2 d3 sa completed =>
    have hsa : ∀ r, sa = some r → r < 16 := hop
    simp only [Frame.apply]
    have h4 : X86Inv ((((g.addDirtyG 0 d0).addDirtyG 1 d1).addDirtyG 2 d2).addDirtyG 3 d3) :=
      X86Inv.addDirtyG _ (X86Inv.addDirtyG _ (X86Inv.addDirtyG _ (X86Inv.addDirtyG g
        ⟨xin, natP, finP, callP, localP, ⟨hcs, hls⟩⟩ 0 d0) 1 d1) 2 d2) 3 d3
    generalize (((g.addDirtyG 0 d0).addDirtyG 1 d1).addDirtyG 2 d2).addDirtyG 3 d3 = g4 at h4
    have hfp4 : g4.arch.fpId = 5 := by rcases h4.xin.arch with e | e <;> simp [e, Arch.fpId]
    cases sa with
    | some r =>
      have hr := hsa r rfl
      exact X86Inv.setSa g4 h4 (u8 r) (Or.inr (by rw [u8_small (by omega)]; exact hr))
    | none =>
      dsimp only
      split
      · exact X86Inv.setSa g4 h4 (u8 g4.arch.fpId) (Or.inr (by rw [hfp4]; decide))
      · exact h4

/-- every frame reachable through the public API satisfies the invariant -/
theorem x86_reachable (g : Frame) (h : X86Inv g) (ops : List FrameOp) (hops : ∀ op ∈ ops, OpOKx86 op) :
    X86Inv (g.applyAll ops) := by
  unfold Frame.applyAll
  induction ops generalizing g with
  | nil => exact h
  | cons op ops ih =>
    simp only [List.foldl_cons]
    exact ih (g.apply op) (x86Inv_apply g h op (hops op (by simp))) (fun o ho => hops o (List.mem_cons_of_mem _ ho))

/-- what the x86 part needs from a convention record -/
structure X86CC (ci : CallConvInfo) : Prop where
  arch : ci.arch = .x86 ∨ ci.arch = .x64
  sr0 : ci.srSize 0 = ci.arch.W ∧ ci.srAlign 0 = ci.arch.W
  sr1 : ci.srSize 1 = 16 ∧ ci.srAlign 1 = 16
  sr2 : ci.srSize 2 = 8 ∧ ci.srAlign 2 = 8
  sr3 : ci.srSize 3 = 8 ∧ ci.srAlign 3 = 8
  pres : ci.preserved 0 < 2 ^ 16
  nat : ci.natAlign = 4 ∨ ci.natAlign = 16

theorem x86CC_builtin (arch : Arch) (harch : arch = .x86 ∨ arch = .x64) (id : Nat) (win : Bool) (ci : CallConvInfo)
    (h : initCallConv arch id win = some ci) : X86CC ci := by
  rcases harch with rfl | rfl <;> simp only [initCallConv] at h <;> (repeat' split at h) <;>
    first
    | (injection h with h; subst h
       refine ⟨?_, ⟨rfl, rfl⟩, ⟨rfl, rfl⟩, ⟨rfl, rfl⟩, ⟨rfl, rfl⟩, ?_, ?_⟩ <;> simp [tbl4] <;> decide)
    | (exact absurd h (by simp))

/-- a custom convention: a built-in one whose preserved masks were replaced (`CallConv::set_preserved_regs`) -/
theorem x86CC_custom (ci : CallConvInfo) (h : X86CC ci) (p : Nat → Nat) (hp : p 0 < 2 ^ 16) : X86CC (ci.withPreserved p) :=
  ⟨h.arch, h.sr0, h.sr1, h.sr2, h.sr3, by
    show (if 0 < 4 then u32 (p 0) else 0) < _
    simp only [Nat.lt_irrefl, if_true, show (0 : Nat) < 4 by omega]
    unfold u32; rw [Nat.mod_eq_of_lt (by omega)]; exact hp, h.nat⟩

theorem x86Inv_init (ci : CallConvInfo) (h : X86CC ci) (used : Nat → Nat) (arg : Nat) : X86Inv (Frame.init ci used arg) := by
  have hsp : ci.arch.spId = 4 := by rcases h.arch with e | e <;> simp [e, Arch.spId]
  have hnat : u8 ci.natAlign = ci.natAlign := by rcases h.nat with e | e <;> rw [e] <;> rfl
  have hP : P6 ci.natAlign := by
    rcases h.nat with e | e <;> rw [e]
    · exact ⟨2, by omega, rfl⟩
    · exact ⟨4, by omega, rfl⟩
  refine ⟨{ arch := h.arch, sr0 := h.sr0, sr1 := h.sr1, sr2 := h.sr2, sr3 := h.sr3, pres16 := ?_, presSp := ?_, nat := ?_,
            sa := Or.inl rfl }, ?_, ?_, Or.inl rfl, Or.inl rfl, ⟨by show (0 : Nat) ≤ _; omega, by show (0 : Nat) ≤ _; omega⟩⟩
  · show clearBit (ci.preserved 0) ci.arch.spId < _
    unfold clearBit; exact Nat.lt_of_le_of_lt Nat.and_le_left h.pres
  · show (clearBit (ci.preserved 0) ci.arch.spId).testBit 4 = false
    rw [hsp]; unfold clearBit
    rw [Nat.testBit_and]
    have : Nat.testBit (2 ^ 32 - 1 - 2 ^ 4) 4 = false := by decide
    rw [this, Bool.and_false]
  · show u8 ci.natAlign ≤ u8 ci.natAlign ∧ u8 (u32 (ci.natAlign * 2)) = 2 * u8 ci.natAlign ∧ ∃ n, u8 ci.natAlign = 2 ^ n
    rcases h.nat with e | e <;> rw [e]
    · exact ⟨Nat.le_refl _, by decide, 2, by decide⟩
    · exact ⟨Nat.le_refl _, by decide, 4, by decide⟩
  · show P6 (u8 ci.natAlign); rw [hnat]; exact hP
  · show P6 (u8 ci.natAlign); rw [hnat]; exact hP

/-- **C07 on x86 for every frame reachable through the public API**: any built-in convention, optionally with
user-set preserved masks (GP mask within the 16 registers), `FuncFrame::init`, then ANY sequence of API calls with
valid arguments (`OpOKx86`), `finalize`, prolog, any confined body, epilog. -/
theorem x86_prolog_body_epilog_api (arch : Arch) (harch : arch = .x86 ∨ arch = .x64) (id : Nat) (win : Bool)
    (ci : CallConvInfo) (hcc : initCallConv arch id win = some ci)
    (ci' : CallConvInfo) (hci' : ci' = ci ∨ ∃ p : Nat → Nat, p 0 < 2 ^ 16 ∧ ci' = ci.withPreserved p)
    (used : Nat → Nat) (arg : Nat) (ops : List FrameOp) (hops : ∀ op ∈ ops, OpOKx86 op) :
    let g := (Frame.init ci' used arg).applyAll ops
    ∀ s0 : St, entryOk g.finalize s0 = true → g.finalize.finalSize + 2 * g.finalAlign ≤ s0.gp 4 → s0.gp 4 < 256 ^ g.arch.W →
      ∃ s1, run g.arch (x86Prolog g.finalize) s0 = some s1 ∧ s1.ret = none
        ∧ bodyEntryOk g.finalize s0 s1 = true
        ∧ (∀ x, s0.gp 4 ≤ x → s1.mem x = s0.mem x)
        ∧ ∀ s2, BodyOK g.finalize (s0.gp 4) s1 s2 →
            ∃ s3, run g.arch (x86Epilog g.finalize) s2 = some s3 ∧ exitOk g.finalize s0 s3 = true ∧ s3.mem = s2.mem := by
  intro g s0 h1 h2 h3
  have hcc0 := x86CC_builtin arch harch id win ci hcc
  have hcc' : X86CC ci' := by
    rcases hci' with rfl | ⟨p, hp, rfl⟩
    · exact hcc0
    · exact x86CC_custom ci hcc0 p hp
  have hinv : X86Inv g := x86_reachable _ (x86Inv_init ci' hcc' used arg) ops hops
  exact x86_prolog_body_epilog g hinv.layoutIn hinv.xin s0 h1 h2 h3

/-!
Part 3b: every AArch64 frame reachable through the public API (with fixes/C07-8 no class is excluded any more):
alignments up to 64, any SA register x0 … x30 or `sp`.
-/

def OpOKa64 : FrameOp → Prop
  | .setLocalSize v | .updLocalSize v | .setCallSize v | .updCallSize v => v ≤ 2 ^ 28
  | .setLocalAlign v | .updLocalAlign v | .setCallAlign v | .updCallAlign v => P60 v
  | .setSaReg r => r ≤ 31
  | .updateFuncFrame _ _ _ _ sa _ => ∀ r, sa = some r → r ≤ 31
  | _ => True

structure A64Inv (g : Frame) : Prop where
  ain : A64In g
  finP : P6 g.finalAlign
  callP : P60 g.callAlign
  localP : P60 g.localAlign
  sizes : g.callSize ≤ 2 ^ 28 ∧ g.localSize ≤ 2 ^ 28

theorem A64Inv.layoutIn {g : Frame} (h : A64Inv g) : LayoutIn g := by
  obtain ⟨k, hk, hA⟩ := h.finP
  refine ⟨⟨k, by omega, hA⟩, ?_, by have := h.sizes; omega, by rw [h.ain.sr0.1]; omega⟩
  rcases h.ain.sr1.1 with e | e
  · exact ⟨3, by omega, e⟩
  · exact ⟨4, by omega, e⟩

/-- the invariant only looks at convention data, alignments, sizes and the SA register -/
theorem A64Inv.of_same (g g' : Frame) (h : A64Inv g) (e1 : g'.arch = g.arch) (e2 : g'.srSize = g.srSize)
    (e3 : g'.srAlign = g.srAlign) (e4 : g'.preserved = g.preserved) (e5 : g'.natAlign = g.natAlign)
    (e6 : g'.minDynAlign = g.minDynAlign) (e7 : g'.finalAlign = g.finalAlign) (e8 : g'.callAlign = g.callAlign)
    (e9 : g'.localAlign = g.localAlign) (e10 : g'.callSize = g.callSize) (e11 : g'.localSize = g.localSize)
    (e12 : g'.calleeCleanup = g.calleeCleanup)
    (hsa : g'.saRegId = 0xFF ∨ g'.saRegId ≤ 31) : A64Inv g' := by
  obtain ⟨ain, finP, callP, localP, hs⟩ := h
  exact ⟨{ arch := by rw [e1]; exact ain.arch, sr0 := by rw [e2, e3]; exact ain.sr0, sr1 := by rw [e2, e3]; exact ain.sr1,
           sr23 := by rw [e2, e3]; exact ain.sr23, presSp := by rw [e4]; exact ain.presSp, presLr := by rw [e4]; exact ain.presLr,
           pres23 := by rw [e4]; exact ain.pres23, nat := by rw [e5, e6, e7]; exact ain.nat, sa := hsa,
           cleanup := by rw [e12]; exact ain.cleanup },
         by rw [e7]; exact finP, by rw [e8]; exact callP, by rw [e9]; exact localP, by rw [e10, e11]; exact hs⟩

theorem A64Inv.addDirtyG (g : Frame) (h : A64Inv g) (i m : Nat) : A64Inv (g.addDirtyG i m) :=
  A64Inv.of_same g _ h rfl rfl rfl rfl rfl rfl rfl rfl rfl rfl rfl rfl h.ain.sa

theorem A64Inv.setSa (g : Frame) (h : A64Inv g) (r : Nat) (hr : r = 0xFF ∨ r ≤ 31) : A64Inv { g with saRegId := r } :=
  A64Inv.of_same g _ h rfl rfl rfl rfl rfl rfl rfl rfl rfl rfl rfl rfl hr

theorem a64Inv_apply (g : Frame) (h : A64Inv g) (op : FrameOp) (hop : OpOKa64 op) : A64Inv (g.apply op) := by
  have hsa := h.ain.sa
  obtain ⟨hN, hM, hA16⟩ := h.ain.nat
  have hcP := h.callP
  have hlP := h.localP
  have hfP := h.finP
  have hnP : P6 g.natAlign := by rw [hN]; exact ⟨4, by omega, rfl⟩
  have aligns : ∀ (c l fa : Nat), P60 c → P60 l → P6 fa → 16 ≤ fa →
      A64Inv { g with callAlign := c, localAlign := l, finalAlign := fa } := by
    intro c l fa hc hl hfa h16
    obtain ⟨ain, _, _, _, hs⟩ := h
    exact ⟨{ arch := ain.arch, sr0 := ain.sr0, sr1 := ain.sr1, sr23 := ain.sr23, presSp := ain.presSp, presLr := ain.presLr,
             pres23 := ain.pres23, nat := ⟨hN, hM, h16⟩, sa := ain.sa, cleanup := ain.cleanup }, hfa, hc, hl, hs⟩
  have sizes : ∀ (c l : Nat), c ≤ 2 ^ 28 → l ≤ 2 ^ 28 → A64Inv { g with callSize := c, localSize := l } := by
    intro c l hc hl
    obtain ⟨ain, fP, cP, lP, _⟩ := h
    exact ⟨{ arch := ain.arch, sr0 := ain.sr0, sr1 := ain.sr1, sr23 := ain.sr23, presSp := ain.presSp, presLr := ain.presLr,
             pres23 := ain.pres23, nat := ain.nat, sa := ain.sa, cleanup := ain.cleanup }, fP, cP, lP, ⟨hc, hl⟩⟩
  obtain ⟨hcs, hls⟩ := h.sizes
  cases op with
  | setLocalSize v =>
    have hv : v ≤ 2 ^ 28 := hop
    exact sizes g.callSize (u32 v) hcs (by rw [u32_small hv]; exact hv)
  | updLocalSize v =>
    have hv : v ≤ 2 ^ 28 := hop
    exact sizes g.callSize (max g.localSize (u32 v)) hcs (by rw [u32_small hv]; omega)
  | setCallSize v =>
    have hv : v ≤ 2 ^ 28 := hop
    exact sizes (u32 v) g.localSize (by rw [u32_small hv]; exact hv) hls
  | updCallSize v =>
    have hv : v ≤ 2 ^ 28 := hop
    exact sizes (max g.callSize (u32 v)) g.localSize (by rw [u32_small hv]; omega) hls
  | setLocalAlign v =>
    have hv : P60 v := hop
    show A64Inv { g with localAlign := u8 v, finalAlign := max3 g.natAlign g.callAlign (u8 v) }
    rw [u8_small hv.le]
    exact aligns g.callAlign v _ hcP hv ((hnP.max60 hcP).max60 hv) (by unfold max3; omega)
  | setCallAlign v =>
    have hv : P60 v := hop
    show A64Inv { g with callAlign := u8 v, finalAlign := max3 g.natAlign (u8 v) g.localAlign }
    rw [u8_small hv.le]
    exact aligns v g.localAlign _ hv hlP ((hnP.max60 hv).max60 hlP) (by unfold max3; omega)
  | updLocalAlign v =>
    have hv : P60 v := hop
    have hm := hlP.max hv
    show A64Inv { g with localAlign := u8 (max g.localAlign (u32 v)),
                         finalAlign := max g.finalAlign (u8 (max g.localAlign (u32 v))) }
    rw [u32_small (by have := hv.le; omega), u8_small hm.le]
    exact aligns g.callAlign _ _ hcP hm (hfP.max60 hm) (by omega)
  | updCallAlign v =>
    have hv : P60 v := hop
    have hm := hcP.max hv
    show A64Inv { g with callAlign := u8 (max g.callAlign (u32 v)),
                         finalAlign := max g.finalAlign (u8 (max g.callAlign (u32 v))) }
    rw [u32_small (by have := hv.le; omega), u8_small hm.le]
    exact aligns _ g.localAlign _ hm hlP (hfP.max60 hm) (by omega)
  | addAttrs a => exact A64Inv.of_same g _ h rfl rfl rfl rfl rfl rfl rfl rfl rfl rfl rfl rfl hsa
  | clearAttrs a => exact A64Inv.of_same g _ h rfl rfl rfl rfl rfl rfl rfl rfl rfl rfl rfl rfl hsa
  | setDirty gi m =>
    show A64Inv (if gi < 4 then g.setDirtyG gi m else g)
    split
    · exact A64Inv.of_same g _ h rfl rfl rfl rfl rfl rfl rfl rfl rfl rfl rfl rfl hsa
    · exact h
  | addDirty gi m =>
    show A64Inv (if gi < 4 then g.addDirtyG gi m else g)
    split
    · exact A64Inv.addDirtyG g h gi m
    · exact h
  | setAllDirty => exact A64Inv.of_same g _ h rfl rfl rfl rfl rfl rfl rfl rfl rfl rfl rfl rfl hsa
  | setSaReg r =>
    have hr : r ≤ 31 := hop
    exact A64Inv.setSa g h (u8 r) (Or.inr (by rw [u8_small (by omega)]; exact hr))
  | resetSaReg => exact A64Inv.setSa g h 0xFF (Or.inl rfl)
  | resetRedZone => exact A64Inv.of_same g _ h rfl rfl rfl rfl rfl rfl rfl rfl rfl rfl rfl rfl hsa
  | updateFuncFrame d0 d1 d2 d3 sa completed =>
    have hs : ∀ r, sa = some r → r ≤ 31 := hop
    simp only [Frame.apply]
    have h4 : A64Inv ((((g.addDirtyG 0 d0).addDirtyG 1 d1).addDirtyG 2 d2).addDirtyG 3 d3) :=
      A64Inv.addDirtyG _ (A64Inv.addDirtyG _ (A64Inv.addDirtyG _ (A64Inv.addDirtyG g h 0 d0) 1 d1) 2 d2) 3 d3
    generalize (((g.addDirtyG 0 d0).addDirtyG 1 d1).addDirtyG 2 d2).addDirtyG 3 d3 = g4 at h4
    have hfpid : g4.arch.fpId = 29 := by rw [h4.ain.arch]; rfl
    cases sa with
    | some r =>
      have hr := hs r rfl
      exact A64Inv.setSa g4 h4 (u8 r) (Or.inr (by rw [u8_small (by omega)]; exact hr))
    | none =>
      dsimp only
      split
      · exact A64Inv.setSa g4 h4 (u8 g4.arch.fpId) (Or.inr (by rw [hfpid]; decide))
      · exact h4

theorem a64_reachable (g : Frame) (h : A64Inv g) (ops : List FrameOp) (hops : ∀ op ∈ ops, OpOKa64 op) :
    A64Inv (g.applyAll ops) := by
  unfold Frame.applyAll
  induction ops generalizing g with
  | nil => exact h
  | cons op ops ih =>
    simp only [List.foldl_cons]
    exact ih (g.apply op) (a64Inv_apply g h op (hops op (by simp))) (fun o ho => hops o (List.mem_cons_of_mem _ ho))

/-- what the AArch64 part needs from a convention record -/
structure A64CC (ci : CallConvInfo) : Prop where
  arch : ci.arch = .a64
  sr0 : ci.srSize 0 = 8 ∧ ci.srAlign 0 = 16
  sr1 : (ci.srSize 1 = 8 ∨ ci.srSize 1 = 16) ∧ ci.srAlign 1 = 16
  sr23 : ci.srSize 2 = 0 ∧ ci.srSize 3 = 0 ∧ ci.srAlign 2 = 8 ∧ ci.srAlign 3 = 1
  presLr : (ci.preserved 0).testBit 30 = true
  pres23 : ∀ gi, 2 ≤ gi → ci.preserved gi = 0
  nat : ci.natAlign = 16
  pops : ci.calleePops = false

theorem a64CC_builtin (id : Nat) (win : Bool) (ci : CallConvInfo) (h : initCallConv .a64 id win = some ci) : A64CC ci := by
  simp only [initCallConv] at h
  split at h <;> injection h with h <;> subst h <;>
    exact ⟨rfl, ⟨rfl, rfl⟩, ⟨by decide, rfl⟩, ⟨rfl, rfl, rfl, rfl⟩, by decide,
      fun gi hgi => by match gi, hgi with | 2, _ => rfl | 3, _ => rfl | gi + 4, _ => rfl, rfl, rfl⟩

/-- a custom AArch64 convention: other preserved masks, the link register still callee-saved -/
theorem a64CC_custom (ci : CallConvInfo) (h : A64CC ci) (p : Nat → Nat) (hp : (u32 (p 0)).testBit 30 = true)
    (hp2 : p 2 = 0 ∧ p 3 = 0) : A64CC (ci.withPreserved p) :=
  ⟨h.arch, h.sr0, h.sr1, h.sr23, hp, fun gi hgi => by
    show (if gi < 4 then u32 (p gi) else 0) = 0
    split
    · have : gi = 2 ∨ gi = 3 := by omega
      rcases this with e | e <;> subst e
      · rw [hp2.1]; rfl
      · rw [hp2.2]; rfl
    · rfl, h.nat, h.pops⟩

theorem a64Inv_init (ci : CallConvInfo) (h : A64CC ci) (used : Nat → Nat) (arg : Nat) : A64Inv (Frame.init ci used arg) := by
  have hsp : ci.arch.spId = 31 := by rw [h.arch]; rfl
  have hnat : u8 ci.natAlign = 16 := by rw [h.nat]; rfl
  refine ⟨{ arch := h.arch, sr0 := h.sr0, sr1 := h.sr1, sr23 := h.sr23, presSp := ?_, presLr := ?_, pres23 := ?_, nat := ?_,
            sa := Or.inl rfl, cleanup := ?_ }, ?_, Or.inl rfl, Or.inl rfl, ⟨by show (0 : Nat) ≤ _; omega, by show (0 : Nat) ≤ _; omega⟩⟩
  · show (clearBit (ci.preserved 0) ci.arch.spId).testBit 31 = false
    rw [hsp]; unfold clearBit
    rw [Nat.testBit_and]
    have : Nat.testBit (2 ^ 32 - 1 - 2 ^ 31) 31 = false := by decide
    rw [this, Bool.and_false]
  · show (clearBit (ci.preserved 0) ci.arch.spId).testBit 30 = true
    rw [hsp]; unfold clearBit
    rw [Nat.testBit_and, h.presLr]
    decide
  · intro gi hgi
    show (if gi = 0 then _ else ci.preserved gi) = 0
    rw [if_neg (by omega)]; exact h.pres23 gi hgi
  · show u8 ci.natAlign = 16 ∧ u8 (u32 (ci.natAlign * 2)) = 32 ∧ 16 ≤ u8 ci.natAlign
    rw [h.nat]; decide
  · show (if ci.calleePops then _ else 0) = 0
    rw [h.pops]; rfl
  · show P6 (u8 ci.natAlign); rw [hnat]; exact ⟨4, by omega, rfl⟩

/-- **C07 on AArch64 for every frame reachable through the public API** (full strength) -/
theorem a64_prolog_body_epilog_api (id : Nat) (win : Bool) (ci : CallConvInfo)
    (hcc : initCallConv .a64 id win = some ci) (ci' : CallConvInfo)
    (hci' : ci' = ci ∨ ∃ p : Nat → Nat, (u32 (p 0)).testBit 30 = true ∧ (p 2 = 0 ∧ p 3 = 0) ∧ ci' = ci.withPreserved p)
    (used : Nat → Nat) (arg : Nat) (ops : List FrameOp) (hops : ∀ op ∈ ops, OpOKa64 op)
    (pro epi : List Instr) :
    let g := (Frame.init ci' used arg).applyAll ops
    a64Prolog g.finalize = some pro → a64Epilog g.finalize = some epi →
    ∀ s0 : St, entryOk g.finalize s0 = true → g.finalize.finalSize + 2 * g.finalAlign ≤ s0.gp 31 → s0.gp 31 < 2 ^ 64 →
      s0.gp 30 < 256 ^ 8 →
      ∃ s1, run .a64 pro s0 = some s1 ∧ s1.ret = none
        ∧ bodyEntryOk g.finalize s0 s1 = true
        ∧ (∀ x, s0.gp 31 ≤ x → s1.mem x = s0.mem x)
        ∧ ∀ s2, BodyOK g.finalize (s0.gp 31) s1 s2 →
            ∃ s3, run .a64 epi s2 = some s3 ∧ exitOk g.finalize s0 s3 = true ∧ s3.mem = s2.mem := by
  intro g hpro hepi s0 h1 h2 h3 h4
  have hcc0 := a64CC_builtin id win ci hcc
  have hcc' : A64CC ci' := by
    rcases hci' with rfl | ⟨p, hp, hp2, rfl⟩
    · exact hcc0
    · exact a64CC_custom ci hcc0 p hp hp2
  have hinv : A64Inv g := a64_reachable _ (a64Inv_init ci' hcc' used arg) ops hops
  exact a64_prolog_body_epilog g hinv.layoutIn hinv.ain pro epi hpro hepi s0 h1 h2 h3 h4

end AsmjitVerif.Frame
