/-
C13 (x86 validation leg): the validator model of Model/X86Validate.lean (tied to `InstAPI::validate` by correspondence on
every database instance and its near-miss mutations) accepts every ISA-database form AsmJit implements in the modes the
database allows, and refuses it in a mode the database excludes.

Quantifier: the rows of Gen/X86Forms.lean - one representative instantiation (tools/x86forms.py) per database form of
db/isa_x86.json that the pinned release accepts (vendored lean/implemented_forms.txt), in a mode the form's `arch` allows,
and every instantiation in a mode no form with these operands allows. The tables `_inst_signature_table`,
`_op_signature_table` and the per-instruction rows come from the compiler (Gen/X86Sig.lean). All instantiations (not only
one per form) are judged by the same model in the compiled driver on every run (tools/props/c13.py).
-/
import AsmjitVerif.Gen.X86FormsCheckedAll
namespace AsmjitVerif.C13X86
open AsmjitVerif.X86Validate AsmjitVerif.X86Forms AsmjitVerif.Gen.X86Forms

/-- the constants Model/X86Validate.lean spells out are the compiler's -/
theorem consts_agree : AsmjitVerif.Gen.X86Sig.consts =
    [("avxB16", avxB16), ("avxB32", avxB32), ("avxB64", avxB64), ("avxER", avxER), ("avxK", avxK), ("avxSAE", avxSAE), ("avxZ", avxZ),
     ("kEvex", ifEvex), ("kLock", ifLock), ("kMaxOpCount", 6), ("kRep", ifRep), ("kRepIgnored", ifRepIgnored), ("kVex", ifVex), ("kVirtIdMin", virtIdMin), ("kVsib", ifVsib),
     ("kXAcquire", ifXAcquire), ("kXRelease", ifXRelease), ("modeX64", 2), ("modeX86", 1), ("optER", optER), ("optEvex", optEvex), ("optLock", optLock),
     ("optRep", optRep), ("optRepne", optRepne), ("optRex", optRex), ("optSAE", optSAE), ("optXAcquire", optXAcquire),
     ("optXRelease", optXRelease), ("optZMask", optZMask), ("rtBnd", rtBnd), ("rtControl", rtControl), ("rtDebug", rtDebug),
     ("rtGp16", rtGp16), ("rtGp32", rtGp32), ("rtGp64", rtGp64), ("rtGp8Hi", rtGp8Hi), ("rtGp8Lo", rtGp8Lo), ("rtLabelTag", rtLabelTag),
     ("rtMask", rtMask), ("rtMm", rtMm), ("rtNone", rtNone), ("rtPC", rtPC), ("rtSegment", rtSegment), ("rtSt", rtSt), ("rtTile", rtTile),
     ("rtVec128", rtVec128), ("rtVec256", rtVec256), ("rtVec512", rtVec512)] := by decide

/-- every implemented database form is accepted by strict validation in a mode the database allows -/
theorem sig_covers_db : ∀ c ∈ allowChunks, ∀ row ∈ unpack c, ∃ inst ops, decodeInstance row = some (inst, ops) ∧
    validate AsmjitVerif.Gen.X86Sig.tables inst ops = .ok := by
  intro c hc row hr
  have h := AsmjitVerif.Gen.X86FormsChecked.allow_all c hc
  simp only [allAccepted, List.all_eq_true] at h
  have := h row hr
  unfold accepted at this
  split at this
  · rename_i i ops he; exact ⟨i, ops, he, by simpa using this⟩
  · exact absurd this (by simp)

/-- and refused in a mode the database excludes -/
theorem sig_excludes : ∀ c ∈ excludeChunks, ∀ row ∈ unpack c, ∃ inst ops, decodeInstance row = some (inst, ops) ∧
    validate AsmjitVerif.Gen.X86Sig.tables inst ops ≠ .ok := by
  intro c hc row hr
  have h := AsmjitVerif.Gen.X86FormsChecked.exclude_all c hc
  simp only [allRefused, List.all_eq_true] at h
  have := h row hr
  unfold refused at this
  split at this
  · rename_i i ops he; exact ⟨i, ops, he, by simpa using this⟩
  · exact absurd this (by simp)

-- non-vacuity: there are thousands of rows, and a row decodes to a real instruction
example : 3000 < allowCount ∧ 1000 < excludeCount := by decide
example : (unpack allow0).length = 64 := by decide +kernel
example : ((unpack allow0).head?.bind decodeInstance).any (fun p => p.2 != [] && p.1.id != 0) = true := by decide +kernel

end AsmjitVerif.C13X86
