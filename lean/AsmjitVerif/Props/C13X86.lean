/-
C13 (x86 validation leg): the validator model of Model/X86Validate.lean (tied to `InstAPI::validate` by correspondence on
every database instance and its near-miss mutations) accepts every ISA-database form AsmJit implements in the modes the
database allows, and refuses it in a mode the database excludes.

Quantifier: the rows of Gen/X86Bucket*.lean - one representative instantiation (tools/x86forms.py) per database form of
db/isa_x86.json that the pinned release accepts (vendored lean/implemented_forms.txt), in a mode the form's `arch` allows,
and every instantiation in a mode no form with these operands allows. The tables `_inst_signature_table`,
`_op_signature_table` and the per-instruction rows come from the compiler (Gen/X86Sig.lean). All instantiations (not only
one per form) are judged by the same model in the compiled driver on every run (tools/props/c13.py).
-/
import AsmjitVerif.Gen.X86FormsLink
namespace AsmjitVerif.C13X86
open AsmjitVerif.X86Validate AsmjitVerif.X86Forms AsmjitVerif.Gen.X86FormsLink

/-- the constants Model/X86Validate.lean spells out are the compiler's -/
theorem consts_agree : AsmjitVerif.Gen.X86Sig.consts =
    [("avxB16", avxB16), ("avxB32", avxB32), ("avxB64", avxB64), ("avxER", avxER), ("avxK", avxK), ("avxSAE", avxSAE), ("avxZ", avxZ),
     ("kEvex", ifEvex), ("kLock", ifLock), ("kMaxOpCount", 6), ("kRep", ifRep), ("kRepIgnored", ifRepIgnored), ("kVex", ifVex), ("kVirtIdMin", virtIdMin), ("kVsib", ifVsib),
     ("kXAcquire", ifXAcquire), ("kXRelease", ifXRelease), ("modeX64", 2), ("modeX86", 1), ("optER", optER), ("optEvex", optEvex), ("optLock", optLock),
     ("optRep", optRep), ("optRepne", optRepne), ("optRex", optRex), ("optSAE", optSAE), ("optXAcquire", optXAcquire),
     ("optXRelease", optXRelease), ("optZMask", optZMask), ("rtBnd", rtBnd), ("rtControl", rtControl), ("rtDebug", rtDebug),
     ("rtGp16", rtGp16), ("rtGp32", rtGp32), ("rtGp64", rtGp64), ("rtGp8Hi", rtGp8Hi), ("rtGp8Lo", rtGp8Lo), ("rtLabelTag", rtLabelTag),
     ("rtMask", rtMask), ("rtMm", rtMm), ("rtNone", rtNone), ("rtPC", rtPC), ("rtSegment", rtSegment), ("rtSt", rtSt), ("rtTile", rtTile),
     ("rtVec128", rtVec128), ("rtVec256", rtVec256), ("rtVec512", rtVec512)] := by decide

/-- Every row of every bucket of Gen/X86Bucket*.lean, stated about the validator over the full regenerated tables:
    an implemented database form instantiated in a mode the database allows (`exp = 1`) is accepted by strict validation,
    an instantiation in a mode no form with these operands allows is refused. The buckets are proved module by module
    (`bucket_ok`, over a copy of the instruction data) and tied to the tables by `resolvedK`. -/
theorem sig_covers_db_and_excludes : ∀ b ∈ buckets, ∀ row ∈ unpack b.2, ∃ exp rest inst ops,
    row = exp :: rest ∧ decodeInstance rest = some (inst, ops) ∧
    (exp = 1 → validate AsmjitVerif.Gen.X86Sig.tables inst ops = .ok) ∧
    (exp ≠ 1 → validate AsmjitVerif.Gen.X86Sig.tables inst ops ≠ .ok) := by
  intro b hb row hr
  have ⟨h1, h2⟩ := all_ok b hb
  simp only [bucketOk, List.all_eq_true] at h2
  exact rowOk_sound _ _ h1 row (h2 row hr)

-- non-vacuity: there are thousands of rows of both kinds, and a row decodes to a real instruction
example : 3000 < allowCount ∧ 1000 < excludeCount := by decide
example : (buckets.map fun b => (unpack b.2).length).sum = allowCount + excludeCount := by decide +kernel
example : ((unpack AsmjitVerif.Gen.X86Bucket0.rows).head?.bind fun r => decodeInstance (r.drop 1)).any
    (fun p => p.2 != [] && p.1.id != 0) = true := by decide +kernel

end AsmjitVerif.C13X86
