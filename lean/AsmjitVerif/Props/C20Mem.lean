/-
  C20 (third file) — parse-back of x86 memory operands, for ALL operands and flag combinations.

  `x86_mem_parse_back`: for every well-formed x86 memory operand (size the syntax can express, segment < 7, address type ≤ 2,
  shift ≤ 3, base/index registers and label whose *names* the reader can resolve) and every flag combination, the text
  `x86::FormatterInternal::format_operand` produces reads back (Spec reader) to an address expression that agrees with the operand
  given: size, segment, abs/rel, label or base register (incl. `&` home), index·scale, and the displacement as a 64-bit
  two's complement value (sign, hex/dec switch, INT64_MIN, 64-bit absolute addresses).
  `x86_phys_reg_readable` discharges the register hypothesis for every architecturally named register (any emitter, any flags),
  so the theorem is unconditional for physical registers; for virtual registers and labels the hypothesis is the decidable
  "the name resolves and collides with nothing" (evaluated by the monitor on every run).

  `a64_mem_parse_back` is the AArch64 counterpart (offset / pre / post index / register index with extend and shift).
-/
import AsmjitVerif.Lemmas.FormatA64MemRead

namespace AsmjitVerif.Props.C20
open AsmjitVerif.Format AsmjitVerif.FormatText AsmjitVerif.Lemmas.FormatLex AsmjitVerif.Lemmas.FormatX86Mem

set_option maxRecDepth 1000000

/-- every architecturally named x86 register is a name the reader resolves to exactly that register — for every flag
    combination and every emitter state -/
theorem x86_phys_reg_readable (flags : Nat) (env : Env) (harch : env.arch ≠ Arch.a64) (t id : Nat) (n : Str)
    (hp : (t, id, n) ∈ x86Regs) : RegOK env (x86FormatRegister flags env t id) t id :=
  x86_phys_regOK flags env harch t id n hp

theorem x86_mem_text_has_bracket (flags : Nat) (env : Env) (m : X86Mem) : (x86FormatMem flags env m).contains '[' = true := by
  rw [x86FormatMem_eq]
  simp

/-- the text of every well-formed x86 memory operand reads back to the operand given (all flags, all displacements) -/
theorem x86_mem_parse_back (flags : Nat) (env : Env) (harch : env.arch ≠ Arch.a64) (m : X86Mem) (wf : WFX86Mem flags env m) :
    monOperand env (.x86mem m) (formatOperand flags env (.x86mem m)) = true := by
  have htext : formatOperand flags env (.x86mem m) = x86FormatMem flags env m := by
    unfold formatOperand; cases h : env.arch <;> simp_all [x86FormatOperand]
  have hparse : parseOp env (x86FormatMem flags env m) = some (.mem (afterDisp flags env m)) := by
    have : parseOp env (x86FormatMem flags env m) = parseX86Op env (x86FormatMem flags env m) := by
      unfold parseOp; cases h : env.arch <;> simp_all
    rw [this]
    unfold parseX86Op
    simp only [x86_mem_text_has_bracket, if_true, x86_mem_read flags env m wf, Option.map_some]
  unfold monOperand
  rw [htext, hparse]
  simp only [opAgrees]
  exact x86_mem_agrees flags env m wf

/-- the same, stated as: the reader's result is explicit and agrees field by field -/
theorem x86_mem_reads_as (flags : Nat) (env : Env) (m : X86Mem) (wf : WFX86Mem flags env m) :
    ∃ pm, parseX86Mem env (x86FormatMem flags env m) = some pm ∧ memAgrees (denoteX86Mem env m) pm = true :=
  ⟨_, x86_mem_read flags env m wf, x86_mem_agrees flags env m wf⟩

/-! non-vacuity: a concrete well-formed operand `dword ptr fs:[rax+rcx*4-128]`, built from the physical-register lemma -/

def envX64 : Env := { arch := .x64, labels := some [], vregs := none }
def memEx : X86Mem := { size := 4, seg := 5, addrType := 0, base := .reg 6 0, index := some (6, 1), shift := 2, off := -128, bcast := 0, home := false }

theorem memEx_wf (flags : Nat) : WFX86Mem flags envX64 memEx where
  size := Or.inr ⟨("dword", 4), by decide, rfl⟩
  seg := by decide
  addr := by decide
  shift := by decide
  base := x86_phys_regOK _ envX64 (by decide) 6 0 "rax".toList (by decide +kernel)
  index := x86_phys_regOK _ envX64 (by decide) 6 1 "rcx".toList (by decide +kernel)

example : x86FormatMem 0 envX64 memEx = "dword ptr fs:[rax+rcx*4-128]".toList := by decide +kernel
example : x86FormatMem ffHexOffsets envX64 memEx = "dword ptr fs:[rax+rcx*4-0x80]".toList := by decide +kernel
example (flags : Nat) : monOperand envX64 (.x86mem memEx) (formatOperand flags envX64 (.x86mem memEx)) = true :=
  x86_mem_parse_back flags envX64 (by decide) memEx (memEx_wf flags)

/-! ## AArch64 memory operands -/

open AsmjitVerif.Lemmas.FormatA64Mem in
/-- every architecturally named AArch64 register (`w0..w30, wsp, wzr, x0..x30, sp, xzr, b/h/s/d/q0..31`) is a name the reader
    resolves to exactly that register, for every emitter state -/
theorem a64_phys_reg_readable (env : Env) (harch : env.arch = Arch.a64) (t id : Nat) (n : Str) (hp : (t, id, n) ∈ a64Regs) :
    RegOK env (armFormatRegister env t id) t id := a64_phys_regOK env harch t id n hp

open AsmjitVerif.Lemmas.FormatA64Mem in
/-- the text of every well-formed AArch64 memory operand — `[b]`, `[b, off]`, `[b, off]!`, `[b], off` (pre/post index, signed and
    hexadecimal offsets), `[b, x]`, `[b, x ext]`, `[b, x ext n]` (all 14 shift/extend operations incl. amount 0), `[b], x` —
    reads back to the operand given, for every flag combination -/
theorem a64_mem_parse_back (flags : Nat) (env : Env) (harch : env.arch = Arch.a64) (m : A64Mem) (wf : WFA64Mem env m) :
    monOperand env (.a64mem m) (formatOperand flags env (.a64mem m)) = true := by
  have htext : formatOperand flags env (.a64mem m) = a64FormatMem flags env m := by
    unfold formatOperand; rw [harch]; rfl
  have hhead : (a64FormatMem flags env m).head? = some '[' := by unfold a64FormatMem; simp
  have hparse : parseOp env (a64FormatMem flags env m) = some (.mem (finalRes env m)) := by
    unfold parseOp; rw [harch]
    simp only [parseA64Op, hhead, if_true, a64_mem_read flags env m wf, Option.map_some]
  unfold monOperand
  rw [htext, hparse]
  simp only [opAgrees]
  exact a64_mem_agrees env m wf

def envA64 : Env := { arch := .a64, labels := some [], vregs := none }
/-- `[x1, w2 uxtw]` — the operand whose extend the pinned formatter dropped (fixes/C20-1) -/
def memA64Ex : A64Mem := { base := .reg 6 1, index := some (5, 2), shiftOp := 8, shift := 0, off := 0, mode := 0, home := false }

open AsmjitVerif.Lemmas.FormatA64Mem in
theorem memA64Ex_wf : WFA64Mem envA64 memA64Ex where
  base := a64_phys_regOK envA64 rfl 6 1 "x1".toList (by decide +kernel)
  index := a64_phys_regOK envA64 rfl 5 2 "w2".toList (by decide +kernel)
  form := Or.inr (Or.inl ⟨by decide, by decide, by decide, by decide, by decide⟩)

example : a64FormatMem 0 envA64 memA64Ex = "[x1, w2 uxtw]".toList := by decide +kernel
example (flags : Nat) : monOperand envA64 (.a64mem memA64Ex) (formatOperand flags envA64 (.a64mem memA64Ex)) = true :=
  a64_mem_parse_back flags envA64 rfl memA64Ex memA64Ex_wf

end AsmjitVerif.Props.C20
