/-
C01 property theorems, front-end layer, 32-bit mode rows: `front_cls_correct_*32` = the table layer of Props/C01Rows.lean (same regenerated
entries, same `decide +kernel` lemmas) combined with the 32-bit symbolic layer of Props/C01Front32.lean, for every entry whose database form
is available in 32-bit mode.
-/
import AsmjitVerif.Props.C01Rows
import AsmjitVerif.Props.C01Front32
set_option linter.constructorNameAsVariable false
namespace AsmjitVerif.Props.C01
open Spec.X86 Model.X86 AsmjitVerif.Lemmas.X86Parse AsmjitVerif.Gen.X86ClassRows

/-- **front_cls_correct in 32-bit mode (register numbers 0..7, forms available in 32-bit mode), classes VexRvm and VexRvm_Lx, EVEX forms.** For EVERY (instruction row, database form) pair of the regenerated
tables and ALL register numbers 0..31 for which EVEX is needed, the bytes the class emits satisfy the monitor. -/
theorem front_cls_correct_rvm_evex32 (e : Entry) (ch : List Entry) (hch : ch ∈ rvmChunks) (he : e ∈ ch) (hsp : e.rule.space = 2)
    (c : Model.X86.Ctx) (ctx : Spec.X86.Ctx) (reg vvvvv rm : BitVec 32)
    (hpe : c.preferEvex = false) (hk : c.extraId = 0#32) (hm64 : ctx.mode64 = false) (hm32 : (e.rule.modes &&& 1 != 0) = true)
    (hr : reg < 8#32) (hv : vvvvv < 8#32) (hm : rm < 8#32)
    (hev : xR (finalOp e 0x75) 0x80000000#32 reg vvvvv rm 0#32 &&& 0x00D78150#32 ≠ 0#32) :
    ∃ bytes k0 k1 k2, e.kinds = [k0, k1, k2] ∧
      emitVexEvexR c (finalOp e 0x75) 0x80000000#32 (packRegVvvvv reg.toNat vvvvv.toNat) (r32 rm.toNat) 0 0 = .ok bytes ∧
      formOk ctx e.rule [.reg k0 reg.toNat, .reg k1 vvvvv.toNat, .reg k2 rm.toNat] {} bytes = true := by
  have hok : entryOkRvm e = true := by
    have := rvm_entries_ok
    rw [List.all_eq_true] at this
    have h2 := this ch hch
    rw [List.all_eq_true] at h2
    exact h2 e he
  unfold entryOkRvm at hok
  split at hok
  · rename_i f0 f1 f2 k0 k1 k2 hops hkinds
    simp only [Bool.and_eq_true, Bool.or_eq_true, beq_iff_eq] at hok
    obtain ⟨-, hR, hA, -, r0, r1, r2, hS⟩ := hok
    obtain ⟨R, -⟩ := vexRuleOk_spec _ _ hR
    obtain ⟨A, hxop, -⟩ := rowAgreeOk_spec _ _ hA
    obtain ⟨p0, p1, p2, hal⟩ := shapeOk3_spec _ _ _ _ _ _ _ hops hS
    rw [hsp] at A
    obtain ⟨bytes, hb, hf⟩ := vexR_rvm_formOk_evex32 c ctx e.rule (finalOp e 0x75) reg vvvvv rm k0 k1 k2 f0 f1 f2 hpe hk hm64 hm32 hr hv hm hxop hev
      p0 p1 p2 R hsp A r0 r1 r2 (hal _ _ _)
    refine ⟨bytes, k0, k1, k2, hkinds, ?_, hf⟩
    rw [packRegVvvvv_eq reg vvvvv (by bv_decide) (by bv_decide)]
    simpa [r32] using hb
  · simp at hok


/-- **front_cls_correct in 32-bit mode (register numbers 0..7, forms available in 32-bit mode), classes VexRvm and VexRvm_Lx, VEX forms** (register numbers 0..15; VEX3 or VEX2 as the emitter chooses). -/
theorem front_cls_correct_rvm_vex32 (e : Entry) (ch : List Entry) (hch : ch ∈ rvmChunks) (he : e ∈ ch) (hsp : e.rule.space = 1)
    (c : Model.X86.Ctx) (ctx : Spec.X86.Ctx) (reg vvvvv rm : BitVec 32)
    (hpe : c.preferEvex = false) (hk : c.extraId = 0#32) (hm64 : ctx.mode64 = false) (hm32 : (e.rule.modes &&& 1 != 0) = true)
    (hr : reg < 8#32) (hv : vvvvv < 8#32) (hm : rm < 8#32) :
    ∃ bytes k0 k1 k2, e.kinds = [k0, k1, k2] ∧
      emitVexEvexR c (finalOp e 0x75) 0x80000000#32 (packRegVvvvv reg.toNat vvvvv.toNat) (r32 rm.toNat) 0 0 = .ok bytes ∧
      formOk ctx e.rule [.reg k0 reg.toNat, .reg k1 vvvvv.toNat, .reg k2 rm.toNat] {} bytes = true := by
  have hok : entryOkRvm e = true := by
    have := rvm_entries_ok
    rw [List.all_eq_true] at this
    have h2 := this ch hch
    rw [List.all_eq_true] at h2
    exact h2 e he
  unfold entryOkRvm at hok
  split at hok
  · rename_i f0 f1 f2 k0 k1 k2 hops hkinds
    simp only [Bool.and_eq_true, Bool.or_eq_true, beq_iff_eq] at hok
    obtain ⟨-, hR, hA, -, r0, r1, r2, hS⟩ := hok
    obtain ⟨R, -⟩ := vexRuleOk_spec _ _ hR
    obtain ⟨A, hxop, hvx⟩ := rowAgreeOk_spec _ _ hA
    obtain ⟨hll, hmm⟩ := hvx hsp
    obtain ⟨p0, p1, p2, hal⟩ := shapeOk3_spec _ _ _ _ _ _ _ hops hS
    have A' : RowAgree e.rule (finalOp e 0x75) false := by rw [hsp] at A; exact A
    obtain ⟨bytes, hb, hf⟩ := vexR_rvm_formOk_vex32 c ctx e.rule (finalOp e 0x75) reg vvvvv rm k0 k1 k2 f0 f1 f2 hpe hk hm64 hm32 hr hv hm hxop hll hmm
      p0 p1 p2 R hsp A' r0 r1 r2 (hal _ _ _)
    refine ⟨bytes, k0, k1, k2, hkinds, ?_, hf⟩
    rw [packRegVvvvv_eq reg vvvvv (by bv_decide) (by bv_decide)]
    simpa [r32] using hb
  · simp at hok


/-- **front_cls_correct in 32-bit mode (register numbers 0..7, forms available in 32-bit mode), classes VexRm and VexRm_Lx** (EVEX forms with numbers 0..31 when EVEX is needed, VEX forms with numbers 0..15). -/
theorem front_cls_correct_rm32 (e : Entry) (ch : List Entry) (hch : ch ∈ rmChunks) (he : e ∈ ch)
    (c : Model.X86.Ctx) (ctx : Spec.X86.Ctx) (reg rm : BitVec 32)
    (hpe : c.preferEvex = false) (hk : c.extraId = 0#32) (hm64 : ctx.mode64 = false) (hm32 : (e.rule.modes &&& 1 != 0) = true)
    (hids : (e.rule.space = 2 ∧ reg < 8#32 ∧ rm < 8#32 ∧ xR (finalOp e 0x6B) 0x80000000#32 reg 0#32 rm 0#32 &&& 0x00D78150#32 ≠ 0#32) ∨
            (e.rule.space = 1 ∧ reg < 8#32 ∧ rm < 8#32)) :
    ∃ bytes k0 k2, e.kinds = [k0, k2] ∧
      emitVexEvexR c (finalOp e 0x6B) 0x80000000#32 (r32 reg.toNat) (r32 rm.toNat) 0 0 = .ok bytes ∧
      formOk ctx e.rule [.reg k0 reg.toNat, .reg k2 rm.toNat] {} bytes = true := by
  have hok := mem_chunks_ok rm_entries_ok e ch hch he
  unfold entryOkRm at hok
  split at hok
  · rename_i f0 f2 k0 k2 hops hkinds
    simp only [Bool.and_eq_true, Bool.or_eq_true, beq_iff_eq] at hok
    obtain ⟨-, hR, hA, -, r0, r2, hS⟩ := hok
    obtain ⟨R, -⟩ := vexRuleOk_spec _ _ hR
    obtain ⟨A, hxop, hvx⟩ := rowAgreeOk_spec _ _ hA
    obtain ⟨p0, p2, m0, m2⟩ := shapeOk2_spec _ _ _ _ _ hS
    have hal : ∀ i0 i2, alignOps e.rule.oszEff e.rule.ops [.reg k0 i0, .reg k2 i2] = some [(f0, some (.reg k0 i0)), (f2, some (.reg k2 i2))] := by
      intro i0 i2; rw [hops]; exact alignOps2 _ _ _ _ _ (m0 i0) (m2 i2)
    have e0 : reg + ((0#32 : BitVec 32) <<< 7) = reg := by bv_decide
    rcases hids with ⟨hsp, hr, hm, hev⟩ | ⟨hsp, hr, hm⟩
    · rw [hsp] at A
      obtain ⟨bytes, hb, hf⟩ := vexR_rm_formOk_evex32 c ctx e.rule (finalOp e 0x6B) reg rm k0 k2 f0 f2 hpe hk hm64 hm32 hr hm hxop hev p0 p2 R hsp A r0 r2 (hal _ _)
      refine ⟨bytes, k0, k2, hkinds, ?_, hf⟩
      rw [e0] at hb
      simpa [r32] using hb
    · obtain ⟨hll, hmm⟩ := hvx hsp
      have A' : RowAgree e.rule (finalOp e 0x6B) false := by rw [hsp] at A; exact A
      obtain ⟨bytes, hb, hf⟩ := vexR_rm_formOk_vex32 c ctx e.rule (finalOp e 0x6B) reg rm k0 k2 f0 f2 hpe hk hm64 hm32 hr hm hxop hll hmm p0 p2 R hsp A' r0 r2 (hal _ _)
      refine ⟨bytes, k0, k2, hkinds, ?_, hf⟩
      rw [e0] at hb
      simpa [r32] using hb
  · simp at hok


/-- **front_cls_correct in 32-bit mode (register numbers 0..7, forms available in 32-bit mode), classes VexRvmi and VexRvmi_Lx**: for every 8-bit immediate the form admits. -/
theorem front_cls_correct_rvmi32 (e : Entry) (ch : List Entry) (hch : ch ∈ rvmiChunks) (he : e ∈ ch)
    (c : Model.X86.Ctx) (ctx : Spec.X86.Ctx) (reg vvvvv rm : BitVec 32) (imm : BitVec 64)
    (hpe : c.preferEvex = false) (hk : c.extraId = 0#32) (hm64 : ctx.mode64 = false) (hm32 : (e.rule.modes &&& 1 != 0) = true)
    (himm : ∀ f3, e.rule.ops[3]? = some f3 → formOpMatches e.rule.oszEff f3 (.imm imm) = true)
    (hids : (e.rule.space = 2 ∧ reg < 8#32 ∧ vvvvv < 8#32 ∧ rm < 8#32 ∧ xR (finalOp e 0x7C) 0x80000000#32 reg vvvvv rm 0#32 &&& 0x00D78150#32 ≠ 0#32) ∨
            (e.rule.space = 1 ∧ reg < 8#32 ∧ vvvvv < 8#32 ∧ rm < 8#32)) :
    ∃ bytes k0 k1 k2, e.kinds = [k0, k1, k2] ∧
      emitVexEvexR c (finalOp e 0x7C) 0x80000000#32 (packRegVvvvv reg.toNat vvvvv.toNat) (r32 rm.toNat) imm 1 = .ok bytes ∧
      formOk ctx e.rule [.reg k0 reg.toNat, .reg k1 vvvvv.toNat, .reg k2 rm.toNat, .imm imm] {} bytes = true := by
  have hok := mem_chunks_ok rvmi_entries_ok e ch hch he
  unfold entryOkRvmi at hok
  split at hok
  · rename_i f0 f1 f2 f3 k0 k1 k2 hops hkinds
    simp only [Bool.and_eq_true, Bool.or_eq_true, beq_iff_eq] at hok
    obtain ⟨-, hR, hA, -, r0, r1, r2, r3, hib, hS⟩ := hok
    obtain ⟨R, -⟩ := vexRuleOk_spec _ _ hR
    obtain ⟨A, hxop, hvx⟩ := rowAgreeOk_spec _ _ hA
    obtain ⟨p0, p1, p2, m0, m1, m2⟩ := shapeOk3_specB _ _ _ _ _ _ _ hS
    have m3 : formOpMatches e.rule.oszEff f3 (.imm imm) = true := himm f3 (by rw [hops]; rfl)
    have hal : ∀ i0 i1 i2, alignOps e.rule.oszEff e.rule.ops [.reg k0 i0, .reg k1 i1, .reg k2 i2, .imm imm] =
        some [(f0, some (.reg k0 i0)), (f1, some (.reg k1 i1)), (f2, some (.reg k2 i2)), (f3, some (.imm imm))] := by
      intro i0 i1 i2; rw [hops]; exact alignOps4 _ _ _ _ _ _ _ _ _ (m0 i0) (m1 i1) (m2 i2) m3
    rcases hids with ⟨hsp, hr, hv, hm, hev⟩ | ⟨hsp, hr, hv, hm⟩
    · rw [hsp] at A
      obtain ⟨bytes, hb, hf⟩ := vexR_rvmi_formOk_evex32 c ctx e.rule (finalOp e 0x7C) reg vvvvv rm k0 k1 k2 f0 f1 f2 hpe hk hm64 hm32 hr hv hm hxop hev
        p0 p1 p2 R f3 imm r3 hib hsp A r0 r1 r2 (hal _ _ _)
      refine ⟨bytes, k0, k1, k2, hkinds, ?_, hf⟩
      rw [packRegVvvvv_eq reg vvvvv (by bv_decide) (by bv_decide)]
      simpa [r32] using hb
    · obtain ⟨hll, hmm⟩ := hvx hsp
      have A' : RowAgree e.rule (finalOp e 0x7C) false := by rw [hsp] at A; exact A
      obtain ⟨bytes, hb, hf⟩ := vexR_rvmi_formOk_vex32 c ctx e.rule (finalOp e 0x7C) reg vvvvv rm k0 k1 k2 f0 f1 f2 hpe hk hm64 hm32 hr hv hm hxop hll hmm
        p0 p1 p2 R f3 imm r3 hib hsp A' r0 r1 r2 (hal _ _ _)
      refine ⟨bytes, k0, k1, k2, hkinds, ?_, hf⟩
      rw [packRegVvvvv_eq reg vvvvv (by bv_decide) (by bv_decide)]
      simpa [r32] using hb
  · simp at hok


/-- **front_cls_correct in 32-bit mode (register numbers 0..7, forms available in 32-bit mode), classes VexRmi and VexRmi_Lx**. -/
theorem front_cls_correct_rmi32 (e : Entry) (ch : List Entry) (hch : ch ∈ rmiChunks) (he : e ∈ ch)
    (c : Model.X86.Ctx) (ctx : Spec.X86.Ctx) (reg rm : BitVec 32) (imm : BitVec 64)
    (hpe : c.preferEvex = false) (hk : c.extraId = 0#32) (hm64 : ctx.mode64 = false) (hm32 : (e.rule.modes &&& 1 != 0) = true)
    (himm : ∀ f3, e.rule.ops[2]? = some f3 → formOpMatches e.rule.oszEff f3 (.imm imm) = true)
    (hids : (e.rule.space = 2 ∧ reg < 8#32 ∧ rm < 8#32 ∧ xR (finalOp e 0x71) 0x80000000#32 reg 0#32 rm 0#32 &&& 0x00D78150#32 ≠ 0#32) ∨
            (e.rule.space = 1 ∧ reg < 8#32 ∧ rm < 8#32)) :
    ∃ bytes k0 k2, e.kinds = [k0, k2] ∧
      emitVexEvexR c (finalOp e 0x71) 0x80000000#32 (r32 reg.toNat) (r32 rm.toNat) imm 1 = .ok bytes ∧
      formOk ctx e.rule [.reg k0 reg.toNat, .reg k2 rm.toNat, .imm imm] {} bytes = true := by
  have hok := mem_chunks_ok rmi_entries_ok e ch hch he
  unfold entryOkRmi at hok
  split at hok
  · rename_i f0 f2 f3 k0 k2 hops hkinds
    simp only [Bool.and_eq_true, Bool.or_eq_true, beq_iff_eq] at hok
    obtain ⟨-, hR, hA, -, r0, r2, r3, hib, hS⟩ := hok
    obtain ⟨R, -⟩ := vexRuleOk_spec _ _ hR
    obtain ⟨A, hxop, hvx⟩ := rowAgreeOk_spec _ _ hA
    obtain ⟨p0, p2, m0, m2⟩ := shapeOk2_spec _ _ _ _ _ hS
    have m3 : formOpMatches e.rule.oszEff f3 (.imm imm) = true := himm f3 (by rw [hops]; rfl)
    have hal : ∀ i0 i2, alignOps e.rule.oszEff e.rule.ops [.reg k0 i0, .reg k2 i2, .imm imm] =
        some [(f0, some (.reg k0 i0)), (f2, some (.reg k2 i2)), (f3, some (.imm imm))] := by
      intro i0 i2; rw [hops]; exact alignOps3i _ _ _ _ _ _ _ (m0 i0) (m2 i2) m3
    have e0 : reg + ((0#32 : BitVec 32) <<< 7) = reg := by bv_decide
    rcases hids with ⟨hsp, hr, hm, hev⟩ | ⟨hsp, hr, hm⟩
    · rw [hsp] at A
      obtain ⟨bytes, hb, hf⟩ := vexR_rmi_formOk_evex32 c ctx e.rule (finalOp e 0x71) reg rm k0 k2 f0 f2 hpe hk hm64 hm32 hr hm hxop hev p0 p2 R f3 imm r3 hib hsp A r0 r2 (hal _ _)
      refine ⟨bytes, k0, k2, hkinds, ?_, hf⟩
      rw [e0] at hb
      simpa [r32] using hb
    · obtain ⟨hll, hmm⟩ := hvx hsp
      have A' : RowAgree e.rule (finalOp e 0x71) false := by rw [hsp] at A; exact A
      obtain ⟨bytes, hb, hf⟩ := vexR_rmi_formOk_vex32 c ctx e.rule (finalOp e 0x71) reg rm k0 k2 f0 f2 hpe hk hm64 hm32 hr hm hxop hll hmm p0 p2 R f3 imm r3 hib hsp A' r0 r2 (hal _ _)
      refine ⟨bytes, k0, k2, hkinds, ?_, hf⟩
      rw [e0] at hb
      simpa [r32] using hb
  · simp at hok


end AsmjitVerif.Props.C01
