/-
C01 property theorems, front-end layer, LEGACY register forms in 32-bit mode: the assembler runs with the forced instruction option
`kX86_InvalidRex` (0x80000000), register numbers 0..7, opcode words without REX.W; no REX byte is written, and the decoder (`parse false`)
does not read one (40..4F are INC / DEC there).
-/
import AsmjitVerif.Props.C01Rows
set_option linter.constructorNameAsVariable false
set_option linter.unusedSimpArgs false
set_option linter.unusedVariables false
namespace AsmjitVerif.Props.C01
open Spec.X86 Model.X86 AsmjitVerif.Lemmas.X86Parse AsmjitVerif.Gen.X86ClassRows

theorem emitX86R_bytes32 (opcode opReg rbReg : BitVec 32) (imm : BitVec 64) (n : Nat)
    (hopc : opcode &&& 0xFF801C00#32 = 0#32) (ho : opReg < 8#32) (hb : rbReg < 8#32) :
    emitX86R opcode 0x80000000#32 opReg rbReg imm n =
      .ok (ppBytes ((opcode >>> 21) &&& 3#32).toNat ++ legacyEscape ((opcode >>> 8) &&& 3#32).toNat ++
           [opcode.truncate 8, modrmRR opReg rbReg] ++ emitImmediate imm n) := by
  have hrex : ¬ (extractRex opcode 0x80000000#32 ||| ((opReg &&& 8#32) >>> 1) ||| ((rbReg &&& 8#32) >>> 3)) > 0x80#32 := by
    simp only [extractRex]; bv_decide
  have hz : ((extractRex opcode 0x80000000#32 ||| ((opReg &&& 8#32) >>> 1) ||| ((rbReg &&& 8#32) >>> 3)) &&& 0x7F#32 != 0#32) = false := by
    simp only [extractRex, bne_eq_false_iff_eq]; bv_decide
  simp only [emitX86R, emitRex, hrex, hz, ↓reduceIte, bind, Except.bind, pure, Except.pure, Bool.false_eq_true,
    emitPP_eq opcode (by bv_decide), emitMM_eq opcode (by bv_decide), modrmRR]
  simp

/-- `EmitX86R` in 32-bit mode: the bytes parse (32-bit decoder) into fields spelling (reg, rm), for ALL register numbers 0..7 -/
theorem x86R_parsed32 (rule : Rule) (opcode opReg rbReg : BitVec 32) (imm : BitVec 64) (n : Nat)
    (hopc : opcode &&& 0xFF801C00#32 = 0#32) (ho : opReg < 8#32) (hb : rbReg < 8#32)
    (R : LegRule rule n ((opcode >>> 21) &&& 3#32).toNat) (A : LegAgree rule opcode) :
    ∃ bytes p, emitX86R opcode 0x80000000#32 opReg rbReg imm n = .ok bytes ∧ parse false rule bytes = .ok p ∧
      LegParsed rule p (modrmRR opReg rbReg) ((opcode >>> 21) &&& 3#32).toNat ∧
      regNum false p.R (bits (modrmRR opReg rbReg) 3 3) = opReg.toNat ∧
      regNum false p.B (bits (modrmRR opReg rbReg) 0 3) = rbReg.toNat ∧ p.imm = emitImmediate imm n := by
  obtain ⟨hop, hmap, hw, hsafe⟩ := A
  have hmodb := modrmRR_mod opReg rbReg
  have hlen : (emitImmediate imm n).length = rule.immBytes + rule.relBytes := by
    rw [(imm_le_exact imm n).1, R.himm, R.hrel]; rfl
  have hpplt : ((opcode >>> 21) &&& 3#32).toNat < 4 := by
    have : (opcode >>> 21) &&& 3#32 < 4#32 := by bv_decide
    simpa [BitVec.lt_def] using this
  have hmaplt : rule.map < 4 := by
    rw [hmap]
    have : (opcode >>> 8) &&& 3#32 < 4#32 := by bv_decide
    simpa [BitVec.lt_def] using this
  have hoH : rule.map = 0 → isLegacyPrefix (opcode.truncate 8) false = false ∧
      (false = true → (none : Option (BitVec 8)) = none → (opcode.truncate 8 : BitVec 8).toNat / 16 ≠ 4) := by
    intro hm0
    have hm0' : (opcode >>> 8) &&& 3#32 = 0#32 := by
      apply BitVec.eq_of_toNat_eq; rw [← hmap, hm0]; rfl
    exact ⟨(hsafe hm0').1, fun h => by cases h⟩
  have hparse := parse_legacy_reg false rule _ none (opcode.truncate 8) (modrmRR opReg rbReg) (emitImmediate imm n)
    (by simp) hpplt R.hs R.hpp8 hmaplt (by rcases R.hmk with h | h <;> simp [h]) (by intro b h; cases h) hoH hmodb hlen R.hmoff
  rw [hmap] at hparse
  simp only [Option.toList, List.append_nil] at hparse
  refine ⟨_, _, emitX86R_bytes32 opcode opReg rbReg imm n hopc ho hb, hparse, ⟨rfl, rfl, rfl, hmodb, ?_, ?_, rfl⟩, ?_, ?_, rfl⟩
  · show (opcode.truncate 8 : BitVec 8).toNat = rule.opcode
    rw [hop]; exact toNat_eq_of_zext _ _ (by omega) (by bv_decide)
  · rcases hw with h | h
    · exact Or.inl h
    · right
      have hc : (opcode >>> 27) &&& 1#32 = 0#32 := by bv_decide
      simp only [rexBit]
      rw [h, hc]; simp
  · simp only [rexBit]
    exact regNum_eq _ _ _ opReg (by simp only [modrmRR, encodeMod]; simp; bv_decide)
  · simp only [rexBit]
    exact regNum_eq _ _ _ rbReg (by simp only [modrmRR, encodeMod]; simp; bv_decide)

/-- legacy shape [reg-field operand, rm-field operand] in either operand order, 32-bit mode -/
theorem legR_2reg_formOk32 (ctx : Spec.X86.Ctx) (rule : Rule) (opcode opReg rbReg : BitVec 32) (ka kb : RegKind) (fa fb : FormOp)
    (hm32 : ctx.mode64 = false) (hmode : (rule.modes &&& 1 != 0) = true) (hopc : opcode &&& 0xFF801C00#32 = 0#32) (ho : opReg < 8#32) (hb : rbReg < 8#32)
    (hka : PlainKind ka) (hkb : PlainKind kb)
    (R : LegRule rule 0 ((opcode >>> 21) &&& 3#32).toNat) (A : LegAgree rule opcode)
    (regFirst : Bool)
    (hroles : if regFirst then fa.role = .reg ∧ fb.role = .rm else fa.role = .rm ∧ fb.role = .reg)
    (hal : ∀ ia ib, alignOps rule.oszEff rule.ops [.reg ka ia, .reg kb ib] = some [(fa, some (.reg ka ia)), (fb, some (.reg kb ib))]) :
    ∃ bytes, emitX86R opcode 0x80000000#32 opReg rbReg 0 0 = .ok bytes ∧
      formOk ctx rule (if regFirst then [.reg ka opReg.toNat, .reg kb rbReg.toNat] else [.reg ka rbReg.toNat, .reg kb opReg.toNat]) {} bytes = true := by
  obtain ⟨bytes, p, hb', hp, P, h0, h1, -⟩ := x86R_parsed32 rule opcode opReg rbReg 0 0 hopc ho hb R A
  refine ⟨bytes, hb', ?_⟩
  cases regFirst with
  | true =>
    simp only [↓reduceIte] at hroles ⊢
    exact leg_2reg_formOk ctx rule p _ bytes _ ka kb fa fb _ _ (by simpa [hm32] using hmode) hka hkb R (Or.inl ⟨hroles.1, hroles.2, h0, h1⟩) (hal _ _) (by rw [hm32]; exact hp) P
  | false =>
    simp only [Bool.false_eq_true, ↓reduceIte] at hroles ⊢
    exact leg_2reg_formOk ctx rule p _ bytes _ ka kb fa fb _ _ (by simpa [hm32] using hmode) hka hkb R (Or.inr ⟨hroles.1, hroles.2, h1, h0⟩) (hal _ _) (by rw [hm32]; exact hp) P

/-- legacy shape [reg, rm, imm8], 32-bit mode -/
theorem legR_2reg_imm_formOk32 (ctx : Spec.X86.Ctx) (rule : Rule) (opcode opReg rbReg : BitVec 32) (ka kb : RegKind) (fa fb f3 : FormOp) (imm : BitVec 64)
    (hm32 : ctx.mode64 = false) (hmode : (rule.modes &&& 1 != 0) = true) (hopc : opcode &&& 0xFF801C00#32 = 0#32) (ho : opReg < 8#32) (hb : rbReg < 8#32)
    (hka : PlainKind ka) (hkb : PlainKind kb)
    (R : LegRule rule 1 ((opcode >>> 21) &&& 3#32).toNat) (A : LegAgree rule opcode)
    (hra : fa.role = .reg) (hrb : fb.role = .rm) (hf3 : f3.role = .imm) (hib : immBitsOf f3 = 8) (hsg : (immSignOf f3 == 1) = false)
    (hal : ∀ ia ib, alignOps rule.oszEff rule.ops [.reg ka ia, .reg kb ib, .imm imm] =
      some [(fa, some (.reg ka ia)), (fb, some (.reg kb ib)), (f3, some (.imm imm))]) :
    ∃ bytes, emitX86R opcode 0x80000000#32 opReg rbReg imm 1 = .ok bytes ∧
      formOk ctx rule [.reg ka opReg.toNat, .reg kb rbReg.toNat, .imm imm] {} bytes = true := by
  obtain ⟨bytes, p, hb', hp, P, h0, h1, hi⟩ := x86R_parsed32 rule opcode opReg rbReg imm 1 hopc ho hb R A
  refine ⟨bytes, hb', ?_⟩
  exact leg_2reg_imm_formOk ctx rule p _ bytes _ ka kb fa fb _ _ (by simpa [hm32] using hmode) hka hkb R f3 imm hf3 hib hsg (by simp [hi, emitImmediate])
    (Or.inl ⟨hra, hrb, h0, h1⟩) (hal _ _) (by rw [hm32]; exact hp) P

/-! ### table layer: the same regenerated (row, form) pairs; a pair available in 32-bit mode has an opcode word without REX.W -/

def noRexW32 (e : Entry) : Bool := e.rule.modes &&& 1 == 0 || finalOpLeg e &&& 0x08000000#32 == 0#32

theorem lrm_norexw : lrmChunks.all (fun c => c.all noRexW32) = true := by decide +kernel
theorem lmr_norexw : lmrChunks.all (fun c => c.all noRexW32) = true := by decide +kernel
theorem lrmi_norexw : lrmiChunks.all (fun c => c.all noRexW32) = true := by decide +kernel

theorem hopc32 (e : Entry) (h : noRexW32 e = true) (hm : (e.rule.modes &&& 1 != 0) = true) (hmask : finalOpLeg e &&& 0xF7801C00#32 = 0#32) :
    finalOpLeg e &&& 0xFF801C00#32 = 0#32 := by
  simp only [noRexW32, Bool.or_eq_true, beq_iff_eq] at h
  rcases h with h | h
  · simp [h] at hm
  · generalize finalOpLeg e = op at *; bv_decide

/-- **front_cls_correct, legacy classes X86Rm, X86Rm_NoSize, ExtRm, ExtRm_P, 32-bit mode** (register numbers 0..7) -/
theorem front_cls_correct_lrm32 (e : Entry) (ch : List Entry) (hch : ch ∈ lrmChunks) (he : e ∈ ch)
    (ctx : Spec.X86.Ctx) (r0 r1 : BitVec 32) (hm32 : ctx.mode64 = false) (hmode : (e.rule.modes &&& 1 != 0) = true) (h0 : r0 < 8#32) (h1 : r1 < 8#32) :
    ∃ bytes k0 k1, e.kinds = [k0, k1] ∧ emitX86R (finalOpLeg e) 0x80000000#32 r0 r1 0 0 = .ok bytes ∧
      formOk ctx e.rule [.reg k0 r0.toNat, .reg k1 r1.toNat] {} bytes = true := by
  have hok := mem_chunks_ok lrm_entries_ok e ch hch he
  have hw := mem_chunks_ok lrm_norexw e ch hch he
  unfold entryOkLrm at hok
  split at hok
  · rename_i f0 f1 k0 k1 hops hkinds
    simp only [Bool.and_eq_true, beq_iff_eq] at hok
    obtain ⟨-, hR, hA, ra, rb, hS⟩ := hok
    obtain ⟨A, hmask⟩ := legAgreeOk_spec _ _ hA
    obtain ⟨p0, p1, m0, m1⟩ := shapeOk2_spec _ _ _ _ _ hS
    obtain ⟨bytes, hb, hf⟩ := legR_2reg_formOk32 ctx e.rule (finalOpLeg e) r0 r1 k0 k1 f0 f1 hm32 hmode (hopc32 e hw hmode hmask) h0 h1 p0 p1 (legRuleOk_spec _ _ _ hR) A true
      (by simp [ra, rb]) (fun ia ib => by rw [hops]; exact alignOps2 _ _ _ _ _ (m0 ia) (m1 ib))
    exact ⟨bytes, k0, k1, hkinds, hb, by simpa using hf⟩
  · simp at hok

/-- **front_cls_correct, legacy classes X86Mr, X86Mr_NoSize, 32-bit mode** -/
theorem front_cls_correct_lmr32 (e : Entry) (ch : List Entry) (hch : ch ∈ lmrChunks) (he : e ∈ ch)
    (ctx : Spec.X86.Ctx) (r0 r1 : BitVec 32) (hm32 : ctx.mode64 = false) (hmode : (e.rule.modes &&& 1 != 0) = true) (h0 : r0 < 8#32) (h1 : r1 < 8#32) :
    ∃ bytes k0 k1, e.kinds = [k0, k1] ∧ emitX86R (finalOpLeg e) 0x80000000#32 r1 r0 0 0 = .ok bytes ∧
      formOk ctx e.rule [.reg k0 r0.toNat, .reg k1 r1.toNat] {} bytes = true := by
  have hok := mem_chunks_ok lmr_entries_ok e ch hch he
  have hw := mem_chunks_ok lmr_norexw e ch hch he
  unfold entryOkLmr at hok
  split at hok
  · rename_i f0 f1 k0 k1 hops hkinds
    simp only [Bool.and_eq_true, beq_iff_eq] at hok
    obtain ⟨-, hR, hA, ra, rb, hS⟩ := hok
    obtain ⟨A, hmask⟩ := legAgreeOk_spec _ _ hA
    obtain ⟨p0, p1, m0, m1⟩ := shapeOk2_spec _ _ _ _ _ hS
    obtain ⟨bytes, hb, hf⟩ := legR_2reg_formOk32 ctx e.rule (finalOpLeg e) r1 r0 k0 k1 f0 f1 hm32 hmode (hopc32 e hw hmode hmask) h1 h0 p0 p1 (legRuleOk_spec _ _ _ hR) A false
      (by simp [ra, rb]) (fun ia ib => by rw [hops]; exact alignOps2 _ _ _ _ _ (m0 ia) (m1 ib))
    exact ⟨bytes, k0, k1, hkinds, hb, by simpa using hf⟩
  · simp at hok

/-- **front_cls_correct, legacy classes ExtRmi, ExtRmi_P, 32-bit mode** -/
theorem front_cls_correct_lrmi32 (e : Entry) (ch : List Entry) (hch : ch ∈ lrmiChunks) (he : e ∈ ch)
    (ctx : Spec.X86.Ctx) (r0 r1 : BitVec 32) (imm : BitVec 64) (hm32 : ctx.mode64 = false) (hmode : (e.rule.modes &&& 1 != 0) = true)
    (h0 : r0 < 8#32) (h1 : r1 < 8#32)
    (himm : ∀ f3, e.rule.ops[2]? = some f3 → formOpMatches e.rule.oszEff f3 (.imm imm) = true) :
    ∃ bytes k0 k1, e.kinds = [k0, k1] ∧ emitX86R (finalOpLeg e) 0x80000000#32 r0 r1 imm 1 = .ok bytes ∧
      formOk ctx e.rule [.reg k0 r0.toNat, .reg k1 r1.toNat, .imm imm] {} bytes = true := by
  have hok := mem_chunks_ok lrmi_entries_ok e ch hch he
  have hw := mem_chunks_ok lrmi_norexw e ch hch he
  unfold entryOkLrmi at hok
  split at hok
  · rename_i f0 f1 f3 k0 k1 hops hkinds
    simp only [Bool.and_eq_true, beq_iff_eq, Bool.not_eq_true'] at hok
    obtain ⟨-, hR, hA, ra, rb, r3, hib, hsg, hS⟩ := hok
    obtain ⟨A, hmask⟩ := legAgreeOk_spec _ _ hA
    obtain ⟨p0, p1, m0, m1⟩ := shapeOk2_spec _ _ _ _ _ hS
    have m3 : formOpMatches e.rule.oszEff f3 (.imm imm) = true := himm f3 (by rw [hops]; rfl)
    obtain ⟨bytes, hb, hf⟩ := legR_2reg_imm_formOk32 ctx e.rule (finalOpLeg e) r0 r1 k0 k1 f0 f1 f3 imm hm32 hmode (hopc32 e hw hmode hmask) h0 h1 p0 p1 (legRuleOk_spec _ _ _ hR) A
      ra rb r3 hib hsg (fun ia ib => by rw [hops]; exact alignOps3i _ _ _ _ _ _ _ (m0 ia) (m1 ib) m3)
    exact ⟨bytes, k0, k1, hkinds, hb, hf⟩
  · simp at hok

end AsmjitVerif.Props.C01
