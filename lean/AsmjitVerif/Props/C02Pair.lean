/-
C02, end-to-end for load/store pair offsets (kEncodingBaseLdpStp: ldp / stp / ldpsw / stgp with signed-offset, pre- and
post-index forms - OpSpec `.memOff … true scale .byFields` - and ldnp / stnp - `.fixed`): the scaled signed 7-bit field times
the access size is the operand's offset, and the (!post, W) bits select the addressing mode the operand names.
-/
import AsmjitVerif.Props.C02LdSt
import AsmjitVerif.Props.C02Refuse
namespace AsmjitVerif.C02
open AsmjitVerif.A64 AsmjitVerif.A64Asm AsmjitVerif.A64Spec AsmjitVerif.Gen.A64Tables

theorem pair_fields (opcx q rd rd2 rn mask value : BitVec 32)
    (hc : opcx &&& 0x003FFFFF#32 = 0#32) (hm : mask &&& 0x003FFFFF#32 = 0#32) (hv : opcx &&& mask = value)
    (h0 : rd.ult 32#32 = true) (h1 : rd2.ult 32#32 = true) (h2 : rn.ult 32#32 = true) :
    (opcx ||| ((q &&& 0x7F#32) <<< 15) ||| (rd2 <<< 10) ||| (rd <<< 0) ||| (rn <<< 5)) &&& mask = value ∧
    ((opcx ||| ((q &&& 0x7F#32) <<< 15) ||| (rd2 <<< 10) ||| (rd <<< 0) ||| (rn <<< 5)) >>> 0) &&& 31#32 = rd ∧
    ((opcx ||| ((q &&& 0x7F#32) <<< 15) ||| (rd2 <<< 10) ||| (rd <<< 0) ||| (rn <<< 5)) >>> 10) &&& 31#32 = rd2 ∧
    ((opcx ||| ((q &&& 0x7F#32) <<< 15) ||| (rd2 <<< 10) ||| (rd <<< 0) ||| (rn <<< 5)) >>> 5) &&& 31#32 = rn ∧
    ((opcx ||| ((q &&& 0x7F#32) <<< 15) ||| (rd2 <<< 10) ||| (rd <<< 0) ||| (rn <<< 5)) >>> 15) &&& 127#32 = q &&& 0x7F#32 ∧
    ((opcx ||| ((q &&& 0x7F#32) <<< 15) ||| (rd2 <<< 10) ||| (rd <<< 0) ||| (rn <<< 5)) >>> 24) &&& 1#32 = (opcx >>> 24) &&& 1#32 ∧
    ((opcx ||| ((q &&& 0x7F#32) <<< 15) ||| (rd2 <<< 10) ||| (rd <<< 0) ||| (rn <<< 5)) >>> 23) &&& 1#32 = (opcx >>> 23) &&& 1#32 := by
  bv_decide

/-- the signed 7-bit field times the access size is exactly the operand's offset -/
theorem simm7_scaled (q off : BitVec 32) (sh : Nat) (hsh : sh ≤ 4) (hq : q <<< sh = off) (hlo : -64 ≤ q.toInt) (hhi : q.toInt ≤ 63) :
    sext 7 (q &&& 0x7F#32).toNat * ((2 ^ sh : Nat) : Int) = off.toInt := by
  have hand : (q &&& 0x7F#32).toNat = q.toNat % 128 := by
    rw [BitVec.toNat_and]; exact Nat.and_two_pow_sub_one_eq_mod q.toNat 7
  have h3 := congrArg BitVec.toNat hq
  simp only [BitVec.toNat_shiftLeft, Nat.shiftLeft_eq] at h3
  rw [hand]
  rw [BitVec.toInt_eq_toNat_cond] at hlo hhi ⊢
  have hlt := q.isLt
  have hlt2 := off.isLt
  unfold sext
  simp only [show (7 == 0) = false from rfl, Bool.false_eq_true, if_false]
  have : sh = 0 ∨ sh = 1 ∨ sh = 2 ∨ sh = 3 ∨ sh = 4 := by omega
  rcases this with h | h | h | h | h <;> subst h <;> simp at h3 ⊢ <;> (split at hlo <;> split <;> split <;> omega)

/-- the addressing-mode condition of the spec, for the two modes pair forms use -/
def pairModeOk (mm : MemMode) (np wb : Nat) (m : Mem) (disp : Int) : Bool :=
  match mm with
  | .fixed => m.mode == 0 || disp == 0
  | .byFields => (np == 1 && wb == 0 && (m.mode == 0 || disp == 0)) || (np == 1 && wb == 1 && m.mode == 1) || (np == 0 && wb == 1 && m.mode == 2)
  | _ => false

theorem matchOp_memOffPair (c : Ctx) (mm : MemMode) (m : Mem) (rest : List Operand) (field scale np wb : Nat)
    (hw : fieldWidth c.fields "offS" = 7) (ho : c.get "offS" = some field) (hb : c.get "Rn" = some (m.baseId % 32))
    (hnp : mm = .byFields → c.get "!post" = some np ∧ c.get "W" = some wb)
    (h1 : m.baseType = rtGp64) (h2 : m.baseId ≤ 31) (h3 : m.indexType = 0) (h5 : m.off.toInt = sext 7 field * (scale : Int))
    (hmode : pairModeOk mm np wb m (sext 7 field * (scale : Int)) = true) :
    matchOp c (.memOff "Rn" "offS" true scale mm) (.mem m :: rest) = some rest := by
  have hg : gpNumber { rt := rtGp64, id := m.baseId } true = some (m.baseId % 32) := by
    unfold gpNumber
    by_cases hlt : m.baseId < 31
    · simp [hlt]; omega
    · have : m.baseId = 31 := by omega
      simp [this, idSP]
  cases mm with
  | fixed => simp only [pairModeOk] at hmode; simp [matchOp, ho, hb, hw, memBaseOk, h1, h3, h5, hg, hmode]
  | byFields =>
    obtain ⟨g1, g2⟩ := hnp rfl
    simp only [pairModeOk] at hmode
    simp [matchOp, ho, hb, hw, memBaseOk, h1, h3, h5, hg, g1, g2, hmode]
  | pre => simp [pairModeOk] at hmode
  | post => simp [pairModeOk] at hmode

def isPairForm (f : Form) (wd : GpW) (n0 n1 : String) (scale : Nat) (mm : MemMode) (opcx : BitVec 32) : Bool :=
  f.ops == [.gp wd n0 false, .gp wd n1 false, .memOff "Rn" "offS" true scale mm] &&
  f.fields.filter (·.name == n0) == [⟨n0, [⟨0, 0, 5⟩]⟩] &&
  f.fields.filter (·.name == n1) == [⟨n1, [⟨10, 0, 5⟩]⟩] &&
  f.fields.filter (·.name == "Rn") == [⟨"Rn", [⟨5, 0, 5⟩]⟩] &&
  f.fields.filter (·.name == "offS") == [⟨"offS", [⟨15, 0, 7⟩]⟩] &&
  fieldWidth f.fields "offS" == 7 &&
  (mm == .fixed || (mm == .byFields && f.fields.filter (·.name == "!post") == [⟨"!post", [⟨24, 0, 1⟩]⟩] &&
                    f.fields.filter (·.name == "W") == [⟨"W", [⟨23, 0, 1⟩]⟩])) &&
  f.freeFields.isEmpty && decide (f.mask < 2 ^ 32) && decide (f.value < 2 ^ 32) &&
  (BitVec.ofNat 32 f.mask &&& 0x003FFFFF#32 == 0#32) && (opcx &&& BitVec.ofNat 32 f.mask == BitVec.ofNat 32 f.value)

theorem pair_describes (f : Form) (wd : GpW) (n0 n1 : String) (scale : Nat) (mm : MemMode) (opcx q : BitVec 32) (o0 o1 : Reg) (m : Mem)
    (pc : BitVec 64)
    (hf : isPairForm f wd n0 n1 scale mm opcx = true) (hc : opcx &&& 0x003FFFFF#32 = 0#32)
    (h0 : gpOk wd false o0) (h1 : gpOk wd false o1)
    (hb1 : m.baseType = rtGp64) (hb2 : m.baseId ≤ 31) (hb3 : m.indexType = 0)
    (hoff : m.off.toInt = sext 7 (q &&& 0x7F#32).toNat * (scale : Int))
    (hmode : pairModeOk mm ((opcx >>> 24) &&& 1#32).toNat ((opcx >>> 23) &&& 1#32).toNat m (sext 7 (q &&& 0x7F#32).toNat * (scale : Int)) = true) :
    describes f [.reg o0, .reg o1, .mem m] pc
      (opcx ||| ((q &&& 0x7F#32) <<< 15) ||| (BitVec.ofNat 32 (o1.id % 32) <<< 10) ||| (BitVec.ofNat 32 (o0.id % 32) <<< 0) |||
       (BitVec.ofNat 32 (m.baseId % 32) <<< 5)) = true := by
  simp only [isPairForm, Bool.and_eq_true, beq_iff_eq, decide_eq_true_eq] at hf
  obtain ⟨⟨⟨⟨⟨⟨⟨⟨⟨⟨⟨hops, hR0⟩, hR1⟩, hRn⟩, hOf⟩, hwid⟩, hmm⟩, _hfree⟩, hmlt⟩, hvlt⟩, hmk⟩, hv⟩ := hf
  obtain ⟨k1, k2, k3, k4, k5, k6, k7⟩ := pair_fields opcx q (BitVec.ofNat 32 (o0.id % 32)) (BitVec.ofNat 32 (o1.id % 32))
    (BitVec.ofNat 32 (m.baseId % 32)) (BitVec.ofNat 32 f.mask) (BitVec.ofNat 32 f.value) hc hmk hv
    (ofNat_mod32_ult _) (ofNat_mod32_ult _) (ofNat_mod32_ult _)
  generalize hw' : (opcx ||| ((q &&& 0x7F#32) <<< 15) ||| (BitVec.ofNat 32 (o1.id % 32) <<< 10) ||| (BitVec.ofNat 32 (o0.id % 32) <<< 0) |||
       (BitVec.ofNat 32 (m.baseId % 32) <<< 5)) = w at *
  have t : w.toNat &&& f.mask = f.value := by
    rw [toNat_and_mask w f.mask hmlt, k1]; simp [BitVec.toNat_ofNat, Nat.mod_eq_of_lt hvlt]
  have f0 : (w.toNat >>> 0) % 2 ^ 5 = o0.id % 32 := by rw [toNat_field, k2, ofNat_mod32_toNat]
  have f10 : (w.toNat >>> 10) % 2 ^ 5 = o1.id % 32 := by rw [toNat_field, k3, ofNat_mod32_toNat]
  have f5 : (w.toNat >>> 5) % 2 ^ 5 = m.baseId % 32 := by rw [toNat_field, k4, ofNat_mod32_toNat]
  have f15 : (w.toNat >>> 15) % 2 ^ 7 = (q &&& 0x7F#32).toNat := by
    rw [toNat_fieldN w 15 7 (by decide), show (BitVec.ofNat 32 (2 ^ 7 - 1)) = 127#32 from rfl, k5]
  have f24 : (w.toNat >>> 24) % 2 ^ 1 = ((opcx >>> 24) &&& 1#32).toNat := by
    rw [toNat_fieldN w 24 1 (by decide), show (BitVec.ofNat 32 (2 ^ 1 - 1)) = 1#32 from rfl, k6]
  have f23 : (w.toNat >>> 23) % 2 ^ 1 = ((opcx >>> 23) &&& 1#32).toNat := by
    rw [toNat_fieldN w 23 1 (by decide), show (BitVec.ofNat 32 (2 ^ 1 - 1)) = 1#32 from rfl, k7]
  have g0 := ctx_get_single f.fields w.toNat pc f.name n0 0 hR0
  have g10 := ctx_get_single f.fields w.toNat pc f.name n1 10 hR1
  have g5 := ctx_get_single f.fields w.toNat pc f.name "Rn" 5 hRn
  have g15 := ctx_get_one f.fields w.toNat pc f.name "offS" 15 7 hOf
  rw [f0] at g0; rw [f10] at g10; rw [f5] at g5; rw [f15] at g15
  have m0 := matchOp_gp _ wd n0 false o0 [.reg o1, .mem m] g0 h0
  have m1 := matchOp_gp _ wd n1 false o1 [.mem m] g10 h1
  have hnp : mm = .byFields → ({ fields := f.fields, w := w.toNat, pc := pc, name := f.name } : Ctx).get "!post" = some ((opcx >>> 24) &&& 1#32).toNat ∧
      ({ fields := f.fields, w := w.toNat, pc := pc, name := f.name } : Ctx).get "W" = some ((opcx >>> 23) &&& 1#32).toNat := by
    intro hbf
    subst hbf
    have hmm' := hmm
    simp only [show (MemMode.byFields == MemMode.fixed) = false from rfl, show (MemMode.byFields == MemMode.byFields) = true from rfl,
      Bool.false_or, Bool.true_and, Bool.and_eq_true, beq_iff_eq] at hmm'
    have a := ctx_get_one f.fields w.toNat pc f.name "!post" 24 1 hmm'.1
    have b := ctx_get_one f.fields w.toNat pc f.name "W" 23 1 hmm'.2
    rw [f24] at a; rw [f23] at b
    exact ⟨a, b⟩
  have m2 := matchOp_memOffPair { fields := f.fields, w := w.toNat, pc := pc, name := f.name } mm m [] (q &&& 0x7F#32).toNat scale _ _
    hwid g15 g5 hnp hb1 hb2 hb3 hoff hmode
  simp only [describes, Form.matchesTemplate, t, hops, matchOps, m0, m1, m2]
  simp

/-- the three opcode variants of a pair instruction: 0 signed offset, 1 pre-index, 2 post-index -/
def pairOp (d : BaseLdpStpRow) (k : Nat) : BitVec 32 :=
  if k == 0 then w32 d.offset_op <<< 22 else (w32 d.pre_post_op <<< 22) ||| addImm (if k == 1 then 1 else 0) 24

def pairNpWb (k : Nat) : Nat × Nat := if k == 0 then (1, 0) else if k == 1 then (1, 1) else (0, 1)

def pairRowOk (name : String) (d : BaseLdpStpRow) : Bool :=
  decide (d.reg_type ≤ 3) && name != "mov" &&
  [rtGp32, rtGp64].all fun rt =>
    !checkGpType { rt := rt, id := 0 } d.reg_type ||
    (let x := xOf { rt := rt, id := 0 } d.reg_type
     decide (d.offset_shift + x ≤ 4) &&
     (if d.pre_post_op == 0 then [0] else [0, 1, 2]).all fun k =>
       let opcx := pairOp d k ||| addImm x d.x_offset
       (opcx &&& 0x003FFFFF#32 == 0#32) &&
       (formsNamed name).any fun f => ["Rd", "Rs", "Rt"].any fun n0 => ["Rd2", "Rs2", "Rt2"].any fun n1 =>
         [MemMode.byFields, MemMode.fixed].any fun mm =>
           isPairForm f (wOfRt rt) n0 n1 (2 ^ (d.offset_shift + x)) mm opcx &&
           (if mm == .fixed then k == 0
            else (((opcx >>> 24) &&& 1#32).toNat, ((opcx >>> 23) &&& 1#32).toNat) == pairNpWb k))

set_option maxRecDepth 1000000 in
theorem rows_baseLdpStp_have_forms :
    instTable.toList.all (fun r => r.enc != encBaseLdpStp ||
      (match baseLdpStp[r.idx]? with
       | some d => pairRowOk r.name d
       | none => false)) = true := by decide +kernel

/-- which variant the model picks -/
def pairVariant (m : Mem) (q : BitVec 32) : Nat := if m.mode != 0 && q != 0 then (if m.mode == 1 then 1 else 2) else 0

theorem ldpStp_accepts_facts (d : BaseLdpStpRow) (o0 o1 : Reg) (m : Mem) (ws : List (BitVec 32))
    (h : emitLdpStp d o0 o1 m = .ok ws) :
    checkGpType o0 d.reg_type = true ∧ o0.sameSig o1 = true ∧ checkGpId o0 idZR = true ∧ checkGpId o1 idZR = true ∧
    m.baseType = rtGp64 ∧ m.indexType = 0 ∧ m.baseId ≤ 31 ∧
    (m.off.sshiftRight (d.offset_shift + xOf o0 d.reg_type)) <<< (d.offset_shift + xOf o0 d.reg_type) = m.off ∧
    -64 ≤ (m.off.sshiftRight (d.offset_shift + xOf o0 d.reg_type)).toInt ∧ (m.off.sshiftRight (d.offset_shift + xOf o0 d.reg_type)).toInt ≤ 63 ∧
    (pairVariant m (m.off.sshiftRight (d.offset_shift + xOf o0 d.reg_type)) ≠ 0 → d.pre_post_op ≠ 0) ∧
    ws = [pairOp d (pairVariant m (m.off.sshiftRight (d.offset_shift + xOf o0 d.reg_type))) ||| addImm (xOf o0 d.reg_type) d.x_offset |||
          (((m.off.sshiftRight (d.offset_shift + xOf o0 d.reg_type)) &&& 0x7F#32) <<< 15) ||| addReg o1.id 10 ||| addReg o0.id 0 ||| addReg m.baseId 5] := by
  unfold emitLdpStp at h
  dsimp only at h
  generalize m.off.sshiftRight (d.offset_shift + xOf o0 d.reg_type) = q at *
  by_cases c1 : (checkGpType o0 d.reg_type && o0.sameSig o1) = true
  · by_cases c2 : (checkGpId o0 idZR && checkGpId o1 idZR) = true
    · by_cases c3 : (m.baseType != rtGp64 || m.indexType != 0) = true
      · simp [c1, c2, c3, invalidAddress] at h
      · by_cases c4 : ((q <<< (d.offset_shift + xOf o0 d.reg_type)) != m.off) = true
        · simp [c1, c2, c3, c4, invalidDisplacement] at h
        · by_cases c5 : (!(decide (q.toInt ≥ -64) && decide (q.toInt ≤ 63))) = true
          · simp only [c1, c2, c3, c4, c5, Bool.not_true, Bool.false_eq_true, if_false, if_true, invalidDisplacement] at h
            cases h
          · by_cases c6 : ((m.mode != 0 && q != 0) && d.pre_post_op == 0) = true
            · simp only [c1, c2, c3, c4, c5, c6, Bool.not_true, Bool.false_eq_true, if_false, if_true, invalidAddress] at h
              cases h
            · by_cases c7 : (m.baseType == rtGp64 && decide (m.baseId ≤ 31)) = true
              · simp only [c1, c2, c3, c4, c5, c6, c7, Bool.not_true, Bool.false_eq_true, if_false, if_true, ok1, Result.ok.injEq] at h
                simp only [Bool.and_eq_true, Bool.or_eq_true, bne_iff_ne, ne_eq, not_or, Decidable.not_not, Bool.not_eq_true',
                  Bool.not_eq_false, decide_eq_true_eq, beq_iff_eq, not_and, Bool.and_eq_false_iff, decide_eq_false_iff_not] at c1 c2 c3 c4 c5 c6 c7
                refine ⟨c1.1, c1.2, c2.1, c2.2, c3.1, c3.2, c7.2, by simpa using c4, ?_, ?_, ?_, ?_⟩
                · have := c5; simp at this; omega
                · have := c5; simp at this; omega
                · intro hk hz
                  apply hk
                  unfold pairVariant
                  by_cases hp : (m.mode != 0 && q != 0) = true
                  · exfalso
                    have hp' : ¬m.mode = 0 ∧ ¬q = 0 := by simpa using hp
                    exact c6 hp' hz
                  · simp only [hp, Bool.false_eq_true, if_false]
                · rw [← h]
                  unfold pairOp pairVariant
                  by_cases hp : (m.mode != 0 && q != 0) = true
                  · by_cases hm1 : (m.mode == 1) = true
                    · simp only [hp, hm1, if_true]; rfl
                    · simp only [hp, hm1, if_true, Bool.false_eq_true, if_false]; rfl
                  · simp only [hp, Bool.false_eq_true, if_false]; rfl
              · simp [c1, c2, c3, c4, c5, c6, c7, invalidAddress] at h
    · simp [c1, c2, invalidPhysId] at h
  · simp [c1, invalidInstruction] at h

/-- **End-to-end, kEncodingBaseLdpStp** (ldp / stp / ldpsw / stgp / ldnp / stnp  Rt, Rt2, [Xn|SP {, #simm7*size}] / pre / post) -/
theorem ldpStp_end_to_end (r : InstRow) (hr : r ∈ instTable.toList) (henc : r.enc = encBaseLdpStp)
    (d : BaseLdpStpRow) (hd : baseLdpStp[r.idx]? = some d) (o0 o1 : Reg) (m : Mem) (hm2 : m.mode ≤ 2)
    (wf0 : GpWellFormed o0) (wf1 : GpWellFormed o1) (ws : List (BitVec 32)) (pc : BitVec 64)
    (h : emitLdpStp d o0 o1 m = .ok ws) :
    judge (formsNamed r.name) r.name [.reg o0, .reg o1, .mem m] pc (.ok ws) = .full := by
  have hrow := (List.all_eq_true.mp rows_baseLdpStp_have_forms) r hr
  simp only [henc, bne_self_eq_false, Bool.false_or, hd] at hrow
  obtain ⟨hty, hsig, hid0, hid1, hb1, hb3, hb2, hq, hlo, hhi, hpp, hws⟩ := ldpStp_accepts_facts d o0 o1 m ws h
  simp only [pairRowOk, Bool.and_eq_true, decide_eq_true_eq] at hrow
  obtain ⟨⟨hty3, _⟩, hall⟩ := hrow
  have hrt := gp_rt_of_check o0 d.reg_type hty3 hty
  have hmem : o0.rt ∈ [rtGp32, rtGp64] := by rcases hrt with a | a <;> simp [a]
  have hcombo := (List.all_eq_true.mp hall) o0.rt hmem
  have hck : checkGpType { rt := o0.rt, id := 0 } d.reg_type = true := by simpa [checkGpType] using hty
  have hx : xOf { rt := o0.rt, id := 0 } d.reg_type = xOf o0 d.reg_type := by simp [xOf]
  simp only [hck, Bool.not_true, Bool.false_or, hx, Bool.and_eq_true, decide_eq_true_eq] at hcombo
  obtain ⟨hsh4, hks⟩ := hcombo
  generalize hqd : m.off.sshiftRight (d.offset_shift + xOf o0 d.reg_type) = q at *
  generalize hkd : pairVariant m q = k at *
  have hkmem : k ∈ (if d.pre_post_op == 0 then [0] else [0, 1, 2]) := by
    by_cases hk0 : k = 0
    · subst hk0; split <;> simp
    · have hne := hpp hk0
      have : (d.pre_post_op == 0) = false := by simpa using hne
      rw [this]
      have : k = 1 ∨ k = 2 := by
        have hkd' := hkd
        unfold pairVariant at hkd'
        by_cases hp : (m.mode != 0 && q != 0) = true
        · by_cases hm1 : (m.mode == 1) = true
          · simp only [hp, hm1, if_true] at hkd'; exact Or.inl hkd'.symm
          · simp only [hp, hm1, if_true, Bool.false_eq_true, if_false] at hkd'; exact Or.inr hkd'.symm
        · simp only [hp, Bool.false_eq_true, if_false] at hkd'; exact absurd hkd'.symm hk0
      rcases this with a | a <;> simp [a]
  have hk := (List.all_eq_true.mp hks) k hkmem
  simp only [Bool.and_eq_true, beq_iff_eq] at hk
  obtain ⟨hclean, hany⟩ := hk
  rw [List.any_eq_true] at hany
  obtain ⟨f, hfmem, hn0⟩ := hany
  rw [List.any_eq_true] at hn0
  obtain ⟨n0, _, hn1⟩ := hn0
  rw [List.any_eq_true] at hn1
  obtain ⟨n1, _, hmm⟩ := hn1
  rw [List.any_eq_true] at hmm
  obtain ⟨mm, hmmem, hfm⟩ := hmm
  simp only [Bool.and_eq_true] at hfm
  obtain ⟨hform, hkind⟩ := hfm
  have hrt1 : o1.rt = o0.rt := by
    unfold Reg.sameSig at hsig; simp only [Bool.and_eq_true, beq_iff_eq] at hsig; exact hsig.1.1.1.symm
  have g0 : gpOk (wOfRt o0.rt) false o0 := by
    have := gpOk_of_checks o0 d.reg_type idZR hty3 (Or.inr rfl) wf0 hty hid0
    rw [show (idZR == idSP) = false by decide] at this
    exact this
  have g1 : gpOk (wOfRt o0.rt) false o1 := by
    have hty1 : checkGpType o1 d.reg_type = true := by simpa [checkGpType, hrt1] using hty
    have := gpOk_of_checks o1 d.reg_type idZR hty3 (Or.inr rfl) wf1 hty1 hid1
    rw [show (idZR == idSP) = false by decide, hrt1] at this
    exact this
  have hoff := (simm7_scaled q m.off _ hsh4 hq hlo hhi).symm
  -- the addressing mode the operand names is the one the (!post, W) bits select
  have hq0 : q = 0#32 → m.off.toInt = 0 := by
    intro hz; rw [hz] at hq; rw [← hq]; simp
  have hmode : pairModeOk mm ((pairOp d k ||| addImm (xOf o0 d.reg_type) d.x_offset) >>> 24 &&& 1#32).toNat
      ((pairOp d k ||| addImm (xOf o0 d.reg_type) d.x_offset) >>> 23 &&& 1#32).toNat m
      (sext 7 (q &&& 0x7F#32).toNat * ((2 ^ (d.offset_shift + xOf o0 d.reg_type) : Nat) : Int)) = true := by
    rw [← hoff]
    have hmodes : (k = 0 ∧ (m.mode = 0 ∨ m.off.toInt = 0)) ∨ (k = 1 ∧ m.mode = 1) ∨ (k = 2 ∧ m.mode = 2) := by
      rw [← hkd]; unfold pairVariant
      by_cases hp : (m.mode != 0 && q != 0) = true
      · simp only [hp, if_true]
        simp only [Bool.and_eq_true, bne_iff_ne, ne_eq] at hp
        by_cases hm1 : m.mode = 1
        · simp [hm1]
        · simp [hm1]; omega
      · simp only [hp, Bool.false_eq_true, if_false, true_and]
        left
        simp only [Bool.and_eq_true, bne_iff_ne, ne_eq, not_and, Decidable.not_not] at hp
        by_cases hm0 : m.mode = 0
        · exact Or.inl hm0
        · exact Or.inr (hq0 (hp hm0))
    rcases List.mem_cons.mp hmmem with hmmv | hmmv
    · subst hmmv
      rw [if_neg (by decide)] at hkind
      simp only [beq_iff_eq] at hkind
      rw [Prod.mk.injEq] at hkind
      unfold pairModeOk
      simp only [hkind.1, hkind.2]
      rcases hmodes with ⟨a, b⟩ | ⟨a, b⟩ | ⟨a, b⟩
      · rcases b with b | b <;> simp [a, b, pairNpWb]
      · simp [a, b, pairNpWb]
      · simp [a, b, pairNpWb]
    · have hmmv' : mm = .fixed := by simpa using hmmv
      subst hmmv'
      rw [if_pos rfl] at hkind
      have hk0 : k = 0 := by simpa using hkind
      unfold pairModeOk
      rcases hmodes with ⟨a, b⟩ | ⟨a, b⟩ | ⟨a, b⟩
      · rcases b with b | b <;> simp [b]
      · omega
      · omega
  have hdesc := pair_describes f (wOfRt o0.rt) n0 n1 _ mm _ q o0 o1 m pc hform hclean g0 g1 hb1 hb2 hb3 hoff hmode
  have hfull : f.isPartial = false := by
    simp only [isPairForm, Bool.and_eq_true, beq_iff_eq] at hform
    obtain ⟨⟨⟨⟨⟨⟨⟨⟨⟨⟨⟨hops, _⟩, _⟩, _⟩, _⟩, _⟩, _⟩, hfree⟩, _⟩, _⟩, _⟩, _⟩ := hform
    simp [Form.isPartial, hops, OpSpec.isPartial, hfree]
  subst hws
  apply judge_full_of_any
  · intro rr v pp hc; simp at hc
  · rw [List.any_eq_true]
    refine ⟨f, hfmem, ?_⟩
    simp only [hfull, Bool.not_false, Bool.true_and]
    simpa [addReg, addImm] using hdesc

end AsmjitVerif.C02
