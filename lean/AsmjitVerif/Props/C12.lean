/-
C12 — instruction read/write information covers what the CPU does (relative to the ISA database).

The quantifier of the table theorems is the *regenerated* behaviour table `Gen.C12Rows.table` / `Gen.C12A64.table`: one row per
distinct (database form instantiated with operands, answer of `InstAPI::query_rw_info` + `query_features` of the real code) pair,
written by tools/gen_c12.py from the current /repo on every run (about 2 600 distinct 64-bit-mode rows and about 2 300 distinct
32-bit-mode rows from about 45 000 accepted queries).
Each chunk of 200 rows is checked by `decide +kernel` in `Gen/C12RowsP*.lean`; the theorems below only assemble them and read
off the clauses of `Spec.RWCover.rowOk`.

All statements are full strength since the former findings are closed by repairs in /repo: C12-F3 (tbl/tbx register lists,
fix C05-7), C12-F1 (register-or-memory information kept per instruction id: `query_rw_info` now keeps RegMem only if the form with
that operand in memory validates, fix C12-7) and C12-F2 (queries given without their implicit operands: answered through the full
form of the matching signature, fix C12-6).  The tables contain the explicit forms AND the forms with implicit operands omitted.
-/
import AsmjitVerif.Spec.RWCover
import AsmjitVerif.Model.X86RW
import AsmjitVerif.Lemmas.RWCover
import AsmjitVerif.Gen.C12Rows
import AsmjitVerif.Gen.C12Rows32
import AsmjitVerif.Gen.C12A64
import AsmjitVerif.Gen.C12Tables
import AsmjitVerif.Gen.C12TablesRegen
set_option maxRecDepth 100000
namespace Props.C12
open Spec.RWCover

/-! ### helper: `opsOk` is pointwise -/
theorem opsOk_pointwise (len m64 : Bool) : ∀ (ds : List DbOp) (is : List ImplOp), opsOk len m64 ds is = true →
    ds.length = is.length ∧ ∀ p ∈ ds.zip is, opOk len m64 p.1 p.2 = true
  | [], [], _ => ⟨rfl, by simp⟩
  | [], _ :: _, h => by simp [opsOk] at h
  | _ :: _, [], h => by simp [opsOk] at h
  | d :: ds, i :: is, h => by
    simp only [opsOk, Bool.and_eq_true] at h
    have ih := opsOk_pointwise len m64 ds is h.2
    refine ⟨by simp [ih.1], ?_⟩
    intro p hp
    simp only [List.zip_cons_cons, List.mem_cons] at hp
    rcases hp with rfl | hp
    · exact h.1
    · exact ih.2 p hp

/-! ### the table theorems -/

/-- the regenerated behaviour tables of both modes: 64-bit mode rows and 32-bit mode rows (`mode64 = false`: forms of architecture
    ANY or X86, eight registers per kind, `native_gp_size = 4` branch of the zero-extension logic) -/
def x86Table : List Row := Gen.C12Rows.table ++ Gen.C12Rows32.table

/-- every row of the regenerated x86 behaviour tables (64-bit and 32-bit mode, explicit forms and forms with the implicit
    operands omitted) satisfies the monitor -/
theorem rw_covers_db : ∀ r ∈ x86Table, rowOk r = true := by
  intro r hr
  simp only [x86Table, List.mem_append] at hr
  rcases hr with h | h
  · exact List.all_eq_true.mp Gen.C12Rows.table_ok r h
  · exact List.all_eq_true.mp Gen.C12Rows32.table_ok r h

/-- the mode flag of a row matters only if some operand is a written general-purpose register.  tools/props/c12.py uses this:
    a 32-bit-mode (database expectation, answer) pair without such an operand is stored once, in the 64-bit table, as the same
    pair with `mode64 = true`; the 32-bit table holds the pairs that do have one. -/
theorem mode_irrelevant_without_gp_write (l : Bool) (r : Row) (h : Lemmas.RWCover.noGpWrite (effDbOps r) = true) :
    rowOkWith l { r with mode64 := false } = rowOkWith l { r with mode64 := true } := by
  have hp : provides { r with mode64 := false } = provides { r with mode64 := true } := by funext e; rfl
  have he1 : effDbOps { r with mode64 := false } = effDbOps r := rfl
  have he2 : effDbOps { r with mode64 := true } = effDbOps r := rfl
  simp only [rowOkWith, flagsOk, featOk, hp, he1, he2, Lemmas.RWCover.opsOk_mode_irrelevant l false true (effDbOps r) r.implOps h]

/-- VPTERNLOGD/Q: the truth table depends on the destination's old value exactly when its two nibbles differ — the test
    `(predicate >> 4) == (predicate & 0xF)` of `query_rw_info` is the right one for all 256 immediates (the monitor itself uses
    `ternlogDependsOnDest`, defined from the SDM's bit-select semantics, not this formula) -/
theorem ternlog_dest_is_input_iff_nibbles_differ : ∀ imm, imm < 256 → ternlogDependsOnDest imm = (imm / 16 != imm % 16) := by
  decide +kernel

/-- per operand (explicit and implicit ones): reported read ⊇ database read, reported write ⊇ database write, for memory operands
    too, and for general-purpose registers the reported byte masks contain the database's bit range -/
theorem reported_access_covers_db : ∀ r ∈ x86Table, ∀ p ∈ (effDbOps r).zip r.implOps, p.1.kind ≠ 0 → accessOk p.1 p.2 = true := by
  intro r hr p hp hk
  have h := rw_covers_db r hr
  simp only [rowOk, rowOkWith, Bool.and_eq_true] at h
  have := (opsOk_pointwise _ _ _ _ h.1.1).2 p hp
  simp only [opOk] at this
  split at this
  · rename_i h0; simp at h0; exact absurd h0 hk
  · simp only [Bool.and_eq_true] at this; exact this.1.1.1.1

/-- 64-bit mode: a 32-bit general-purpose destination is reported as changing the whole register (written ∪ zero-extended =
    8 bytes); an 8/16-bit destination claims no zero extension -/
theorem gp_zero_extension_exact : ∀ r ∈ x86Table, ∀ p ∈ (effDbOps r).zip r.implOps, p.1.kind ≠ 0 → zextOk r.mode64 p.1 p.2 = true := by
  intro r hr p hp hk
  have h := rw_covers_db r hr
  simp only [rowOk, rowOkWith, Bool.and_eq_true] at h
  have := (opsOk_pointwise _ _ _ _ h.1.1).2 p hp
  simp only [opOk] at this
  split at this
  · rename_i h0; simp at h0; exact absurd h0 hk
  · simp only [Bool.and_eq_true] at this; exact this.1.1.1.2

/-- status flags: reported read ⊇ database R/X, reported written ⊇ database W/X/0/1/U -/
theorem flags_cover_db : ∀ r ∈ x86Table, flagsOk r = true := by
  intro r hr
  have h := rw_covers_db r hr
  simp only [rowOk, rowOkWith, Bool.and_eq_true] at h
  exact h.1.2

/-- a CPU that has the reported features has every extension the database requires for the form the assembler emitted -/
theorem features_cover_db : ∀ r ∈ x86Table, r.featChecked = true → ∀ e ∈ r.dbExt, provides r e = true := by
  intro r hr hc e he
  have h := rw_covers_db r hr
  simp only [rowOk, rowOkWith, Bool.and_eq_true] at h
  have hf := h.2
  simp only [featOk, hc, Bool.not_true, Bool.false_or, List.all_eq_true] at hf
  exact hf e he

/-- RegMem on operand i of a register-only form with rm_size s: the database has the same mnemonic with operand i in memory,
    all other operands and all accesses equal, and (unless no size is given, s = 0) one such form has s bytes -/
theorem rm_replaceable : ∀ r ∈ x86Table, ∀ p ∈ (effDbOps r).zip r.implOps,
    p.1.kind = 1 → p.1.rmChecked = true → hasBits p.2.flags fRegMem = true →
    p.1.memAlt ≠ [] ∧ (p.2.rmSize = 0 ∨ p.2.rmSize ∈ p.1.memAlt) := by
  intro r hr p hp hk hc hf
  have h := rw_covers_db r hr
  simp only [rowOk, rowOkWith, Bool.and_eq_true] at h
  have := (opsOk_pointwise _ _ _ _ h.1.1).2 p hp
  simp only [opOk, hk] at this
  simp only [Nat.reduceBEq, Bool.false_eq_true, ↓reduceIte, Bool.and_eq_true] at this
  have hrm := this.1.2
  simp only [regMemOk, hk, hc, hf, BEq.rfl, Bool.and_self, ↓reduceIte] at hrm
  cases hm : p.1.memAlt with
  | nil => simp [hm] at hrm
  | cons a l =>
    simp only [hm, List.isEmpty_cons, Bool.false_eq_true, ↓reduceIte, Bool.or_eq_true, beq_iff_eq, List.contains_eq_mem,
      decide_eq_true_eq] at hrm
    exact ⟨by simp, hrm⟩

/-- x86 register runs of the database (`k, k+1`): lead count on the leader, `kConsecutive` on the followers -/
theorem consecutive_reported : ∀ r ∈ x86Table, ∀ p ∈ (effDbOps r).zip r.implOps, p.1.kind ≠ 0 → runOk p.1 p.2 = true := by
  intro r hr p hp hk
  have h := rw_covers_db r hr
  simp only [rowOk, rowOkWith, Bool.and_eq_true] at h
  have := (opsOk_pointwise _ _ _ _ h.1.1).2 p hp
  simp only [opOk] at this
  split at this
  · rename_i h0; simp at h0; exact absurd h0 hk
  · simp only [Bool.and_eq_true] at this; exact this.1.1.2

/-- byte masks of vector / mask / MMX / x87 / bound register operands: the read mask contains the database's bit range of the
    operand, written ∪ zero-extended bytes contain it for written operands (beyond the GP clause of the property) -/
theorem vector_masks_cover_db : ∀ r ∈ x86Table, ∀ p ∈ (effDbOps r).zip r.implOps, p.1.kind ≠ 0 → wideMaskOk p.1 p.2 = true := by
  intro r hr p hp hk
  have h := rw_covers_db r hr
  simp only [rowOk, rowOkWith, Bool.and_eq_true] at h
  have := (opsOk_pointwise _ _ _ _ h.1.1).2 p hp
  simp only [opOk] at this
  split at this
  · rename_i h0; simp at h0; exact absurd h0 hk
  · simp only [Bool.and_eq_true] at this; exact this.2

/-- every AArch64 register-list form of the database that AsmJit accepts (ld1–ld4, st1–st4, ld1r–ld4r with all arrangements and
    addressing forms, and tbl/tbx whose 2–4 register table starts at operand 1) reports the run — lead count = list length on the
    first list register, `kConsecutive` on the others — and the database's access letters (tbx reads its destination).
    Full strength since /repo fix C05-7 closed finding C12-F3. -/
theorem a64_lists_reported : ∀ r ∈ Gen.C12A64.table, rowOk r = true :=
  List.all_eq_true.mp Gen.C12A64.table_ok

/-- the committed RW / flags / feature tables of x86instdb.cpp are the tables tools/tablegen-x86.js regenerates from db/
    (both sides are compiler dumps: of the committed file and of the file regenerated in a scratch copy) -/
theorem tables_regenerate : Gen.C12Tables.committed = Gen.C12TablesRegen.regenerated := by rfl


/-! ### what the monitor rejects: the answers the tree gave before the repairs C12-7 and C12-6 (non-vacuity of the clauses) -/

/-- `kmovb r8d, k2` — operand 1 (`k2`) reported RegMem with rm_size 1 although the database has no `kmovb r32, m8` -/
def regMemWithoutMemoryForm : Row :=
  ⟨true, [⟨1, true, 4, false, true, 0, 8, 8, 0, 0, true, [1]⟩, ⟨1, false, 8, true, false, 0, 8, 8, 0, 0, true, []⟩], 0, 0, false, [], [],
   [⟨0x16, 255, 1, 0, 0x0, 0x1, 0xfe⟩, ⟨0x5, 255, 1, 0, 0x1, 0x0, 0x0⟩], 0, 0, [], 0⟩
example : rowOk regMemWithoutMemoryForm = false := by decide

/-- `mul rcx` (implicit rdx, rax omitted) — the only operand is read by the CPU; reported: written, physical id rdx -/
def shortFormIndexedAsFullForm : Row :=
  ⟨true, [⟨1, true, 8, true, false, 0, 64, 64, 0, 0, true, [8]⟩], 0, 0x30f, false, [], [],
   [⟨0x102, 2, 0, 0, 0x0, 0xff, 0x0⟩], 0, 0x30f, [], 0⟩
example : rowOk shortFormIndexedAsFullForm = false := by decide

/-! ### non-vacuity: the tables are populated and contain rows of every kind the clauses talk about -/
example : Gen.C12Rows.tableSize > 1000 := by decide
example : Gen.C12Rows.table.length = Gen.C12Rows.tableSize := by decide +kernel
example : (Gen.C12Rows.table.filter fun r => r.featChecked && !r.dbExt.isEmpty).length > 300 := by decide +kernel
example : (Gen.C12Rows.table.filter fun r => r.dbFlagsW != 0).length > 50 := by decide +kernel
example : (Gen.C12Rows.table.filter fun r => (r.dbOps.zip r.implOps).any fun p =>
    p.1.rmChecked && hasBits p.2.flags fRegMem && !p.1.memAlt.isEmpty).length > 300 := by decide +kernel
example : (Gen.C12Rows.table.filter fun r => r.dbOps.any fun d => d.kind == 1 && d.gp && d.write && d.size == 4).length > 50 := by decide +kernel
example : (Gen.C12Rows.table.filter fun r => r.dbOps.any fun d => d.runLen ≥ 2).length > 0 := by decide +kernel
example : (Gen.C12Rows.table.filter fun r => r.destRule != 0).length > 500 := by decide +kernel
example : (Gen.C12Rows.table.filter fun r => r.destRule != 0 && !ternlogDependsOnDest (r.destRule - 1)).length > 20 := by decide +kernel
example : Gen.C12Rows32.tableSize > 100 := by decide
example : (Gen.C12Rows32.table.filter fun r => !r.mode64 && r.dbOps.any fun d => d.kind == 1 && d.gp && d.write && d.size == 4).length > 50 := by decide +kernel
example : (Gen.C12Rows.table.filter fun r => r.dbOps.any fun d => d.kind == 1 && !d.gp && d.write && d.width > 0).length > 300 := by decide +kernel
example : (Gen.C12A64.table.filter fun r => r.dbOps.any fun d => d.runLen ≥ 2).length > 5 := by decide +kernel
-- lists that start at operand 1 (tbl/tbx) are in the table, and a tbx row demands the destination read
example : (Gen.C12A64.table.filter fun r => match r.dbOps with | d :: e :: _ => d.runLen == 0 && e.runLen ≥ 2 | _ => false).length > 1 := by decide +kernel
example : (Gen.C12A64.table.filter fun r => match r.dbOps with | d :: e :: _ => d.read && d.write && e.runLen ≥ 2 | _ => false).length > 0 := by decide +kernel
example : Gen.C12Tables.committed.length > 2000 := by decide +kernel

end Props.C12
