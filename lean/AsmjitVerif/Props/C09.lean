/-
C09 — JitAllocator never hands out overlapping, misaligned or corrupted memory.

Theorems about the model `Model/JitAlloc.lean` (tied to jitallocator.cpp by the correspondence run of tools/props/c09.py), for EVERY
history of protocol operations (alloc / release / shrink / query / stale shrink / write / write-with-truncation / read / reset /
foreign pointers) and EVERY configuration `JitAllocator_new_impl` can produce.  `Inv` (Lemmas/JitAllocInv.lean) ties, per block,
the `used` and `stop` bit vectors, `area_used`, the kFlagEmpty / kFlagIncremental flags and the incremental-mode cache to the table of
spans the caller holds; the proof is by induction over the history (`Inv.step`, Lemmas/JitAllocStep.lean).

Second part (Props/C09Refine.lean): memory contents and fill pattern, the `statistics()` sums, the refinement "the monitor of
Spec/JitAlloc.lean accepts every model run" as one theorem, and the rx / rw views of dual-mapped blocks.
-/
import AsmjitVerif.Lemmas.JitAllocRetention
import AsmjitVerif.Spec.JitAlloc
namespace AsmjitVerif.JitAlloc

/-- a state is reachable when some history leads to it from a freshly constructed allocator -/
def Reachable (s : St) : Prop := ∃ cfg ops, WF cfg ∧ s = finalState (St.init cfg) ops

/-- **Invariant for all histories**: after any sequence of operations on an allocator of any valid configuration the bookkeeping
(bit vectors, counters, flags, incremental cache) describes exactly the spans the caller holds. -/
theorem inv_all_histories (cfg : Config) (hwf : WF cfg) (ops : List Op) : Inv (finalState (St.init cfg) ops) :=
  (Inv.init cfg hwf).finalState ops

/-- every configuration the constructor builds (any options, granularity, block size, pattern words) is covered -/
theorem inv_all_configs (opts gran blockSize pattern : Nat) (ops : List Op) :
    Inv (finalState (St.init (mkConfig opts gran blockSize pattern)) ops) :=
  inv_all_histories _ (mkConfig_wf _ _ _ _) ops

theorem reachable_inv {s : St} (h : Reachable s) : Inv s := by
  obtain ⟨cfg, ops, hwf, rfl⟩ := h
  exact inv_all_histories cfg hwf ops

/-- **Disjointness**: any two different live spans of the same block occupy disjoint byte ranges (both views of a block share
offsets, so this is disjointness in the executable and in the writable view). -/
theorem live_spans_disjoint {s : St} (h : Reachable s) {i j : Nat} {h1 h2 : Handle} (hij : i ≠ j)
    (e1 : s.tab[i]? = some h1) (e2 : s.tab[j]? = some h2) (l1 : h1.live = true) (l2 : h2.live = true) (hb : h1.blk = h2.blk) :
    h1.off + h1.size ≤ h2.off ∨ h2.off + h2.size ≤ h1.off := by
  have hI := reachable_inv h
  rcases Nat.lt_or_gt_of_ne hij with c | c
  · exact hI.tdisj i j h1 h2 c e1 e2 l1 l2 hb
  · have := hI.tdisj j i h2 h1 c e2 e1 l2 l1 hb.symm; omega

/-- **Non-null, aligned, inside, never in the padding**: every live span lies in a block that still exists, starts at a multiple of
the base granularity (and of its pool's granularity), has a positive size that is a multiple of the granularity, ends inside the
block's area and starts behind the padding granule when padding is enabled. -/
theorem live_span_wellformed {s : St} (h : Reachable s) {i : Nat} {hd : Handle} (e : s.tab[i]? = some hd) (l : hd.live = true) :
    ∃ b ∈ s.a.blocks, b.id = hd.blk ∧ hd.off % s.a.cfg.gran = 0 ∧ hd.size % s.a.cfg.gran = 0 ∧ 0 < hd.size ∧
      hd.off + hd.size ≤ b.areaSize * s.a.cfg.poolGran b.pool ∧ (b.pad = true → s.a.cfg.poolGran b.pool ≤ hd.off) := by
  have hI := reachable_inv h
  obtain ⟨b, hb, eb, st, n, o1, o2⟩ := hI.owned i hd e l
  have hg := poolGran_pos hI.wf b.pool
  obtain ⟨i1, i2, i3⟩ := (hI.blk b hb).1.inside st n ⟨i, hd, e, l, eb.symm, o1, o2⟩
  refine ⟨b, hb, eb, ?_, ?_, ?_, ?_, ?_⟩
  · rw [o1]; unfold Config.poolGran; rw [← Nat.mul_assoc, Nat.mul_right_comm]; exact Nat.mul_mod_left _ _
  · rw [o2]; unfold Config.poolGran; rw [← Nat.mul_assoc, Nat.mul_right_comm]; exact Nat.mul_mod_left _ _
  · rw [o2]; exact Nat.mul_pos i2 hg
  · rw [o1, o2, ← Nat.add_mul]; exact Nat.mul_le_mul_right _ i3
  · intro hp
    rw [padN_pos b hp] at i1
    rw [o1]
    calc s.a.cfg.poolGran b.pool = 1 * s.a.cfg.poolGran b.pool := (Nat.one_mul _).symm
      _ ≤ st * s.a.cfg.poolGran b.pool := Nat.mul_le_mul_right _ i1

/-- **Bit vectors are exact**: in every reachable state a granule is marked used iff it is the padding granule or lies in a live
span, and is marked stop iff it is the padding granule or the last granule of a live span — the bookkeeping is never corrupted. -/
theorem bitvectors_exact {s : St} (h : Reachable s) {b : Block} (hb : b ∈ s.a.blocks) (i : Nat) (hi : i < b.areaSize) :
    (bit b.used i = true ↔ (b.pad = true ∧ i = 0) ∨
      ∃ st n, Spans s.tab b.id (s.a.cfg.poolGran b.pool) st n ∧ st ≤ i ∧ i < st + n) ∧
    (bit b.stop i = true ↔ (b.pad = true ∧ i = 0) ∨
      ∃ st n, Spans s.tab b.id (s.a.cfg.poolGran b.pool) st n ∧ i + 1 = st + n) := by
  have hB := ((reachable_inv h).blk b hb).1
  exact ⟨hB.used i hi, hB.stop i hi⟩

/-- **Per-block accounting is exact**: `area_used` is the number of granules marked used; a block flagged empty holds no span;
in incremental mode everything from `search_start` on is free and `largest_unused_area` is exactly that tail. -/
theorem block_accounting_exact {s : St} (h : Reachable s) {b : Block} (hb : b ∈ s.a.blocks) :
    b.areaUsed = b.used.count true ∧
    (b.empty = true → ∀ st n, ¬ Spans s.tab b.id (s.a.cfg.poolGran b.pool) st n) ∧
    (b.incremental = true → (∀ i, b.searchStart ≤ i → bit b.used i = false) ∧ b.largest = b.areaSize - b.searchStart) := by
  obtain ⟨hB, hC⟩ := (reachable_inv h).blk b hb
  refine ⟨hC.cnt, ?_, ?_⟩
  · intro he
    exact no_spans_of_unused hB.toBCore hC (hC.emp he)
  · intro hi
    obtain ⟨_, h2, h3, _⟩ := hB.incr hi
    exact ⟨h2, h3⟩

/-- **Allocation succeeds and is at least as large as requested**: a request of 1 .. 2^31-1 bytes (after rounding) is never refused
(the model's virtual memory never runs out), the span is recorded as handed out, and it is at least as large as the request. -/
theorem alloc_ok {s : St} (h : Reachable s) (req : Nat) (h0 : alignUp req s.a.cfg.gran ≠ 0)
    (hmax : ¬ alignUp req s.a.cfg.gran - 1 ≥ 2147483647) :
    ∃ sp, (step s (.alloc req)).2 = .span sp ∧ req ≤ sp.size ∧
      (step s (.alloc req)).1.tab = s.tab ++ [{ live := true, blk := sp.blk, off := sp.off, size := sp.size }] := by
  have hI := reachable_inv h
  obtain ⟨sp, h1, h2⟩ := allocIn_spec (req := req) hI.toAInv hI.spans_fresh h0 (alignUp_ge _ _ hI.wf.1) (alignUp_mod _ _)
  obtain ⟨idx, k, _, _, _, hreq, _⟩ := h2
  refine ⟨sp, ?_, hreq, ?_⟩
  all_goals
    simp only [step, Alloc.alloc, h0, hmax, if_false]
    rcases hr : s.a.allocIn (alignUp req s.a.cfg.gran) with ⟨a', (e | sp')⟩
    · rw [hr] at h1; simp at h1
    · rw [hr] at h1; simp at h1; subst h1; rfl

/-- the new span is disjoint from every span that was live before, is aligned and lies inside its block
(corollary of the invariant of the successor state) -/
theorem alloc_span_fresh {s : St} (h : Reachable s) (req : Nat) (sp : SpanOut) (hs : (step s (.alloc req)).2 = .span sp)
    {i : Nat} {hd : Handle} (e : s.tab[i]? = some hd) (l : hd.live = true) (hb : hd.blk = sp.blk) :
    hd.off + hd.size ≤ sp.off ∨ sp.off + sp.size ≤ hd.off := by
  obtain ⟨cfg, ops, hwf, rfl⟩ := h
  have hR : Reachable (step (finalState (St.init cfg) ops) (.alloc req)).1 := by
    refine ⟨cfg, ops ++ [.alloc req], hwf, ?_⟩
    have : ∀ (s0 : St) (l1 : List Op) (op : Op), finalState s0 (l1 ++ [op]) = (step (finalState s0 l1) op).1 := by
      intro s0 l1 op
      induction l1 generalizing s0 with
      | nil => rfl
      | cons x xs ih => simp only [List.cons_append, finalState]; exact ih _
    rw [this]
  generalize finalState (St.init cfg) ops = s at *
  have htab : (step s (.alloc req)).1.tab = s.tab ++ [{ live := true, blk := sp.blk, off := sp.off, size := sp.size }] := by
    simp only [step] at hs ⊢
    rcases hr : s.a.alloc req with ⟨a', (e' | sp')⟩
    · rw [hr] at hs; simp at hs
    · rw [hr] at hs; simp at hs; subst hs; rfl
  have hi : i < s.tab.length := by
    by_cases c : i < s.tab.length
    · exact c
    · rw [List.getElem?_eq_none (by omega)] at e; simp at e
  exact live_spans_disjoint hR (i := i) (j := s.tab.length) (h2 := ⟨true, sp.blk, sp.off, sp.size⟩) (by omega)
    (by rw [htab, List.getElem?_append_left hi]; exact e) (by rw [htab]; simp) l rfl hb

/-- **Release frees exactly the span**: releasing a live span always succeeds, kills exactly that handle and leaves every other
entry of the table untouched (the invariant of the successor state then says its granules are free again). -/
theorem release_ok {s : St} (h : Reachable s) {j : Nat} {hd : Handle} (e : s.tab[j]? = some hd) (l : hd.live = true) :
    (step s (.release j)).2 = .ok ∧ (step s (.release j)).1.tab = killHandle s.tab j := by
  have hI := reachable_inv h
  obtain ⟨hok, _⟩ := hI.release_handle e l
  simp only [step, e, l, Bool.not_true, Bool.false_eq_true, if_false]
  rcases hr : s.a.release hd.blk hd.off with ⟨a', (e' | u)⟩
  · rw [hr] at hok; simp at hok
  · exact ⟨rfl, rfl⟩

/-- **Queries reflect exactly the live spans**: `query` of ANY address inside a live span (first byte or interior) succeeds and
returns exactly that span — its block, its first byte, its size. -/
theorem query_exact {s : St} (h : Reachable s) {j : Nat} {hd : Handle} (e : s.tab[j]? = some hd) (l : hd.live = true)
    (o : Nat) (ho : o < hd.size) :
    ∃ b ∈ s.a.blocks, b.id = hd.blk ∧
      s.a.query hd.blk (hd.off + o) = .ok { blk := hd.blk, pool := b.pool, blockSize := b.blockSize, off := hd.off, size := hd.size } := by
  have hI := reachable_inv h
  obtain ⟨b, hb, eb, st, n, o1, o2⟩ := hI.owned j hd e l
  have hg := poolGran_pos hI.wf b.pool
  have hS : Spans s.tab b.id (s.a.cfg.poolGran b.pool) st n := ⟨j, hd, e, l, eb.symm, o1, o2⟩
  have hidx : (hd.off + o) / s.a.cfg.poolGran b.pool = st + o / s.a.cfg.poolGran b.pool := by
    rw [o1, Nat.mul_comm, Nat.mul_add_div hg]
  have hlt : o / s.a.cfg.poolGran b.pool < n := by
    apply Nat.div_lt_of_lt_mul
    rw [Nat.mul_comm, ← o2]; exact ho
  obtain ⟨q1, q2, q3⟩ := (hI.blk b hb).1.toBCore.locate hS (idx := st + o / s.a.cfg.poolGran b.pool) (Nat.le_add_right _ _) (Nat.add_lt_add_left hlt st)
  obtain ⟨_, hn, _⟩ := (hI.blk b hb).1.inside st n hS
  refine ⟨b, hb, eb, ?_⟩
  have hf := findBlock_of_mem hI.ids hb
  rw [eb] at hf
  simp only [Alloc.query, hf, hidx, q1, q2, q3, Bool.not_true, Bool.false_eq_true, if_false]
  congr 2
  · exact o1.symm
  · rw [o2]; congr 1; omega

/-- **Shrink keeps a prefix at least as large as requested**: shrinking a live span to `0 < newSize ≤ size` succeeds, the new size
is a whole number of granules between the request and the old size, only that handle's size changes (the invariant of the successor
state says the granules behind it are free again). -/
theorem shrink_ok {s : St} (h : Reachable s) {j : Nat} {hd : Handle} (e : s.tab[j]? = some hd) (l : hd.live = true)
    (newSize : Nat) (h0 : 0 < newSize) (hle : newSize ≤ hd.size) :
    ∃ sz, (step s (.shrink j newSize)).2 = .size sz ∧ newSize ≤ sz ∧ sz ≤ hd.size ∧
      (step s (.shrink j newSize)).1.tab = setHandleSize s.tab j sz := by
  have hI := reachable_inv h
  obtain ⟨b, hb, eb, st, n0, o1, o2⟩ := hI.owned j hd e l
  have hg := poolGran_pos hI.wf b.pool
  have hS : TT s b.id b.pool st n0 := ⟨j, hd, e, l, eb.symm, o1, o2⟩
  have spec := shrink_spec hI.toAInv hb hS newSize h0 _ _ rfl rfl
  rw [eb, ← o1] at spec
  obtain ⟨hm, c1, c2, c3⟩ := spec
  have hceil := alignUp_ge newSize (s.a.cfg.poolGran b.pool) hg
  unfold alignUp at hceil
  have hmle : (newSize + s.a.cfg.poolGran b.pool - 1) / s.a.cfg.poolGran b.pool ≤ n0 := by
    apply Nat.le_of_lt_succ
    apply Nat.div_lt_of_lt_mul
    rw [Nat.mul_succ, Nat.mul_comm, ← o2]
    omega
  have hne : newSize ≠ 0 := by omega
  simp only [step, e, l, Bool.not_true, Bool.false_eq_true, if_false, hne]
  rcases Nat.lt_or_eq_of_le hmle with hlt | heq
  · obtain ⟨r2, _⟩ := c3 hlt
    rcases hr : s.a.shrinkImpl hd.blk hd.off newSize with ⟨a', (e' | (_ | sz))⟩ <;> rw [hr] at r2 <;> simp at r2
    subst r2
    refine ⟨_, rfl, hceil, ?_, rfl⟩
    rw [o2]; exact Nat.mul_le_mul_right _ (Nat.le_of_lt hlt)
  · obtain ⟨r2, _⟩ := c2 heq
    rcases hr : s.a.shrinkImpl hd.blk hd.off newSize with ⟨a', (e' | (_ | sz))⟩ <;> rw [hr] at r2 <;> simp at r2
    exact ⟨hd.size, rfl, hle, Nat.le_refl _, (setHandleSize_same e).symm⟩

/-- the window invariant (every free granule inside `[search_start, search_end)`, cached bound on free runs, incremental mode)
holds for every block of every reachable state -/
theorem window_all_histories {s : St} (h : Reachable s) : ∀ b ∈ s.a.blocks, BWin b := by
  obtain ⟨cfg, ops, hwf, rfl⟩ := h
  exact AWin.finalState (Inv.init cfg hwf) (by intro b hb; simp [St.init, Alloc.init] at hb) ops

/-- **Released (free) memory is reusable**: whenever some block of the pool that serves a request has enough consecutive free
granules — wherever they are: behind `search_start`, in the middle after a release, at the end after a shrink — `alloc` places the span
in an existing block; no new block is mapped.  (On the pinned tree this fails: defect C09-5.) -/
theorem free_memory_reused {s : St} (h : Reachable s) (req : Nat) (h0 : alignUp req s.a.cfg.gran ≠ 0)
    (hmax : ¬ alignUp req s.a.cfg.gran - 1 ≥ 2147483647)
    (hroom : ∃ b ∈ s.a.blocks, b.pool = sizeToPoolId s.a.cfg (alignUp req s.a.cfg.gran) ∧
      HasRun b ((alignUp req s.a.cfg.gran + s.a.cfg.poolGran (sizeToPoolId s.a.cfg (alignUp req s.a.cfg.gran)) - 1) /
        s.a.cfg.poolGran (sizeToPoolId s.a.cfg (alignUp req s.a.cfg.gran)))) :
    (step s (.alloc req)).1.a.blocks.map (·.id) = s.a.blocks.map (·.id) := by
  have hI := reachable_inv h
  have hW := window_all_histories h
  have := (allocIn_win hI.toAInv hW h0 (alignUp_mod _ _)).2 hroom
  simp only [step, Alloc.alloc, h0, hmax, if_false]
  rcases hr : s.a.allocIn (alignUp req s.a.cfg.gran) with ⟨a', (e | sp)⟩ <;> (rw [hr] at this; exact this)

/-- **Foreign / unknown blocks are rejected without touching the state** (lookup by address fails) -/
theorem unknown_block_rejected (a : Alloc) (blk off n : Nat) (hnone : a.findBlock blk = none) :
    a.release blk off = (a, .error .InvalidState) ∧ a.query blk off = .error .InvalidArgument ∧
    a.shrinkImpl blk off n = (a, .error .InvalidArgument) := by
  simp [Alloc.release, Alloc.query, Alloc.shrinkImpl, hnone]

/-- a stale span (its granule is free) cannot be shrunk: rejected, state untouched -/
theorem stale_shrink_rejected (a : Alloc) (blk off n : Nat) (e : Err) (hq : a.query blk off = .error e) :
    ∃ e', a.shrinkImpl blk off n = (a, .error e') := shrinkImpl_of_query_error hq

/-- **Reset leaves nothing accounted**: after a reset no span is live, no allocation is counted, and every block that is kept
has only its padding granule marked. -/
theorem reset_empties {s : St} (h : Reachable s) (hard : Bool) :
    (step s (.reset hard)).1.a.allocCount = 0 ∧
    (∀ (i : Nat) (hd : Handle), (step s (.reset hard)).1.tab[i]? = some hd → hd.live = false) ∧
    (∀ b ∈ (step s (.reset hard)).1.a.blocks, ∀ i, i < b.areaSize → (bit b.used i = true ↔ (b.pad = true ∧ i = 0))) := by
  have hI := (reachable_inv h).reset hard
  refine ⟨rfl, ?_, ?_⟩
  · intro i hd h1
    simp only [step, List.getElem?_map] at h1
    cases ht : s.tab[i]? with
    | none => rw [ht] at h1; simp at h1
    | some y => rw [ht] at h1; simp at h1; rw [← h1]
  · intro b hb i hi
    have hu := (hI.blk b hb).1.used i hi
    rw [hu]
    constructor
    · rintro (hp | ⟨st, n, ⟨k, x, h1, h2, _⟩, _⟩)
      · exact hp
      · simp only [List.getElem?_map] at h1
        cases ht : s.tab[k]? with
        | none => rw [ht] at h1; simp at h1
        | some y => rw [ht] at h1; simp at h1; rw [← h1] at h2; simp at h2
    · intro hp; exact Or.inl hp

/-- **Statistics: allocation count is exact**: in every reachable state `allocation_count` (what `statistics()` reports) equals the
number of live spans the caller holds; in particular it is 0 once everything has been released or reset. -/
theorem allocation_count_exact {s : St} (h : Reachable s) : s.a.stats.allocs = liveCount s.tab := by
  obtain ⟨cfg, ops, hwf, rfl⟩ := h
  exact CInv.finalState (Inv.init cfg hwf) rfl ops

/-- **Pool statistics are exact**: for every pool the counters `statistics()` sums up — block count, reserved area, used area —
equal the number of blocks of that pool, the sum of their area sizes and the sum of their `area_used` (which `block_accounting_exact`
ties to the granules that are padding or inside a live span). -/
theorem pool_totals_exact {s : St} (h : Reachable s) (p : Nat) (hp : p < s.a.cfg.poolCount) :
    (s.a.pool p).blockCount = agg (wCnt p) s.a.blocks ∧ (s.a.pool p).totalSize = agg (wSize p) s.a.blocks ∧
    (s.a.pool p).totalUsed = agg (wUsed p) s.a.blocks := by
  obtain ⟨cfg, ops, hwf, rfl⟩ := h
  have hP := PInv.finalState (Inv.init cfg hwf) (PInv.init cfg) ops
  rw [← hP.len] at hp
  exact ⟨hP.cnt p hp, hP.size p hp, hP.used p hp⟩

/-- **Retention policy**: per pool at most one block is flagged empty, none when kImmediateRelease is set ... -/
theorem retention_policy {s : St} (h : Reachable s) (p : Nat) (hp : p < s.a.cfg.poolCount) :
    agg (wEmpty p) s.a.blocks ≤ 1 ∧ (s.a.cfg.immediate = true → agg (wEmpty p) s.a.blocks = 0) := by
  obtain ⟨cfg, ops, hwf, rfl⟩ := h
  have hP := PInv.finalState (Inv.init cfg hwf) (PInv.init cfg) ops
  rw [← hP.len] at hp
  have := hP.emp p hp
  exact ⟨by omega, fun hi => hP.imm hi p⟩

/-- ... and a block is flagged empty exactly when it holds no live span (so `retention_policy` counts the blocks without live
spans: no more empty blocks are retained than the policy allows; on the pinned tree this fails: defect C09-2). -/
theorem empty_flag_iff_no_spans {s : St} (h : Reachable s) {b : Block} (hb : b ∈ s.a.blocks) :
    b.empty = true ↔ ∀ st n, ¬ Spans s.tab b.id (s.a.cfg.poolGran b.pool) st n := by
  constructor
  · exact (block_accounting_exact h hb).2.1
  · intro hno
    obtain ⟨cfg, ops, hwf, rfl⟩ := h
    have hI := inv_all_histories cfg hwf ops
    have hE := AEmp.finalState (Inv.init cfg hwf) (by intro x hx; simp [St.init, Alloc.init] at hx) ops
    obtain ⟨hB, hC⟩ := hI.blk b hb
    exact hE b hb (used_eq_pad_of_no_spans hB hC hno)

/-- **The allocator reports itself initialised** in every reachable state (every constructed configuration has a non-zero block
size; C09-1 inverted this test) -/
theorem initialized_reported {s : St} (h : Reachable s) : (step s .isinit).2 = .flag true := by
  have := (reachable_inv h).wf.2
  simp only [step]
  congr 1
  simp
  omega

/-! ### non-vacuity -/

/-- the hypotheses are satisfiable: the default configuration is well formed and its initial state reachable -/
example : Reachable (St.init (mkConfig 0 0 0 0)) := ⟨_, [], mkConfig_wf 0 0 0 0, rfl⟩

/-- `alloc_ok` applies to a real request: 100 bytes on the default configuration is neither 0 nor too large -/
example : alignUp 100 (mkConfig 0 0 0 0).gran ≠ 0 ∧ ¬ alignUp 100 (mkConfig 0 0 0 0).gran - 1 ≥ 2147483647 := by decide

/-- live handles exist in reachable states: after `alloc 100` the table holds a live span (so `live_span_wellformed`,
`live_spans_disjoint`, `release_ok` talk about something) -/
example : ∃ sp : SpanOut, (step (St.init (mkConfig 0 0 0 0)) (.alloc 100)).1.tab = [{ live := true, blk := sp.blk, off := sp.off, size := sp.size }] := by
  obtain ⟨sp, _, _, h3⟩ := alloc_ok (s := St.init (mkConfig 0 0 0 0)) ⟨_, [], mkConfig_wf 0 0 0 0, rfl⟩ 100 (by decide) (by decide)
  exact ⟨sp, by simpa [St.init] using h3⟩

/-- the stale-shrink theorem has instances: a query of an address in no block fails -/
example : (Alloc.init (mkConfig 0 0 0 0)).query 7 64 = .error .InvalidArgument := rfl

/-! ### non-vacuity of the reuse theorem (one kernel evaluation of the model) -/

def exState : St := (step (St.init (mkConfig 0 0 0 0)) (.alloc 128)).1

def exCheck : Bool :=
  match exState.a.blocks with
  | [b] => b.pool == 0 && b.areaSize == 2048 && !bit b.used 3 && bit b.used 2 && exState.a.cfg.gran == 64 &&
           exState.a.cfg.poolCount == 1
  | _ => false

set_option maxRecDepth 100000 in
theorem nonvacuity_model_run : exCheck = true := by decide +kernel

/-- non-vacuity of `free_memory_reused`: after `alloc 128` on the default configuration (a reachable state) the one block has a live
span in granules 1-2 and a free granule 3, so a 64-byte request (pool 0, 1 granule) satisfies the hypothesis -/
example : Reachable exState ∧ ∃ b ∈ exState.a.blocks, b.pool = sizeToPoolId exState.a.cfg (alignUp 64 exState.a.cfg.gran) ∧
    HasRun b ((alignUp 64 exState.a.cfg.gran + exState.a.cfg.poolGran (sizeToPoolId exState.a.cfg (alignUp 64 exState.a.cfg.gran)) - 1) /
      exState.a.cfg.poolGran (sizeToPoolId exState.a.cfg (alignUp 64 exState.a.cfg.gran))) ∧ bit b.used 2 = true := by
  have h := nonvacuity_model_run
  unfold exCheck at h
  split at h
  · rename_i b hb
    simp only [Bool.and_eq_true, beq_iff_eq, Bool.not_eq_true', ] at h
    obtain ⟨⟨⟨⟨⟨h1, h2⟩, h3⟩, h4⟩, h5⟩, h6⟩ := h
    have hp : sizeToPoolId exState.a.cfg (alignUp 64 exState.a.cfg.gran) = 0 := by
      simp [sizeToPoolId, h6, sizeToPoolId.go]
    refine ⟨⟨_, [.alloc 128], mkConfig_wf 0 0 0 0, rfl⟩, b, by rw [hb]; simp, by rw [hp]; exact h1, ?_, h4⟩
    rw [hp, h5]
    have e : (alignUp 64 64 + exState.a.cfg.poolGran 0 - 1) / exState.a.cfg.poolGran 0 = 1 := by
      simp [Config.poolGran, h5, alignUp]
    rw [e]
    refine ⟨3, by omega, ?_⟩
    intro j a c
    have : j = 3 := by omega
    rw [this]; exact h3
  · simp at h

end AsmjitVerif.JitAlloc
