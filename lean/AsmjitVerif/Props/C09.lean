import AsmjitVerif.Model.JitAlloc
import AsmjitVerif.Spec.JitAlloc
namespace AsmjitVerif.JitAlloc

theorem placeholder_initialized (c : Config) (s : St) (h : s.a.cfg.blockSize ≠ 0) : (step s .isinit).2 = .flag true := by
  simp [step, h]

end AsmjitVerif.JitAlloc
