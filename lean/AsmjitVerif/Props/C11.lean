/-
C11 — thread safety of the JIT memory manager.

(a) `lock_discipline` (over the event trees regenerated from the clang AST of the current sources): every allocator
    operation documented as thread-safe touches the mutable shared state of the allocator (all fields of the private
    implementation, the pools and the blocks that are not immutable after construction) only while holding the
    allocator's lock, never takes the non-recursive lock twice, and this holds through every callee (inlined to depth 8).
(b) `immutable_fields_only_written_by_constructors`: the fields treated as immutable are assigned only in the functions
    that build or destroy an allocator (which have exclusive access by contract).
(c) `atomic_ops_linearise` (proved once, generic): if every operation is one atomic critical section (what (a) gives),
    every interleaving of any number of threads is a sequential history - so an invariant of the sequential machine
    (C09's `Inv`) and every per-operation guarantee hold under every schedule.
(d) the instance: C09's sequential allocator (`JitAlloc.step`) as the critical section and the lock-free prefix of `alloc` as the
    pre-phase (Model/JitConc.lean).  For ANY number of threads, ANY programs and ANY schedule:
    `jit_allocator_inv_under_every_schedule` (C09's invariant `Inv` and all its corollaries hold in the state reached),
    `jit_schedule_is_sequential_history` (state and answers are those of C09's model on the completion order),
    `jit_monitor_accepts_every_schedule` (C09's independent monitor accepts what the threads observed - "with the guarantees of
    C09"), `jit_program_order` (each thread's operations complete in its program order).
(e), (g) are in Props/C11Static.lean.
(e) independent code generation shares nothing: over the symbol tables and relocation records of the object files of the current
    tree (Gen/StaticRefs.lean, tools/gen_statics.py): `all_writable_statics_reviewed`, `no_thread_locals`,
    `only_reviewed_accessors_touch_statics`, `codegen_units_share_nothing`.
(g) the other state the property names: the process-wide caches (`writable_statics_are_atomic_or_published`: every writable
    static is a `std::atomic` or one of the two host-information records published by an atomic flag; `init_once_publish_discipline`:
    in `CpuInfo::host()` / `VirtMem::info()` the record is written only inside the `if (!flag.load())` block and before the
    flag's store), the lock itself (`lock_is_a_pthread_mutex`), the write path (`write_paths_disciplined`), the runtime handles
    (`runtime_handles_only_written_by_constructors`), the anchored table units (`table_units_have_no_writable_object`) and the
    JIT write-protection / cache-flush helpers (`jit_scopes_touch_no_static`).
(f) `program_order_sublist`: the decidable check the driver runs on a recorded lock-order history (Spec/JitTrace.lean) does imply
    that each thread's own log is a subsequence of the history.
-/
import AsmjitVerif.Gen.LockMap
import AsmjitVerif.Gen.Globals
import AsmjitVerif.Lemmas.Linearise
import AsmjitVerif.Model.JitConc
import AsmjitVerif.Spec.JitTrace
import AsmjitVerif.Props.C09Refine
namespace AsmjitVerif.LockMap

/-- records that are shared between threads through one allocator / runtime -/
def sharedRecords : List String := ["Impl", "JitAllocatorPrivateImpl", "JitAllocatorPool", "JitAllocatorBlock"]

/-- fields of shared records that are written only while the allocator is constructed (reviewed list, checked by (b)) -/
def immutableFields : List (String × String) :=
  [("Impl", "options"), ("Impl", "block_size"), ("Impl", "granularity"), ("Impl", "fill_pattern"),
   ("JitAllocatorPrivateImpl", "lock"), ("JitAllocatorPrivateImpl", "page_size"),
   ("JitAllocatorPrivateImpl", "pools"), ("JitAllocatorPrivateImpl", "pool_count"),
   ("JitAllocatorPool", "granularity"), ("JitAllocatorPool", "granularity_log2")]

/-- a field access needs the lock -/
def prot (r f : String) : Bool := sharedRecords.contains r && !immutableFields.contains (r, f)

/-- operations documented as thread-safe (jitallocator.h / jitruntime.h) -/
def threadSafeOps : List String :=
  ["JitAllocator::alloc", "JitAllocator::release", "JitAllocator::shrink", "JitAllocator::query",
   "JitAllocator::statistics", "JitRuntime::_add", "JitRuntime::_release"]

/-- functions with exclusive access to the allocator by contract (construction, destruction, reset) -/
def exclusiveFns : List String :=
  ["JitAllocator_new_impl", "JitAllocator_destroy_impl", "JitAllocatorPrivateImpl::JitAllocatorPrivateImpl",
   "JitAllocatorPool::JitAllocatorPool", "JitAllocator::JitAllocator", "JitAllocator::~JitAllocator"]

set_option maxRecDepth 100000 in
theorem lock_discipline : ∀ f ∈ threadSafeOps, disciplined lockMap prot 8 f = true := by
  decide +kernel

set_option maxRecDepth 100000 in
theorem immutable_fields_only_written_by_constructors :
    ∀ fb ∈ lockMap, ¬ exclusiveFns.contains fb.1 → ∀ w ∈ writesOfEvs fb.2, ¬ immutableFields.contains w := by
  decide +kernel

/-- every thread-safe operation really is in the regenerated map (non-vacuity of `lock_discipline`) -/
theorem thread_safe_ops_present : ∀ f ∈ threadSafeOps, (lookup lockMap f).isSome = true := by
  decide +kernel

/-- static-storage variables of the library that live in writable memory (`nm` of the compiled objects, sections
.data/.bss) and are therefore potentially shared mutable state behind the API.  Reviewed allow-list:
init-once caches (host CPU info, virtual-memory info, large-page size, hardened-runtime info) whose initialisation
is idempotent and guarded by atomics / C++ function-local static initialisation. -/
def allowedGlobals : List String :=
  [ -- CpuInfo::host(): init-once cache guarded by an atomic flag (the property is stated "once the host information
    -- has been initialised")
    "asmjit::CpuInfo::host()::cpu_info_global", "asmjit::CpuInfo::host()::cpu_info_initialized_flag",
    "guard variable for asmjit::CpuInfo::host()::cpu_info_global",
    -- virtmem.cpp: std::atomic init-once caches and one atomic counter
    "asmjit::VirtMem::info()::vm_info", "asmjit::VirtMem::info()::vm_info_initialized",
    "asmjit::VirtMem::large_page_size()::large_page_size",
    "asmjit::VirtMem::get_mfd_exec_flag()::cached_mfd_exec_supported",
    "asmjit::VirtMem::generate_random_bits(unsigned long, unsigned int)::internal_counter",
    "asmjit::VirtMem::has_hardened_runtime()::cached_hardened_flag",
    "asmjit::VirtMem::get_anonymous_memory_strategy(asmjit::VirtMem::AnonymousMemoryStrategy*)::cached_strategy",
    -- found by the section-based listing (a GNU-unique symbol, invisible to the nm letters b/B/d/D): set to 1 (idempotent) when the
    -- kernel answers ENOSYS to memfd_create.  It was a `static volatile uint32_t` (a data race between two allocators: finding
    -- C11-1, fixes/C11-1.patch makes it a relaxed std::atomic) - `writable_statics_are_atomic_or_published` below checks the type
    "asmjit::VirtMem::AnonymousMemory::open(bool)::memfd_create_not_supported",
    -- the verification hooks H1 / H2 themselves (exist only with -DASMJIT_VERIF; null unless a harness sets them)
    "asmjit_verif_arena_fail", "asmjit_verif_jit_event" ]

/-- there is no other mutable global: threads that use their own holders/emitters share nothing writable -/
theorem no_mutable_globals : ∀ g ∈ mutableGlobals, allowedGlobals.contains g = true := by
  decide +kernel

end AsmjitVerif.LockMap

namespace AsmjitVerif.Linearise
variable {σ Cfg Op A Out : Type}

/-- **Every interleaving is a sequential history.** The completion trace of any schedule, replayed atomically in that
order by the sequential machine, yields the same final shared state and the same result for every operation. -/
theorem atomic_ops_linearise (m : Machine σ Cfg Op A Out) (cfg : Cfg) (sched : List Nat) :
    ∀ (s : σ) (ths : List (Thread Op A)), WellFormed m cfg ths →
      runSeq m cfg s ((runSched m cfg s ths sched).2.2.map fun d => (d.tid, d.op)) =
        ((runSched m cfg s ths sched).1, (runSched m cfg s ths sched).2.2) := by
  induction sched with
  | nil => intro s ths _; rfl
  | cons t sched ih =>
    intro s ths wf
    have wf' := stepThread_wf m cfg s ths t wf
    have ih' := ih (stepThread m cfg s ths t).1 (stepThread m cfg s ths t).2.1 wf'
    simp only [runSched]
    rcases stepThread_cases m cfg s ths t with ⟨ths', h⟩ | ⟨th, a, op, rest, hth, hp, htodo, h⟩
    · rw [h] at ih' ⊢
      simpa using ih'
    · rw [h] at ih' ⊢
      have hth' : th ∈ ths := List.mem_of_getElem? hth
      obtain ⟨op', rest', h1, h2⟩ := wf th hth' a hp
      rw [htodo] at h1
      cases h1
      subst h2
      simp only [List.map_cons, runSeq]
      simp only [] at ih'
      rw [ih']

/-- Consequently an invariant of the sequential machine holds after every schedule … -/
theorem invariant_under_every_schedule (m : Machine σ Cfg Op A Out) (cfg : Cfg) (Inv : σ → Prop)
    (hstep : ∀ s a, Inv s → Inv (m.crit s a).1) (sched : List Nat) :
    ∀ (s : σ) (ths : List (Thread Op A)), Inv s → Inv (runSched m cfg s ths sched).1 := by
  induction sched with
  | nil => intro s ths h; exact h
  | cons t sched ih =>
    intro s ths h
    simp only [runSched]
    apply ih
    rcases stepThread_cases m cfg s ths t with ⟨ths', h'⟩ | ⟨th, a, op, rest, _, _, _, h'⟩
    · rw [h']; exact h
    · rw [h']; exact hstep s a h

/-- … and each thread's operations complete in program order: the trace restricted to thread `t` is a prefix of
the operations thread `t` was given. -/
theorem program_order (m : Machine σ Cfg Op A Out) (cfg : Cfg) (sched : List Nat) (t : Nat) :
    ∀ (s : σ) (ths : List (Thread Op A)),
      (((runSched m cfg s ths sched).2.2.filter (fun d => d.tid == t)).map (·.op)) <+: todoOf ths t := by
  induction sched with
  | nil => intro s ths; simp [runSched]
  | cons u sched ih =>
    intro s ths
    simp only [runSched]
    have ih' := ih (stepThread m cfg s ths u).1 (stepThread m cfg s ths u).2.1
    rcases stepThread_cases m cfg s ths u with ⟨ths', h⟩ | ⟨th, a, op, rest, hth, hp, htodo, h⟩
    · have htd := stepThread_todo_of_none m cfg s ths u t (by rw [h])
      rw [htd] at ih'
      rw [h] at ih' ⊢
      simpa using ih'
    · rw [h] at ih'
      simp only [] at ih'
      by_cases hut : u = t
      · subst hut
        obtain ⟨hlt, heq⟩ := List.getElem?_eq_some_iff.mp hth
        have e1 : todoOf (ths.set u { todo := rest, pending := none }) u = rest := by
          simp [todoOf, List.getElem?_set, hlt]
        have e2 : todoOf ths u = op :: rest := by simp [todoOf, hth, htodo]
        rw [e1] at ih'
        rw [h, e2]
        simp only [List.filter_cons, beq_self_eq_true, if_true, List.map_cons]
        exact List.prefix_cons_inj op |>.mpr ih'
      · have e1 : todoOf (ths.set u { todo := rest, pending := none }) t = todoOf ths t := by
          simp [todoOf, List.getElem?_set, hut]
        rw [e1] at ih'
        rw [h]
        have : (u == t) = false := by simpa using hut
        simpa [List.filter_cons, this] using ih'

/-- the same with the hypothesis only about critical sections that a thread can actually reach: `a` is the pre-phase result of
some operation (threads are well formed) -/
theorem invariant_under_every_schedule_wf (m : Machine σ Cfg Op A Out) (cfg : Cfg) (Inv : σ → Prop)
    (hstep : ∀ s op, Inv s → Inv (m.crit s (m.pre cfg op)).1) (sched : List Nat) :
    ∀ (s : σ) (ths : List (Thread Op A)), WellFormed m cfg ths → Inv s → Inv (runSched m cfg s ths sched).1 := by
  induction sched with
  | nil => intro s ths _ h; exact h
  | cons t sched ih =>
    intro s ths wf h
    simp only [runSched]
    have wf' := stepThread_wf m cfg s ths t wf
    rcases stepThread_cases m cfg s ths t with ⟨ths', h'⟩ | ⟨th, a, op, rest, hth, hp, htodo, h'⟩
    · rw [h'] at wf' ⊢
      exact ih _ _ wf' h
    · rw [h'] at wf' ⊢
      obtain ⟨op', rest', h1, h2⟩ := wf th (List.mem_of_getElem? hth) a hp
      subst h2
      exact ih _ _ wf' (hstep s op' h)

end AsmjitVerif.Linearise

/-! ### (d) the allocator of C09 under every schedule -/
namespace AsmjitVerif.JitConc
open AsmjitVerif.JitAlloc AsmjitVerif.Linearise

/-- the lock-free prefix followed by the critical section is exactly C09's sequential step (with the statistics after it) -/
theorem crit_pre (s : St) (op : Op) :
    crit s (pre s.a.cfg op) = ((step s op).1, (step s op).2, (step s op).1.a.stats) := by
  cases op with
  | alloc req =>
    by_cases h0 : alignUp req s.a.cfg.gran = 0
    · simp [pre, crit, step, Alloc.alloc, afterAlloc, h0]
    · by_cases h1 : alignUp req s.a.cfg.gran - 1 ≥ 2147483647
      · simp [pre, crit, step, Alloc.alloc, afterAlloc, h0, h1]
      · simp only [pre, crit, step, Alloc.alloc, afterAlloc, h0, h1, if_false]
        rcases s.a.allocIn (alignUp req s.a.cfg.gran) with ⟨a, (e | sp)⟩ <;> rfl
  | _ => rfl

/-- threads that have not started are well formed -/
theorem threadsOf_wf (cfg : Config) (progs : List (List Op)) : WellFormed jitMachine cfg (threadsOf progs) := by
  intro th hth a ha
  simp only [threadsOf, List.mem_map] at hth
  obtain ⟨p, _, rfl⟩ := hth
  simp at ha

/-- replaying a completion order atomically IS running C09's model on it: same final state, and the observable trace is C09's
`trace` (operation, answer, statistics) -/
theorem runSeq_is_model (cfg : Config) : ∀ (l : List (Nat × Op)) (s : St), Inv s → s.a.cfg = cfg →
    (runSeq jitMachine cfg s l).1 = finalState s (l.map (·.2)) ∧
    observed (runSeq jitMachine cfg s l).2 = trace s (l.map (·.2)) := by
  intro l
  induction l with
  | nil => intro s _ _; exact ⟨rfl, rfl⟩
  | cons x rest ih =>
    intro s hI hc
    obtain ⟨t, op⟩ := x
    have hcp : jitMachine.crit s (jitMachine.pre cfg op) = ((step s op).1, (step s op).2, (step s op).1.a.stats) := by
      subst hc; exact crit_pre s op
    obtain ⟨ih1, ih2⟩ := ih (step s op).1 (hI.step op) (by rw [step_cfg hI op]; exact hc)
    constructor
    · simp only [runSeq, hcp, List.map_cons, finalState]
      exact ih1
    · simp only [runSeq, hcp, List.map_cons, observed] at ih2 ⊢
      simp only [trace, run, List.zip_cons_cons] at ih2 ⊢
      rw [ih2]

/-- **Every schedule is a sequential history of C09's model.**  Any number of threads (`progs`: one list of operations per
thread), any schedule: the allocator state reached and everything the threads observed (answers and the statistics read under
the lock) are exactly what C09's sequential model produces on the order in which the critical sections completed. -/
theorem jit_schedule_is_sequential_history (opts gran blockSize pattern : Nat) (progs : List (List Op)) (sched : List Nat) :
    let cfg := mkConfig opts gran blockSize pattern
    let r := runSched jitMachine cfg (St.init cfg) (threadsOf progs) sched
    r.1 = finalState (St.init cfg) (r.2.2.map (·.op)) ∧
    observed r.2.2 = trace (St.init cfg) (r.2.2.map (·.op)) := by
  intro cfg r
  have hl := atomic_ops_linearise jitMachine cfg sched (St.init cfg) (threadsOf progs) (threadsOf_wf cfg progs)
  have hm := runSeq_is_model cfg (r.2.2.map fun d => (d.tid, d.op)) (St.init cfg)
    (Inv.init cfg (mkConfig_wf opts gran blockSize pattern)) rfl
  rw [hl] at hm
  simpa [List.map_map, Function.comp_def] using hm

/-- **C09's invariant under every schedule** (directly by the invariant rule: every reachable critical section preserves
`Inv` and the immutable configuration) -/
theorem jit_allocator_inv_under_every_schedule (opts gran blockSize pattern : Nat) (progs : List (List Op)) (sched : List Nat) :
    Inv (runSched jitMachine (mkConfig opts gran blockSize pattern) (St.init (mkConfig opts gran blockSize pattern))
      (threadsOf progs) sched).1 := by
  have h := invariant_under_every_schedule_wf jitMachine (mkConfig opts gran blockSize pattern)
    (fun s => Inv s ∧ s.a.cfg = mkConfig opts gran blockSize pattern)
    (by
      intro s op ⟨hI, hc⟩
      have hcp : jitMachine.crit s (jitMachine.pre (mkConfig opts gran blockSize pattern) op) =
          ((step s op).1, (step s op).2, (step s op).1.a.stats) := by rw [← hc]; exact crit_pre s op
      rw [hcp]
      exact ⟨hI.step op, by rw [step_cfg hI op]; exact hc⟩)
    sched (St.init _) (threadsOf progs) (threadsOf_wf _ progs) ⟨Inv.init _ (mkConfig_wf opts gran blockSize pattern), rfl⟩
  exact h.1

/-- the state after any schedule is a sequentially reachable state: every theorem of Props/C09*.lean about reachable states
(disjointness, alignment, exact bit vectors and statistics, contents kept, fill pattern, retention …) applies to it -/
theorem jit_state_reachable_under_every_schedule (opts gran blockSize pattern : Nat) (progs : List (List Op)) (sched : List Nat) :
    ReachableC (runSched jitMachine (mkConfig opts gran blockSize pattern) (St.init (mkConfig opts gran blockSize pattern))
      (threadsOf progs) sched).1 :=
  ⟨opts, gran, blockSize, pattern, _, (jit_schedule_is_sequential_history opts gran blockSize pattern progs sched).1⟩

/-- **With the guarantees of C09**: what the threads of any schedule observe is accepted by C09's independent monitor
(disjoint, aligned, large enough spans; query answers; exact statistics; reuse; retention policy) -/
theorem jit_monitor_accepts_every_schedule (opts gran blockSize pattern : Nat) (progs : List (List Op)) (sched : List Nat) :
    Spec.monitor (Spec.Ghost.init (mkConfig opts gran blockSize pattern))
      (observed (runSched jitMachine (mkConfig opts gran blockSize pattern) (St.init (mkConfig opts gran blockSize pattern))
        (threadsOf progs) sched).2.2) = none := by
  rw [(jit_schedule_is_sequential_history opts gran blockSize pattern progs sched).2]
  exact model_accepted_by_spec opts gran blockSize pattern _

/-- each thread's operations complete in its program order: the completion trace restricted to thread `t` is a prefix of the
program thread `t` was given -/
theorem jit_program_order (cfg : Config) (s : St) (progs : List (List Op)) (sched : List Nat) (t : Nat) :
    (((runSched jitMachine cfg s (threadsOf progs) sched).2.2.filter (fun d => d.tid == t)).map (·.op)) <+: progs.getD t [] := by
  have h := program_order jitMachine cfg sched t s (threadsOf progs)
  have e : todoOf (threadsOf progs) t = progs.getD t [] := by
    simp only [todoOf, threadsOf, List.getElem?_map, List.getD_eq_getElem?_getD]
    cases progs[t]? <;> rfl
  rw [e] at h
  exact h

/-! non-vacuity: two threads, two schedules of the same programs - different completion orders, different answers, and the
theorems above apply to both -/
def exProgs : List (List Op) := [[.alloc 100, .query 0 0], [.alloc 64]]
def exCfg : Config := mkConfig 0 0 0 0
def exRun (sched : List Nat) := runSched jitMachine exCfg (St.init exCfg) (threadsOf exProgs) sched

example : (exRun [0, 1, 1, 0, 0, 0]).2.2.map (·.tid) = [1, 0, 0] := by decide +kernel
example : (exRun [0, 0, 1, 1, 0, 0]).2.2.map (·.tid) = [0, 1, 0] := by decide +kernel
/-- the answers are computed by C09's model on the shared state: thread 0's allocation lands behind thread 1's when thread 1
wins the lock -/
def offOf (d : Done Op (Ans × Stats)) : Nat := match d.out.1 with | .span sp => sp.off | _ => 0
set_option maxRecDepth 100000 in
example : (exRun [1, 1, 0, 0]).2.2.map offOf = [64, 128] := by decide +kernel
/-- the pre-phase is not the identity: it aligns and it rejects -/
example : pre exCfg (.alloc 100) = .allocIn 128 ∧ pre exCfg (.alloc 0) = .reject .InvalidArgument := by decide

end AsmjitVerif.JitConc

/-! ### (f) the program-order check of the driver -/
namespace AsmjitVerif.JitTrace

/-- if the driver's check passes, every thread's own log (operations with the results the caller saw, in program order) is a
subsequence of the lock-order history, and nothing else of that thread is in the history -/
theorem program_order_sublist (threads : Nat) (lin po : List LinEv) (h : programOrderOk threads lin po = true) (t : Nat)
    (ht : t < threads) : (ofThread t po).Sublist lin ∧ ofThread t lin = ofThread t po := by
  simp only [programOrderOk, Bool.and_eq_true, Option.isNone_iff_eq_none] at h
  obtain ⟨⟨h1, _⟩, _⟩ := h
  have h2 := List.find?_eq_none.mp h1 t (List.mem_range.mpr ht)
  have h3 : (ofThread t lin == ofThread t po && seqFrom 0 (ofThread t po)) = true := by simpa using h2
  simp only [Bool.and_eq_true, beq_iff_eq] at h3
  refine ⟨?_, h3.1⟩
  rw [← h3.1]
  exact List.filter_sublist

example : programOrderOk 2 [⟨0, 0, "a"⟩, ⟨1, 0, "b"⟩, ⟨0, 1, "c"⟩] [⟨0, 0, "a"⟩, ⟨0, 1, "c"⟩, ⟨1, 0, "b"⟩] = true := by decide
/-- swapped within a thread, a result that differs from what the caller saw, a critical section the thread never logged -/
example : programOrderOk 2 [⟨0, 1, "c"⟩, ⟨1, 0, "b"⟩, ⟨0, 0, "a"⟩] [⟨0, 0, "a"⟩, ⟨0, 1, "c"⟩, ⟨1, 0, "b"⟩] = false := by decide
example : programOrderOk 2 [⟨0, 0, "a"⟩, ⟨1, 0, "x"⟩] [⟨0, 0, "a"⟩, ⟨1, 0, "b"⟩] = false := by decide
example : programOrderOk 2 [⟨0, 0, "a"⟩, ⟨1, 0, "b"⟩] [⟨0, 0, "a"⟩] = false := by decide

end AsmjitVerif.JitTrace
