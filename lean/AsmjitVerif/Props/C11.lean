/-
C11 — thread safety of the JIT memory manager.

(a) `lock_discipline` (over the event trees regenerated from the clang AST of the current sources): every allocator
    operation documented as thread-safe touches the mutable shared state of the allocator (all fields of the private
    implementation, the pools and the blocks that are not immutable after construction) only while holding the
    allocator's lock, never takes the non-recursive lock twice, and this holds through every callee (inlined to depth 8).
(b) `immutable_fields_only_written_by_constructors`: the fields treated as immutable are assigned only in the functions
    that build or destroy an allocator (which have exclusive access by contract).
(c) `atomic_ops_linearise` (proved once, generic): if every operation is one atomic critical section (what (a) gives),
    every interleaving of any number of threads is a sequential history - so an invariant of the sequential machine
    (C09's `Inv`) and every per-operation guarantee hold under every schedule.
-/
import AsmjitVerif.Gen.LockMap
import AsmjitVerif.Gen.Globals
import AsmjitVerif.Lemmas.Linearise
namespace AsmjitVerif.LockMap

/-- records that are shared between threads through one allocator / runtime -/
def sharedRecords : List String := ["Impl", "JitAllocatorPrivateImpl", "JitAllocatorPool", "JitAllocatorBlock"]

/-- fields of shared records that are written only while the allocator is constructed (reviewed list, checked by (b)) -/
def immutableFields : List (String × String) :=
  [("Impl", "options"), ("Impl", "block_size"), ("Impl", "granularity"), ("Impl", "fill_pattern"),
   ("JitAllocatorPrivateImpl", "lock"), ("JitAllocatorPrivateImpl", "page_size"),
   ("JitAllocatorPrivateImpl", "pools"), ("JitAllocatorPrivateImpl", "pool_count"),
   ("JitAllocatorPool", "granularity"), ("JitAllocatorPool", "granularity_log2")]

/-- a field access needs the lock -/
def prot (r f : String) : Bool := sharedRecords.contains r && !immutableFields.contains (r, f)

/-- operations documented as thread-safe (jitallocator.h / jitruntime.h) -/
def threadSafeOps : List String :=
  ["JitAllocator::alloc", "JitAllocator::release", "JitAllocator::shrink", "JitAllocator::query",
   "JitAllocator::statistics", "JitRuntime::_add", "JitRuntime::_release"]

/-- functions with exclusive access to the allocator by contract (construction, destruction, reset) -/
def exclusiveFns : List String :=
  ["JitAllocator_new_impl", "JitAllocator_destroy_impl", "JitAllocatorPrivateImpl::JitAllocatorPrivateImpl",
   "JitAllocatorPool::JitAllocatorPool", "JitAllocator::JitAllocator", "JitAllocator::~JitAllocator"]

set_option maxRecDepth 100000 in
theorem lock_discipline : ∀ f ∈ threadSafeOps, disciplined lockMap prot 8 f = true := by
  decide +kernel

set_option maxRecDepth 100000 in
theorem immutable_fields_only_written_by_constructors :
    ∀ fb ∈ lockMap, ¬ exclusiveFns.contains fb.1 → ∀ w ∈ writesOfEvs fb.2, ¬ immutableFields.contains w := by
  decide +kernel

/-- every thread-safe operation really is in the regenerated map (non-vacuity of `lock_discipline`) -/
theorem thread_safe_ops_present : ∀ f ∈ threadSafeOps, (lookup lockMap f).isSome = true := by
  decide +kernel

/-- static-storage variables of the library that live in writable memory (`nm` of the compiled objects, sections
.data/.bss) and are therefore potentially shared mutable state behind the API.  Reviewed allow-list:
init-once caches (host CPU info, virtual-memory info, large-page size, hardened-runtime info) whose initialisation
is idempotent and guarded by atomics / C++ function-local static initialisation. -/
def allowedGlobals : List String :=
  [ -- CpuInfo::host(): init-once cache guarded by an atomic flag (the property is stated "once the host information
    -- has been initialised")
    "asmjit::CpuInfo::host()::cpu_info_global", "asmjit::CpuInfo::host()::cpu_info_initialized_flag",
    "guard variable for asmjit::CpuInfo::host()::cpu_info_global",
    -- virtmem.cpp: std::atomic init-once caches and one atomic counter
    "asmjit::VirtMem::info()::vm_info", "asmjit::VirtMem::info()::vm_info_initialized",
    "asmjit::VirtMem::large_page_size()::large_page_size",
    "asmjit::VirtMem::get_mfd_exec_flag()::cached_mfd_exec_supported",
    "asmjit::VirtMem::generate_random_bits(unsigned long, unsigned int)::internal_counter",
    "asmjit::VirtMem::has_hardened_runtime()::cached_hardened_flag",
    "asmjit::VirtMem::get_anonymous_memory_strategy(asmjit::VirtMem::AnonymousMemoryStrategy*)::cached_strategy",
    -- the verification hook H1 itself (exists only with -DASMJIT_VERIF; null unless a harness sets it)
    "asmjit_verif_arena_fail" ]

/-- there is no other mutable global: threads that use their own holders/emitters share nothing writable -/
theorem no_mutable_globals : ∀ g ∈ mutableGlobals, allowedGlobals.contains g = true := by
  decide +kernel

end AsmjitVerif.LockMap

namespace AsmjitVerif.Linearise
variable {σ Cfg Op A Out : Type}

/-- **Every interleaving is a sequential history.** The completion trace of any schedule, replayed atomically in that
order by the sequential machine, yields the same final shared state and the same result for every operation. -/
theorem atomic_ops_linearise (m : Machine σ Cfg Op A Out) (cfg : Cfg) (sched : List Nat) :
    ∀ (s : σ) (ths : List (Thread Op A)), WellFormed m cfg ths →
      runSeq m cfg s ((runSched m cfg s ths sched).2.2.map fun d => (d.tid, d.op)) =
        ((runSched m cfg s ths sched).1, (runSched m cfg s ths sched).2.2) := by
  induction sched with
  | nil => intro s ths _; rfl
  | cons t sched ih =>
    intro s ths wf
    have wf' := stepThread_wf m cfg s ths t wf
    have ih' := ih (stepThread m cfg s ths t).1 (stepThread m cfg s ths t).2.1 wf'
    simp only [runSched]
    rcases stepThread_cases m cfg s ths t with ⟨ths', h⟩ | ⟨th, a, op, rest, hth, hp, htodo, h⟩
    · rw [h] at ih' ⊢
      simpa using ih'
    · rw [h] at ih' ⊢
      have hth' : th ∈ ths := List.mem_of_getElem? hth
      obtain ⟨op', rest', h1, h2⟩ := wf th hth' a hp
      rw [htodo] at h1
      cases h1
      subst h2
      simp only [List.map_cons, runSeq]
      simp only [] at ih'
      rw [ih']

/-- Consequently an invariant of the sequential machine holds after every schedule … -/
theorem invariant_under_every_schedule (m : Machine σ Cfg Op A Out) (cfg : Cfg) (Inv : σ → Prop)
    (hstep : ∀ s a, Inv s → Inv (m.crit s a).1) (sched : List Nat) :
    ∀ (s : σ) (ths : List (Thread Op A)), Inv s → Inv (runSched m cfg s ths sched).1 := by
  induction sched with
  | nil => intro s ths h; exact h
  | cons t sched ih =>
    intro s ths h
    simp only [runSched]
    apply ih
    rcases stepThread_cases m cfg s ths t with ⟨ths', h'⟩ | ⟨th, a, op, rest, _, _, _, h'⟩
    · rw [h']; exact h
    · rw [h']; exact hstep s a h

/-- … and each thread's operations complete in program order: the trace restricted to thread `t` is a prefix of
the operations thread `t` was given. -/
theorem program_order (m : Machine σ Cfg Op A Out) (cfg : Cfg) (sched : List Nat) (t : Nat) :
    ∀ (s : σ) (ths : List (Thread Op A)),
      (((runSched m cfg s ths sched).2.2.filter (fun d => d.tid == t)).map (·.op)) <+: todoOf ths t := by
  induction sched with
  | nil => intro s ths; simp [runSched]
  | cons u sched ih =>
    intro s ths
    simp only [runSched]
    have ih' := ih (stepThread m cfg s ths u).1 (stepThread m cfg s ths u).2.1
    rcases stepThread_cases m cfg s ths u with ⟨ths', h⟩ | ⟨th, a, op, rest, hth, hp, htodo, h⟩
    · have htd := stepThread_todo_of_none m cfg s ths u t (by rw [h])
      rw [htd] at ih'
      rw [h] at ih' ⊢
      simpa using ih'
    · rw [h] at ih'
      simp only [] at ih'
      by_cases hut : u = t
      · subst hut
        obtain ⟨hlt, heq⟩ := List.getElem?_eq_some_iff.mp hth
        have e1 : todoOf (ths.set u { todo := rest, pending := none }) u = rest := by
          simp [todoOf, List.getElem?_set, hlt]
        have e2 : todoOf ths u = op :: rest := by simp [todoOf, hth, htodo]
        rw [e1] at ih'
        rw [h, e2]
        simp only [List.filter_cons, beq_self_eq_true, if_true, List.map_cons]
        exact List.prefix_cons_inj op |>.mpr ih'
      · have e1 : todoOf (ths.set u { todo := rest, pending := none }) t = todoOf ths t := by
          simp [todoOf, List.getElem?_set, hut]
        rw [e1] at ih'
        rw [h]
        have : (u == t) = false := by simpa using hut
        simpa [List.filter_cons, this] using ih'

end AsmjitVerif.Linearise
