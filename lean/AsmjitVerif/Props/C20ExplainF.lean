/- C20 — kExplainImms annotations tell the truth about every immediate byte (see Props/C20Explain.lean), part F. -/
import AsmjitVerif.Props.C20Explain

namespace AsmjitVerif.Props.C20

set_option maxRecDepth 100000 in
theorem annotation_truth_getmant_range : annotationTruth
    ["vgetmantpd", "vgetmantps", "vgetmantsd", "vgetmantss", "vrangepd", "vrangeps", "vrangesd", "vrangess"] = true := by decide +kernel

end AsmjitVerif.Props.C20
