/-
C02, end-to-end for the `#lsb, #width` bit-field aliases: kEncodingBaseBfi (bfi, sbfiz, ubfiz) and kEncodingBaseBfx (bfxil, sbfx,
ubfx).  The arithmetic of immr / imms is isolated in two small lemmas; that the resulting BFM/SBFM/UBFM does what the alias
means is C17's `bitfield_alias_roundtrip`.
-/
import AsmjitVerif.Props.C02RR
namespace AsmjitVerif.C02
open AsmjitVerif.A64 AsmjitVerif.A64Asm AsmjitVerif.A64Spec AsmjitVerif.Gen.A64Tables

/-- `(-lsb) mod size` as the source computes it in 32-bit arithmetic -/
theorem bfi_immr (l sz : Nat) (hsz : sz = 32 ∨ sz = 64) (hl : l < sz) : (2 ^ 32 - l % 2 ^ 32) % 2 ^ 32 % sz = (sz - l) % sz := by
  rcases hsz with h | h <;> subst h <;> omega

theorem bfx_imms (l wd sz : Nat) (hsz : sz = 32 ∨ sz = 64) (hl : l < sz) (hw : wd ≤ sz) (hw0 : 0 < wd) : (l + wd - 1) % 2 ^ 32 = l + wd - 1 := by
  rcases hsz with h | h <;> subst h <;> omega

/-- W/X selection shared by both classes -/
theorem wx_cases (o0 : Reg) (t0 : checkGpType o0 kWX = true) :
    (o0.rt = rtGp32 ∧ xOf o0 kWX = 0) ∨ (o0.rt = rtGp64 ∧ xOf o0 kWX = 1) := by
  have hr := gp_rt_of_check o0 kWX (by decide) t0
  rcases hr with a | a <;> simp [xOf, a, rtGp32, rtGp64, kWX]

theorem bfi_accepts_facts (opc : Nat) (o0 o1 : Reg) (lsb width : BitVec 64) (ws : List (BitVec 32)) (h : emitBfi opc o0 o1 lsb width = .ok ws) :
    checkGpType o0 kWX = true ∧ o0.rt = o1.rt ∧ checkGpId o0 idZR = true ∧ checkGpId o1 idZR = true ∧
    lsb.toNat < opWidth (o0.rt == rtGp64) ∧ 0 < width.toNat ∧ lsb.toNat + width.toNat ≤ opWidth (o0.rt == rtGp64) ∧
    ws = [w32 opc ||| addImm (xOf o0 kWX) 31 ||| addImm (xOf o0 kWX) 22 |||
          addImm ((opWidth (o0.rt == rtGp64) - lsb.toNat) % opWidth (o0.rt == rtGp64)) 16 ||| addImm (width.toNat - 1) 10 |||
          addReg o1.id 5 ||| addReg o0.id 0] := by
  unfold emitBfi at h
  by_cases t0 : checkGpType o0 kWX = true
  · by_cases s1 : o0.sameSig o1 = true
    · by_cases i01 : (checkGpId o0 idZR && checkGpId o1 idZR) = true
      · simp only [t0, s1, i01, Bool.not_true, Bool.false_eq_true, if_false] at h
        have hsz : (if (xOf o0 kWX != 0) = true then 64 else 32) = opWidth (o0.rt == rtGp64) := by
          rcases wx_cases o0 t0 with ⟨a, b⟩ | ⟨a, b⟩ <;> simp [a, b, opWidth, rtGp32, rtGp64]
        rw [hsz] at h
        have hsz2 : opWidth (o0.rt == rtGp64) = 32 ∨ opWidth (o0.rt == rtGp64) = 64 := by
          unfold opWidth; split <;> simp
        generalize opWidth (o0.rt == rtGp64) = sz at *
        by_cases c : (decide (lsb.toNat ≥ sz) || width == 0 || decide (width.toNat > sz - lsb.toNat)) = true
        · rw [if_pos c] at h; simp [invalidImmediate] at h
        · rw [if_neg c] at h
          simp only [ok1, Result.ok.injEq] at h
          simp only [Bool.or_eq_true, decide_eq_true_eq, beq_iff_eq, not_or, Nat.not_le, Nat.not_lt] at c
          obtain ⟨⟨c1, c2⟩, c3⟩ := c
          have hw0 : 0 < width.toNat := by
            rcases Nat.eq_zero_or_pos width.toNat with z | z
            · exact absurd (BitVec.eq_of_toNat_eq (by simpa using z)) c2
            · exact z
          have hrt : o0.rt = o1.rt := by
            unfold Reg.sameSig at s1; simp only [Bool.and_eq_true, beq_iff_eq] at s1; exact s1.1.1.1
          simp only [Bool.and_eq_true] at i01
          refine ⟨t0, hrt, i01.1, i01.2, c1, hw0, by omega, ?_⟩
          rw [← h, bfi_immr lsb.toNat sz hsz2 c1]
      · simp [t0, s1, i01, invalidPhysId] at h
    · simp [t0, s1, invalidInstruction] at h
  · simp [t0, invalidInstruction] at h

theorem bfx_accepts_facts (opc : Nat) (o0 o1 : Reg) (lsb width : BitVec 64) (ws : List (BitVec 32)) (h : emitBfx opc o0 o1 lsb width = .ok ws) :
    checkGpType o0 kWX = true ∧ o0.rt = o1.rt ∧ checkGpId o0 idZR = true ∧ checkGpId o1 idZR = true ∧
    lsb.toNat < opWidth (o0.rt == rtGp64) ∧ 0 < width.toNat ∧ lsb.toNat + width.toNat ≤ opWidth (o0.rt == rtGp64) ∧
    ws = [w32 opc ||| addImm (xOf o0 kWX) 31 ||| addImm (xOf o0 kWX) 22 ||| addImm lsb.toNat 16 ||| addImm (lsb.toNat + width.toNat - 1) 10 |||
          addReg o1.id 5 ||| addReg o0.id 0] := by
  unfold emitBfx at h
  by_cases t0 : checkGpType o0 kWX = true
  · by_cases s1 : o0.sameSig o1 = true
    · by_cases i01 : (checkGpId o0 idZR && checkGpId o1 idZR) = true
      · simp only [t0, s1, i01, Bool.not_true, Bool.false_eq_true, if_false] at h
        have hsz : (if (xOf o0 kWX != 0) = true then 64 else 32) = opWidth (o0.rt == rtGp64) := by
          rcases wx_cases o0 t0 with ⟨a, b⟩ | ⟨a, b⟩ <;> simp [a, b, opWidth, rtGp32, rtGp64]
        rw [hsz] at h
        have hsz2 : opWidth (o0.rt == rtGp64) = 32 ∨ opWidth (o0.rt == rtGp64) = 64 := by
          unfold opWidth; split <;> simp
        generalize opWidth (o0.rt == rtGp64) = sz at *
        by_cases c : (decide (lsb.toNat ≥ sz) || width == 0 || decide (width.toNat > sz)) = true
        · rw [if_pos c] at h; simp [invalidImmediate] at h
        · rw [if_neg c] at h
          (try dsimp only at h)
          simp only [Bool.or_eq_true, decide_eq_true_eq, beq_iff_eq, not_or, Nat.not_le, Nat.not_lt] at c
          obtain ⟨⟨c1, c2⟩, c3⟩ := c
          have hw0 : 0 < width.toNat := by
            rcases Nat.eq_zero_or_pos width.toNat with z | z
            · exact absurd (BitVec.eq_of_toNat_eq (by simpa using z)) c2
            · exact z
          rw [bfx_imms lsb.toNat width.toNat sz hsz2 c1 c3 hw0] at h
          by_cases c4 : lsb.toNat + width.toNat - 1 ≥ sz
          · rw [if_pos c4] at h; simp [invalidImmediate] at h
          · rw [if_neg c4] at h
            simp only [ok1, Result.ok.injEq] at h
            have hrt : o0.rt = o1.rt := by
              unfold Reg.sameSig at s1; simp only [Bool.and_eq_true, beq_iff_eq] at s1; exact s1.1.1.1
            simp only [Bool.and_eq_true] at i01
            exact ⟨t0, hrt, i01.1, i01.2, c1, hw0, by omega, h.symm⟩
      · simp [t0, s1, i01, invalidPhysId] at h
    · simp [t0, s1, invalidInstruction] at h
  · simp [t0, invalidInstruction] at h

/-- **End-to-end, kEncodingBaseBfi** (bfi, sbfiz, ubfiz  Rd, Rn, #lsb, #width) -/
theorem bfi_end_to_end (r : InstRow) (hr : r ∈ instTable.toList) (henc : r.enc = encBaseBfi)
    (d : BaseBfiRow) (hd : baseBfi[r.idx]? = some d) (o0 o1 : Reg) (lsb width : BitVec 64) (p1 p2 : Nat)
    (wf0 : GpWellFormed o0) (wf1 : GpWellFormed o1) (ws : List (BitVec 32)) (pc : BitVec 64)
    (h : emitBfi d.opcode o0 o1 lsb width = .ok ws) :
    judge (formsNamed r.name) r.name [.reg o0, .reg o1, .imm lsb p1, .imm width p2] pc (.ok ws) = .full := by
  have hrow := (List.all_eq_true.mp rows_baseBfi_have_forms) r hr
  simp only [henc, bne_self_eq_false, Bool.false_or, hd] at hrow
  obtain ⟨t0, e1, i0, i1, hl, hw0, hlw, hws⟩ := bfi_accepts_facts d.opcode o0 o1 lsb width ws h
  subst hws
  have hsz2 : opWidth (o0.rt == rtGp64) = 32 ∨ opWidth (o0.rt == rtGp64) = 64 := by unfold opWidth; split <;> simp
  refine bitfield_class_end_to_end r.name d.opcode bfiTail hrow o0 o1 wf0 wf1 [.imm lsb p1, .imm width p2]
    ((opWidth (o0.rt == rtGp64) - lsb.toNat) % opWidth (o0.rt == rtGp64)) (width.toNat - 1) t0 e1 i0 i1 ?_ ?_ ?_ ?_ ?_ pc
  · rcases hsz2 with a | a <;> rw [a] <;> omega
  · rcases hsz2 with a | a <;> rw [a] at hlw <;> omega
  · intro t rest ht; injection ht with h1 _; subst h1; simp
  · intro rr v pp; simp
  · intro c g1 g2
    have hc : ¬((opWidth (o0.rt == rtGp64) ≤ lsb.toNat ∨ width.toNat = 0) ∨ opWidth (o0.rt == rtGp64) < lsb.toNat + width.toNat) := by omega
    simp only [bfiTail, matchOps, matchOp, g1, g2]
    simp [hc]

/-- **End-to-end, kEncodingBaseBfx** (bfxil, sbfx, ubfx  Rd, Rn, #lsb, #width) -/
theorem bfx_end_to_end (r : InstRow) (hr : r ∈ instTable.toList) (henc : r.enc = encBaseBfx)
    (d : BaseBfxRow) (hd : baseBfx[r.idx]? = some d) (o0 o1 : Reg) (lsb width : BitVec 64) (p1 p2 : Nat)
    (wf0 : GpWellFormed o0) (wf1 : GpWellFormed o1) (ws : List (BitVec 32)) (pc : BitVec 64)
    (h : emitBfx d.opcode o0 o1 lsb width = .ok ws) :
    judge (formsNamed r.name) r.name [.reg o0, .reg o1, .imm lsb p1, .imm width p2] pc (.ok ws) = .full := by
  have hrow := (List.all_eq_true.mp rows_baseBfx_have_forms) r hr
  simp only [henc, bne_self_eq_false, Bool.false_or, hd] at hrow
  obtain ⟨t0, e1, i0, i1, hl, hw0, hlw, hws⟩ := bfx_accepts_facts d.opcode o0 o1 lsb width ws h
  subst hws
  have hsz2 : opWidth (o0.rt == rtGp64) = 32 ∨ opWidth (o0.rt == rtGp64) = 64 := by unfold opWidth; split <;> simp
  refine bitfield_class_end_to_end r.name d.opcode bfxTail hrow o0 o1 wf0 wf1 [.imm lsb p1, .imm width p2]
    lsb.toNat (lsb.toNat + width.toNat - 1) t0 e1 i0 i1 ?_ ?_ ?_ ?_ ?_ pc
  · rcases hsz2 with a | a <;> rw [a] at hl <;> omega
  · rcases hsz2 with a | a <;> rw [a] at hlw <;> omega
  · intro t rest ht; injection ht with h1 _; subst h1; simp
  · intro rr v pp; simp
  · intro c g1 g2
    have hc : ¬((opWidth (o0.rt == rtGp64) ≤ lsb.toNat ∨ width.toNat = 0) ∨ opWidth (o0.rt == rtGp64) < lsb.toNat + width.toNat) := by omega
    simp only [bfxTail, matchOps, matchOp, g1, g2]
    simp [hc]

end AsmjitVerif.C02
