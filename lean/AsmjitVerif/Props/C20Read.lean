/-
  C20 (fourth file) — names read back: labels (all printed forms), virtual registers, and the head of an x86 instruction line.

  These discharge the name hypotheses (`LabelOK`, `RegOK`) of `x86_mem_parse_back` / `a64_mem_parse_back` from *structural*,
  decidable conditions on the emitter's tables (the CodeHolder invariant "a (name, parent) pair is unique", identifier-like names,
  no collision with register names) instead of assuming that the reader resolves them.

  Whole-line parse-back: `x86_head_parse_back` proves the first half for every instruction id, every option set and every flag
  combination — the reader recovers exactly the option words printed (`{vex} {vex3} {evex} {modrm}|{modmr} short long xacquire
  xrelease lock rep|repnz [{reg}] rex`) and is positioned at the mnemonic, which `inst_names_match_headers` /
  `alias_names_denote_same_instruction` identify with the instruction id. The operand-list half (`, ` separators, `{k}{z}`,
  `{1toN}`, `{er}/{sae}`) is NOT proved: the reader is now structural (`readChunks`, `readChunk`, `suffixStep` are folds over the
  same piece lexer) and is evaluated by the monitor on every line; see notes/C20.md.
-/
import AsmjitVerif.Lemmas.FormatLine

namespace AsmjitVerif.Props.C20
open AsmjitVerif.Format AsmjitVerif.FormatText AsmjitVerif.Lemmas.FormatX86Mem
open AsmjitVerif.Lemmas.FormatLabels AsmjitVerif.Lemmas.FormatNames AsmjitVerif.Lemmas.FormatLine

set_option maxRecDepth 1000000

/-! ## labels -/

/-- every form `Formatter::format_label` prints — `L7`, `name`, `parent.name`, `L3.name`, `L7@name`, `parent.L7@name` — reads back
    to the label id, under the table conditions `LabelWF` (names without `.`/`@`, not of the form `L<digits>`, and the name lookup
    `labelIdByName` finds this label, i.e. (name, parent) is unique) -/
theorem label_parse_back (env : Env) (ls : List LabelEntry) (id : Nat) (le : LabelEntry) (hl : env.labels = some ls)
    (wf : LabelWF ls id le) : parseLabel env (formatLabel env id) = some id := label_read env ls id le hl wf

/-- without a code holder every label is `L<id>` and reads back -/
theorem label_parse_back_nocode (env : Env) (id : Nat) (hl : env.labels = none) (hid : id < two64) :
    parseLabel env (formatLabel env id) = some id := label_read_nocode env id hl hid

/-- an anonymous label is a readable name (the `LabelOK` hypothesis of the memory-operand theorems) as soon as no virtual register
    was given the name `L<id>` -/
theorem anon_label_readable (env : Env) (id : Nat) (hid : id < two64)
    (hanon : env.labels = none ∨ ∃ ls le, env.labels = some ls ∧ ls[id]? = some le ∧ le.name = [])
    (hv : ∀ v ∈ env.vregs.getD [], v.name ≠ 'L' :: uintStr id 10) : LabelOK env id := anon_labelOK env id hid hanon hv

/-- a named label is a readable name when its text is name-like and is no register's name (both decidable) -/
theorem named_label_readable (env : Env) (ls : List LabelEntry) (id : Nat) (le : LabelEntry) (hl : env.labels = some ls)
    (wf : LabelWF ls id le) (hlike : nameLikeB (formatLabel env id) = true) (hnoreg : parseReg env (formatLabel env id) = none) :
    LabelOK env id := labelOK_of_wf env ls id le hl wf hlike hnoreg

/-! ## virtual registers -/

/-- x86: a valid virtual register — its own name or `%index`, with or without the `@type` suffix of kRegType / kRegCasts — reads back
    to that virtual register (and, when shown, to the register type it is used as) -/
theorem x86_virt_reg_readable (flags : Nat) (env : Env) (t id : Nat) (v : VirtReg) (idx : Nat)
    (hv : virtLookup env id = some (v, idx)) (ok : VirtNameOK env v idx) (ht : t ≤ 31) :
    RegOK env (x86FormatRegister flags env t id) t id := x86_virt_regOK flags env t id v idx hv ok ht

theorem a64_virt_reg_readable (env : Env) (t id : Nat) (v : VirtReg) (idx : Nat)
    (hv : virtLookup env id = some (v, idx)) (ok : VirtNameOK env v idx) :
    RegOK env (armFormatRegister env t id) t id := a64_virt_regOK env t id v idx hv ok

/-! ## the head of an x86 instruction line -/

/-- for every instruction id, option set, extra register and flag combination the reader recovers exactly the option words
    `format_instruction` printed and stops at the mnemonic -/
theorem x86_head_parse_back (flags : Nat) (env : Env) (instId options : Nat) (extra : ExtraReg) (rest : Str)
    (hid : instId < x86InstCount)
    (hrep : extra.isReg = true → ∀ c ∈ repWord flags env extra, notSpace c = true)
    (hr : rest = [] ∨ ∃ r, rest = ' ' :: r) :
    readHeadWords ((x86FormatHead flags env instId options extra ++ rest).length + 1) (x86FormatHead flags env instId options extra ++ rest) =
      (x86HeadWords flags env options extra, x86InstName flags instId ++ rest) :=
  head_read flags env instId options extra rest hid hrep hr

/-! ## non-vacuity -/

def lsEx : List LabelEntry :=
  [ { type := 0, name := [], parent := none },                       -- 0: L0
    { type := 2, name := "main".toList, parent := none },            -- 1: main
    { type := 1, name := "loop".toList, parent := some 1 },          -- 2: main.loop
    { type := 1, name := "inner".toList, parent := some 0 },         -- 3: L0.inner
    { type := 0, name := "tmp".toList, parent := none } ]            -- 4: L4@tmp
def envEx : Env := { arch := .x64, labels := some lsEx, vregs := some [{ name := [], regType := 5 }, { name := "acc".toList, regType := 6 }] }

example : (List.range 5).map (formatLabel envEx) =
    ["L0".toList, "main".toList, "main.loop".toList, "L0.inner".toList, "L4@tmp".toList] := by decide +kernel
example : (List.range 5).map (fun i => parseLabel envEx (formatLabel envEx i)) = [some 0, some 1, some 2, some 3, some 4] := by decide +kernel

theorem lsEx_loop_wf : LabelWF lsEx 2 { type := 1, name := "loop".toList, parent := some 1 } where
  here := by decide
  small := by decide
  shape := Or.inr ⟨by decide, by decide, by decide, Or.inr ⟨by decide, by decide, by decide +kernel⟩,
    ⟨by decide, { type := 2, name := "main".toList, parent := none }, by decide,
      Or.inr ⟨by decide, by decide, by decide, by decide +kernel⟩⟩⟩

example : parseLabel envEx (formatLabel envEx 2) = some 2 := label_parse_back envEx lsEx 2 _ rfl lsEx_loop_wf

example : x86FormatRegister ffRegType envEx 5 256 = "%0@gpd".toList ∧ x86FormatRegister 0 envEx 6 257 = "acc".toList := by decide +kernel
example : monRegister envEx 5 256 (x86FormatRegister ffRegType envEx 5 256) = true ∧
          monRegister envEx 4 257 (x86FormatRegister ffRegCasts envEx 4 257) = true := by decide +kernel

example : x86FormatHead 0 envEx 9 (ioLock ||| ioXAcquire) { type := 0, group := 0, id := 0 } = "xacquire lock add".toList := by decide +kernel

end AsmjitVerif.Props.C20
