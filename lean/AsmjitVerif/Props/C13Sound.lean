/-
C13 (`validate_sound`, table level): the x86 signature rows admit nothing the ISA database does not have.

For every instruction id, every signature row of the regenerated `_inst_signature_table` / `_op_signature_table`, every
mode of the row and EVERY tuple of operand kinds the row admits (one kind per operand position, implicit operands
included) there is a form of that instruction in db/isa_x86.json (read by tools/x86just.py, independently of
tools/tablegen-x86.js) that is allowed in that mode, has that many operands and admits every kind of the tuple at its
position - tuple-exact, not only per position: the generator's merging of forms into rows adds no cross products.
"Admits" includes the three documented readings of Spec/X86Sound.lean (memory without size, branch target as absolute
immediate, `lea` memory of any size): without them exactly 158 of 20 299 (row, mode, kind-tuple) combinations are beyond
the database, all of these two kinds (`lea r, sized mem`; `call/jmp/jcc/loop/jecxz/xbegin imm`), and the assembler
encodes both as documented.

Lifting to the validator model: `matchSignatures_true` (a successful validation stopped at a row of the right mode whose
operand loop accepted every operand with `imm_out_of_range` clear), `checkOpSig_common` + `common_bit` (each accepted
operand shares a single kind bit with its reference operand) and `row_tuple_sound` below (every such choice of kinds is a
database form). NOT yet composed into one statement about `validateR`: the position bookkeeping of the
implicit-operand-skipping loop (`Embeds` in Spec/X86Sound.lean) is stated but its proof is unfinished.
-/
import AsmjitVerif.Lemmas.X86Sound
import AsmjitVerif.Gen.X86JustAll
namespace AsmjitVerif.C13Sound
open AsmjitVerif.X86Validate AsmjitVerif.X86Sound AsmjitVerif.Gen.X86Just

/-- every instruction id has an entry, every entry is checked against the regenerated tables -/
theorem sig_rows_sound : ∀ part ∈ parts, ∀ e ∈ part, ∃ R, resolve AsmjitVerif.Gen.X86Sig.tables e.1 = some R ∧
    R.rows ≠ [] ∧ ∀ row ∈ R.rows, rowSound e.2 row = true := by
  intro part hp e he
  have h := (List.all_eq_true.mp (all_sound part hp)) e he
  unfold instSound at h
  cases hr : resolve AsmjitVerif.Gen.X86Sig.tables e.1 with
  | none => rw [hr] at h; exact absurd h (by simp)
  | some R =>
    rw [hr] at h
    simp only [Bool.and_eq_true, Bool.not_eq_true', List.all_eq_true] at h
    exact ⟨R, rfl, by intro e0; rw [e0] at h; simp at h, h.2⟩

/-- what a checked row means: in a mode of the row, any choice of one admitted kind per position is an instance of a
    database form of the instruction (allowed in that mode, same operand count) -/
theorem row_tuple_sound (forms : List DbForm) (row : Nat × Nat × Nat × List (Nat × Nat)) (h : rowSound forms row = true)
    (mb : Nat) (hmb : mb = 1 ∨ mb = 2) (hmode : row.2.1 &&& mb ≠ 0) (choice : List Nat)
    (hc : All2 (fun b r => b ∈ bitsOf r) choice (row.2.2.2.map fun r => r.1 &&& fOpMask)) :
    ∃ f ∈ forms, f.1 &&& mb ≠ 0 ∧ f.2.length = row.1 ∧ All2 (fun k b => k &&& b ≠ 0) f.2 choice := by
  unfold rowSound at h
  simp only [Bool.and_eq_true, List.all_cons, List.all_nil, Bool.and_true, Bool.or_eq_true, beq_iff_eq] at h
  obtain ⟨_, h1, h2⟩ := h
  have hcov : covers ((forms.filter fun f => f.1 &&& mb != 0 && f.2.length == row.1).map (·.2))
      (row.2.2.2.map fun r => r.1 &&& fOpMask) = true := by
    rcases hmb with e | e
    · subst e; rcases h1 with h1 | h1
      · exact absurd h1 hmode
      · exact h1
    · subst e; rcases h2 with h2 | h2
      · exact absurd h2 hmode
      · exact h2
  obtain ⟨f2, hf2, hall⟩ := covers_spec _ _ choice hcov hc
  obtain ⟨f, hf, e⟩ := List.mem_map.mp hf2
  have ⟨hfm, hp⟩ := List.mem_filter.mp hf
  simp only [Bool.and_eq_true, bne_iff_ne, ne_eq, beq_iff_eq] at hp
  exact ⟨f, hfm, hp.1, hp.2, by rw [e]; exact hall⟩

/-- `validate_sound` (signature layer): when the signature loop of the validator model accepts the translated operands
    `sigs` in mode `mode`, there are a row of the instruction and a database form of the instruction - allowed in that
    mode, with the row's operand count - in which the operands sit (`Embeds`): every spelled operand shares an operand
    kind with the form at its position, unspelled positions are implicit operands of the row. `forms` are the database
    forms `rowSound` was kernel-checked against (`sig_rows_sound`). -/
theorem validate_sound (forms : List DbForm) (rows : List (Nat × Nat × Nat × List (Nat × Nat)))
    (hrows : ∀ row ∈ rows, rowSound forms row = true) (mode : Nat) (hmode : mode = 1 ∨ mode = 2)
    (sigs : List (Nat × Nat)) (g' : Bool) (h : matchSignatures mode sigs rows false = (true, g')) :
    ∃ row ∈ rows, ∃ f ∈ forms, f.1 &&& mode ≠ 0 ∧ f.2.length = row.1 ∧ Embeds sigs row.2.2.2 f.2 := by
  obtain ⟨row, hrow, hm, hcase⟩ := matchSignatures_true mode sigs rows false g' h
  have hs := hrows row hrow
  have hs' := hs
  unfold rowSound at hs'
  simp only [Bool.and_eq_true, beq_iff_eq] at hs'
  obtain ⟨⟨hlen, hnz⟩, _⟩ := hs'
  have hemb : ∃ choice, All2 (fun b r => b ∈ bitsOf r) choice (row.2.2.2.map fun r => r.1 &&& fOpMask) ∧
      ∀ f : List Nat, All2 (fun k b => k &&& b ≠ 0) f choice → Embeds sigs row.2.2.2 f := by
    rcases hcase with ⟨h1, h2⟩ | ⟨_, _, h3⟩
    · exact embeds_of_explicit sigs row.2.2.2 false hnz (by omega) h2
    · exact embeds_of_skipping sigs row.2.2.2 false hnz h3
  obtain ⟨choice, hc1, hc2⟩ := hemb
  obtain ⟨f, hf, hfm, hfl, hall⟩ := row_tuple_sound forms row hs mode hmode hm choice hc1
  exact ⟨row, hrow, f, hf, hfm, hfl, hc2 f.2 hall⟩

/-- the validator model answered Ok: the operand translation succeeded and the signature stage accepted its result -/
theorem validateR_stages (R : ResolvedInst) (inst : Inst) (ops : List Operand) (h : validateR R inst ops = .ok) :
    ∃ sigs cf cm, sigStage R inst ops = .ok (sigs, cf, cm) ∧ matchStage R inst.mode sigs = .ok := by
  unfold validateR at h
  simp only at h
  split at h
  · rename_i hne; exact absurd h hne
  · split at h
    · rename_i e he; exact absurd h e.2
    · rename_i sigs cf cm he
      split at h
      · rename_i hne; exact absurd h hne
      · rename_i hm; exact ⟨sigs, cf, cm, he, by simpa using hm⟩

theorem matchStage_ok (R : ResolvedInst) (mode : Nat) (sigs : List (Nat × Nat)) (h : matchStage R mode sigs = .ok)
    (hne : R.rows.isEmpty = false) : ∃ g', matchSignatures mode sigs R.rows false = (true, g') := by
  unfold matchStage at h
  rw [hne] at h
  simp only [Bool.false_eq_true, if_false] at h
  cases hm : matchSignatures mode sigs R.rows false with
  | mk m g =>
    rw [hm] at h
    simp only at h
    cases m with
    | true => exact ⟨g, rfl⟩
    | false => cases g <;> simp at h

/-- **`validate_sound`, about the whole validator model**: if `validate` over the regenerated tables answers Ok for an
    instruction (any options, any {extra} register, any operands, 32- or 64-bit mode), then the operand translation
    succeeded with signatures `sigs` and there are a signature row of the instruction and a form of that instruction in
    db/isa_x86.json - allowed in that mode, with the row's operand count - in which the given operands sit (`Embeds`):
    every spelled operand shares an operand kind with the database form at its position and the positions not spelled
    are implicit operands. Hence a near-miss tuple whose kinds no database form of the instruction admits position by
    position is refused. (`e` ranges over the generated per-instruction form lists, `all_ids`: every id has one.) -/
theorem validate_sound_model : ∀ part ∈ parts, ∀ e ∈ part, ∀ (inst : Inst) (ops : List Operand),
    inst.id = e.1 → (inst.mode = 1 ∨ inst.mode = 2) → validate AsmjitVerif.Gen.X86Sig.tables inst ops = .ok →
    ∃ R sigs cf cm, resolve AsmjitVerif.Gen.X86Sig.tables inst.id = some R ∧ sigStage R inst ops = .ok (sigs, cf, cm) ∧
      ∃ row ∈ R.rows, ∃ f ∈ e.2, f.1 &&& inst.mode ≠ 0 ∧ f.2.length = row.1 ∧ Embeds sigs row.2.2.2 f.2 := by
  intro part hp e he inst ops hid hmode hv
  obtain ⟨R, hres, hne, hrows⟩ := sig_rows_sound part hp e he
  rw [← hid] at hres
  unfold validate at hv
  by_cases hid0 : inst.id = 0
  · rw [if_pos hid0] at hv; exact absurd hv (by decide)
  rw [if_neg hid0, hres] at hv
  simp only at hv
  obtain ⟨sigs, cf, cm, hs, hm⟩ := validateR_stages R inst ops hv
  have hemp : R.rows.isEmpty = false := by
    cases hr : R.rows with
    | nil => exact absurd hr hne
    | cons _ _ => rfl
  obtain ⟨g', hg⟩ := matchStage_ok R inst.mode sigs hm hemp
  obtain ⟨row, hrow, f, hf, h1, h2, h3⟩ := validate_sound e.2 R.rows hrows inst.mode hmode sigs g' hg
  exact ⟨R, sigs, cf, cm, hres, hs, row, hrow, f, hf, h1, h2, h3⟩

-- non-vacuity: `add` (id 9) has rows, its first row admits r8|m8 x r8 and the tuple (GpbLo, GpbLo) is a database form
example : ∃ e ∈ parts.flatMap id, e.1 = 9 ∧ e.2 ≠ [] := by decide +kernel
example : (resolve AsmjitVerif.Gen.X86Sig.tables 9).any (fun R => R.rows.length > 4) = true := by decide +kernel

end AsmjitVerif.C13Sound
