/-
C01 property theorems, front-end layer, class X86Arith (add / or / adc / sbb / and / sub / xor / cmp), register-register forms, ALL operand sizes
including the 8-bit registers: AL..BL, SPL..DIL (need a REX prefix: `FIXUP_GPB` forces one), R8B..R15B, and AH..BH (encoded as 4..7 and
incompatible with any REX prefix: `FIXUP_GPB` marks the instruction `InvalidRex`, and `EmitX86R` refuses it when a REX bit is needed).
-/
import AsmjitVerif.Props.C01Rows
import AsmjitVerif.Lemmas.X86ParseLeg8
set_option linter.constructorNameAsVariable false
set_option linter.unusedSimpArgs false
set_option linter.unusedVariables false
namespace AsmjitVerif.Props.C01
open Spec.X86 Model.X86 AsmjitVerif.Lemmas.X86Parse AsmjitVerif.Gen.X86ClassRows

/-- the REX byte `EmitX86R` writes under instruction options (forced REX 0x40000000, InvalidRex 0x80000000), as an optional byte -/
def rexOfO (opcode options opReg rbReg : BitVec 32) : Option (BitVec 8) :=
  let rex := extractRex opcode options ||| ((opReg &&& 8#32) >>> 1) ||| ((rbReg &&& 8#32) >>> 3)
  if (rex &&& 0x7F#32) != 0#32 then some ((rex &&& 0x7F#32 ||| 0x40#32).truncate 8) else none

theorem emitX86R_bytesO (opcode options opReg rbReg : BitVec 32) (imm : BitVec 64) (n : Nat)
    (hopc : opcode &&& 0xF7801C00#32 = 0#32) (hopt : options &&& 0x3FFFFFFF#32 = 0#32) (ho : opReg < 16#32) (hb : rbReg < 16#32)
    (hok : ¬ (extractRex opcode options ||| ((opReg &&& 8#32) >>> 1) ||| ((rbReg &&& 8#32) >>> 3)) > 0x80#32) :
    emitX86R opcode options opReg rbReg imm n =
      .ok (ppBytes ((opcode >>> 21) &&& 3#32).toNat ++ (rexOfO opcode options opReg rbReg).toList ++ legacyEscape ((opcode >>> 8) &&& 3#32).toNat ++
           [opcode.truncate 8, modrmRR opReg rbReg] ++ emitImmediate imm n) := by
  simp only [emitX86R, emitRex, hok, ↓reduceIte, bind, Except.bind, pure, Except.pure,
    emitPP_eq opcode (by bv_decide), emitMM_eq opcode (by bv_decide), rexOfO, modrmRR]
  split <;> simp

/-- when the InvalidRex marker meets a REX bit, `EmitX86R` refuses -/
theorem emitX86R_invalidRex (opcode options opReg rbReg : BitVec 32) (imm : BitVec 64) (n : Nat)
    (hbad : (extractRex opcode options ||| ((opReg &&& 8#32) >>> 1) ||| ((rbReg &&& 8#32) >>> 3)) > 0x80#32) :
    emitX86R opcode options opReg rbReg imm n = .error .invalidRexPrefix := by
  simp [emitX86R, emitRex, hbad, bind, Except.bind]

/-- `EmitX86R` (legacy register form): the bytes parse into fields spelling (reg, rm), for ALL register numbers 0..15 -/
theorem x86R_parsedO (rule : Rule) (opcode options opReg rbReg : BitVec 32) (imm : BitVec 64) (n : Nat)
    (hopc : opcode &&& 0xF7801C00#32 = 0#32) (hopt : options &&& 0x3FFFFFFF#32 = 0#32) (ho : opReg < 16#32) (hb : rbReg < 16#32)
    (hok : ¬ (extractRex opcode options ||| ((opReg &&& 8#32) >>> 1) ||| ((rbReg &&& 8#32) >>> 3)) > 0x80#32)
    (d : Nat) (R : LegRuleD rule n ((opcode >>> 21) &&& 3#32).toNat d) (A : LegAgree rule opcode) :
    ∃ bytes p, emitX86R opcode options opReg rbReg imm n = .ok bytes ∧ parse true rule bytes = .ok p ∧
      LegParsed rule p (modrmRR opReg rbReg) ((opcode >>> 21) &&& 3#32).toNat ∧
      regNum false p.R (bits (modrmRR opReg rbReg) 3 3) = opReg.toNat ∧
      regNum false p.B (bits (modrmRR opReg rbReg) 0 3) = rbReg.toNat ∧ p.imm = emitImmediate imm n ∧
      (p.rex = none ↔ (options &&& 0x40000000#32 = 0#32 ∧ opcode.getLsbD 27 = false ∧ opReg.getLsbD 3 = false ∧ rbReg.getLsbD 3 = false)) ∧ p.vexKind = 0 := by
  obtain ⟨hop, hmap, hw, hsafe⟩ := A
  have hmodb := modrmRR_mod opReg rbReg
  have hlen : (emitImmediate imm n).length = rule.immBytes + rule.relBytes := by
    rw [(imm_le_exact imm n).1, R.himm, R.hrel]; rfl
  have hpplt : ((opcode >>> 21) &&& 3#32).toNat < 4 := by
    have : (opcode >>> 21) &&& 3#32 < 4#32 := by bv_decide
    simpa [BitVec.lt_def] using this
  have hmaplt : rule.map < 4 := by
    rw [hmap]
    have : (opcode >>> 8) &&& 3#32 < 4#32 := by bv_decide
    simpa [BitVec.lt_def] using this
  have hrexv : ∀ b, rexOfO opcode options opReg rbReg = some b → b >>> 4 = 4#8 ∧
      (b.getLsbD 3 = opcode.getLsbD 27) ∧ (b.getLsbD 2 = opReg.getLsbD 3) ∧ (b.getLsbD 0 = rbReg.getLsbD 3) := by
    intro b hb'
    unfold rexOfO at hb'
    dsimp only at hb'
    split at hb'
    · injection hb' with hb'; subst hb'; simp only [extractRex] at *; refine ⟨?_, ?_, ?_, ?_⟩ <;> bv_decide
    · contradiction
  have hnone : rexOfO opcode options opReg rbReg = none → opcode.getLsbD 27 = false ∧ opReg.getLsbD 3 = false ∧ rbReg.getLsbD 3 = false := by
    intro hn
    unfold rexOfO at hn
    dsimp only at hn
    split at hn
    · contradiction
    · rename_i hz; simp only [extractRex] at hz; refine ⟨?_, ?_, ?_⟩ <;> bv_decide
  have hrexH : ∀ b, rexOfO opcode options opReg rbReg = some b → b.toNat / 16 = 4 ∧ isLegacyPrefix b false = false := by
    intro b hb'
    obtain ⟨h4, -⟩ := hrexv b hb'
    refine ⟨toNat_div16_eq4 b h4, ?_⟩
    rw [Bool.eq_false_iff]
    intro hh
    simp only [isLegacyPrefix, Bool.or_eq_true, beq_iff_eq, Bool.false_and, Bool.or_false] at hh
    bv_decide
  have hoH : rule.map = 0 → isLegacyPrefix (opcode.truncate 8) false = false ∧
      (true = true → rexOfO opcode options opReg rbReg = none → (opcode.truncate 8 : BitVec 8).toNat / 16 ≠ 4) := by
    intro hm0
    have hm0' : (opcode >>> 8) &&& 3#32 = 0#32 := by
      apply BitVec.eq_of_toNat_eq; rw [← hmap, hm0]; rfl
    obtain ⟨s1, s2⟩ := hsafe hm0'
    refine ⟨s1, fun _ _ h => s2 ?_⟩
    apply BitVec.eq_of_toNat_eq
    simpa [BitVec.toNat_ushiftRight, Nat.shiftRight_eq_div_pow] using h
  have hrexnone : rexOfO opcode options opReg rbReg = none ↔
      (options &&& 0x40000000#32 = 0#32 ∧ opcode.getLsbD 27 = false ∧ opReg.getLsbD 3 = false ∧ rbReg.getLsbD 3 = false) := by
    constructor
    · intro hn
      unfold rexOfO at hn
      dsimp only at hn
      split at hn
      · contradiction
      · rename_i hz; simp only [extractRex] at hz; refine ⟨?_, ?_, ?_, ?_⟩ <;> bv_decide
    · intro ⟨a1, a2, a3, a4⟩
      unfold rexOfO
      dsimp only
      split
      · rename_i hz; exfalso; simp only [extractRex] at hz; bv_decide
      · rfl
  have hparse := parse_legacy_reg true rule _ (rexOfO opcode options opReg rbReg) (opcode.truncate 8) (modrmRR opReg rbReg) (emitImmediate imm n)
    (by simp) hpplt R.hs R.hpp8 hmaplt (by rcases R.hmk with h | h <;> simp [h]) hrexH hoH hmodb hlen R.hmoff
  rw [hmap] at hparse
  refine ⟨_, _, emitX86R_bytesO opcode options opReg rbReg imm n hopc hopt ho hb hok, hparse, ⟨rfl, rfl, rfl, hmodb, ?_, ?_, rfl⟩, ?_, ?_, rfl, hrexnone, rfl⟩
  · show (opcode.truncate 8 : BitVec 8).toNat = rule.opcode
    rw [hop]; exact toNat_eq_of_zext _ _ (by omega) (by bv_decide)
  · rcases hw with h | h
    · exact Or.inl h
    · right
      have hc : (opcode >>> 27) &&& 1#32 = 0#32 ∨ (opcode >>> 27) &&& 1#32 = 1#32 := by bv_decide
      simp only [rexBit]
      cases hr : rexOfO opcode options opReg rbReg with
      | none =>
        obtain ⟨w0, -, -⟩ := hnone hr
        rcases hc with hc | hc
        · rw [h, hc]; simp
        · exfalso; bv_decide
      | some b =>
        obtain ⟨-, wb, -, -⟩ := hrexv b hr
        simp only [bit]
        rcases hc with hc | hc
        · rw [h, hc, wb]; simp; bv_decide
        · rw [h, hc, wb]; simp; bv_decide
  · simp only [rexBit]
    cases hr : rexOfO opcode options opReg rbReg with
    | none =>
      obtain ⟨-, r0, -⟩ := hnone hr
      exact regNum_eq _ _ _ opReg (by simp only [modrmRR, encodeMod]; simp; bv_decide)
    | some b =>
      obtain ⟨-, -, rb, -⟩ := hrexv b hr
      exact regNum_eq _ _ _ opReg (by simp only [bit, modrmRR, encodeMod, rb]; simp; bv_decide)
  · simp only [rexBit]
    cases hr : rexOfO opcode options opReg rbReg with
    | none =>
      obtain ⟨-, -, b0⟩ := hnone hr
      exact regNum_eq _ _ _ rbReg (by simp only [modrmRR, encodeMod]; simp; bv_decide)
    | some b =>
      obtain ⟨-, -, -, bb⟩ := hrexv b hr
      exact regNum_eq _ _ _ rbReg (by simp only [bit, modrmRR, encodeMod, bb]; simp; bv_decide)



/-! ### 8-bit registers -/

theorem regOkB_gpb (i n : Nat) (p : Parsed) (hn : n = i) (hrex : 4 ≤ i → i < 8 → p.rex ≠ none) : regOkB .gpb i n p = true := by
  subst hn
  simp only [regOkB, regConds, allOk, List.all_cons, List.all_nil, Bool.and_true, beq_self_eq_true, Bool.and_eq_true, Bool.not_eq_true',
    Bool.and_eq_false_iff, decide_eq_false_iff_not, Nat.not_le, Nat.not_lt]
  by_cases h4 : 4 ≤ n
  · by_cases h8 : n < 8
    · have := hrex h4 h8
      left; right
      cases hr : p.rex <;> simp_all
    · left; left; right; omega
  · left; left; left; omega

theorem regOkB_gpbhi (i n : Nat) (p : Parsed) (hn : n = i + 4) (hrex : p.rex = none) : regOkB .gpbhi i n p = true := by
  subst hn
  simp [regOkB, regConds, allOk, hrex]

/-- `FIXUP_GPB` on 8-bit register kinds -/
def fixK (opt : BitVec 32) (k : RegKind) (r : BitVec 32) : BitVec 32 × BitVec 32 :=
  if k == .gpbhi then (opt ||| oInvalidRex, r + 4#32) else ((if r ≥ 4#32 then opt ||| oRex else opt), r)

theorem fixupGpb_eq (opt : BitVec 32) (k : RegKind) (i : Nat) (r : BitVec 32) (hk : k = .gpb ∨ k = .gpbhi) :
    fixupGpb opt (.reg (rtypeOf k) i) r = fixK opt k r := by
  rcases hk with h | h <;> subst h <;> simp [fixupGpb, fixK, Op.isGp8Hi, rtypeOf]

/-- **class X86Arith, `op r8, r8`** - ALL combinations of AL..BL / SPL..DIL / R8B..R15B (kind gpb, ids 0..15) and AH..BH (kind gpbhi, ids 0..3):
whenever `EmitX86R` accepts what the class hands to it (it refuses AH..BH together with a register that needs REX), the bytes satisfy the
monitor: SPL..DIL come with a REX prefix, AH..BH are encoded as 4..7 without one. -/
theorem arith8_formOk (ctx : Spec.X86.Ctx) (rule : Rule) (opcode r0 r1 : BitVec 32) (k0 k1 : RegKind) (f0 f1 : FormOp)
    (hm64 : ctx.mode64 = true) (hmode : (rule.modes &&& 2 != 0) = true) (hopc : opcode &&& 0xF7801C00#32 = 0#32)
    (hk0 : k0 = .gpb ∨ k0 = .gpbhi) (hk1 : k1 = .gpb ∨ k1 = .gpbhi)
    (h0 : r0 < 16#32) (h0' : k0 = .gpbhi → r0 < 4#32) (h1 : r1 < 16#32) (h1' : k1 = .gpbhi → r1 < 4#32)
    (R : LegRule rule 0 ((opcode >>> 21) &&& 3#32).toNat) (A : LegAgree rule opcode)
    (hr0 : f0.role = .rm) (hr1 : f1.role = .reg)
    (hal : alignOps rule.oszEff rule.ops [.reg k0 r0.toNat, .reg k1 r1.toNat] = some [(f0, some (.reg k0 r0.toNat)), (f1, some (.reg k1 r1.toNat))])
    (bytes : List (BitVec 8))
    (hb : emitX86R opcode (fixK (fixK 0#32 k0 r0).1 k1 r1).1 (fixK (fixK 0#32 k0 r0).1 k1 r1).2 (fixK 0#32 k0 r0).2 0 0 = .ok bytes) :
    formOk ctx rule [.reg k0 r0.toNat, .reg k1 r1.toNat] {} bytes = true := by
  generalize hopt : (fixK (fixK 0#32 k0 r0).1 k1 r1).1 = opt2 at hb
  generalize hrg : (fixK (fixK 0#32 k0 r0).1 k1 r1).2 = rg at hb
  generalize hrb : (fixK 0#32 k0 r0).2 = rb at hb
  have hfacts : opt2 &&& 0x3FFFFFFF#32 = 0#32 ∧ rg < 16#32 ∧ rb < 16#32 := by
    rw [← hopt, ← hrg, ← hrb]
    rcases hk0 with h | h <;> rcases hk1 with h' | h' <;> subst h <;> subst h' <;>
      simp only [fixK, oRex, oInvalidRex, beq_self_eq_true, ↓reduceIte, reduceCtorEq, Bool.false_eq_true, show (RegKind.gpb == RegKind.gpbhi) = false from rfl]
    · have a := h0; have b := h1
      split <;> split <;> refine ⟨?_, ?_, ?_⟩ <;> bv_decide
    · have a := h0; have b := h1' rfl
      split <;> refine ⟨?_, ?_, ?_⟩ <;> bv_decide
    · have a := h0' rfl; have b := h1
      split <;> refine ⟨?_, ?_, ?_⟩ <;> bv_decide
    · have a := h0' rfl; have b := h1' rfl
      refine ⟨?_, ?_, ?_⟩ <;> bv_decide
  obtain ⟨hoptm, hrg16, hrb16⟩ := hfacts
  by_cases hok : (extractRex opcode opt2 ||| ((rg &&& 8#32) >>> 1) ||| ((rb &&& 8#32) >>> 3)) > 0x80#32
  · rw [emitX86R_invalidRex opcode opt2 rg rb 0 0 hok] at hb
    cases hb
  · obtain ⟨bytes', p, hb', hp, P, hR, hB, -, hrex, hvk⟩ := x86R_parsedO rule opcode opt2 rg rb 0 0 hopc hoptm hrg16 hrb16 hok 8 R A
    rw [hb'] at hb
    injection hb with hb
    subst hb
    refine leg_2reg_formOkG ctx rule p _ _ _ k0 k1 f0 f1 _ _ (by simpa [hm64] using hmode) R (Or.inr ⟨hr0, hr1, ?_, ?_⟩) hal (by rw [hm64]; exact hp) P
    · -- destination (ModRM.rm)
      rw [hB]
      rcases hk0 with h | h <;> subst h
      · have e : rb = r0 := by rw [← hrb]; simp [fixK]
        refine regOkB_gpb _ _ p (by rw [e]) ?_
        intro h4 h8 hnone
        have hz := (hrex.mp hnone).1
        have h4' : r0 ≥ 4#32 := by simpa [BitVec.le_def] using h4
        rw [← hopt] at hz
        rcases hk1 with h' | h' <;> subst h' <;>
          simp only [fixK, oRex, oInvalidRex, beq_self_eq_true, ↓reduceIte, reduceCtorEq, Bool.false_eq_true, show (RegKind.gpb == RegKind.gpbhi) = false from rfl, h4'] at hz
        · split at hz <;> bv_decide
        · bv_decide
      · have e : rb = r0 + 4#32 := by rw [← hrb]; simp [fixK]
        have a := h0' rfl
        refine regOkB_gpbhi _ _ p ?_ (hrex.mpr ?_)
        · rw [e]
          have : (r0 + 4#32).toNat = r0.toNat + 4 := by
            have : r0.toNat < 4 := by simpa [BitVec.lt_def] using a
            simp [BitVec.toNat_add]; omega
          exact this
        · simp only [extractRex] at hok
          rw [← hopt, ← hrg, ← hrb] at hok ⊢
          rcases hk1 with h' | h' <;> subst h' <;>
            simp only [fixK, oRex, oInvalidRex, beq_self_eq_true, ↓reduceIte, reduceCtorEq, Bool.false_eq_true, show (RegKind.gpb == RegKind.gpbhi) = false from rfl] at hok ⊢
          · have b := h1
            split at hok <;> rename_i hge <;> simp only [hge, ↓reduceIte] <;> refine ⟨?_, ?_, ?_, ?_⟩ <;> bv_decide
          · have b := h1' rfl
            refine ⟨?_, ?_, ?_, ?_⟩ <;> bv_decide
    · -- source (ModRM.reg)
      rw [hR]
      rcases hk1 with h | h <;> subst h
      · have e : rg = r1 := by rw [← hrg]; simp [fixK]
        refine regOkB_gpb _ _ p (by rw [e]) ?_
        intro h4 h8 hnone
        have hz := (hrex.mp hnone).1
        have h4' : r1 ≥ 4#32 := by simpa [BitVec.le_def] using h4
        rw [← hopt] at hz
        simp only [fixK, oRex, oInvalidRex, beq_self_eq_true, ↓reduceIte, reduceCtorEq, Bool.false_eq_true, show (RegKind.gpb == RegKind.gpbhi) = false from rfl, h4'] at hz
        bv_decide
      · have e : rg = r1 + 4#32 := by rw [← hrg]; simp [fixK]
        have a := h1' rfl
        refine regOkB_gpbhi _ _ p ?_ (hrex.mpr ?_)
        · rw [e]
          have : r1.toNat < 4 := by simpa [BitVec.lt_def] using a
          simp [BitVec.toNat_add]; omega
        · simp only [extractRex] at hok
          rw [← hopt, ← hrg, ← hrb] at hok ⊢
          rcases hk0 with h' | h' <;> subst h' <;>
            simp only [fixK, oRex, oInvalidRex, beq_self_eq_true, ↓reduceIte, reduceCtorEq, Bool.false_eq_true, show (RegKind.gpb == RegKind.gpbhi) = false from rfl] at hok ⊢
          · have b := h0
            split at hok <;> rename_i hge <;> simp only [hge, ↓reduceIte] <;> refine ⟨?_, ?_, ?_, ?_⟩ <;> bv_decide
          · have b := h0' rfl
            refine ⟨?_, ?_, ?_, ?_⟩ <;> bv_decide

/-! ### one register operand in ModRM.rm, opcode-extension digit in ModRM.reg, imm8: shifts / rotates by an immediate, `op r8, imm8` -/

theorem regOkB_plain (k : RegKind) (i n : Nat) (p : Parsed) (hk : PlainKind k) (hn : n = i) : regOkB k i n p = true := by
  subst hn
  have := regConds_plain "" k n n p hk
  simp [regOkB, this]

theorem modrmRR_reg (a b : BitVec 32) (ha : a < 8#32) : bits (modrmRR a b) 3 3 = a.toNat :=
  toNat_eq_of_zext _ _ (by omega) (by simp only [modrmRR, encodeMod]; bv_decide)

/-- options and register number the classes hand to `EmitX86R` for ONE register operand of kind `k` -/
def fix1 (k : RegKind) (r : BitVec 32) : BitVec 32 × BitVec 32 := if k == .gpb || k == .gpbhi then fixK 0#32 k r else (0#32, r)

/-- shape [rm, imm8] with digit `d`: whatever `EmitX86R` emits (when it accepts) satisfies the monitor - ALL registers of ALL sizes, incl.
AH..BH (4..7, no REX) and SPL..DIL (forced REX) -/
theorem rmImm8_formOk (ctx : Spec.X86.Ctx) (rule : Rule) (opcode d r0 : BitVec 32) (k0 : RegKind) (f0 f3 : FormOp) (imm : BitVec 64)
    (hm64 : ctx.mode64 = true) (hmode : (rule.modes &&& 2 != 0) = true) (hopc : opcode &&& 0xF7801C00#32 = 0#32)
    (hk0 : k0 = .gpb ∨ k0 = .gpbhi ∨ PlainKind k0) (hd : d < 8#32)
    (h0 : r0 < 16#32) (h0' : k0 = .gpbhi → r0 < 4#32)
    (R : LegRuleD rule 1 ((opcode >>> 21) &&& 3#32).toNat d.toNat) (A : LegAgree rule opcode)
    (hr0 : f0.role = .rm) (hf3 : f3.role = .imm) (hib : immBitsOf f3 = 8) (hsg : (immSignOf f3 == 1) = false)
    (hal : alignOps rule.oszEff rule.ops [.reg k0 r0.toNat, .imm imm] = some [(f0, some (.reg k0 r0.toNat)), (f3, some (.imm imm))])
    (bytes : List (BitVec 8))
    (hb : emitX86R opcode (fix1 k0 r0).1 d (fix1 k0 r0).2 imm 1 = .ok bytes) :
    formOk ctx rule [.reg k0 r0.toNat, .imm imm] {} bytes = true := by
  generalize hopt : (fix1 k0 r0).1 = opt at hb
  generalize hrb : (fix1 k0 r0).2 = rb at hb
  have hfacts : opt &&& 0x3FFFFFFF#32 = 0#32 ∧ rb < 16#32 := by
    rw [← hopt, ← hrb]
    rcases hk0 with h | h | h
    · subst h
      simp only [fix1, fixK, oRex, oInvalidRex, beq_self_eq_true, Bool.true_or, ↓reduceIte, show (RegKind.gpb == RegKind.gpbhi) = false from rfl, Bool.false_eq_true]
      split <;> refine ⟨?_, ?_⟩ <;> bv_decide
    · subst h
      have a := h0' rfl
      simp only [fix1, fixK, oRex, oInvalidRex, beq_self_eq_true, Bool.or_true, ↓reduceIte]
      refine ⟨?_, ?_⟩ <;> bv_decide
    · obtain ⟨n1, n2, -⟩ := h
      have e1 : (k0 == RegKind.gpb) = false := by simpa using n2
      have e2 : (k0 == RegKind.gpbhi) = false := by simpa using n1
      simp only [fix1, e1, e2, Bool.or_self, Bool.false_eq_true, ↓reduceIte]
      exact ⟨by decide, h0⟩
  obtain ⟨hoptm, hrb16⟩ := hfacts
  by_cases hok : (extractRex opcode opt ||| ((d &&& 8#32) >>> 1) ||| ((rb &&& 8#32) >>> 3)) > 0x80#32
  · rw [emitX86R_invalidRex opcode opt d rb imm 1 hok] at hb
    cases hb
  · obtain ⟨bytes', p, hb', hp, P, hR, hB, hi, hrex, hvk⟩ := x86R_parsedO rule opcode opt d rb imm 1 hopc hoptm (by bv_decide) hrb16 hok d.toNat R A
    rw [hb'] at hb
    injection hb with hb
    subst hb
    refine leg_rm_imm8_formOkG ctx rule p _ _ _ d.toNat k0 f0 f3 _ imm (by simpa [hm64] using hmode) R
      (by simpa [BitVec.lt_def] using hd) (modrmRR_reg d rb hd) hr0 hf3 hib hsg (by simp [hi, emitImmediate]) ?_ hal (by rw [hm64]; exact hp) P
    rw [hB]
    rcases hk0 with h | h | h
    · subst h
      have e : rb = r0 := by rw [← hrb]; simp [fix1, fixK]
      refine regOkB_gpb _ _ p (by rw [e]) ?_
      intro h4 h8 hnone
      have hz := (hrex.mp hnone).1
      have h4' : r0 ≥ 4#32 := by simpa [BitVec.le_def] using h4
      rw [← hopt] at hz
      simp only [fix1, fixK, oRex, oInvalidRex, beq_self_eq_true, Bool.true_or, ↓reduceIte, show (RegKind.gpb == RegKind.gpbhi) = false from rfl,
        Bool.false_eq_true, h4'] at hz
      bv_decide
    · subst h
      have e : rb = r0 + 4#32 := by rw [← hrb]; simp [fix1, fixK]
      have a := h0' rfl
      refine regOkB_gpbhi _ _ p ?_ (hrex.mpr ?_)
      · rw [e]
        have : r0.toNat < 4 := by simpa [BitVec.lt_def] using a
        simp [BitVec.toNat_add]; omega
      · simp only [extractRex] at hok
        rw [← hopt, ← hrb] at hok ⊢
        simp only [fix1, fixK, oRex, oInvalidRex, beq_self_eq_true, Bool.or_true, ↓reduceIte] at hok ⊢
        refine ⟨?_, ?_, ?_, ?_⟩ <;> bv_decide
    · have e : rb = r0 := by
        obtain ⟨n1, n2, -⟩ := h
        have e1 : (k0 == RegKind.gpb) = false := by simpa using n2
        have e2 : (k0 == RegKind.gpbhi) = false := by simpa using n1
        rw [← hrb]; simp [fix1, e1, e2]
      exact regOkB_plain k0 _ _ p h (by rw [e])

/-- shape [rm, x] with digit `d`, any second operand whose own conditions hold (`hic`), any immediate width: whatever `EmitX86R` emits (when it accepts) satisfies the monitor - ALL registers of ALL sizes, incl.
AH..BH (4..7, no REX) and SPL..DIL (forced REX) -/
theorem rmAny_formOk (ctx : Spec.X86.Ctx) (rule : Rule) (opcode d r0 : BitVec 32) (k0 : RegKind) (f0 f3 : FormOp) (o1 : Operand) (imm : BitVec 64) (n : Nat)
    (hm64 : ctx.mode64 = true) (hmode : (rule.modes &&& 2 != 0) = true) (hopc : opcode &&& 0xF7801C00#32 = 0#32)
    (hk0 : k0 = .gpb ∨ k0 = .gpbhi ∨ PlainKind k0) (hd : d < 8#32)
    (h0 : r0 < 16#32) (h0' : k0 = .gpbhi → r0 < 4#32)
    (R : LegRuleD rule n ((opcode >>> 21) &&& 3#32).toNat d.toNat) (A : LegAgree rule opcode)
    (hr0 : f0.role = .rm) (ho1 : (∃ v, o1 = .imm v) ∨ (∃ k i, o1 = .reg k i))
    (hic : ∀ p : Parsed, p.imm = emitImmediate imm n → allOk (opConds ctx rule p 0 f3 o1).1 = true)
    (hal : alignOps rule.oszEff rule.ops [.reg k0 r0.toNat, o1] = some [(f0, some (.reg k0 r0.toNat)), (f3, some o1)])
    (bytes : List (BitVec 8))
    (hb : emitX86R opcode (fix1 k0 r0).1 d (fix1 k0 r0).2 imm n = .ok bytes) :
    formOk ctx rule [.reg k0 r0.toNat, o1] {} bytes = true := by
  generalize hopt : (fix1 k0 r0).1 = opt at hb
  generalize hrb : (fix1 k0 r0).2 = rb at hb
  have hfacts : opt &&& 0x3FFFFFFF#32 = 0#32 ∧ rb < 16#32 := by
    rw [← hopt, ← hrb]
    rcases hk0 with h | h | h
    · subst h
      simp only [fix1, fixK, oRex, oInvalidRex, beq_self_eq_true, Bool.true_or, ↓reduceIte, show (RegKind.gpb == RegKind.gpbhi) = false from rfl, Bool.false_eq_true]
      split <;> refine ⟨?_, ?_⟩ <;> bv_decide
    · subst h
      have a := h0' rfl
      simp only [fix1, fixK, oRex, oInvalidRex, beq_self_eq_true, Bool.or_true, ↓reduceIte]
      refine ⟨?_, ?_⟩ <;> bv_decide
    · obtain ⟨n1, n2, -⟩ := h
      have e1 : (k0 == RegKind.gpb) = false := by simpa using n2
      have e2 : (k0 == RegKind.gpbhi) = false := by simpa using n1
      simp only [fix1, e1, e2, Bool.or_self, Bool.false_eq_true, ↓reduceIte]
      exact ⟨by decide, h0⟩
  obtain ⟨hoptm, hrb16⟩ := hfacts
  by_cases hok : (extractRex opcode opt ||| ((d &&& 8#32) >>> 1) ||| ((rb &&& 8#32) >>> 3)) > 0x80#32
  · rw [emitX86R_invalidRex opcode opt d rb imm n hok] at hb
    cases hb
  · obtain ⟨bytes', p, hb', hp, P, hR, hB, hi, hrex, hvk⟩ := x86R_parsedO rule opcode opt d rb imm n hopc hoptm (by bv_decide) hrb16 hok d.toNat R A
    rw [hb'] at hb
    injection hb with hb
    subst hb
    refine leg_rm_any_formOkG ctx rule p _ _ _ d.toNat n k0 f0 f3 _ o1 ho1 (by simpa [hm64] using hmode) R
      (by simpa [BitVec.lt_def] using hd) (modrmRR_reg d rb hd) hr0 (hic p hi) ?_ hal (by rw [hm64]; exact hp) P
    rw [hB]
    rcases hk0 with h | h | h
    · subst h
      have e : rb = r0 := by rw [← hrb]; simp [fix1, fixK]
      refine regOkB_gpb _ _ p (by rw [e]) ?_
      intro h4 h8 hnone
      have hz := (hrex.mp hnone).1
      have h4' : r0 ≥ 4#32 := by simpa [BitVec.le_def] using h4
      rw [← hopt] at hz
      simp only [fix1, fixK, oRex, oInvalidRex, beq_self_eq_true, Bool.true_or, ↓reduceIte, show (RegKind.gpb == RegKind.gpbhi) = false from rfl,
        Bool.false_eq_true, h4'] at hz
      bv_decide
    · subst h
      have e : rb = r0 + 4#32 := by rw [← hrb]; simp [fix1, fixK]
      have a := h0' rfl
      refine regOkB_gpbhi _ _ p ?_ (hrex.mpr ?_)
      · rw [e]
        have : r0.toNat < 4 := by simpa [BitVec.lt_def] using a
        simp [BitVec.toNat_add]; omega
      · simp only [extractRex] at hok
        rw [← hopt, ← hrb] at hok ⊢
        simp only [fix1, fixK, oRex, oInvalidRex, beq_self_eq_true, Bool.or_true, ↓reduceIte] at hok ⊢
        refine ⟨?_, ?_, ?_, ?_⟩ <;> bv_decide
    · have e : rb = r0 := by
        obtain ⟨n1, n2, -⟩ := h
        have e1 : (k0 == RegKind.gpb) = false := by simpa using n2
        have e2 : (k0 == RegKind.gpbhi) = false := by simpa using n1
        rw [← hrb]; simp [fix1, e1, e2]
      exact regOkB_plain k0 _ _ p h (by rw [e])

/-- shape [rm]: one register operand of any kind (incl. AH..BH, SPL..DIL); ModRM.reg = the digit `d` the class hands over (free when the form has none) -/
theorem rOnly_formOk (ctx : Spec.X86.Ctx) (rule : Rule) (opcode d r0 : BitVec 32) (k0 : RegKind) (f0 : FormOp) (dr : Nat)
    (hm64 : ctx.mode64 = true) (hmode : (rule.modes &&& 2 != 0) = true) (hopc : opcode &&& 0xF7801C00#32 = 0#32)
    (hk0 : k0 = .gpb ∨ k0 = .gpbhi ∨ PlainKind k0) (hd : d < 8#32)
    (h0 : r0 < 16#32) (h0' : k0 = .gpbhi → r0 < 4#32)
    (R : LegRuleD rule 0 ((opcode >>> 21) &&& 3#32).toNat dr) (hdr : dr < 8 → d.toNat = dr) (A : LegAgree rule opcode)
    (hr0 : f0.role = .rm)
    (hal : alignOps rule.oszEff rule.ops [.reg k0 r0.toNat] = some [(f0, some (.reg k0 r0.toNat))])
    (bytes : List (BitVec 8))
    (hb : emitX86R opcode (fix1 k0 r0).1 d (fix1 k0 r0).2 0 0 = .ok bytes) :
    formOk ctx rule [.reg k0 r0.toNat] {} bytes = true := by
  generalize hopt : (fix1 k0 r0).1 = opt at hb
  generalize hrb : (fix1 k0 r0).2 = rb at hb
  have hfacts : opt &&& 0x3FFFFFFF#32 = 0#32 ∧ rb < 16#32 := by
    rw [← hopt, ← hrb]
    rcases hk0 with h | h | h
    · subst h
      simp only [fix1, fixK, oRex, oInvalidRex, beq_self_eq_true, Bool.true_or, ↓reduceIte, show (RegKind.gpb == RegKind.gpbhi) = false from rfl, Bool.false_eq_true]
      split <;> refine ⟨?_, ?_⟩ <;> bv_decide
    · subst h
      have a := h0' rfl
      simp only [fix1, fixK, oRex, oInvalidRex, beq_self_eq_true, Bool.or_true, ↓reduceIte]
      refine ⟨?_, ?_⟩ <;> bv_decide
    · obtain ⟨n1, n2, -⟩ := h
      have e1 : (k0 == RegKind.gpb) = false := by simpa using n2
      have e2 : (k0 == RegKind.gpbhi) = false := by simpa using n1
      simp only [fix1, e1, e2, Bool.or_self, Bool.false_eq_true, ↓reduceIte]
      exact ⟨by decide, h0⟩
  obtain ⟨hoptm, hrb16⟩ := hfacts
  by_cases hok : (extractRex opcode opt ||| ((d &&& 8#32) >>> 1) ||| ((rb &&& 8#32) >>> 3)) > 0x80#32
  · rw [emitX86R_invalidRex opcode opt d rb 0 0 hok] at hb
    cases hb
  · obtain ⟨bytes', p, hb', hp, P, hR, hB, hi, hrex, hvk⟩ := x86R_parsedO rule opcode opt d rb 0 0 hopc hoptm (by bv_decide) hrb16 hok dr R A
    rw [hb'] at hb
    injection hb with hb
    subst hb
    refine leg_r_formOkG ctx rule p _ _ _ dr k0 f0 _ (by simpa [hm64] using hmode) R
      (fun h => by rw [modrmRR_reg d rb hd]; exact hdr h) hr0 ?_ hal (by rw [hm64]; exact hp) P
    rw [hB]
    rcases hk0 with h | h | h
    · subst h
      have e : rb = r0 := by rw [← hrb]; simp [fix1, fixK]
      refine regOkB_gpb _ _ p (by rw [e]) ?_
      intro h4 h8 hnone
      have hz := (hrex.mp hnone).1
      have h4' : r0 ≥ 4#32 := by simpa [BitVec.le_def] using h4
      rw [← hopt] at hz
      simp only [fix1, fixK, oRex, oInvalidRex, beq_self_eq_true, Bool.true_or, ↓reduceIte, show (RegKind.gpb == RegKind.gpbhi) = false from rfl,
        Bool.false_eq_true, h4'] at hz
      bv_decide
    · subst h
      have e : rb = r0 + 4#32 := by rw [← hrb]; simp [fix1, fixK]
      have a := h0' rfl
      refine regOkB_gpbhi _ _ p ?_ (hrex.mpr ?_)
      · rw [e]
        have : r0.toNat < 4 := by simpa [BitVec.lt_def] using a
        simp [BitVec.toNat_add]; omega
      · simp only [extractRex] at hok
        rw [← hopt, ← hrb] at hok ⊢
        simp only [fix1, fixK, oRex, oInvalidRex, beq_self_eq_true, Bool.or_true, ↓reduceIte] at hok ⊢
        refine ⟨?_, ?_, ?_, ?_⟩ <;> bv_decide
    · have e : rb = r0 := by
        obtain ⟨n1, n2, -⟩ := h
        have e1 : (k0 == RegKind.gpb) = false := by simpa using n2
        have e2 : (k0 == RegKind.gpbhi) = false := by simpa using n1
        rw [← hrb]; simp [fix1, e1, e2]
      exact regOkB_plain k0 _ _ p h (by rw [e])

/-! ### immediates of 16 / 32 bits and sign-extended immediates -/

/-- the encoder's immediate bytes are the little-endian bytes the monitor expects -/
theorem emitImmediate_leBytes (x : BitVec 64) (n : Nat) : emitImmediate x n = leBytes x.toNat n := by
  induction n generalizing x with
  | zero => rfl
  | succ n ih =>
    simp only [emitImmediate, leBytes, ih]
    have e1 : (x >>> 8).toNat = x.toNat / 256 := by simp [BitVec.toNat_ushiftRight, Nat.shiftRight_eq_div_pow]
    have e2 : (x.truncate 8 : BitVec 8) = BitVec.ofNat 8 x.toNat := by
      apply BitVec.eq_of_toNat_eq; simp [BitVec.truncate, BitVec.toNat_setWidth]
    rw [e1, e2]

theorem emitImmediate_sext32 (v : BitVec 64) : emitImmediate (signExtendInt32 v) 4 = emitImmediate v 4 := by
  simp only [emitImmediate, signExtendInt32]
  have e0 : BitVec.truncate 8 (BitVec.signExtend 64 (BitVec.truncate 32 v)) = BitVec.truncate 8 v := by bv_decide
  have e1 : BitVec.truncate 8 (BitVec.signExtend 64 (BitVec.truncate 32 v) >>> 8) = BitVec.truncate 8 (v >>> 8) := by bv_decide
  have e2 : BitVec.truncate 8 (BitVec.signExtend 64 (BitVec.truncate 32 v) >>> 8 >>> 8) = BitVec.truncate 8 (v >>> 8 >>> 8) := by bv_decide
  have e3 : BitVec.truncate 8 (BitVec.signExtend 64 (BitVec.truncate 32 v) >>> 8 >>> 8 >>> 8) = BitVec.truncate 8 (v >>> 8 >>> 8 >>> 8) := by bv_decide
  rw [e0, e1, e2, e3]

/-- sign-extended imm8: congruent to the value modulo every operand size -/
theorem sext8_mod (x : BitVec 64) (h : isInt8of64 x = true) :
    sextNat (x.truncate 8 : BitVec 8).toNat 8 % ((2 ^ 64 : Nat) : Int) = ((x.toNat % 2 ^ 64 : Nat) : Int) ∧
    sextNat (x.truncate 8 : BitVec 8).toNat 8 % ((2 ^ 32 : Nat) : Int) = ((x.toNat % 2 ^ 32 : Nat) : Int) ∧
    sextNat (x.truncate 8 : BitVec 8).toNat 8 % ((2 ^ 16 : Nat) : Int) = ((x.toNat % 2 ^ 16 : Nat) : Int) := by
  have hb : x ≤ 127#64 ∨ x ≥ 0xFFFFFFFFFFFFFF80#64 := by simp only [isInt8of64] at h; bv_decide
  simp only [sextNat, BitVec.truncate, BitVec.toNat_setWidth]
  have hlt := x.isLt
  simp only [Nat.reducePow, Nat.reduceSub] at *
  rcases hb with hb | hb
  · have : x.toNat ≤ 127 := by simpa [BitVec.le_def] using hb
    refine ⟨?_, ?_, ?_⟩ <;> split <;> omega
  · have : x.toNat ≥ 18446744073709551488 := by simpa [BitVec.le_def] using hb
    refine ⟨?_, ?_, ?_⟩ <;> split <;> omega

/-- sign-extended imm32 under REX.W -/
theorem sext32_mod (x : BitVec 64) (h : isInt32of64 x = true) :
    sextNat (x.toNat % 2 ^ 32) 32 % ((2 ^ 64 : Nat) : Int) = ((x.toNat % 2 ^ 64 : Nat) : Int) := by
  have hb : x ≤ 0x7FFFFFFF#64 ∨ x ≥ 0xFFFFFFFF80000000#64 := by simp only [isInt32of64] at h; bv_decide
  simp only [sextNat]
  have hlt := x.isLt
  simp only [Nat.reducePow, Nat.reduceSub] at *
  rcases hb with hb | hb
  · have : x.toNat ≤ 2147483647 := by simpa [BitVec.le_def] using hb
    split <;> omega
  · have : x.toNat ≥ 18446744071562067968 := by simpa [BitVec.le_def] using hb
    split <;> omega

/-- the immediate conditions of the monitor, from the two alternatives it evaluates (plain little-endian bytes, or a sign-extended value
compared modulo the operand size) -/
theorem immConds_ok (ctx : Spec.X86.Ctx) (rule : Rule) (p : Parsed) (f3 : FormOp) (v : BitVec 64)
    (hf3 : f3.role = .imm) (hnb : immBitsOf f3 ≠ 4) (hrev : rule.immRev = false)
    (h : (if immSignOf f3 == 1 && rule.oszEff != 0 && 8 * immBytesOf (immBitsOf f3) < rule.oszEff then
            decide (sextNat (leNat (p.imm.take (immBytesOf (immBitsOf f3)))) (8 * immBytesOf (immBitsOf f3)) % ((2 ^ rule.oszEff : Nat) : Int) =
                    ((v.toNat % 2 ^ rule.oszEff : Nat) : Int))
          else p.imm.take (immBytesOf (immBitsOf f3)) == leBytes v.toNat (immBytesOf (immBitsOf f3))) = true) :
    allOk (opConds ctx rule p 0 f3 (.imm v)).1 = true := by
  have hnb' : (immBitsOf f3 == 4) = false := by simpa using hnb
  simp only [opConds, hf3, hnb', hrev, Bool.false_eq_true, ↓reduceIte, List.drop]
  split
  · rename_i hc
    simp only [hc, ↓reduceIte, decide_eq_true_eq] at h
    simp [allOk]
    push_cast at h
    exact h
  · rename_i hc
    simp only [hc, Bool.false_eq_true, ↓reduceIte] at h
    simp [allOk, h]

/-- shape [rm, imm] with digit `d`, register of a 16 / 32 / 64-bit kind, ANY immediate the monitor's immediate conditions accept -/
theorem rmImm_formOk (ctx : Spec.X86.Ctx) (rule : Rule) (opcode d r0 : BitVec 32) (k0 : RegKind) (f0 f3 : FormOp) (v imm1 : BitVec 64) (isz : Nat)
    (hm64 : ctx.mode64 = true) (hmode : (rule.modes &&& 2 != 0) = true) (hopc : opcode &&& 0xF7801C00#32 = 0#32)
    (hk0 : PlainKind k0) (hd : d < 8#32) (h0 : r0 < 16#32)
    (R : LegRuleD rule isz ((opcode >>> 21) &&& 3#32).toNat d.toNat) (A : LegAgree rule opcode)
    (hr0 : f0.role = .rm)
    (hic : ∀ p : Parsed, p.imm = emitImmediate imm1 isz → allOk (opConds ctx rule p 0 f3 (.imm v)).1 = true)
    (hal : alignOps rule.oszEff rule.ops [.reg k0 r0.toNat, .imm v] = some [(f0, some (.reg k0 r0.toNat)), (f3, some (.imm v))]) :
    ∃ bytes, emitX86R opcode 0#32 d r0 imm1 isz = .ok bytes ∧ formOk ctx rule [.reg k0 r0.toNat, .imm v] {} bytes = true := by
  have hok : ¬ (extractRex opcode 0#32 ||| ((d &&& 8#32) >>> 1) ||| ((r0 &&& 8#32) >>> 3)) > 0x80#32 := by
    simp only [extractRex]; bv_decide
  obtain ⟨bytes, p, hb', hp, P, hR, hB, hi, hrex, hvk⟩ := x86R_parsedO rule opcode 0#32 d r0 imm1 isz hopc (by decide) (by bv_decide) h0 hok d.toNat R A
  refine ⟨bytes, hb', ?_⟩
  refine leg_rm_imm_formOkG ctx rule p _ _ _ d.toNat isz k0 f0 f3 _ v (by simpa [hm64] using hmode) R
    (by simpa [BitVec.lt_def] using hd) (modrmRR_reg d r0 hd) hr0 (hic p hi) ?_ hal (by rw [hm64]; exact hp) P
  rw [hB]
  exact regOkB_plain k0 _ _ p hk0 rfl

/-! ### accumulator short forms: `EmitX86Op` with an immediate -/

theorem emitX86Op_bytesI (opcode : BitVec 32) (imm : BitVec 64) (n : Nat) (hopc : opcode &&& 0xF7801C00#32 = 0#32) :
    emitX86Op opcode 0#32 imm n =
      .ok (ppBytes ((opcode >>> 21) &&& 3#32).toNat ++ (rexOf opcode 0#32 0#32).toList ++ legacyEscape ((opcode >>> 8) &&& 3#32).toNat ++
           opcode.truncate 8 :: emitImmediate imm n) := by
  have hrex : ¬ (extractRex opcode 0#32) > 0x80#32 := by simp only [extractRex]; bv_decide
  have e : extractRex opcode 0#32 ||| ((0#32 &&& 8#32) >>> 1) ||| ((0#32 &&& 8#32) >>> 3) = extractRex opcode 0#32 := by bv_decide
  simp only [emitX86Op, emitRex, hrex, ↓reduceIte, bind, Except.bind, pure, Except.pure,
    emitPP_eq opcode (by bv_decide), emitMM_eq opcode (by bv_decide), rexOf, e]
  split <;> simp

/-- `EmitX86Op` with an immediate: shape [fixed accumulator (not encoded), imm] -/
theorem accImm_formOk (ctx : Spec.X86.Ctx) (rule : Rule) (opcode : BitVec 32) (k : RegKind) (f0 f3 : FormOp) (id : Nat) (v imm1 : BitVec 64) (isz : Nat)
    (hm64 : ctx.mode64 = true) (hmode : (rule.modes &&& 2 != 0) = true) (hopc : opcode &&& 0xF7801C00#32 = 0#32)
    (hs : rule.space = 0) (hpp8 : rule.pp &&& 8 = 0)
    (h66 : (rule.pp &&& 1 != 0 || rule.osz == 16) = (((opcode >>> 21) &&& 3#32).toNat == 1))
    (hF3 : (rule.pp &&& 2 != 0) = (((opcode >>> 21) &&& 3#32).toNat == 2)) (hF2 : (rule.pp &&& 4 != 0) = (((opcode >>> 21) &&& 3#32).toNat == 3))
    (hri : rule.ri = false) (ha67 : rule.a67 = false) (hmk : rule.modKind = 0)
    (himm : rule.immBytes = isz) (hrel : rule.relBytes = 0) (hmoff : rule.moff = false) (A : LegAgree rule opcode)
    (hf0 : f0.role = .none)
    (hic : ∀ p : Parsed, p.imm = emitImmediate imm1 isz → allOk (opConds ctx rule p 0 f3 (.imm v)).1 = true)
    (hal : alignOps rule.oszEff rule.ops [.reg k id, .imm v] = some [(f0, some (.reg k id)), (f3, some (.imm v))]) :
    ∃ bytes, emitX86Op opcode 0#32 imm1 isz = .ok bytes ∧ formOk ctx rule [.reg k id, .imm v] {} bytes = true := by
  obtain ⟨hop, hmap, hw, hsafe⟩ := A
  refine ⟨_, emitX86Op_bytesI opcode imm1 isz hopc, ?_⟩
  have hpplt : ((opcode >>> 21) &&& 3#32).toNat < 4 := by
    have : (opcode >>> 21) &&& 3#32 < 4#32 := by bv_decide
    simpa [BitVec.lt_def] using this
  have hmaplt : rule.map < 4 := by
    rw [hmap]
    have : (opcode >>> 8) &&& 3#32 < 4#32 := by bv_decide
    simpa [BitVec.lt_def] using this
  have hrexv : ∀ b, rexOf opcode 0#32 0#32 = some b → b >>> 4 = 4#8 ∧ (b.getLsbD 3 = opcode.getLsbD 27) := by
    intro b hb'
    unfold rexOf at hb'
    dsimp only at hb'
    split at hb'
    · injection hb' with hb'; subst hb'; simp only [extractRex] at *; refine ⟨?_, ?_⟩ <;> bv_decide
    · contradiction
  have hnone : rexOf opcode 0#32 0#32 = none → opcode.getLsbD 27 = false := by
    intro hn
    unfold rexOf at hn
    dsimp only at hn
    split at hn
    · contradiction
    · rename_i hz; simp only [extractRex] at hz; bv_decide
  have hrexH : ∀ b, rexOf opcode 0#32 0#32 = some b → b.toNat / 16 = 4 ∧ isLegacyPrefix b false = false := by
    intro b hb'
    obtain ⟨h4, -⟩ := hrexv b hb'
    refine ⟨toNat_div16_eq4 b h4, ?_⟩
    rw [Bool.eq_false_iff]
    intro hh
    simp only [isLegacyPrefix, Bool.or_eq_true, beq_iff_eq, Bool.false_and, Bool.or_false] at hh
    bv_decide
  have hoH : rule.map = 0 → isLegacyPrefix (opcode.truncate 8) false = false ∧
      (rexOf opcode 0#32 0#32 = none → (opcode.truncate 8 : BitVec 8).toNat / 16 ≠ 4) := by
    intro hm0
    have hm0' : (opcode >>> 8) &&& 3#32 = 0#32 := by
      apply BitVec.eq_of_toNat_eq; rw [← hmap, hm0]; rfl
    obtain ⟨s1, s2⟩ := hsafe hm0'
    refine ⟨s1, fun _ h => s2 ?_⟩
    apply BitVec.eq_of_toNat_eq
    simpa [BitVec.toNat_ushiftRight, Nat.shiftRight_eq_div_pow] using h
  have hparse := parse_legacy_op_imm rule _ (rexOf opcode 0#32 0#32) (opcode.truncate 8) (emitImmediate imm1 isz) hpplt hs hpp8 hmaplt hmk hrexH hoH
    (by rw [(imm_le_exact imm1 isz).1, himm, hrel]; rfl) hmoff
  rw [hmap] at hparse
  refine leg_acc_imm_formOk ctx rule _ _ _ k f0 f3 id v (by simpa [hm64] using hmode) hs hpp8 h66 hF3 hF2 hpplt hri ha67 hf0 (hic _ rfl) hal (by rw [hm64]; exact hparse)
    rfl rfl rfl ?_ ?_
  · show (opcode.truncate 8 : BitVec 8).toNat = rule.opcode
    rw [hop]; exact toNat_eq_of_zext _ _ (by omega) (by bv_decide)
  · rcases hw with h | h
    · exact Or.inl h
    · right
      have hc : (opcode >>> 27) &&& 1#32 = 0#32 ∨ (opcode >>> 27) &&& 1#32 = 1#32 := by bv_decide
      simp only [rexBit]
      cases hr : rexOf opcode 0#32 0#32 with
      | none =>
        have w0 := hnone hr
        rcases hc with hc | hc
        · rw [h, hc]; simp
        · exfalso; bv_decide
      | some b =>
        obtain ⟨-, wb⟩ := hrexv b hr
        simp only [bit]
        rcases hc with hc | hc
        · rw [h, hc, wb]; simp; bv_decide
        · rw [h, hc, wb]; simp; bv_decide

end AsmjitVerif.Props.C01
