/-
C01 property theorems, memory operands WITH BROADCAST, table layer: `front_cls_correct_{rvm,rm,rvmi,rmi}_mem_bcst` - for EVERY regenerated
(row, EVEX form) pair of the four classes whose form allows broadcast, the bytes `EmitVexEvexM` emits for `reg, [vvvv,] MEM{1toN} [, imm8]`
satisfy the monitor: EVEX.b = 1, and the disp8 is scaled by the ELEMENT size - the table layer decides per entry that the database's tuple /
element size equals the instruction table's broadcast size (`CommonInfo::broadcast_size`, bits 4..6 of the `aflags` word).
-/
import AsmjitVerif.Props.C01RowsMem
import AsmjitVerif.Props.C01FrontMemB
set_option linter.constructorNameAsVariable false
set_option linter.unusedSimpArgs false
set_option linter.unusedVariables false
set_option maxRecDepth 100000
namespace AsmjitVerif.Props.C01
open Spec.X86 Model.X86 AsmjitVerif.Lemmas.X86Parse AsmjitVerif.Gen.X86ClassRows

/-- `CommonInfo::broadcast_size()` of the row -/
def bcstSizeOf (e : Entry) : Nat := ((e.aflags &&& 0x70#32) >>> 3).toNat

theorem anyMemAlt_matches_bcst (osz : Nat) (f : FormOp) (m : MemOp) (h : anyMemAlt f = true) (hb : m.bcst ≠ 0) (hvs : vsibOf m = .none) :
    formOpMatches osz f (.mem m) = true := by
  unfold anyMemAlt at h
  unfold formOpMatches
  rw [List.any_eq_true] at h ⊢
  obtain ⟨a, ha, hm⟩ := h
  refine ⟨a, ha, ?_⟩
  cases a with
  | mem s vs =>
    cases s with
    | none => simp at hm
    | some s' =>
      cases vs <;> simp at hm
      simp [altMatches, hvs, hb]
  | _ => simp at hm

def memCoreOkB (e : Entry) (op : BitVec 32) (nimm : Nat) : Bool :=
  vexRuleMOk e.rule nimm && (rowAgreeOk e.rule op && (e.iflags &&& 0x1300000#32 == 0#32 &&
  (e.rule.space == 2 && (bcstSizeOf e != 0 && (bcstShift (bcstSizeOf e) ≤ 6#32 &&
    disp8Nf e.rule ((op >>> 29) &&& 3#32).toNat ((((op >>> 27) ||| (op >>> 28)) &&& 1#32) == 1#32) true == 2 ^ (bcstShift (bcstSizeOf e)).toNat)))))

structure MemCoreB (e : Entry) (op : BitVec 32) (nimm : Nat) : Prop where
  R : VexRuleM e.rule nimm
  hmode : (e.rule.modes &&& 2 != 0) = true
  hsp : e.rule.space = 2
  A : RowAgree e.rule op true
  hxop : op &&& 0x800#32 = 0#32
  hu : bcstSizeOf e ≠ 0
  hs6 : bcstShift (bcstSizeOf e) ≤ 6#32
  hN : disp8Nf e.rule ((op >>> 29) &&& 3#32).toNat ((((op >>> 27) ||| (op >>> 28)) &&& 1#32) == 1#32) true = 2 ^ (bcstShift (bcstSizeOf e)).toNat

theorem memCoreOkB_spec (e : Entry) (op : BitVec 32) (nimm : Nat) (h : memCoreOkB e op nimm = true) : MemCoreB e op nimm := by
  simp only [memCoreOkB, Bool.and_eq_true, beq_iff_eq, bne_iff_ne, ne_eq, decide_eq_true_eq] at h
  obtain ⟨hR, hA, -, hsp, hu, hs6, hN⟩ := h
  obtain ⟨R, hmode, -⟩ := vexRuleMOk_spec _ _ hR
  obtain ⟨A, hxop, -⟩ := rowAgreeOk_spec _ _ hA
  rw [hsp] at A
  exact ⟨R, hmode, hsp, A, hxop, hu, hs6, hN⟩

/-- (row, form) pairs of shape [reg, MEM] whose vector length is NOT determined by the register operand: with a broadcast operand `EmitVexEvexM`
derives L'L from the broadcast count instead (vcvtpd2ph / vcvtqq2ph / vcvtuqq2ph xmm, m256/m512{1toN}; vfpclasspd/ps/ph k, m256/m512{1toN}:
12 pairs) - that path (`newLL = max(curLL, bLL)`) is not covered by these theorems, which assume the broadcast fits the opcode word's length -/
def lFromBcst (e : Entry) (op : BitVec 32) : Bool := e.rule.l != 3 && e.rule.l != ((op >>> 29) &&& 3#32).toNat

def entryOkRvmMemB (e : Entry) : Bool :=
  match e.rule.ops, e.kinds with
  | [f0, f1, f2], [k0, k1, _] =>
    !e.rule.bcst || !anyMemAlt f2 ||
    ((e.enc == 0x72 || e.enc == 0x75 || e.enc == 0x73 || e.enc == 0x76) && (memCoreOkB e (finalOp e 0x75) 0 &&
    (f0.role == .reg && (f1.role == .vvvv && (f2.role == .rm && (plainKind k0 && (plainKind k1 && (noFix f0 && (noFix f1 &&
    (formOpMatches e.rule.oszEff f0 (.reg k0 0) && formOpMatches e.rule.oszEff f1 (.reg k1 0)))))))))))
  | _, _ => false

def entryOkRvmiMemB (e : Entry) : Bool :=
  match e.rule.ops, e.kinds with
  | [f0, f1, f2, f3], [k0, k1, _] =>
    !e.rule.bcst || !anyMemAlt f2 ||
    ((e.enc == 0x7A || e.enc == 0x7C || e.enc == 0x7B || e.enc == 0x7D) && (memCoreOkB e (finalOp e 0x7C) 1 &&
    (f0.role == .reg && (f1.role == .vvvv && (f2.role == .rm && (f3.role == .imm && (immBitsOf f3 == 8 && (plainKind k0 && (plainKind k1 && (noFix f0 && (noFix f1 &&
    (formOpMatches e.rule.oszEff f0 (.reg k0 0) && formOpMatches e.rule.oszEff f1 (.reg k1 0)))))))))))))
  | _, _ => false

def entryOkRmMemB (e : Entry) : Bool :=
  match e.rule.ops, e.kinds with
  | [f0, f2], [k0, _] =>
    !e.rule.bcst || !anyMemAlt f2 || lFromBcst e (finalOpM e 0x6B (bcstSizeOf e)) ||
    ((e.enc == 0x68 || e.enc == 0x6B || e.enc == 0x83 || e.enc == 0x84) && (memCoreOkB e (finalOpM e 0x6B (bcstSizeOf e)) 0 &&
    (f0.role == .reg && (f2.role == .rm && (plainKind k0 && (noFix f0 && formOpMatches e.rule.oszEff f0 (.reg k0 0)))))))
  | _, _ => false

def entryOkRmiMemB (e : Entry) : Bool :=
  match e.rule.ops, e.kinds with
  | [f0, f2, f3], [k0, _] =>
    !e.rule.bcst || !anyMemAlt f2 || lFromBcst e (finalOpM e 0x71 (bcstSizeOf e)) ||
    ((e.enc == 0x6F || e.enc == 0x71) && (memCoreOkB e (finalOpM e 0x71 (bcstSizeOf e)) 1 &&
    (f0.role == .reg && (f2.role == .rm && (f3.role == .imm && (immBitsOf f3 == 8 && (plainKind k0 && (noFix f0 && formOpMatches e.rule.oszEff f0 (.reg k0 0)))))))))
  | _, _ => false

theorem rvm_mem_bcst_entries_ok : rvmChunks.all (fun c => c.all entryOkRvmMemB) = true := by decide +kernel
theorem rvmi_mem_bcst_entries_ok : rvmiChunks.all (fun c => c.all entryOkRvmiMemB) = true := by decide +kernel
theorem rm_mem_bcst_entries_ok : rmChunks.all (fun c => c.all entryOkRmMemB) = true := by decide +kernel
theorem rmi_mem_bcst_entries_ok : rmiChunks.all (fun c => c.all entryOkRmiMemB) = true := by decide +kernel

/-- **front_cls_correct with a BROADCAST memory operand, classes VexRvm / VexRvm_Lx**: `reg, vvvv, MEM{1toN}` -/
theorem front_cls_correct_rvm_mem_bcst (e : Entry) (ch : List Entry) (hch : ch ∈ rvmChunks) (he : e ∈ ch)
    (c : Model.X86.Ctx) (ctx : Spec.X86.Ctx) (reg vvvvv xb aaa : BitVec 32) (z : Bool) (m : Mem) (mo : MemOp) (pfx : List (BitVec 8))
    (mb : BitVec 32 → BitVec 32 → BitVec 8) (sib : BitVec 32 → BitVec 32 → Option (BitVec 8)) (ds : BitVec 32 → BitVec 32 → List (BitVec 8))
    (AF : AddrFormB c ctx m mo pfx xb aaa mb sib ds) (D : DecorAllowed e.rule aaa.toNat z false false)
    (hcb : c.bcstSize = bcstSizeOf e) (hm64 : ctx.mode64 = true) (hbr : e.rule.bcst = true)
    (hany : ∀ f2, e.rule.ops[2]? = some f2 → anyMemAlt f2 = true)
    (hLL : BcstFits c m (finalOp e 0x75)) (hr : reg < 32#32) (hv : vvvvv < 32#32) :
    ∃ bytes k0 k1 k2, e.kinds = [k0, k1, k2] ∧
      emitVexEvexM c (finalOp e 0x75) (zOpt z) (packRegVvvvv reg.toNat vvvvv.toNat) m 0 0 = .ok bytes ∧
      formOk ctx e.rule [.reg k0 reg.toNat, .reg k1 vvvvv.toNat, .mem mo] (decorOf aaa.toNat z false false 0) bytes = true := by
  have hok := mem_chunks_ok rvm_mem_bcst_entries_ok e ch hch he
  unfold entryOkRvmMemB at hok
  split at hok
  · rename_i f0 f1 f2 k0 k1 k2 hops hkinds
    have hm2 : anyMemAlt f2 = true := hany f2 (by rw [hops]; rfl)
    simp only [hbr, hm2, Bool.not_true, Bool.false_or, Bool.and_eq_true, Bool.or_eq_true, beq_iff_eq] at hok
    obtain ⟨-, hC, r0, r1, r2, p0, p1, n0, n1, m0, m1⟩ := hok
    obtain ⟨R, hmode, hsp, A, hxop, hu, hs6, hN⟩ := memCoreOkB_spec _ _ _ hC
    have hal : alignOps e.rule.oszEff e.rule.ops [.reg k0 reg.toNat, .reg k1 vvvvv.toNat, .mem mo] =
        some [(f0, some (.reg k0 reg.toNat)), (f1, some (.reg k1 vvvvv.toNat)), (f2, some (.mem mo))] := by
      rw [hops]
      exact alignOps3 _ _ _ _ _ _ _ (by rw [formOpMatches_reg_nofix _ _ _ _ n0]; exact m0) (by rw [formOpMatches_reg_nofix _ _ _ _ n1]; exact m1)
        (anyMemAlt_matches_bcst _ _ _ hm2 AF.hbc AF.hvsib)
    obtain ⟨bytes, hb', hf⟩ := vexM_rvm_formOk_bcst c ctx e.rule (finalOp e 0x75) reg vvvvv xb aaa z m mo pfx mb sib ds AF k0 k1 f0 f1 f2 hm64 hmode
      hr hv hxop (plainKind_spec _ p0) (plainKind_spec _ p1) R D hsp A hbr hLL (by rw [hcb]; exact hN) r0 r1 r2 hal
    refine ⟨bytes, k0, k1, k2, hkinds, ?_, hf⟩
    rw [packRegVvvvv_eq reg vvvvv hr hv]
    exact hb'
  · simp at hok

/-- **front_cls_correct with a BROADCAST memory operand, classes VexRvmi / VexRvmi_Lx**: `reg, vvvv, MEM{1toN}, imm8` -/
theorem front_cls_correct_rvmi_mem_bcst (e : Entry) (ch : List Entry) (hch : ch ∈ rvmiChunks) (he : e ∈ ch)
    (c : Model.X86.Ctx) (ctx : Spec.X86.Ctx) (reg vvvvv xb aaa : BitVec 32) (z : Bool) (m : Mem) (mo : MemOp) (pfx : List (BitVec 8)) (imm : BitVec 64)
    (mb : BitVec 32 → BitVec 32 → BitVec 8) (sib : BitVec 32 → BitVec 32 → Option (BitVec 8)) (ds : BitVec 32 → BitVec 32 → List (BitVec 8))
    (AF : AddrFormB c ctx m mo pfx xb aaa mb sib ds) (D : DecorAllowed e.rule aaa.toNat z false false)
    (hcb : c.bcstSize = bcstSizeOf e) (hm64 : ctx.mode64 = true) (hbr : e.rule.bcst = true)
    (hany : ∀ f2, e.rule.ops[2]? = some f2 → anyMemAlt f2 = true)
    (himm : ∀ f3, e.rule.ops[3]? = some f3 → formOpMatches e.rule.oszEff f3 (.imm imm) = true)
    (hLL : BcstFits c m (finalOp e 0x7C)) (hr : reg < 32#32) (hv : vvvvv < 32#32) :
    ∃ bytes k0 k1 k2, e.kinds = [k0, k1, k2] ∧
      emitVexEvexM c (finalOp e 0x7C) (zOpt z) (packRegVvvvv reg.toNat vvvvv.toNat) m imm 1 = .ok bytes ∧
      formOk ctx e.rule [.reg k0 reg.toNat, .reg k1 vvvvv.toNat, .mem mo, .imm imm] (decorOf aaa.toNat z false false 0) bytes = true := by
  have hok := mem_chunks_ok rvmi_mem_bcst_entries_ok e ch hch he
  unfold entryOkRvmiMemB at hok
  split at hok
  · rename_i f0 f1 f2 f3 k0 k1 k2 hops hkinds
    have hm2 : anyMemAlt f2 = true := hany f2 (by rw [hops]; rfl)
    have m3 : formOpMatches e.rule.oszEff f3 (.imm imm) = true := himm f3 (by rw [hops]; rfl)
    simp only [hbr, hm2, Bool.not_true, Bool.false_or, Bool.and_eq_true, Bool.or_eq_true, beq_iff_eq] at hok
    obtain ⟨-, hC, r0, r1, r2, r3, hib, p0, p1, n0, n1, m0, m1⟩ := hok
    obtain ⟨R, hmode, hsp, A, hxop, hu, hs6, hN⟩ := memCoreOkB_spec _ _ _ hC
    have hal : alignOps e.rule.oszEff e.rule.ops [.reg k0 reg.toNat, .reg k1 vvvvv.toNat, .mem mo, .imm imm] =
        some [(f0, some (.reg k0 reg.toNat)), (f1, some (.reg k1 vvvvv.toNat)), (f2, some (.mem mo)), (f3, some (.imm imm))] := by
      rw [hops]
      exact alignOps4 _ _ _ _ _ _ _ _ _ (by rw [formOpMatches_reg_nofix _ _ _ _ n0]; exact m0) (by rw [formOpMatches_reg_nofix _ _ _ _ n1]; exact m1)
        (anyMemAlt_matches_bcst _ _ _ hm2 AF.hbc AF.hvsib) m3
    obtain ⟨bytes, hb', hf⟩ := vexM_rvmi_formOk_bcst c ctx e.rule (finalOp e 0x7C) reg vvvvv xb aaa z m mo pfx mb sib ds AF k0 k1 f0 f1 f2 hm64 hmode
      hr hv hxop (plainKind_spec _ p0) (plainKind_spec _ p1) R D f3 imm r3 hib hsp A hbr hLL (by rw [hcb]; exact hN) r0 r1 r2 hal
    refine ⟨bytes, k0, k1, k2, hkinds, ?_, hf⟩
    rw [packRegVvvvv_eq reg vvvvv hr hv]
    exact hb'
  · simp at hok

/-- **front_cls_correct with a BROADCAST memory operand, classes VexRm / VexRm_Lx**: `reg, MEM{1toN}` (the operand's size is the element size) -/
theorem front_cls_correct_rm_mem_bcst (e : Entry) (ch : List Entry) (hch : ch ∈ rmChunks) (he : e ∈ ch)
    (c : Model.X86.Ctx) (ctx : Spec.X86.Ctx) (reg xb aaa : BitVec 32) (z : Bool) (m : Mem) (mo : MemOp) (pfx : List (BitVec 8))
    (mb : BitVec 32 → BitVec 32 → BitVec 8) (sib : BitVec 32 → BitVec 32 → Option (BitVec 8)) (ds : BitVec 32 → BitVec 32 → List (BitVec 8))
    (AF : AddrFormB c ctx m mo pfx xb aaa mb sib ds) (D : DecorAllowed e.rule aaa.toNat z false false)
    (hcb : c.bcstSize = bcstSizeOf e) (hm64 : ctx.mode64 = true) (hbr : e.rule.bcst = true)
    (hany : ∀ f2, e.rule.ops[1]? = some f2 → anyMemAlt f2 = true)
    (hfit : lFromBcst e (finalOpM e 0x6B (bcstSizeOf e)) = false)
    (hLL : BcstFits c m (finalOpM e 0x6B (bcstSizeOf e))) (hr : reg < 32#32) :
    ∃ bytes k0 k2, e.kinds = [k0, k2] ∧
      emitVexEvexM c (finalOpM e 0x6B (bcstSizeOf e)) (zOpt z) (r32 reg.toNat) m 0 0 = .ok bytes ∧
      formOk ctx e.rule [.reg k0 reg.toNat, .mem mo] (decorOf aaa.toNat z false false 0) bytes = true := by
  have hok := mem_chunks_ok rm_mem_bcst_entries_ok e ch hch he
  unfold entryOkRmMemB at hok
  split at hok
  · rename_i f0 f2 k0 k2 hops hkinds
    have hm2 : anyMemAlt f2 = true := hany f2 (by rw [hops]; rfl)
    simp only [hbr, hm2, hfit, Bool.not_true, Bool.false_or, Bool.and_eq_true, Bool.or_eq_true, beq_iff_eq] at hok
    obtain ⟨-, hC, r0, r2, p0, n0, m0⟩ := hok
    obtain ⟨R, hmode, hsp, A, hxop, hu, hs6, hN⟩ := memCoreOkB_spec _ _ _ hC
    have hal : alignOps e.rule.oszEff e.rule.ops [.reg k0 reg.toNat, .mem mo] =
        some [(f0, some (.reg k0 reg.toNat)), (f2, some (.mem mo))] := by
      rw [hops]
      exact alignOps2 _ _ _ _ _ (by rw [formOpMatches_reg_nofix _ _ _ _ n0]; exact m0) (anyMemAlt_matches_bcst _ _ _ hm2 AF.hbc AF.hvsib)
    have e0 : reg + ((0#32 : BitVec 32) <<< 7) = reg := by bv_decide
    obtain ⟨bytes, hb', hf⟩ := vexM_rm_formOk_bcst c ctx e.rule (finalOpM e 0x6B (bcstSizeOf e)) reg xb aaa z m mo pfx mb sib ds AF k0 f0 f2 hm64 hmode
      hr hxop (plainKind_spec _ p0) R D hsp A hbr hLL (by rw [hcb]; exact hN) r0 r2 hal
    refine ⟨bytes, k0, k2, hkinds, ?_, hf⟩
    rw [e0] at hb'
    simpa [r32] using hb'
  · simp at hok

/-- **front_cls_correct with a BROADCAST memory operand, classes VexRmi / VexRmi_Lx**: `reg, MEM{1toN}, imm8` -/
theorem front_cls_correct_rmi_mem_bcst (e : Entry) (ch : List Entry) (hch : ch ∈ rmiChunks) (he : e ∈ ch)
    (c : Model.X86.Ctx) (ctx : Spec.X86.Ctx) (reg xb aaa : BitVec 32) (z : Bool) (m : Mem) (mo : MemOp) (pfx : List (BitVec 8)) (imm : BitVec 64)
    (mb : BitVec 32 → BitVec 32 → BitVec 8) (sib : BitVec 32 → BitVec 32 → Option (BitVec 8)) (ds : BitVec 32 → BitVec 32 → List (BitVec 8))
    (AF : AddrFormB c ctx m mo pfx xb aaa mb sib ds) (D : DecorAllowed e.rule aaa.toNat z false false)
    (hcb : c.bcstSize = bcstSizeOf e) (hm64 : ctx.mode64 = true) (hbr : e.rule.bcst = true)
    (hany : ∀ f2, e.rule.ops[1]? = some f2 → anyMemAlt f2 = true)
    (himm : ∀ f3, e.rule.ops[2]? = some f3 → formOpMatches e.rule.oszEff f3 (.imm imm) = true)
    (hfit : lFromBcst e (finalOpM e 0x71 (bcstSizeOf e)) = false)
    (hLL : BcstFits c m (finalOpM e 0x71 (bcstSizeOf e))) (hr : reg < 32#32) :
    ∃ bytes k0 k2, e.kinds = [k0, k2] ∧
      emitVexEvexM c (finalOpM e 0x71 (bcstSizeOf e)) (zOpt z) (r32 reg.toNat) m imm 1 = .ok bytes ∧
      formOk ctx e.rule [.reg k0 reg.toNat, .mem mo, .imm imm] (decorOf aaa.toNat z false false 0) bytes = true := by
  have hok := mem_chunks_ok rmi_mem_bcst_entries_ok e ch hch he
  unfold entryOkRmiMemB at hok
  split at hok
  · rename_i f0 f2 f3 k0 k2 hops hkinds
    have hm2 : anyMemAlt f2 = true := hany f2 (by rw [hops]; rfl)
    have m3 : formOpMatches e.rule.oszEff f3 (.imm imm) = true := himm f3 (by rw [hops]; rfl)
    simp only [hbr, hm2, hfit, Bool.not_true, Bool.false_or, Bool.and_eq_true, Bool.or_eq_true, beq_iff_eq] at hok
    obtain ⟨-, hC, r0, r2, r3, hib, p0, n0, m0⟩ := hok
    obtain ⟨R, hmode, hsp, A, hxop, hu, hs6, hN⟩ := memCoreOkB_spec _ _ _ hC
    have hal : alignOps e.rule.oszEff e.rule.ops [.reg k0 reg.toNat, .mem mo, .imm imm] =
        some [(f0, some (.reg k0 reg.toNat)), (f2, some (.mem mo)), (f3, some (.imm imm))] := by
      rw [hops]
      exact alignOps3i _ _ _ _ _ _ _ (by rw [formOpMatches_reg_nofix _ _ _ _ n0]; exact m0) (anyMemAlt_matches_bcst _ _ _ hm2 AF.hbc AF.hvsib) m3
    have e0 : reg + ((0#32 : BitVec 32) <<< 7) = reg := by bv_decide
    obtain ⟨bytes, hb', hf⟩ := vexM_rmi_formOk_bcst c ctx e.rule (finalOpM e 0x71 (bcstSizeOf e)) reg xb aaa z m mo pfx mb sib ds AF k0 f0 f2 hm64 hmode
      hr hxop (plainKind_spec _ p0) R D f3 imm r3 hib hsp A hbr hLL (by rw [hcb]; exact hN) r0 r2 hal
    refine ⟨bytes, k0, k2, hkinds, ?_, hf⟩
    rw [e0] at hb'
    simpa [r32] using hb'
  · simp at hok

end AsmjitVerif.Props.C01
