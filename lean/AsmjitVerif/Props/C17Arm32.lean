/-
C17, the Thumb / A32 split displacement formats of codewriter.cpp (no compiled backend constructs them; the
property's quantifier names them).  For the canonical geometry of each `OffsetType` (the one the Arm ARM encoding
has) and EVERY 64-bit displacement:
 * `*_exact`   : accepted ⇒ the patched word decodes (Spec/Offset.lean, written from the Arm ARM encodings of
                 ADR, B.W, BLX, B<c>.W, LDR/VLDR/LDRH-literal, A32 BLX) to exactly the displacement, only field bits
                 change, and the field bits satisfy the encoding's own constraints (`fieldValid32`);
 * `*_refused` : refused ⇒ no field content designates the displacement;
 * `*_repr_complete` : the monitor's "representable" is complete.
The model follows the code repaired by fixes/C17-1.patch (T32 J1/J2 bits); `*_pinned_witness` shows the input on
which the pinned formula fails.
-/
import AsmjitVerif.Props.C17
import AsmjitVerif.Lemmas.OffsetArm32
import Std.Tactic.BVDecide
namespace AsmjitVerif.Offset

/-- exactness incl. the validity constraints of the field bits -/
def ExactV32 (f : OffsetFormat) : Prop :=
  ∀ (off : BitVec 64) (m : BitVec 32), encodeOffset32 f off = some m →
    ∀ old : BitVec 32, old &&& fieldMask32 f = 0#32 →
      decode32 f (old ||| m) = off ∧ (old ||| m) &&& ~~~ fieldMask32 f = old ∧ fieldValid32 f (old ||| m) = true

def fT32Adr   := immValue .thumb32Adr 4 0 12 0     -- ADR.W           ±4095
def fT32B     := immValue .thumb32B 4 0 24 1       -- B.W / BL        ±16 MiB, half-word aligned
def fT32Blx   := immValue .thumb32Blx 4 0 23 2     -- BLX             ±16 MiB, word aligned
def fT32BCond := immValue .thumb32BCond 4 0 20 1   -- B<c>.W          ±1 MiB
def fA32Adr   := immValue .a32Adr 4 0 32 0         -- ADR (A1/A2)     ± modified immediate
def fA32Ldr   := immValue .a32U23Signed 4 0 12 0   -- LDR (literal)   ±4095
def fA32Vldr  := immValue .a32U23Signed 4 0 8 2    -- VLDR (literal)  ±1020, word aligned
def fA32Ldrh  := immValue .a32U23Split 4 0 8 0     -- LDRH/LDRD (literal) ±255
def fA32Blx   := immValue .a32_1To24 4 0 25 1      -- BLX (A2)        ±32 MiB, half-word aligned

syntax "arm_unfold" : tactic
macro_rules
  | `(tactic| arm_unfold) => `(tactic|
      simp [encodeOffset32, encode32Value, simpleValue, immValue, OffsetFormat.hasSignBit,
            lsbMask32, isInt32, isEncodableOffset32, decode32, fieldMask32, sext64, fieldValid32,
            signMag, t32BranchHigh] at *)

syntax "prove_exactv32" : tactic
macro_rules
  | `(tactic| prove_exactv32) => `(tactic|
      (intro off m h old hold
       arm_unfold
       split at h
       · simp at h
       · rename_i value u heq
         simp at heq h
         bv_decide (config := { timeout := 300 })))

syntax "prove_refusedv32" : tactic
macro_rules
  | `(tactic| prove_refusedv32) => `(tactic|
      (intro off h w
       arm_unfold
       split at h
       · rename_i heq
         simp at heq
         bv_decide (config := { timeout := 300 })
       · simp at h))

theorem fT32Adr_exact : ExactV32 fT32Adr := by unfold fT32Adr; prove_exactv32
theorem fT32Adr_refused : Refused32 fT32Adr := by unfold fT32Adr; prove_refusedv32
theorem fT32B_exact : ExactV32 fT32B := by unfold fT32B; prove_exactv32
theorem fT32B_refused : Refused32 fT32B := by unfold fT32B; prove_refusedv32
theorem fT32Blx_exact : ExactV32 fT32Blx := by unfold fT32Blx; prove_exactv32
theorem fT32Blx_refused : Refused32 fT32Blx := by unfold fT32Blx; prove_refusedv32
theorem fT32BCond_exact : ExactV32 fT32BCond := by unfold fT32BCond; prove_exactv32
theorem fT32BCond_refused : Refused32 fT32BCond := by unfold fT32BCond; prove_refusedv32
theorem fA32Ldr_exact : ExactV32 fA32Ldr := by unfold fA32Ldr; prove_exactv32
theorem fA32Ldr_refused : Refused32 fA32Ldr := by unfold fA32Ldr; prove_refusedv32
theorem fA32Vldr_exact : ExactV32 fA32Vldr := by unfold fA32Vldr; prove_exactv32
theorem fA32Vldr_refused : Refused32 fA32Vldr := by unfold fA32Vldr; prove_refusedv32
theorem fA32Ldrh_exact : ExactV32 fA32Ldrh := by unfold fA32Ldrh; prove_exactv32
theorem fA32Ldrh_refused : Refused32 fA32Ldrh := by unfold fA32Ldrh; prove_refusedv32
theorem fA32Blx_exact : ExactV32 fA32Blx := by unfold fA32Blx; prove_exactv32
theorem fA32Blx_refused : Refused32 fA32Blx := by unfold fA32Blx; prove_refusedv32

/-- A32 ADR: the modified-immediate encoder (`encode_aarch32_imm`, with its `ctz`) enters through its
sound/complete lemmas (Lemmas/OffsetArm32.lean) -/
theorem fA32Adr_exact : ExactV32 fA32Adr := by
  unfold fA32Adr
  intro off m h old hold
  arm_unfold
  split at h
  · simp at h
  · rename_i value u heq
    split at h
    · simp at h
    · rename_i enc henc
      have hs := a32imm_sound _ _ henc
      clear henc
      simp only [rorSpec] at hs ⊢
      simp at heq h
      bv_decide (config := { timeout := 300 })

theorem fA32Adr_refused : Refused32 fA32Adr := by
  unfold fA32Adr
  intro off h w
  arm_unfold
  split at h
  · rename_i heq
    simp at heq
    simp only [rorSpec]
    bv_decide (config := { timeout := 300 })
  · rename_i value u heq
    split at h
    · rename_i henc
      have hc := fun imm12 => a32imm_complete value imm12
      simp at heq
      intro hw
      apply hc (w &&& 0xFFF#32) ?_ henc
      simp only [rorSpec] at hw ⊢
      clear hc henc h
      bv_decide (config := { timeout := 300 })
    · simp at h

/-! #### the monitor's "representable" is complete for these formats too -/
syntax "prove_reprv" : tactic
macro_rules
  | `(tactic| prove_reprv) => `(tactic|
      (intro off w h
       simp [simpleValue, immValue, decode32, specEnc32, sext64, signMag, t32BranchHigh, t32BranchEnc, absOff] at *
       all_goals bv_decide (config := { timeout := 300 })))
theorem fT32Adr_repr_complete : ReprComplete32 fT32Adr := by unfold fT32Adr; prove_reprv
theorem fT32B_repr_complete : ReprComplete32 fT32B := by unfold fT32B; prove_reprv
theorem fT32Blx_repr_complete : ReprComplete32 fT32Blx := by unfold fT32Blx; prove_reprv
theorem fT32BCond_repr_complete : ReprComplete32 fT32BCond := by unfold fT32BCond; prove_reprv
theorem fA32Ldr_repr_complete : ReprComplete32 fA32Ldr := by unfold fA32Ldr; prove_reprv
theorem fA32Vldr_repr_complete : ReprComplete32 fA32Vldr := by unfold fA32Vldr; prove_reprv
theorem fA32Ldrh_repr_complete : ReprComplete32 fA32Ldrh := by unfold fA32Ldrh; prove_reprv
theorem fA32Blx_repr_complete : ReprComplete32 fA32Blx := by unfold fA32Blx; prove_reprv
theorem fA32Adr_repr_complete : ReprComplete32 fA32Adr := by
  unfold fA32Adr
  intro off w h
  simp [immValue, decode32, specEnc32, signMag, absOff, List.range, List.range.loop, List.foldr] at *
  simp only [rorSpec] at *
  bv_decide (config := { timeout := 300 })

/-- the Thumb / A32 formats for which exactness is proved (one canonical geometry per `OffsetType`, two for U23) -/
def formatsProvedArm32 : List OffsetFormat :=
  [fT32Adr, fT32B, fT32Blx, fT32BCond, fA32Adr, fA32Ldr, fA32Vldr, fA32Ldrh, fA32Blx]

theorem formatsProvedArm32_exact : ∀ f ∈ formatsProvedArm32, ExactV32 f ∧ Refused32 f := by
  intro f hf
  simp only [formatsProvedArm32, List.mem_cons, List.mem_nil_iff, or_false] at hf
  rcases hf with h | h | h | h | h | h | h | h | h <;> subst h
  · exact ⟨fT32Adr_exact, fT32Adr_refused⟩
  · exact ⟨fT32B_exact, fT32B_refused⟩
  · exact ⟨fT32Blx_exact, fT32Blx_refused⟩
  · exact ⟨fT32BCond_exact, fT32BCond_refused⟩
  · exact ⟨fA32Adr_exact, fA32Adr_refused⟩
  · exact ⟨fA32Ldr_exact, fA32Ldr_refused⟩
  · exact ⟨fA32Vldr_exact, fA32Vldr_refused⟩
  · exact ⟨fA32Ldrh_exact, fA32Ldrh_refused⟩
  · exact ⟨fA32Blx_exact, fA32Blx_refused⟩

/-- every `OffsetType` of fixup.h is covered by a proved format (the 4 of Props/C17.lean + these 8) -/
theorem every_offset_type_covered : ∀ c < 12, ∃ t, OffsetType.ofCode c = some t ∧
    ∃ f ∈ formatsProved ++ formatsProvedArm32, f.type = t := by decide

/-! #### the pinned tree's formulas (before fixes/C17-1.patch) and the displacement on which they fail -/

/-- `kThumb32_B` as pinned: J1 is stored at bit 14 (the Arm ARM: bit 13; bit 14 tells B.W from BL) -/
def t32BranchPinned (value : BitVec 32) : BitVec 32 :=
  let ia := value &&& 0x0007FF#32
  let ib := (value &&& 0x1FF800#32) <<< (16 - 11)
  let ic := (value &&& 0x800000#32) <<< (26 - 23)
  let ja := ((~~~value >>> 23) ^^^ (value >>> 22)) &&& 1#32
  let jb := ((~~~value >>> 23) ^^^ (value >>> 21)) &&& 1#32
  ia ||| ib ||| ic ||| (ja <<< 14) ||| (jb <<< 11)

/-- `kThumb32_BCond` as pinned: J1, J2 are computed like B.W's (and are constantly 1 for a sign-extended value) -/
def t32BCondPinned (value : BitVec 32) : BitVec 32 :=
  let ia := value &&& 0x0007FF#32
  let ib := (value &&& 0x01F800#32) <<< (16 - 11)
  let ic := (value &&& 0x080000#32) <<< (26 - 19)
  let ja := ((~~~value >>> 19) ^^^ (value >>> 22)) &&& 1#32
  let jb := ((~~~value >>> 19) ^^^ (value >>> 21)) &&& 1#32
  ia ||| ib ||| ic ||| (ja <<< 14) ||| (jb <<< 11)

/-- displacement 0 of a B.W: the pinned field (0x4800) reads as +8 MiB and sets bit 14, which is not a field bit -/
theorem t32B_pinned_witness :
    t32BranchPinned 0#32 = 0x4800#32 ∧ decode32 fT32B (t32BranchPinned 0#32) = 0x800000#64 ∧
    t32BranchPinned 0#32 &&& ~~~ fieldMask32 fT32B ≠ 0#32 := by decide

/-- B<c>.W: displacements 0 and +0x40000 get the same field, which reads as +0x80000 -/
theorem t32BCond_pinned_witness :
    t32BCondPinned 0#32 = t32BCondPinned 0x20000#32 ∧ decode32 fT32BCond (t32BCondPinned 0#32) = 0x80000#64 := by decide

/-! non-vacuity: both sides of the range limits, both signs -/
example : encodeOffset32 fT32B 0#64 = some 0x2800#32 := by decide                       -- J1 = J2 = 1 (I1 = I2 = 0)
example : encodeOffset32 fT32B 0xFFFFFE#64 = some 0x03FF07FF#32 ∧ encodeOffset32 fT32B 0x1000000#64 = none := by decide
example : encodeOffset32 fT32B (BitVec.ofInt 64 (-0x1000000)) = some 0x04000000#32 := by decide
example : encodeOffset32 fT32BCond 0x40000#64 = some 0x2000#32 ∧ encodeOffset32 fT32BCond 0x100000#64 = none := by decide
example : encodeOffset32 fT32Adr (BitVec.ofInt 64 (-4095)) = some 0x04A070FF#32 ∧ encodeOffset32 fT32Adr 4096#64 = none := by decide
example : encodeOffset32 fA32Adr 0xFF0#64 = some 0x800EFF#32 ∧ encodeOffset32 fA32Adr 0x101#64 = none := by decide
example : encodeOffset32 fA32Adr (BitVec.ofInt 64 (-0xF000000F)) = some 0x4002FF#32 := by decide
example : encodeOffset32 fA32Adr 0x10001#64 = none := by decide                          -- the `ror(v, 0)` input
example : encodeOffset32 fA32Vldr (BitVec.ofInt 64 (-1020)) = some 0xFF#32 ∧ encodeOffset32 fA32Vldr 1022#64 = none := by decide
example : encodeOffset32 fA32Ldrh 0xAB#64 = some 0x800A0B#32 := by decide
example : encodeOffset32 fA32Blx 2#64 = some 0x1000000#32 ∧ encodeOffset32 fA32Blx 0x2000000#64 = none := by decide

end AsmjitVerif.Offset
