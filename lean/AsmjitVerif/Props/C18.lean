/-
C18 — arena-backed containers and strings behave like their abstract data types.

Property theorems only (helper lemmas live in `Lemmas/C18*.lean`, models in `Model/`, the independent spec and the
run-time monitor in `Spec/C18*.lean`).  Every theorem quantifies over ALL inputs / operation sequences.
-/
import AsmjitVerif.Lemmas.C18Hash
namespace AsmjitVerif.C18
open AsmjitVerif

/-! ## ArenaHash: `_calc_mod` by reciprocal multiplication is the remainder, for every row of the prime table
regenerated from arenahash.cpp (`Gen/HashPrimes.lean`) and every 32-bit hash code. -/

/-- every generated row passes the decidable side condition of `recip_div` (and `grow = ⌊0.9·prime⌋ < prime`) -/
theorem prime_rows_ok : Gen.hashPrimes.all Hash.rowOk = true := by decide

/-- `calc_mod_eq`: for EVERY row `(prime, rcp, shift, _)` of the table and EVERY `h < 2^32`,
`h - ((h * rcp) >> shift) * prime` (in the C++'s 64/32-bit arithmetic) is `h % prime`. -/
theorem calc_mod_eq (row : Nat × Nat × Nat × Nat) (hrow : row ∈ Gen.hashPrimes) (h : Nat) (hh : h < 2 ^ 32) :
    Hash.calcModRaw row.1 row.2.1 row.2.2.1 h = h % row.1 := by
  obtain ⟨d, m, s, g⟩ := row
  exact Hash.calcModRaw_eq_mod d m s g h (List.all_eq_true.mp prime_rows_ok _ hrow) hh

/-- the initial (embedded, one bucket) configuration `count = rcp = 1, shift = 0` maps every hash to bucket 0 -/
theorem calc_mod_initial (h : Nat) (hh : h < 2 ^ 32) : Hash.calcMod ({} : Hash.Table) h = 0 := by
  simp only [Hash.calcMod, Hash.calcModRaw, Arena.u64, Arena.u32]
  have : h < 2 ^ 64 := by omega
  simp [Nat.mod_eq_of_lt this, Nat.mod_eq_of_lt hh]

set_option maxRecDepth 100000 in
/-- the table is strictly increasing, so `_insert`'s `prime_index + 2` always enlarges the bucket array -/
theorem primes_increasing : (Gen.hashPrimes.map (·.1)).Pairwise (· < ·) := by decide

-- non-vacuity: the table is non-empty, the lemma says something on a concrete row and hash
set_option maxRecDepth 100000 in
example : 100 < Gen.hashPrimes.length := by decide
example : Hash.calcModRaw 11 0xBA2E8BA3 35 4294967295 = 3 := by decide

end AsmjitVerif.C18
