/-
C18 — arena-backed containers and strings behave like their abstract data types.

Property theorems only (helper lemmas live in `Lemmas/C18*.lean`, models in `Model/`, the independent spec and the
run-time monitor in `Spec/C18*.lean`).  Every theorem quantifies over ALL inputs / operation sequences.
-/
import AsmjitVerif.Lemmas.C18Hash
import AsmjitVerif.Lemmas.C18Bits
import AsmjitVerif.Lemmas.C18Str2
import AsmjitVerif.Lemmas.C18Arena2
import AsmjitVerif.Lemmas.C18Vector
namespace AsmjitVerif.C18
open AsmjitVerif

/-! ## ArenaHash: `_calc_mod` by reciprocal multiplication is the remainder, for every row of the prime table
regenerated from arenahash.cpp (`Gen/HashPrimes.lean`) and every 32-bit hash code. -/

/-- every generated row passes the decidable side condition of `recip_div` (and `grow = ⌊0.9·prime⌋ < prime`) -/
theorem prime_rows_ok : Gen.hashPrimes.all Hash.rowOk = true := by decide

/-- `calc_mod_eq`: for EVERY row `(prime, rcp, shift, _)` of the table and EVERY `h < 2^32`,
`h - ((h * rcp) >> shift) * prime` (in the C++'s 64/32-bit arithmetic) is `h % prime`. -/
theorem calc_mod_eq (row : Nat × Nat × Nat × Nat) (hrow : row ∈ Gen.hashPrimes) (h : Nat) (hh : h < 2 ^ 32) :
    Hash.calcModRaw row.1 row.2.1 row.2.2.1 h = h % row.1 := by
  obtain ⟨d, m, s, g⟩ := row
  exact Hash.calcModRaw_eq_mod d m s g h (List.all_eq_true.mp prime_rows_ok _ hrow) hh

/-- the initial (embedded, one bucket) configuration `count = rcp = 1, shift = 0` maps every hash to bucket 0 -/
theorem calc_mod_initial (h : Nat) (hh : h < 2 ^ 32) : Hash.calcMod ({} : Hash.Table) h = 0 := by
  simp only [Hash.calcMod, Hash.calcModRaw, Arena.u64, Arena.u32]
  have : h < 2 ^ 64 := by omega
  simp [Nat.mod_eq_of_lt this, Nat.mod_eq_of_lt hh]

set_option maxRecDepth 100000 in
/-- the table is strictly increasing, so `_insert`'s `prime_index + 2` always enlarges the bucket array -/
theorem primes_increasing : (Gen.hashPrimes.map (·.1)).Pairwise (· < ·) := by decide

-- non-vacuity: the table is non-empty, the lemma says something on a concrete row and hash
set_option maxRecDepth 100000 in
example : 100 < Gen.hashPrimes.length := by decide
example : Hash.calcModRaw 11 0xBA2E8BA3 35 4294967295 = 3 := by decide

/-! ## Bit-vector primitives of support.h: the word-level code equals the pointwise `List Bool` specification
(`Spec/C18Bits.lean`: `bitAt ws j` = bit `j % 64` of word `j / 64`), for every buffer, index and count. -/
section Bits
open AsmjitVerif.Bits AsmjitVerif.Bits.Spec

/-- `bit_vector_get_bit` reads exactly bit `i` (and is out of bounds exactly beyond the buffer) -/
theorem bit_get_spec (buf : Words) (i : Nat) (h : i < 64 * buf.length) : getBit buf i = some (bitAt buf i) :=
  getBit_spec buf i h

/-- `bit_vector_set_bit` changes bit `i` to `v` and nothing else -/
theorem bit_set_spec (buf : Words) (i : Nat) (v : Bool) (h : i < 64 * buf.length) :
    ∃ buf', setBit buf i v = some buf' ∧ buf'.length = buf.length ∧ bitAt buf' i = v ∧
      ∀ j, j ≠ i → bitAt buf' j = bitAt buf j :=
  setBit_spec buf i v h

/-- `fill_spec` / `clear_spec`: `bit_vector_fill/clear(buf, index, count)` never leave the buffer when the range is
inside it, set exactly the bits `index ≤ j < index + count` to `fill` and keep every other bit -/
theorem bit_fill_clear_spec (fill : Bool) (buf : Words) (index count : Nat) (h : index + count ≤ 64 * buf.length) :
    ∃ buf', bitVectorOp fill buf index count = some buf' ∧ buf'.length = buf.length ∧
      ∀ j, bitAt buf' j = if index ≤ j ∧ j < index + count then fill else bitAt buf j :=
  bitVectorOp_spec fill buf index count h

/-- `index_of_spec`: `bit_vector_index_of` returns the FIRST position `≥ start` holding `v` … -/
theorem bit_index_of_spec (buf : Words) (start : Nat) (v : Bool) (i : Nat) (h : indexOf buf start v = some i) :
    start ≤ i ∧ i < 64 * buf.length ∧ bitAt buf i = v ∧ ∀ j, start ≤ j → j < i → bitAt buf j ≠ v :=
  indexOf_spec buf start v i h

/-- … and finds one whenever one exists inside the buffer (it runs off the buffer only otherwise) -/
theorem bit_index_of_complete (buf : Words) (start : Nat) (v : Bool) (j : Nat) (hj1 : start ≤ j)
    (hj2 : j < 64 * buf.length) (hv : bitAt buf j = v) : ∃ i, indexOf buf start v = some i :=
  indexOf_complete buf start v j hj1 hj2 hv

/-- `BitVectorIterator` (`ArenaBitSet::ForEachBitSet`) yields exactly the set bits at or after `start`, ascending -/
theorem bit_iterate_spec (data : Words) (start : Nat) :
    iterate data start = (List.range (64 * data.length)).filter (fun j => decide (start ≤ j) && bitAt data j) :=
  iterate_spec data start

/-- `ArenaBitSet::and_/or_/and_not`: never out of bounds, keep the invariant (capacity consistent, unused bits of the
last word zero) and act bitwise on the textbook bit lists (the other set padded with `false`) -/
theorem bitset_or_spec (b other : BitSet) (hb : WF b) (ho : WF other) :
    ∃ b', or_ b other = some b' ∧ WF b' ∧ b'.size = b.size ∧ b'.cap = b.cap ∧
      bits b' = List.zipWith (fun x y => x || y) (bits b)
        ((bits other ++ List.replicate (b.size - other.size) false).take b.size) :=
  or_spec b other hb ho
theorem bitset_and_spec (b other : BitSet) (hb : WF b) (ho : WF other) :
    ∃ b', and_ b other = some b' ∧ WF b' ∧ b'.size = b.size ∧ b'.cap = b.cap ∧
      bits b' = List.zipWith (fun x y => x && y) (bits b)
        ((bits other ++ List.replicate (b.size - other.size) false).take b.size) :=
  and_spec b other hb ho
theorem bitset_andnot_spec (b other : BitSet) (hb : WF b) (ho : WF other) :
    ∃ b', andNot b other = some b' ∧ WF b' ∧ b'.size = b.size ∧ b'.cap = b.cap ∧
      bits b' = List.zipWith (fun x y => x && !y) (bits b)
        ((bits other ++ List.replicate (b.size - other.size) false).take b.size) :=
  andNot_spec b other hb ho
theorem bitset_truncate_spec (b : BitSet) (n : Nat) (hwf : WF b) :
    ∃ b', truncate b n = some b' ∧ WF b' ∧ b'.size = min b.size n ∧ b'.cap = b.cap ∧ bits b' = (bits b).take n :=
  truncate_spec b n hwf
theorem bitset_fill_all_spec (b : BitSet) (hwf : WF b) :
    ∃ b', fillAll b = some b' ∧ WF b' ∧ b'.size = b.size ∧ b'.cap = b.cap ∧ bits b' = List.replicate b.size true :=
  fillAll_spec b hwf

/- Full statement wanted: `resize/append/copy_from` refine `take/replicate`, `snoc`, assignment for EVERY call.
   Proved: the calls that do not reallocate (`newSize ≤ capacity`); the reallocating branch needs three more facts about
   `Arena.allocReusable` (allocated ≥ requested, multiple of 8, < 2^29) – it is covered by the correspondence only. -/
/-- `ArenaBitSet::_resize` (REPAIRED code, fixes/C18-3.patch) inside the capacity: old bits kept, new bits = `v` -/
theorem bitset_resize_partial (a : Arena.State) (b : BitSet) (newSize ideal : Nat) (v : Bool) (hwf : WF b)
    (hcap : newSize ≤ b.cap) (hnew : newSize < Arena.u32) :
    ∃ b', resizeI a b newSize ideal v = some (a, b', Err.ok) ∧ WF b' ∧ b'.size = newSize ∧ b'.cap = b.cap ∧
      bits b' = (bits b).take newSize ++ List.replicate (newSize - b.size) v :=
  resizeI_spec_partial a b newSize ideal v hwf hcap hnew
theorem bitset_append_partial (a : Arena.State) (b : BitSet) (v : Bool) (hwf : WF b) (hlt : b.size < b.cap) :
    ∃ b', append a b v = some (a, b', Err.ok) ∧ WF b' ∧ b'.size = b.size + 1 ∧ b'.cap = b.cap ∧ bits b' = bits b ++ [v] :=
  append_spec_partial a b v hwf hlt

-- non-vacuity
example : bitVectorOp true [0#64, 0#64] 60 10 = some [0xF000000000000000#64, 0x3F#64] := by decide
example : indexOf [0#64, 8#64] 3 true = some 67 := by decide
example : iterate [5#64, 1#64] 1 = [2, 64] := by decide
end Bits

/-! ## String: refinement to a byte list, null termination, number formatting parses back. -/
section Str
open AsmjitVerif.Str

/-- `append_uint_parses_back`: for the four supported bases and every 64-bit `n`, the digits `_op_number` emits
parse back (independent textbook parser `parseDigits`) to `n`, are non-empty and have no leading zero unless `n = 0` -/
theorem append_uint_parses_back (base n : Nat) (hb : ValidBase base) (hn : n < 2 ^ 64) :
    parseDigits base (digits base 64 n []) = some n ∧ digits base 64 n [] ≠ [] ∧
    ((digits base 64 n []).head? = some 48 → n = 0) :=
  Str.append_uint_parses_back base n hb hn

/-- with width and flags: the text is `prefix ++ zeros ++ digits`, the padded digits still parse to the magnitude, a '-'
prefix appears exactly for a negative `kSigned` input, the prefix is at most 3 characters of `-+ 0x` -/
theorem number_text_shape (n base w f : Nat) (hn : n < 2 ^ 64) (t : List Nat) (h : numberText n base w f = some t) :
    let b := if base = 0 then 10 else base
    let neg := f &&& kSigned ≠ 0 ∧ n ≥ 2 ^ 63
    let v := if neg then 2 ^ 64 - n else n
    ValidBase b ∧ ∃ pre k,
      t = pre ++ List.replicate k 48 ++ digits b 64 v [] ∧
      parseDigits b (List.replicate k 48 ++ digits b 64 v []) = some v ∧
      k = min w 256 - (digits b 64 v []).length ∧
      (neg → pre.head? = some 45) ∧ (¬ neg → pre.head? ≠ some 45) ∧
      (∀ c ∈ pre, c ∈ [45, 43, 32, 48, 120]) ∧ pre.length ≤ 3 :=
  numberText_shape n base w f hn t h

/-- the whole `_op_number` text equals the textbook formatter of `Spec/C18Str.lean` (bases other than 0/2/8/10/16: `none`) -/
theorem number_text_eq_spec (n base w f : Nat) (hn : n < 2 ^ 64) : numberText n base w f = specNumberText n base w f :=
  numberText_eq_spec n base w f hn

/-- `string_refines_bytes`: for EVERY operation sequence (assign/append string, char, chars, number, hex, pad_end,
truncate, clear, reset) the model never writes outside its buffer, keeps `size ≤ capacity`, `buf.length = capacity+1`,
the terminator, and its contents equal the byte-list ADT run on the same operations; an operation answered
out-of-memory (`oks`) is skipped by the ADT and leaves the string untouched -/
theorem string_refines_bytes (ops : List SOp) :
    ∃ s' oks, runModelE ops {} = some (s', oks) ∧ oks.length = ops.length ∧ WF s' ∧ content s' = runSpecE ops oks [] :=
  string_refines_bytes_oom ops

/-- when the sequence adds fewer than 2^38 bytes no operation fails and the contents are exactly the ADT's -/
theorem string_refines_bytes_no_oom (ops : List SOp) (hsmall : totalCost ops < 2 ^ 38) :
    ∃ s', runModel ops {} = some s' ∧ WF s' ∧ content s' = runSpec ops [] :=
  Str.string_refines_bytes ops hsmall

/-- `null_terminated`: after every operation sequence `data()[size()] == 0` -/
theorem string_null_terminated (ops : List SOp) : ∃ s', runModel ops {} = some s' ∧ terminated s' = true :=
  null_terminated ops

/-- a failed operation (`kOutOfMemory`, `kInvalidArgument`) leaves the string exactly as it was -/
theorem string_error_unchanged (op : SOp) (s s' : Str) (e : Err) (h : WF s) (hr : stepModel op s = some (s', e))
    (he : e ≠ .ok) : s' = s :=
  error_unchanged op s s' e h hr he

-- non-vacuity
example : numberText 255 16 6 4 = some ("0x0000FF".toList.map Char.toNat) := by decide
example : (runModel [.string false [97, 98], .number false 42#64 10 0 0, .truncate 3] {}).map content = some [97, 98, 52] := by
  decide
end Str

/-! ## Arena: every history of `alloc_oneshot / alloc_reusable / free_reusable / reset(soft|hard)` (client language and
ghost live set in `Spec/C18Arena.lean`; `safe` is the executable monitor: every live region 8-aligned, inside its block,
pairwise disjoint, dynamic blocks registered and none leaked). -/
section ArenaS
open AsmjitVerif.Arena

/-- `arena_disjoint`: after EVERY operation sequence on an arena of any block size / static buffer / malloc limit, the
live regions are aligned, inside their blocks and pairwise disjoint -/
theorem arena_safe (minBlock staticSize mallocMax : Nat) (ops : List AOp) :
    safe (run ops (init minBlock staticSize mallocMax, [])).1 (run ops (init minBlock staticSize mallocMax, [])).2 = true :=
  arena_safe_general minBlock staticSize mallocMax ops

/-- the same as a `Prop` (`Safe` of Spec/C18Arena.lean) -/
theorem arena_safe_prop (minBlock staticSize mallocMax : Nat) (ops : List AOp) :
    Safe (run ops (init minBlock staticSize mallocMax, [])).1 (run ops (init minBlock staticSize mallocMax, [])).2 :=
  (safe_iff_Safe _ _).mp (arena_safe_general minBlock staticSize mallocMax ops)

/-- `arena_reuses_only_released`: in every reachable state whatever `alloc_oneshot` / `alloc_reusable` returns lies inside a
block (or is a registered dynamic block) and overlaps NO region that is live at that moment -/
theorem arena_reuses_only_released (minBlock staticSize mallocMax : Nat) (ops : List AOp) :
    let (s, live) := run ops (init minBlock staticSize mallocMax, [])
    (∀ size s' p, size % 8 = 0 → 0 < size → allocOneshot s size = (s', some p) →
      itemSafe s' (p, size) = true ∧ ∀ it ∈ liveItems live, disjB (p, size) it = true)
    ∧ (∀ size s' p asz, allocReusable s size = (s', some p, asz) →
      itemSafe s' (p, asz) = true ∧ ∀ it ∈ liveItems live, disjB (p, asz) it = true) :=
  Arena.arena_reuses_only_released minBlock staticSize mallocMax ops

/-- `reset_returns_all`: a reset empties the bump pointer, all size-class lists, all dynamic blocks and the live set; a hard
reset keeps at most the static block -/
theorem arena_reset_returns_all (s : State) (live : Live) (hard : Bool) :
    let (s', live') := step (s, live) (.reset hard)
    s'.ptr = 0 ∧ s'.cur = 0 ∧ s'.slots = List.replicate 8 [] ∧ s'.dyns = [] ∧ live' = [] ∧
    (hard = true → s'.blocks = if s.hasStatic then s.blocks.take 1 else []) :=
  reset_returns_all s live hard

/-- after any history a hard reset restores the freshly initialised arena -/
theorem arena_hard_reset_is_init (minBlock staticSize mallocMax : Nat) (ops : List AOp) :
    let r := run (ops ++ [.reset true]) (init minBlock staticSize mallocMax, [])
    r.1.blocks = (init minBlock staticSize mallocMax).blocks ∧ r.1.ptr = 0 ∧ r.1.cur = 0 ∧
    r.1.slots = List.replicate 8 [] ∧ r.1.dyns = [] ∧ r.2 = [] :=
  reset_hard_restores_init minBlock staticSize mallocMax ops

-- non-vacuity: live regions exist and `safe` can be false
example : (run [.one 1000, .get 1 100, .get 2 5000, .put 1, .get 3 128] (init 1024 0, [])).2.length = 3 := by decide
example : safe (init 1024 0) [(0, .managed 0 0, 8)] = false := by decide
end ArenaS

/-! ## ArenaVector (PARTIAL).
Full statement wanted (`vec_refines_list`): for every operation sequence (append/prepend/insert/remove_at/pop/clear/truncate/
reserve_*/resize_*/concat/release) interleaved with arbitrary other arena traffic, the model never writes outside its
allocation, keeps `size ≤ capacity = buf.length`, answers `kOutOfMemory` without changing the vector, and `items` equals the
textbook list.  Proved below: the growth policy, the allocator facts the capacity computation rests on, and the refinement of
the operations that do not allocate.  NOT proved: `reserveWithByteSize` and what depends on it (`reserve_*`, `resize_*`,
`insert/append/prepend`, `concat`, `release`) and the sequence theorem — these are covered by correspondence + monitor only. -/
section Vec
open AsmjitVerif.Vector AsmjitVerif.Arena

/-- `expand_ge`: the growth policy never shrinks a request (all `b`, also above `kGrowThreshold`) … -/
theorem vec_expand_ge (b : Nat) : b ≤ expandByteSize b := expand_ge' b
/-- … and never adds more than `kGrowThreshold` (no 64-bit wrap) -/
theorem vec_expand_le (b : Nat) : expandByteSize b ≤ b + kGrowThreshold := expand_le b

/-- what `alloc_reusable` hands a container is at least the requested size (slot class or exact dynamic block), and below
4 GiB when no 4 GiB allocation can succeed – so `uint32_t(allocated / item_size)` does not truncate -/
theorem vec_alloc_ge {a a' : State} {size allocated : Nat} {p : Loc}
    (h : allocReusable a size = (a', some p, allocated)) (h0 : 0 < size) (h1 : size ≤ u64) :
    size ≤ allocated ∧ allocated ≤ max 2048 size ∧ (a.mallocMax < u32 → allocated < u32) :=
  allocReusable_spec h h0 h1

theorem vec_remove_at_partial {v : Vec} (h : WF v) {i : Nat} (hi : i < v.size) :
    ∃ v', removeAt v i = some v' ∧ WF v' ∧ items v' = (items v).eraseIdx i := removeAt_spec h hi
theorem vec_pop_partial {v : Vec} (h : WF v) (h0 : 0 < v.size) :
    WF (pop v).1 ∧ items (pop v).1 = (items v).dropLast ∧ some (pop v).2 = (items v).getLast? := pop_spec h h0
theorem vec_truncate_partial {v : Vec} (h : WF v) (n : Nat) :
    WF (truncate v n) ∧ items (truncate v n) = (items v).take n := truncate_spec h n
theorem vec_index_of_partial {v : Vec} (h : WF v) (x : Nat) : indexOf v x = (items v).findIdx? (· == x) := indexOf_spec h x
theorem vec_contains_partial (v : Vec) (x : Nat) : contains v x = true ↔ x ∈ items v := contains_spec v x

example : expandByteSize 100 = 256 := by decide
example : (removeAt { data := none, buf := [1, 2, 3, 0], size := 3, cap := 4 } 1).map items = some [1, 3] := by decide
end Vec

end AsmjitVerif.C18
