/-
C18 — arena-backed containers and strings behave like their abstract data types.

Property theorems only (helper lemmas live in `Lemmas/C18*.lean`, models in `Model/`, the independent spec and the
run-time monitor in `Spec/C18*.lean`).  Every theorem quantifies over ALL inputs / operation sequences.
-/
import AsmjitVerif.Lemmas.C18Hash
import AsmjitVerif.Lemmas.C18Bits2
import AsmjitVerif.Lemmas.C18HashMap
import AsmjitVerif.Lemmas.C18HashSwap
import AsmjitVerif.Lemmas.C18ArenaStr
import AsmjitVerif.Lemmas.C18ListPool
import AsmjitVerif.Lemmas.C18TreeIns11
import AsmjitVerif.Lemmas.C18TreeRem22
import AsmjitVerif.Lemmas.C18ListPool3
import AsmjitVerif.Lemmas.C18Str2
import AsmjitVerif.Lemmas.C18Arena2
import AsmjitVerif.Lemmas.C18Vector3
namespace AsmjitVerif.C18
open AsmjitVerif

/-! ## ArenaHash: `_calc_mod` by reciprocal multiplication is the remainder, for every row of the prime table
regenerated from arenahash.cpp (`Gen/HashPrimes.lean`) and every 32-bit hash code. -/

/-- every generated row passes the decidable side condition of `recip_div` (and `grow = ⌊0.9·prime⌋ < prime`) -/
theorem prime_rows_ok : Gen.hashPrimes.all Hash.rowOk = true := by decide

/-- `calc_mod_eq`: for EVERY row `(prime, rcp, shift, _)` of the table and EVERY `h < 2^32`,
`h - ((h * rcp) >> shift) * prime` (in the C++'s 64/32-bit arithmetic) is `h % prime`. -/
theorem calc_mod_eq (row : Nat × Nat × Nat × Nat) (hrow : row ∈ Gen.hashPrimes) (h : Nat) (hh : h < 2 ^ 32) :
    Hash.calcModRaw row.1 row.2.1 row.2.2.1 h = h % row.1 := by
  obtain ⟨d, m, s, g⟩ := row
  exact Hash.calcModRaw_eq_mod d m s g h (List.all_eq_true.mp prime_rows_ok _ hrow) hh

/-- the initial (embedded, one bucket) configuration `count = rcp = 1, shift = 0` maps every hash to bucket 0 -/
theorem calc_mod_initial (h : Nat) (hh : h < 2 ^ 32) : Hash.calcMod ({} : Hash.Table) h = 0 := by
  simp only [Hash.calcMod, Hash.calcModRaw, Arena.u64, Arena.u32]
  have : h < 2 ^ 64 := by omega
  simp [Nat.mod_eq_of_lt this, Nat.mod_eq_of_lt hh]

set_option maxRecDepth 100000 in
/-- the table is strictly increasing, so `_insert`'s `prime_index + 2` always enlarges the bucket array -/
theorem primes_increasing : (Gen.hashPrimes.map (·.1)).Pairwise (· < ·) := by decide

-- non-vacuity: the table is non-empty, the lemma says something on a concrete row and hash
set_option maxRecDepth 100000 in
example : 100 < Gen.hashPrimes.length := by decide
example : Hash.calcModRaw 11 0xBA2E8BA3 35 4294967295 = 3 := by decide

/-! ## Bit-vector primitives of support.h: the word-level code equals the pointwise `List Bool` specification
(`Spec/C18Bits.lean`: `bitAt ws j` = bit `j % 64` of word `j / 64`), for every buffer, index and count. -/
section Bits
open AsmjitVerif.Bits AsmjitVerif.Bits.Spec

/-- `bit_vector_get_bit` reads exactly bit `i` (and is out of bounds exactly beyond the buffer) -/
theorem bit_get_spec (buf : Words) (i : Nat) (h : i < 64 * buf.length) : getBit buf i = some (bitAt buf i) :=
  getBit_spec buf i h

/-- `bit_vector_set_bit` changes bit `i` to `v` and nothing else -/
theorem bit_set_spec (buf : Words) (i : Nat) (v : Bool) (h : i < 64 * buf.length) :
    ∃ buf', setBit buf i v = some buf' ∧ buf'.length = buf.length ∧ bitAt buf' i = v ∧
      ∀ j, j ≠ i → bitAt buf' j = bitAt buf j :=
  setBit_spec buf i v h

/-- `fill_spec` / `clear_spec`: `bit_vector_fill/clear(buf, index, count)` never leave the buffer when the range is
inside it, set exactly the bits `index ≤ j < index + count` to `fill` and keep every other bit -/
theorem bit_fill_clear_spec (fill : Bool) (buf : Words) (index count : Nat) (h : index + count ≤ 64 * buf.length) :
    ∃ buf', bitVectorOp fill buf index count = some buf' ∧ buf'.length = buf.length ∧
      ∀ j, bitAt buf' j = if index ≤ j ∧ j < index + count then fill else bitAt buf j :=
  bitVectorOp_spec fill buf index count h

/-- `index_of_spec`: `bit_vector_index_of` returns the FIRST position `≥ start` holding `v` … -/
theorem bit_index_of_spec (buf : Words) (start : Nat) (v : Bool) (i : Nat) (h : indexOf buf start v = some i) :
    start ≤ i ∧ i < 64 * buf.length ∧ bitAt buf i = v ∧ ∀ j, start ≤ j → j < i → bitAt buf j ≠ v :=
  indexOf_spec buf start v i h

/-- … and finds one whenever one exists inside the buffer (it runs off the buffer only otherwise) -/
theorem bit_index_of_complete (buf : Words) (start : Nat) (v : Bool) (j : Nat) (hj1 : start ≤ j)
    (hj2 : j < 64 * buf.length) (hv : bitAt buf j = v) : ∃ i, indexOf buf start v = some i :=
  indexOf_complete buf start v j hj1 hj2 hv

/-- `BitVectorIterator` (`ArenaBitSet::ForEachBitSet`) yields exactly the set bits at or after `start`, ascending -/
theorem bit_iterate_spec (data : Words) (start : Nat) :
    iterate data start = (List.range (64 * data.length)).filter (fun j => decide (start ≤ j) && bitAt data j) :=
  iterate_spec data start

/-- `ArenaBitSet::and_/or_/and_not`: never out of bounds, keep the invariant (capacity consistent, unused bits of the
last word zero) and act bitwise on the textbook bit lists (the other set padded with `false`) -/
theorem bitset_or_spec (b other : BitSet) (hb : WF b) (ho : WF other) :
    ∃ b', or_ b other = some b' ∧ WF b' ∧ b'.size = b.size ∧ b'.cap = b.cap ∧ b'.data = b.data ∧
      bits b' = List.zipWith (fun x y => x || y) (bits b)
        ((bits other ++ List.replicate (b.size - other.size) false).take b.size) :=
  or_spec b other hb ho
theorem bitset_and_spec (b other : BitSet) (hb : WF b) (ho : WF other) :
    ∃ b', and_ b other = some b' ∧ WF b' ∧ b'.size = b.size ∧ b'.cap = b.cap ∧ b'.data = b.data ∧
      bits b' = List.zipWith (fun x y => x && y) (bits b)
        ((bits other ++ List.replicate (b.size - other.size) false).take b.size) :=
  and_spec b other hb ho
theorem bitset_andnot_spec (b other : BitSet) (hb : WF b) (ho : WF other) :
    ∃ b', andNot b other = some b' ∧ WF b' ∧ b'.size = b.size ∧ b'.cap = b.cap ∧ b'.data = b.data ∧
      bits b' = List.zipWith (fun x y => x && !y) (bits b)
        ((bits other ++ List.replicate (b.size - other.size) false).take b.size) :=
  andNot_spec b other hb ho
theorem bitset_truncate_spec (b : BitSet) (n : Nat) (hwf : WF b) :
    ∃ b', truncate b n = some b' ∧ WF b' ∧ b'.size = min b.size n ∧ b'.cap = b.cap ∧ b'.data = b.data ∧ bits b' = (bits b).take n :=
  truncate_spec b n hwf
theorem bitset_fill_all_spec (b : BitSet) (hwf : WF b) :
    ∃ b', fillAll b = some b' ∧ WF b' ∧ b'.size = b.size ∧ b'.cap = b.cap ∧ b'.data = b.data ∧ bits b' = List.replicate b.size true :=
  fillAll_spec b hwf

/-- `ArenaBitSet::_resize` (REPAIRED code, fixes/C18-3 and C18-8), EVERY call incl. reallocation, ANY arena state and
any requested size: never outside the buffer; `kOk` = old bits kept, new bits `v`, invariant kept (`capacity ≤ 2^32-64`,
multiple of 64, `size ≤ capacity`, unused bits zero); `kOutOfMemory` = bit set unchanged (always for sizes above 2^32-64) -/
theorem bitset_resize_spec (a : Arena.State) (b : BitSet) (n ideal : Nat) (v : Bool) (hI : Inv b) :
    ∃ a' b' e, resizeI a b n ideal v = some (a', b', e) ∧
      ((e = Err.ok ∧ Inv b' ∧ b'.size = n ∧
          bits b' = (bits b).take n ++ List.replicate (n - b.size) v ∧ (n ≤ b.cap → a' = a ∧ b'.cap = b.cap)) ∨
       (e = Err.oom ∧ b' = b ∧ b.cap < n)) :=
  resizeI_full a b n ideal v hI
/-- `append` (fast path and `_append` growth): `snoc`, or unchanged on `kOutOfMemory` -/
theorem bitset_append_spec (a : Arena.State) (b : BitSet) (v : Bool) (hI : Inv b) :
    ∃ a' b' e, append a b v = some (a', b', e) ∧
      ((e = Err.ok ∧ Inv b' ∧ b'.size = b.size + 1 ∧ bits b' = bits b ++ [v]) ∨ (e = Err.oom ∧ b' = b)) :=
  append_full a b v hI
/-- `copy_from`: the bits of `other`, or unchanged on `kOutOfMemory` -/
theorem bitset_copy_from_spec (a : Arena.State) (b other : BitSet) (hI : Inv b) (hO : Inv other) :
    ∃ a' b' e, copyFrom a b other = some (a', b', e) ∧
      ((e = Err.ok ∧ Inv b' ∧ b'.size = other.size ∧ bits b' = bits other) ∨ (e = Err.oom ∧ b' = b)) :=
  copyFrom_full a b other hI hO
/-- `bitset_refines_bools`: for EVERY sequence of resize/append/set/fill/clear_bits/truncate/clear/fill_all/clear_all/
release interleaved with oracle steps (`env s`: the arena replaced by ANY state), from the empty bit set and any arena:
the model never touches a word outside its block (`≠ stuck`) and, when the client respects the C++ assertions, the
invariant holds and the bits equal the textbook `List Bool` (`kOutOfMemory` steps change nothing) -/
theorem bitset_refines_bools (a : Arena.State) (ops : List BOp) :
    run a {} [] ops ≠ .stuck ∧
    ∀ a' b' l', run a {} [] ops = .done a' b' l' → Inv b' ∧ bits b' = l' :=
  Bits.bitset_refines_bools a ops
/-- WITNESS (unrepaired arithmetic, confirmed on the real code with a granted 512 MiB block): a 2^29-byte block gives
`uint32_t(allocated * 8) = 0` (kOk with `capacity() == 0 < size()`), and `uint32_t(2^32 + 5) = 5` (kOk with `size() == 5`) -/
theorem bitset_capacity_wrap_witness : (2 ^ 29 * 8) % Arena.u32 = 0 ∧ Arena.alignUp 4294967233 64 / 8 = 2 ^ 29 ∧ (2 ^ 32 + 5) % Arena.u32 = 5 := by
  decide

-- non-vacuity
example : bitVectorOp true [0#64, 0#64] 60 10 = some [0xF000000000000000#64, 0x3F#64] := by decide
example : indexOf [0#64, 8#64] 3 true = some 67 := by decide
example : iterate [5#64, 1#64] 1 = [2, 64] := by decide
end Bits

/-! ## String: refinement to a byte list, null termination, number formatting parses back. -/
section Str
open AsmjitVerif.Str

/-- `append_uint_parses_back`: for the four supported bases and every 64-bit `n`, the digits `_op_number` emits
parse back (independent textbook parser `parseDigits`) to `n`, are non-empty and have no leading zero unless `n = 0` -/
theorem append_uint_parses_back (base n : Nat) (hb : ValidBase base) (hn : n < 2 ^ 64) :
    parseDigits base (digits base 64 n []) = some n ∧ digits base 64 n [] ≠ [] ∧
    ((digits base 64 n []).head? = some 48 → n = 0) :=
  Str.append_uint_parses_back base n hb hn

/-- with width and flags: the text is `prefix ++ zeros ++ digits`, the padded digits still parse to the magnitude, a '-'
prefix appears exactly for a negative `kSigned` input, the prefix is at most 3 characters of `-+ 0x` -/
theorem number_text_shape (n base w f : Nat) (hn : n < 2 ^ 64) (t : List Nat) (h : numberText n base w f = some t) :
    let b := if base = 0 then 10 else base
    let neg := f &&& kSigned ≠ 0 ∧ n ≥ 2 ^ 63
    let v := if neg then 2 ^ 64 - n else n
    ValidBase b ∧ ∃ pre k,
      t = pre ++ List.replicate k 48 ++ digits b 64 v [] ∧
      parseDigits b (List.replicate k 48 ++ digits b 64 v []) = some v ∧
      k = min w 256 - (digits b 64 v []).length ∧
      (neg → pre.head? = some 45) ∧ (¬ neg → pre.head? ≠ some 45) ∧
      (∀ c ∈ pre, c ∈ [45, 43, 32, 48, 120]) ∧ pre.length ≤ 3 :=
  numberText_shape n base w f hn t h

/-- the whole `_op_number` text equals the textbook formatter of `Spec/C18Str.lean` (bases other than 0/2/8/10/16: `none`) -/
theorem number_text_eq_spec (n base w f : Nat) (hn : n < 2 ^ 64) : numberText n base w f = specNumberText n base w f :=
  numberText_eq_spec n base w f hn

/-- `string_refines_bytes`: for EVERY operation sequence (assign/append string, char, chars, number, hex, format, pad_end,
truncate, clear, reset) the model never writes outside its buffer, keeps `size ≤ capacity`, `buf.length = capacity+1`,
the terminator, and its contents equal the byte-list ADT run on the same operations; an operation answered
out-of-memory (`oks`) is skipped by the ADT and leaves the string untouched -/
theorem string_refines_bytes (ops : List SOp) :
    ∃ s' oks, runModelE ops {} = some (s', oks) ∧ oks.length = ops.length ∧ WF s' ∧ content s' = runSpecE ops oks [] :=
  string_refines_bytes_oom ops

/-- when the sequence adds fewer than 2^38 bytes no operation fails and the contents are exactly the ADT's -/
theorem string_refines_bytes_no_oom (ops : List SOp) (hsmall : totalCost ops < 2 ^ 38) :
    ∃ s', runModel ops {} = some s' ∧ WF s' ∧ content s' = runSpec ops [] :=
  Str.string_refines_bytes ops hsmall

/-- `null_terminated`: after every operation sequence `data()[size()] == 0` -/
theorem string_null_terminated (ops : List SOp) : ∃ s', runModel ops {} = some s' ∧ terminated s' = true :=
  null_terminated ops

/-- a failed operation (`kOutOfMemory`, `kInvalidArgument`) leaves size and content as they were — except an ASSIGN-format
whose in-place attempt overflowed before the allocation failed, which leaves the empty string (the old content was
already overwritten; repaired code fixes/C18-10.patch) — and the string is well formed (terminated) in every case -/
theorem string_error_unchanged (op : SOp) (s s' : Str) (e : Err) (h : WF s) (hr : stepModel op s = some (s', e))
    (he : e ≠ .ok) :
    WF s' ∧ ((s'.size = s.size ∧ content s' = content s) ∨ (AssignFormatOverflow op s ∧ content s' = [])) :=
  error_unchanged op s s' e h hr he
/-- for every operation other than `format` a failure leaves the object structurally identical -/
theorem string_error_unchanged_struct (op : SOp) (s s' : Str) (e : Err) (h : WF s) (hr : stepModel op s = some (s', e))
    (he : e ≠ .ok) (hnf : ∀ a out, op ≠ .format a out) : s' = s :=
  error_unchanged_struct op s s' e h hr he hnf
/-- `String::_op_vformat` WITHOUT the formatting itself (`vsnprintf` is an oracle producing the bytes `out`; modelled are
the choice of buffer, the size update, the stack-buffer and `prepare` fallbacks; REPAIRED code fixes/C18-6 and C18-10):
never outside the buffer, always well formed, `kOk` = the output assigned/appended -/
theorem string_format_spec (s : Str) (a : Bool) (out : List Nat) (h : WF s) :
    ∃ s' e, opFormat s a out = some (s', e) ∧ WF s' ∧
      ((e = .ok ∧ content s' = (if a then [] else content s) ++ out) ∨
       (e = .oom ∧ 2 ^ 38 ≤ s.size + out.length ∧
         ((¬ FormatOverflowAt s a out ∧ s' = s) ∨
          (FormatOverflowAt s a out ∧ a = false ∧ s'.size = s.size ∧ content s' = content s) ∨
          (FormatOverflowAt s a out ∧ a = true ∧ s'.size = 0 ∧ content s' = [])))) :=
  opFormat_spec s a out h
/-- WITNESS (unrepaired `_op_vformat`, confirmed on the real code with an allocator that refuses 20 MB): an append whose
in-place attempt overflows and whose allocation then fails returns kOutOfMemory with the terminator overwritten -/
theorem string_format_oom_witness (s : Str) (out : List Nat) (h : WF s) (h1 : s.cap - s.size ≥ 128)
    (h2 : s.cap - s.size < out.length) (h3 : out.length ≥ kMaxAllocSize - s.size - 1) (h4 : ∀ x, out.head? = some x → x ≠ 0) :
    ∃ s', opFormatOrigAppendOverflow s out = some (s', .oom) ∧ s'.size = s.size ∧ content s' = content s ∧
      terminated s' = false :=
  opFormatOrig_oom_corrupts s out h h1 h2 h3 h4

-- non-vacuity
example : numberText 255 16 6 4 = some ("0x0000FF".toList.map Char.toNat) := by decide
example : (runModel [.string false [97, 98], .number false 42#64 10 0 0, .truncate 3] {}).map content = some [97, 98, 52] := by
  decide
end Str

/-! ## Arena: every history of `alloc_oneshot / alloc_reusable / free_reusable / reset(soft|hard)` (client language and
ghost live set in `Spec/C18Arena.lean`; `safe` is the executable monitor: every live region 8-aligned, inside its block,
pairwise disjoint, dynamic blocks registered and none leaked). -/
section ArenaS
open AsmjitVerif.Arena

/-- `arena_disjoint`: after EVERY operation sequence on an arena of any block size / static buffer / malloc limit, the
live regions are aligned, inside their blocks and pairwise disjoint -/
theorem arena_safe (minBlock staticSize mallocMax : Nat) (ops : List AOp) :
    safe (run ops (init minBlock staticSize mallocMax, [])).1 (run ops (init minBlock staticSize mallocMax, [])).2 = true :=
  arena_safe_general minBlock staticSize mallocMax ops

/-- the same as a `Prop` (`Safe` of Spec/C18Arena.lean) -/
theorem arena_safe_prop (minBlock staticSize mallocMax : Nat) (ops : List AOp) :
    Safe (run ops (init minBlock staticSize mallocMax, [])).1 (run ops (init minBlock staticSize mallocMax, [])).2 :=
  (safe_iff_Safe _ _).mp (arena_safe_general minBlock staticSize mallocMax ops)

/-- `arena_reuses_only_released`: in every reachable state whatever `alloc_oneshot` / `alloc_reusable` returns lies inside a
block (or is a registered dynamic block) and overlaps NO region that is live at that moment -/
theorem arena_reuses_only_released (minBlock staticSize mallocMax : Nat) (ops : List AOp) :
    let (s, live) := run ops (init minBlock staticSize mallocMax, [])
    (∀ size s' p, size % 8 = 0 → 0 < size → allocOneshot s size = (s', some p) →
      itemSafe s' (p, size) = true ∧ ∀ it ∈ liveItems live, disjB (p, size) it = true)
    ∧ (∀ size s' p asz, allocReusable s size = (s', some p, asz) →
      itemSafe s' (p, asz) = true ∧ ∀ it ∈ liveItems live, disjB (p, asz) it = true) :=
  Arena.arena_reuses_only_released minBlock staticSize mallocMax ops

/-- `reset_returns_all`: a reset empties the bump pointer, all size-class lists, all dynamic blocks and the live set; a hard
reset keeps at most the static block -/
theorem arena_reset_returns_all (s : State) (live : Live) (hard : Bool) :
    let (s', live') := step (s, live) (.reset hard)
    s'.ptr = 0 ∧ s'.cur = 0 ∧ s'.slots = List.replicate 8 [] ∧ s'.dyns = [] ∧ live' = [] ∧
    (hard = true → s'.blocks = if s.hasStatic then s.blocks.take 1 else []) :=
  reset_returns_all s live hard

/-- after any history a hard reset restores the freshly initialised arena -/
theorem arena_hard_reset_is_init (minBlock staticSize mallocMax : Nat) (ops : List AOp) :
    let r := run (ops ++ [.reset true]) (init minBlock staticSize mallocMax, [])
    r.1.blocks = (init minBlock staticSize mallocMax).blocks ∧ r.1.ptr = 0 ∧ r.1.cur = 0 ∧
    r.1.slots = List.replicate 8 [] ∧ r.1.dyns = [] ∧ r.2 = [] :=
  reset_hard_restores_init minBlock staticSize mallocMax ops

-- non-vacuity: live regions exist and `safe` can be false
example : (run [.one 1000, .get 1 100, .get 2 5000, .put 1, .get 3 128] (init 1024 0, [])).2.length = 3 := by decide
example : safe (init 1024 0) [(0, .managed 0 0, 8)] = false := by decide
end ArenaS

/-! ## ArenaVector: every operation sequence refines the textbook list (`Spec/C18Vector.lean`: `VOp`, `specStep`,
`Step.env s` = the allocation oracle: between any two vector operations the shared arena may be replaced by ANY state, so
an allocation may fail or be granted (even multi-GiB) at any point and other containers may use the arena).
Only hypothesis: `0 < itemSize < 2^32` (C++ `ItemSize::n` is `uint32_t`).  The model follows the REPAIRED capacity clamp
(fixes/C18-7.patch) and 64-bit `_release` product (C18-9); the witnesses below show what the unrepaired arithmetic does. -/
section Vec
open AsmjitVerif.Vector AsmjitVerif.Arena

/-- `expand_ge`: the growth policy never shrinks a request … -/
theorem vec_expand_ge (b : Nat) : b ≤ expandByteSize b := expand_ge' b
/-- … and never adds more than `kGrowThreshold` (no 64-bit wrap) -/
theorem vec_expand_le (b : Nat) : expandByteSize b ≤ b + kGrowThreshold := expand_le b

/-- what `alloc_reusable` hands a container is at least the requested size -/
theorem vec_alloc_ge {a a' : State} {size allocated : Nat} {p : Loc}
    (h : allocReusable a size = (a', some p, allocated)) (h0 : 0 < size) (h1 : size ≤ u64) :
    size ≤ allocated ∧ allocated ≤ max 2048 size ∧ (a.mallocMax < u32 → allocated < u32) :=
  allocReusable_spec h h0 h1

/-- `vec_refines_list`: after EVERY sequence of vector operations and oracle steps, from ANY arena state, the model never
wrote outside its allocation (`run … = some`), the invariant `WF` holds (`buf.length = capacity`, `size ≤ capacity`,
`capacity < 2^32`) and the items are exactly the textbook list -/
theorem vec_refines_list {itemSize : Nat} (hi : 0 < itemSize) (hi32 : itemSize < u32) (steps : List Step) (a0 : State) :
    ∃ a v l, run itemSize (a0, {}, []) steps = some (a, v, l) ∧ WF v ∧ items v = l :=
  Vector.vec_refines_list hi hi32 steps a0

/-- `capacity_ge_size` after every prefix of every history -/
theorem vec_capacity_ge_size {itemSize : Nat} (hi : 0 < itemSize) (hi32 : itemSize < u32) (steps : List Step)
    (a0 : State) (k : Nat) :
    ∃ a v l, run itemSize (a0, {}, []) (steps.take k) = some (a, v, l) ∧ WF v ∧ items v = l ∧
      v.size ≤ v.cap ∧ v.buf.length = v.cap ∧
      run itemSize (a0, {}, []) steps = run itemSize (a, v, l) (steps.drop k) :=
  vec_refines_list_prefix hi hi32 steps a0 k

/-- in every reachable state every further operation stays inside the allocation, an operation answered
`kOutOfMemory` (`ok = false`) leaves the vector unchanged, otherwise the items follow the textbook list -/
theorem vec_failure_unchanged {itemSize : Nat} (hi : 0 < itemSize) (hi32 : itemSize < u32) (steps : List Step)
    (a0 : State) (op : VOp) :
    ∃ a v l, run itemSize (a0, {}, []) steps = some (a, v, l) ∧
      ∃ a' v' ok, modelStep itemSize a v op = some (a', v', ok) ∧ WF v' ∧ (ok = false → v' = v) ∧
        items v' = specStep l op ok :=
  vec_refines_list_step hi hi32 steps a0 op

theorem vec_insert_spec {a : State} {v : Vec} {index : Nat} (item : Nat) {itemSize : Nat}
    (hw : WF v) (hidx : index ≤ v.size) (hi : 0 < itemSize) (hi32 : itemSize < u32) :
    OpOk a v ((items v).take index ++ item :: (items v).drop index) (insert a v index item itemSize) :=
  insert_spec item hw hidx hi hi32
theorem vec_resize_spec (growing : Bool) {a : State} {v : Vec} (n : Nat) {itemSize : Nat}
    (hw : WF v) (hi : 0 < itemSize) (hi32 : itemSize < u32) :
    OpOk a v ((items v).take n ++ List.replicate (n - v.size) 0) (resize growing a v n itemSize) :=
  resize_spec growing n hw hi hi32
theorem vec_concat_spec {a : State} {v other : Vec} {itemSize : Nat}
    (hw : WF v) (ho : WF other) (hi : 0 < itemSize) (hi32 : itemSize < u32) :
    OpOk a v (items v ++ items other) (concat a v other itemSize) :=
  concat_spec hw ho hi hi32
/-- `reserve_fit(n)` answered ok really provides `capacity ≥ n` (part of `ReserveOk`) and never changes the items -/
theorem vec_reserve_spec {a a' : State} {v v' : Vec} {e : Err} {n itemSize : Nat}
    (h : reserveFitP a v n itemSize = (a', v', e)) (hw : WF v) (hi : 0 < itemSize) (hi32 : itemSize < u32) :
    ReserveOk a v n a' v' e :=
  reserveFitP_spec h hw hi hi32
theorem vec_index_of_spec (v : Vec) (x : Nat) (h : WF v) : indexOf v x = firstIdx x (items v) := indexOf_first h x
theorem vec_last_index_of_spec (v : Vec) (x : Nat) (h : WF v) : lastIndexOf v x = lastIdx x (items v) := lastIndexOf_spec h x
theorem vec_contains_spec (v : Vec) (x : Nat) : contains v x = true ↔ x ∈ items v := contains_spec v x

/-- WITNESS (unrepaired arithmetic, confirmed on the real code with a granted 4 GiB block): `reserve_grow(4294967294)`
of a byte vector expands to 2^32 bytes and `uint32_t(allocated / item_size)` is 0 — kOk with `capacity() == 0` -/
theorem vec_capacity_truncation_witness : (expandByteSize (4294967294 * 1) / 1) % u32 = 0 ∧ 4294967294 * 1 ≤ expandByteSize (4294967294 * 1) := by
  decide
/-- WITNESS (unrepaired `_release`): `uint32_t(_capacity) * uint32_t(4)` for capacity 2^30+4 is 16, the 16-byte slot class,
so a 4 GiB dynamic block is pushed on the 16-byte free list instead of being released -/
theorem vec_release_wrong_class_witness : slotIndex ((1073741828 * 4) % u32) = 0 ∧ ¬ slotIndex (1073741828 * 4) < kSlotCount := by
  decide

example : expandByteSize 100 = 256 := by decide
example : (run 4 (init 1024 0 (2 ^ 30), {}, []) [.vec (.append 4), .env (init 1024 0 0), .vec (.append 5), .vec (.prepend 3),
    .vec (.removeAt 0)]).map (·.2.2) = some [4, 5] := by decide
end Vec

/-! ## ArenaHash as a finite map (`Spec/C18HashList.lean`: `HOp`, association list, `lookup`; protocol `HValid`: a key is
inserted only when absent – the documented "get() first, then insert()" use; `arenaNoise s` = arbitrary arena state, so
a rehash allocation may fail at any point). -/
section HashMap
open AsmjitVerif.Hash AsmjitVerif.Arena AsmjitVerif.Spec.C18HashList

/-- under the table invariant `_calc_mod` is `% bucket_count` (initial table or any generated prime row) -/
theorem hash_calc_mod (t : Table) (h : Nat) (hw : WF t) (hh : h < 2 ^ 32) : calcMod t h = h % t.count :=
  calcMod_eq t h hw hh
/-- `_insert` (including the rehash it may trigger, with or without a successful allocation) keeps the invariant –
in particular REACHABILITY: every node sits in bucket `hash % bucket_count` – and adds exactly the node -/
theorem hash_insert_spec (a : State) (t : Table) (n : Node) (hw : WF t) (hh : n.hash < 2 ^ 32)
    (hfresh : n.uid ∉ (allNodes t).map Node.uid) :
    WF (insert a t n).2 ∧ (allNodes (insert a t n).2).Perm (n :: allNodes t) :=
  Hash.insert_spec a t n hw hh hfresh
/-- `_rehash` never loses or duplicates a node, whatever the arena answers -/
theorem hash_rehash_spec (a : State) (t : Table) (pi : Nat) (hw : WF t) :
    WF (rehash a t pi).2 ∧ (allNodes (rehash a t pi).2).Perm (allNodes t) :=
  rehash_spec a t pi hw
/-- `_remove` unlinks exactly the node (and answers nullptr for an absent one) -/
theorem hash_remove_spec (t : Table) (n : Node) (hw : WF t) (hh : n.hash < 2 ^ 32) :
    WF (remove t n).1 ∧
    (n ∈ allNodes t → (remove t n).2 = true ∧ (allNodes (remove t n).1).Perm ((allNodes t).erase n)) ∧
    (n.uid ∉ (allNodes t).map Node.uid → remove t n = (t, false)) :=
  Hash.remove_spec t n hw hh
/-- `get` finds a node iff one with that key is in the bucket of the hash code -/
theorem hash_get_spec (t : Table) (hw : WF t) (key h : Nat) (hh : h < 2 ^ 32) :
    (get t key h).isSome = true ↔ ∃ n ∈ allNodes t, n.key = key ∧ n.hash % t.count = h % t.count :=
  get_isSome_iff t hw key h hh
/-- `hash_refines_map`: for EVERY valid operation sequence, any hash function into 32 bits and any arena behaviour, the
invariant (reachability) holds, the nodes are exactly the textbook association list and every lookup agrees with it -/
theorem hash_refines_map (H : Nat → Nat) (hH : ∀ k, H k < 2 ^ 32) (ops : List HOp) (a : State) (hv : HValid [] ops) :
    WF (runModel H (a, {}) ops).2 ∧
    ((allNodes (runModel H (a, {}) ops).2).map pr).Perm (runSpec [] ops) ∧
    ∀ k, (get (runModel H (a, {}) ops).2 k (H k)).map pr = lookup (runSpec [] ops) k :=
  Hash.hash_refines_map H hH ops a hv
/-- `hash_swap_refines`: `ArenaHashBase::_swap` on the two-object model (`Hash.Raw`: `_data` is an explicit pointer to the
own embedded bucket, the other object's embedded bucket, or an arena array). For ANY two self-contained tables — empty
(embedded) or grown, in every combination — after `a._swap(b)` both are self-contained again (neither `_data` points into
the other object) and they have exchanged their abstract bucket arrays and all scalar members. The driver's value-level
swap of two `Table`s is this statement; the harness dumps BOTH tables after every swap. -/
theorem hash_swap_refines (a b : Raw) (h : SelfContained a b) :
    SelfContained (swapRaw a b).1 (swapRaw a b).2 ∧
    bucketsOf (swapRaw a b).1 (swapRaw a b).2 (swapRaw a b).1 = bucketsOf a b b ∧
    bucketsOf (swapRaw a b).1 (swapRaw a b).2 (swapRaw a b).2 = bucketsOf a b a ∧
    (swapRaw a b).1.size = b.size ∧ (swapRaw a b).2.size = a.size ∧
    (swapRaw a b).1.count = b.count ∧ (swapRaw a b).2.count = a.count ∧
    (swapRaw a b).1.grow = b.grow ∧ (swapRaw a b).2.grow = a.grow ∧
    (swapRaw a b).1.rcp = b.rcp ∧ (swapRaw a b).2.rcp = a.rcp ∧
    (swapRaw a b).1.shift = b.shift ∧ (swapRaw a b).2.shift = a.shift ∧
    (swapRaw a b).1.primeIndex = b.primeIndex ∧ (swapRaw a b).2.primeIndex = a.primeIndex :=
  swapRaw_spec a b h
/-- WITNESS: with `else if` for the second fix-up (seeded change C18-2) swapping two EMPTY tables leaves `other._data`
pointing at `this->_embedded` -/
theorem hash_swap_else_if_witness (a b : Raw) (ha : a.data = .embA) (hb : b.data = .embB) :
    (swapRawElseIf a b).2.data = .embA ∧ ¬ SelfContained (swapRawElseIf a b).1 (swapRawElseIf a b).2 :=
  swapRawElseIf_aliases a b ha hb
-- non-vacuity: an empty table swapped with a table holding a node in its embedded bucket
example : bucketsOf (swapRaw { data := .embA } { data := .embB, embedded := [{ uid := 1, key := 7, hash := 7 }], size := 1 }).1
    (swapRaw { data := .embA } { data := .embB, embedded := [{ uid := 1, key := 7, hash := 7 }], size := 1 }).2
    (swapRaw { data := .embA } { data := .embB, embedded := [{ uid := 1, key := 7, hash := 7 }], size := 1 }).1
    = [[{ uid := 1, key := 7, hash := 7 }]] := by decide
end HashMap

/-! ## ArenaPool: LIFO recycling of released blocks only. -/
section PoolS
open AsmjitVerif.ListPool AsmjitVerif.Arena AsmjitVerif.Spec.C18HashList
/-- `alloc` after `release x` returns exactly `x` and touches neither the arena nor the rest of the pool -/
theorem pool_alloc_lifo (p : Pool) (x : Loc) (a : State) (size : Nat) : (p.release x).alloc a size = (a, p, some x) :=
  ListPool.pool_alloc_lifo p x a size
/-- for every alloc/release sequence the pool's free list is the textbook stack of released-and-not-reused locations -/
theorem pool_refines_stack (ops : List POp) (a : State) : (runPool (a, {}) ops).2.free = runStack [] ops :=
  ListPool.pool_refines_stack ops a
end PoolS

/-! ## ArenaTree (Julienne Walker top-down red-black tree over the index heap, loops with fuel 256).
Abstract side: `Spec/C18Tree.lean` (`Represents h t`: the heap reachable from `_root` is the inductive tree `t`, no node
shared; `t.keys` in-order; `BST`, `RB` = root black ∧ no red-red ∧ equal black height). -/
section TreeS
open AsmjitVerif.Tree AsmjitVerif.Tree.Spec AsmjitVerif.Tree.Ins

/-- `get(key)` finds a node iff the key is in the set, and returns a tree node with that key -/
theorem tree_get_spec {h : Tree} {t : T} (k : Nat) (hr : Represents h t) (hb : t.BST) (hh : t.height < kFuel) :
    (get h k ≠ 0 ↔ k ∈ t.keys) ∧ (get h k ≠ 0 → key h (get h k) = k ∧ get h k ∈ t.idxs) :=
  get_spec k hr hb hh
/-- a red-black tree with fewer than 2^64 nodes has height ≤ 128, so the fuel 256 of the model loops is never exhausted -/
theorem tree_height_bound {t : T} (hrb : t.RB) (hs : t.size < 2 ^ 64) : t.height ≤ 128 := height_le_128 hrb hs
/-- `insert_refines` + `rb_balanced` for insert: inserting an absent key into a represented red-black search tree gives a
represented tree whose key list is the textbook ordered-set insert, again a search tree, again red-black (root black,
no red-red, equal black height); no node is lost or duplicated and only tree cells and `head` are written -/
theorem tree_insert_refines {h : Tree} {t : T} {k : Nat} (hr : Represents h t) (hb : t.BST) (hrb : t.RB)
    (hk : k ∉ t.keys) (hsz : 2 ≤ h.nodes.size) (hsize : t.size < 2 ^ 64) :
    ∃ t', Represents (insertNode (newNode h k).1 (newNode h k).2) t' ∧ t'.keys = setInsert k t.keys ∧ t'.BST ∧
      t'.RB ∧ t'.idxs.Perm ((newNode h k).2 :: t.idxs) ∧
      (insertNode (newNode h k).1 (newNode h k).2).nodes.size = h.nodes.size + 1 ∧
      (∀ i, i ≠ 1 → i ∉ (newNode h k).2 :: t.idxs →
        nd (insertNode (newNode h k).1 (newNode h k).2) i = nd (newNode h k).1 i) :=
  insert_refines_size hr hb hrb hk hsz hsize
/-- every history of inserts (duplicates skipped like the harness/ConstPool do) refines the ordered set and stays red-black -/
theorem tree_refines_set_inserts (ops : List TOp) (hins : ∀ op ∈ ops, ∃ k, op = .insert k) (hlen : ops.length < 2 ^ 64) :
    ∃ t, Represents (runModel ops {}) t ∧ t.keys = runSpec ops [] ∧ t.BST ∧ t.RB :=
  Ins.tree_refines_set_inserts ops hins hlen
/-- `remove_refines` + `rb_balanced` for remove (BOTH paths of `remove`: bottom node = found node, and the `replaceLoop`
re-link of the bottom node into the found node's place): removing a tree node from a represented red-black search tree
gives a represented tree whose key list is the textbook ordered-set erase, again a search tree, again red-black (root
black, no red-red, equal black height), exactly the passed node gone -/
theorem tree_remove_refines {h : Tree} {t : T} {node : Nat} (hr : Represents h t) (hbst : t.BST) (hrb : t.RB)
    (hmem : node ∈ t.idxs) (hfuel : t.height ≤ kFuel) :
    ∃ t', Represents (removeNode h node) t' ∧ t'.keys = setErase (key h node) t.keys ∧ t'.BST ∧ t'.RB ∧
      t'.idxs.Perm (t.idxs.erase node) ∧ 2 ≤ (removeNode h node).nodes.size :=
  Rem.remove_refines hr hbst hrb hmem hfuel
/-- the shape part needs no colour hypothesis at all -/
theorem tree_remove_refines_shape {h : Tree} {t : T} {node : Nat} (hr : Represents h t) (hbst : t.BST)
    (hmem : node ∈ t.idxs) (hfuel : t.height ≤ kFuel) :
    ∃ t', Represents (removeNode h node) t' ∧ t'.keys = setErase (key h node) t.keys ∧ t'.BST ∧
      t'.idxs.Perm (t.idxs.erase node) ∧ t'.isRed = false ∧ 2 ≤ (removeNode h node).nodes.size :=
  Rem.remove_refines_shape hr hbst hmem hfuel

/-- `tree_refines_set` + `rb_balanced`: for EVERY history of inserts and removes (fewer than 2^64 operations) from the empty
tree, the heap represents a red-black search tree (root black, no red-red, equal black height, strictly ascending in-order
keys, no shared node) whose key list is the textbook ordered set; the loops never run out of their fuel -/
theorem tree_refines_set (ops : List TOp) (hlen : ops.length < 2 ^ 64) :
    ∃ t, Represents (runModel ops {}) t ∧ t.keys = runSpec ops [] ∧ t.BST ∧ t.RB :=
  Rem.tree_refines_set ops hlen

-- non-vacuity: a real history with inserts and removes, evaluated
example : Tree.inorder 64 (runModel [.insert 5, .insert 3, .insert 8, .insert 9, .remove 5, .insert 4, .remove 3] {})
    (runModel [.insert 5, .insert 3, .insert 8, .insert 9, .remove 5, .insert 4, .remove 3] {}).root = [4, 8, 9] := by decide
example : runSpec [.insert 5, .insert 3, .insert 8, .insert 9, .remove 5, .insert 4, .remove 3] [] = [4, 8, 9] := by decide
end TreeS

/-! ## ArenaList: every operation transforms the represented list (`IsList h l xs`: `xs` are the node indices from `first`
to `last`, links consistent in both directions) like the textbook list operation; both traversals read it back. -/
section ListS
open AsmjitVerif.ListPool AsmjitVerif.ListPool2 AsmjitVerif.Spec.C18HashList

theorem list_append_spec {h l xs n} (hl : ListPool2.IsList h l xs) (hn0 : n ≠ 0) (hns : n < h.size) (hnx : n ∉ xs)
    (hnext : (nd h n).next = 0) : ListPool2.IsList (addNode h l n true).1 (addNode h l n true).2 (xs ++ [n]) :=
  addNode_append hl hn0 hns hnx hnext
theorem list_prepend_spec {h l xs n} (hl : ListPool2.IsList h l xs) (hn0 : n ≠ 0) (hns : n < h.size) (hnx : n ∉ xs)
    (hprev : (nd h n).prev = 0) : ListPool2.IsList (addNode h l n false).1 (addNode h l n false).2 (n :: xs) :=
  ListPool2.addNode_prepend hl hn0 hns hnx hprev
theorem list_insert_after_spec {h l L ref R n} (hl : ListPool2.IsList h l (L ++ ref :: R)) (hn0 : n ≠ 0) (hns : n < h.size)
    (hnx : n ∉ L ++ ref :: R) : ListPool2.IsList (insertNode h l ref n true).1 (insertNode h l ref n true).2 (L ++ ref :: n :: R) :=
  insertNode_after hl hn0 hns hnx
theorem list_insert_before_spec {h l L ref R n} (hl : ListPool2.IsList h l (L ++ ref :: R)) (hn0 : n ≠ 0) (hns : n < h.size)
    (hnx : n ∉ L ++ ref :: R) : ListPool2.IsList (insertNode h l ref n false).1 (insertNode h l ref n false).2 (L ++ n :: ref :: R) :=
  insertNode_before hl hn0 hns hnx
theorem list_unlink_spec {h l L n R} (hl : ListPool2.IsList h l (L ++ n :: R)) :
    ListPool2.IsList (unlink h l n).1 (unlink h l n).2 (L ++ R) ∧ (nd (unlink h l n).1 n).prev = 0 ∧ (nd (unlink h l n).1 n).next = 0 :=
  unlink_erase hl
theorem list_pop_spec {h l L n} (hl : ListPool2.IsList h l (L ++ [n])) : ListPool2.IsList (pop h l).1 (pop h l).2.1 L ∧ (pop h l).2.2 = n :=
  pop_dropLast hl
theorem list_pop_first_spec {h l n R} (hl : ListPool2.IsList h l (n :: R)) :
    ListPool2.IsList (popFirst h l).1 (popFirst h l).2.1 R ∧ (popFirst h l).2.2 = n :=
  ListPool2.popFirst_tail hl
/-- forward traversal reads the list, backward traversal reads its reverse (link symmetry) -/
theorem list_walk_spec {h l xs} (hl : ListPool2.IsList h l xs) (fuel : Nat) (hfuel : xs.length ≤ fuel) :
    walk fuel h l.first true = xs.map (fun x => (nd h x).val) ∧
    walk fuel h l.last false = (xs.map (fun x => (nd h x).val)).reverse :=
  ⟨walk_forward hl fuel hfuel, walk_backward hl fuel hfuel⟩
/-- `list_refines_list`: for EVERY valid operation sequence (append/prepend/insert_after/insert_before/unlink/pop/pop_first,
members addressed by value as in the harness; `LValid`: inserted values are fresh; an operation whose precondition fails
is a no-op on both sides) from the empty list: the heap represents a list whose values are the textbook list, the forward
traversal reads it and the backward traversal reads its reverse — both link directions consistent -/
theorem list_refines_list (ops : List LOp) (hv : LValid [] ops) :
    ∃ xs, ListPool2.IsList (ListPool2.runModel (#[{}], {}) ops).1 (ListPool2.runModel (#[{}], {}) ops).2 xs ∧
      xs.map (fun x => (nd (ListPool2.runModel (#[{}], {}) ops).1 x).val) = runList [] ops ∧
      ∀ fuel, (ListPool2.runModel (#[{}], {}) ops).1.size ≤ fuel →
        walk fuel (ListPool2.runModel (#[{}], {}) ops).1 (ListPool2.runModel (#[{}], {}) ops).2.first true = runList [] ops ∧
        walk fuel (ListPool2.runModel (#[{}], {}) ops).1 (ListPool2.runModel (#[{}], {}) ops).2.last false = (runList [] ops).reverse :=
  ListPool2.list_refines_list ops hv
end ListS

/-! ## `Arena::dup` and `ArenaString<N>` (support/arenastring.h). -/
section ArenaStrS
open AsmjitVerif.ArenaStr AsmjitVerif.Arena

/-- `Arena::dup(data, size, null_terminate)`: a successful call returns a oneshot block whose size is the 8-aligned
`size (+1)`, holds the data, and is zero from the end of the data to the end of the block (terminator and padding) -/
theorem arena_dup_spec {a a' : State} {bytes : List Nat} {nt : Bool} {p : Loc} {allocSize : Nat} {blk : List Nat}
    (h : dup a bytes nt = (a', some (p, allocSize, blk))) :
    bytes ≠ [] ∧ allocSize % 8 = 0 ∧ bytes.length + (if nt then 1 else 0) ≤ allocSize ∧
    allocSize < bytes.length + (if nt then 1 else 0) + 8 ∧ blk.length = allocSize ∧ blk.take bytes.length = bytes ∧
    (∀ i, bytes.length ≤ i → i < allocSize → blk.getD i 1 = 0) ∧ allocOneshot a allocSize = (a', some p) :=
  dup_spec h
/-- `ArenaString<N>::set_data`: never writes outside the object, stores exactly the bytes, null terminated, embedded iff they
fit into `N - 5` bytes, otherwise in an arena block; a failed allocation leaves the object unchanged -/
theorem arena_string_set_spec (a : State) (s : AStr) (bytes : List Nat) (hw : s.embedded.length = s.whole - 4)
    (h16 : 16 ≤ s.whole) (h32 : bytes.length < u32) :
    ∃ a' s' e, setData a s bytes = some (a', s', e) ∧ (e = .oom → s' = s) ∧
      (e = .ok → content s' = bytes ∧ terminated s' = true ∧ s'.size = bytes.length ∧ s'.whole = s.whole ∧
        s'.embedded.length = s.embedded.length ∧ (s'.isEmbedded = true ↔ bytes.length ≤ s.whole - 5)) :=
  setData_spec a s bytes hw h16 h32
/-- every sequence of `set_data` calls, each against an ARBITRARY arena state (allocation oracle), from a fresh
`ArenaString<N>`: the content is the bytes of the last successful call and the string is null terminated -/
theorem arena_string_refines_bytes (n : Nat) (ops : List (State × List Nat)) (hb : ∀ op ∈ ops, op.2.length < u32) :
    ∃ s' es, runOps (new n) ops = some (s', es) ∧ es.length = ops.length ∧
      content s' = lastOk [] ((ops.map (·.2)).zip es) ∧ terminated s' = true ∧ s'.whole = max n 16 ∧
      s'.embedded.length = max n 16 - 4 :=
  ArenaStr.arena_string_refines_bytes n ops hb
end ArenaStrS

end AsmjitVerif.C18
