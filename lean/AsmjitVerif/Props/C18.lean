/-
C18 — arena-backed containers and strings behave like their abstract data types.

Property theorems only (helper lemmas live in `Lemmas/C18*.lean`, models in `Model/`, the independent spec and the
run-time monitor in `Spec/C18*.lean`).  Every theorem quantifies over ALL inputs / operation sequences.
-/
import AsmjitVerif.Lemmas.C18Hash
import AsmjitVerif.Lemmas.C18Bits2
import AsmjitVerif.Lemmas.C18HashMap
import AsmjitVerif.Lemmas.C18ListPool
import AsmjitVerif.Lemmas.C18TreeIns11
import AsmjitVerif.Lemmas.C18TreeRem18
import AsmjitVerif.Lemmas.C18ListPool2
import AsmjitVerif.Lemmas.C18Str2
import AsmjitVerif.Lemmas.C18Arena2
import AsmjitVerif.Lemmas.C18Vector3
namespace AsmjitVerif.C18
open AsmjitVerif

/-! ## ArenaHash: `_calc_mod` by reciprocal multiplication is the remainder, for every row of the prime table
regenerated from arenahash.cpp (`Gen/HashPrimes.lean`) and every 32-bit hash code. -/

/-- every generated row passes the decidable side condition of `recip_div` (and `grow = ⌊0.9·prime⌋ < prime`) -/
theorem prime_rows_ok : Gen.hashPrimes.all Hash.rowOk = true := by decide

/-- `calc_mod_eq`: for EVERY row `(prime, rcp, shift, _)` of the table and EVERY `h < 2^32`,
`h - ((h * rcp) >> shift) * prime` (in the C++'s 64/32-bit arithmetic) is `h % prime`. -/
theorem calc_mod_eq (row : Nat × Nat × Nat × Nat) (hrow : row ∈ Gen.hashPrimes) (h : Nat) (hh : h < 2 ^ 32) :
    Hash.calcModRaw row.1 row.2.1 row.2.2.1 h = h % row.1 := by
  obtain ⟨d, m, s, g⟩ := row
  exact Hash.calcModRaw_eq_mod d m s g h (List.all_eq_true.mp prime_rows_ok _ hrow) hh

/-- the initial (embedded, one bucket) configuration `count = rcp = 1, shift = 0` maps every hash to bucket 0 -/
theorem calc_mod_initial (h : Nat) (hh : h < 2 ^ 32) : Hash.calcMod ({} : Hash.Table) h = 0 := by
  simp only [Hash.calcMod, Hash.calcModRaw, Arena.u64, Arena.u32]
  have : h < 2 ^ 64 := by omega
  simp [Nat.mod_eq_of_lt this, Nat.mod_eq_of_lt hh]

set_option maxRecDepth 100000 in
/-- the table is strictly increasing, so `_insert`'s `prime_index + 2` always enlarges the bucket array -/
theorem primes_increasing : (Gen.hashPrimes.map (·.1)).Pairwise (· < ·) := by decide

-- non-vacuity: the table is non-empty, the lemma says something on a concrete row and hash
set_option maxRecDepth 100000 in
example : 100 < Gen.hashPrimes.length := by decide
example : Hash.calcModRaw 11 0xBA2E8BA3 35 4294967295 = 3 := by decide

/-! ## Bit-vector primitives of support.h: the word-level code equals the pointwise `List Bool` specification
(`Spec/C18Bits.lean`: `bitAt ws j` = bit `j % 64` of word `j / 64`), for every buffer, index and count. -/
section Bits
open AsmjitVerif.Bits AsmjitVerif.Bits.Spec

/-- `bit_vector_get_bit` reads exactly bit `i` (and is out of bounds exactly beyond the buffer) -/
theorem bit_get_spec (buf : Words) (i : Nat) (h : i < 64 * buf.length) : getBit buf i = some (bitAt buf i) :=
  getBit_spec buf i h

/-- `bit_vector_set_bit` changes bit `i` to `v` and nothing else -/
theorem bit_set_spec (buf : Words) (i : Nat) (v : Bool) (h : i < 64 * buf.length) :
    ∃ buf', setBit buf i v = some buf' ∧ buf'.length = buf.length ∧ bitAt buf' i = v ∧
      ∀ j, j ≠ i → bitAt buf' j = bitAt buf j :=
  setBit_spec buf i v h

/-- `fill_spec` / `clear_spec`: `bit_vector_fill/clear(buf, index, count)` never leave the buffer when the range is
inside it, set exactly the bits `index ≤ j < index + count` to `fill` and keep every other bit -/
theorem bit_fill_clear_spec (fill : Bool) (buf : Words) (index count : Nat) (h : index + count ≤ 64 * buf.length) :
    ∃ buf', bitVectorOp fill buf index count = some buf' ∧ buf'.length = buf.length ∧
      ∀ j, bitAt buf' j = if index ≤ j ∧ j < index + count then fill else bitAt buf j :=
  bitVectorOp_spec fill buf index count h

/-- `index_of_spec`: `bit_vector_index_of` returns the FIRST position `≥ start` holding `v` … -/
theorem bit_index_of_spec (buf : Words) (start : Nat) (v : Bool) (i : Nat) (h : indexOf buf start v = some i) :
    start ≤ i ∧ i < 64 * buf.length ∧ bitAt buf i = v ∧ ∀ j, start ≤ j → j < i → bitAt buf j ≠ v :=
  indexOf_spec buf start v i h

/-- … and finds one whenever one exists inside the buffer (it runs off the buffer only otherwise) -/
theorem bit_index_of_complete (buf : Words) (start : Nat) (v : Bool) (j : Nat) (hj1 : start ≤ j)
    (hj2 : j < 64 * buf.length) (hv : bitAt buf j = v) : ∃ i, indexOf buf start v = some i :=
  indexOf_complete buf start v j hj1 hj2 hv

/-- `BitVectorIterator` (`ArenaBitSet::ForEachBitSet`) yields exactly the set bits at or after `start`, ascending -/
theorem bit_iterate_spec (data : Words) (start : Nat) :
    iterate data start = (List.range (64 * data.length)).filter (fun j => decide (start ≤ j) && bitAt data j) :=
  iterate_spec data start

/-- `ArenaBitSet::and_/or_/and_not`: never out of bounds, keep the invariant (capacity consistent, unused bits of the
last word zero) and act bitwise on the textbook bit lists (the other set padded with `false`) -/
theorem bitset_or_spec (b other : BitSet) (hb : WF b) (ho : WF other) :
    ∃ b', or_ b other = some b' ∧ WF b' ∧ b'.size = b.size ∧ b'.cap = b.cap ∧ b'.data = b.data ∧
      bits b' = List.zipWith (fun x y => x || y) (bits b)
        ((bits other ++ List.replicate (b.size - other.size) false).take b.size) :=
  or_spec b other hb ho
theorem bitset_and_spec (b other : BitSet) (hb : WF b) (ho : WF other) :
    ∃ b', and_ b other = some b' ∧ WF b' ∧ b'.size = b.size ∧ b'.cap = b.cap ∧ b'.data = b.data ∧
      bits b' = List.zipWith (fun x y => x && y) (bits b)
        ((bits other ++ List.replicate (b.size - other.size) false).take b.size) :=
  and_spec b other hb ho
theorem bitset_andnot_spec (b other : BitSet) (hb : WF b) (ho : WF other) :
    ∃ b', andNot b other = some b' ∧ WF b' ∧ b'.size = b.size ∧ b'.cap = b.cap ∧ b'.data = b.data ∧
      bits b' = List.zipWith (fun x y => x && !y) (bits b)
        ((bits other ++ List.replicate (b.size - other.size) false).take b.size) :=
  andNot_spec b other hb ho
theorem bitset_truncate_spec (b : BitSet) (n : Nat) (hwf : WF b) :
    ∃ b', truncate b n = some b' ∧ WF b' ∧ b'.size = min b.size n ∧ b'.cap = b.cap ∧ b'.data = b.data ∧ bits b' = (bits b).take n :=
  truncate_spec b n hwf
theorem bitset_fill_all_spec (b : BitSet) (hwf : WF b) :
    ∃ b', fillAll b = some b' ∧ WF b' ∧ b'.size = b.size ∧ b'.cap = b.cap ∧ b'.data = b.data ∧ bits b' = List.replicate b.size true :=
  fillAll_spec b hwf

/-- `ArenaBitSet::_resize` (REPAIRED code), EVERY call incl. reallocation, under the oracle bound "no allocation of 2^29
bytes or more succeeds" (otherwise `uint32_t(allocated * 8)` wraps): never outside the buffer; `kOk` = old bits kept,
new bits `v`, invariant kept; `kOutOfMemory` = bit set unchanged -/
theorem bitset_resize_spec (a : Arena.State) (b : BitSet) (n ideal : Nat) (v : Bool)
    (hI : Inv b) (hn : n < Arena.u32) (hmm : a.mallocMax < 2 ^ 29) :
    ∃ a' b' e, resizeI a b n ideal v = some (a', b', e) ∧ a'.mallocMax = a.mallocMax ∧
      ((e = Err.ok ∧ Inv b' ∧ b'.size = n ∧
          bits b' = (bits b).take n ++ List.replicate (n - b.size) v ∧ (n ≤ b.cap → a' = a ∧ b'.cap = b.cap)) ∨
       (e = Err.oom ∧ b' = b ∧ b.cap < n)) :=
  resizeI_full_partial realloc_unfolds a b n ideal v hI hn hmm
/-- `append` (fast path and `_append` growth): `snoc`, or unchanged on `kOutOfMemory` -/
theorem bitset_append_spec (a : Arena.State) (b : BitSet) (v : Bool) (hI : Inv b) (hmm : a.mallocMax < 2 ^ 29) :
    ∃ a' b' e, append a b v = some (a', b', e) ∧ a'.mallocMax = a.mallocMax ∧
      ((e = Err.ok ∧ Inv b' ∧ b'.size = b.size + 1 ∧ bits b' = bits b ++ [v]) ∨ (e = Err.oom ∧ b' = b)) :=
  append_full_partial realloc_unfolds a b v hI hmm
/-- `copy_from`: the bits of `other`, or unchanged on `kOutOfMemory` -/
theorem bitset_copy_from_spec (a : Arena.State) (b other : BitSet) (hI : Inv b) (hO : Inv other) (hmm : a.mallocMax < 2 ^ 29) :
    ∃ a' b' e, copyFrom a b other = some (a', b', e) ∧ a'.mallocMax = a.mallocMax ∧
      ((e = Err.ok ∧ Inv b' ∧ b'.size = other.size ∧ bits b' = bits other) ∨ (e = Err.oom ∧ b' = b)) :=
  copyFrom_full_partial realloc_unfolds a b other hI hO hmm
/-- `bitset_refines_bools`: for EVERY sequence of resize/append/set/fill/clear_bits/truncate/clear/fill_all/clear_all/
release interleaved with oracle steps (`env s`: the arena replaced by any state with `mallocMax < 2^29`), from the empty
bit set: the model never touches a word outside its block (`≠ stuck`) and, when the client respects the C++ assertions,
the invariant holds and the bits equal the textbook `List Bool` (`kOutOfMemory` steps change nothing) -/
theorem bitset_refines_bools (a : Arena.State) (hmm : a.mallocMax < 2 ^ 29) (ops : List BOp) :
    run a {} [] ops ≠ .stuck ∧
    ∀ a' b' l', run a {} [] ops = .done a' b' l' → Inv b' ∧ a'.mallocMax < 2 ^ 29 ∧ bits b' = l' :=
  bitset_refines_bools_partial realloc_unfolds a hmm ops

-- non-vacuity
example : bitVectorOp true [0#64, 0#64] 60 10 = some [0xF000000000000000#64, 0x3F#64] := by decide
example : indexOf [0#64, 8#64] 3 true = some 67 := by decide
example : iterate [5#64, 1#64] 1 = [2, 64] := by decide
end Bits

/-! ## String: refinement to a byte list, null termination, number formatting parses back. -/
section Str
open AsmjitVerif.Str

/-- `append_uint_parses_back`: for the four supported bases and every 64-bit `n`, the digits `_op_number` emits
parse back (independent textbook parser `parseDigits`) to `n`, are non-empty and have no leading zero unless `n = 0` -/
theorem append_uint_parses_back (base n : Nat) (hb : ValidBase base) (hn : n < 2 ^ 64) :
    parseDigits base (digits base 64 n []) = some n ∧ digits base 64 n [] ≠ [] ∧
    ((digits base 64 n []).head? = some 48 → n = 0) :=
  Str.append_uint_parses_back base n hb hn

/-- with width and flags: the text is `prefix ++ zeros ++ digits`, the padded digits still parse to the magnitude, a '-'
prefix appears exactly for a negative `kSigned` input, the prefix is at most 3 characters of `-+ 0x` -/
theorem number_text_shape (n base w f : Nat) (hn : n < 2 ^ 64) (t : List Nat) (h : numberText n base w f = some t) :
    let b := if base = 0 then 10 else base
    let neg := f &&& kSigned ≠ 0 ∧ n ≥ 2 ^ 63
    let v := if neg then 2 ^ 64 - n else n
    ValidBase b ∧ ∃ pre k,
      t = pre ++ List.replicate k 48 ++ digits b 64 v [] ∧
      parseDigits b (List.replicate k 48 ++ digits b 64 v []) = some v ∧
      k = min w 256 - (digits b 64 v []).length ∧
      (neg → pre.head? = some 45) ∧ (¬ neg → pre.head? ≠ some 45) ∧
      (∀ c ∈ pre, c ∈ [45, 43, 32, 48, 120]) ∧ pre.length ≤ 3 :=
  numberText_shape n base w f hn t h

/-- the whole `_op_number` text equals the textbook formatter of `Spec/C18Str.lean` (bases other than 0/2/8/10/16: `none`) -/
theorem number_text_eq_spec (n base w f : Nat) (hn : n < 2 ^ 64) : numberText n base w f = specNumberText n base w f :=
  numberText_eq_spec n base w f hn

/-- `string_refines_bytes`: for EVERY operation sequence (assign/append string, char, chars, number, hex, pad_end,
truncate, clear, reset) the model never writes outside its buffer, keeps `size ≤ capacity`, `buf.length = capacity+1`,
the terminator, and its contents equal the byte-list ADT run on the same operations; an operation answered
out-of-memory (`oks`) is skipped by the ADT and leaves the string untouched -/
theorem string_refines_bytes (ops : List SOp) :
    ∃ s' oks, runModelE ops {} = some (s', oks) ∧ oks.length = ops.length ∧ WF s' ∧ content s' = runSpecE ops oks [] :=
  string_refines_bytes_oom ops

/-- when the sequence adds fewer than 2^38 bytes no operation fails and the contents are exactly the ADT's -/
theorem string_refines_bytes_no_oom (ops : List SOp) (hsmall : totalCost ops < 2 ^ 38) :
    ∃ s', runModel ops {} = some s' ∧ WF s' ∧ content s' = runSpec ops [] :=
  Str.string_refines_bytes ops hsmall

/-- `null_terminated`: after every operation sequence `data()[size()] == 0` -/
theorem string_null_terminated (ops : List SOp) : ∃ s', runModel ops {} = some s' ∧ terminated s' = true :=
  null_terminated ops

/-- a failed operation (`kOutOfMemory`, `kInvalidArgument`) leaves the string exactly as it was -/
theorem string_error_unchanged (op : SOp) (s s' : Str) (e : Err) (h : WF s) (hr : stepModel op s = some (s', e))
    (he : e ≠ .ok) : s' = s :=
  error_unchanged op s s' e h hr he

-- non-vacuity
example : numberText 255 16 6 4 = some ("0x0000FF".toList.map Char.toNat) := by decide
example : (runModel [.string false [97, 98], .number false 42#64 10 0 0, .truncate 3] {}).map content = some [97, 98, 52] := by
  decide
end Str

/-! ## Arena: every history of `alloc_oneshot / alloc_reusable / free_reusable / reset(soft|hard)` (client language and
ghost live set in `Spec/C18Arena.lean`; `safe` is the executable monitor: every live region 8-aligned, inside its block,
pairwise disjoint, dynamic blocks registered and none leaked). -/
section ArenaS
open AsmjitVerif.Arena

/-- `arena_disjoint`: after EVERY operation sequence on an arena of any block size / static buffer / malloc limit, the
live regions are aligned, inside their blocks and pairwise disjoint -/
theorem arena_safe (minBlock staticSize mallocMax : Nat) (ops : List AOp) :
    safe (run ops (init minBlock staticSize mallocMax, [])).1 (run ops (init minBlock staticSize mallocMax, [])).2 = true :=
  arena_safe_general minBlock staticSize mallocMax ops

/-- the same as a `Prop` (`Safe` of Spec/C18Arena.lean) -/
theorem arena_safe_prop (minBlock staticSize mallocMax : Nat) (ops : List AOp) :
    Safe (run ops (init minBlock staticSize mallocMax, [])).1 (run ops (init minBlock staticSize mallocMax, [])).2 :=
  (safe_iff_Safe _ _).mp (arena_safe_general minBlock staticSize mallocMax ops)

/-- `arena_reuses_only_released`: in every reachable state whatever `alloc_oneshot` / `alloc_reusable` returns lies inside a
block (or is a registered dynamic block) and overlaps NO region that is live at that moment -/
theorem arena_reuses_only_released (minBlock staticSize mallocMax : Nat) (ops : List AOp) :
    let (s, live) := run ops (init minBlock staticSize mallocMax, [])
    (∀ size s' p, size % 8 = 0 → 0 < size → allocOneshot s size = (s', some p) →
      itemSafe s' (p, size) = true ∧ ∀ it ∈ liveItems live, disjB (p, size) it = true)
    ∧ (∀ size s' p asz, allocReusable s size = (s', some p, asz) →
      itemSafe s' (p, asz) = true ∧ ∀ it ∈ liveItems live, disjB (p, asz) it = true) :=
  Arena.arena_reuses_only_released minBlock staticSize mallocMax ops

/-- `reset_returns_all`: a reset empties the bump pointer, all size-class lists, all dynamic blocks and the live set; a hard
reset keeps at most the static block -/
theorem arena_reset_returns_all (s : State) (live : Live) (hard : Bool) :
    let (s', live') := step (s, live) (.reset hard)
    s'.ptr = 0 ∧ s'.cur = 0 ∧ s'.slots = List.replicate 8 [] ∧ s'.dyns = [] ∧ live' = [] ∧
    (hard = true → s'.blocks = if s.hasStatic then s.blocks.take 1 else []) :=
  reset_returns_all s live hard

/-- after any history a hard reset restores the freshly initialised arena -/
theorem arena_hard_reset_is_init (minBlock staticSize mallocMax : Nat) (ops : List AOp) :
    let r := run (ops ++ [.reset true]) (init minBlock staticSize mallocMax, [])
    r.1.blocks = (init minBlock staticSize mallocMax).blocks ∧ r.1.ptr = 0 ∧ r.1.cur = 0 ∧
    r.1.slots = List.replicate 8 [] ∧ r.1.dyns = [] ∧ r.2 = [] :=
  reset_hard_restores_init minBlock staticSize mallocMax ops

-- non-vacuity: live regions exist and `safe` can be false
example : (run [.one 1000, .get 1 100, .get 2 5000, .put 1, .get 3 128] (init 1024 0, [])).2.length = 3 := by decide
example : safe (init 1024 0) [(0, .managed 0 0, 8)] = false := by decide
end ArenaS

/-! ## ArenaVector: every operation sequence refines the textbook list (`Spec/C18Vector.lean`: `VOp`, `specStep`,
`Step.env` = the allocation oracle: between any two vector operations the shared arena may be replaced by ANY state with
`mallocMax < 2^32`, so an allocation may fail at any point and other containers may use the arena).
Standing hypotheses: `0 < itemSize < 2^32` (C++ `ItemSize::n` is `uint32_t`) and no single allocation of 4 GiB or more
succeeds (`mallocMax < 2^32`; otherwise `uint32_t(capacity)` truncates, see notes). -/
section Vec
open AsmjitVerif.Vector AsmjitVerif.Arena

/-- `expand_ge`: the growth policy never shrinks a request … -/
theorem vec_expand_ge (b : Nat) : b ≤ expandByteSize b := expand_ge' b
/-- … and never adds more than `kGrowThreshold` (no 64-bit wrap) -/
theorem vec_expand_le (b : Nat) : expandByteSize b ≤ b + kGrowThreshold := expand_le b

/-- what `alloc_reusable` hands a container is at least the requested size and below 4 GiB under the oracle bound -/
theorem vec_alloc_ge {a a' : State} {size allocated : Nat} {p : Loc}
    (h : allocReusable a size = (a', some p, allocated)) (h0 : 0 < size) (h1 : size ≤ u64) :
    size ≤ allocated ∧ allocated ≤ max 2048 size ∧ (a.mallocMax < u32 → allocated < u32) :=
  allocReusable_spec h h0 h1

/-- `vec_refines_list`: after EVERY sequence of vector operations and oracle steps the model never wrote outside its
allocation (`run … = some`), the invariant `WF` holds (`buf.length = capacity`, `size ≤ capacity` = `capacity_ge_size`,
`capacity < 2^32`) and the items are exactly the textbook list -/
theorem vec_refines_list {itemSize : Nat} (hi : 0 < itemSize) (hi32 : itemSize < u32) (steps : List Step)
    (a0 : State) (h0 : a0.mallocMax < u32) :
    ∃ a v l, run itemSize (a0, {}, []) steps = some (a, v, l) ∧ a.mallocMax < u32 ∧ WF v ∧ items v = l :=
  Vector.vec_refines_list hi hi32 steps a0 h0

/-- … the same after every prefix of the history, with `size ≤ capacity` and `buf.length = capacity` spelled out -/
theorem vec_capacity_ge_size {itemSize : Nat} (hi : 0 < itemSize) (hi32 : itemSize < u32) (steps : List Step)
    (a0 : State) (h0 : a0.mallocMax < u32) (k : Nat) :
    ∃ a v l, run itemSize (a0, {}, []) (steps.take k) = some (a, v, l) ∧ a.mallocMax < u32 ∧ WF v ∧ items v = l ∧
      v.size ≤ v.cap ∧ v.buf.length = v.cap ∧
      run itemSize (a0, {}, []) steps = run itemSize (a, v, l) (steps.drop k) :=
  vec_refines_list_prefix hi hi32 steps a0 h0 k

/-- in every reachable state every further operation stays inside the allocation, an operation answered
`kOutOfMemory` (`ok = false`) leaves the vector unchanged, otherwise the items follow the textbook list -/
theorem vec_failure_unchanged {itemSize : Nat} (hi : 0 < itemSize) (hi32 : itemSize < u32) (steps : List Step)
    (a0 : State) (h0 : a0.mallocMax < u32) (op : VOp) :
    ∃ a v l, run itemSize (a0, {}, []) steps = some (a, v, l) ∧
      ∃ a' v' ok, modelStep itemSize a v op = some (a', v', ok) ∧ WF v' ∧ (ok = false → v' = v) ∧
        items v' = specStep l op ok :=
  vec_refines_list_step hi hi32 steps a0 h0 op

/-- per operation: `insert` (append = `index = size`, prepend = `index = 0`), `resize_fit/grow`, `concat` -/
theorem vec_insert_spec {a : State} {v : Vec} {index : Nat} (item : Nat) {itemSize : Nat}
    (hw : WF v) (hidx : index ≤ v.size) (hi : 0 < itemSize) (hi32 : itemSize < u32) (hm : a.mallocMax < u32) :
    OpOk a v ((items v).take index ++ item :: (items v).drop index) (insert a v index item itemSize) :=
  insert_spec item hw hidx hi hi32 hm
theorem vec_resize_spec (growing : Bool) {a : State} {v : Vec} (n : Nat) {itemSize : Nat}
    (hw : WF v) (hi : 0 < itemSize) (hi32 : itemSize < u32) (hm : a.mallocMax < u32) :
    OpOk a v ((items v).take n ++ List.replicate (n - v.size) 0) (resize growing a v n itemSize) :=
  resize_spec growing n hw hi hi32 hm
theorem vec_concat_spec {a : State} {v other : Vec} {itemSize : Nat}
    (hw : WF v) (ho : WF other) (hi : 0 < itemSize) (hi32 : itemSize < u32) (hm : a.mallocMax < u32) :
    OpOk a v (items v ++ items other) (concat a v other itemSize) :=
  concat_spec hw ho hi hi32 hm
/-- `reserve_fit(n)` answered ok really provides `capacity ≥ n` (part of `ReserveOk`) and never changes the items -/
theorem vec_reserve_spec {a a' : State} {v v' : Vec} {e : Err} {n itemSize : Nat}
    (h : reserveFitP a v n itemSize = (a', v', e)) (hw : WF v) (hi : 0 < itemSize) (hi32 : itemSize < u32)
    (hm : a.mallocMax < u32) : ReserveOk a v n a' v' e :=
  reserveFitP_spec h hw hi hi32 hm
/-- lookups: first / last occurrence (textbook recursive definitions) and membership -/
theorem vec_index_of_spec (v : Vec) (x : Nat) (h : WF v) : indexOf v x = firstIdx x (items v) := indexOf_first h x
theorem vec_last_index_of_spec (v : Vec) (x : Nat) (h : WF v) : lastIndexOf v x = lastIdx x (items v) := lastIndexOf_spec h x
theorem vec_contains_spec (v : Vec) (x : Nat) : contains v x = true ↔ x ∈ items v := contains_spec v x

example : expandByteSize 100 = 256 := by decide
example : (run 4 (init 1024 0 (2 ^ 30), {}, []) [.vec (.append 4), .env (init 1024 0 0), .vec (.append 5), .vec (.prepend 3),
    .vec (.removeAt 0)]).map (·.2.2) = some [4, 5] := by decide
end Vec

/-! ## ArenaHash as a finite map (`Spec/C18HashList.lean`: `HOp`, association list, `lookup`; protocol `HValid`: a key is
inserted only when absent – the documented "get() first, then insert()" use; `arenaNoise s` = arbitrary arena state, so
a rehash allocation may fail at any point). -/
section HashMap
open AsmjitVerif.Hash AsmjitVerif.Arena AsmjitVerif.Spec.C18HashList

/-- under the table invariant `_calc_mod` is `% bucket_count` (initial table or any generated prime row) -/
theorem hash_calc_mod (t : Table) (h : Nat) (hw : WF t) (hh : h < 2 ^ 32) : calcMod t h = h % t.count :=
  calcMod_eq t h hw hh
/-- `_insert` (including the rehash it may trigger, with or without a successful allocation) keeps the invariant –
in particular REACHABILITY: every node sits in bucket `hash % bucket_count` – and adds exactly the node -/
theorem hash_insert_spec (a : State) (t : Table) (n : Node) (hw : WF t) (hh : n.hash < 2 ^ 32)
    (hfresh : n.uid ∉ (allNodes t).map Node.uid) :
    WF (insert a t n).2 ∧ (allNodes (insert a t n).2).Perm (n :: allNodes t) :=
  Hash.insert_spec a t n hw hh hfresh
/-- `_rehash` never loses or duplicates a node, whatever the arena answers -/
theorem hash_rehash_spec (a : State) (t : Table) (pi : Nat) (hw : WF t) :
    WF (rehash a t pi).2 ∧ (allNodes (rehash a t pi).2).Perm (allNodes t) :=
  rehash_spec a t pi hw
/-- `_remove` unlinks exactly the node (and answers nullptr for an absent one) -/
theorem hash_remove_spec (t : Table) (n : Node) (hw : WF t) (hh : n.hash < 2 ^ 32) :
    WF (remove t n).1 ∧
    (n ∈ allNodes t → (remove t n).2 = true ∧ (allNodes (remove t n).1).Perm ((allNodes t).erase n)) ∧
    (n.uid ∉ (allNodes t).map Node.uid → remove t n = (t, false)) :=
  Hash.remove_spec t n hw hh
/-- `get` finds a node iff one with that key is in the bucket of the hash code -/
theorem hash_get_spec (t : Table) (hw : WF t) (key h : Nat) (hh : h < 2 ^ 32) :
    (get t key h).isSome = true ↔ ∃ n ∈ allNodes t, n.key = key ∧ n.hash % t.count = h % t.count :=
  get_isSome_iff t hw key h hh
/-- `hash_refines_map`: for EVERY valid operation sequence, any hash function into 32 bits and any arena behaviour, the
invariant (reachability) holds, the nodes are exactly the textbook association list and every lookup agrees with it -/
theorem hash_refines_map (H : Nat → Nat) (hH : ∀ k, H k < 2 ^ 32) (ops : List HOp) (a : State) (hv : HValid [] ops) :
    WF (runModel H (a, {}) ops).2 ∧
    ((allNodes (runModel H (a, {}) ops).2).map pr).Perm (runSpec [] ops) ∧
    ∀ k, (get (runModel H (a, {}) ops).2 k (H k)).map pr = lookup (runSpec [] ops) k :=
  Hash.hash_refines_map H hH ops a hv
end HashMap

/-! ## ArenaPool: LIFO recycling of released blocks only. -/
section PoolS
open AsmjitVerif.ListPool AsmjitVerif.Arena AsmjitVerif.Spec.C18HashList
/-- `alloc` after `release x` returns exactly `x` and touches neither the arena nor the rest of the pool -/
theorem pool_alloc_lifo (p : Pool) (x : Loc) (a : State) (size : Nat) : (p.release x).alloc a size = (a, p, some x) :=
  ListPool.pool_alloc_lifo p x a size
/-- for every alloc/release sequence the pool's free list is the textbook stack of released-and-not-reused locations -/
theorem pool_refines_stack (ops : List POp) (a : State) : (runPool (a, {}) ops).2.free = runStack [] ops :=
  ListPool.pool_refines_stack ops a
end PoolS

/-! ## ArenaTree (Julienne Walker top-down red-black tree over the index heap, loops with fuel 256).
Abstract side: `Spec/C18Tree.lean` (`Represents h t`: the heap reachable from `_root` is the inductive tree `t`, no node
shared; `t.keys` in-order; `BST`, `RB` = root black ∧ no red-red ∧ equal black height). -/
section TreeS
open AsmjitVerif.Tree AsmjitVerif.Tree.Spec AsmjitVerif.Tree.Ins

/-- `get(key)` finds a node iff the key is in the set, and returns a tree node with that key -/
theorem tree_get_spec {h : Tree} {t : T} (k : Nat) (hr : Represents h t) (hb : t.BST) (hh : t.height < kFuel) :
    (get h k ≠ 0 ↔ k ∈ t.keys) ∧ (get h k ≠ 0 → key h (get h k) = k ∧ get h k ∈ t.idxs) :=
  get_spec k hr hb hh
/-- a red-black tree with fewer than 2^64 nodes has height ≤ 128, so the fuel 256 of the model loops is never exhausted -/
theorem tree_height_bound {t : T} (hrb : t.RB) (hs : t.size < 2 ^ 64) : t.height ≤ 128 := height_le_128 hrb hs
/-- `insert_refines` + `rb_balanced` for insert: inserting an absent key into a represented red-black search tree gives a
represented tree whose key list is the textbook ordered-set insert, again a search tree, again red-black (root black,
no red-red, equal black height); no node is lost or duplicated and only tree cells and `head` are written -/
theorem tree_insert_refines {h : Tree} {t : T} {k : Nat} (hr : Represents h t) (hb : t.BST) (hrb : t.RB)
    (hk : k ∉ t.keys) (hsz : 2 ≤ h.nodes.size) (hsize : t.size < 2 ^ 64) :
    ∃ t', Represents (insertNode (newNode h k).1 (newNode h k).2) t' ∧ t'.keys = setInsert k t.keys ∧ t'.BST ∧
      t'.RB ∧ t'.idxs.Perm ((newNode h k).2 :: t.idxs) ∧
      (insertNode (newNode h k).1 (newNode h k).2).nodes.size = h.nodes.size + 1 ∧
      (∀ i, i ≠ 1 → i ∉ (newNode h k).2 :: t.idxs →
        nd (insertNode (newNode h k).1 (newNode h k).2) i = nd (newNode h k).1 i) :=
  insert_refines_size hr hb hrb hk hsz hsize
/-- every history of inserts (duplicates skipped like the harness/ConstPool do) refines the ordered set and stays red-black -/
theorem tree_refines_set_inserts (ops : List TOp) (hins : ∀ op ∈ ops, ∃ k, op = .insert k) (hlen : ops.length < 2 ^ 64) :
    ∃ t, Represents (runModel ops {}) t ∧ t.keys = runSpec ops [] ∧ t.BST ∧ t.RB :=
  Ins.tree_refines_set_inserts ops hins hlen
/-- `remove_refines` (shape part, BOTH paths of `remove`: bottom node = found node, and the `replaceLoop` re-link of the
bottom node into the found node's place): removing a tree node from a represented search tree gives a represented tree
whose key list is the textbook ordered-set erase, again a search tree, root black, exactly the passed node gone.
No red-black hypothesis is needed for this, only enough fuel (`height ≤ 256`). -/
theorem tree_remove_refines_shape {h : Tree} {t : T} {node : Nat} (hr : Represents h t) (hbst : t.BST)
    (hmem : node ∈ t.idxs) (hfuel : t.height ≤ kFuel) :
    ∃ t', Represents (removeNode h node) t' ∧ t'.keys = setErase (key h node) t.keys ∧ t'.BST ∧
      t'.idxs.Perm (t.idxs.erase node) ∧ t'.isRed = false ∧ 2 ≤ (removeNode h node).nodes.size :=
  Rem.remove_refines_shape hr hbst hmem hfuel

/-- what is NOT proved about `remove`: that it keeps `noRedRed` and the equal black height (`rb_balanced` for remove) -/
def RemoveKeepsColours : Prop :=
  ∀ (h : Tree) (t : T) (n : Nat), Represents h t → t.BST → t.RB → 2 ≤ h.nodes.size → t.size < 2 ^ 64 → n ∈ t.idxs →
    ∀ t', Represents (removeNode h n) t' → t'.noRedRed ∧ ∃ m, t'.blackH m

/- Full statement wanted (`tree_refines_set` + `rb_balanced`): for every history of inserts and removes from the empty tree
   the heap represents a red-black search tree whose keys are the textbook ordered set.  Proved unconditionally: histories of
   inserts (`tree_refines_set_inserts`), every single remove on any search tree (`tree_remove_refines_shape`).  For MIXED
   histories the next insert/remove needs the red-black invariant of its input (it bounds the height, hence the fuel, and
   the top-down insert is only shape-correct on a tree without red-red); that remove preserves the colour invariant is the
   missing lemma, so it is an explicit hypothesis here.  (The monitor checks it after every remove on the real code.) -/
theorem tree_refines_set_partial (hc : RemoveKeepsColours) (ops : List TOp) (hlen : ops.length < 2 ^ 64) :
    ∃ t, Represents (runModel ops {}) t ∧ t.keys = runSpec ops [] ∧ t.BST ∧ t.RB :=
  Ins.tree_refines_set (fun h t n hr hb hrb hsz hsize hn => by
    obtain ⟨t', h1, h2, h3, _, h5, h6⟩ := Rem.removeStepShape h t n hr hb hrb hsz hsize hn
    have hcol := hc h t n hr hb hrb hsz hsize hn t' h1
    exact ⟨t', h1, h2, h3, ⟨h5, hcol.1, hcol.2⟩, h6⟩) ops hlen

-- non-vacuity: a real history with inserts and removes, evaluated
example : Tree.inorder 64 (runModel [.insert 5, .insert 3, .insert 8, .insert 9, .remove 5, .insert 4, .remove 3] {})
    (runModel [.insert 5, .insert 3, .insert 8, .insert 9, .remove 5, .insert 4, .remove 3] {}).root = [4, 8, 9] := by decide
example : runSpec [.insert 5, .insert 3, .insert 8, .insert 9, .remove 5, .insert 4, .remove 3] [] = [4, 8, 9] := by decide
end TreeS

/-! ## ArenaList: every operation transforms the represented list (`IsList h l xs`: `xs` are the node indices from `first`
to `last`, links consistent in both directions) like the textbook list operation; both traversals read it back.
The sequence theorem over all operations is NOT proved (only for prepend/pop_first, `list_refines_list_partial`). -/
section ListS
open AsmjitVerif.ListPool AsmjitVerif.ListPool2 AsmjitVerif.Spec.C18HashList

theorem list_append_spec {h l xs n} (hl : ListPool2.IsList h l xs) (hn0 : n ≠ 0) (hns : n < h.size) (hnx : n ∉ xs)
    (hnext : (nd h n).next = 0) : ListPool2.IsList (addNode h l n true).1 (addNode h l n true).2 (xs ++ [n]) :=
  addNode_append hl hn0 hns hnx hnext
theorem list_prepend_spec {h l xs n} (hl : ListPool2.IsList h l xs) (hn0 : n ≠ 0) (hns : n < h.size) (hnx : n ∉ xs)
    (hprev : (nd h n).prev = 0) : ListPool2.IsList (addNode h l n false).1 (addNode h l n false).2 (n :: xs) :=
  ListPool2.addNode_prepend hl hn0 hns hnx hprev
theorem list_insert_after_spec {h l L ref R n} (hl : ListPool2.IsList h l (L ++ ref :: R)) (hn0 : n ≠ 0) (hns : n < h.size)
    (hnx : n ∉ L ++ ref :: R) : ListPool2.IsList (insertNode h l ref n true).1 (insertNode h l ref n true).2 (L ++ ref :: n :: R) :=
  insertNode_after hl hn0 hns hnx
theorem list_insert_before_spec {h l L ref R n} (hl : ListPool2.IsList h l (L ++ ref :: R)) (hn0 : n ≠ 0) (hns : n < h.size)
    (hnx : n ∉ L ++ ref :: R) : ListPool2.IsList (insertNode h l ref n false).1 (insertNode h l ref n false).2 (L ++ n :: ref :: R) :=
  insertNode_before hl hn0 hns hnx
theorem list_unlink_spec {h l L n R} (hl : ListPool2.IsList h l (L ++ n :: R)) :
    ListPool2.IsList (unlink h l n).1 (unlink h l n).2 (L ++ R) ∧ (nd (unlink h l n).1 n).prev = 0 ∧ (nd (unlink h l n).1 n).next = 0 :=
  unlink_erase hl
theorem list_pop_spec {h l L n} (hl : ListPool2.IsList h l (L ++ [n])) : ListPool2.IsList (pop h l).1 (pop h l).2.1 L ∧ (pop h l).2.2 = n :=
  pop_dropLast hl
theorem list_pop_first_spec {h l n R} (hl : ListPool2.IsList h l (n :: R)) :
    ListPool2.IsList (popFirst h l).1 (popFirst h l).2.1 R ∧ (popFirst h l).2.2 = n :=
  ListPool2.popFirst_tail hl
/-- forward traversal reads the list, backward traversal reads its reverse (link symmetry) -/
theorem list_walk_spec {h l xs} (hl : ListPool2.IsList h l xs) (fuel : Nat) (hfuel : xs.length ≤ fuel) :
    walk fuel h l.first true = xs.map (fun x => (nd h x).val) ∧
    walk fuel h l.last false = (xs.map (fun x => (nd h x).val)).reverse :=
  ⟨walk_forward hl fuel hfuel, walk_backward hl fuel hfuel⟩
/-- sequence theorem, only for the sub-language {prepend, pop_first} -/
theorem list_refines_list_partial (ops : List LOp) (hops : ∀ op ∈ ops, simpleOp op) :
    ∃ xs, ListPool.IsList (ops.foldl stepListP (#[{}], {})).1 (ops.foldl stepListP (#[{}], {})).2 xs ∧
      walk xs.length (ops.foldl stepListP (#[{}], {})).1 (ops.foldl stepListP (#[{}], {})).2.first true = runList [] ops :=
  ListPool.list_refines_list_partial ops hops
end ListS

end AsmjitVerif.C18
