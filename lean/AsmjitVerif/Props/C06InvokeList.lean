/-
  C06 – invoke lowering, whole argument lists of integer arguments (immediates and GP registers at register and stack positions):
  the per-path theorems of Props/C06Invoke.lean compose, because every block writes only its own registers and its own stack slot.
-/
import AsmjitVerif.Props.C06Invoke
namespace AsmjitVerif.C06Invoke
open AsmjitVerif.CallConv AsmjitVerif.Invoke AsmjitVerif.InvokeSpec

/-! ## frames: what a run may change -/

/-- `m'` differs from `m` at most in the GP registers `regs` and in the memory range `[lo, hi)` (dword cells outside survive) -/
def Frame (m m' : M) (regs : List Nat) (lo hi : Int) : Prop :=
  m'.is64 = m.is64 ∧
  (∀ id, id ∉ regs → m'.getGp id = m.getGp id) ∧
  (∀ b v bits, m.cell b = some (.dword v bits) → (b + 4 ≤ lo ∨ hi ≤ b) → m'.cell b = some (.dword v bits))

theorem Frame.refl (m : M) (regs : List Nat) (lo hi : Int) : Frame m m regs lo hi := ⟨rfl, fun _ _ => rfl, fun _ _ _ h _ => h⟩

theorem Frame.trans {m m1 m2 : M} {r1 r2 : List Nat} {lo hi : Int} (h1 : Frame m m1 r1 lo hi) (h2 : Frame m1 m2 r2 lo hi) :
    Frame m m2 (r1 ++ r2) lo hi := by
  refine ⟨by rw [h2.1, h1.1], fun id hid => ?_, fun b v bits hb hr => ?_⟩
  · simp only [List.mem_append, not_or] at hid
    rw [h2.2.1 id hid.2, h1.2.1 id hid.1]
  · exact h2.2.2 b v bits (h1.2.2 b v bits hb hr) hr

theorem Frame.mono {m m' : M} {r r' : List Nat} {lo hi lo' hi' : Int} (h : Frame m m' r lo hi) (hr : ∀ x ∈ r, x ∈ r')
    (hlo : lo' ≤ lo) (hhi : hi ≤ hi') : Frame m m' r' lo' hi' := by
  refine ⟨h.1, fun id hid => h.2.1 id (fun hx => hid (hr id hx)), fun b v bits hb hd => h.2.2 b v bits hb ?_⟩
  rcases hd with hd | hd
  · left; omega
  · right; omega

theorem find_filter_some {α} (q p : α → Bool) : ∀ (l : List α) (x : α), l.find? q = some x → p x = true →
    (l.filter p).find? q = some x := by
  intro l
  induction l with
  | nil => intro x h; simp at h
  | cons y l ih =>
    intro x h hp
    by_cases hq : q y = true
    · simp only [List.find?_cons, hq] at h
      cases h
      simp [List.filter, hp, hq]
    · have hq' : q y = false := by simpa using hq
      simp only [List.find?_cons, hq'] at h
      by_cases hpy : p y = true
      · simp only [List.filter, hpy, List.find?_cons, hq']; exact ih x h hp
      · have hpy' : p y = false := by simpa using hpy
        simp only [List.filter, hpy']; exact ih x h hp

theorem frame_setGp (m : M) (id : Nat) (v : GVal) (lo hi : Int) : Frame m (m.setGp id v) [id] lo hi := by
  refine ⟨rfl, fun id' hid => ?_, fun b w bits hb _ => by simpa [M.setGp, M.cell] using hb⟩
  have hne : id' ≠ id := by simpa using hid
  unfold M.setGp M.getGp
  simp only
  have h1 : ((id, v).1 == id') = false := by simp; exact fun h => hne h.symm
  simp only [List.find?_cons, h1]
  cases hf : m.gp.find? (fun x => x.1 == id') with
  | none =>
    have : (m.gp.filter fun x => x.1 != id).find? (fun x => x.1 == id') = none := by
      rw [List.find?_eq_none] at hf ⊢
      intro x hx; exact hf x (List.mem_filter.1 hx).1
    rw [this]
  | some x =>
    have hx := List.find?_some hf
    have : (m.gp.filter fun x => x.1 != id).find? (fun x => x.1 == id') = some x :=
      find_filter_some _ _ _ x hf (by simp at hx ⊢; rw [hx]; exact hne)
    rw [this]

theorem frame_store (m : M) (a : Int) (c : Cell) (hpos : 0 < cellSize m.is64 c) :
    Frame m (m.store a c) [] a (a + (cellSize m.is64 c : Int)) := by
  refine ⟨rfl, fun _ _ => rfl, fun b v bits hb hd => ?_⟩
  unfold M.store M.cell at *
  simp only
  have hne : ((a, c).1 == b) = false := by
    simp only [beq_eq_false_iff_ne, ne_eq]
    intro h; subst h
    have : (0 : Int) < (cellSize m.is64 c : Int) := by exact_mod_cast hpos
    rcases hd with hd | hd <;> omega
  simp only [List.find?_cons, hne]
  cases hf : m.mem.find? (fun x => x.1 == b) with
  | none => rw [hf] at hb; simp at hb
  | some x =>
    rw [hf] at hb
    simp only [Option.map_some, Option.some.injEq] at hb
    have hx := List.find?_some hf
    have hxb : x.1 = b := by simpa using hx
    have hsz : cellSize m.is64 x.2 = 4 := by rw [hb]; rfl
    have := find_filter_some (fun x : Int × Cell => x.1 == b)
      (fun (x : Int × Cell) => decide (x.1 + (cellSize m.is64 x.2 : Int) ≤ a) || decide (a + (cellSize m.is64 c : Int) ≤ x.1)) m.mem x hf (by
        simp only [hsz, hxb, Bool.or_eq_true, decide_eq_true_eq]
        rcases hd with hd | hd
        · left; omega
        · right; omega)
    simp only [Option.map, this, hb]

/-- the instruction shapes the integer lowering emits; `regs`: registers it may write, `[lo, hi)`: stack range it may write.
    (A 4-byte register store is given 8 bytes on a 64-bit target: the machine would store a pointer-valued register whole.) -/
def IntI (is64 : Bool) (i : XI) (regs : List Nat) (lo hi : Int) : Prop :=
  (∃ rt id v, i.name = .mov ∧ i.ops = [.reg rt id, .imm v] ∧ 32 ≤ rtBits rt ∧ id ∈ regs) ∨
  (∃ rt id rs s, (i.name = .movsx ∨ i.name = .movzx ∨ i.name = .movsxd) ∧ i.ops = [.reg rt id, .reg rs s] ∧ 32 ≤ rtBits rt ∧ id ∈ regs) ∨
  (∃ o sz v, i.name = .mov ∧ i.ops = [.mem 4 o sz, .imm v] ∧ (sz = 4 ∨ sz = 8) ∧ lo ≤ o ∧ o + sz ≤ hi) ∨
  (∃ o sz rs s, i.name = .mov ∧ i.ops = [.mem 4 o sz, .reg rs s] ∧ (sz = 4 ∨ sz = 8) ∧ lo ≤ o ∧ o + (if is64 then 8 else (sz : Int)) ≤ hi) ∨
  (∃ o, i.name = .and_ ∧ i.ops = [.mem 4 o 4, .imm 0] ∧ lo ≤ o ∧ o + 4 ≤ hi)

theorem writeGp_wide (m : M) (id rt : Nat) (v : BitVec 64) (h : 32 ≤ rtBits rt) :
    ∃ w, writeGp m id rt v = m.setGp id w := by
  unfold writeGp
  simp only [ge_iff_le, h, if_true]
  exact ⟨_, rfl⟩

theorem frame_storeNum (m m' : M) (a : Int) (sz : Nat) (v : BitVec 64) (b : Nat) (hsz : sz = 4 ∨ sz = 8)
    (h : storeNum m a sz v b = some m') : Frame m m' [] a (a + sz) := by
  rcases hsz with rfl | rfl
  · simp [storeNum] at h; subst h
    exact frame_store m a _ (by simp [cellSize])
  · simp [storeNum] at h; subst h
    have f1 := frame_store m a (.dword (v.truncate 32) (min b 32)) (by simp [cellSize])
    have f2 := frame_store (m.store a (.dword (v.truncate 32) (min b 32))) (a + 4) (.dword ((v >>> 32).truncate 32) (min (b - 32) 32))
      (by simp [cellSize])
    have := Frame.trans (f1.mono (r' := []) (lo' := a) (hi' := a + 8) (fun _ h => h) (Int.le_refl _) (by simp [cellSize]))
      (f2.mono (r' := []) (lo' := a) (hi' := a + 8) (fun _ h => h) (by omega) (by simp [cellSize]; omega))
    simpa using this

theorem step_frame (m m' : M) (i : XI) (regs : List Nat) (lo hi : Int) (hi' : IntI m.is64 i regs lo hi) (h : step m i = some m') :
    Frame m m' regs lo hi := by
  obtain ⟨n, vx, ops, tg⟩ := i
  rcases hi' with ⟨rt, id, v, hn, ho, hw, hid⟩ | ⟨rt, id, rs, s, hn, ho, hw, hid⟩ | ⟨o, sz, v, hn, ho, hsz, h1, h2⟩ |
      ⟨o, sz, rs, s, hn, ho, hsz, h1, h2⟩ | ⟨o, hn, ho, h1, h2⟩
  · simp only at hn ho; subst hn ho
    simp only [step] at h
    split at h
    · obtain ⟨w, hw'⟩ := writeGp_wide m id rt v hw
      cases h; rw [hw']
      exact (frame_setGp m id w lo hi).mono (fun x hx => by simp at hx; subst hx; exact hid) (Int.le_refl _) (Int.le_refl _)
    · exact absurd h (by simp)
  · -- movsx / movzx / movsxd reg, reg
    simp only at hn ho; subst ho
    have key : ∀ v, Frame m (writeGp m id rt v) regs lo hi := by
      intro v
      obtain ⟨w, hw'⟩ := writeGp_wide m id rt v hw
      rw [hw']
      exact (frame_setGp m id w lo hi).mono (fun x hx => by simp at hx; subst hx; exact hid) (Int.le_refl _) (Int.le_refl _)
    rcases hn with rfl | rfl | rfl <;> simp only [step] at h
    all_goals
      (cases hr : readGp m s rs with
       | none => rw [hr] at h; simp at h
       | some v => rw [hr] at h; simp only [Option.map_some, Option.some.injEq] at h; subst h; exact key _)
  · -- mov [sp+o], imm
    simp only at hn ho; subst hn ho
    simp only [step, addrOf, if_true, Option.bind_some] at h
    have := frame_storeNum m m' o sz _ 64 hsz h
    exact this.mono (fun _ hx => absurd hx (by simp)) h1 h2
  · -- mov [sp+o], reg
    simp only at hn ho; subst hn ho
    simp only [step, addrOf, if_true, Option.bind_some] at h
    have hsz0 : sz ≠ 0 := by rcases hsz with rfl | rfl <;> decide
    split at h
    · -- a pointer-valued register: the whole pointer cell is stored
      rename_i p _
      by_cases hc : rtBits rs = (if m.is64 = true then 64 else 32)
      · rw [if_pos hc] at h
        cases h
        have f := frame_store m o (.ptr p) (by simp only [cellSize]; split <;> decide)
        refine f.mono (fun _ hx => absurd hx (by simp)) h1 ?_
        simp only [cellSize]
        cases h64 : m.is64 <;> simp [h64] at h2 ⊢ <;> rcases hsz with rfl | rfl <;> omega
      · rw [if_neg hc] at h; exact absurd h (by simp)
    · cases hr : readGpPartial m s rs with
      | none => rw [hr] at h; simp at h
      | some x =>
        obtain ⟨v, b⟩ := x
        rw [hr] at h
        simp only [Option.bind_some, hsz0, if_false] at h
        have := frame_storeNum m m' o sz v b hsz h
        refine this.mono (fun _ hx => absurd hx (by simp)) h1 ?_
        cases h64 : m.is64 <;> simp [h64] at h2 ⊢ <;> rcases hsz with rfl | rfl <;> omega
  · -- and dword [sp+o], 0
    simp only at hn ho; subst hn ho
    simp only [step, addrOf, if_true, Option.bind_some] at h
    cases h
    exact (frame_store m o (.dword 0 32) (by simp [cellSize])).mono (fun _ hx => absurd hx (by simp)) h1 (by simp [cellSize]; omega)

theorem run_frame (regs : List Nat) (lo hi : Int) : ∀ (l : List XI) (m m' : M), (∀ i ∈ l, IntI m.is64 i regs lo hi) →
    run m l = some m' → Frame m m' regs lo hi := by
  intro l
  induction l with
  | nil => intro m m' _ h; simp [run] at h; subst h; exact Frame.refl _ _ _ _
  | cons i is ih =>
    intro m m' hall h
    simp only [run] at h
    cases hs : step m i with
    | none => rw [hs] at h; simp at h
    | some m1 =>
      rw [hs] at h; simp only [Option.bind_some] at h
      have f1 := step_frame m m1 i regs lo hi (hall i (by simp)) hs
      have f2 := ih m1 m' (fun j hj => by rw [f1.1]; exact hall j (by simp [hj])) h
      exact (f1.trans f2).mono (fun x hx => by simp at hx; exact hx) (Int.le_refl _) (Int.le_refl _)

/-- the stack range an argument of type `dt` at `off` owns -/
def slotHi (is64 : Bool) (dt : Nat) (off : Int) : Int := off + (if is64 then 8 else if tySize dt ≤ 4 then 4 else 8)

theorem immStack_shapes (is64 : Bool) (t : Nat) (ht : t ∈ intTys8) (off : Nat) (imm : BitVec 64) (l : List XI)
    (h : immStackInsts is64 t off imm = .ok l) (regs : List Nat) : ∀ i ∈ l, IntI is64 i regs off (slotHi is64 t off) := by
  have one : ∀ (o : Int) (sz : Nat) (v : BitVec 64), (sz = 4 ∨ sz = 8) → (off : Int) ≤ o → o + sz ≤ slotHi is64 t off →
      IntI is64 ⟨.mov, false, [.mem spId o sz, .imm v], false⟩ regs off (slotHi is64 t off) :=
    fun o sz v h1 h2 h3 => Or.inr (Or.inr (Or.inl ⟨o, sz, v, rfl, rfl, h1, h2, h3⟩))
  simp only [intTys8, List.mem_cons, List.mem_nil_iff, or_false] at ht
  rcases ht with rfl | rfl | rfl | rfl | rfl | rfl | rfl | rfl
  all_goals try (simp [immStackInsts] at h; subst h; intro i hi; simp at hi; subst hi
                 exact one _ _ _ (Or.inl rfl) (Int.le_refl _) (by unfold slotHi; cases is64 <;> simp [tySize]))
  all_goals
    (intro i hi
     cases is64 <;> by_cases hc : isInt32 imm = true <;> simp [immStackInsts, hc] at h <;> subst h <;> simp at hi
     all_goals first
       | (subst hi; exact one _ _ _ (Or.inr rfl) (Int.le_refl _) (by unfold slotHi; simp [tySize]))
       | (rcases hi with rfl | rfl
          · exact one _ _ _ (Or.inl rfl) (Int.le_refl _) (by unfold slotHi; simp [tySize])
          · exact one _ _ _ (Or.inl rfl) (by omega) (by unfold slotHi; simp [tySize]; omega)))

theorem regStack_shapes (is64 avx : Bool) (dt : Nat) (hdt : dt ∈ intTys8) (st : Nat) (hst : st ∈ intTys8)
    (hm : is64 = true ∨ tySize dt ≤ 4) (off : Nat) (rid : Nat) (l : List XI)
    (h : regStackInsts is64 avx dt off rid st false = .ok l) : ∀ i ∈ l, IntI is64 i [rid] off (slotHi is64 dt off) := by
  have ext : ∀ (n : Mnm) (rt rs : Nat), (n = .movsx ∨ n = .movzx ∨ n = .movsxd) → 32 ≤ rtBits rt →
      IntI is64 ⟨n, false, [.reg rt rid, .reg rs rid], false⟩ [rid] off (slotHi is64 dt off) :=
    fun n rt rs h1 h2 => Or.inr (Or.inl ⟨rt, rid, rs, rid, h1, rfl, h2, by simp⟩)
  have str : ∀ (o : Int) (sz rs : Nat), (sz = 4 ∨ sz = 8) → (off : Int) ≤ o → o + (if is64 then 8 else (sz : Int)) ≤ slotHi is64 dt off →
      IntI is64 ⟨.mov, false, [.mem spId o sz, .reg rs rid], false⟩ [rid] off (slotHi is64 dt off) :=
    fun o sz rs h1 h2 h3 => Or.inr (Or.inr (Or.inr (Or.inl ⟨o, sz, rs, rid, rfl, rfl, h1, h2, h3⟩)))
  have andm : ∀ (o : Int), (off : Int) ≤ o → o + 4 ≤ slotHi is64 dt off →
      IntI is64 ⟨.and_, false, [.mem spId o 4, .imm 0], false⟩ [rid] off (slotHi is64 dt off) :=
    fun o h2 h3 => Or.inr (Or.inr (Or.inr (Or.inr ⟨o, rfl, rfl, h2, h3⟩)))
  simp only [intTys8, List.mem_cons, List.mem_nil_iff, or_false] at hdt hst
  intro i hi
  rcases hdt with rfl | rfl | rfl | rfl | rfl | rfl | rfl | rfl <;> rcases hst with rfl | rfl | rfl | rfl | rfl | rfl | rfl | rfl <;>
    cases is64 <;> simp [tySize] at hm <;>
    simp [regStackInsts, isGp8, isGp16, isGp32, isGp64, isInt, isBetween] at h <;> subst h <;> simp at hi
  all_goals
    first
    | (subst hi; first
        | exact str _ _ _ (Or.inl rfl) (Int.le_refl _) (by unfold slotHi; simp [tySize])
        | exact str _ _ _ (Or.inr rfl) (Int.le_refl _) (by unfold slotHi; simp [tySize]))
    | (rcases hi with rfl | rfl
       · first
         | exact ext _ _ _ (Or.inl rfl) (by decide)
         | exact ext _ _ _ (Or.inr (Or.inl rfl)) (by decide)
         | exact ext _ _ _ (Or.inr (Or.inr rfl)) (by decide)
         | exact str _ _ _ (Or.inl rfl) (Int.le_refl _) (by unfold slotHi; simp [tySize])
       · first
         | exact str _ _ _ (Or.inl rfl) (Int.le_refl _) (by unfold slotHi; simp [tySize])
         | exact str _ _ _ (Or.inr rfl) (Int.le_refl _) (by unfold slotHi; simp [tySize])
         | exact andm _ (by omega) (by unfold slotHi; simp [tySize]; omega))

/-! ## one argument value -/

/-- what the lowering makes reach the location of an integer parameter: an immediate itself; a register in a stack position
    extended as the parameter type requires; a register in a register position likewise when it is an 8/16-bit register (fix
    C06-17) or a signed 32-bit register for a signed 64-bit parameter (fix C06-20, the former finding C06-K9); otherwise – the
    register is not narrower, or it is an unsigned 32-bit register, which existing code also uses for pointers – as it is -/
def passed (arg : FuncValue) (op : ArgOp) (X : Nat → BitVec 64) : BitVec 64 :=
  match op with
  | .imm v => v
  | .gp vid st =>
    if arg.isReg && !(((isGp8 st || isGp16 st) && decide (tySize arg.typeId > tySize st)) || (st = 38 && arg.typeId = 40)) then X vid
    else widen arg.typeId st (X vid)
  | _ => 0

/-- the argument's location holds `w`: the register the invoke passes (the allocator puts it into `arg.regId`, C05), or the slot -/
def SeesV (m : M) (arg : FuncValue) (op' : ArgOp) (w : BitVec 64) : Prop :=
  if arg.isReg then ∃ id t, op' = .gp id t ∧ readGp m id (viewRt arg.typeId) = some (lowBytes (tySize arg.typeId) w)
  else ∃ v b, loadNum m arg.stackOffset (if tySize arg.typeId ≤ 4 then 4 else 8) = some (v, b) ∧ b ≥ 8 * tySize arg.typeId ∧
    lowBytes (tySize arg.typeId) v = lowBytes (tySize arg.typeId) w

/-- an integer argument value the theorem covers; `nv`: the first fresh virtual register id -/
def GoodVal (is64 : Bool) (nv : Nat) (arg : FuncValue) (op : ArgOp) : Prop :=
  arg.typeId ∈ intTys8 ∧ arg.isIndirect = false ∧ (is64 = true ∨ tySize arg.typeId ≤ 4) ∧
  (arg.isReg = true → lowerValue.groupOfRt arg.regType = 0) ∧
  ((∃ v, op = .imm v) ∨ (∃ vid st, op = .gp vid st ∧ st ∈ intTys8 ∧ vid < nv))

/-- registers a value's block may write, and its stack range (`(4, 0)`: none) -/
def wregsOf (nv : Nat) (op : ArgOp) : List Nat := match op with | .gp vid _ => [vid, nv] | _ => [nv]
def rangeOf (is64 : Bool) (arg : FuncValue) : Int × Int :=
  if arg.isReg then (4, 0) else ((arg.stackOffset : Int), slotHi is64 arg.typeId arg.stackOffset)

theorem immRegValue_rt {t : Nat} {imm v : BitVec 64} {rt : Nat} (h : immRegValue t imm = some (v, rt)) : rt = 5 ∨ rt = 6 := by
  unfold immRegValue at h
  repeat' (split at h)
  all_goals first
    | (simp only [Option.some.injEq, Prod.mk.injEq] at h; omega)
    | (exact absurd h (by simp))

theorem readGp_asis (m : M) (vid : Nat) (x : BitVec 64) (hg : m.getGp vid = some (.num x 64)) : ∀ t ∈ intTys8,
    readGp m vid (viewRt t) = some (lowBytes (tySize t) x) := by
  intro t ht
  simp only [intTys8, List.mem_cons, List.mem_nil_iff, or_false] at ht
  rcases ht with rfl | rfl | rfl | rfl | rfl | rfl | rfl | rfl <;>
    simp [readGp, hg, viewRt, tySize, rtBits, lowBytes] <;> bv_decide

theorem value_machine (s : LSt) (arg : FuncValue) (op : ArgOp) (hgood : GoodVal s.is64 s.nextV arg op) (s' : LSt) (op' : ArgOp)
    (h : lowerValue s arg op = .ok (s', op')) (m : M) (hm : m.is64 = s.is64) (X : Nat → BitVec 64)
    (hx : ∀ vid st, op = .gp vid st → m.getGp vid = some (.num (X vid) 64)) :
    ∃ blk m', s'.out = s.out ++ blk ∧ run m blk = some m' ∧ SeesV m' arg op' (passed arg op X) ∧
      Frame m m' (wregsOf s.nextV op) (rangeOf s.is64 arg).1 (rangeOf s.is64 arg).2 ∧
      s.nextV ≤ s'.nextV ∧ s'.is64 = s.is64 ∧ s'.avx = s.avx ∧
      (∀ id t, op' = .gp id t → id < s'.nextV ∧ ((∃ st, op = .gp id st) ∨ s.nextV ≤ id)) := by
  obtain ⟨hdt, hind, hmode, hgrp, hop⟩ := hgood
  unfold lowerValue at h
  rcases hop with ⟨v, rfl⟩ | ⟨vid, st, rfl, hst, hvid⟩
  · -- immediate
    simp only at h
    cases hr : arg.isReg with
    | true =>
      simp only [hr, if_true] at h
      unfold moveImmToRegArg at h
      cases hv : immRegValue arg.typeId v with
      | none => rw [hv] at h; simp at h
      | some r =>
        obtain ⟨w, rt⟩ := r
        rw [hv] at h; simp only at h; cases h
        obtain ⟨m', h1, h2⟩ := imm_reg_arg_machine arg.typeId hdt v w rt hv m s.nextV
        have hrt := immRegValue_rt hv
        refine ⟨_, m', rfl, h1, ?_, ?_, Nat.le_succ _, rfl, rfl, ?_⟩
        rotate_left 2
        · intro id t hop; cases hop; exact ⟨Nat.lt_succ_self _, Or.inr (Nat.le_refl _)⟩
        · unfold SeesV; simp only [hr, if_true]; exact ⟨s.nextV, _, rfl, h2⟩
        · refine run_frame _ _ _ _ m m' ?_ h1
          intro i hi; simp at hi; subst hi
          exact Or.inl ⟨rt, s.nextV, w, rfl, rfl, by rcases hrt with rfl | rfl <;> decide, by simp [wregsOf]⟩
    | false =>
      simp only [hr, Bool.false_eq_true, if_false] at h
      unfold moveImmToStackArg at h
      cases hi : immStackInsts s.is64 arg.typeId arg.stackOffset v with
      | error e => rw [hi] at h; simp [Except.map] at h
      | ok l =>
        rw [hi] at h; simp only [Except.map] at h; cases h
        have hin : arg.typeId ∈ immStackTys := by
          simp only [intTys8, List.mem_cons, List.mem_nil_iff, or_false] at hdt
          rcases hdt with h | h | h | h | h | h | h | h <;> rw [h] <;> decide
        obtain ⟨m', w, b, h1, h2, h3, h4⟩ := imm_stack_arg_machine s.is64 arg.typeId hin arg.stackOffset v l hi m
        refine ⟨l, m', rfl, h1, ?_, ?_, Nat.le_refl _, rfl, rfl, fun id t hop => by cases hop⟩
        · unfold SeesV; simp only [hr, Bool.false_eq_true, if_false]; exact ⟨w, b, h2, h3, h4⟩
        · have := run_frame (wregsOf s.nextV (.imm v)) _ _ l m m'
            (fun i hi' => by rw [hm]; exact immStack_shapes s.is64 arg.typeId hdt arg.stackOffset v l hi _ i hi') h1
          simpa [rangeOf, hr] using this
  · -- GP register
    have hg := hx vid st rfl
    simp only at h
    cases hr : arg.isReg with
    | true =>
      simp only [hr, if_true, hind, Bool.false_eq_true, if_false, hgrp hr, ne_eq, not_true_eq_false] at h
      by_cases hc : (isInt arg.typeId && (((isGp8 st || isGp16 st) && decide (tySize arg.typeId > tySize st)) || (st = 38 && arg.typeId = 40))) = true
      · simp only [hc, if_true] at h
        cases hmv : moveRegToRegArg s arg vid st with
        | error e => rw [hmv] at h; simp at h
        | ok r =>
          obtain ⟨s1, rt, id⟩ := r
          rw [hmv] at h; simp only at h; cases h
          have hcb : (((isGp8 st || isGp16 st) && decide (tySize arg.typeId > tySize st)) || (st = 38 && arg.typeId = 40)) = true := by
            simp only [Bool.and_eq_true] at hc; exact hc.2
          have hfacts : st ∈ [34, 35, 36, 37, 38] ∧ tySize arg.typeId > tySize st ∧ (st = 38 → arg.typeId = 40) := by
            simp only [Bool.or_eq_true, Bool.and_eq_true, decide_eq_true_eq] at hcb
            rcases hcb with ⟨h816, hw⟩ | ⟨h1, h2⟩
            · rcases h816 with h8 | h16
              · simp [isGp8] at h8; rcases h8 with rfl | rfl <;> exact ⟨by decide, hw, fun h => absurd h (by decide)⟩
              · simp [isGp16] at h16; rcases h16 with rfl | rfl <;> exact ⟨by decide, hw, fun h => absurd h (by decide)⟩
            · subst h1; rw [h2]; exact ⟨by decide, by decide, fun _ => rfl⟩
          obtain ⟨i, m', ho, h1, h2⟩ := reg_reg_arg_machine s arg hdt st hfacts.1 hfacts.2.1 hfacts.2.2 vid s' rt id hmv m (X vid) hg
          have hid : id = s.nextV ∧ s'.nextV = s.nextV + 1 ∧ s'.is64 = s.is64 ∧ s'.avx = s.avx ∧ (rt = 5 ∨ rt = 6) ∧
              ∃ n rs, (n = Mnm.movsx ∨ n = .movzx ∨ n = .movsxd) ∧ i = ⟨n, false, [.reg rt id, .reg rs vid], false⟩ := by
            unfold moveRegToRegArg at hmv
            simp only at hmv
            split at hmv
            · cases hmv
              refine ⟨rfl, rfl, rfl, rfl, by split <;> simp, ?_⟩
              have hi := List.append_cancel_left (as := s.out) (cs := [i]) ho
              exact ⟨_, 2, by split <;> simp, (List.cons.inj hi).1.symm⟩
            · split at hmv
              · cases hmv
                refine ⟨rfl, rfl, rfl, rfl, by split <;> simp, ?_⟩
                have hi := List.append_cancel_left (as := s.out) (cs := [i]) ho
                exact ⟨_, 4, by split <;> simp, (List.cons.inj hi).1.symm⟩
              · split at hmv
                · cases hmv
                  refine ⟨rfl, rfl, rfl, rfl, by split <;> simp, ?_⟩
                  have hi := List.append_cancel_left (as := s.out) (cs := [i]) ho
                  exact ⟨_, 5, Or.inr (Or.inr rfl), (List.cons.inj hi).1.symm⟩
                · exact absurd hmv (by simp)
          obtain ⟨rfl, hnv, h64, havx, hrt, n, rs, hn, rfl⟩ := hid
          refine ⟨_, m', ho, h1, ?_, ?_, by omega, h64, havx, ?_⟩
          rotate_left 2
          · intro id t hop; cases hop; exact ⟨by omega, Or.inr (Nat.le_refl _)⟩
          · unfold SeesV; simp only [hr, if_true]
            refine ⟨s.nextV, _, rfl, ?_⟩
            have : passed arg (.gp vid st) X = widen arg.typeId st (X vid) := by
              simp only [passed, hr, hcb, Bool.not_true, Bool.and_false, Bool.false_eq_true, if_false]
            rw [this]; exact h2
          · refine run_frame _ _ _ _ m m' ?_ h1
            intro j hj; simp at hj; subst hj
            exact Or.inr (Or.inl ⟨rt, s.nextV, rs, vid, by rcases hn with rfl | rfl | rfl <;> simp, rfl,
              by rcases hrt with rfl | rfl <;> decide, by simp [wregsOf]⟩)
      · simp only [hc, Bool.false_eq_true, if_false] at h
        cases h
        refine ⟨[], m, by simp, rfl, ?_, Frame.refl _ _ _ _, Nat.le_refl _, rfl, rfl, ?_⟩
        rotate_left 1
        · intro id t hop; cases hop; exact ⟨hvid, Or.inl ⟨_, rfl⟩⟩
        unfold SeesV; simp only [hr, if_true]
        refine ⟨vid, st, rfl, ?_⟩
        have hp : passed arg (.gp vid st) X = X vid := by
          have hint : isInt arg.typeId = true := by
            simp only [intTys8, List.mem_cons, List.mem_nil_iff, or_false] at hdt
            rcases hdt with h | h | h | h | h | h | h | h <;> rw [h] <;> decide
          simp only [hint, Bool.true_and] at hc
          simp [passed, hr, hc]
        rw [hp]; exact readGp_asis m vid (X vid) hg arg.typeId hdt
    | false =>
      simp only [hr, Bool.false_eq_true, if_false, hind] at h
      unfold moveRegToStackArg at h
      cases hi : regStackInsts s.is64 s.avx arg.typeId arg.stackOffset vid st false with
      | error e => rw [hi] at h; simp [Except.map] at h
      | ok l =>
        rw [hi] at h; simp only [Except.map] at h; cases h
        obtain ⟨m', w, b, h1, h2, h3, h4⟩ := reg_stack_arg_machine s.is64 s.avx arg.typeId hdt st hst hmode arg.stackOffset vid l hi m (X vid) hg
        refine ⟨l, m', rfl, h1, ?_, ?_, Nat.le_refl _, rfl, rfl, fun id t hop => by cases hop; exact ⟨hvid, Or.inl ⟨_, rfl⟩⟩⟩
        · unfold SeesV; simp only [hr, Bool.false_eq_true, if_false]
          refine ⟨w, b, h2, h3, ?_⟩
          have : passed arg (.gp vid st) X = widen arg.typeId st (X vid) := by simp [passed, hr]
          rw [this]; exact h4
        · have := run_frame [vid] _ _ l m m'
            (fun i hi' => by rw [hm]; exact regStack_shapes s.is64 s.avx arg.typeId hdt st hst hmode arg.stackOffset vid l hi i hi') h1
          have := this.mono (r' := wregsOf s.nextV (.gp vid st)) (fun x hx => by simp at hx; subst hx; simp [wregsOf]) (Int.le_refl _) (Int.le_refl _)
          simpa [rangeOf, hr] using this

/-! ## whole value lists -/

def vidOf : ArgOp → Option Nat | .gp v _ => some v | _ => none

/-- the head value's locations are not touched by the values that follow: different virtual registers, disjoint stack ranges -/
def SepFrom (is64 : Bool) (a : FuncValue) (o : ArgOp) : List FuncValue → List ArgOp → Prop
  | a' :: as, o' :: os =>
    (∀ v, vidOf o = some v → vidOf o' ≠ some v) ∧
    (a.isReg = false → a'.isReg = false →
      slotHi is64 a.typeId a.stackOffset ≤ a'.stackOffset ∨ slotHi is64 a'.typeId a'.stackOffset ≤ a.stackOffset) ∧
    SepFrom is64 a o as os
  | _, _ => True

/-- a list of integer argument values the theorem covers -/
def GoodList (is64 : Bool) (nv : Nat) : List FuncValue → List ArgOp → Prop
  | a :: as, o :: os => GoodVal is64 nv a o ∧ SepFrom is64 a o as os ∧ GoodList is64 nv as os
  | _, _ => True

def AllSees (m : M) (X : Nat → BitVec 64) : List FuncValue → List ArgOp → List ArgOp → Prop
  | a :: as, o' :: os', o :: os => SeesV m a o' (passed a o X) ∧ AllSees m X as os' os
  | _, _, _ => True

/-- what the lowering of a value list may change: fresh registers (ids `>= nv`), the listed virtual registers, the stack ranges of
    the listed stack values -/
def TailFrame (is64 : Bool) (m m' : M) (vs : List FuncValue) (os : List ArgOp) (nv : Nat) : Prop :=
  m'.is64 = m.is64 ∧
  (∀ id, id < nv → (∀ o ∈ os, vidOf o ≠ some id) → m'.getGp id = m.getGp id) ∧
  (∀ b v bits, m.cell b = some (.dword v bits) →
    (∀ a ∈ vs, a.isReg = false → b + 4 ≤ a.stackOffset ∨ slotHi is64 a.typeId a.stackOffset ≤ b) → m'.cell b = some (.dword v bits))

theorem run_append : ∀ (l1 l2 : List XI) (m : M), run m (l1 ++ l2) = (run m l1).bind fun m1 => run m1 l2 := by
  intro l1
  induction l1 with
  | nil => intro l2 m; simp [run]
  | cons i is ih =>
    intro l2 m
    simp only [List.cons_append, run]
    cases step m i with
    | none => simp
    | some m1 => simp [ih]

theorem GoodVal.mono {is64 : Bool} {nv nv' : Nat} {a : FuncValue} {o : ArgOp} (h : GoodVal is64 nv a o) (hn : nv ≤ nv') :
    GoodVal is64 nv' a o := by
  obtain ⟨h1, h2, h3, h4, h5⟩ := h
  refine ⟨h1, h2, h3, h4, ?_⟩
  rcases h5 with h5 | ⟨vid, st, e, hs, hv⟩
  · exact Or.inl h5
  · exact Or.inr ⟨vid, st, e, hs, by omega⟩

theorem GoodList.mono {is64 : Bool} {nv nv' : Nat} (hn : nv ≤ nv') : ∀ (vs : List FuncValue) (os : List ArgOp),
    GoodList is64 nv vs os → GoodList is64 nv' vs os := by
  intro vs
  induction vs with
  | nil => intro os _; cases os <;> trivial
  | cons a as ih =>
    intro os h
    cases os with
    | nil => trivial
    | cons o os => exact ⟨h.1.mono hn, h.2.1, ih os h.2.2⟩

/-- every register operand of a good list is a virtual register below `nv` -/
theorem GoodList.vid_lt {is64 : Bool} {nv : Nat} : ∀ (vs : List FuncValue) (os : List ArgOp), vs.length = os.length →
    GoodList is64 nv vs os → ∀ o ∈ os, ∀ v, vidOf o = some v → v < nv := by
  intro vs
  induction vs with
  | nil => intro os hl _ o ho; cases os with | nil => simp at ho | cons _ _ => simp at hl
  | cons a as ih =>
    intro os hl h o ho v hv
    cases os with
    | nil => simp at ho
    | cons o0 os =>
      simp only [List.mem_cons] at ho
      rcases ho with rfl | ho
      · rcases h.1.2.2.2.2 with ⟨w, rfl⟩ | ⟨vid, st, rfl, _, hlt⟩
        · simp [vidOf] at hv
        · simp only [vidOf, Option.some.injEq] at hv; omega
      · exact ih os (by simpa using hl) h.2.2 o ho v hv

theorem SepFrom.vid_ne {is64 : Bool} {a : FuncValue} {o : ArgOp} : ∀ (vs : List FuncValue) (os : List ArgOp), vs.length = os.length →
    SepFrom is64 a o vs os → ∀ v, vidOf o = some v → ∀ o' ∈ os, vidOf o' ≠ some v := by
  intro vs
  induction vs with
  | nil => intro os hl _ v _ o' ho'; cases os with | nil => simp at ho' | cons _ _ => simp at hl
  | cons a' as ih =>
    intro os hl h v hv o' ho'
    cases os with
    | nil => simp at ho'
    | cons o0 os =>
      simp only [List.mem_cons] at ho'
      rcases ho' with rfl | ho'
      · exact h.1 v hv
      · exact ih os (by simpa using hl) h.2.2 v hv o' ho'

theorem SepFrom.range {is64 : Bool} {a : FuncValue} {o : ArgOp} : ∀ (vs : List FuncValue) (os : List ArgOp), vs.length = os.length →
    SepFrom is64 a o vs os → a.isReg = false → ∀ a' ∈ vs, a'.isReg = false →
      slotHi is64 a.typeId a.stackOffset ≤ a'.stackOffset ∨ slotHi is64 a'.typeId a'.stackOffset ≤ a.stackOffset := by
  intro vs
  induction vs with
  | nil => intro os _ _ _ a' ha'; simp at ha'
  | cons a0 as ih =>
    intro os hl h hr a' ha' hr'
    cases os with
    | nil => simp at hl
    | cons o0 os =>
      simp only [List.mem_cons] at ha'
      rcases ha' with rfl | ha'
      · exact h.2.1 hr hr'
      · exact ih os (by simpa using hl) h.2.2 hr a' ha' hr'

theorem SeesV.preserve {m m' : M} {a : FuncValue} {o' : ArgOp} {w : BitVec 64} (h : SeesV m a o' w)
    (hreg : a.isReg = true → ∀ id t, o' = .gp id t → m'.getGp id = m.getGp id)
    (hmem : a.isReg = false → ∀ b v bits, m.cell b = some (.dword v bits) →
      (b = a.stackOffset ∨ (b = (a.stackOffset : Int) + 4 ∧ tySize a.typeId > 4)) → m'.cell b = some (.dword v bits)) :
    SeesV m' a o' w := by
  unfold SeesV at h ⊢
  cases hr : a.isReg with
  | true =>
    simp only [hr, if_true] at h ⊢
    obtain ⟨id, t, ho, hv⟩ := h
    refine ⟨id, t, ho, ?_⟩
    unfold readGp at hv ⊢
    rw [hreg hr id t ho]; exact hv
  | false =>
    simp only [hr, Bool.false_eq_true, if_false] at h ⊢
    obtain ⟨v, b, hl, hb, hv⟩ := h
    refine ⟨v, b, ?_, hb, hv⟩
    unfold loadNum at hl ⊢
    cases hc : m.cell a.stackOffset with
    | none => rw [hc] at hl; simp at hl
    | some c =>
      rw [hc] at hl
      cases c with
      | dword lo lb =>
        rw [hmem hr _ lo lb hc (Or.inl rfl)]
        simp only at hl ⊢
        by_cases h4 : tySize a.typeId ≤ 4
        · simp only [h4, if_true] at hl ⊢; exact hl
        · simp only [h4, if_false] at hl ⊢
          simp only [show ¬ ((8 : Nat) = 4) by decide, if_false, if_true] at hl ⊢
          cases hc2 : m.cell ((a.stackOffset : Int) + 4) with
          | none => rw [hc2] at hl; simp at hl
          | some c2 =>
            rw [hc2] at hl
            cases c2 with
            | dword hi hb2 => rw [hmem hr _ hi hb2 hc2 (Or.inr ⟨rfl, by omega⟩)]; exact hl
            | vec _ _ => simp at hl
            | ptr _ => simp at hl
            | small _ _ => simp at hl
      | vec _ _ => simp at hl
      | ptr _ => simp at hl
      | small x n =>
        simp only at hl
        split at hl <;> split at hl <;> simp_all <;> omega

theorem AllSees.preserve {X : Nat → BitVec 64} {m m' : M} : ∀ (vs : List FuncValue) (os' os : List ArgOp),
    AllSees m X vs os' os →
    (∀ a ∈ vs, ∀ o' ∈ os', a.isReg = true → ∀ id t, o' = .gp id t → m'.getGp id = m.getGp id) →
    (∀ a ∈ vs, a.isReg = false → ∀ b v bits, m.cell b = some (.dword v bits) →
      (b = a.stackOffset ∨ (b = (a.stackOffset : Int) + 4 ∧ tySize a.typeId > 4)) → m'.cell b = some (.dword v bits)) →
    AllSees m' X vs os' os := by
  intro vs
  induction vs with
  | nil => intro os' os _ _ _; trivial
  | cons a as ih =>
    intro os' os h hreg hmem
    cases os' with
    | nil => trivial
    | cons o' os' =>
      cases os with
      | nil => trivial
      | cons o os =>
        refine ⟨h.1.preserve (fun hr id t ho => hreg a (by simp) o' (by simp) hr id t ho) (fun hr => hmem a (by simp) hr), ?_⟩
        exact ih os' os h.2 (fun a' ha' o'' ho'' => hreg a' (by simp [ha']) o'' (by simp [ho'']))
          (fun a' ha' => hmem a' (by simp [ha']))

/-- **whole value lists, integer arguments** – immediates and GP virtual registers of every integer type at register and stack
    positions, any number of them, 32- and 64-bit targets: if `lowerPack` (the argument loop of `on_before_invoke` over a list of
    values) answers kOk, the emitted instructions run on the machine, from any state in which the virtual registers hold `X`,
    leave EVERY argument's location holding `passed` – the immediate, or the register extended as the parameter type requires
    (stack positions; register positions for 8/16-bit registers; otherwise the register as it is, which is the open finding C06-K9
    for int32 -> int64) – and change nothing else below the fresh registers and outside the arguments' own stack ranges.
    Hypotheses on the inputs only (`GoodList`): integer types the target has, distinct virtual registers per argument, pairwise
    disjoint stack ranges (what `detail_matches_abi_*` give for a FuncDetail). -/
theorem pack_machine : ∀ (vs : List FuncValue) (os : List ArgOp) (s s' : LSt) (os' : List ArgOp), vs.length = os.length →
    GoodList s.is64 s.nextV vs os → lowerPack s vs os = .ok (s', os') →
    ∀ (m : M) (X : Nat → BitVec 64), m.is64 = s.is64 → (∀ o ∈ os, ∀ v, vidOf o = some v → m.getGp v = some (.num (X v) 64)) →
    ∃ blk m', s'.out = s.out ++ blk ∧ run m blk = some m' ∧ AllSees m' X vs os' os ∧ TailFrame s.is64 m m' vs os s.nextV ∧
      s.nextV ≤ s'.nextV ∧ s'.is64 = s.is64 ∧ os'.length = os.length ∧
      (∀ o' ∈ os', ∀ id t, o' = .gp id t → id < s'.nextV ∧ ((∃ o ∈ os, vidOf o = some id) ∨ s.nextV ≤ id)) := by
  intro vs
  induction vs with
  | nil =>
    intro os s s' os' hl _ h m X _ _
    cases os with
    | nil =>
      simp [lowerPack] at h
      obtain ⟨rfl, rfl⟩ := h
      exact ⟨[], m, by simp, rfl, trivial, ⟨rfl, fun _ _ _ => rfl, fun _ _ _ hc _ => hc⟩, Nat.le_refl _, rfl, rfl, fun o' ho' => by simp at ho'⟩
    | cons _ _ => simp at hl
  | cons a as ih =>
    intro os s s' os' hl hgood h m X hm hx
    cases os with
    | nil => simp at hl
    | cons o os =>
      have hl' : as.length = os.length := by simpa using hl
      obtain ⟨hgv, hsep, hgl⟩ := hgood
      simp only [lowerPack] at h
      cases h1 : lowerValue s a o with
      | error e => rw [h1] at h; simp at h
      | ok r =>
        obtain ⟨s1, o1⟩ := r
        rw [h1] at h; simp only at h
        cases h2 : lowerPack s1 as os with
        | error e => rw [h2] at h; simp at h
        | ok r2 =>
          obtain ⟨s2, os2⟩ := r2
          rw [h2] at h; simp only at h; cases h
          -- the head
          obtain ⟨blk1, m1, ho1, hr1, hsee1, hf1, hnv1, h641, _, hpass1⟩ := value_machine s a o hgv s1 o1 h1 m hm X
            (fun vid st ho => hx o (by simp) vid (by rw [ho]; rfl))
          -- the tail still finds its registers
          have hvlt := GoodList.vid_lt as os hl' hgl
          have hx1 : ∀ o' ∈ os, ∀ v, vidOf o' = some v → m1.getGp v = some (.num (X v) 64) := by
            intro o' ho' v hv
            rw [hf1.2.1 v ?_]; exact hx o' (by simp [ho']) v hv
            have hlt := hvlt o' ho' v hv
            intro hmem
            cases o with
            | gp vid st =>
              simp only [wregsOf, List.mem_cons, List.mem_nil_iff, or_false] at hmem
              rcases hmem with rfl | rfl
              · exact SepFrom.vid_ne as os hl' hsep v rfl o' ho' hv
              · omega
            | imm _ => simp [wregsOf] at hmem; omega
            | none => simp [wregsOf] at hmem; omega
            | vec _ _ => simp [wregsOf] at hmem; omega
          obtain ⟨blk2, m2, ho2, hr2, hsee2, hf2, hnv2, h642, hlen2, hpass2⟩ :=
            ih os s1 s' os2 hl' (by rw [h641]; exact GoodList.mono hnv1 as os hgl) h2 m1 X (by rw [hf1.1, hm, h641]) hx1
          refine ⟨blk1 ++ blk2, m2, by rw [ho2, ho1, List.append_assoc], by rw [run_append, hr1]; exact hr2, ⟨?_, hsee2⟩, ?_,
            by omega, by rw [h642, h641], by simp [hlen2], ?_⟩
          · -- the head's location survives the tail
            refine hsee1.preserve (fun hr id t ho => ?_) (fun hr b v bits hc hb => ?_)
            · obtain ⟨hlt, horigin⟩ := hpass1 id t ho
              refine hf2.2.1 id hlt (fun o' ho' hv => ?_)
              rcases horigin with ⟨st, rfl⟩ | hge
              · exact SepFrom.vid_ne as os hl' hsep id rfl o' ho' hv
              · have := hvlt o' ho' id hv; omega
            · refine hf2.2.2 b v bits hc (fun a' ha' hr' => ?_)
              have hd := SepFrom.range as os hl' hsep hr a' ha' hr'
              rw [h641]
              have hs : (a.stackOffset : Int) + 4 ≤ slotHi s.is64 a.typeId a.stackOffset ∧
                  (tySize a.typeId > 4 → (a.stackOffset : Int) + 8 ≤ slotHi s.is64 a.typeId a.stackOffset) := by
                unfold slotHi; constructor
                · split <;> (try split) <;> omega
                · intro h4; split <;> (try split) <;> omega
              have hs' : (a'.stackOffset : Int) ≤ slotHi s.is64 a'.typeId a'.stackOffset := by
                unfold slotHi; split <;> (try split) <;> omega
              rcases hb with rfl | ⟨rfl, h4⟩ <;> rcases hd with hd | hd
              · left; omega
              · right; omega
              · left; have := hs.2 h4; omega
              · right; omega
          · -- the frame of the whole list
            refine ⟨by rw [hf2.1, hf1.1], fun id hid hno => ?_, fun b v bits hc hno => ?_⟩
            · rw [hf2.2.1 id (by omega) (fun o' ho' => hno o' (by simp [ho'])), hf1.2.1 id ?_]
              intro hmem
              cases o with
              | gp vid st =>
                simp only [wregsOf, List.mem_cons, List.mem_nil_iff, or_false] at hmem
                rcases hmem with rfl | rfl
                · exact hno (.gp id st) (by simp) rfl
                · omega
              | imm _ => simp [wregsOf] at hmem; omega
              | none => simp [wregsOf] at hmem; omega
              | vec _ _ => simp [wregsOf] at hmem; omega
            · refine hf2.2.2 b v bits (hf1.2.2 b v bits hc ?_) (fun a' ha' hr' => by rw [h641]; exact hno a' (by simp [ha']) hr')
              unfold rangeOf
              cases hr : a.isReg with
              | true => simp only [if_true]; omega
              | false => simp only [Bool.false_eq_true, if_false]; exact hno a (by simp) hr
          · intro o' ho' id t he
            simp only [List.mem_cons] at ho'
            rcases ho' with rfl | ho'
            · obtain ⟨hlt, horigin⟩ := hpass1 id t he
              refine ⟨by omega, ?_⟩
              rcases horigin with ⟨st, rfl⟩ | hge
              · exact Or.inl ⟨.gp id st, by simp, rfl⟩
              · exact Or.inr hge
            · obtain ⟨hlt, horigin⟩ := hpass2 o' ho' id t he
              refine ⟨hlt, ?_⟩
              rcases horigin with ⟨o'', ho'', hv⟩ | hge
              · exact Or.inl ⟨o'', by simp [ho''], hv⟩
              · exact Or.inr (by omega)

/-- the argument loop over packs of one value each (every integer argument on a 64-bit target) is the value loop -/
theorem lowerArgs_singletons : ∀ (vs : List FuncValue) (os : List ArgOp) (s : LSt),
    lowerArgs s (vs.map fun v => [v]) (os.map fun o => [o]) =
      (lowerPack s vs os).map fun r => (r.1, r.2.map fun o => [o]) := by
  intro vs
  induction vs with
  | nil => intro os s; cases os <;> simp [lowerArgs, lowerPack, Except.map]
  | cons a as ih =>
    intro os s
    cases os with
    | nil => simp [lowerArgs, lowerPack, Except.map]
    | cons o os =>
      simp only [List.map_cons, lowerArgs, lowerPack]
      cases h1 : lowerValue s a o with
      | error e => simp [Except.map]
      | ok r =>
        obtain ⟨s1, o1⟩ := r
        simp only [lowerPack]
        rw [ih os s1]
        cases h2 : lowerPack s1 as os with
        | error e => simp [Except.map]
        | ok r2 => simp [Except.map]

/-- **`on_before_invoke`, whole argument lists of integer arguments (one value per argument: 64-bit targets, and 32-bit targets
    without 64-bit parameters)**: the instructions in front of the call, run from any machine state in which the virtual registers
    hold `X`, leave every argument's location holding `passed`, and the recorded `call_stack_size` covers the stack arguments. -/
theorem invoke_int_args_machine (is64 avx pops : Bool) (d : Detail) (vs : List FuncValue) (os : List ArgOp) (css0 csa0 : Nat)
    (hd : d.args = vs.map fun v => [v]) (hl : vs.length = os.length) (hgood : GoodList is64 1000 vs os) (r : Lowered)
    (h : onBeforeInvoke is64 avx pops d (os.map fun o => [o]) css0 csa0 = .ok r)
    (m : M) (X : Nat → BitVec 64) (hm : m.is64 = is64)
    (hx : ∀ o ∈ os, ∀ v, vidOf o = some v → m.getGp v = some (.num (X v) 64)) :
    ∃ m' os', run m r.pre = some m' ∧ r.args = os'.map (fun o => [o]) ∧ AllSees m' X vs os' os ∧
      TailFrame is64 m m' vs os 1000 ∧ d.argStackSize ≤ r.callStackSize := by
  unfold onBeforeInvoke at h
  rw [hd, lowerArgs_singletons] at h
  cases hp : lowerPack { is64 := is64, avx := avx, argStack := d.argStackSize, csAlign := csa0 } vs os with
  | error e => rw [hp] at h; simp [Except.map] at h
  | ok x =>
    obtain ⟨s', os'⟩ := x
    rw [hp] at h
    simp only [Except.map] at h
    cases h
    obtain ⟨blk, m', ho, hr, hsee, hf, _, _, _, _⟩ :=
      pack_machine vs os { is64 := is64, avx := avx, argStack := d.argStackSize, csAlign := csa0 } s' os' hl hgood hp m X hm hx
    have hk := lowerPack_ok d.argStackSize csa0 vs os _ s' os'
      ⟨Nat.le_refl _, Nat.le_refl _, List.Pairwise.nil, fun t ht => absurd ht (by simp)⟩ hp
    have hout : s'.out = blk := by simpa using ho
    exact ⟨m', os', by simpa [hout] using hr, rfl, hsee, hf, Nat.le_trans hk.1 (Nat.le_max_right _ _)⟩

/-! non-vacuity: SysV, `f(int64 ← imm 0x80000000, int32 ← int8 register, … seven more …, int64 ← int16 register on the stack)` -/
def exVals : List FuncValue :=
  [.reg 40 6 7, .reg 38 5 6, .reg 40 6 2, .reg 40 6 1, .reg 40 6 8, .reg 40 6 9, .stack 40 0, .stack 38 8, .stack 40 16]
def exOps : List ArgOp :=
  [.imm 0x80000000, .gp 1 34, .imm 1, .imm 2, .gp 2 38, .imm 3, .imm 0xFFFFFFFF, .gp 3 36, .gp 4 36]

theorem ex_good : GoodList true 1000 exVals exOps := by
  simp [exVals, exOps, GoodList, SepFrom, GoodVal, vidOf, slotHi, lowerValue.groupOfRt, intTys8, FuncValue.reg, FuncValue.stack, tySize]
  exact ⟨⟨1, 34, ⟨rfl, rfl⟩, by simp, by decide⟩, ⟨2, 38, ⟨rfl, rfl⟩, by simp, by decide⟩, ⟨3, 36, ⟨rfl, rfl⟩, by simp, by decide⟩,
    ⟨4, 36, ⟨rfl, rfl⟩, by simp, by decide⟩⟩

example : ∃ r, onBeforeInvoke true false false ⟨24, [], exVals.map fun v => [v], 0, 0⟩ (exOps.map fun o => [o]) 0 16 = .ok r ∧
    r.pre.length = 12 ∧ r.callStackSize = 24 := ⟨_, rfl, by decide +kernel, by decide +kernel⟩

end AsmjitVerif.C06Invoke
