/-
  C20 — formatter and logger text faithfully denotes the instruction and operands.

  Model  : Model/Format.lean (formatter, logger, number formatting; x86 name table regenerated from the compiled code)
  Spec   : Spec/FormatText.lean (architectural names, the reader of the text, denotations, monitors)
  Lemmas : Lemmas/FormatNum.lean, Lemmas/FormatColumn.lean

  Full-strength statement that is NOT proved here (it is evaluated by the monitor on every text the real code produces):
    ∀ flags env inst options extra ops, WellFormed env ops →
      monInstruction env flags inst options extra ops [] (formatInstruction flags env inst options extra ops) = true
  What is proved for all inputs: the layers that statement is made of — number texts, register names (both
  directions), instruction names, immediates, the machine-code column, and the log/buffer transcript over all histories.
  Memory-operand and whole-line parse-back are monitored + tied by correspondence only (see notes/C20.md).
-/
import AsmjitVerif.Lemmas.FormatColumn

namespace AsmjitVerif.Props.C20
open AsmjitVerif.Format AsmjitVerif.FormatText AsmjitVerif.Lemmas.FormatNum AsmjitVerif.Lemmas.FormatColumn
open AsmjitVerif.Gen.FormatTabs

set_option maxRecDepth 1000000

/-! ## register names -/

/-- every architecturally named x86 register (type, id) is printed from the compiled `reg_format_info` table under exactly
    its architectural name (table regenerated from the current sources on every run) -/
theorem x86_reg_name_correct : ∀ p ∈ x86Regs, x86PhysRegName p.1 p.2.1 = p.2.2 := by decide +kernel

/-- names are injective: reading an x86 register name back gives the one (type, id) it was printed for -/
theorem x86_reg_name_read_back : ∀ p ∈ x86Regs, lookupName x86Regs p.2.2 = some (p.1, p.2.1) := by decide +kernel

def a64Env : Env := { arch := .a64, labels := none, vregs := none }

/-- `arm::FormatterInternal::format_register` prints every AArch64 scalar register under its architectural name
    (`w0..w30, wsp, wzr, x0..x30, sp, xzr, b/h/s/d/q0..31`) -/
theorem a64_reg_name_correct : ∀ p ∈ a64Regs, armFormatRegister a64Env p.1 p.2.1 = p.2.2 := by decide +kernel

theorem a64_reg_name_read_back : ∀ p ∈ a64Regs, lookupName a64Regs p.2.2 = some (p.1, p.2.1) := by decide +kernel

-- non-vacuity: the tables are the expected size and contain the interesting rows
example : x86Regs.length = 303 ∧ a64Regs.length = 226 := by decide +kernel
example : (5, 1, "ecx".toList) ∈ x86Regs ∧ (2, 4, "spl".toList) ∈ x86Regs ∧ (6, 31, "r31".toList) ∈ x86Regs ∧ (25, 5, "fs".toList) ∈ x86Regs := by decide +kernel
example : (6, 31, "sp".toList) ∈ a64Regs ∧ (5, 63, "wzr".toList) ∈ a64Regs := by decide +kernel

/-! ## numbers (String::_op_number as the formatters call it) -/

/-- every unsigned 64-bit value printed in decimal reads back to itself -/
theorem uint_dec_parse_back (n : Nat) (h : n < two64) : parseDec (uintStr n 10) = some n := parseDec_uintStr n h

/-- every unsigned 64-bit value printed in (upper-case) hexadecimal reads back to itself -/
theorem uint_hex_parse_back (n : Nat) (h : n < two64) : parseHex (uintStr n 16) = some n := parseHex_uintStr n h

/-- `append_int`: every signed 64-bit value (given as its bit pattern) reads back to that pattern -/
theorem int_parse_back (u : Nat) (h : u < two64) : parseNumber64 (intStr u) = some u := parseNumber64_intStr u h

/-- immediates: for every flag combination the text of an immediate reads back to its 64-bit value
    (`-1`, `10`, `0xFFFFFFFFFFFFFFFF` …) -/
theorem imm_parse_back (flags u : Nat) (h : u < two64) : parseNumber64 (formatImmValue flags u) = some u := by
  have hmod : u % two64 = u := Nat.mod_eq_of_lt h
  unfold formatImmValue
  rw [hmod]
  by_cases hx : (hasBit flags ffHexImms = true ∧ u > 9)
  · simp only [hx, and_self, if_true]
    show parseNumber64 ('0' :: 'x' :: uintStr u 16) = some u
    unfold parseNumber64
    split
    · rename_i heq; simp at heq
    · simp [parseMagnitude_hex u h, h]
  · simp only [hx, if_false]
    exact int_parse_back u h

-- non-vacuity / sanity: concrete texts
example : intStr (two64 - 1) = "-1".toList ∧ uintStr 255 16 = "FF".toList ∧ uintStr 0 10 = "0".toList := by decide
example : formatImmValue ffHexImms (two64 - 1) = "0xFFFFFFFFFFFFFFFF".toList ∧ formatImmValue ffHexImms 9 = "9".toList := by decide
example : parseNumber64 "-9223372036854775808".toList = some two63 := by decide

/-! ## the machine-code column -/

/-- the column `finish_formatted_line` writes for (bytes, rel, imm) -/
def columnText (bytes : List Nat) (rel imm : Nat) : Str :=
  appendHex (bytes.take (bytes.length - rel - imm)) ++ List.replicate (rel * 2) '.' ++ appendHex (bytes.drop (bytes.length - imm))

/-- what the reader must see: the bytes themselves, `none` for the `rel` bytes of the unresolved displacement -/
def columnMeaning (bytes : List Nat) (rel imm : Nat) : List (Option Nat) :=
  (bytes.take (bytes.length - rel - imm)).map some ++ List.replicate rel none ++ (bytes.drop (bytes.length - imm)).map some

/-- the machine-code column reads back to exactly the bytes appended, with dots exactly over the displacement field -/
theorem machine_code_column_exact (bytes : List Nat) (rel imm : Nat) (hb : ∀ b ∈ bytes, b < 256) :
    parseColumn (columnText bytes rel imm) = some (columnMeaning bytes rel imm) := by
  have h1 : ∀ b ∈ bytes.take (bytes.length - rel - imm), b < 256 := fun b hm => hb b (List.mem_of_mem_take hm)
  have h2 : ∀ b ∈ bytes.drop (bytes.length - imm), b < 256 := fun b hm => hb b (List.mem_of_mem_drop hm)
  unfold columnText columnMeaning
  rw [List.append_assoc, parseColumn_hex _ h1, parseColumn_dots]
  have := parseColumn_hex _ h2 []
  simp only [List.append_nil] at this
  rw [this]
  simp [parseColumn]

/-- … and no byte is lost or invented: the column has one entry per appended byte, equal to it wherever it is not a dot -/
theorem machine_code_column_covers (bytes : List Nat) (rel imm : Nat) (h : rel + imm ≤ bytes.length) :
    (columnMeaning bytes rel imm).length = bytes.length ∧
    ∀ (k b : Nat), (columnMeaning bytes rel imm)[k]? = some (some b) → bytes[k]? = some b := by
  constructor
  · simp [columnMeaning]; omega
  · intro k b hk
    unfold columnMeaning at hk
    by_cases h1 : k < bytes.length - rel - imm
    · rw [List.append_assoc, List.getElem?_append_left (by simp; omega)] at hk
      simp only [List.getElem?_map, List.getElem?_take, h1, if_true, Option.map_eq_some_iff] at hk
      obtain ⟨a, ha, hab⟩ := hk
      simp at hab; subst hab; exact ha
    · by_cases h2 : k < bytes.length - imm
      · rw [List.append_assoc, List.getElem?_append_right (by simp; omega)] at hk
        rw [List.getElem?_append_left (by simp; omega)] at hk
        rw [List.getElem?_replicate] at hk
        split at hk <;> simp at hk
      · rw [List.getElem?_append_right (by simp; omega)] at hk
        simp only [List.length_append, List.length_map, List.length_take, List.length_replicate, List.getElem?_map,
          List.getElem?_drop, Option.map_eq_some_iff] at hk
        obtain ⟨a, ha, hab⟩ := hk
        simp at hab; subst hab
        have : bytes.length - imm + (k - (min (bytes.length - rel - imm) bytes.length + rel)) = k := by omega
        rw [this] at ha; exact ha

/-- the column is literally what `finish_formatted_line` appends after `; ` when there is machine code and no comment -/
theorem finish_line_shape (sb : Str) (pad0 pad1 : Nat) (bytes : List Nat) (rel imm : Nat) (hne : bytes ≠ []) :
    finishFormattedLine sb pad0 pad1 (some bytes) rel imm none =
      padEnd sb (paddingOf pad0 44) ++ [';', ' '] ++ columnText bytes rel imm ++ ['\n'] := by
  have : bytes.length ≠ 0 := by cases bytes <;> simp_all
  simp [finishFormattedLine, columnText, this]

example : columnText [0x81, 0x05, 0, 0, 0, 0, 0x78, 0x56, 0x34, 0x12] 4 4 = "8105........78563412".toList := by decide
example : parseColumn "74..".toList = some [some 0x74, none] := by decide

/-! ## the log is a transcript of the code buffer (all histories) -/

def runLog (flags : Nat) (env : Env) (indent pad0 pad1 : Nat) (es : List Emitted) : LogState :=
  es.foldl (LogState.emit flags env indent pad0 pad1) {}

theorem runLog_append (flags : Nat) (env : Env) (indent pad0 pad1 : Nat) (es : List Emitted) (s : LogState) :
    (es.foldl (LogState.emit flags env indent pad0 pad1) s).buffer = s.buffer ++ es.flatMap (·.bytes) ∧
    (es.foldl (LogState.emit flags env indent pad0 pad1) s).content =
      s.content ++ es.flatMap (fun e => logInstructionEmitted flags env indent pad0 pad1 e.instId e.options e.extra e.ops e.bytes e.rel e.imm e.comment) := by
  induction es generalizing s with
  | nil => simp
  | cons e rest ih =>
    simp only [List.foldl_cons, List.flatMap_cons]
    have := ih (LogState.emit flags env indent pad0 pad1 s e)
    simp only [LogState.emit] at this ⊢
    constructor
    · rw [this.1, List.append_assoc]
    · rw [this.2, List.append_assoc]

/-- For every history of emitted instructions: the code buffer is the concatenation of the instructions' bytes and the
    logger content is the concatenation of their lines, in the same order — line k of the log is the line of the k-th
    instruction, whose column (previous theorems) reads back to exactly that instruction's bytes. -/
theorem log_is_transcript (flags : Nat) (env : Env) (indent pad0 pad1 : Nat) (es : List Emitted) :
    (runLog flags env indent pad0 pad1 es).buffer = es.flatMap (·.bytes) ∧
    (runLog flags env indent pad0 pad1 es).content =
      es.flatMap (fun e => logInstructionEmitted flags env indent pad0 pad1 e.instId e.options e.extra e.ops e.bytes e.rel e.imm e.comment) := by
  have := runLog_append flags env indent pad0 pad1 es {}
  simpa [runLog] using this

/-- every log line ends the line: one `\n` terminated record per emitted instruction -/
theorem log_line_terminated (flags : Nat) (env : Env) (indent pad0 pad1 : Nat) (e : Emitted) :
    (logInstructionEmitted flags env indent pad0 pad1 e.instId e.options e.extra e.ops e.bytes e.rel e.imm e.comment).getLast? = some '\n' := by
  unfold logInstructionEmitted finishFormattedLine
  split <;> simp

end AsmjitVerif.Props.C20
