/-
  C20 — formatter and logger text faithfully denotes the instruction and operands.
-/
import AsmjitVerif.Model.Format
import AsmjitVerif.Spec.FormatText

namespace AsmjitVerif.Props.C20
open AsmjitVerif.Format AsmjitVerif.FormatText

set_option maxRecDepth 100000

/-- every architecturally named x86 register (type, id) is printed by the compiled `reg_format_info` table under exactly
    its architectural name (table regenerated from the current sources on every run) -/
theorem x86_reg_name_correct :
    ∀ p ∈ x86Regs, x86PhysRegName p.1 p.2.1 = p.2.2 := by decide +kernel

end AsmjitVerif.Props.C20
